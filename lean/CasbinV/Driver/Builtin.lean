import CasbinV.Proto
import CasbinV.Model.Builtin
import CasbinV.Spec.Builtin
/-! driver family `builtin`: the built-in matching functions (C13): model and executable specification -/
namespace Casbin.Driver.Builtin
open Casbin.Builtin Casbin.Builtin.Spec Proto

def showErr : Err → String
  | .reError => "!reError" | .valueError => "!valueError" | .k4Tokens => "!k4Tokens"

def showOut {α : Type} (f : α → String) : Out α → String
  | .ok a => f a | .err e => showErr e | .outside => "?"

def showOpt {α : Type} (f : α → String) : Option α → String
  | some a => f a | none => "?"

def encL (s : Str) : String := encStr (String.ofList s)

def ms (m s : String) : String := "model=" ++ m ++ " spec=" ++ s

/-- spec column of the boolean regex-family functions: for documented-form patterns (every key) -/
def specK (toks : Option (List KTok)) (k : Str) : String :=
  showOpt (fun ts => encBool (denK ts k)) toks

def showMatch : Option (List Str) → String
  | none => "N"
  | some caps => "M:" ++ encList (caps.map encL) ","

def handle (fs : List String) : String :=
  match fs with
  | [op, a, b] =>
    (match decStr a, decStr b with
     | some a, some b =>
       let k := a.toList
       let p := b.toList
       match op with
       | "keymatch" => ms (encBool (keyMatch k p)) (encBool (keyMatchSpec k p))
       | "keyget" => ms (encL (keyGet k p)) (encL (keyGetSpec k p))
       | "keymatch2" => ms (showOut encBool (keyMatch2 k p)) (specK (docTok2 p) k)
       | "keymatch3" => ms (showOut encBool (keyMatch3 k p)) (specK (tok3 p) k)
       | "keymatch5" => ms (showOut encBool (keyMatch5 k p)) (specK (tok5 p) (dropQuery k))
       | "keymatch4" =>
         ms (showOut encBool (keyMatch4 k p)) (showOpt encBool (keyMatch4Spec k p))
       | "glob" => ms (encBool (glob p k)) (encBool (globSpec p k))
       | "ip" => ms (showOut encBool (ipMatch k p)) (showOpt encBool (ipSpec k p))
       | "remodel" => ms (showOut showMatch (reMatchFull k p)) "?"
       | "range" =>
         -- a = the pattern suffix after `[`, b = the one test character
         (match p with
          | [t] =>
            let m := match rangeMatch k t with | none => "-1" | some r => toString (k.length - r.length)
            let s := match parseClass k with
              | none => "-1"
              | some (neg, items, r) => if inItems t items != neg then toString (k.length - r.length) else "-1"
            ms m s
          | _ => "bad-op")
       | _ => "bad-op"
     | _, _ => "bad-op")
  | [op, a, b, c] =>
    (match decStr a, decStr b, decStr c with
     | some a, some b, some c =>
       let k := a.toList
       let p := b.toList
       let v := c.toList
       match op with
       | "keyget2" => ms (showOut encL (keyGet2 k p v)) (showOpt encL (keyGet2Spec k p v))
       | "keyget3" => ms (showOut encL (keyGet3 k p v)) (showOpt encL (keyGet3Spec k p v))
       | _ => "bad-op"
     | _, _, _ => "bad-op")
  | [op, a] =>
    (match decStr a with
     | some a =>
       let p := a.toList
       match op with
       | "rewrite2" => ms (encL (rewrite2 p)) "?"
       | "rewrite3" => ms (encL (rewrite3 p)) "?"
       | "rewrite4" => ms (encL (rewrite4 p)) "?"
       | "rewrite5" => ms (encL (rewrite5 p)) "?"
       | "rewriteg2" => ms (encL (rewriteGet2 p)) "?"
       | "rewriteg3" => ms (encL (rewriteGet3 p)) "?"
       | "names2" => ms (encList ((namesVar varLenColon nameColon 0 (replSlashStar p)).map encL) ",") "?"
       | "names3" => ms (encList ((namesVar varLenBraceLazy nameBrace 0 (replSlashStar p)).map encL) ",") "?"
       | "names4" => ms (encList ((namesVar varLenBraceGreedy nameBrace 0 (replSlashStar p)).map encL) ",") "?"
       | _ => "bad-op"
     | none => "bad-op")
  | _ => "bad-op"

end Casbin.Driver.Builtin
