import CasbinV.Proto
import CasbinV.Model.Policy
/-! driver family `policy` (stateful): `casbin/model/policy.py` model and the ordered-set specification (C06, C07).

State: per assertion key (e.g. `p:p`, `g:g2`) the model's rule list and the *arrival list* of the specification
(the duplicate-free set in order of arrival; for a priority assertion the specified order is the stable sort of it).
Answer: `model=<result>@<policy dump> spec=<result>@<policy dump>`; `spec=?` when the property leaves it open. -/
namespace Casbin.Driver.Policy
open Casbin.Policy Proto

structure St where
  pol : List (String × List Rule) := []
  arr : List (String × List Rule) := []

def get (m : List (String × List Rule)) (k : String) : List Rule := (m.lookup k).getD []
def put (m : List (String × List Rule)) (k : String) (v : List Rule) : List (String × List Rule) :=
  (k, v) :: m.filter (·.1 != k)

def showErr : PErr → String
  | .indexError => "!IndexError" | .priorityMismatch => "!priorityMismatch"

def optNat (s : String) : Option (Option Nat) := if s == "-" then some none else s.toNat?.map some

/-- keep the first occurrence of every rule -/
def dedup : List Rule → List Rule
  | [] => []
  | r :: rs => r :: (dedup rs).filter (· != r)

/-- specified stored order: arrival order, or its stable sort by numeric priority -/
def specOrder (pi : Option Nat) (arr : List Rule) : List Rule :=
  match pi with | none => arr | some i => sortByPriority i arr

def allNumeric (pi : Option Nat) (l : List Rule) : Bool :=
  match pi with | none => true | some i => l.all fun r => (prioOf i r).isSome

def answer (mres : String) (mpol : List Rule) (sres : Option (String × List Rule)) : String :=
  "model=" ++ mres ++ "@" ++ encRules mpol ++ " spec=" ++
    (match sres with | none => "?" | some (r, p) => r ++ "@" ++ encRules p)

def step (s : St) (fs : List String) : St × String :=
  match fs with
  | ["set", k, rules] =>
    match decRules rules with
    | some rs => ({ pol := put s.pol k rs, arr := put s.arr k rs }, "ok")
    | none => (s, "bad-op")
  | ["clear"] => ({}, "ok")
  | ["clearkey", k] =>
    -- `clear_policy()`: the rule set is empty afterwards (what it says about later adds is the next lines' business)
    ({ pol := put s.pol k [], arr := put s.arr k [] }, answer "-" [] (some ("-", [])))
  | ["add", k, pi, rule] =>
    match optNat pi, decRule rule with
    | some pi, some r =>
      let l := get s.pol k
      let a := get s.arr k
      let (l', b) := add pi l r
      let (a', sb) := Spec.add a r
      let sp := if allNumeric pi a' then some (encBool sb, specOrder pi a') else none
      ({ pol := put s.pol k l', arr := put s.arr k a' }, answer (encBool b) l' sp)
    | _, _ => (s, "bad-op")
  | ["addmany", k, pi, rules] =>
    match optNat pi, decRules rules with
    | some pi, some rs =>
      let l := get s.pol k
      let a := get s.arr k
      let (l', b) := addMany pi l rs
      -- a batch either applies to all of its rules (each stored once) or changes nothing
      let (a', sb) := if rs.any (· ∈ a) then (a, false) else (a ++ dedup rs, true)
      let sp := if allNumeric pi a' then some (encBool sb, specOrder pi a') else none
      ({ pol := put s.pol k l', arr := put s.arr k a' }, answer (encBool b) l' sp)
    | _, _ => (s, "bad-op")
  | ["remove", k, pi, rule] =>
    match optNat pi, decRule rule with
    | some pi, some r =>
      let l := get s.pol k
      let a := get s.arr k
      let (l', b) := remove l r
      let (a', sb) := Spec.remove a r
      let sp := if allNumeric pi a' then some (encBool sb, specOrder pi a') else none
      ({ pol := put s.pol k l', arr := put s.arr k a' }, answer (encBool b) l' sp)
    | _, _ => (s, "bad-op")
  | ["removemany", k, pi, rules] =>
    match optNat pi, decRules rules with
    | some pi, some rs =>
      let l := get s.pol k
      let a := get s.arr k
      let (l', b) := removeMany l rs
      let (a', sb) := Spec.removeMany a rs
      let sp := if allNumeric pi a' then some (encBool sb, specOrder pi a') else none
      ({ pol := put s.pol k l', arr := put s.arr k a' }, answer (encBool b) l' sp)
    | _, _ => (s, "bad-op")
  | ["removewitheffected", k, rules] =>
    match decRules rules with
    | some rs =>
      let l := get s.pol k
      let a := get s.arr k
      let (l', eff) := removeManyWithEffected l rs
      let a' := a.filter (fun x => !rs.contains x)
      ({ pol := put s.pol k l', arr := put s.arr k a' },
        answer (encRules eff) l' (some (encRules (dedup (rs.filter (· ∈ a))), a')))
    | none => (s, "bad-op")
  | ["removefiltered", k, pi, idx, vals] =>
    match optNat pi, idx.toNat?, decStrList vals with
    | some pi, some idx, some vals =>
      let l := get s.pol k
      let a := get s.arr k
      let inRange := a.all fun r => idx + vals.length ≤ r.length
      match removeFiltered l idx vals with
      | .error e => (s, answer (showErr e) l (if inRange then some ("?", a) else none))
      | .ok (l', b) =>
        let (a', sb) := Spec.removeFiltered a idx vals
        let sp := if inRange && allNumeric pi a' then some (encBool sb, specOrder pi a') else none
        ({ pol := put s.pol k l', arr := put s.arr k (if inRange then a' else l') }, answer (encBool b) l' sp)
    | _, _, _ => (s, "bad-op")
  | ["removefilteredeff", k, pi, idx, vals] =>
    match optNat pi, idx.toNat?, decStrList vals with
    | some pi, some idx, some vals =>
      let l := get s.pol k
      let a := get s.arr k
      let inRange := a.all fun r => idx + vals.length ≤ r.length
      match removeFilteredReturnsEffects l idx vals with
      | .error e => (s, answer (showErr e) l none)
      | .ok (l', eff) =>
        -- the removal selects what the filtered read selects (no values: every rule)
        let a' := (Spec.removeFiltered a idx vals).1
        let seff := Spec.getFiltered (specOrder pi a) idx vals
        let sp := if inRange && allNumeric pi a then some (encRules seff, specOrder pi a') else none
        ({ pol := put s.pol k l', arr := put s.arr k (if inRange then a' else l') }, answer (encRules eff) l' sp)
    | _, _, _ => (s, "bad-op")
  | ["updatefiltered", k, news, idx, vals] =>
    match decRules news, idx.toNat?, decStrList vals with
    | some news, some idx, some vals =>
      let l := get s.pol k
      let a := get s.arr k
      let inRange := a.all fun r => idx + vals.length ≤ r.length
      match updateFiltered l news idx vals with
      | .error e => (s, answer (showErr e) l none)
      | .ok (l', b) =>
        let (a', sb) := Spec.updateFiltered a news idx vals
        let sp := if inRange then some (encBool sb, a') else none
        -- past a disagreement with the specification (open finding F16) the specification follows the code
        ({ pol := put s.pol k l', arr := put s.arr k l' }, answer (encBool b) l' sp)
    | _, _, _ => (s, "bad-op")
  | ["update", k, pt, old, new] =>
    match optNat pt, decRule old, decRule new with
    | some pt, some o, some n =>
      let l := get s.pol k
      let a := get s.arr k
      match update pt l o n with
      | .error e => (s, answer (showErr e) l none)
      | .ok (l', b) =>
        let (a', sb) := Spec.update a o n
        -- with a priority token the stored order is only specified when the priority is unchanged (else the call raises)
        let sp := match pt with
          | none => some (encBool sb, a')
          | some _ => none
        ({ pol := put s.pol k l', arr := put s.arr k (match pt with | none => a' | some _ => l') }, answer (encBool b) l' sp)
    | _, _, _ => (s, "bad-op")
  | ["updatemany", k, pt, olds, news] =>
    match optNat pt, decRules olds, decRules news with
    | some pt, some os, some ns =>
      let l := get s.pol k
      match updateMany pt l os ns with
      | .error e => (s, answer (showErr e) l none)
      | .ok (l', b) =>
        -- without a priority token the batch update is specified: all pairs at once, in place, or nothing
        -- (`Props/C06u.updateMany_refines`); with one the call may raise and the order is C07's business
        let sp := match pt with
          | none => let (a', sb) := Spec.updateMany (get s.arr k) os ns; some (encBool sb, a')
          | some _ => none
        ({ pol := put s.pol k l', arr := put s.arr k l' }, answer (encBool b) l' sp)
    | _, _, _ => (s, "bad-op")
  | ["has", k, rule] =>
    match decRule rule with
    | some r =>
      let l := get s.pol k
      let a := get s.arr k
      (s, answer (encBool (has l r)) l (some (encBool (decide (r ∈ a)), l)))
    | none => (s, "bad-op")
  | ["get", k, pi] =>
    match optNat pi with
    | some pi =>
      let l := get s.pol k
      let a := get s.arr k
      (s, answer (encRules l) l (if allNumeric pi a then some (encRules (specOrder pi a), specOrder pi a) else none))
    | none => (s, "bad-op")
  | ["getfiltered", k, pi, idx, vals] =>
    match optNat pi, idx.toNat?, decStrList vals with
    | some pi, some idx, some vals =>
      let l := get s.pol k
      let a := get s.arr k
      let inRange := a.all fun r => idx + vals.length ≤ r.length
      match getFiltered l idx vals with
      | .error e => (s, answer (showErr e) l none)
      | .ok res =>
        let sp := if inRange && allNumeric pi a then some (encRules (Spec.getFiltered (specOrder pi a) idx vals), specOrder pi a) else none
        (s, answer (encRules res) l sp)
    | _, _, _ => (s, "bad-op")
  | ["values", k, idx] =>
    match idx.toNat? with
    | some idx =>
      let l := get s.pol k
      match valuesForField l idx with
      | .error e => (s, answer (showErr e) l none)
      | .ok vs => (s, answer (encStrList vs) l none)
    | none => (s, "bad-op")
  | ["sortsubj", k, dom, g] =>
    match optNat dom, decRules g with
    | some dom, some g =>
      let l := get s.pol k
      match sortBySubjectHierarchy dom g l with
      | .ok l' => ({ pol := put s.pol k l', arr := put s.arr k l' }, answer "-" l' none)
      | .error .cycle => (s, answer "!cycle" l none)
      | .error .fuel => (s, answer "!fuel" l none)
    | _, _ => (s, "bad-op")
  | ["sortprio", k, pi] =>
    match pi.toNat? with
    | some pi =>
      let l := get s.pol k
      if l.all (fun r => (prioOf pi r).isSome) then
        let l' := sortByPriority pi l
        ({ s with pol := put s.pol k l' }, answer "-" l' (some ("-", sortByPriority pi (get s.arr k))))
      else (s, "out-of-domain")
    | none => (s, "bad-op")
  | _ => (s, "bad-op")

/-- read-fed calls: the argument of the batch call is what a read of the current state returns
    (`remove_policies(get_filtered_policy(idx, vals))`, `update_policies(get_policy(), …)`); the model has value
    semantics, so these are plain compositions -/
def stepR (s : St) (fs : List String) : St × String :=
  match fs with
  | ["removeread", k, pi, idx, vals] =>
    match idx.toNat?, decStrList vals with
    | some idx, some vals =>
      match getFiltered (get s.pol k) idx vals with
      | .error e => (s, answer (showErr e) (get s.pol k) none)
      | .ok rs => step s ["removemany", k, pi, encRules rs]
    | _, _ => (s, "bad-op")
  | ["updateread", k, pt, tag] =>
    let rs := get s.pol k
    let ns := rs.map fun r => r.dropLast ++ [r.getLast?.getD "" ++ tag]
    step s ["updatemany", k, pt, encRules rs, encRules ns]
  | _ => step s fs

end Casbin.Driver.Policy
