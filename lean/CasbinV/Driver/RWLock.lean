import CasbinV.Proto
import CasbinV.Model.RWLock
import CasbinV.Gen.RWLockProg
/-! driver family `rwlock` (stateful): the instruction-list interpreter of `Model/RWLock.lean` applied to the
    expected program (`exp`) or to the program regenerated from `casbin/util/rwlock.py` by T3 (`gen`).

    init <exp|gen> <scripts>          scripts: `;`-separated strings over r/w, one per thread, one letter per round
    spawn <script>                    add a thread
    step <tid> | run <tid> | wake <tid>   one instruction-level step | one scheduling step (step, then on through the
                                      critical section until the mutex is released) | spurious wake-up
    enabled | state | prog
    bfs <exp|gen> <scripts> <excl|pref|dead> <micro|macro> <depth>   shortest violating schedule or `none`

    Answers to step/run/wake: `model=<state> spec=<verdict>`; verdict = what the property says about the transition:
    `ok`, or `excl` (a writer inside is not alone), `pref` (a reader got inside while a writer was waiting), `dead`
    (nothing enabled, not all done), `cinv` (expected program only: the invariant of the counter abstraction fails on
    `abs state` — excluded by `Props/C16.lean`). -/
namespace Casbin.Driver.RWLock
open Casbin.RW Proto

structure St where
  useGen : Bool
  s : Sys

def St.prog (st : St) : Prog := if st.useGen then Casbin.Gen.rwlockProg else expected

def initSt : St := { useGen := false, s := expected.init [] }

def showRole : Role → String | .reader => "R" | .writer => "W"
def showPhase : Phase → String | .want => "want" | .hold => "hold" | .sleep => "sleep" | .woken => "woken"

def showLoc (t : Thread) : String :=
  match t.loc with
  | .idle => if t.todo.isEmpty then "done" else "idle"
  | .inside r => showRole r ++ ".in"
  | .exec r lv ph rest => showRole r ++ (if lv then ".rel." else ".acq.") ++ showPhase ph ++ "." ++ toString rest.length

def showSys (s : Sys) : String :=
  "ar=" ++ toString s.v.ar ++ " ww=" ++ toString s.v.ww ++ " wa=" ++ encBool s.v.wa ++ "|" ++
    ",".intercalate (s.ts.map showLoc)

def parseScript (w : String) : Option (List Role) :=
  w.toList.mapM fun c => if c == 'r' then some Role.reader else if c == 'w' then some Role.writer else none

def parseScripts (w : String) : Option (List (List Role)) := (decList w).mapM parseScript

def verdict (P : Prog) (isExp : Bool) (s s' : Sys) : String :=
  if !exclOk s' then "excl"
  else if !prefOk s s' then "pref"
  else if deadlocked P s' then "dead"
  else if isExp && !(abs s').invOk then "cinv"
  else "ok"

def answer (st : St) (r : Option Sys) : St × String :=
  match r with
  | none => (st, "model=disabled spec=-")
  | some s' => ({ st with s := s' }, "model=" ++ showSys s' ++ " spec=" ++ verdict st.prog (!st.useGen) st.s s')

def parseProg : String → Option Bool | "gen" => some true | "exp" => some false | _ => none
def parseBad : String → Option Bad | "excl" => some .excl | "pref" => some .pref | "dead" => some .dead | _ => none

def handle (st : St) (fs : List String) : St × String :=
  match fs with
  | ["init", p, scripts] =>
    match parseProg p, parseScripts scripts with
    | some g, some sc =>
      let st' : St := { useGen := g, s := (if g then Casbin.Gen.rwlockProg else expected).init sc }
      (st', "model=" ++ showSys st'.s ++ " spec=ok")
    | _, _ => (st, "bad-op")
  | ["spawn", script] =>
    match parseScript script with
    | some sc => ({ st with s := { st.s with ts := st.s.ts ++ [{ loc := .idle, todo := sc }] } }, toString st.s.ts.length)
    | none => (st, "bad-op")
  | ["step", i] => match i.toNat? with | some i => answer st (step st.prog st.s i) | none => (st, "bad-op")
  | ["run", i] => match i.toNat? with | some i => answer st (macroStep st.prog st.s i) | none => (st, "bad-op")
  | ["wake", i] => match i.toNat? with | some i => answer st (spurious st.s i) | none => (st, "bad-op")
  | ["enabled"] => (st, encList ((enabled st.prog st.s).map toString))
  | ["state"] => (st, showSys st.s)
  | ["prog"] => (st, if Casbin.Gen.rwlockProg == expected then "gen=exp" else "gen≠exp " ++ (reprStr Casbin.Gen.rwlockProg).replace "\n" " ")
  | ["bfs", p, scripts, bad, gran, depth] =>
    match parseProg p, parseScripts scripts, parseBad bad, depth.toNat? with
    | some g, some sc, some b, some d =>
      if gran != "micro" && gran != "macro" then (st, "bad-op")
      else
        match bfs (if g then Casbin.Gen.rwlockProg else expected) b (gran == "micro") sc d with
        | some sched => (st, "sched=" ++ encList (sched.map toString))
        | none => (st, "none")
    | _, _, _, _ => (st, "bad-op")
  | _ => (st, "bad-op")

end Casbin.Driver.RWLock
