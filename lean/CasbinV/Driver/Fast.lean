import CasbinV.Proto
import CasbinV.Model.Fast
/-! driver family `fast` (stateful): the `FastEnforcer` model (indexed container, `model=`) next to the
    plain list-of-rules semantics of `Enforcer` (`spec=`) over one operation alphabet (C19).

    `init <acl|rbac|rbacdeny> <k1;k2;…>` first; then one operation per line.  Rule lists are printed
    sorted and duplicate-free (they come out of Python sets / are compared as sets). -/
namespace Casbin.Driver.Fast
open Casbin Casbin.Fast Proto

structure St where
  sh : Shape
  order : List Nat
  fs : FastState order
  ps : PlainState

def shapeOf : String → Option Shape
  | "acl" => some .acl | "rbac" => some .rbac | "rbacdeny" => some .rbacDeny | _ => none

def showEnfErr : Err → String
  | .invalidRequestSize => "!invalidRequestSize" | .invalidPolicySize => "!invalidPolicySize"
  | .matcherResultType => "!matcherResultType" | .evalOnEmptyPolicy => "!evalOnEmptyPolicy"
  | .effectToBool => "!effectToBool" | .unsupportedEffect => "!unsupportedEffect"

def showErr : PErr → String
  | .indexError => "!indexError" | .keyError => "!keyError" | .attributeError => "!attributeError"
  | .enf e => showEnfErr e

def dedupSorted : List String → List String
  | a :: b :: rest => if a == b then dedupSorted (b :: rest) else a :: dedupSorted (b :: rest)
  | l => l

/-- canonical form of a rule set -/
def canonRules (rs : List Rule) : String :=
  encList (dedupSorted ((rs.map encRule).toArray.qsort (· < ·)).toList) ";"

def showRes : Res → String
  | .bool b => encBool b
  | .rules rs => canonRules rs
  | .err e => showErr e
  | .unit => "-"

def decNats (s : String) : Option (List Nat) := (decList s ";").mapM (·.toNat?)

def parseOp (fs : List String) : Option Op :=
  match fs with
  | ["add", r] => (decRule r).map .add
  | ["addmany", rs] => (decRules rs).map .addMany
  | ["rm", r] => (decRule r).map .remove
  | ["rmmany", rs] => (decRules rs).map .removeMany
  | ["rmf", i, vs] => match i.toNat?, decRule vs with | some i, some vs => some (.removeFiltered i vs) | _, _ => none
  | ["rmfe", i, vs] => match i.toNat?, decRule vs with | some i, some vs => some (.removeFilteredEffects i vs) | _, _ => none
  | ["values", i] => i.toNat?.map .values
  | ["upd", o, n] => match decRule o, decRule n with | some o, some n => some (.update o n) | _, _ => none
  | ["updmany", os, ns] => match decRules os, decRules ns with | some o, some n => some (.updateMany o n) | _, _ => none
  | ["clear"] => some .clear
  | ["load", ps, gs] => match decRules ps, decRules gs with | some p, some g => some (.load p g) | _, _ => none
  | ["has", r] => (decRule r).map .has
  | ["get"] => some .get
  | ["getf", i, vs] => match i.toNat?, decRule vs with | some i, some vs => some (.getFiltered i vs) | _, _ => none
  | ["enf", r] => (decRule r).map .enforce
  | ["addg", r] => (decRule r).map .addG
  | ["rmg", r] => (decRule r).map .removeG
  | _ => none

/-- decisions over a request universe; the fast side threads its state (the filter must be cleared
    after every call, also after a raising one) -/
def obsFast {order : List Nat} (sh : Shape) (s : FastState order) : List (List String) → FastState order × List String
  | [] => (s, [])
  | r :: rs =>
    let (s1, res) := stepFast sh s (.enforce r)
    let (s2, out) := obsFast sh s1 rs
    (s2, showRes res :: out)

def obsPlain (sh : Shape) (s : PlainState) (reqs : List (List String)) : List String :=
  reqs.map fun r => showRes (stepPlain sh s (.enforce r)).2

def step (st : Option St) (fs : List String) : Option St × String :=
  match fs with
  | ["init", sh, order] =>
    match shapeOf sh, decNats order with
    | some sh, some order => (some { sh := sh, order := order, fs := {}, ps := {} }, "ok")
    | _, _ => (st, "bad-op")
  | ["obs", reqs] =>
    match st, decRules reqs with
    | some st, some reqs =>
      let (f', decsF) := obsFast st.sh st.fs reqs
      let decsP := obsPlain st.sh st.ps reqs
      let (_, rulesF) := stepFast st.sh f' .get
      let (_, rulesP) := stepPlain st.sh st.ps .get
      (some { st with fs := f' },
        "model=" ++ showRes rulesF ++ "#" ++ ",".intercalate decsF ++
        " spec=" ++ showRes rulesP ++ "#" ++ ",".intercalate decsP)
    | _, _ => (st, "bad-op")
  | _ =>
    match st, parseOp fs with
    | some st, some op =>
      let (f', rf) := stepFast st.sh st.fs op
      let (p', rp) := stepPlain st.sh st.ps op
      (some { st with fs := f', ps := p' }, "model=" ++ showRes rf ++ " spec=" ++ showRes rp)
    | _, _ => (st, "bad-op")

end Casbin.Driver.Fast
