import CasbinV.Proto
import CasbinV.Model.Persist
import CasbinV.Spec.Persist
/-! driver family `persist`: the persistence model (C10, C12) and its executable specification.

Encodings (on top of `Proto`): a rule is `%` (no field) or `|`-separated encoded fields; a rule list is `~` or
`;`-separated rules; a store is `~` or `&`-separated entries `<key>=<arity>=<rules>`; a filter is `N` (None) or
`<P>^<G>` (two rules).  The family is stateful for the enforcer operations (`init`, `load`, `loadf`, `loadinc`, `save`,
`asave`, `obs`). -/
namespace Casbin.Driver.Persist
open Casbin.Py Casbin.Persist Casbin.Persist.Spec Proto

def ofStr (s : Str) : String := String.ofList s
def encS (s : Str) : String := encStr (ofStr s)
def decS (s : String) : Option Str := (decStr s).map String.toList

def encRule' (r : Rule) : String := if r.isEmpty then "%" else "|".intercalate (r.map encS)
def decRule' (s : String) : Option Rule := if s == "%" then some [] else (s.splitOn "|").mapM decS
def encRules' (rs : List Rule) : String := if rs.isEmpty then "~" else ";".intercalate (rs.map encRule')
def decRules' (s : String) : Option (List Rule) := if s == "~" then some [] else (s.splitOn ";").mapM decRule'

def encEntry (e : Entry) : String := encS e.key ++ "=" ++ toString e.arity ++ "=" ++ encRules' e.rules
def decEntry (s : String) : Option Entry :=
  match s.splitOn "=" with
  | [k, a, rs] =>
    match decS k, a.toNat?, decRules' rs with
    | some k, some a, some rs => some { key := k, arity := a, rules := rs }
    | _, _, _ => none
  | _ => none
def encStore (st : Store) : String := if st.isEmpty then "~" else "&".intercalate (st.map encEntry)
def decStore (s : String) : Option Store := if s == "~" then some [] else (s.splitOn "&").mapM decEntry

def decFilter (s : String) : Option (Option Filter) :=
  if s == "N" then some none
  else match s.splitOn "^" with
    | [p, g] =>
      match decRule' p, decRule' g with
      | some p, some g => some (some { P := p, G := g })
      | _, _ => none
    | _ => none

def showErr : Err → String
  | .indexError => "!indexError" | .invalidLine => "!invalidLine" | .invalidFilter => "!invalidFilter"
  | .cannotSaveFiltered => "!cannotSaveFiltered" | .roleDefinition => "!roleDefinition"
  | .invalidPath => "!invalidPath"

def showOE : Option Err → String
  | none => "ok" | some e => showErr e

def showParsed : Option (Str × Rule) → String
  | none => "skip"
  | some (k, r) => encRule' (k :: r)

def kindTrim : String → Option Bool
  | "file" => some true | "string" => some false | _ => none

def loadKind (trim : Bool) (text : Str) (st : Store) : Store × Option Err :=
  if trim then loadFile text st else loadString text st
def saveKind (trim : Bool) (st : Store) : Str := if trim then saveFile st else saveString st

/-- what C10's second sentence promises for a whole text, when every line is inside the line grammar -/
def specLoadText (trim : Bool) (text : Str) (st : Store) : Option Store :=
  let ls := textLines trim text
  if (!trim && text.isEmpty) || !(ls.all lineWF) then none
  else some (st.map fun e => { e with rules := e.rules ++ rulesFor e.key ls })

structure DState where
  s : EState := { mem := [], file := [] }
  /-- ghost variable of the specification: the last successful load was a filtered load with a non-empty filter
      (a fresh enforcer on a filtered adapter holds the empty subset); `none` = a load failed, the property does not
      say what memory holds then -/
  lastFiltered : Option Bool := some true
  /-- the policy file exists (`gone` / `back` remove and restore it) -/
  present : Bool := true
  deriving Inhabited

/-- expected memory after a filtered load (literal reading of C12), when the full load raises nothing -/
def specFilteredMem (clear : Bool) (s : EState) (f : Option Filter) : Option Store :=
  let base := if clear then clearPG s.mem else s.mem
  match loadFile s.file (s.mem.map fun e => { e with rules := [] }) with
  | (_, some _) => none
  | (full, none) =>
    let sub := match f with
      | none => full
      | some f => if isEmptyFilter f then full else filterStore f full
    some (appendStore base sub)

def handleLoadF (clear : Bool) (d : DState) (f : Option Filter) : DState × String :=
  let (s', e) := loadFilteredGen clear d.s f
  let nonEmpty := match f with | none => false | some f => !isEmptyFilter f
  let spec := match specFilteredMem clear d.s f with
    | none => "?"
    | some m => encStore m ++ "," ++ encBool nonEmpty
  -- a failed `load_filtered_policy` leaves memory as it was (it reads into a copy), so what memory holds - a filtered
  -- subset or not - is what it was before; a failed incremental load leaves what it had appended: not judged
  let last := if e.isNone then some nonEmpty else if clear then d.lastFiltered else none
  ({ s := s', lastFiltered := last },
   "model=" ++ showOE e ++ "," ++ encStore s'.mem ++ "," ++ encBool s'.filtered ++ " spec=" ++ spec ++ " dom=T")

/-- the history operations while the policy file is missing (`Model.stepF`) -/
def handleMissing (d : DState) (o : Op) : DState × String :=
  let (fs', e) := stepF { e := d.s, present := false } (.op o)
  match o with
  | .load =>
    -- nothing is touched: memory holds what it held
    ({ d with s := fs'.e },
     "model=" ++ showOE e ++ "," ++ encStore fs'.e.mem ++ "," ++ encBool fs'.e.filtered ++ " spec=? dom=T")
  | .loadIncrement _ =>
    ({ d with s := fs'.e },
     "model=" ++ showOE e ++ "," ++ encStore fs'.e.mem ++ "," ++ encBool fs'.e.filtered ++ " spec=? dom=T")
  | .loadFiltered _ =>
    ({ d with s := fs'.e },
     "model=" ++ showOE e ++ "," ++ encStore fs'.e.mem ++ "," ++ encBool fs'.e.filtered ++ " spec=? dom=T")
  | .save | .adapterSave =>
    let spec := match d.lastFiltered with
      | some true => "!cannotSaveFiltered," ++ encS d.s.file
      | some false => "ok," ++ encS (saveFile d.s.mem)
      | none => "?"
    ({ d with s := fs'.e, present := fs'.present }, "model=" ++ showOE e ++ "," ++ encS fs'.e.file ++ " spec=" ++ spec)

def handlePresent (d : DState) (fs : List String) : DState × String :=
  match fs with
  | ["spacetable"] =>
    let l := (List.range 0x110000).filter fun n => n.isValidChar && isSpace (Char.ofNat n)
    (d, ";".intercalate (l.map toString))
  | ["strip", s] => (d, match decS s with | some s => encS (strip s) | none => "bad-op")
  | ["lstrip", s] => (d, match decS s with | some s => encS (lstrip s) | none => "bad-op")
  | ["rstrip", s] => (d, match decS s with | some s => encS (rstrip s) | none => "bad-op")
  | ["rstripc", s, c] =>
    (d, match decS s, decS c with | some s, some [c] => encS (rstripChar c s) | _, _ => "bad-op")
  | ["split", s, c] =>
    (d, match decS s, decS c with | some s, some [c] => encRule' (splitOn c s) | _, _ => "bad-op")
  | ["join", sep, l] =>
    (d, match decS sep, decRule' l with | some sep, some l => encS (join sep l) | _, _ => "bad-op")
  | ["parse", s] =>
    (d, match decS s with
      | none => "bad-op"
      | some s =>
        let m := match parseLine s with | .error e => showErr e | .ok r => showParsed r
        let sp := if lineWF s then showParsed (specLine s) else "?"
        "model=" ++ m ++ " spec=" ++ sp)
  | ["line", st, s] =>
    (d, match decStore st, decS s with
      | some st, some s =>
        (match loadPolicyLine s st with | .error e => showErr e | .ok st' => encStore st')
      | _, _ => "bad-op")
  | ["render", k, r] =>
    (d, match decS k, decRule' r with | some k, some r => encS (renderLine k r) | _, _ => "bad-op")
  | ["fieldok", s] => (d, match decS s with | some s => encBool (fieldOK s) | none => "bad-op")
  | ["save", kind, st] =>
    (d, match kindTrim kind, decStore st with
      | some t, some st => encS (saveKind t st)
      | _, _ => "bad-op")
  | ["loadtext", kind, st, text] =>
    (d, match kindTrim kind, decStore st, decS text with
      | some t, some st, some text =>
        let (st', e) := loadKind t text st
        "model=" ++ showOE e ++ "," ++ encStore st' ++ " spec=" ++
          (match specLoadText t text st with | none => "?" | some m => "ok," ++ encStore m)
      | _, _, _ => "bad-op")
  | ["roundtrip", kind, st] =>
    (d, match kindTrim kind, decStore st with
      | some t, some st =>
        let text := saveKind t st
        let (st', e) := loadKind t text (clearPG st)
        let isEmpty := st.all fun e => !(e.sec == some 'p' || e.sec == some 'g') || e.rules.isEmpty
        "model=" ++ showOE e ++ "," ++ encStore st' ++ "," ++ encS text ++ " spec=" ++
          (if policyOK st then "ok," ++ encStore st else "?") ++ " dom=" ++ encBool (t || !isEmpty)
      | _, _ => "bad-op")
  | ["filterline", s, f] =>
    (d, match decS s, decFilter f with
      | some s, some (some f) =>
        let sp := match parseLine s with
          | .ok (some (k, r)) => encBool (!keeps f k r)
          | .ok none => "F"
          | .error _ => "?"
        let mo := match filterLine s f with | .ok b => encBool b | .error e => showErr e
        "model=" ++ mo ++ " spec=" ++ sp ++ " dom=T"
      | _, _ => "bad-op")
  | ["emptyfilter", f] =>
    (d, match decFilter f with | some (some f) => encBool (isEmptyFilter f) | _ => "bad-op")
  | ["init", st, text] =>
    match decStore st, decS text with
    | some st, some text => ({ s := { mem := st, file := text }, lastFiltered := some true, present := true }, "ok")
    | _, _ => (d, "bad-op")
  | ["load"] =>
    let (s', e) := loadPolicy d.s
    let spec := match loadFile d.s.file (clearPG d.s.mem) with
      | (_, some _) => "?"
      | (m, none) => encStore m ++ ",F"
    -- a failed full load leaves memory as it was (the enforcer loads into a copy and rolls back), so what memory
    -- holds - a filtered subset or not - is what it was before
    ({ s := s', lastFiltered := if e.isNone then some false else d.lastFiltered },
     "model=" ++ showOE e ++ "," ++ encStore s'.mem ++ "," ++ encBool s'.filtered ++ " spec=" ++ spec ++ " dom=T")
  | ["loadf", f] =>
    match decFilter f with
    | some f => handleLoadF true d f
    | none => (d, "bad-op")
  | ["loadinc", f] =>
    match decFilter f with
    | some f => handleLoadF false d f
    | none => (d, "bad-op")
  | [op] =>
    if op == "save" || op == "asave" then
      let (s', e) := savePolicy d.s
      -- the property: refused exactly while memory holds a filtered subset; otherwise the file becomes the
      -- rendering of memory
      let spec := match d.lastFiltered with
        | some true => "!cannotSaveFiltered," ++ encS d.s.file
        | some false => "ok," ++ encS (saveFile d.s.mem)
        | none => "?"
      ({ d with s := s' }, "model=" ++ showOE e ++ "," ++ encS s'.file ++ " spec=" ++ spec)
    else if op == "obs" then
      (d, "mem=" ++ encStore d.s.mem ++ " filtered=" ++ encBool d.s.filtered ++ " file=" ++ encS d.s.file ++
        " links=" ++ encRules' (d.s.links.map fun (k, a) => k :: a))
    else (d, "bad-op")
  | _ => (d, "bad-op")

def handle (d : DState) (fs : List String) : DState × String :=
  match fs with
  | ["gone"] => ({ d with present := false }, "ok")
  | ["back"] => ({ d with present := true }, "ok")
  | _ =>
    if d.present then handlePresent d fs
    else match fs with
      | ["load"] => handleMissing d .load
      | ["loadf", f] => (match decFilter f with | some f => handleMissing d (.loadFiltered f) | none => (d, "bad-op"))
      | ["loadinc", f] => (match decFilter f with | some f => handleMissing d (.loadIncrement f) | none => (d, "bad-op"))
      | ["save"] => handleMissing d .save
      | ["asave"] => handleMissing d .adapterSave
      | _ => handlePresent d fs

end Casbin.Driver.Persist
