import CasbinV.Proto
import CasbinV.Model.EnforcerQ
/-! additional query kinds of the driver family `enf` (C15): the resource-centred views, the per-domain views and the
    direct views of `enforcer.py`, each with the model's answer (`queryQ`) and an independently computed specification
    (`specQueryQ`: `enforce` per candidate / a filter of the stored rules / bounded reachability). -/
namespace Casbin.Driver.EnfQ
open Casbin.Policy Proto
open Casbin.Enf

def joinC (l : List String) : String := if l.isEmpty then "~" else ",".intercalate l
def sortStrs (l : List String) : List String := (l.toArray.qsort (· < ·)).toList
def canonRules (l : List Rule) : String := joinC (sortStrs (l.map encRule))

def showFiltered : Except PErr (List Rule) → String
  | .ok l => "L" ++ encRules l
  | .error .indexError => "!IndexError"
  | .error .priorityMismatch => "!priorityMismatch"

/-- rules listed twice are reported (the code accumulates in a dict: never) -/
def listedOnce (l : List Rule) : String := if l.eraseDups.length == l.length then canonRules l else "!dup:" ++ canonRules l

def queryQ (sh : Shape) (s : St) (fs : List String) : Option String :=
  match fs with
  | ["usersforresource", res] => do
    some (listedOnce (implicitUsersForResource sh s (← decStr res)))
  | ["usersforresourcedom", res, dom] => do
    some (listedOnce (implicitUsersForResourceByDomain sh s (← decStr res) (← decStr dom)))
  | ["rolesbydomain", dom] => do
    some (encList (sortStrs ((allRolesByDomain s.pol.g (← decStr dom)).map encStr)))
  | ["allroles"] => some (encList (sortStrs ((allRoles s).map encStr)))
  | ["permsfor", u] => do some (showFiltered (permissionsForUser s (← decStr u)))
  | ["permsindom", u, dom] => do some (showFiltered (permissionsForUserInDomain s (← decStr u) (← decStr dom)))
  | ["hasperm", rule] => do
    match ← decStrList rule with
    | [] => none
    | u :: perm => some (encBool (hasPermissionForUser s u perm))
  | ["implicitpermsdom", u, dom, flt] => do
    match implicitPermissionsDom s (← decStr u) (← decStr dom) (← decBool flt) with
    | some (.ok ps) => some (joinC (sortStrs (ps.eraseDups.map encRule)))   -- compared as a set
    | some (.error _) => some "!IndexError"
    | none => some "!fuel"
  | _ => none

def namesOfG (g : Casbin.Graph) : List String := (g.map (·.1) ++ g.map (·.2)).eraseDups

/-- reachable along at least one assignment, by the bounded search of the role manager started from the direct roles -/
def reachPlus (g : Casbin.Graph) (u r : String) : Bool :=
  (Casbin.succs g u).any fun v => Casbin.hasLink g ((namesOfG g).length + 2) v r

/-- the hypotheses of the `_partial` theorems, decided on the state: well-sized rules, "is a role" agrees between
    the stored rules and the link store, and no role is itself given a role (in that domain) -/
def flatQ (sh : Shape) (s : St) (dom : Option String) : Bool :=
  let g := edgesOf s.links.g dom
  let targets := (g.map (·.2)).eraseDups
  let roles := match dom with
    | none => allRoles s
    | some d => allRolesByDomain s.pol.g d
  s.pol.p.all (fun r => r.length == sh.arity) &&
  (dom.isNone || s.pol.g.all (fun r => r.length == 3)) &&
  roles.all targets.contains && targets.all roles.contains &&
  g.all fun (u, _) => !targets.contains u

def specQueryQ (sh : Shape) (s : St) (fs : List String) : Option String :=
  match fs with
  | ["usersforresource", res] => do
    -- every (subject, action) of the universe of the policy: listed iff the subject is not a role and enforce allows
    let res ← decStr res
    let roles := s.pol.g.filterMap (·[1]?)
    let cands := ((s.pol.g.filterMap (·[0]?)) ++ roles ++ (s.pol.p.filterMap (·[0]?))).eraseDups
    let acts := (s.pol.p.filterMap (·[2]?)).eraseDups
    let out := (cands.filter fun u => !roles.contains u).flatMap fun u =>
      (acts.filter fun a => match enforceQ .rbac s [u, res, a] with | .ok true => true | _ => false).map fun a => [u, res, a]
    some (canonRules out)
  | ["usersforresourcedom", res, dom] => do
    let res ← decStr res
    let dom ← decStr dom
    let roles := (s.pol.g.filter fun r => r[2]? == some dom).filterMap (·[1]?)
    let cands := ((s.pol.g.filterMap (·[0]?)) ++ (s.pol.g.filterMap (·[1]?)) ++ (s.pol.p.filterMap (·[0]?))).eraseDups
    let acts := (s.pol.p.filterMap (·[3]?)).eraseDups
    let out := (cands.filter fun u => !roles.contains u).flatMap fun u =>
      (acts.filter fun a => match enforceQ .rbacDom s [u, dom, res, a] with | .ok true => true | _ => false).map
        fun a => [u, dom, res, a]
    some (canonRules out)
  | ["rolesbydomain", dom] => do
    let dom ← decStr dom
    some (encList (sortStrs ((((s.pol.g.filter fun r => r[2]? == some dom).filterMap (·[1]?)).eraseDups).map encStr)))
  | ["allroles"] => some (encList (sortStrs (((s.pol.g.filterMap (·[1]?)).eraseDups).map encStr)))
  | ["permsfor", u] => do
    let u ← decStr u
    some ("L" ++ encRules (s.pol.p.filter fun r => r[0]? == some u))
  | ["permsindom", u, dom] => do
    let u ← decStr u
    let dom ← decStr dom
    some ("L" ++ encRules (s.pol.p.filter fun r => r[0]? == some u && r[1]? == some dom))
  | ["hasperm", rule] => do
    let rule ← decStrList rule
    some (encBool (s.pol.p.any (· == rule)))
  | ["implicitpermsdom", u, dom, flt] => do
    let u ← decStr u
    let dom ← decStr dom
    let flt ← decBool flt
    let g := edgesOf s.links.g (some dom)
    let holders := (u :: (namesOfG g).filter (reachPlus g u)).eraseDups
    some (joinC (sortStrs ((holders.flatMap fun h =>
      s.pol.p.filter fun r => r[0]? == some h && (!flt || r[1]? == some dom)).eraseDups.map encRule)))
  | ["flat", dom] => do
    let dom ← (if dom == "~" then some none else (decStr dom).map some)
    some (encBool (flatQ sh s dom))
  | _ => none

end Casbin.Driver.EnfQ
