import CasbinV.Proto
import CasbinV.Model.Synced
import CasbinV.Gen.SyncedTable
/-! driver family `synced`: the wrapper table regenerated from `casbin/synced_enforcer.py` (T2) with the
    classification and the two checks of `Model/Synced.lean` evaluated on every row.

    nrows                 number of rows
    row <i>               `name|private|kind|mode|callee|returns|class|discipline|forwarding|nparams`
                          kind = wrap/locked/other; class = classification of the callee (`-` when not a forward)
    classify <name>       mutates | reads | pure
    init                  T/F: `__init__` binds one Enforcer, one RWLockWrite and its read/write handles -/
namespace Casbin.Driver.Synced
open Casbin.Synced Proto

def showMode : LockMode → String | .none => "none" | .read => "read" | .write => "write"
def showClass : Class → String | .mutates => "mutates" | .reads => "reads" | .pure => "pure"

def showRow (r : Row) : String :=
  let (kind, mode, callee, ret, cls) :=
    match r.shape with
    | .wrap m c _ b => ("wrap", showMode m, c, encBool b, showClass (classify c))
    | .locked m _ => ("locked", showMode m, "-", "-", "-")
    | .other _ _ => ("other", "none", "-", "-", "-")
  "|".intercalate [r.name, encBool r.isPrivate, kind, mode, callee, ret, cls, encBool (disciplineOk r), encBool (forwardingOk r),
    toString r.params.length]

def handle (fs : List String) : String :=
  match fs with
  | ["nrows"] => toString Casbin.Gen.syncedTable.length
  | ["row", i] =>
    match i.toNat? with
    | some i => (match Casbin.Gen.syncedTable[i]? with | some r => showRow r | none => "bad-op")
    | none => "bad-op"
  | ["classify", n] => showClass (classify n)
  | ["init"] => encBool (initOk Casbin.Gen.syncedInit)
  | _ => "bad-op"

end Casbin.Driver.Synced
