import CasbinV.Proto
import CasbinV.Model.Enforcer
import CasbinV.Driver.EnforcerQ
/-! driver family `enf` (stateful): the enforcer state machine (C04, C05, C09, C11, C15, C18, C20).

`init <shape> <gCount> <g2Count> <adapter T/F> <watcher T/F> <ex T/F> <upd T/F> <p rules> <g rules> <g2 rules>`
   builds the state an enforcer has after construction + `load_policy` (store = policy, links built).
`op …`      one management call: answer `model=<ret>#<adapter calls>#<notifications>`.
`q …`       one query: answer `model=<answer> spec=<answer of a freshly constructed enforcer holding the current policy>`.
`obs`       canonical dump of policy, link stores, adapter store. -/
namespace Casbin.Driver.Enf
open Casbin.Policy Proto
open Casbin (hasLink)
open Casbin.Enf hiding step

structure DSt where
  cfg : Enf.Cfg := {}
  shape : Shape := .rbac
  st : St := {}

def secOf : String → Option Sec
  | "p" => some .p | "g" => some .g | "g2" => some .g2 | _ => none
def secStr : Sec → String | .p => "p" | .g => "g" | .g2 => "g2"

def shapeOf : String → Option Shape
  | "rbac" => some .rbac | "dom" => some .rbacDom | "res" => some .rbacRes | _ => none

def showEErr : EErr → String
  | .indexError => "!IndexError" | .priorityMismatch => "!priorityMismatch"
  | .shortGroupingRule => "!shortGroupingRule" | .adapterFailure => "!adapterFailure"
  | .unknownSection => "!unknownSection"

def showRet : Except EErr Ret → String
  | .error e => showEErr e
  | .ok (.bool b) => encBool b
  | .ok (.rules rs) => "L" ++ encRules rs
  | .ok .unit => "-"

def showACall : ACall → String
  | .addPolicy s r => s!"add_policy/{secStr s}/{encRule r}"
  | .addPolicies s rs => s!"add_policies/{secStr s}/{encRules rs}"
  | .removePolicy s r => s!"remove_policy/{secStr s}/{encRule r}"
  | .removePolicies s rs => s!"remove_policies/{secStr s}/{encRules rs}"
  | .removeFiltered s i vs => s!"remove_filtered_policy/{secStr s}/{i}/{encStrList vs}"
  | .updatePolicy s o n => s!"update_policy/{secStr s}/{encRule o}/{encRule n}"
  | .updatePolicies s os ns => s!"update_policies/{secStr s}/{encRules os}/{encRules ns}"
  | .savePolicy => "save_policy"
  | .loadPolicy => "load_policy"
  | .updateFiltered ns i vs => s!"update_filtered_policies/p/{encRules ns}/{i}/{encStrList vs}"

def showWCall : WCall → String
  | .update => "update"
  | .forAddPolicy s r => s!"update_for_add_policy/{secStr s}/{encRule r}"
  | .forRemovePolicy s r => s!"update_for_remove_policy/{secStr s}/{encRule r}"
  | .forRemoveFiltered s i vs => s!"update_for_remove_filtered_policy/{secStr s}/{i}/{encStrList vs}"
  | .forAddPolicies s rs => s!"update_for_add_policies/{secStr s}/{encRules rs}"
  | .forRemovePolicies s rs => s!"update_for_remove_policies/{secStr s}/{encRules rs}"
  | .forUpdatePolicy o n => s!"update_for_update_policy/{encRule o}/{encRule n}"
  | .forUpdatePolicies os ns => s!"update_for_update_policies/{encRules os}/{encRules ns}"
  | .forSavePolicy => "update_for_save_policy"

def joinC (l : List String) : String := if l.isEmpty then "~" else ",".intercalate l

/-- sort strings (canonical form of anything that comes out of a Python set) -/
def sortStrs (l : List String) : List String := (l.toArray.qsort (· < ·)).toList

def canonRules (l : List Rule) : String := joinC (sortStrs (l.map encRule))

def parseOp (fs : List String) : Option Op :=
  match fs with
  | ["add", sec, r] => do some (.add (← secOf sec) (← decRule r))
  | ["addmany", sec, rs] => do some (.addMany (← secOf sec) (← decRules rs))
  | ["remove", sec, r] => do some (.remove (← secOf sec) (← decRule r))
  | ["removemany", sec, rs] => do some (.removeMany (← secOf sec) (← decRules rs))
  | ["removefiltered", sec, idx, vals] => do some (.removeFiltered (← secOf sec) (← idx.toNat?) (← decStrList vals))
  | ["update", o, n] => do some (.update (← decRule o) (← decRule n))
  | ["updatemany", os, ns] => do some (.updateMany (← decRules os) (← decRules ns))
  | ["clear"] => some .clearPolicy
  | ["build"] => some .buildRoleLinks
  | ["save"] => some .savePolicy
  | ["load", k] => if k == "-" then some (.loadPolicy none) else do some (.loadPolicy (some (← k.toNat?)))
  | ["autosave", b] => do some (.enableAutoSave (← decBool b))
  | ["autobuild", b] => do some (.enableAutoBuild (← decBool b))
  | ["autonotify", b] => do some (.enableAutoNotify (← decBool b))
  | _ => none

/-- a freshly constructed enforcer holding the current policy -/
def fresh (cfg : Enf.Cfg) (s : St) : St :=
  match rebuildAll cfg s.pol with
  | .ok l => { s with links := l }
  | .error _ => s

def optDom (s : String) : Option (Option String) := if s == "~" then some none else (decStr s).map some

def query (d : DSt) (s : St) (fs : List String) : Option String :=
  match fs with
  | ["enforce", req] => do
    let req ← decStrList req
    match enforceQ d.shape s req with
    | .ok b => some (encBool b)
    | .error Casbin.Err.invalidRequestSize => some "!invalidRequestSize"
    | .error _ => some "!other"
  | ["haslink", sec, n1, n2, dom] => do
    some (encBool (hasLinkQ (s.links.get (← secOf sec)) (← decStr n1) (← decStr n2) (← optDom dom)))
  | ["roles", sec, n, dom] => do
    some (encList (sortStrs (((getRoles (s.links.get (← secOf sec)) (← decStr n) (← optDom dom)).eraseDups).map encStr)))
  | ["users", sec, n, dom] => do
    some (encList (sortStrs (((getUsers (s.links.get (← secOf sec)) (← decStr n) (← optDom dom)).eraseDups).map encStr)))
  | ["policy", sec] => do some (encRules (s.pol.get (← secOf sec)))
  | ["implicitroles", n, dom] => do
    match implicitRoles s.links.g (← decStr n) (← optDom dom) with
    | some rs => some (encList (sortStrs (rs.map encStr)))
    | none => some "!fuel"
  | ["implicitperms", u] => do
    match implicitPermissions s (← decStr u) with
    | some ps => some (joinC (sortStrs (ps.eraseDups.map encRule)))   -- compared as a set
    | none => some "!fuel"
  | ["implicitusers", perm] => do
    some (encList (sortStrs ((implicitUsersForPermission s (← decStrList perm)).map encStr)))
  | ["flat", dom] => do
    some (encBool (Casbin.Driver.EnfQ.flatQ d.shape s (← optDom dom)))
  | _ => Casbin.Driver.EnfQ.queryQ d.shape s fs

/-- reachable along at least one assignment, decided independently of the worklist loop: some direct role reaches
    the target within a bound that covers every simple path -/
def reachPlus (g : Casbin.Graph) (u r : String) : Bool :=
  (Casbin.succs g u).any fun v => Casbin.hasLink g ((namesOf g).length + 2) v r

def specQuery (s : St) (fs : List String) : Option String :=
  match fs with
  | ["implicitroles", n, dom] => do
    let g := edgesOf s.links.g (← optDom dom)
    let u ← decStr n
    some (encList (sortStrs (((namesOf g).filter (reachPlus g u)).map encStr)))
  | ["implicitperms", u] => do
    let g := edgesOf s.links.g none
    let u ← decStr u
    let holders := u :: (namesOf g).filter (reachPlus g u)
    -- one copy per holder, as the API concatenates the permissions of the user and of every implicit role
    some (joinC (sortStrs ((holders.eraseDups.flatMap fun h => s.pol.p.filter fun r => r[0]? == some h).eraseDups.map encRule)))
  | ["implicitusers", perm] => do
    let perm ← decStrList perm
    let cands := ((s.pol.g.filterMap (·[0]?)) ++ (s.pol.p.filterMap (·[0]?))).eraseDups
    let roles := s.pol.g.filterMap (·[1]?)
    some (encList (sortStrs (((cands.filter fun x => !roles.contains x).filter fun x =>
      match enforceQ .rbac s (x :: perm) with | .ok true => true | _ => false).map encStr)))
  | _ => none

/-- the specification of a query: the kinds of `Driver/EnforcerQ.lean` first (they need the shape) -/
def specQueryX (d : DSt) (s : St) (fs : List String) : Option String :=
  match Casbin.Driver.EnfQ.specQueryQ d.shape s fs with
  | some x => some x
  | none => specQuery s fs

def mirror (s : St) : Bool :=
  [Sec.p, .g, .g2].all fun sec => canonRules (s.store.get sec) == canonRules (s.pol.get sec)

def step (d : DSt) (fs : List String) : DSt × String :=
  match fs with
  | ["init", sh, gc, g2c, ad, wa, ex, up, p, g, g2] =>
    match shapeOf sh, gc.toNat?, g2c.toNat?, decBool ad, decBool wa, decBool ex, decBool up, decRules p, decRules g, decRules g2 with
    | some sh, some gc, some g2c, some ad, some wa, some ex, some up, some p, some g, some g2 =>
      let cfg : Enf.Cfg := { gCount := gc, g2Count := g2c, hasAdapter := ad, hasWatcher := wa, watcherEx := ex, watcherUpd := up }
      let pol : Pol := { p := p, g := g, g2 := g2 }
      match rebuildAll cfg pol with
      | .ok l => ({ cfg := cfg, shape := sh, st := { pol := pol, links := l, store := pol } }, "ok")
      | .error e => (d, showEErr e)
    | _, _, _, _, _, _, _, _, _, _ => (d, "bad-op")
  | ["setstore", p, g, g2] =>
    match decRules p, decRules g, decRules g2 with
    | some p, some g, some g2 => ({ d with st := { d.st with store := { p := p, g := g, g2 := g2 } } }, "model=-#~#~#~")
    | _, _, _ => (d, "bad-op")
  | "op" :: rest =>
    -- read-fed calls: the batch argument is what a read of the current state returns (value semantics: a composition)
    let op? : Option Op := match rest with
      | ["removeread", sec] => (secOf sec).map fun sc => .removeMany sc (d.st.pol.get sc)
      | ["updateread", tag] => some (.updateMany d.st.pol.p (d.st.pol.p.map fun r => r.dropLast ++ [r.getLast?.getD "" ++ tag]))
      | _ => parseOp rest
    let opx? : Option OpX := match rest with
      | ["updatefiltered", ns, idx, vals] => do some (.updateFiltered (← decRules ns) (← idx.toNat?) (← decStrList vals))
      | _ => op?.map .base
    match opx? with
    | none => (d, "bad-op")
    | some op =>
      let (s', r) := Casbin.Enf.stepX d.cfg d.st op
      let da := s'.alog.drop d.st.alog.length
      let dw := s'.wlog.drop d.st.wlog.length
      let de := s'.ev.drop d.st.ev.length
      let showEv : Ev → String := fun e => match e with
        | .adapter c => "a:" ++ showACall c
        | .watcher w => "w:" ++ showWCall w
      ({ d with st := s' }, "model=" ++ showRet r ++ "#" ++ joinC (da.map showACall) ++ "#" ++ joinC (dw.map showWCall) ++
        "#" ++ joinC (de.map showEv))
  | "q" :: rest =>
    match query d d.st rest, (match specQueryX d d.st rest with | some x => some x | none => query d (fresh d.cfg d.st) rest) with
    | some a, some b => (d, "model=" ++ a ++ " spec=" ++ b)
    | _, _ => (d, "bad-op")
  | ["obs"] =>
    let s := d.st
    (d, "p=" ++ encRules s.pol.p ++ " g=" ++ encRules s.pol.g ++ " g2=" ++ encRules s.pol.g2 ++
        " lg=" ++ canonRules s.links.g ++ " lg2=" ++ canonRules s.links.g2 ++
        " mirror=" ++ encBool (mirror s) ++
        " sp=" ++ canonRules s.store.p ++ " sg=" ++ canonRules s.store.g ++ " sg2=" ++ canonRules s.store.g2)
  | _ => (d, "bad-op")

end Casbin.Driver.Enf
