import CasbinV.Proto
import CasbinV.Model.RoleManager
/-! driver family `rm` (stateful): the role-manager state machines of Model/RoleManager.lean next to the
    executable specification of C03 / C14.

The specification keeps only the assignments currently in force (per domain) and answers by path semantics over
the effective edges `E* = {(n, b) | (a, b) in force ∧ (n = a ∨ matches n a)}`: names reachable within k edges
are computed by iterating the one-step closure k times (no level countdown, no frontier, no early exit).
`spec=?` = the property leaves the case open.

Operations (TAB separated, names encoded as in Proto):
  new <plain|cond|domain|conddomain|none> <L>
  add u r [d…] | del u r [d…] | has u r [d…] | roles u [d…] | users r [d…] | clear
  matchfn <pairs> | dmatchfn <pairs>      pairs = `;`-separated `key|pattern` that match (everything else: no match)
  condfn u r d <T|F|P0|ALL> | params u r d <p;…>
  g <a;b;…>                               generate_g_function(rm)(*args)
  build <count> <rules> | incr <count> <add|remove|other> <rules>
-/
namespace Casbin.Driver.RoleManager
open Casbin Casbin.RM Proto

inductive Kind | plain | cond | domain | condDomain | none
  deriving DecidableEq

/-- what the specification remembers -/
structure Spec where
  kind : Kind := .none
  maxLevel : Nat := 10
  /-- (domain, link) in force; the plain managers record everything under `""` -/
  links : List (Name × Link) := []
  matchFn : Option MatchFn := none
  dmatchFn : Option MatchFn := none
  conds : List (CondKey × CondFn) := []
  params : List (CondKey × List String) := []

structure St where
  mgr : Option Mgr := none
  spec : Spec := {}

def Spec.dom (sp : Spec) (dom : List Name) : Name :=
  match sp.kind with
  | .plain | .cond | .none => ""
  | _ => dom.headD ""

/-- the assignments that apply in domain `d` -/
def Spec.eff (sp : Spec) (d : Name) : List Link :=
  (sp.links.filter fun e =>
    e.1 == d || (sp.kind == .domain && match sp.dmatchFn with | some dm => dm d e.1 | none => false)).map (·.2)

def Spec.passes (sp : Spec) (d : Name) (l : Link) : Bool :=
  match sp.conds.lookup (l.1, l.2, d) with
  | none => true
  | some fn => fn ((sp.params.lookup (l.1, l.2, d)).getD [])

/-- one step along E* -/
def Spec.next (sp : Spec) (ls : List Link) (n : Name) : List Name :=
  (ls.filter fun l => n == l.1 || (match sp.matchFn with | some m => m n l.1 | none => false)).map (·.2)

/-- names reachable from `u` in at most `k` edges -/
def within (next : Name → List Name) : Nat → List Name → List Name
  | 0, s => s
  | k + 1, s => within next k (dedup (s ++ s.flatMap next))

def isCond (k : Kind) : Bool := k == .cond || k == .condDomain

/-- what `has_link(u, r[, d])` must answer; `none` = left open -/
def Spec.has (sp : Spec) (u r : Name) (dom : List Name) : Option Bool :=
  let d := sp.dom dom
  if isCond sp.kind then
    if sp.matchFn.isSome then none
    else
      -- the condition key of the conditional managers uses the domain argument even in the plain conditional one
      let cd := dom.headD ""
      let ls := (sp.eff d).filter (sp.passes cd)
      some (u == r || (within (sp.next ls) sp.maxLevel [u]).contains r)
  else if sp.maxLevel == 0 then some false
  else some ((within (sp.next (sp.eff d)) (sp.maxLevel - 1) [u]).contains r)

def Spec.roles (sp : Spec) (u : Name) (dom : List Name) : List Name :=
  dedup (sp.next (sp.eff (sp.dom dom)) u)

def Spec.users (sp : Spec) (r : Name) (dom : List Name) : Option (List Name) :=
  if sp.matchFn.isSome then none
  else some (dedup (((sp.eff (sp.dom dom)).filter fun l => l.2 == r).map (·.1)))

def Spec.add (sp : Spec) (a b : Name) (dom : List Name) : Spec :=
  { sp with links := insertE (sp.dom dom, (a, b)) sp.links }

def Spec.del (sp : Spec) (a b : Name) (dom : List Name) : Spec × String :=
  let e := (sp.dom dom, (a, b))
  if sp.links.contains e then ({ sp with links := sp.links.filter (· != e) }, "ok")
  else (sp, "ok")

def showErr : Err → String
  | .keyError => "!keyError" | .domainArity => "!domainArity"
  | .badRoleDef => "!badRoleDef" | .shortRule => "!shortRule" | .badOp => "!badOp" | .indexError => "!indexError"

def showOpt : Option Err → String
  | none => "ok"
  | some e => showErr e

def tableFn (pairs : List (Name × Name)) : MatchFn := fun k p => pairs.contains (k, p)

def decPairs (s : String) : Option (List (Name × Name)) :=
  (decList s ";").mapM fun item =>
    match decStrList item "|" with
    | some [a, b] => some (a, b)
    | _ => none

def condOf : String → Option CondFn
  | "T" => some fun _ => true
  | "F" => some fun _ => false
  | "P0" => some fun ps => ps.head? == some "T"
  | "ALL" => some fun ps => ps.all (· == "T")
  | _ => none

def ms (m s : String) : String := "model=" ++ m ++ " spec=" ++ s
def showB (b : Bool) : String := encBool b
def showOB : Option Bool → String
  | none => "?"
  | some b => encBool b

def newMgr (k : Kind) (l : Nat) : Option Mgr :=
  match k with
  | .plain => some (.plain { maxLevel := l })
  | .cond => some (.cond { maxLevel := l })
  | .domain => some (.domain { maxLevel := l })
  | .condDomain => some (.condDomain { maxLevel := l })
  | .none => none

def kindOf : String → Option Kind
  | "plain" => some .plain | "cond" => some .cond | "domain" => some .domain
  | "conddomain" => some .condDomain | "none" => some .none | _ => none

/-- apply the links of a `build`/`incr` call to the specification: the rules before the first bad one -/
def specBuild (sp : Spec) (count : Nat) (add : Bool) : List (List Name) → Spec
  | [] => sp
  | rule :: rest =>
    if count < 2 || rule.length < count then sp
    else match rule.take count with
      | a :: b :: dom =>
        if (sp.kind == .domain || sp.kind == .condDomain) && dom.length > 1 then sp
        else if add then specBuild (sp.add a b dom) count add rest
        else
          let (sp', r) := sp.del a b dom
          if r == "ok" then specBuild sp' count add rest else sp'
      | _ => sp

def step (st : St) (fs : List String) : St × String :=
  let bad := (st, "bad-op")
  match fs with
  | ["new", k, l] =>
    match kindOf k, l.toNat? with
    | some k, some l => ({ mgr := newMgr k l, spec := { kind := k, maxLevel := l } }, "ok")
    | _, _ => bad
  | ["clear"] =>
    match st.mgr with
    | some m => ({ mgr := some m.clear, spec := { st.spec with links := [], params := [] } }, ms "ok" "ok")
    | none => bad
  | "add" :: u :: r :: dom =>
    match st.mgr, decStr u, decStr r, dom.mapM decStr with
    | some m, some u, some r, some dom =>
      let (m', e) := m.addLink u r dom
      let domErr := (st.spec.kind == .domain || st.spec.kind == .condDomain) && dom.length > 1
      ({ mgr := some m', spec := if domErr then st.spec else st.spec.add u r dom },
        ms (showOpt e) (if domErr then "!domainArity" else "ok"))
    | _, _, _, _ => bad
  | "del" :: u :: r :: dom =>
    match st.mgr, decStr u, decStr r, dom.mapM decStr with
    | some m, some u, some r, some dom =>
      let (m', e) := m.deleteLink u r dom
      let domErr := (st.spec.kind == .domain || st.spec.kind == .condDomain) && dom.length > 1
      let (sp', sr) := if domErr then (st.spec, "!domainArity") else st.spec.del u r dom
      ({ mgr := some m', spec := sp' }, ms (showOpt e) sr)
    | _, _, _, _ => bad
  | "has" :: u :: r :: dom =>
    match st.mgr, decStr u, decStr r, dom.mapM decStr with
    | some m, some u, some r, some dom =>
      let (m', x) := m.hasLink u r dom
      let domErr := (st.spec.kind == .domain || st.spec.kind == .condDomain) && dom.length > 1
      ({ st with mgr := some m' },
        ms (match x with | .ok b => showB b | .error e => showErr e)
           (if domErr then "!domainArity" else showOB (st.spec.has u r dom)))
    | _, _, _, _ => bad
  | "roles" :: u :: dom =>
    match st.mgr, decStr u, dom.mapM decStr with
    | some m, some u, some dom =>
      let (m', x) := m.getRoles u dom
      let domErr := (st.spec.kind == .domain || st.spec.kind == .condDomain) && dom.length > 1
      ({ st with mgr := some m' },
        ms (match x with | .ok l => encStrList l | .error e => showErr e)
           (if domErr then "!domainArity" else encStrList (st.spec.roles u dom)))
    | _, _, _ => bad
  | "users" :: r :: dom =>
    match st.mgr, decStr r, dom.mapM decStr with
    | some m, some r, some dom =>
      let (m', x) := m.getUsers r dom
      let domErr := (st.spec.kind == .domain || st.spec.kind == .condDomain) && dom.length > 1
      ({ st with mgr := some m' },
        ms (match x with | .ok l => encStrList l | .error e => showErr e)
           (if domErr then "!domainArity" else match st.spec.users r dom with | some l => encStrList l | none => "?"))
    | _, _, _ => bad
  | ["matchfn", pairs] =>
    match st.mgr, decPairs pairs with
    | some m, some ps =>
      let f := tableFn ps
      let m' := match m with
        | .plain s => Mgr.plain (s.addMatchingFunc f)
        | .cond s => Mgr.cond (s.addMatchingFunc f)
        | .domain s => Mgr.domain (s.addMatchingFunc f)
        | .condDomain s => Mgr.condDomain (s.addMatchingFunc f)
      -- `_rebuild` drops the link conditions of the plain conditional manager (they live on the Role objects)
      ({ mgr := some m', spec := { st.spec with matchFn := some f } }, ms "ok" "ok")
    | _, _ => bad
  | ["dmatchfn", pairs] =>
    match st.mgr, decPairs pairs with
    | some (.domain s), some ps =>
      let f := tableFn ps
      ({ mgr := some (.domain (s.addDomainMatchingFunc f)), spec := { st.spec with dmatchFn := some f } }, ms "ok" "ok")
    | _, _ => bad
  | ["condfn", u, r, d, id] =>
    match st.mgr, decStr u, decStr r, decStr d, condOf id with
    | some m, some u, some r, some d, some fn =>
      let m' := match m with
        | .cond s => some (Mgr.cond (s.addCondFn u r d fn))
        | .condDomain s => some (Mgr.condDomain (s.addCondFn u r d fn))
        | _ => none
      match m' with
      | some m' => ({ mgr := some m', spec := { st.spec with conds := assocSet (u, r, d) fn st.spec.conds } }, ms "ok" "ok")
      | none => bad
    | _, _, _, _, _ => bad
  | ["params", u, r, d, ps] =>
    match st.mgr, decStr u, decStr r, decStr d, decStrList ps with
    | some m, some u, some r, some d, some ps =>
      let m' := match m with
        | .cond s => some (Mgr.cond (s.setCondParams u r d ps))
        | .condDomain s => some (Mgr.condDomain (s.setCondParams u r d ps))
        | _ => none
      match m' with
      | some m' => ({ mgr := some m', spec := { st.spec with params := assocSet (u, r, d) ps st.spec.params } }, ms "ok" "ok")
      | none => bad
    | _, _, _, _, _ => bad
  | ["g", args] =>
    match decStrList args with
    | some args =>
      let (m', x) := gFunction st.mgr args
      let sp : String := match args with
        | n1 :: n2 :: rest =>
          if st.spec.kind == .none then showB (n1 == n2)
          else showOB (st.spec.has n1 n2 (rest.take 1))
        | _ => "!indexError"
      ({ st with mgr := m' }, ms (match x with | .ok b => showB b | .error e => showErr e) sp)
    | none => bad
  | ["build", count, rules] =>
    match st.mgr, count.toNat?, decRules rules with
    | some m, some count, some rules =>
      let (m', e) := buildRoleLinks count m rules
      ({ mgr := some m', spec := specBuild st.spec count true rules }, ms (showOpt e) "?")
    | _, _, _ => bad
  | ["incr", count, op, rules] =>
    let op' : Option PolicyOp := match op with
      | "add" => some .add | "remove" => some .remove | "other" => some .other | _ => none
    match st.mgr, count.toNat?, op', decRules rules with
    | some m, some count, some op', some rules =>
      let (m', e) := buildIncrementalRoleLinks count op' m rules
      let sp := match op' with
        | .add => specBuild st.spec count true rules
        | .remove => specBuild st.spec count false rules
        | .other => st.spec
      ({ mgr := some m', spec := sp }, ms (showOpt e) "?")
    | _, _, _, _ => bad
  | _ => bad

end Casbin.Driver.RoleManager
