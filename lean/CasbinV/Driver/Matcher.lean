import CasbinV.Proto
import CasbinV.Model.Matcher
import CasbinV.Model.MatcherExpr
import CasbinV.Model.MatcherTokens
/-! driver family `matcher` (C02): the char-level models of the textual matcher pipeline, and the reference
    evaluator `evalExpr` (the oracle). State = the table of function oracle results (`deffn`). -/
namespace Casbin.Driver.Matcher
open Casbin.Matcher Proto

def encL (s : Str) : String := encStr (String.ofList s)
def decL (s : String) : Option Str := (decStr s).map String.toList

/-! ### token notation for expressions and values (space separated, prefix) -/

def opOf : String → Option BinOp
  | "and" => some .and | "or" => some .or | "eq" => some .eq | "ne" => some .ne
  | "lt" => some .lt | "le" => some .le | "gt" => some .gt | "ge" => some .ge
  | "add" => some .add | "sub" => some .sub | "mul" => some .mul | "mod" => some .mod
  | "in" => some .isIn | _ => none

mutual
partial def parseExpr : List String → Option (Expr × List String)
  | "R" :: n :: r => (decStr n).map fun n => (.ref n, r)
  | "A" :: a :: r => do
    let a ← decStr a
    let (e, r) ← parseExpr r
    pure (.attr e a, r)
  | "S" :: s :: r => (decStr s).map fun s => (.str s, r)
  | "I" :: i :: r => i.toInt?.map fun i => (.int i, r)
  | "F" :: n :: e :: r => do pure (.flt (← n.toInt?) (← e.toNat?), r)
  | "T" :: n :: r => do
    let (es, r) ← parseExprs (← n.toNat?) r
    pure (.tuple es, r)
  | "N" :: r => do
    let (e, r) ← parseExpr r
    pure (.not e, r)
  | "B" :: op :: r => do
    let op ← opOf op
    let (a, r) ← parseExpr r
    let (b, r) ← parseExpr r
    pure (.bin op a b, r)
  | "C" :: f :: n :: r => do
    let f ← decStr f
    let (es, r) ← parseExprs (← n.toNat?) r
    pure (.call f es, r)
  | _ => none
partial def parseExprs : Nat → List String → Option (List Expr × List String)
  | 0, r => some ([], r)
  | n + 1, r => do
    let (e, r) ← parseExpr r
    let (es, r) ← parseExprs n r
    pure (e :: es, r)
end

mutual
partial def parseVal : List String → Option (Val × List String)
  | "b" :: b :: r => (decBool b).map fun b => (.bool b, r)
  | "i" :: i :: r => i.toInt?.map fun i => (.int i, r)
  | "f" :: n :: e :: r => do pure (.flt (← n.toInt?) (← e.toNat?), r)
  | "s" :: s :: r => (decStr s).map fun s => (.str s, r)
  | "n" :: r => some (.none, r)
  | "t" :: n :: r => do
    let (vs, r) ← parseVals (← n.toNat?) r
    pure (.tuple vs, r)
  | "o" :: n :: r => do
    let (fs, r) ← parseFields (← n.toNat?) r
    pure (.obj fs, r)
  | _ => none
partial def parseVals : Nat → List String → Option (List Val × List String)
  | 0, r => some ([], r)
  | n + 1, r => do
    let (v, r) ← parseVal r
    let (vs, r) ← parseVals n r
    pure (v :: vs, r)
partial def parseFields : Nat → List String → Option (List (String × Val) × List String)
  | 0, r => some ([], r)
  | n + 1, r =>
    match r with
    | k :: r => do
      let k ← decStr k
      let (v, r) ← parseVal r
      let (fs, r) ← parseFields n r
      pure ((k, v) :: fs, r)
    | [] => none
end

/-- canonical text of a value (table key for function oracle results); numbers by value, so that
    `1` and `1.0` are different keys only by kind tag -/
partial def showVal : Val → String
  | .bool b => "b" ++ encBool b
  | .int i => "i" ++ toString i
  | .flt n e => "f" ++ toString n ++ "/" ++ toString e
  | .str s => "s" ++ encStr s
  | .none => "n"
  | .tuple vs => "t(" ++ ",".intercalate (vs.map showVal) ++ ")"
  | .obj fs => "o(" ++ ",".intercalate (fs.map fun (k, v) => encStr k ++ "=" ++ showVal v) ++ ")"

def keyOf (vs : List Val) : String := ",".intercalate (vs.map showVal)

def toks (s : String) : List String := (s.splitOn " ").filter (· ≠ "")

def showVerdict : Verdict → String
  | .matches b => encBool b
  | .resultTypeError => "!resultType"
  | .open .type => "?type" | .open .name => "?name" | .open .attr => "?attr"
  | .open .func => "?func" | .open .arith => "?arith"

def showPipeErr : PipeErr → String
  | .config => "!config" | .undefinedModel => "!undefinedModel" | .keyError => "!keyError"
  | .indexError => "!indexError" | .invalidRequestSize => "!invalidRequestSize"
  | .invalidPolicySize => "!invalidPolicySize"

abbrev Table := List ((String × String) × Val)

/-- one token item of the `layout` operation: `kind|…|gap`, strings encoded -/
def parseTokItem (s : String) : Option (Tok × Str) :=
  match s.splitOn "|" with
  | ["ref", k, suf, f, g] => do
    let k ← decL k
    match k with
    | [kc] => pure (.ref kc (← decL suf) (← decL f), ← decL g)
    | _ => none
  | ["word", w, g] => do pure (.word (← decL w), ← decL g)
  | ["other", w, g] => do pure (.other (← decL w), ← decL g)
  | ["and", g] => do pure (.andOp, ← decL g)
  | ["or", g] => do pure (.orOp, ← decL g)
  | ["not", g] => do pure (.notOp, ← decL g)
  | ["ne", g] => do pure (.neOp, ← decL g)
  | _ => none

/-- one item of the `layout` operation: a token item, or `lit|quote|body|gap` (a string literal) -/
def parseItem (s : String) : Option LItem :=
  match s.splitOn "|" with
  | ["lit", q, body, g] => do
    match (← decL q) with
    | [qc] => pure (.lit { q := qc, body := (← decL body), gap := (← decL g) })
    | _ => none
  | _ => (parseTokItem s).map fun p => .tok p.1 p.2

def firstSuffix (k : Char) : List (Tok × Str) → Str
  | [] => []
  | (.ref k' s _, _) :: rest => if k' = k then s else firstSuffix k rest
  | _ :: rest => firstSuffix k rest

/-- the hypotheses of `matcherL_layout` (`escapeAssertionL_layout` and `getExpressionL_layout`) for a token
    sequence with string literals: conditions on the runs between the literals only -/
def layoutHyps (m : LToks) : Bool :=
  let sp := firstSuffix 'p' m.runs.flatten
  let sr := firstSuffix 'r' m.runs.flatten
  sp.all isDigit && sr.all isDigit && okForL 'p' sp m && okForL 'r' sr (m.map (escK 'p')) &&
  wfL (m.map escTok)

def step (tbl : Table) (fs : List String) : Table × String :=
  match fs with
  | ["getexpr", s] => (tbl, match decL s with | some s => encL (getExpressionL s) | none => "bad-op")
  | ["getexpr0", s] => (tbl, match decL s with | some s => encL (getExpressionUnrepaired s) | none => "bad-op")
  | ["escape", s] => (tbl, match decL s with | some s => encL (escapeAssertionL s) | none => "bad-op")
  | ["rmcomment", s] => (tbl, match decL s with | some s => encL (removeCommentsL s) | none => "bad-op")
  | ["strip", s] => (tbl, match decL s with | some s => encL (strip s) | none => "bad-op")
  | ["haseval", s] => (tbl, match decL s with | some s => encBool (hasEvalL s) | none => "bad-op")
  | ["evalnames", s] =>
    (tbl, match decL s with | some s => encList ((getEvalValueL s).map encL) | none => "bad-op")
  | ["replaceeval", s, rules] =>
    (tbl, match decL s, decStrList rules with
      | some s, some rules =>
        (match replaceEvalL s (rules.map String.toList) with | some r => encL r | none => "!indexError")
      | _, _ => "bad-op")
  | ["tokens", k, v] =>
    (tbl, match decL k, decL v with
      | some k, some v => encList ((defTokens k v).map encL)
      | _, _ => "bad-op")
  | ["isspace", lo, hi] =>
    (tbl, match lo.toNat?, hi.toNat? with
      | some lo, some hi =>
        encList (((List.range (hi - lo)).map (· + lo)).filter (fun n => n.isValidChar && isSpace (Char.ofNat n)) |>.map toString)
      | _, _ => "bad-op")
  | ["config", t] =>
    (tbl, match decL t with
      | some t =>
        (match parseBuffer t with
         | .error _ => "!config"
         | .ok data => encList (data.map fun (s, o, v) => encL s ++ "|" ++ encL o ++ "|" ++ encL v))
      | none => "bad-op")
  | ["pipeline", t, rt, pt, mt, nreq, pvals] =>
    (tbl, match decL t, decL rt, decL pt, decL mt, nreq.toNat?, decStrList pvals "|" with
      | some t, some rt, some pt, some mt, some nreq, some pvals =>
        (match pipeline t rt pt mt nreq (pvals.map String.toList) with
         | .ok e => encL e
         | .error e => showPipeErr e)
      | _, _, _, _, _, _ => "bad-op")
  | ["restype", k] =>
    (tbl, match (match k with
        | "bT" => some (ResKind.bool true) | "bF" => some (.bool false)
        | "f1" => some (.float true) | "f0" => some (.float false)
        | "i1" => some (.int true) | "i0" => some (.int false)
        | "o" => some .other | _ => none) with
      | some k => (match resultMatches k with | .ok b => encBool b | .error _ => "!resultType")
      | none => "bad-op")
  | ["layout", items] =>
    (tbl, match (decList items).mapM parseItem with
      | some is =>
        let src := renderItems is
        let m := group is
        "src=" ++ encL src ++ " model=" ++ encL (getExpressionL (escapeAssertionL src)) ++
        " spec=" ++ encL (renderPyL (m.map escTok)) ++ " hyp=" ++ encBool (layoutHyps m) ++
        " lits=" ++ encBool (literals (getExpressionL (escapeAssertionL src)) == m.litPieces) ++
        " nlit=" ++ toString m.tail.length
      | none => "bad-op")
  | ["clearfn"] => ([], "ok")
  | ["deffn", name, args, res] =>
    match decStr name, (match toks args with
           | n :: r => (do let (vs, r) ← parseVals (← n.toNat?) r; if r.isEmpty then some vs else none)
           | [] => none),
          (do let (v, r) ← parseVal (toks res); if r.isEmpty then some v else none) with
    | some name, some vs, some v => (((name, keyOf vs), v) :: tbl, "ok")
    | _, _, _ => (tbl, "bad-op")
  | ["eval", e, vars] =>
    (tbl, match (do let (e, r) ← parseExpr (toks e); if r.isEmpty then some e else none),
          (match toks vars with
           | n :: r => (do let (fs, r) ← parseFields (← n.toNat?) r; if r.isEmpty then some fs else none)
           | [] => none) with
      | some e, some vars =>
        "spec=" ++ showVerdict (specMatch { vars := vars, funcs := tbl, key := keyOf } e)
      | _, _ => "bad-op")
  | _ => (tbl, "bad-op")

end Casbin.Driver.Matcher
