import CasbinV.Proto
import CasbinV.Model.Effect
/-! driver family `effect`: `enforce_ex` model and the effect-expression specification (C01, C08) -/
namespace Casbin.Driver.Effect
open Casbin Proto

def kindOf : String → Option EffectKind
  | "ao" => some .allowOverride | "do" => some .denyOverride
  | "ad" => some .allowAndDeny | "pr" => some .priority | _ => none

/-- the synthetic matcher `f(r.k, p.k)` registered by the harness: the rule's first field (or, when it is
    empty, the request's) names the Python value the matcher returns -/
def synthMatcher (req : List String) (pvals : List String) : MVal :=
  let rk := req.headD ""
  let pk := pvals.headD ""
  let sel := if pk == "" then rk else pk
  match sel with
  | "T" => .bool true | "F" => .bool false
  | "f1" => .float true | "f0" => .float false
  | "i1" => .float true | "i0" => .float false      -- an int is numeric (`isinstance(result, (int, float))`)
  | "s" => .other true | "se" => .other false | "none" => .other false
  | _ => .bool (rk == pk)

/-- all rule outcomes or the first error (same as `C01.allOutcomes`, kept here so the driver does not
    import proof files) -/
def allOutcomes (cfg : Cfg) (m : List String → List String → MVal) (req : List String) :
    List (List String) → Except Err (List Outcome)
  | [] => .ok []
  | p :: ps =>
    match ruleOutcome cfg m req p with
    | .error e => .error e
    | .ok o => match allOutcomes cfg m req ps with
      | .error e => .error e
      | .ok os => .ok (o :: os)

/-- the property, executable: what `enforce_ex` must return; `none` = the property leaves it open (some
    rule cannot be classified, so whether the call raises depends on the early exit) -/
def specEnforceEx (cfg : Cfg) (m : List String → List String → MVal)
    (policy : List (List String)) (req : List String) : Option (Except Err (Bool × Option Nat)) :=
  if !cfg.enabled then some (.ok (true, none))
  else if cfg.rArity != req.length then some (.error .invalidRequestSize)
  else if policy.isEmpty then
    if cfg.hasEval then some (.error .evalOnEmptyPolicy)
    else some (.ok (spec cfg.kind [if (m req (List.replicate cfg.pArity "")).truthy then .mAllow else .noMatch], none))
  else match allOutcomes cfg m req policy with
    | .ok os => some (.ok (spec cfg.kind os, specExplain cfg.kind os))
    | .error _ => none

def showErr : Err → String
  | .invalidRequestSize => "!invalidRequestSize" | .invalidPolicySize => "!invalidPolicySize"
  | .matcherResultType => "!matcherResultType" | .evalOnEmptyPolicy => "!evalOnEmptyPolicy"
  | .effectToBool => "!effectToBool" | .unsupportedEffect => "!unsupportedEffect"

def showRes : Except Err (Bool × Option Nat) → String
  | .error e => showErr e
  | .ok (b, ex) => encBool b ++ "," ++ (match ex with | none => "-" | some i => toString i)

def handle (fs : List String) : String :=
  match fs with
  | ["ex", kind, en, ra, pa, ec, he, req, rules] =>
    match kindOf kind, decBool en, ra.toNat?, pa.toNat?, decBool he, decStrList req, decRules rules with
    | some k, some en, some ra, some pa, some he, some req, some rules =>
      let ec := if ec == "-" then some none else ec.toNat?.map some
      match ec with
      | none => "bad-op"
      | some ec =>
        let cfg : Cfg := { kind := k, enabled := en, rArity := ra, pArity := pa, eftCol := ec, hasEval := he }
        let mres := enforceEx cfg synthMatcher rules req
        let sres := specEnforceEx cfg synthMatcher rules req
        "model=" ++ showRes mres ++ " spec=" ++ (match sres with | none => "?" | some r => showRes r)
    | _, _, _, _, _, _, _ => "bad-op"
  | ["geteff", e] =>
    match decStr e with
    | some e => (match getEffector e with
      | .ok .allowOverride => "ao" | .ok .denyOverride => "do" | .ok .allowAndDeny => "ad"
      | .ok .priority => "pr" | .error er => showErr er)
    | none => "bad-op"
  | _ => "bad-op"

end Casbin.Driver.Effect
