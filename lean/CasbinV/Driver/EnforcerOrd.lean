import CasbinV.Proto
import CasbinV.Driver.Enforcer
import CasbinV.Model.LoadOrd
/-! driver family `enfo` (stateful): the enforcer state machine of a model that ORDERS its rules on `load_policy`
(C11, ordering residue).  Everything of family `enf` (delegated), plus

`initord <prio|subj|subjdom> <adapter T/F> <p rules> <g rules>`  state after construction + `load_policy` (ordered, links built)
`op load <k|->`   the ordering reload (`Casbin.Enf.loadOrd`); answer as for `enf`
`q enforce <req>` decision under the priority effect (`enforceQO`); spec = freshly constructed enforcer
`q order`         `model=` what the ordering step makes of the current adapter store (rules of `p` in order, or the
                  exception), `spec=` the same computed independently (classification of the failure + core
                  `List.mergeSort`, which is stable) -/
namespace Casbin.Driver.EnfO
open Casbin.Policy Proto
open Casbin.Enf hiding step

structure DStO where
  d : Casbin.Driver.Enf.DSt := {}
  osh : OShape := .prio
  o : OrdCfg := {}

def showOErr : OErr → String
  | .indexError => "!IndexError" | .typeError => "!TypeError" | .gShort => "!gShort" | .cycle => "!cycle"
  | .fuel => "!fuel"

def showRetL : Except LErr Ret → String
  | .error (.ord e) => showOErr e
  | .error (.enf e) => Casbin.Driver.Enf.showRet (.error e)
  | .ok r => Casbin.Driver.Enf.showRet (.ok r)

def oshapeOf : String → Option OShape
  | "prio" => some .prio | "subj" => some .subj | "subjdom" => some .subjDom | _ => none

/-! independent executable spec of the ordering step -/

def specKeyKinds (pi : Nat) (l : List Rule) : Option (List (Option Int × String)) :=
  l.mapM fun r => (r[pi]?).map fun s => (prioOfString s, s)

def specPrio (pi : Nat) (l : List Rule) : String :=
  match specKeyKinds pi l with
  | none => "!IndexError"
  | some ks =>
    let ints := ks.filter (·.1.isSome)
    if ints.length != 0 && ints.length != ks.length then "!TypeError"
    else if ints.length == ks.length then
      encRules (l.mergeSort fun a b => decide ((prioOf pi a).getD 0 ≤ (prioOf pi b).getD 0))
    else encRules (l.mergeSort fun a b => !decide (b.getD pi "" < a.getD pi ""))

def specSubj (domIdx : Option Nat) (g p : List Rule) : String :=
  if g.any (·.length < 2) then "!gShort"
  else
    let edges : List HEdge := g.map fun r => let d := if r.length == 2 then "" else r.getD 2 ""
      (nameWithDomain d (r.getD 0 ""), nameWithDomain d (r.getD 1 ""))
    match hierarchyMap edges with
    | .error _ => "!cycle"
    | .ok m =>
      let need := match domIdx with | none => 1 | some i => i + 1
      if p.any (·.length < need) then "!IndexError"
      else
        let key := fun (r : Rule) => levelOf m (nameWithDomain (match domIdx with | none => "" | some i => r.getD i "") (r.getD 0 ""))
        encRules (p.mergeSort fun a b => decide (key a ≤ key b))

def step (x : DStO) (fs : List String) : DStO × String :=
  match fs with
  | ["initord", sh, ad, p, g] =>
    match oshapeOf sh, decBool ad, decRules p, decRules g with
    | some sh, some ad, some p, some g =>
      let cfg : Casbin.Enf.Cfg := { gCount := sh.gCount, g2Count := 0, hasAdapter := ad }
      let store : Pol := { p := p, g := g, g2 := [] }
      match orderStore sh.ordCfg store with
      | .error e => (x, showOErr e)
      | .ok pol =>
        match rebuildAll cfg pol with
        | .ok l => ({ d := { cfg := cfg, shape := .rbac, st := { pol := pol, links := l, store := store } }, osh := sh, o := sh.ordCfg }, "ok")
        | .error e => (x, Casbin.Driver.Enf.showEErr e)
    | _, _, _, _ => (x, "bad-op")
  | ["op", "load", k] =>
    let k? : Option (Option Nat) := if k == "-" then some none else k.toNat?.map some
    match k? with
    | none => (x, "bad-op")
    | some k =>
      let s := x.d.st
      let (s', r) := loadOrd x.d.cfg x.o s k
      let da := s'.alog.drop s.alog.length
      let dw := s'.wlog.drop s.wlog.length
      let de := s'.ev.drop s.ev.length
      let showEv : Ev → String := fun e => match e with
        | .adapter c => "a:" ++ Casbin.Driver.Enf.showACall c
        | .watcher w => "w:" ++ Casbin.Driver.Enf.showWCall w
      ({ x with d := { x.d with st := s' } },
        "model=" ++ showRetL r ++ "#" ++ Casbin.Driver.Enf.joinC (da.map Casbin.Driver.Enf.showACall) ++ "#" ++
        Casbin.Driver.Enf.joinC (dw.map Casbin.Driver.Enf.showWCall) ++ "#" ++ Casbin.Driver.Enf.joinC (de.map showEv))
  | ["q", "enforce", req] =>
    match decStrList req with
    | none => (x, "bad-op")
    | some req =>
      let sh := fun (r : Except Casbin.Err Bool) => match r with
        | .ok b => encBool b
        | .error Casbin.Err.invalidRequestSize => "!invalidRequestSize"
        | .error _ => "!other"
      (x, "model=" ++ sh (enforceQO x.osh x.d.st req) ++ " spec=" ++
          sh (enforceQO x.osh (Casbin.Driver.Enf.fresh x.d.cfg x.d.st) req))
  | ["q", "order"] =>
    let st := x.d.st.store
    let m := match orderStore x.o st with
      | .error e => showOErr e
      | .ok pol => encRules pol.p
    let s := match x.osh with
      | .prio => specPrio 0 st.p
      | .subj => specSubj none st.g st.p
      | .subjDom => specSubj (some 2) st.g st.p
    (x, "model=" ++ m ++ " spec=" ++ s)
  | _ =>
    let (d', ans) := Casbin.Driver.Enf.step x.d fs
    ({ x with d := d' }, ans)

end Casbin.Driver.EnfO
