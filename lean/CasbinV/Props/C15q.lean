import CasbinV.Model.EnforcerQ
import CasbinV.Props.C15
import CasbinV.Props.C15f
import CasbinV.Props.C06
/-!
# C15 — the rest of the RBAC query API (resource-centred views, per-domain variants, direct views)

Subject: Model/EnforcerQ.lean (`get_implicit_users_for_resource[_by_domain]`, `get_all_roles_by_domain`,
`get_permissions_for_user[_in_domain]`, `has_permission_for_user`, `get_implicit_permissions_for_user` with a domain)
against `enforceQ` of Model/Enforcer.lean.
-/
namespace Casbin.Enf.C15
open Casbin Casbin.Enf Casbin.Policy

/-! ## the accumulator -/

theorem dedupR_mem (l : List Rule) (x : Rule) : x ∈ dedupR l ↔ x ∈ l := by
  induction l with
  | nil => simp [dedupR]
  | cons a as ih =>
    simp only [dedupR, List.mem_cons, List.mem_filter, ih]
    constructor
    · rintro (h | ⟨h, _⟩)
      · exact Or.inl h
      · exact Or.inr h
    · rintro (h | h)
      · exact Or.inl h
      · by_cases hx : x = a
        · exact Or.inl hx
        · exact Or.inr ⟨h, by simpa using hx⟩

theorem dedupR_nodup (l : List Rule) : (dedupR l).Nodup := by
  induction l with
  | nil => simp [dedupR]
  | cons a as ih =>
    simp only [dedupR]
    refine List.nodup_cons.mpr ⟨?_, ih.filter _⟩
    intro h
    have := (List.mem_filter.mp h).2
    simp at this

/-! ## the loop of the resource-centred views, for every policy -/

/-- **What the loop lists** (every policy, every role graph): a triple is listed exactly when it is a selected rule
    whose subject is not a role, or a selected rule of a role with the subject replaced by a direct user of that
    role; nothing is listed twice. -/
theorem usersForResourceCore_mem (isRole : String → Bool) (users : String → List String) (sel : Rule → Bool)
    (p : List Rule) :
    (∀ x, x ∈ usersForResourceCore isRole users sel p ↔
      ∃ rule ∈ p, sel rule = true ∧ ∃ sub, rule[0]? = some sub ∧
        ((isRole sub = false ∧ x = rule) ∨ (isRole sub = true ∧ ∃ u ∈ users sub, x = rule.set 0 u))) ∧
    (usersForResourceCore isRole users sel p).Nodup := by
  refine ⟨fun x => ?_, dedupR_nodup _⟩
  unfold usersForResourceCore
  rw [dedupR_mem]
  simp only [List.mem_flatMap, List.mem_filter]
  constructor
  · rintro ⟨rule, ⟨hr, hs⟩, hx⟩
    refine ⟨rule, hr, hs, ?_⟩
    unfold expandRule at hx
    cases h0 : rule[0]? with
    | none => simp [h0] at hx
    | some sub =>
      simp only [h0] at hx
      refine ⟨sub, rfl, ?_⟩
      cases hrole : isRole sub with
      | false => simp [hrole] at hx; exact Or.inl ⟨rfl, hx⟩
      | true =>
        simp [hrole] at hx
        obtain ⟨u, hu, rfl⟩ := hx
        exact Or.inr ⟨rfl, u, hu, rfl⟩
  · rintro ⟨rule, hr, hs, sub, h0, h⟩
    refine ⟨rule, ⟨hr, hs⟩, ?_⟩
    unfold expandRule
    simp only [h0]
    rcases h with ⟨hrole, rfl⟩ | ⟨hrole, u, hu, rfl⟩
    · simp [hrole]
    · simp only [hrole, if_true, List.mem_map]
      exact ⟨u, hu, rfl⟩

/-- replacing the subject leaves every other field alone -/
theorem set0_other (rule : Rule) (u : String) (i : Nat) (hi : i ≠ 0) : (rule.set 0 u)[i]? = rule[i]? := by
  rw [List.getElem?_set_ne (Ne.symm hi)]

/-- every listed triple carries the fields (other than the subject) of a selected stored rule - in particular the
    resource asked for and, for the domain variant, the domain asked for: **no rule of another domain leaks** -/
theorem usersForResourceCore_fields (isRole : String → Bool) (users : String → List String) (sel : Rule → Bool)
    (p : List Rule) (x : Rule) (hx : x ∈ usersForResourceCore isRole users sel p) :
    ∃ rule ∈ p, sel rule = true ∧ ∀ i, i ≠ 0 → x[i]? = rule[i]? := by
  obtain ⟨rule, hr, hs, sub, _, h⟩ := ((usersForResourceCore_mem isRole users sel p).1 x).mp hx
  refine ⟨rule, hr, hs, fun i hi => ?_⟩
  rcases h with ⟨_, rfl⟩ | ⟨_, u, _, rfl⟩
  · rfl
  · exact set0_other rule u i hi

theorem by_domain_no_foreign_rule (s : St) (resource dom : String) (x : Rule)
    (hx : x ∈ implicitUsersForResourceByDomain .rbacDom s resource dom) :
    x[1]? = some dom ∧ x[2]? = some resource := by
  obtain ⟨rule, _, hs, hf⟩ := usersForResourceCore_fields _ _ _ _ x hx
  simp only [Shape.objIdx, Shape.domIdx, Bool.and_eq_true, beq_iff_eq] at hs
  exact ⟨by rw [hf 1 (by decide)]; exact hs.2, by rw [hf 2 (by decide)]; exact hs.1⟩

/-! ## one-level hierarchies: the views agree with `enforce` -/

/-- no role is itself assigned a role (the hierarchy has one level) -/
def Flat (g : Graph) : Prop := ∀ u r, (u, r) ∈ g → ∀ w, (w, u) ∉ g

theorem flat_path (g : Graph) (hf : Flat g) (u r : Name) (n : Nat) (p : Path g u r (n + 1)) : n = 0 ∧ (u, r) ∈ g := by
  cases p with
  | step he p' =>
    cases p' with
    | refl => exact ⟨rfl, he⟩
    | step he' _ => exact absurd he (hf _ _ he' _)

theorem flat_hasLink (g : Graph) (hf : Flat g) (u r : Name) :
    hasLink g maxLevel u r = true ↔ u = r ∨ (u, r) ∈ g := by
  rw [hasLink_iff]
  constructor
  · rintro (h | ⟨n, _, p⟩)
    · exact Or.inl h
    · cases n with
      | zero => cases p; exact Or.inl rfl
      | succ k => exact Or.inr (flat_path g hf u r k p).2
  · rintro (h | h)
    · exact Or.inl h
    · exact Or.inr ⟨1, by decide, Path.step h (Path.refl _)⟩

theorem mem_getUsers (store : List Rule) (dom : Option String) (u r : String) :
    u ∈ getUsers store r dom ↔ (u, r) ∈ edgesOf store dom := by
  rw [users_roles_inverse, getRoles_direct]

/-- the link store of `g` records exactly the stored grouping rules (what `build_role_links` and the incremental
    maintenance establish: Props/C04) as far as "is a role" is concerned -/
def RolesSynced (s : St) : Prop := ∀ r, r ∈ fieldValues s.pol.g 1 ↔ ∃ u, (u, r) ∈ edgesOf s.links.g none

theorem mem_allRoles (s : St) (r : String) : r ∈ allRoles s ↔ r ∈ fieldValues s.pol.g 1 := Iff.rfl

/-- the listed triples of the plain RBAC model, for every policy -/
theorem implicit_users_for_resource_mem (s : St) (hs : PSized s.pol.p) (res u o a : String) :
    [u, o, a] ∈ implicitUsersForResource .rbac s res ↔
      o = res ∧ ∃ ps, [ps, o, a] ∈ s.pol.p ∧
        ((ps ∉ allRoles s ∧ u = ps) ∨ (ps ∈ allRoles s ∧ (u, ps) ∈ edgesOf s.links.g none)) := by
  unfold implicitUsersForResource
  rw [(usersForResourceCore_mem _ _ _ _).1]
  simp only [Shape.objIdx, beq_iff_eq, List.contains_eq_mem, decide_eq_false_iff_not, decide_eq_true_eq, mem_getUsers]
  constructor
  · rintro ⟨rule, hr, hsel, sub, h0, h⟩
    have hl := hs rule hr
    match rule, hl with
    | [ps, po, pa], _ =>
      simp at hsel h0
      subst hsel; subst h0
      rcases h with ⟨hrole, hx⟩ | ⟨hrole, w, hw, hx⟩
      · simp at hx
        obtain ⟨rfl, rfl, rfl⟩ := hx
        exact ⟨rfl, u, hr, Or.inl ⟨hrole, rfl⟩⟩
      · simp at hx
        obtain ⟨rfl, rfl, rfl⟩ := hx
        exact ⟨rfl, ps, hr, Or.inr ⟨hrole, hw⟩⟩
  · rintro ⟨rfl, ps, hr, h⟩
    refine ⟨[ps, o, a], hr, by simp, ps, by simp, ?_⟩
    rcases h with ⟨hrole, rfl⟩ | ⟨hrole, he⟩
    · exact Or.inl ⟨hrole, rfl⟩
    · exact Or.inr ⟨hrole, u, he, by simp⟩

/-- **Resource-centred view agrees with enforcement (one-level hierarchies).** In the RBAC model, when no role is
    itself given a role, `get_implicit_users_for_resource(res)` lists `[u, o, a]` exactly when `o` is the resource,
    `u` is not a role and `enforce(u, o, a)` allows - directly or through a role.  (`_partial`: the hypothesis `Flat`
    is necessary, see `implicit_users_for_resource_nested_witness`.) -/
theorem implicit_users_for_resource_partial (s : St) (hs : PSized s.pol.p) (hne : s.pol.p ≠ [])
    (hsync : RolesSynced s) (hflat : Flat (edgesOf s.links.g none)) (res u o a : String) :
    [u, o, a] ∈ implicitUsersForResource .rbac s res ↔
      o = res ∧ u ∉ allRoles s ∧ enforceQ .rbac s [u, o, a] = .ok true := by
  rw [implicit_users_for_resource_mem s hs, enforce_rbac s u o a hs hne]
  simp only [Except.ok.injEq, List.any_eq_true]
  constructor
  · rintro ⟨rfl, ps, hr, h⟩
    refine ⟨rfl, ?_, [ps, o, a], hr, ?_⟩
    · rcases h with ⟨hrole, rfl⟩ | ⟨_, he⟩
      · exact hrole
      · intro hu
        obtain ⟨w, hw⟩ := (hsync u).mp hu
        exact hflat _ _ he _ hw
    · simp only [matchR, Bool.and_eq_true, beq_iff_eq, and_true]
      unfold hasLinkQ
      rw [flat_hasLink _ hflat]
      rcases h with ⟨_, rfl⟩ | ⟨_, he⟩
      · exact Or.inl rfl
      · exact Or.inr he
  · rintro ⟨rfl, hu, pv, hpv, hm⟩
    have hl := hs pv hpv
    match pv, hl with
    | [ps, po, pa], _ =>
      simp only [matchR, Bool.and_eq_true, beq_iff_eq] at hm
      obtain ⟨⟨hlink, rfl⟩, rfl⟩ := hm
      refine ⟨rfl, ps, hpv, ?_⟩
      unfold hasLinkQ at hlink
      rcases (flat_hasLink _ hflat u ps).mp hlink with rfl | he
      · exact Or.inl ⟨hu, rfl⟩
      · exact Or.inr ⟨(hsync ps).mpr ⟨u, he⟩, he⟩

/-- every listed rule has the form `[u, res, a]`, each once -/
theorem implicit_users_for_resource_shape (s : St) (hs : PSized s.pol.p) (res : String) :
    (∀ x ∈ implicitUsersForResource .rbac s res, ∃ u a, x = [u, res, a]) ∧
    (implicitUsersForResource .rbac s res).Nodup := by
  refine ⟨fun x hx => ?_, (usersForResourceCore_mem _ _ _ _).2⟩
  obtain ⟨rule, hr, hsel, sub, h0, h⟩ := ((usersForResourceCore_mem _ _ _ _).1 x).mp hx
  have hl := hs rule hr
  match rule, hl with
  | [ps, po, pa], _ =>
    simp [Shape.objIdx] at hsel
    subst hsel
    rcases h with ⟨_, rfl⟩ | ⟨_, w, _, rfl⟩
    · exact ⟨ps, pa, rfl⟩
    · exact ⟨w, pa, by simp⟩

/-- the negative witness: with a two-level hierarchy (`alice → admin → root`, `p, root, data1, read`) the view lists
    the role `admin` and misses the user `alice`, whom `enforce` allows -/
theorem implicit_users_for_resource_nested_witness :
    let s : St := { pol := { p := [["root", "data1", "read"]], g := [["alice", "admin"], ["admin", "root"]] },
                    links := { g := [["alice", "admin"], ["admin", "root"]] } }
    implicitUsersForResource .rbac s "data1" = [["admin", "data1", "read"]] ∧
    "admin" ∈ allRoles s ∧ "alice" ∉ allRoles s ∧
    enforceQ .rbac s ["alice", "data1", "read"] = .ok true := by
  decide

/-! ## the domain model -/

def PSized4 (l : List Rule) : Prop := ∀ r ∈ l, r.length = 4
def GSized3 (l : List Rule) : Prop := ∀ r ∈ l, r.length = 3

def matchD (links : Pol) (rs rd ro ra : String) (pv : Rule) : Bool :=
  match pv with
  | ps :: pd :: po :: pa :: _ => hasLinkQ links.g rs ps (some rd) && rd == pd && ro == po && ra == pa
  | _ => false

theorem matcher_dom (links : Pol) (rs rd ro ra : String) (pv : Rule) (h : pv.length = 4) :
    matcher .rbacDom links [rs, rd, ro, ra] pv = .bool (matchD links rs rd ro ra pv) := by
  match pv, h with
  | [ps, pd, po, pa], _ => rfl

theorem allOutcomes_dom (links : Pol) (rs rd ro ra : String) (l : List Rule) (h : PSized4 l) :
    C01.allOutcomes { kind := .allowOverride, rArity := 4, pArity := 4 } (matcher .rbacDom links) [rs, rd, ro, ra] l =
      .ok (l.map fun pv => if matchD links rs rd ro ra pv then Outcome.mAllow else Outcome.noMatch) := by
  induction l with
  | nil => rfl
  | cons pv ps ih =>
    have hl : pv.length = 4 := h pv (by simp)
    have ih' := ih (fun x hx => h x (by simp [hx]))
    simp only [C01.allOutcomes, ruleOutcome, hl, matcher_dom links rs rd ro ra pv hl, ih', List.map_cons]
    cases matchD links rs rd ro ra pv <;> simp [ruleEft]

/-- on a non-empty well-sized domain policy a request is allowed exactly when some rule matches -/
theorem enforce_dom (s : St) (rs rd ro ra : String) (h : PSized4 s.pol.p) (hne : s.pol.p ≠ []) :
    enforceQ .rbacDom s [rs, rd, ro, ra] = .ok (s.pol.p.any (matchD s.links rs rd ro ra)) := by
  unfold enforceQ
  have := C01.enforce_eq_spec { kind := .allowOverride, rArity := 4, pArity := 4 } (matcher .rbacDom s.links)
    s.pol.p [rs, rd, ro, ra] _ rfl rfl hne (allOutcomes_dom s.links rs rd ro ra s.pol.p h)
  show enforce { kind := .allowOverride, rArity := 4, pArity := 4 } _ _ _ = _
  rw [this]
  simp only [spec, List.any_map]
  congr 1
  apply any_congr'
  intro x _
  simp only [Function.comp]
  cases matchD s.links rs rd ro ra x <;> simp [Outcome.isAllow]

/-- **`get_all_roles_by_domain`**: each once, exactly the last-but-one fields of the stored grouping rules that end
    with the domain -/
theorem allRolesByDomain_mem (g : List Rule) (dom r : String) :
    (r ∈ allRolesByDomain g dom ↔ ∃ rule ∈ g, rule.getLast? = some dom ∧ rule[rule.length - 2]? = some r) ∧
    (allRolesByDomain g dom).Nodup := by
  refine ⟨?_, dedupS_nodup _⟩
  unfold allRolesByDomain
  rw [dedupS_mem, List.mem_filterMap]
  constructor
  · rintro ⟨rule, hr, h⟩
    split at h
    · rename_i hl; exact ⟨rule, hr, by simpa using hl, h⟩
    · cases h
  · rintro ⟨rule, hr, hl, h⟩
    exact ⟨rule, hr, by simp [hl, h]⟩

/-- on well-sized grouping rules `g = _, _, _`: the roles some subject is given in that domain -/
theorem allRolesByDomain_sized (g : List Rule) (hg : GSized3 g) (dom r : String) :
    r ∈ allRolesByDomain g dom ↔ ∃ u, [u, r, dom] ∈ g := by
  rw [(allRolesByDomain_mem g dom r).1]
  constructor
  · rintro ⟨rule, hr, hl, h⟩
    have := hg rule hr
    match rule, this with
    | [a, b, c], _ =>
      simp at hl h
      subst hl; subst h
      exact ⟨a, hr⟩
  · rintro ⟨u, hu⟩
    exact ⟨[u, r, dom], hu, by simp, by simp⟩

/-- "is a role in the domain" as decided from the stored rules agrees with the link store of the role manager -/
def RolesSyncedD (s : St) (dom : String) : Prop :=
  ∀ r, r ∈ allRolesByDomain s.pol.g dom ↔ ∃ u, (u, r) ∈ edgesOf s.links.g (some dom)

theorem mem_edgesOf_dom (store : List Rule) (dom u r : String) (hg : GSized3 store) :
    (u, r) ∈ edgesOf store (some dom) ↔ [u, r, dom] ∈ store := by
  unfold edgesOf
  rw [List.mem_filterMap]
  constructor
  · rintro ⟨l, hl, h⟩
    have := hg l hl
    match l, this with
    | [a, b, c], _ =>
      simp at h
      obtain ⟨rfl, rfl, rfl⟩ := h
      exact hl
  · intro h
    exact ⟨[u, r, dom], h, by simp⟩

/-- the hypothesis holds whenever the link store holds the stored rules (the state after `build_role_links`) -/
theorem rolesSyncedD_of_built (s : St) (dom : String) (hg : GSized3 s.pol.g)
    (hl : ∀ l, l ∈ s.links.g ↔ l ∈ s.pol.g) : RolesSyncedD s dom := by
  intro r
  have hg' : GSized3 s.links.g := fun l h => hg l ((hl l).mp h)
  rw [allRolesByDomain_sized _ hg]
  constructor
  · rintro ⟨u, hu⟩; exact ⟨u, (mem_edgesOf_dom _ _ _ _ hg').mpr ((hl _).mpr hu)⟩
  · rintro ⟨u, hu⟩; exact ⟨u, (hl _).mp ((mem_edgesOf_dom _ _ _ _ hg').mp hu)⟩

/-- the listed rules of the domain model, for every policy -/
theorem implicit_users_for_resource_by_domain_mem (s : St) (hs : PSized4 s.pol.p) (res dom u d o a : String) :
    [u, d, o, a] ∈ implicitUsersForResourceByDomain .rbacDom s res dom ↔
      o = res ∧ d = dom ∧ ∃ ps, [ps, d, o, a] ∈ s.pol.p ∧
        ((ps ∉ allRolesByDomain s.pol.g dom ∧ u = ps) ∨
         (ps ∈ allRolesByDomain s.pol.g dom ∧ (u, ps) ∈ edgesOf s.links.g (some dom))) := by
  unfold implicitUsersForResourceByDomain
  rw [(usersForResourceCore_mem _ _ _ _).1]
  simp only [Shape.objIdx, Shape.domIdx, Bool.and_eq_true, beq_iff_eq, List.contains_eq_mem, decide_eq_false_iff_not,
    decide_eq_true_eq, mem_getUsers]
  constructor
  · rintro ⟨rule, hr, hsel, sub, h0, h⟩
    have hl := hs rule hr
    match rule, hl with
    | [ps, pd, po, pa], _ =>
      simp at hsel h0
      obtain ⟨rfl, rfl⟩ := hsel
      subst h0
      rcases h with ⟨hrole, hx⟩ | ⟨hrole, w, hw, hx⟩
      · simp at hx
        obtain ⟨rfl, rfl, rfl, rfl⟩ := hx
        exact ⟨rfl, rfl, u, hr, Or.inl ⟨hrole, rfl⟩⟩
      · simp at hx
        obtain ⟨rfl, rfl, rfl, rfl⟩ := hx
        exact ⟨rfl, rfl, ps, hr, Or.inr ⟨hrole, hw⟩⟩
  · rintro ⟨rfl, rfl, ps, hr, h⟩
    refine ⟨[ps, d, o, a], hr, by simp, ps, by simp, ?_⟩
    rcases h with ⟨hrole, rfl⟩ | ⟨hrole, he⟩
    · exact Or.inl ⟨hrole, rfl⟩
    · exact Or.inr ⟨hrole, u, he, by simp⟩

/-- **The by-domain view agrees with enforcement in that domain (one-level hierarchies).**  It lists `[u, d, o, a]`
    exactly when `o` and `d` are the resource and the domain asked for, `u` is not a role of that domain and
    `enforce(u, d, o, a)` allows; assignments and rules of other domains play no part. -/
theorem implicit_users_for_resource_by_domain_partial (s : St) (hs : PSized4 s.pol.p) (hne : s.pol.p ≠ [])
    (res dom : String) (hsync : RolesSyncedD s dom) (hflat : Flat (edgesOf s.links.g (some dom))) (u d o a : String) :
    [u, d, o, a] ∈ implicitUsersForResourceByDomain .rbacDom s res dom ↔
      o = res ∧ d = dom ∧ u ∉ allRolesByDomain s.pol.g dom ∧ enforceQ .rbacDom s [u, d, o, a] = .ok true := by
  rw [implicit_users_for_resource_by_domain_mem s hs, enforce_dom s u d o a hs hne]
  simp only [Except.ok.injEq, List.any_eq_true]
  constructor
  · rintro ⟨rfl, rfl, ps, hr, h⟩
    refine ⟨rfl, rfl, ?_, [ps, d, o, a], hr, ?_⟩
    · rcases h with ⟨hrole, rfl⟩ | ⟨_, he⟩
      · exact hrole
      · intro hu
        obtain ⟨w, hw⟩ := (hsync u).mp hu
        exact hflat _ _ he _ hw
    · simp only [matchD, Bool.and_eq_true, beq_iff_eq, and_true]
      unfold hasLinkQ
      rw [flat_hasLink _ hflat]
      rcases h with ⟨_, rfl⟩ | ⟨_, he⟩
      · exact Or.inl rfl
      · exact Or.inr he
  · rintro ⟨rfl, rfl, hu, pv, hpv, hm⟩
    have hl := hs pv hpv
    match pv, hl with
    | [ps, pd, po, pa], _ =>
      simp only [matchD, Bool.and_eq_true, beq_iff_eq] at hm
      obtain ⟨⟨⟨hlink, rfl⟩, rfl⟩, rfl⟩ := hm
      refine ⟨rfl, rfl, ps, hpv, ?_⟩
      unfold hasLinkQ at hlink
      rcases (flat_hasLink _ hflat u ps).mp hlink with rfl | he
      · exact Or.inl ⟨hu, rfl⟩
      · exact Or.inr ⟨(hsync ps).mpr ⟨u, he⟩, he⟩

/-- every listed rule has the form `[u, dom, res, a]`, each once -/
theorem implicit_users_for_resource_by_domain_shape (s : St) (hs : PSized4 s.pol.p) (res dom : String) :
    (∀ x ∈ implicitUsersForResourceByDomain .rbacDom s res dom, ∃ u a, x = [u, dom, res, a]) ∧
    (implicitUsersForResourceByDomain .rbacDom s res dom).Nodup := by
  refine ⟨fun x hx => ?_, (usersForResourceCore_mem _ _ _ _).2⟩
  obtain ⟨rule, hr, hsel, sub, h0, h⟩ := ((usersForResourceCore_mem _ _ _ _).1 x).mp hx
  have hl := hs rule hr
  match rule, hl with
  | [ps, pd, po, pa], _ =>
    simp [Shape.objIdx, Shape.domIdx] at hsel
    obtain ⟨rfl, rfl⟩ := hsel
    rcases h with ⟨_, rfl⟩ | ⟨_, w, _, rfl⟩
    · exact ⟨ps, pa, rfl⟩
    · exact ⟨w, pa, by simp⟩

/-- the negative witness in a domain: `alice → admin → root` in `d1` -/
theorem implicit_users_for_resource_by_domain_nested_witness :
    let s : St := { pol := { p := [["root", "d1", "data1", "read"]], g := [["alice", "admin", "d1"], ["admin", "root", "d1"]] },
                    links := { g := [["alice", "admin", "d1"], ["admin", "root", "d1"]] } }
    implicitUsersForResourceByDomain .rbacDom s "data1" "d1" = [["admin", "d1", "data1", "read"]] ∧
    "admin" ∈ allRolesByDomain s.pol.g "d1" ∧ "alice" ∉ allRolesByDomain s.pol.g "d1" ∧
    enforceQ .rbacDom s ["alice", "d1", "data1", "read"] = .ok true := by
  decide

/-! ## direct views: filters of the stored rules -/

theorem matchesFilter_one (a : String) (r : Rule) :
    Spec.matchesFilter 0 [a] r = (a == "" || r[0]? == some a) := by
  simp [Spec.matchesFilter, List.zipIdx]

theorem matchesFilter_two (a b : String) (r : Rule) :
    Spec.matchesFilter 0 [a, b] r = ((a == "" || r[0]? == some a) && (b == "" || r[1]? == some b)) := by
  simp [Spec.matchesFilter, List.zipIdx]

/-- **`get_permissions_for_user`** = the stored rules whose subject is the user, in stored order -/
theorem permissionsForUser_exact (s : St) (user : String) (hu : user ≠ "") (h : ∀ r ∈ s.pol.p, 1 ≤ r.length) :
    permissionsForUser s user = .ok (s.pol.p.filter fun r => r[0]? == some user) := by
  unfold permissionsForUser
  rw [C06.getFiltered_exact _ _ _ (by intro r hr; simpa using h r hr)]
  unfold Spec.getFiltered
  congr 1
  apply List.filter_congr
  intro r _
  rw [matchesFilter_one]
  simp [hu]

/-- **`get_permissions_for_user_in_domain`** = the stored rules of that subject in that domain, in stored order -/
theorem permissionsForUserInDomain_exact (s : St) (user dom : String) (hu : user ≠ "") (hd : dom ≠ "")
    (h : ∀ r ∈ s.pol.p, 2 ≤ r.length) :
    permissionsForUserInDomain s user dom = .ok (s.pol.p.filter fun r => r[0]? == some user && r[1]? == some dom) := by
  unfold permissionsForUserInDomain
  rw [C06.getFiltered_exact _ _ _ (by intro r hr; simpa using h r hr)]
  unfold Spec.getFiltered
  congr 1
  apply List.filter_congr
  intro r _
  have h1 : (user == "") = false := by simpa using hu
  have h2 : (dom == "") = false := by simpa using hd
  rw [matchesFilter_two, h1, h2]
  rfl

/-- **`has_permission_for_user`** is membership of the stored rules, and agrees with `get_permissions_for_user` -/
theorem hasPermissionForUser_iff (s : St) (user : String) (perm : List String) :
    hasPermissionForUser s user perm = true ↔ (user :: perm) ∈ s.pol.p := by
  simp [hasPermissionForUser]

theorem hasPermission_iff_listed (s : St) (user : String) (perm : List String) (hu : user ≠ "")
    (h : ∀ r ∈ s.pol.p, 1 ≤ r.length) :
    hasPermissionForUser s user perm = true ↔ ∃ l, permissionsForUser s user = .ok l ∧ (user :: perm) ∈ l := by
  rw [hasPermissionForUser_iff, permissionsForUser_exact s user hu h]
  constructor
  · intro hm; exact ⟨_, rfl, List.mem_filter.mpr ⟨hm, by simp⟩⟩
  · rintro ⟨l, hl, hm⟩
    simp only [Except.ok.injEq] at hl
    subst hl
    exact (List.mem_filter.mp hm).1

/-! ## implicit permissions in a domain -/

theorem gatherPermissions_exact (p : List Rule) (d : String) (roles : List String) (h : ∀ r ∈ p, 2 ≤ r.length) :
    gatherPermissions p d roles = .ok (roles.flatMap fun role => Spec.getFiltered p 0 [role, d]) := by
  induction roles with
  | nil => rfl
  | cons role rest ih =>
    simp only [gatherPermissions, C06.getFiltered_exact p 0 [role, d] (by intro r hr; simpa using h r hr), ih,
      List.flatMap_cons]

theorem path_last_edge {g : Graph} {u r : Name} {n : Nat} (p : Path g u r (n + 1)) : ∃ v, (v, r) ∈ g := by
  induction n generalizing u with
  | zero =>
    cases p with
    | step he p' => cases p'; exact ⟨_, he⟩
  | succ k ih =>
    cases p with
    | step _ p' => exact ih p'

/-- **enforce ⇔ implicit permission, per domain.**  In the domain model (allow-override, matcher = role membership in
    the request's domain plus equality on domain, object and action), within the depth bound, a request is allowed
    exactly when its domain, object and action appear among `get_implicit_permissions_for_user(sub, dom)`.  The empty
    string is excluded as a name: as a filter value it is the wildcard of `get_filtered_policy`. -/
theorem enforce_iff_implicit_permission_dom (s : St) (rs rd ro ra : String) (perms : List Rule)
    (hs : PSized4 s.pol.p) (hne : s.pol.p ≠ []) (hrs : rs ≠ "") (hrd : rd ≠ "")
    (hnames : ∀ u r, (u, r) ∈ edgesOf s.links.g (some rd) → r ≠ "")
    (hp : implicitPermissionsDom s rs rd true = some (.ok perms))
    (hdepth : DepthOK (edgesOf s.links.g (some rd)) rs) :
    enforceQ .rbacDom s [rs, rd, ro, ra] = .ok true ↔ ∃ ps, [ps, rd, ro, ra] ∈ perms := by
  rw [enforce_dom s rs rd ro ra hs hne]
  unfold implicitPermissionsDom at hp
  cases hroles : implicitRoles s.links.g rs (some rd) with
  | none => simp [hroles] at hp
  | some roles =>
    have h2 : ∀ r ∈ s.pol.p, 2 ≤ r.length := fun r hr => by rw [hs r hr]; decide
    simp only [hroles, Option.map_some, if_true, gatherPermissions_exact _ _ _ h2, Option.some.injEq,
      Except.ok.injEq] at hp
    subst hp
    obtain ⟨hr, _⟩ := implicit_roles_iff s.links.g rs (some rd) roles hroles
    have hroleNe : ∀ role ∈ rs :: roles, role ≠ "" := by
      intro role hrole
      rcases List.mem_cons.mp hrole with rfl | h
      · exact hrs
      · obtain ⟨n, p⟩ := (hr role).mp h
        obtain ⟨v, hv⟩ := path_last_edge p
        exact hnames v role hv
    have hmemF : ∀ role ∈ rs :: roles, ∀ x, x ∈ Spec.getFiltered s.pol.p 0 [role, rd] ↔
        x ∈ s.pol.p ∧ x[0]? = some role ∧ x[1]? = some rd := by
      intro role hrole x
      unfold Spec.getFiltered
      rw [List.mem_filter, matchesFilter_two]
      simp [hroleNe role hrole, hrd]
    simp only [Except.ok.injEq, List.any_eq_true, List.mem_flatMap]
    constructor
    · rintro ⟨pv, hpv, hm⟩
      have hl := hs pv hpv
      match pv, hl with
      | [ps, pd, po, pa], _ =>
        simp only [matchD, Bool.and_eq_true, beq_iff_eq] at hm
        obtain ⟨⟨⟨hlink, rfl⟩, rfl⟩, rfl⟩ := hm
        have hin : ps ∈ rs :: roles := by
          unfold hasLinkQ at hlink
          rcases (hasLink_iff _ _ _ _).mp hlink with rfl | ⟨n, hn, p⟩
          · simp
          · cases n with
            | zero => cases p; simp
            | succ k => exact List.mem_cons_of_mem _ ((hr ps).mpr ⟨k, p⟩)
        exact ⟨ps, ps, hin, (hmemF ps hin _).mpr ⟨hpv, by simp, by simp⟩⟩
    · rintro ⟨ps, role, hrole, hin⟩
      obtain ⟨hpv, hfirst, _⟩ := (hmemF role hrole _).mp hin
      simp at hfirst; subst hfirst
      refine ⟨[ps, rd, ro, ra], hpv, ?_⟩
      simp only [matchD, Bool.and_eq_true, beq_iff_eq, and_true]
      unfold hasLinkQ
      rw [hasLink_iff]
      rcases List.mem_cons.mp hrole with rfl | hrole'
      · exact Or.inl rfl
      · exact Or.inr (hdepth ps ((hr ps).mp hrole'))

/-- with `filter_policy_dom = False` the permissions of the user and of the roles held in the domain are listed
    whatever their domain field (the stored rules of those subjects, in order of the holders) -/
theorem implicitPermissionsDom_unfiltered (s : St) (user dom : String) (roles : List String)
    (h : ∀ r ∈ s.pol.p, 2 ≤ r.length) (hroles : implicitRoles s.links.g user (some dom) = some roles) :
    implicitPermissionsDom s user dom false =
      some (.ok ((user :: roles).flatMap fun role => Spec.getFiltered s.pol.p 0 [role, ""])) := by
  simp [implicitPermissionsDom, hroles, gatherPermissions_exact _ _ _ h]

/-! ## Non-vacuity -/

example :
    let s : St := { pol := { p := [["admin", "data1", "read"], ["bob", "data1", "write"]], g := [["alice", "admin"]] },
                    links := { g := [["alice", "admin"]] } }
    PSized s.pol.p ∧ s.pol.p ≠ [] ∧ RolesSynced s ∧ Flat (edgesOf s.links.g none) ∧
    implicitUsersForResource .rbac s "data1" = [["alice", "data1", "read"], ["bob", "data1", "write"]] ∧
    permissionsForUser s "bob" = .ok [["bob", "data1", "write"]] ∧
    hasPermissionForUser s "bob" ["data1", "write"] = true := by
  refine ⟨by simp [PSized], by decide, ?_, ?_, by decide, by decide, by decide⟩
  rotate_left
  · intro u r h w hw
    simp [edgesOf] at h hw
    obtain ⟨rfl, rfl⟩ := h
    exact absurd hw.2 (by decide)
  intro r
  constructor
  · intro h
    have : r = "admin" := by simpa [fieldValues, dedupS] using h
    subst this; exact ⟨"alice", by decide⟩
  · rintro ⟨u, hu⟩
    have : r = "admin" := by
      simp [edgesOf] at hu; exact hu.2
    subst this; decide

example :
    let s : St := { pol := { p := [["admin", "d1", "data1", "read"], ["admin", "d2", "data1", "read"]],
                             g := [["alice", "admin", "d1"], ["bob", "admin", "d2"]] },
                    links := { g := [["alice", "admin", "d1"], ["bob", "admin", "d2"]] } }
    PSized4 s.pol.p ∧ GSized3 s.pol.g ∧ Flat (edgesOf s.links.g (some "d1")) ∧ RolesSyncedD s "d1" ∧
    implicitUsersForResourceByDomain .rbacDom s "data1" "d1" = [["alice", "d1", "data1", "read"]] ∧
    allRolesByDomain s.pol.g "d1" = ["admin"] ∧
    permissionsForUserInDomain s "admin" "d2" = .ok [["admin", "d2", "data1", "read"]] ∧
    implicitPermissionsDom s "alice" "d1" true = some (.ok [["admin", "d1", "data1", "read"]]) ∧
    implicitPermissionsDom s "alice" "d1" false =
      some (.ok [["admin", "d1", "data1", "read"], ["admin", "d2", "data1", "read"]]) ∧
    enforceQ .rbacDom s ["alice", "d1", "data1", "read"] = .ok true ∧
    DepthOK (edgesOf s.links.g (some "d1")) "alice" := by
  refine ⟨by simp [PSized4], by simp [GSized3], ?_, ?_, by decide, by decide, by decide, by decide, by decide, by decide, ?_⟩
  · intro u r h w hw
    simp [edgesOf] at h hw
    obtain ⟨rfl, rfl⟩ := h
    exact absurd hw.2 (by decide)
  · exact rolesSyncedD_of_built _ _ (by simp [GSized3]) (fun l => Iff.rfl)
  · rintro r ⟨n, p⟩
    cases p with
    | @step _ v _ _ he p' =>
      have hv : v = "admin" := by
        simp [edgesOf] at he; exact he
      subst hv
      cases p' with
      | refl => exact ⟨1, by decide, Path.step (by decide) (Path.refl _)⟩
      | step he' _ => simp [edgesOf] at he'

end Casbin.Enf.C15
