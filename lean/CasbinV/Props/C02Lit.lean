import CasbinV.Props.C02
/-!
# C02, string literals (F01b repaired) — the rewriting steps skip string literals

`Model/Matcher.lean` models the repaired pipeline: every textual step (`escape_assertion`, `remove_comments`,
`has_eval` / `get_eval_value` / `replace_eval`, the operator rewriting of `_get_expression`) is applied to the texts
outside string literals only (`split_literals`, a scanner with the states outside / inside `'…'` / inside `"…"`,
backslash escapes honoured). The theorems here are about **all** token sequences with literals (`LToks`), all
layouts, and **all** literal bodies: a body may contain `&&`, `||`, `!`, `#`, `eval(`, `p.x`, `r.x`, blanks and
quotes of the other kind. The per-text theorems of `Props/C02.lean` are used unchanged on the runs between literals.
-/
namespace Casbin.C02
open Casbin.Matcher

/-! ## the scanner -/

theorem pieces_out (y : Str) : ∃ s r, pieces none y = .out s :: r := by
  cases y with
  | nil => exact ⟨[], [], rfl⟩
  | cons c t =>
    by_cases hq : isQuote c = true
    · exact ⟨[], pieces (some (c, false)) t, by simp [pieces, hq]⟩
    · have : ∃ s r, pieces none t = .out s :: r := pieces_out t
      obtain ⟨s, r, e⟩ := this
      exact ⟨c :: s, r, by simp [pieces, hq, e, consPiece]⟩

/-- a quote-free text in front of any text only lengthens the first outside piece -/
theorem pieces_noquote_append (x y s : Str) (r : List Piece) (hx : noQuote x = true)
    (e : pieces none y = .out s :: r) : pieces none (x ++ y) = .out (x ++ s) :: r := by
  induction x with
  | nil => simpa using e
  | cons c t ih =>
    simp only [noQuote, List.any_cons, Bool.not_eq_eq_eq_not, Bool.not_true, Bool.or_eq_false_iff] at hx
    have ih' := ih (by simp [noQuote, hx.2])
    simp [pieces, hx.1, ih', consPiece]

theorem pieces_noquote (x : Str) (hx : noQuote x = true) : pieces none x = [.out x] := by
  simpa using pieces_noquote_append x [] [] [] hx rfl

/-- inside a literal: a body that does not close it, then the closing quote -/
theorem pieces_body (q : Char) (esc : Bool) (b y : Str) (hb : bodyOk q esc b = true) :
    pieces (some (q, esc)) (b ++ q :: y) = .lit q b true :: pieces none y := by
  induction b generalizing esc with
  | nil =>
    have : esc = false := by simpa [bodyOk] using hb
    subst this
    simp [pieces]
  | cons c t ih =>
    cases esc with
    | true =>
      have ih' := ih false (by simpa [bodyOk] using hb)
      simp [pieces, ih', consPiece]
    | false =>
      simp only [bodyOk, Bool.and_eq_true, bne_iff_ne, ne_eq] at hb
      have ih' := ih _ hb.2
      simp [pieces, hb.1, ih', consPiece]

/-- **the scanner finds exactly the literals**: quote-free text, a literal, any text -/
theorem pieces_lit (x : Str) (l : Lit) (y : Str) (hx : noQuote x = true) (hl : l.ok = true) :
    pieces none (x ++ (l.src ++ y)) = .out x :: .lit l.q l.body true :: pieces none y := by
  simp only [Lit.ok, Bool.and_eq_true] at hl
  have e : pieces none (l.src ++ y) = .out [] :: .lit l.q l.body true :: pieces none y := by
    have := pieces_body l.q false l.body y hl.1.2
    simp only [Lit.src, List.cons_append, List.append_assoc]
    simp [pieces, hl.1.1, this]
  simpa using pieces_noquote_append x _ _ _ hx e

/-- every body without a backslash and without the literal's own quote is a literal body — in particular every text
    made of operators, `#`, `eval(`, dots, blanks and quotes of the other kind -/
theorem bodyOk_plain (q : Char) (b : Str) (h1 : q ∉ b) (h2 : '\\' ∉ b) : bodyOk q false b = true := by
  induction b with
  | nil => rfl
  | cons c t ih =>
    have hc : c ≠ q := by intro e; subst e; simp at h1
    have hb : (c == '\\') = false := by
      have : c ≠ '\\' := by intro e; subst e; simp at h2
      simpa using this
    have := ih (fun e => h1 (List.mem_cons_of_mem _ e)) (fun e => h2 (List.mem_cons_of_mem _ e))
    simp [bodyOk, hc, hb, this]

example : bodyOk '"' false "a&&b||!c #d eval(p.x) r.y 'z'".toList = true := by decide
example : bodyOk '"' false "a\\\"b".toList = true ∧ bodyOk '"' false "a\"b".toList = false ∧
    bodyOk '"' false "a\\".toList = false := by decide

def segsOk (head : Str) (tl : List (Lit × Str)) : Bool :=
  noQuote head && tl.all fun p => p.1.ok && noQuote p.2

theorem segsOk_cons {head : Str} {l : Lit} {x : Str} {r : List (Lit × Str)} (h : segsOk head ((l, x) :: r) = true) :
    noQuote head = true ∧ l.ok = true ∧ segsOk x r = true := by
  simp only [segsOk, List.all_cons, Bool.and_eq_true] at h ⊢
  exact ⟨h.1, h.2.1.1, h.2.1.2, h.2.2⟩

/-- the pieces of a text with literals: the texts and the literals, alternating -/
def segPieces (head : Str) (tl : List (Lit × Str)) : List Piece :=
  .out head :: tl.flatMap fun p => [.lit p.1.q p.1.body true, .out p.2]

theorem pieces_segs (head : Str) (tl : List (Lit × Str)) (h : segsOk head tl = true) :
    pieces none (renderSegs head tl) = segPieces head tl := by
  induction tl generalizing head with
  | nil => simpa [renderSegs, segPieces] using pieces_noquote head (by simpa [segsOk] using h)
  | cons p r ih =>
    obtain ⟨l, x⟩ := p
    obtain ⟨h1, h2, h3⟩ := segsOk_cons h
    rw [renderSegs, pieces_lit head l _ h1 h2, ih x h3]
    simp [segPieces]

/-- `sub_outside_literals(fn, ·)` applies `fn` to each text and keeps every literal -/
theorem outside_segs (f : Str → Str) (head : Str) (tl : List (Lit × Str)) (h : segsOk head tl = true) :
    outside f (renderSegs head tl) = renderSegs (f head) (tl.map fun p => (p.1, f p.2)) := by
  unfold outside
  rw [pieces_segs head tl h]
  induction tl generalizing head with
  | nil => simp [segPieces, renderSegs]
  | cons p r ih =>
    obtain ⟨l, x⟩ := p
    obtain ⟨_, _, h3⟩ := segsOk_cons h
    have := ih x h3
    simp only [segPieces, List.map_cons, List.flatten_cons, List.flatMap_cons, List.cons_append,
      List.nil_append, renderSegs] at this ⊢
    rw [this]
    simp [Piece.text, Lit.src]

theorem outs_segs (head : Str) (tl : List (Lit × Str)) (h : segsOk head tl = true) :
    outs (renderSegs head tl) = head :: tl.map (·.2) := by
  unfold outs
  rw [pieces_segs head tl h]
  simp only [segPieces, List.filterMap_cons]
  congr 1
  clear h
  induction tl with
  | nil => rfl
  | cons p r ih => simp [List.flatMap_cons, ih]

/-- the literals of a text with literals are exactly its literals -/
theorem literals_segs (head : Str) (tl : List (Lit × Str)) (h : segsOk head tl = true) :
    literals (renderSegs head tl) = tl.map fun p => .lit p.1.q p.1.body true := by
  unfold literals
  rw [pieces_segs head tl h]
  simp only [segPieces, List.filter_cons, Piece.isLit, Bool.false_eq_true, ↓reduceIte]
  clear h
  induction tl with
  | nil => rfl
  | cons p r ih => simp [List.flatMap_cons, List.filter_cons, Piece.isLit, ih]

/-! ## quote-free texts -/

theorem noQuote_append (x y : Str) : noQuote (x ++ y) = (noQuote x && noQuote y) := by
  simp [noQuote, Bool.not_or]

theorem noQuote_nil : noQuote [] = true := rfl

theorem blank_noQuote {g : Str} (h : g.all isBlank = true) : noQuote g = true := by
  simp only [noQuote, Bool.not_eq_eq_eq_not, Bool.not_true, List.any_eq_false]
  intro c hc
  have := List.all_eq_true.mp h c hc
  simp only [isBlank, Bool.or_eq_true, beq_iff_eq] at this
  rcases this with e | e <;> subst e <;> decide

theorem render_noQuote (ts : List (Tok × Str)) (h : noQuoteToks ts = true) : noQuote (render ts) = true := by
  induction ts with
  | nil => rfl
  | cons p r ih =>
    obtain ⟨t, g⟩ := p
    simp only [noQuoteToks, List.all_cons, Bool.and_eq_true] at h
    simp only [render, noQuote_append, Bool.and_eq_true]
    exact ⟨⟨h.1.1, h.1.2⟩, ih (by simpa [noQuoteToks] using h.2)⟩

theorem renderPy_pad_noQuote (ts : List (Tok × Str)) (h : noQuoteToks ts = true) :
    noQuote (renderPy (ts.map pad)) = true := by
  induction ts with
  | nil => rfl
  | cons p r ih =>
    obtain ⟨t, g⟩ := p
    simp only [noQuoteToks, List.all_cons, Bool.and_eq_true] at h
    have ih' := ih (by simpa [noQuoteToks] using h.2)
    obtain ⟨⟨h1, h2⟩, _⟩ := h
    have hb : noQuote (' ' :: g) = true := by
      simpa [noQuote, isQuote] using h2
    have key : ∀ a b : Str, noQuote a = true → noQuote b = true →
        noQuote (a ++ b ++ renderPy (r.map pad)) = true := by
      intro a b ha hb
      simp [noQuote_append, ha, hb, ih']
    cases t with
    | andOp => exact key ([' '] ++ ['a', 'n', 'd']) (' ' :: g) (by decide) hb
    | orOp => exact key ([' '] ++ ['o', 'r']) (' ' :: g) (by decide) hb
    | notOp => exact key ([] ++ ['n', 'o', 't']) (' ' :: g) (by decide) hb
    | neOp => exact key ([] ++ ['!', '=']) g (by decide) h2
    | ref k suf f => exact key ([] ++ (Tok.ref k suf f).src) g (by simpa using h1) h2
    | word w => exact key ([] ++ w) g (by simpa [Tok.src] using h1) h2
    | other w => exact key ([] ++ w) g (by simpa [Tok.src] using h1) h2

theorem shape_runs {m : LToks} (h : m.shape = true) :
    noQuoteToks m.head = true ∧ ∀ p ∈ m.tail, p.1.ok = true ∧ noQuoteToks p.2 = true := by
  simp only [LToks.shape, LToks.runs, LToks.lits, List.all_cons, List.all_map, Bool.and_eq_true,
    List.all_eq_true, Function.comp_apply] at h
  exact ⟨h.1.1, fun p hp => ⟨h.2 p hp, h.1.2 p hp⟩⟩

/-- the texts between the literals of a layout are quote-free, for every quote-free rendering of the runs -/
theorem segsOk_of_shape (m : LToks) (f : List (Tok × Str) → Str) (h : m.shape = true)
    (hf : ∀ ts, noQuoteToks ts = true → noQuote (f ts) = true) :
    segsOk (f m.head) (m.segs f) = true := by
  obtain ⟨h1, h2⟩ := shape_runs h
  simp only [segsOk, LToks.segs, List.all_map, Bool.and_eq_true, List.all_eq_true, Function.comp_apply]
  refine ⟨hf _ h1, fun p hp => ?_⟩
  obtain ⟨ho, hq⟩ := h2 p hp
  refine ⟨ho, ?_⟩
  rw [noQuote_append, hf _ hq]
  simp only [Lit.ok, Bool.and_eq_true] at ho
  simp [blank_noQuote ho.2]

theorem literals_of_segs (m : LToks) (f : List (Tok × Str) → Str) :
    (m.segs f).map (fun p => Piece.lit p.1.q p.1.body true) = m.litPieces := by
  simp [LToks.segs, LToks.litPieces, LToks.lits, Function.comp_def]

/-- **renderL_literals** — the scanner reads a layout of a token sequence with literals as exactly its literals,
    whatever their bodies contain -/
theorem renderL_literals (m : LToks) (h : m.shape = true) : literals (renderL m) = m.litPieces := by
  unfold renderL
  rw [literals_segs _ _ (segsOk_of_shape m render h render_noQuote), literals_of_segs]

/-! ## `_get_expression` -/

theorem getExpression_blank (g x : Str) (hg : g.all isBlank = true) :
    getExpression (g ++ x) = g ++ getExpression x := by
  obtain ⟨h1, h2, h3, _⟩ := noOp_of_blank hg
  unfold getExpression
  rw [replace2_noa _ _ _ _ h1, replace2_noa _ _ _ _ h2, subNot_nobang _ _ _ h3]

/-- **getExpressionL_layout** — for every token sequence with string literals whose runs between the literals are
    well-formed (`wfToks`; **no condition on the literal bodies**), and every layout, the text `_get_expression`
    hands to the evaluator is the layout of the translated runs with the literals unchanged; in every run the
    word-like tokens are separated; and the result has exactly the literals of the source. -/
theorem getExpressionL_layout (m : LToks) (h : wfL m = true) :
    getExpressionL (renderL m) = renderPyL m ∧
    (∀ ts ∈ m.runs, pySeparated (ts.map pad) = true) ∧
    literals (getExpressionL (renderL m)) = m.litPieces := by
  simp only [wfL, Bool.and_eq_true, List.all_eq_true] at h
  obtain ⟨hs, hw⟩ := h
  have e : getExpressionL (renderL m) = renderPyL m := by
    unfold getExpressionL renderL renderPyL
    rw [outside_segs _ _ _ (segsOk_of_shape m render hs render_noQuote),
      (getExpression_layout m.head (hw _ (by simp [LToks.runs]))).1]
    congr 1
    simp only [LToks.segs, List.map_map]
    apply List.map_congr_left
    intro p hp
    have hwp := hw p.2 (by simp only [LToks.runs, List.mem_cons, List.mem_map]; exact Or.inr ⟨p, hp, rfl⟩)
    obtain ⟨_, h2⟩ := shape_runs hs
    have hb := (h2 p hp).1
    simp only [Lit.ok, Bool.and_eq_true] at hb
    simp only [Function.comp_apply]
    rw [getExpression_blank _ _ hb.2, (getExpression_layout p.2 hwp).1]
  refine ⟨e, fun ts hts => (getExpression_layout ts (hw ts hts)).2, ?_⟩
  rw [e]
  unfold renderPyL
  rw [literals_segs _ _ (segsOk_of_shape m _ hs renderPy_pad_noQuote), literals_of_segs]

/-- non-vacuity: `r.sub=="a&&b"||!(r.obj!='p.obj #x')&&g(r.sub,"eval(p.r) || \"!\"")` -/
def exampleL : LToks :=
  { head := [(.ref 'r' [] "sub".toList, []), (.other "==".toList, [])],
    tail := [({ q := '"', body := "a&&b".toList }, [(.orOp, []), (.notOp, []), (.other "(".toList, []),
                (.ref 'r' [] "obj".toList, []), (.neOp, [])]),
             ({ q := '\'', body := "p.obj #x".toList }, [(.other ")".toList, []), (.andOp, []), (.word "g".toList, []),
                (.other "(".toList, []), (.ref 'r' [] "sub".toList, []), (.other ",".toList, [])]),
             ({ q := '"', body := "eval(p.r) || \\\"!\\\"".toList, gap := [' '] }, [(.other ")".toList, [])])] }

example : wfL exampleL = true := by decide
example : String.ofList (renderL exampleL) =
    "r.sub==\"a&&b\"||!(r.obj!='p.obj #x')&&g(r.sub,\"eval(p.r) || \\\"!\\\"\" )" := by decide
example : String.ofList (getExpressionL (renderL exampleL)) =
    "r.sub==\"a&&b\" or not (r.obj!='p.obj #x') and g(r.sub,\"eval(p.r) || \\\"!\\\"\" )" := by decide

/-- **F01b, positive witnesses** (the negative witnesses of the textual pipeline, `literal_rewritten`, are about the
    per-text step `getExpression`, which is now applied outside literals only) -/
theorem literal_not_rewritten :
    getExpressionL "r_sub == \"a&&b\" && r_obj != 'x||!y'".toList = "r_sub == \"a&&b\"  and  r_obj != 'x||!y'".toList := by
  decide

/-! ## `escape_assertion` -/

theorem blank_not_word {c : Char} (h : isBlank c = true) : isWord c = false := by
  simp only [isBlank, Bool.or_eq_true, beq_iff_eq] at h
  rcases h with e | e <;> subst e <;> decide

theorem lastWord_blank (g : Str) (hg : g.all isBlank = true) : lastWord false g = false := by
  unfold lastWord
  cases e : g.getLast? with
  | none => rfl
  | some c =>
    have : c ∈ g := List.mem_of_getLast? e
    exact blank_not_word (List.all_eq_true.mp hg c this)

theorem quiet_blank (k : Char) (hk : isBlank k = false) (g : Str) (hg : g.all isBlank = true) (pw : Bool) :
    quiet k pw g = true := by
  induction g generalizing pw with
  | nil => rfl
  | cons c t ih =>
    simp only [List.all_cons, Bool.and_eq_true] at hg
    have hc : c ≠ k := by intro e; subst e; simp [hg.1] at hk
    simp [quiet, hc, ih hg.2]

theorem subRef_gap (k : Char) (hk : isBlank k = false) (suf : Str) (hs : suf.all isDigit = true) (g x : Str)
    (hg : g.all isBlank = true) : subRef k suf 0 false (g ++ x) = g ++ subRef k suf 0 false x := by
  rw [quiet_sub k suf hs g x false (quiet_blank k hk g hg false), lastWord_blank g hg]

theorem searchRef_gap (k : Char) (hk : isBlank k = false) (g x : Str) (hg : g.all isBlank = true) :
    searchRef k false (g ++ x) = searchRef k false x := by
  rw [quiet_search k g x false (quiet_blank k hk g hg false), lastWord_blank g hg]

theorem okForL_runs {k : Char} {suf : Str} {m : LToks} (h : okForL k suf m = true) :
    m.shape = true ∧ okFor k suf false m.head = true ∧
    ∀ p ∈ m.tail, p.1.gap.all isBlank = true ∧ okFor k suf false p.2 = true := by
  simp only [okForL, Bool.and_eq_true, LToks.runs, List.all_cons, List.all_map, List.all_eq_true,
    Function.comp_apply] at h
  obtain ⟨hs, h1, h2⟩ := h
  refine ⟨hs, h1, fun p hp => ⟨?_, h2 p hp⟩⟩
  have := ((shape_runs hs).2 p hp).1
  simp only [Lit.ok, Bool.and_eq_true] at this
  exact this.2

theorem findSome_tail (k : Char) (hk : isBlank k = false) (suf : Str)
    (tl : List (Lit × List (Tok × Str)))
    (h : ∀ p ∈ tl, p.1.gap.all isBlank = true ∧ okFor k suf false p.2 = true) :
    (tl.map fun p => p.1.gap ++ render p.2).findSome? (searchRef k false) =
      if tl.any (fun p => hasRef k p.2) = true then some suf else none := by
  induction tl with
  | nil => rfl
  | cons p r ih =>
    have hp := h p (by simp)
    have ih' := ih (fun q hq => h q (by simp [hq]))
    simp only [List.map_cons, List.findSome?_cons]
    rw [searchRef_gap k hk _ _ hp.1, okFor_search k suf p.2 false hp.2, ih']
    have hany : (p :: r).any (fun p => hasRef k p.2) = (hasRef k p.2 || r.any fun p => hasRef k p.2) :=
      List.any_cons
    rw [hany]
    by_cases hr : hasRef k p.2 = true
    · rw [hr]; rfl
    · have hr' : hasRef k p.2 = false := by simpa using hr
      rw [hr', Bool.false_or]
      rfl

theorem map_noRef (k : Char) (m : LToks) (h : hasRefL k m = false) : m.map (escK k) = m := by
  simp only [hasRefL, LToks.runs, List.any_cons, List.any_map, Bool.or_eq_false_iff, List.any_eq_false,
    Function.comp_apply] at h
  obtain ⟨h1, h2⟩ := h
  cases m with
  | mk head tail =>
    simp only [LToks.map, LToks.mk.injEq]
    refine ⟨noRef_map k head (by simpa using h1), ?_⟩
    have : ∀ p ∈ tail, (fun p : Lit × List (Tok × Str) => (p.1, mapToks (escK k) p.2)) p = id p := by
      intro p hp
      simp [noRef_map k p.2 (by simpa using h2 p hp)]
    rw [List.map_congr_left this, List.map_id]

/-- one kind (`p` or `r`): every reference outside string literals is renamed, with one suffix; gaps, other tokens
    and **all literals** (whatever their bodies) are untouched -/
theorem escapeKindL_layout (k : Char) (hk : isBlank k = false) (suf : Str) (hs : suf.all isDigit = true)
    (m : LToks) (h : okForL k suf m = true) :
    escapeKindL k (renderL m) = renderL (m.map (escK k)) := by
  obtain ⟨hsh, hh, ht⟩ := okForL_runs h
  have hseg := segsOk_of_shape m render hsh render_noQuote
  have hfind : (outs (renderL m)).findSome? (searchRef k false) =
      if hasRefL k m = true then some suf else none := by
    unfold renderL
    rw [outs_segs _ _ hseg]
    simp only [List.findSome?_cons, LToks.segs, List.map_map, Function.comp_def]
    rw [okFor_search k suf m.head false hh, findSome_tail k hk suf m.tail ht]
    by_cases hr : hasRef k m.head = true
    · simp [hr, hasRefL, LToks.runs]
    · have hr' : hasRef k m.head = false := by simpa using hr
      simp only [hasRefL, LToks.runs, List.any_cons, hr', Bool.false_or, List.any_map, Function.comp_def]
      rfl
  unfold escapeKindL
  rw [hfind]
  by_cases hr : hasRefL k m = true
  · simp only [hr, ↓reduceIte]
    unfold renderL
    rw [outside_segs _ _ _ hseg, okFor_sub k suf hs m.head false hh]
    simp only [LToks.map, LToks.segs, List.map_map]
    congr 1
    apply List.map_congr_left
    intro p hp
    obtain ⟨hg, ho⟩ := ht p hp
    simp only [Function.comp_apply]
    rw [subRef_gap k hk suf hs _ _ hg, okFor_sub k suf hs p.2 false ho]
  · have hr' : hasRefL k m = false := by simpa using hr
    simp only [hr', Bool.false_eq_true, ↓reduceIte]
    rw [map_noRef k m hr']

theorem map_map (f g : Tok → Tok) (m : LToks) : (m.map f).map g = m.map (g ∘ f) := by
  simp [LToks.map, mapToks, List.map_map, Function.comp_def]

theorem escK_noQuote (k : Char) (hk : isQuote k = false) (t : Tok) (h : noQuote t.src = true) :
    noQuote (escK k t).src = true := by
  cases t with
  | ref k' suf f =>
    by_cases e : k' = k
    · subst e
      simp only [escK, ↓reduceIte, Tok.src]
      simp only [Tok.src, noQuote, List.any_cons, List.any_append, Bool.not_eq_eq_eq_not, Bool.not_true,
        Bool.or_eq_false_iff] at h ⊢
      exact ⟨h.1, h.2.1, by decide, h.2.2.2⟩
    · simpa [escK, e] using h
  | _ => exact h

theorem shape_map (k : Char) (hk : isQuote k = false) (m : LToks) (h : m.shape = true) :
    (m.map (escK k)).shape = true := by
  have hn : ∀ ts, noQuoteToks ts = true → noQuoteToks (mapToks (escK k) ts) = true := by
    intro ts hts
    simp only [noQuoteToks, mapToks, List.all_map, List.all_eq_true, Function.comp_apply, Bool.and_eq_true] at hts ⊢
    exact fun p hp => ⟨escK_noQuote k hk p.1 (hts p hp).1, (hts p hp).2⟩
  obtain ⟨h1, h2⟩ := shape_runs h
  simp only [LToks.shape, LToks.runs, LToks.lits, LToks.map, List.all_cons, List.all_map, Bool.and_eq_true,
    List.all_eq_true, Function.comp_apply]
  exact ⟨⟨hn _ h1, fun p hp => hn _ (h2 p hp).2⟩, fun p hp => (h2 p hp).1⟩

theorem litPieces_map (f : Tok → Tok) (m : LToks) : (m.map f).litPieces = m.litPieces := by
  simp [LToks.litPieces, LToks.lits, LToks.map, Function.comp_def]

/-- **escapeAssertionL_layout** — for every token sequence with string literals in which, *outside the literals*,
    all policy references carry one suffix `sp` and all request references one suffix `sr` and nothing else looks
    like a reference (`okFor` on every run; **no condition on the literal bodies**), and every layout:
    `escape_assertion` yields the same layout of the renamed tokens, and the literals are exactly those of the source. -/
theorem escapeAssertionL_layout (sp sr : Str) (hp : sp.all isDigit = true) (hr : sr.all isDigit = true)
    (m : LToks) (h1 : okForL 'p' sp m = true) (h2 : okForL 'r' sr (m.map (escK 'p')) = true) :
    escapeAssertionL (renderL m) = renderL (m.map escTok) ∧
    literals (escapeAssertionL (renderL m)) = m.litPieces := by
  have e : escapeAssertionL (renderL m) = renderL (m.map escTok) := by
    unfold escapeAssertionL
    rw [escapeKindL_layout 'p' (by decide) sp hp m h1, escapeKindL_layout 'r' (by decide) sr hr _ h2, map_map]
    rfl
  refine ⟨e, ?_⟩
  have hsh : (m.map escTok).shape = true := by
    have := shape_map 'r' (by decide) _ (shape_map 'p' (by decide) m (okForL_runs h1).1)
    rw [map_map] at this
    exact this
  rw [e, renderL_literals _ hsh, litPieces_map]

/-- non-vacuity: `r2.sub == "p.obj" && p2.obj != 'r.x p9.y' || p2.act == "p2.act"` -/
def exampleEscL : LToks :=
  { head := [(.ref 'r' ['2'] "sub".toList, [' ']), (.other "==".toList, [' '])],
    tail := [({ q := '"', body := "p.obj".toList, gap := [' '] },
                [(.andOp, [' ']), (.ref 'p' ['2'] "obj".toList, [' ']), (.neOp, [' '])]),
             ({ q := '\'', body := "r.x p9.y".toList, gap := [' '] },
                [(.orOp, [' ']), (.ref 'p' ['2'] "act".toList, [' ']), (.other "==".toList, [' '])]),
             ({ q := '"', body := "p2.act".toList }, [])] }

example : okForL 'p' ['2'] exampleEscL = true ∧ okForL 'r' ['2'] (exampleEscL.map (escK 'p')) = true := by decide
example : String.ofList (escapeAssertionL (renderL exampleEscL)) =
    "r2_sub == \"p.obj\" && p2_obj != 'r.x p9.y' || p2_act == \"p2.act\"" := by decide

/-- **F01b, positive witness**: reference-like text inside a string literal is not renamed, and does not decide
    the suffix (before the repair: `escape_outside_hypotheses`, first conjunct, about the per-text step) -/
theorem literal_not_renamed :
    escapeAssertionL "r.obj == \"p.txt\" && 'p7.x' != p2.y".toList = "r_obj == \"p.txt\" && 'p7.x' != p2_y".toList := by
  decide

/-! ## `remove_comments` -/

def noHashSegs (head : Str) (tl : List (Lit × Str)) : Bool :=
  !head.contains '#' && tl.all fun p => !p.2.contains '#'

theorem noHashSegs_head {head : Str} {tl : List (Lit × Str)} (h : noHashSegs head tl = true) : '#' ∉ head := by
  simp only [noHashSegs, Bool.and_eq_true] at h
  simpa using h.1

theorem noHashSegs_cons {head : Str} {l : Lit} {x : Str} {r : List (Lit × Str)}
    (h : noHashSegs head ((l, x) :: r) = true) : noHashSegs x r = true := by
  simp only [noHashSegs, List.all_cons, Bool.and_eq_true] at h ⊢
  exact ⟨h.2.1, h.2.2⟩

theorem cutComment_out_clean (x : Str) (r : List Piece) (hn : '#' ∉ x) :
    cutComment (.out x :: r) = (cutComment r).map (x ++ ·) := by
  have : x.contains '#' = false := by simpa using hn
  simp only [cutComment, this, Bool.false_eq_true, ↓reduceIte]

theorem cutComment_hash (head : Str) (tl : List (Lit × Str)) (y : Str) (h : segsOk head tl = true)
    (hh : noHashSegs head tl = true) :
    cutComment (pieces none (renderSegs head tl ++ '#' :: y)) = some (renderSegs head tl) := by
  induction tl generalizing head with
  | nil =>
    obtain ⟨s', r', e'⟩ := pieces_out y
    have e1 : pieces none ('#' :: y) = .out ('#' :: s') :: r' := by
      simp [pieces, isQuote, e', consPiece]
    have hx : noQuote head = true := by simpa [segsOk] using h
    have hn : '#' ∉ head := noHashSegs_head hh
    rw [renderSegs, pieces_noquote_append head _ _ _ hx e1]
    have : (head ++ '#' :: s').contains '#' = true := by simp
    rw [cutComment, if_pos this, takeWhile_ne_append _ _ _ hn]
  | cons p r ih =>
    obtain ⟨l, x⟩ := p
    obtain ⟨h1, h2, h3⟩ := segsOk_cons h
    have ih' := ih x h3 (noHashSegs_cons hh)
    simp only [renderSegs, List.append_assoc]
    rw [pieces_lit head l _ h1 h2, cutComment_out_clean _ _ (noHashSegs_head hh)]
    simp only [cutComment, ih', Option.map_some, Piece.text, Lit.src]
    simp

theorem cutComment_none (head : Str) (tl : List (Lit × Str)) (h : segsOk head tl = true)
    (hh : noHashSegs head tl = true) : cutComment (pieces none (renderSegs head tl)) = none := by
  induction tl generalizing head with
  | nil =>
    have hx : noQuote head = true := by simpa [segsOk] using h
    rw [renderSegs, pieces_noquote head hx, cutComment_out_clean _ _ (noHashSegs_head hh)]
    rfl
  | cons p r ih =>
    obtain ⟨l, x⟩ := p
    obtain ⟨h1, h2, h3⟩ := segsOk_cons h
    have ih' := ih x h3 (noHashSegs_cons hh)
    rw [renderSegs, pieces_lit head l _ h1 h2, cutComment_out_clean _ _ (noHashSegs_head hh)]
    simp only [cutComment, ih', Option.map_none]

/-- **removeCommentsL_prefix** — for every text with string literals whose parts *outside* the literals contain no
    `#` (**no condition on the literal bodies**): whatever follows a `#` after it is dropped and the text is
    stripped; without a comment the text is returned as it is. -/
theorem removeCommentsL_prefix (head : Str) (tl : List (Lit × Str)) (y : Str) (h : segsOk head tl = true)
    (hh : noHashSegs head tl = true) :
    removeCommentsL (renderSegs head tl ++ '#' :: y) = strip (renderSegs head tl) ∧
    removeCommentsL (renderSegs head tl) = renderSegs head tl := by
  unfold removeCommentsL
  rw [cutComment_hash head tl y h hh, cutComment_none head tl h hh]
  exact ⟨rfl, rfl⟩

def noHashToks (ts : List (Tok × Str)) : Bool := !(render ts).contains '#'

/-- the same for layouts of token sequences with literals: a trailing comment is dropped, whatever the literals
    contain (`#` included) -/
theorem removeCommentsL_layout (m : LToks) (y : Str) (h : m.shape = true) (hh : m.runs.all noHashToks = true) :
    removeCommentsL (renderL m ++ '#' :: y) = strip (renderL m) ∧ removeCommentsL (renderL m) = renderL m := by
  unfold renderL
  apply removeCommentsL_prefix _ _ y (segsOk_of_shape m render h render_noQuote)
  simp only [LToks.runs, List.all_cons, List.all_map, Bool.and_eq_true, List.all_eq_true, Function.comp_apply,
    noHashToks] at hh
  obtain ⟨h1, h2⟩ := shape_runs h
  simp only [noHashSegs, LToks.segs, List.all_map, Bool.and_eq_true, List.all_eq_true, Function.comp_apply]
  refine ⟨hh.1, fun p hp => ?_⟩
  have hb := (h2 p hp).1
  simp only [Lit.ok, Bool.and_eq_true] at hb
  have hg : p.1.gap.contains '#' = false := by
    simp only [List.contains_eq_mem, decide_eq_false_iff_not]
    intro hm
    have := List.all_eq_true.mp hb.2 _ hm
    simp [isBlank] at this
  have := hh.2 p hp
  simp only [List.contains_eq_mem, List.mem_append, decide_eq_false_iff_not, Bool.not_eq_eq_eq_not, Bool.not_true,
    not_or] at this hg ⊢
  exact ⟨hg, this⟩

example : (exampleL.shape && exampleL.runs.all noHashToks) = true := by decide
example : String.ofList (removeCommentsL (renderL exampleL ++ "  # x \"y".toList)) =
    "r.sub==\"a&&b\"||!(r.obj!='p.obj #x')&&g(r.sub,\"eval(p.r) || \\\"!\\\"\" )" := by decide

/-- **F01b, positive witness**: a `#` inside a string literal does not cut the matcher (before the repair:
    `hash_in_literal_cuts`, about the per-text step) -/
theorem hash_in_literal_kept :
    removeCommentsL "r_obj == \"a#b\"  # c".toList = "r_obj == \"a#b\"".toList ∧
    removeCommentsL "r_obj == 'a#b'".toList = "r_obj == 'a#b'".toList := by decide

/-! ## `eval()`: detection, argument extraction and splicing, outside string literals -/

/-- `get_eval_value` collects the calls of the texts outside string literals, in order -/
theorem getEvalValueL_segs (head : Str) (tl : List (Lit × Str)) (h : segsOk head tl = true) :
    getEvalValueL (renderSegs head tl) = getEvalValue head ++ tl.flatMap fun p => getEvalValue p.2 := by
  unfold getEvalValueL
  rw [outs_segs head tl h]
  simp [List.flatMap_cons, List.flatMap_map]

/-- a text outside literals with its `eval()` calls: the calls (each with the text before it), and the text after
    the last one -/
abbrev ESeg := List EvalCall × Str

def ESeg.text (e : ESeg) : Str := renderEvals e.1 e.2

def esegs (tl : List (Lit × ESeg)) : List (Lit × Str) := tl.map fun p => (p.1, p.2.text)

/-- the text `replace_eval` must produce: every text has its calls replaced by the next rule texts; literals stay -/
def splicedSegs : ESeg → List (Lit × ESeg) → List Str → Str
  | e, [], rules => spliced e.1 rules e.2
  | e, (l, e') :: r, rules =>
    spliced e.1 (rules.take e.1.length) e.2 ++ (l.src ++ splicedSegs e' r (rules.drop e.1.length))

def callCount (e : ESeg) (tl : List (Lit × ESeg)) : Nat := e.1.length + (tl.map fun p => p.2.1.length).sum

def okESegs (e : ESeg) (tl : List (Lit × ESeg)) : Bool :=
  okEvals false e.1 e.2 && tl.all fun p => okEvals false p.2.1 p.2.2

/-- **getEvalValueL_layout** — the names of the calls outside string literals, in order; text that looks like a
    call *inside* a literal is not a call (**no condition on the literal bodies**) -/
theorem getEvalValueL_layout (e : ESeg) (tl : List (Lit × ESeg)) (hq : segsOk e.text (esegs tl) = true)
    (hok : okESegs e tl = true) :
    getEvalValueL (renderSegs e.text (esegs tl)) = e.1.map (·.name) ++ tl.flatMap fun p => p.2.1.map (·.name) := by
  simp only [okESegs, Bool.and_eq_true, List.all_eq_true] at hok
  rw [getEvalValueL_segs _ _ hq]
  unfold getEvalValue ESeg.text
  rw [getEvalValue_layout _ _ _ hok.1]
  congr 1
  simp only [esegs, List.flatMap_map]
  rw [List.flatMap_def, List.flatMap_def]
  congr 1
  apply List.map_congr_left
  intro p hp
  exact getEvalValue_layout _ _ _ (hok.2 p hp)

theorem hasEvalL_iff (e : ESeg) (tl : List (Lit × ESeg)) (hq : segsOk e.text (esegs tl) = true)
    (hok : okESegs e tl = true) :
    hasEvalL (renderSegs e.text (esegs tl)) = decide (0 < callCount e tl) := by
  unfold hasEvalL
  rw [getEvalValueL_layout e tl hq hok]
  have hlen : (e.1.map (·.name) ++ tl.flatMap fun p => p.2.1.map (·.name)).length = callCount e tl := by
    simp [callCount, List.length_flatMap]
  rw [← hlen]
  cases (e.1.map (·.name) ++ tl.flatMap fun p => p.2.1.map (·.name)) <;> simp

theorem replaceEvalPieces_segs (e : ESeg) (tl : List (Lit × ESeg)) (rules : List Str)
    (hok : okESegs e tl = true) (hl : rules.length = callCount e tl) :
    replaceEvalPieces (segPieces e.text (esegs tl)) rules = some (splicedSegs e tl rules) := by
  induction tl generalizing e rules with
  | nil =>
    simp only [okESegs, List.all_nil, Bool.and_true] at hok
    simp only [callCount, List.map_nil, List.sum_nil, Nat.add_zero] at hl
    have hn : (getEvalValue e.text).length = e.1.length := by
      unfold getEvalValue ESeg.text
      rw [getEvalValue_layout _ _ _ hok]; simp
    have := replaceEval_layout e.1 e.2 rules false hok hl
    simp only [segPieces, esegs, List.map_nil, List.flatMap_nil, replaceEvalPieces, hn, ← hl, List.take_length,
      splicedSegs]
    unfold replaceEval ESeg.text
    rw [this]
    simp
  | cons p r ih =>
    obtain ⟨l, e'⟩ := p
    simp only [okESegs, List.all_cons, Bool.and_eq_true] at hok
    obtain ⟨h0, h1, h2⟩ := hok
    simp only [callCount, List.map_cons, List.sum_cons] at hl
    have hn : (getEvalValue e.text).length = e.1.length := by
      unfold getEvalValue ESeg.text
      rw [getEvalValue_layout _ _ _ h0]; simp
    have ht : (rules.take e.1.length).length = e.1.length := by
      rw [List.length_take]; omega
    have := replaceEval_layout e.1 e.2 (rules.take e.1.length) false h0 ht
    have ih' := ih e' (rules.drop e.1.length) (by simp [okESegs, h1, h2])
      (by simp only [callCount, List.length_drop]; omega)
    have hseg : segPieces e.text (esegs ((l, e') :: r)) =
        .out e.text :: .lit l.q l.body true :: segPieces e'.text (esegs r) := by
      simp [segPieces, esegs]
    rw [hseg]
    simp only [replaceEvalPieces, hn]
    unfold replaceEval
    unfold ESeg.text at this ⊢
    rw [this]
    simp only [splicedSegs]
    unfold ESeg.text at ih'
    rw [ih']
    simp [Piece.text, Lit.src]

/-- **replaceEvalL_layout** — the calls outside string literals are replaced by the parenthesised rule texts, in
    order; everything else — the string literals included, whatever their bodies (`eval(x)` too) — is untouched -/
theorem replaceEvalL_layout (e : ESeg) (tl : List (Lit × ESeg)) (rules : List Str)
    (hq : segsOk e.text (esegs tl) = true) (hok : okESegs e tl = true) (hl : rules.length = callCount e tl) :
    replaceEvalL (renderSegs e.text (esegs tl)) rules = some (splicedSegs e tl rules) := by
  unfold replaceEvalL
  rw [pieces_segs _ _ hq, replaceEvalPieces_segs e tl rules hok hl]

/-- non-vacuity: `eval ( p_sub_rule ) && r_obj == "eval(p_x)" || eval(p_rule2) && r_act != 'a)b'` -/
def exampleESeg : ESeg := ([{ pre := [], ws1 := [' '], ws2 := [' '], name := "p_sub_rule".toList, ws3 := [' '] }],
  " && r_obj == ".toList)
def exampleETail : List (Lit × ESeg) :=
  [({ q := '"', body := "eval(p_x)".toList },
      ([{ pre := " || ".toList, ws1 := [], ws2 := [], name := "p_rule2".toList, ws3 := [] }], " && r_act != ".toList)),
   ({ q := '\'', body := "a)b".toList }, ([], []))]

example : (segsOk exampleESeg.text (esegs exampleETail) && okESegs exampleESeg exampleETail) = true := by decide
example : String.ofList (renderSegs exampleESeg.text (esegs exampleETail)) =
    "eval ( p_sub_rule ) && r_obj == \"eval(p_x)\" || eval(p_rule2) && r_act != 'a)b'" := by decide
example : (replaceEvalL (renderSegs exampleESeg.text (esegs exampleETail)) ["A".toList, "B".toList]).map String.ofList =
    some "(A) && r_obj == \"eval(p_x)\" || (B) && r_act != 'a)b'" := by decide
example : (getEvalValueL (renderSegs exampleESeg.text (esegs exampleETail))).map String.ofList =
    ["p_sub_rule", "p_rule2"] := by decide

/-- **F01b, positive witness**: `eval(…)` inside a string literal is not a call -/
theorem eval_in_literal_ignored :
    hasEvalL "r_sub == \"eval(p_rule)\"".toList = false ∧
    replaceEvalL "eval(p_a) && r_sub == 'eval(p_b)'".toList ["X".toList] = some "(X) && r_sub == 'eval(p_b)'".toList := by
  decide

/-! ## the two load/enforce-time steps together, and flat token sequences -/

/-- **matcherL_layout** — `_get_expression(escape_assertion(text))` for every layout of every token sequence with
    string literals meeting the run-level hypotheses: the layout of the renamed, translated tokens; the string
    literals of the result are exactly those of the source (`…_preserves_literals`) -/
theorem matcherL_layout (sp sr : Str) (hp : sp.all isDigit = true) (hr : sr.all isDigit = true)
    (m : LToks) (h1 : okForL 'p' sp m = true) (h2 : okForL 'r' sr (m.map (escK 'p')) = true)
    (h3 : wfL (m.map escTok) = true) :
    getExpressionL (escapeAssertionL (renderL m)) = renderPyL (m.map escTok) ∧
    literals (getExpressionL (escapeAssertionL (renderL m))) = m.litPieces := by
  rw [(escapeAssertionL_layout sp sr hp hr m h1 h2).1]
  obtain ⟨e, _, hl⟩ := getExpressionL_layout _ h3
  exact ⟨e, by rw [hl, litPieces_map]⟩

theorem renderSegs_prefix (a head : Str) (tl : List (Lit × Str)) :
    renderSegs (a ++ head) tl = a ++ renderSegs head tl := by
  cases tl with
  | nil => rfl
  | cons p r => obtain ⟨l, x⟩ := p; simp [renderSegs]

/-- every flat sequence of tokens and literals is a layout of its grouping: the theorems about `LToks` cover all
    flat sequences -/
theorem renderItems_group (is : List LItem) : renderItems is = renderL (group is) := by
  induction is with
  | nil => rfl
  | cons i r ih =>
    cases i with
    | tok t g =>
      simp only [renderItems, group, ih, renderL, render, LToks.segs]
      rw [← renderSegs_prefix]
    | lit l =>
      simp only [renderItems, group, ih, renderL, render, LToks.segs, List.map_cons, renderSegs]
      simp [renderSegs_prefix]

theorem group_ungroup (m : LToks) : group (ungroup m) = m := by
  obtain ⟨head, tail⟩ := m
  have htail : ∀ tl : List (Lit × List (Tok × Str)), group (ungroupTail tl) = { head := [], tail := tl } := by
    intro tl
    induction tl with
    | nil => rfl
    | cons p r ih =>
      obtain ⟨l, ts⟩ := p
      have hrun : ∀ (ts : List (Tok × Str)) (rest : List LItem),
          group ((ts.map fun p => LItem.tok p.1 p.2) ++ rest) =
            { group rest with head := ts ++ (group rest).head } := by
        intro ts rest
        induction ts with
        | nil => rfl
        | cons q qs ihq => simp [group, ihq]
      simp [ungroupTail, group, hrun, ih]
  have hrun : ∀ (ts : List (Tok × Str)) (rest : List LItem),
      group ((ts.map fun p => LItem.tok p.1 p.2) ++ rest) =
        { group rest with head := ts ++ (group rest).head } := by
    intro ts rest
    induction ts with
    | nil => rfl
    | cons q qs ihq => simp [group, ihq]
  simp [ungroup, hrun, htail]

/-! ## the literals pass through every step unchanged (corollaries, under the names used in the design notes) -/

theorem getExpressionL_preserves_literals (m : LToks) (h : wfL m = true) :
    literals (getExpressionL (renderL m)) = literals (renderL m) := by
  have hs : m.shape = true := by
    simp only [wfL, Bool.and_eq_true] at h
    exact h.1
  rw [(getExpressionL_layout m h).2.2, renderL_literals m hs]

theorem escapeAssertionL_preserves_literals (sp sr : Str) (hp : sp.all isDigit = true) (hr : sr.all isDigit = true)
    (m : LToks) (h1 : okForL 'p' sp m = true) (h2 : okForL 'r' sr (m.map (escK 'p')) = true) :
    literals (escapeAssertionL (renderL m)) = literals (renderL m) := by
  rw [(escapeAssertionL_layout sp sr hp hr m h1 h2).2, renderL_literals m (okForL_runs h1).1]

theorem matcherL_preserves_literals (sp sr : Str) (hp : sp.all isDigit = true) (hr : sr.all isDigit = true)
    (m : LToks) (h1 : okForL 'p' sp m = true) (h2 : okForL 'r' sr (m.map (escK 'p')) = true)
    (h3 : wfL (m.map escTok) = true) :
    literals (getExpressionL (escapeAssertionL (renderL m))) = literals (renderL m) := by
  rw [(matcherL_layout sp sr hp hr m h1 h2 h3).2, renderL_literals m (okForL_runs h1).1]

example : literals (getExpressionL (renderL exampleL)) =
    [.lit '"' "a&&b".toList true, .lit '\'' "p.obj #x".toList true, .lit '"' "eval(p.r) || \\\"!\\\"".toList true] := by
  decide

theorem noQuote_cons (c : Char) (x : Str) : noQuote (c :: x) = (!isQuote c && noQuote x) := by
  simp [noQuote, Bool.not_or]

theorem renderEvals_tail_noQuote (segs : List EvalCall) (tail : Str) (h : noQuote (renderEvals segs tail) = true) :
    noQuote tail = true := by
  induction segs with
  | nil => simpa [renderEvals] using h
  | cons c rest ih =>
    simp only [renderEvals, noQuote_append, noQuote_cons, Bool.and_eq_true] at h
    exact ih h.2.2.2.2.2.2.2.2

theorem spliced_noQuote (segs : List EvalCall) (rules : List Str) (tail : Str)
    (h : noQuote (renderEvals segs tail) = true) (hr : ∀ r ∈ rules, noQuote r = true) :
    noQuote (spliced segs rules tail) = true := by
  induction segs generalizing rules with
  | nil => cases rules <;> simpa [spliced, renderEvals] using h
  | cons c rest ih =>
    simp only [renderEvals, noQuote_append, noQuote_cons, Bool.and_eq_true] at h
    cases rules with
    | nil => simpa [spliced] using renderEvals_tail_noQuote rest tail h.2.2.2.2.2.2.2.2
    | cons r rs =>
      have hrest : noQuote (renderEvals rest tail) = true := h.2.2.2.2.2.2.2.2
      have := ih rs hrest (fun x hx => hr x (List.mem_cons_of_mem _ hx))
      simp only [spliced, noQuote_append, noQuote_cons, Bool.and_eq_true]
      exact ⟨h.1, by decide, hr r (by simp), by decide, this⟩

theorem literals_lit (x : Str) (l : Lit) (y : Str) (hx : noQuote x = true) (hl : l.ok = true) :
    literals (x ++ (l.src ++ y)) = .lit l.q l.body true :: literals y := by
  unfold literals
  rw [pieces_lit x l y hx hl]
  simp [List.filter_cons, Piece.isLit]

theorem literals_noQuote (x : Str) (hx : noQuote x = true) : literals x = [] := by
  unfold literals
  rw [pieces_noquote x hx]
  simp [Piece.isLit]

/-- **replaceEvalL_preserves_literals** — with rule texts that contain no quote character, the spliced text has
    exactly the string literals of the matcher -/
theorem replaceEvalL_preserves_literals (e : ESeg) (tl : List (Lit × ESeg)) (rules : List Str)
    (hq : segsOk e.text (esegs tl) = true) (hr : ∀ r ∈ rules, noQuote r = true) :
    literals (splicedSegs e tl rules) = literals (renderSegs e.text (esegs tl)) := by
  rw [literals_segs _ _ hq]
  induction tl generalizing e rules with
  | nil =>
    have : noQuote e.text = true := by simpa [segsOk, esegs] using hq
    simpa [splicedSegs, esegs] using literals_noQuote _ (spliced_noQuote e.1 rules e.2 this hr)
  | cons p r ih =>
    obtain ⟨l, e'⟩ := p
    obtain ⟨h1, h2, h3⟩ := segsOk_cons (by simpa [esegs] using hq : segsOk e.text ((l, e'.text) :: esegs r) = true)
    have hx := spliced_noQuote e.1 (rules.take e.1.length) e.2 h1 (fun x hx => hr x (List.mem_of_mem_take hx))
    have ih' := ih e' (rules.drop e.1.length) h3 (fun x hx => hr x (List.mem_of_mem_drop hx))
    rw [splicedSegs, literals_lit _ l _ hx h2, ih']
    simp [esegs]

/-! ## what stays outside: the scanner's notion of a literal

The scanner knows `'…'` and `"…"` with backslash escapes. A quote character that is *not* a literal delimiter for the
evaluator (none exists in the Casbin expression language; e.g. a Python triple-quoted string) is read as a delimiter. -/

/-- witness: a triple-quoted Python string is read as three literals by the scanner, so an operator in it is
    rewritten; the Casbin expression language has no such literal -/
theorem triple_quote_partial :
    getExpressionL "\"\"\"a\"&&\"b\"\"\"".toList = "\"\"\"a\" and \"b\"\"\"".toList := by decide

end Casbin.C02
