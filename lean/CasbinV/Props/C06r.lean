import CasbinV.Props.C06
/-!
# C06 (read-fed batch calls) — feeding the result of a read back into a batch removal

`remove_policies(get_policy())` and `remove_policies(get_filtered_policy(i, v…))`: the call succeeds and removes exactly
the rules the read selected (finding F25: the implementation handed out its own list and skipped every second rule).
-/
namespace Casbin.Policy.C06
open Casbin.Policy

/-- a batch removal fed with any sub-selection of the stored rules succeeds … -/
theorem removeMany_of_subset (l rs : List Rule) (hs : ∀ r ∈ rs, r ∈ l) : (removeMany l rs).2 = true := by
  rw [removeMany_result]
  simpa using hs

/-- … and removes exactly that selection, keeping the order of the rest -/
theorem removeMany_filter (l : List Rule) (p : Rule → Bool) (hd : l.Nodup) :
    (removeMany l (l.filter p)).2 = true ∧
    (∀ x, x ∈ (removeMany l (l.filter p)).1 ↔ x ∈ l ∧ p x = false) ∧
    ((removeMany l (l.filter p)).1).Sublist l := by
  have h := removeMany_of_subset l (l.filter p) (fun r hr => (List.mem_filter.mp hr).1)
  obtain ⟨hm, hsub⟩ := removeMany_success l (l.filter p) hd h
  refine ⟨h, fun x => ?_, hsub⟩
  rw [hm x]
  constructor
  · rintro ⟨hx, hn⟩
    refine ⟨hx, ?_⟩
    cases hp : p x
    · rfl
    · exact absurd (List.mem_filter.mpr ⟨hx, hp⟩) hn
  · rintro ⟨hx, hp⟩
    exact ⟨hx, fun hf => by simp [(List.mem_filter.mp hf).2] at hp⟩

/-- "remove everything I can see": `remove_policies(get_policy())` empties the rule set -/
theorem removeMany_self (l : List Rule) (hd : l.Nodup) : removeMany l l = ([], true) := by
  have h := removeMany_filter l (fun _ => true) hd
  have hf : l.filter (fun _ => true) = l := by simp
  rw [hf] at h
  obtain ⟨h1, h2, _⟩ := h
  have he : (removeMany l l).1 = [] := by
    apply List.eq_nil_iff_forall_not_mem.mpr
    intro x hx
    have := (h2 x).mp hx
    simp at this
  exact Prod.ext he h1

/-- `remove_policies(get_filtered_policy(idx, vals…))` = `remove_filtered_policy(idx, vals…)` on the stored set -/
theorem removeMany_getFiltered (l : List Rule) (idx : Nat) (vals : List String) (hd : l.Nodup)
    (h : InRange idx vals l) :
    ∃ rs, getFiltered l idx vals = .ok rs ∧ (removeMany l rs).2 = true ∧
      ∀ x, x ∈ (removeMany l rs).1 ↔ x ∈ (Spec.removeFiltered l idx vals).1 := by
  refine ⟨_, getFiltered_exact l idx vals h, ?_⟩
  unfold Spec.getFiltered
  obtain ⟨h1, h2, _⟩ := removeMany_filter l (Spec.matchesFilter idx vals) hd
  refine ⟨h1, fun x => ?_⟩
  rw [h2 x]
  simp [Spec.removeFiltered, List.mem_filter]

example : removeMany [["a", "b"], ["c", "d"], ["e", "f"]] [["a", "b"], ["c", "d"], ["e", "f"]] = ([], true) := by decide

end Casbin.Policy.C06
