import CasbinV.Model.Synced
import CasbinV.Gen.SyncedTable
/-!
# C17 — SyncedEnforcer calls are atomic and equivalent to the plain enforcer

Two halves.

* **The table** (`Gen.syncedTable`, regenerated from `casbin/synced_enforcer.py` by T2): every public method takes a
  lock at least as strong as the classification of its callee demands (`table_discipline`), forwards every parameter
  once and in order to the method of the same name and returns its value (`table_forwarding`), and `__init__` binds
  the read/write handles of ONE `RWLockWrite` around ONE `Enforcer` (`table_init`). All by `decide` over the
  regenerated table, so a wrong lock mode, a swapped argument, a different callee or a dropped `return` in the source
  breaks the build of this file.
* **The protocol** (generic in the sequential object): behind a readers-writer lock that admits a writer only alone and
  a reader only without a writer — what C16 proves about `RWLockWrite` — every concurrent execution is equivalent to
  the sequential run of the same calls in commit order (`linearizable`), every call sees the current state
  (`snapshot_fresh`), and commit order respects real time (`respects_real_time`), provided calls under the read lock
  do not change the state and unlocked calls do not depend on it. `api_linearizable` instantiates the lock modes
  with the ones of the generated table and derives these provisos from the classification.
-/
set_option linter.unusedSimpArgs false
namespace Casbin.C17
open Casbin.Synced

/-! ## The regenerated table -/

theorem table_init : initOk Gen.syncedInit = true := by decide +kernel

theorem table_discipline : ∀ r ∈ Gen.syncedTable, disciplineOk r = true := by decide +kernel

theorem table_forwarding : ∀ r ∈ Gen.syncedTable, forwardingOk r = true := by decide +kernel

/-- every mutating callee is wrapped under the write lock; every reading callee under some lock -/
theorem mutators_write_locked (r : Row) (h : r ∈ Gen.syncedTable) (mode : LockMode) (callee : String) (args : List Arg)
    (ret : Bool) (hs : r.shape = .wrap mode callee args ret) :
    (classify callee = .mutates → mode = .write) ∧ (classify callee = .reads → mode ≠ .none) := by
  have hd := table_discipline r h
  simp only [disciplineOk, hs] at hd
  constructor
  · intro hc; rw [hc] at hd; simpa using hd
  · intro hc; rw [hc] at hd; simpa using hd

/-! non-vacuity: the table has rows of every kind, and the checks reject the defects they are meant to reject -/
example : (Gen.syncedTable.filter fun r => r.mode == .write).length ≥ 40 := by decide +kernel
example : (Gen.syncedTable.filter fun r => r.mode == .read).length ≥ 40 := by decide +kernel
def witnessRows : List Row := [
  { name := "build_role_links", isPrivate := false, params := [],
    shape := .wrap .read "build_role_links" [] true },
  { name := "set_field_index", isPrivate := false, params := [.pos "ptype", .pos "field", .pos "index"],
    shape := .other "assertion = self._e.model['p'][ptype]; assertion.field_index_map[field] = index" ["_e.model"] },
  { name := "build_incremental_role_links", isPrivate := false, params := [.pos "op", .pos "ptype", .pos "rules"],
    shape := .other "self.get_model().build_incremental_role_links(self.get_role_manager(), op, 'g', ptype, rules)" ["get_role_manager", "get_model"] },
  { name := "add_policy", isPrivate := false, params := [.star "params"],
    shape := .wrap .none "add_policy" [.star "params"] true },
  { name := "is_filtered", isPrivate := false, params := [],
    shape := .wrap .read "is_filtered" [] false },
  { name := "add_role_for_user", isPrivate := false, params := [.pos "user", .pos "role"],
    shape := .wrap .write "add_role_for_user" [.pos "role", .pos "user"] true },
  { name := "add_policy", isPrivate := false, params := [.star "params"],
    shape := .wrap .write "remove_policy" [.star "params"] true }]

/-- negative witnesses: the F12 defects of the unrepaired source and typical mutants are rejected by the checks -/
theorem witnesses_rejected :
    witnessRows.map (fun r => (disciplineOk r, forwardingOk r)) =
      [(false, true), (false, true), (false, true), (false, true), (true, false), (true, false), (true, false)] := by
  decide +kernel

/-! ## The protocol -/

variable {σ Op Ret : Type}

theorem seqRun_append (apply : Op → σ → σ × Ret) (x : σ) (os : List Op) (o : Op) :
    seqRun apply x (os ++ [o]) =
      ((apply o (seqRun apply x os).1).1, (seqRun apply x os).2 ++ [(apply o (seqRun apply x os).1).2]) := by
  induction os generalizing x with
  | nil => simp [seqRun]
  | cons a as ih => simp [seqRun, ih]

/-- calls under the read lock leave the state alone; unlocked calls neither change nor depend on it -/
structure Disciplined (O : Obj σ Op Ret) : Prop where
  readPure : ∀ o s, O.mode o = .read → (O.apply o s).1 = s
  nonePure : ∀ o s, O.mode o = .none → (O.apply o s).1 = s
  noneConst : ∀ o s s', O.mode o = .none → (O.apply o s).2 = (O.apply o s').2

structure Inv (O : Obj σ Op Ret) (x : σ) (s : St σ Op Ret) : Prop where
  /-- whoever is inside under a lock sees the current state -/
  fresh : ∀ u o sn ti, s.th u = .inside o sn ti → O.mode o ≠ .none → sn = s.cur
  /-- a writer inside is the only lock holder inside -/
  excl : ∀ u o sn ti, s.th u = .inside o sn ti → O.mode o = .write →
    ∀ v o' sn' ti', s.th v = .inside o' sn' ti' → O.mode o' ≠ .none → v = u
  /-- the commit log, replayed sequentially from the initial state, gives the current state and the logged results -/
  lin : seqRun O.apply x (s.log.map (·.op)) = (s.cur, s.log.map (·.ret))
  /-- time stamps: commits are strictly ordered, every call commits after its invocation, nothing is in the future -/
  sorted : s.log.Pairwise (fun a b => a.tCom < b.tCom)
  invBeforeCom : ∀ e ∈ s.log, e.tInv < e.tCom ∧ e.tCom < s.now
  pendingPast : ∀ u, (∀ o ti, s.th u = .waiting o ti → ti < s.now) ∧ (∀ o sn ti, s.th u = .inside o sn ti → ti < s.now)

theorem inv_init (O : Obj σ Op Ret) (x : σ) : Inv O x (St.init x) := by
  refine ⟨?_, ?_, ?_, ?_, ?_, ?_⟩ <;> simp [St.init, seqRun]

theorem inv_step (O : Obj σ Op Ret) (x : σ) (hd : Disciplined O) {s t : St σ Op Ret}
    (h : Inv O x s) (st : Step O s t) : Inv O x t := by
  obtain ⟨hf, he, hl, hs, hic, hp⟩ := h
  cases st with
  | invoke t o hi =>
    refine ⟨?_, ?_, hl, hs, ?_, ?_⟩
    · intro u o' sn ti hu; simp only [upd] at hu; split at hu
      · cases hu
      · exact hf _ _ _ _ hu
    · intro u o' sn ti hu hw v o'' sn' ti' hv
      simp only [upd] at hu hv
      split at hu
      · cases hu
      · split at hv
        · cases hv
        · exact he _ _ _ _ hu hw _ _ _ _ hv
    · intro e he'; have := hic e he'; dsimp only; omega
    · intro u; dsimp only [upd]; constructor
      · intro o' ti hu; split at hu
        · cases hu; omega
        · have := (hp u).1 _ _ hu; omega
      · intro o' sn ti hu; split at hu
        · cases hu
        · have := (hp u).2 _ _ _ hu; omega
  | beginR t o ti hwait hm hnw =>
    refine ⟨?_, ?_, hl, hs, ?_, ?_⟩
    · intro u o' sn ti' hu; simp only [upd] at hu; split at hu
      · cases hu; intro _; rfl
      · exact hf _ _ _ _ hu
    · intro u o' sn ti' hu hw v o'' sn' ti'' hv
      simp only [upd] at hu hv
      split at hu
      · cases hu; rw [hm] at hw; cases hw
      · exact absurd ⟨u, o', sn, ti', hu, hw⟩ hnw
    · intro e he'; have := hic e he'; dsimp only; omega
    · intro u; dsimp only [upd]; constructor
      · intro o' ti' hu; split at hu
        · cases hu
        · have := (hp u).1 _ _ hu; omega
      · intro o' sn ti' hu; split at hu
        · cases hu; have := (hp t).1 _ _ hwait; omega
        · have := (hp u).2 _ _ _ hu; omega
  | beginW t o ti hwait hm hni =>
    refine ⟨?_, ?_, hl, hs, ?_, ?_⟩
    · intro u o' sn ti' hu; simp only [upd] at hu; split at hu
      · cases hu; intro _; rfl
      · exact hf _ _ _ _ hu
    · intro u o' sn ti' hu hw v o'' sn' ti'' hv hv'
      simp only [upd] at hu hv
      split at hu <;> split at hv
      · simp_all
      · exact absurd ⟨v, o'', sn', ti'', hv, hv'⟩ hni
      · exact absurd ⟨u, o', sn, ti', hu, by rw [hw]; simp⟩ hni
      · exact absurd ⟨u, o', sn, ti', hu, by rw [hw]; simp⟩ hni
    · intro e he'; have := hic e he'; dsimp only; omega
    · intro u; dsimp only [upd]; constructor
      · intro o' ti' hu; split at hu
        · cases hu
        · have := (hp u).1 _ _ hu; omega
      · intro o' sn ti' hu; split at hu
        · cases hu; have := (hp t).1 _ _ hwait; omega
        · have := (hp u).2 _ _ _ hu; omega
  | beginN t o ti hwait hm =>
    refine ⟨?_, ?_, hl, hs, ?_, ?_⟩
    · intro u o' sn ti' hu; simp only [upd] at hu; split at hu
      · cases hu; intro _; rfl
      · exact hf _ _ _ _ hu
    · intro u o' sn ti' hu hw v o'' sn' ti'' hv hv'
      simp only [upd] at hu hv
      split at hu
      · cases hu; rw [hm] at hw; cases hw
      · split at hv
        · cases hv; exact absurd hm hv'
        · exact he _ _ _ _ hu hw _ _ _ _ hv hv'
    · intro e he'; have := hic e he'; dsimp only; omega
    · intro u; dsimp only [upd]; constructor
      · intro o' ti' hu; split at hu
        · cases hu
        · have := (hp u).1 _ _ hu; omega
      · intro o' sn ti' hu; split at hu
        · cases hu; have := (hp t).1 _ _ hwait; omega
        · have := (hp u).2 _ _ _ hu; omega
  | commit t o sn ti hin hm =>
    have hsn := hf _ _ _ _ hin hm
    subst hsn
    refine ⟨?_, ?_, ?_, ?_, ?_, ?_⟩
    · intro u o' sn' ti' hu hm'; simp only [upd] at hu; split at hu
      · cases hu
      · rename_i hne
        have := hf _ _ _ _ hu hm'
        subst this
        dsimp only
        cases hmo : O.mode o with
        | none => exact absurd hmo hm
        | read => exact (hd.readPure o _ hmo).symm
        | write => exact absurd (he _ _ _ _ hin hmo _ _ _ _ hu hm') hne
    · intro u o' sn' ti' hu hw v o'' sn'' ti'' hv hv'
      simp only [upd] at hu hv
      split at hu
      · cases hu
      · split at hv
        · cases hv
        · exact he _ _ _ _ hu hw _ _ _ _ hv hv'
    · simp [seqRun_append, hl]
    · rw [List.pairwise_append]
      refine ⟨hs, by simp, ?_⟩
      intro a ha b hb
      simp only [List.mem_singleton] at hb
      subst hb
      exact (hic a ha).2
    · intro e he'
      simp only [List.mem_append, List.mem_singleton] at he'
      rcases he' with he' | he'
      · have := hic e he'; dsimp only; omega
      · subst he'; dsimp only; have := (hp t).2 _ _ _ hin; omega
    · intro u; dsimp only [upd]; constructor
      · intro o' ti' hu; split at hu
        · cases hu
        · have := (hp u).1 _ _ hu; omega
      · intro o' sn' ti' hu; split at hu
        · cases hu
        · have := (hp u).2 _ _ _ hu; omega
  | commitN t o sn ti hin hm =>
    refine ⟨?_, ?_, ?_, ?_, ?_, ?_⟩
    · intro u o' sn' ti' hu hm'; simp only [upd] at hu; split at hu
      · cases hu
      · exact hf _ _ _ _ hu hm'
    · intro u o' sn' ti' hu hw v o'' sn'' ti'' hv hv'
      simp only [upd] at hu hv
      split at hu
      · cases hu
      · split at hv
        · cases hv
        · exact he _ _ _ _ hu hw _ _ _ _ hv hv'
    · simp [seqRun_append, hl, hd.nonePure o _ hm, hd.noneConst o sn s.cur hm]
    · rw [List.pairwise_append]
      refine ⟨hs, by simp, ?_⟩
      intro a ha b hb
      simp only [List.mem_singleton] at hb
      subst hb
      exact (hic a ha).2
    · intro e he'
      simp only [List.mem_append, List.mem_singleton] at he'
      rcases he' with he' | he'
      · have := hic e he'; dsimp only; omega
      · subst he'; dsimp only; have := (hp t).2 _ _ _ hin; omega
    · intro u; dsimp only [upd]; constructor
      · intro o' ti' hu; split at hu
        · cases hu
        · have := (hp u).1 _ _ hu; omega
      · intro o' sn' ti' hu; split at hu
        · cases hu
        · have := (hp u).2 _ _ _ hu; omega

theorem inv_reach (O : Obj σ Op Ret) (x : σ) (hd : Disciplined O) {s : St σ Op Ret} (r : Reach O x s) : Inv O x s := by
  induction r with
  | init => exact inv_init O x
  | step _ st ih => exact inv_step O x hd ih st

/-- atomicity: a call running under a lock sees the current state for as long as it is inside -/
theorem snapshot_fresh (O : Obj σ Op Ret) (x : σ) (hd : Disciplined O) {s : St σ Op Ret} (r : Reach O x s)
    {u : Nat} {o : Op} {sn : σ} {ti : Nat} (h : s.th u = .inside o sn ti) (hm : O.mode o ≠ .none) : sn = s.cur :=
  (inv_reach O x hd r).fresh u o sn ti h hm

/-- a writer inside is alone among the lock holders -/
theorem writer_alone (O : Obj σ Op Ret) (x : σ) (hd : Disciplined O) {s : St σ Op Ret} (r : Reach O x s)
    {u v : Nat} {o o' : Op} {sn sn' : σ} {ti ti' : Nat} (h : s.th u = .inside o sn ti) (hw : O.mode o = .write)
    (h' : s.th v = .inside o' sn' ti') (hm : O.mode o' ≠ .none) : v = u :=
  (inv_reach O x hd r).excl u o sn ti h hw v o' sn' ti' h' hm

/-- every concurrent execution is equivalent to the one-at-a-time run of the same calls in commit order: each call
    returned what it returns at its place in that order and the final state is the one that order produces -/
theorem linearizable (O : Obj σ Op Ret) (x : σ) (hd : Disciplined O) {s : St σ Op Ret} (r : Reach O x s) :
    seqRun O.apply x (s.log.map (·.op)) = (s.cur, s.log.map (·.ret)) :=
  (inv_reach O x hd r).lin

/-- the commit order respects real time: a call that committed (hence: that returned) before another one was invoked
    precedes it in the order -/
theorem respects_real_time (O : Obj σ Op Ret) (x : σ) (hd : Disciplined O) {s : St σ Op Ret} (r : Reach O x s)
    (i j : Nat) (hi : i < s.log.length) (hj : j < s.log.length) (h : s.log[i].tCom < s.log[j].tInv) : i < j := by
  have hI := inv_reach O x hd r
  have hsorted := hI.sorted
  rw [List.pairwise_iff_getElem] at hsorted
  have hj' := (hI.invBeforeCom s.log[j] (List.getElem_mem hj)).1
  rcases Nat.lt_trichotomy i j with hlt | heq | hgt
  · exact hlt
  · subst heq; omega
  · have := hsorted j i hj hi hgt; omega

/-! non-vacuity: a two-thread execution (a read overlapping nothing, then a write) on a counter object -/
section Example
inductive CntOp | get | incr deriving DecidableEq
def cntObj : Obj Nat CntOp Nat :=
  { apply := fun o s => match o with | .get => (s, s) | .incr => (s + 1, s), mode := fun o => match o with | .get => .read | .incr => .write }

theorem cntObj_disciplined : Disciplined cntObj := by
  constructor
  · intro o s h; cases o <;> simp_all [cntObj]
  · intro o s h; cases o <;> simp_all [cntObj]
  · intro o s s' h; cases o <;> simp_all [cntObj]

example : ∃ s, Reach cntObj 5 s ∧ s.log.length = 1 ∧ s.cur = 6 := by
  refine ⟨_, .step (.step (.step .init (.invoke _ 0 .incr rfl)) (.beginW _ 0 .incr 0 (by simp [upd, St.init]) rfl ?_))
    (.commit _ 0 .incr 5 0 (by simp [upd, St.init]) (by simp [cntObj])), by simp [St.init], by simp [cntObj]⟩
  rintro ⟨u, o, sn, ti, h, _⟩
  simp only [upd, St.init] at h
  split at h <;> cases h

/-- two calls one after the other (hypothesis of `respects_real_time`: the first commits at time 2, the second is
    invoked at time 3): a write by thread 0, then a read by thread 1 that returns the written value -/
example : ∃ s, Reach cntObj 5 s ∧ s.log.map (fun e => (e.tid, e.ret, e.tInv, e.tCom)) = [(0, 5, 0, 2), (1, 6, 3, 5)] ∧ s.cur = 6 := by
  have noW : ∀ (th : Nat → Th Nat CntOp) (cur : Nat) (log : List (Entry CntOp Nat)) (now : Nat), (∀ u, th u = .idle ∨ ∃ ti, th u = .waiting .get ti) →
      ¬ writerInside cntObj { cur := cur, th := th, log := log, now := now } := by
    intro th cur log now hth
    rintro ⟨u, o, sn, ti, h, _⟩
    simp only at h
    rcases hth u with h' | ⟨ti', h'⟩ <;> rw [h'] at h <;> cases h
  have r3 : Reach cntObj 5 _ :=
    .step (.step (.step .init (.invoke _ 0 .incr rfl)) (.beginW _ 0 .incr 0 (by simp [upd, St.init]) rfl (by
      rintro ⟨u, o, sn, ti, h, _⟩
      simp only [upd, St.init] at h
      split at h <;> cases h)))
    (.commit _ 0 .incr 5 0 (by simp [upd, St.init]) (by simp [cntObj]))
  have r4 := Reach.step r3 (.invoke _ 1 .get (by simp [upd, St.init]))
  have r5 := Reach.step r4 (.beginR _ 1 .get 3 (by simp [upd, St.init]) rfl (by
    apply noW
    intro u
    simp only [upd, St.init]
    by_cases h1 : u = 1
    · right; exact ⟨3, by simp [h1]⟩
    · left; simp [h1]; intro h0; simp [h0]))
  have r6 := Reach.step r5 (.commit _ 1 .get 6 3 (by simp [upd, St.init, cntObj]) (by simp [cntObj]))
  exact ⟨_, r6, by simp [St.init, cntObj], by simp [cntObj]⟩
end Example

/-! ## Memoising reads

Reading calls of the real enforcer are not read-only on the REPRESENTATION: `RoleManager._get_role` creates the role
object of a name it has not met, `DomainManager._get_role_manager` builds and caches the manager of a domain it has not
served, `enforce` re-derives the `g` closures into the function map. `Disciplined.readPure` is therefore stated for an
abstraction of the state: `C` is the object as implemented (state `σ`), `O` the object the answers are about (state `α`,
`abs : σ → α`), and every call of `C` does on the abstraction what `O` does and returns what `O` returns (`Memo`): a read
may change the representation, never the abstraction. The concurrent system over `C` (where two overlapping readers
each work on the representation they saw at `begin`, so the memo of one may even be LOST at the other's commit) then
simulates the concurrent system over `O` step by step, hence is linearizable against `O`, and a read never changes the
answer of any later call (`memo_read_unobservable`).

What this covers after the repair of F33 (role created once, under the manager's own lock, published when linked):
the cached per-domain manager, the role object of a new name when NO matching function is set (a node without links:
no query shows it), the derived `g` closures. What it does not cover: with a role matching function, the first sight of
a name makes it a node that `get_users_for_role` of its roles lists from then on — on a plain enforcer too — so that read
changes the abstraction; those executions are checked by the harness (first-sight stream) against ALL sequential orders,
not proved here. -/

/-- `C` implements `O` up to `abs`: same lock modes, same answers, same effect on the abstraction -/
structure Memo {α : Type} (C : Obj σ Op Ret) (O : Obj α Op Ret) (abs : σ → α) : Prop where
  mode : ∀ o, C.mode o = O.mode o
  state : ∀ o s, abs (C.apply o s).1 = (O.apply o (abs s)).1
  ret : ∀ o s, (C.apply o s).2 = (O.apply o (abs s)).2

def mapTh {α : Type} (abs : σ → α) : Th σ Op → Th α Op
  | .idle => .idle
  | .waiting o ti => .waiting o ti
  | .inside o sn ti => .inside o (abs sn) ti

def mapSt {α : Type} (abs : σ → α) (s : St σ Op Ret) : St α Op Ret :=
  { cur := abs s.cur, th := fun u => mapTh abs (s.th u), log := s.log, now := s.now }

theorem mapTh_upd {α : Type} (abs : σ → α) (f : Nat → Th σ Op) (t : Nat) (v : Th σ Op) :
    (fun u => mapTh abs (upd f t v u)) = upd (fun u => mapTh abs (f u)) t (mapTh abs v) := by
  funext u; simp only [upd]; split <;> rfl

theorem mapSt_upd {α : Type} (abs : σ → α) (cur : σ) (f : Nat → Th σ Op) (t : Nat) (v : Th σ Op) (log : List (Entry Op Ret)) (now : Nat) :
    mapSt abs { cur := cur, th := upd f t v, log := log, now := now } =
      { cur := abs cur, th := upd (fun u => mapTh abs (f u)) t (mapTh abs v), log := log, now := now } := by
  simp only [mapSt, mapTh_upd]

theorem mapTh_inside {α : Type} (abs : σ → α) {x : Th σ Op} {o : Op} {a : α} {ti : Nat}
    (h : mapTh abs x = .inside o a ti) : ∃ sn, x = .inside o sn ti := by
  cases x with
  | idle => cases h
  | waiting o' ti' => cases h
  | inside o' sn ti' => simp only [mapTh] at h; cases h; exact ⟨sn, rfl⟩

theorem step_sim {α : Type} (C : Obj σ Op Ret) (O : Obj α Op Ret) (abs : σ → α) (hm : Memo C O abs)
    {s t : St σ Op Ret} (st : Step C s t) : Step O (mapSt abs s) (mapSt abs t) := by
  have noW : ¬ writerInside C s → ¬ writerInside O (mapSt abs s) := by
    rintro h ⟨u, o, a, ti, hu, hw⟩
    obtain ⟨sn, hsn⟩ := mapTh_inside abs hu
    exact h ⟨u, o, sn, ti, hsn, by rw [hm.mode]; exact hw⟩
  have noL : ¬ lockedInside C s → ¬ lockedInside O (mapSt abs s) := by
    rintro h ⟨u, o, a, ti, hu, hw⟩
    obtain ⟨sn, hsn⟩ := mapTh_inside abs hu
    exact h ⟨u, o, sn, ti, hsn, by rw [hm.mode]; exact hw⟩
  cases st with
  | invoke t o hidle =>
    have h := Step.invoke (O := O) (mapSt abs s) t o (by simp [mapSt, hidle, mapTh])
    rw [mapSt_upd]; exact h
  | beginR t o ti hwait hmo hnw =>
    have h := Step.beginR (O := O) (mapSt abs s) t o ti (by simp [mapSt, hwait, mapTh]) (by rw [← hm.mode]; exact hmo) (noW hnw)
    rw [mapSt_upd]; exact h
  | beginW t o ti hwait hmo hnl =>
    have h := Step.beginW (O := O) (mapSt abs s) t o ti (by simp [mapSt, hwait, mapTh]) (by rw [← hm.mode]; exact hmo) (noL hnl)
    rw [mapSt_upd]; exact h
  | beginN t o ti hwait hmo =>
    have h := Step.beginN (O := O) (mapSt abs s) t o ti (by simp [mapSt, hwait, mapTh]) (by rw [← hm.mode]; exact hmo)
    rw [mapSt_upd]; exact h
  | commit t o sn ti hin hmo =>
    have h := Step.commit (O := O) (mapSt abs s) t o (abs sn) ti (by simp [mapSt, hin, mapTh]) (by rw [← hm.mode]; exact hmo)
    rw [mapSt_upd, hm.state, hm.ret]; exact h
  | commitN t o sn ti hin hmo =>
    have h := Step.commitN (O := O) (mapSt abs s) t o (abs sn) ti (by simp [mapSt, hin, mapTh]) (by rw [← hm.mode]; exact hmo)
    rw [mapSt_upd, hm.ret]; exact h

theorem reach_sim {α : Type} (C : Obj σ Op Ret) (O : Obj α Op Ret) (abs : σ → α) (hm : Memo C O abs) (x : σ)
    {s : St σ Op Ret} (r : Reach C x s) : Reach O (abs x) (mapSt abs s) := by
  induction r with
  | init => exact .init
  | step _ st ih => exact .step ih (step_sim C O abs hm st)

/-- reads that memoise: every concurrent execution of the object AS IMPLEMENTED returns, call by call, what the abstract
    object returns in commit order, and ends in the abstract state that order produces — although readers change the
    representation under the read lock (and may overwrite each other's memo) -/
theorem memo_linearizable {α : Type} (C : Obj σ Op Ret) (O : Obj α Op Ret) (abs : σ → α) (hm : Memo C O abs)
    (hd : Disciplined O) (x : σ) {s : St σ Op Ret} (r : Reach C x s) :
    seqRun O.apply (abs x) (s.log.map (·.op)) = (abs s.cur, s.log.map (·.ret)) :=
  linearizable O (abs x) hd (reach_sim C O abs hm x r)

/-- ... and respects real time -/
theorem memo_respects_real_time {α : Type} (C : Obj σ Op Ret) (O : Obj α Op Ret) (abs : σ → α) (hm : Memo C O abs)
    (hd : Disciplined O) (x : σ) {s : St σ Op Ret} (r : Reach C x s)
    (i j : Nat) (hi : i < s.log.length) (hj : j < s.log.length) (h : s.log[i].tCom < s.log[j].tInv) : i < j :=
  respects_real_time O (abs x) hd (reach_sim C O abs hm x r) i j hi hj h

/-- observational purity of a memoising read: after it, every call (and, by induction, every sequence of calls) answers
    what it would have answered without it, and leaves the same abstract state -/
theorem memo_read_unobservable {α : Type} (C : Obj σ Op Ret) (O : Obj α Op Ret) (abs : σ → α) (hm : Memo C O abs)
    (hd : Disciplined O) (o : Op) (hr : C.mode o = .read) (s : σ) (os : List Op) :
    (seqRun C.apply (C.apply o s).1 os).2 = (seqRun C.apply s os).2 ∧
      abs (seqRun C.apply (C.apply o s).1 os).1 = abs (seqRun C.apply s os).1 := by
  have habs : abs (C.apply o s).1 = abs s := by rw [hm.state, hd.readPure o _ (by rw [← hm.mode]; exact hr)]
  have key : ∀ (os : List Op) (a b : σ), abs a = abs b →
      (seqRun C.apply a os).2 = (seqRun C.apply b os).2 ∧ abs (seqRun C.apply a os).1 = abs (seqRun C.apply b os).1 := by
    intro os
    induction os with
    | nil => intro a b h; exact ⟨rfl, h⟩
    | cons p ps ih =>
      intro a b h
      have h1 : abs (C.apply p a).1 = abs (C.apply p b).1 := by rw [hm.state, hm.state, h]
      have h2 : (C.apply p a).2 = (C.apply p b).2 := by rw [hm.ret, hm.ret, h]
      have := ih _ _ h1
      simp only [seqRun]
      exact ⟨by rw [h2, this.1], this.2⟩
  exact key os _ _ habs

/-! non-vacuity: a counter whose `get` counts how often it was asked (a representation change under the read lock);
    the abstraction forgets that statistic -/
section MemoExample
def memoCnt : Obj (Nat × Nat) CntOp Nat :=
  { apply := fun o s => match o with | .get => ((s.1, s.2 + 1), s.1) | .incr => ((s.1 + 1, s.2), s.1),
    mode := fun o => match o with | .get => .read | .incr => .write }

theorem memoCnt_memo : Memo memoCnt cntObj Prod.fst := by
  constructor
  · intro o; cases o <;> rfl
  · intro o s; cases o <;> rfl
  · intro o s; cases o <;> rfl

/-- the implemented object is NOT read-pure (so `linearizable` does not apply to it directly) ... -/
example : ¬ Disciplined memoCnt := by
  intro h
  have := h.readPure .get (0, 0) rfl
  simp [memoCnt] at this

/-- ... but `memo_linearizable` does: e.g. a `get` by thread 0, committed -/
example : ∃ s, Reach memoCnt (5, 0) s ∧ s.cur = (5, 1) ∧
    seqRun cntObj.apply 5 (s.log.map (·.op)) = (5, s.log.map (·.ret)) := by
  have r : Reach memoCnt (5, 0) _ :=
    .step (.step (.step .init (.invoke _ 0 .get rfl)) (.beginR _ 0 .get 0 (by simp [upd, St.init]) rfl (by
      rintro ⟨u, o, sn, ti, h, _⟩
      simp only [upd, St.init] at h
      split at h <;> cases h)))
      (.commit _ 0 .get (5, 0) 0 (by simp [upd, St.init]) (by simp [memoCnt]))
  exact ⟨_, r, by simp [memoCnt], memo_linearizable memoCnt cntObj Prod.fst memoCnt_memo cntObj_disciplined (5, 0) r⟩
end MemoExample

/-! ## Instantiating the lock modes with the regenerated table -/

/-- a call of the SyncedEnforcer API: a plain-forward row of the generated table plus its arguments -/
structure ApiOp (A : Type) where
  row : Row
  mem : row ∈ Gen.syncedTable
  mode : LockMode
  callee : String
  args : List Arg
  ret : Bool
  shape : row.shape = .wrap mode callee args ret
  arg : A

/-- non-vacuity: the generated table has such calls, e.g. `add_policy` under the write lock and `enforce` under the read lock -/
example : ∃ o : ApiOp Unit, o.callee = "add_policy" ∧ o.mode = .write :=
  ⟨{ row := ⟨"add_policy", false, [.star "params"], .wrap .write "add_policy" [.star "params"] true⟩, mem := by decide +kernel,
     mode := .write, callee := "add_policy", args := [.star "params"], ret := true, shape := rfl, arg := () }, rfl, rfl⟩
example : ∃ o : ApiOp Unit, o.callee = "enforce" ∧ o.mode = .read :=
  ⟨{ row := ⟨"enforce", false, [.star "rvals"], .wrap .read "enforce" [.star "rvals"] true⟩, mem := by decide +kernel,
     mode := .read, callee := "enforce", args := [.star "rvals"], ret := true, shape := rfl, arg := () }, rfl, rfl⟩

/-- the wrapped enforcer as a sequential object: `run callee a s` is what the plain enforcer's method `callee` does -/
def apiObj {A : Type} (run : String → A → σ → σ × Ret) : Obj σ (ApiOp A) Ret :=
  { apply := fun o s => run o.callee o.arg s, mode := fun o => o.mode }

/-- Provided the classification is right about the plain enforcer (reading methods do not change the abstract state,
    pure ones do not depend on it — observed at run time by the harness, `read_pure` of the enforcer model), every
    concurrent execution of plain-forward wrappers with the lock modes OF THE GENERATED TABLE is linearizable. -/
theorem api_linearizable {A : Type} (run : String → A → σ → σ × Ret)
    (hreads : ∀ c a s, classify c = .reads → (run c a s).1 = s)
    (hpure : ∀ c a s s', classify c = .pure → (run c a s).1 = s ∧ (run c a s).2 = (run c a s').2)
    (x : σ) {s : St σ (ApiOp A) Ret} (r : Reach (apiObj run) x s) :
    seqRun (apiObj run).apply x (s.log.map (·.op)) = (s.cur, s.log.map (·.ret)) := by
  refine linearizable (apiObj run) x ?_ r
  have key : ∀ o : ApiOp A, (o.mode = .read → classify o.callee ≠ .mutates) ∧ (o.mode = .none → classify o.callee = .pure) := by
    intro o
    have hm := mutators_write_locked o.row o.mem o.mode o.callee o.args o.ret o.shape
    constructor
    · intro h hc; have := hm.1 hc; rw [h] at this; cases this
    · intro h
      cases hc : classify o.callee with
      | mutates => have := hm.1 hc; rw [h] at this; cases this
      | reads => exact absurd h (hm.2 hc)
      | pure => rfl
  constructor
  · intro o s hmo
    have := (key o).1 hmo
    cases hc : classify o.callee with
    | mutates => exact absurd hc this
    | reads => exact hreads _ _ _ hc
    | pure => exact (hpure _ _ s s hc).1
  · intro o s hmo
    exact (hpure _ _ s s ((key o).2 hmo)).1
  · intro o s s' hmo
    exact (hpure _ _ s s' ((key o).2 hmo)).2

end Casbin.C17
