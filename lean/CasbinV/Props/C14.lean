import CasbinV.Props.C03
namespace Casbin.C14
open Casbin Casbin.RM Casbin.C03

/-! # C14 — pattern role assignments grant their roles to exactly the names that match

Setting: a `RoleManager` with a registered matching function `m` (`m name pattern`).  Hypotheses, stated once:
* `Trans m` — the matching function is transitive (true of `key_match`; of `key_match2`/regex functions on
  the usual pattern sets).  Without it the unchanged code is order dependent: `nontransitive_order_dependent`.
* `PlainRoles m ops` — patterns sit on the user / resource side: no other name matches an assigned role.
The specification is reachability over the effective edges `E* = EStar m (assignments in force)`.
-/

/-- a manager on which `add_matching_func(m)` was called before anything else -/
def start (L : Nat) (m : MatchFn) : RM := (fresh L none).addMatchingFunc m

theorem start_eq (L : Nat) (m : MatchFn) : start L m = fresh L (some m) := rfl

theorem mtch_fresh (L : Nat) (m : MatchFn) : (fresh L (some m)).mtch = m := rfl

/-- **pattern_history** (contains `pattern_add_only` and `pattern_delete`). After ANY history of adds, deletes,
    first-sight queries and clears, in any order: no call raised, and `has_link(u, r)` ⇔ `r` is reachable
    from `u` in fewer than `max_hierarchy_level` effective edges over the assignments in force. -/
theorem pattern_history (L : Nat) (m : MatchFn) (ht : Trans m) (ops : List Op) (hops : PlainRoles m ops)
    (u r : Name) :
    errors (start L m) ops = [] ∧
    (((run (start L m) ops).hasLink u r).2 = true ↔
      ∃ n, n < L ∧ PathR (EStar m ((run (start L m) ops).allLinks)) u r n) ∧
    ∀ l, l ∈ (run (start L m) ops).allLinks ↔ inForce ops l = true := by
  rw [start_eq]
  obtain ⟨h1, h2, h3, h4, h5⟩ := run_inv (s := fresh L (some m)) ht (fresh_inv L _) ops hops
  refine ⟨h2, ?_, ?_⟩
  · rw [hasLink_iff_pathR (by rw [h3]; exact ht) h1, h3, h4]; rfl
  · intro l; rw [h5]; simp [inForce, fresh]

/-- **pattern_add_only.** For add-only histories with first-sight queries interleaved in any order: every name
    matching a pattern holds the pattern's roles, exactly -/
theorem pattern_add_only (L : Nat) (m : MatchFn) (ht : Trans m) (ops : List Op) (hops : PlainRoles m ops)
    (_hadd : ∀ op ∈ ops, (∃ a b, op = .add a b) ∨ (∃ a b, op = .has a b) ∨ (∃ a, op = .roles a) ∨ (∃ a, op = .users a))
    (u r : Name) :
    ((run (start L m) ops).hasLink u r).2 = true ↔
      ∃ n, n < L ∧ PathR (EStar m ((run (start L m) ops).allLinks)) u r n :=
  (pattern_history L m ht ops hops u r).2.1

/-- **pattern_unmatched_gain_nothing.** a name that is not the user of an assignment in force and matches no
    user pattern holds nothing but itself, and `get_roles` reports nothing for it -/
theorem pattern_unmatched_gain_nothing (L : Nat) (m : MatchFn) (ht : Trans m) (ops : List Op)
    (hops : PlainRoles m ops) (u : Name)
    (hu : ∀ a b, inForce ops (a, b) = true → u ≠ a ∧ m u a = false) :
    (∀ r, r ≠ u → ((run (start L m) ops).hasLink u r).2 = false) ∧ ((run (start L m) ops).getRoles u).2 = [] := by
  obtain ⟨_, _, h5⟩ := pattern_history L m ht ops hops u u
  have hno : ∀ y, ¬ EStar m (run (start L m) ops).allLinks u y := by
    rintro y ⟨a, hab, hx⟩
    have := hu a y ((h5 _).mp hab)
    rcases hx with rfl | hx
    · exact this.1 rfl
    · rw [this.2] at hx; exact Bool.false_ne_true hx
  constructor
  · intro r hr
    rw [Bool.eq_false_iff]
    intro hl
    obtain ⟨n, _, p⟩ := (pattern_history L m ht ops hops u r).2.1.mp hl
    cases p with
    | refl => exact hr rfl
    | step he _ => exact hno _ he
  · rw [start_eq] at *
    obtain ⟨h1, _, h3, _, _⟩ := run_inv (s := fresh L (some m)) ht (fresh_inv L _) ops hops
    rw [List.eq_nil_iff_forall_not_mem]
    intro y hy
    rw [getRoles_iff (by rw [h3]; exact ht) h1, h3] at hy
    exact hno y hy

/-- **pattern_delete.** removing an assignment removes exactly the grants it gave: afterwards the effective
    edges are those of the remaining assignments (a grant shared with another assignment stays) -/
theorem pattern_delete {s : RM} (ht : Trans s.mtch) (h : Inv s) (a b u r : Name) :
    (s.deleteLink a b).2 = none ∧
    (((s.deleteLink a b).1.hasLink u r).2 = true ↔
      ∃ n, n < s.maxLevel ∧ PathR (EStar s.mtch (s.allLinks.filter (· != (a, b)))) u r n) := by
  obtain ⟨h1, h2, h3, h4, h5⟩ := deleteLink_inv ht h a b
  have hm : (s.deleteLink a b).1.mtch = s.mtch := by funext x y; simp [RM.mtch, h3]
  refine ⟨h2, ?_⟩
  rw [hasLink_iff_pathR (by rw [hm]; exact ht) h1, hm, h4]
  have hE : ∀ x y, EStar s.mtch (s.deleteLink a b).1.allLinks x y ↔ EStar s.mtch (s.allLinks.filter (· != (a, b))) x y := by
    intro x y; unfold EStar
    simp only [h5, List.mem_filter, bne_iff_ne, ne_eq]
  constructor
  · rintro ⟨n, hn, p⟩; exact ⟨n, hn, PathR.mono (fun x y => (hE x y).mp) p⟩
  · rintro ⟨n, hn, p⟩; exact ⟨n, hn, PathR.mono (fun x y => (hE x y).mpr) p⟩

/-- `key_match2` restricted to the names `/b/*`, `/b/:id`, `/b/1`, `/b/1/2`, `g1`, `g2` (its truth table) -/
def km2 : MatchFn := fun k p =>
  k == p ||
  [("/b/1", "/b/*"), ("/b/1", "/b/:id"), ("/b/1/2", "/b/*"), ("/b/:id", "/b/*"), ("/b/*", "/b/:id")].contains (k, p)

/-- `km2` is not transitive: `/b/1/2` matches `/b/*`, `/b/*` matches `/b/:id`, `/b/1/2` does not match `/b/:id` -/
theorem km2_not_trans : ¬ Trans km2 := by
  intro h
  have := h "/b/1/2" "/b/*" "/b/:id" (by decide) (by decide)
  revert this; decide

/-- **Negative witness for the transitivity hypothesis (open finding F22), on the model of the code:**
    the same two assignments, the same final query — the answer depends on whether `/b/1/2` was first seen
    before or after them, and the late answer grants `g1` to a name that does not match `/b/:id`. -/
theorem nontransitive_order_dependent :
    ((run (start 10 km2) [.add "/b/:id" "g1", .add "/b/*" "g2"]).hasLink "/b/1/2" "g1").2 = true ∧
    ((run (start 10 km2) [.has "/b/1/2" "g1", .add "/b/:id" "g1", .add "/b/*" "g2"]).hasLink "/b/1/2" "g1").2 = false ∧
    ¬ EStar km2 [("/b/:id", "g1"), ("/b/*", "g2")] "/b/1/2" "g1" := by
  refine ⟨by decide, by decide, ?_⟩
  rintro ⟨a, ha, hx⟩
  simp only [List.mem_cons, Prod.mk.injEq, List.not_mem_nil, or_false] at ha
  rcases ha with ⟨rfl, _⟩ | ⟨_, h2⟩
  · revert hx; decide
  · revert h2; decide

/-- F10 (repaired): two overlapping grants, deleting one keeps the other's — in both orders, and the second
    delete does not raise -/
example :
    let s := run (start 10 km2) [.add "/b/:id" "g1", .add "/b/1" "g1"]
    ((s.deleteLink "/b/:id" "g1").1.hasLink "/b/1" "g1").2 = true ∧
    ((s.deleteLink "/b/1" "g1").1.hasLink "/b/1" "g1").2 = true ∧
    (((s.deleteLink "/b/1" "g1").1.deleteLink "/b/:id" "g1").2 = none) ∧
    ((((s.deleteLink "/b/1" "g1").1.deleteLink "/b/:id" "g1").1.hasLink "/b/1" "g1").2 = false) := by decide


/-! non-vacuity of the hypotheses -/
/-- "`*` matches everything" is a transitive matching function -/
theorem star_trans : Trans (fun k p => p == "*" || k == p) := by
  intro n p a h1 h2
  simp only [Bool.or_eq_true, beq_iff_eq] at *
  rcases h2 with h2 | h2
  · exact Or.inl h2
  · subst h2; exact h1
example : PlainRoles (fun k p => p == "*" || k == p) [.add "*" "g1", .has "x" "g1", .add "g1" "g2", .del "*" "g1"] := by
  intro a b hab n hn
  simp only [List.mem_cons, Op.add.injEq, reduceCtorEq, List.not_mem_nil, or_false, false_or] at hab
  rcases hab with ⟨_, rfl⟩ | ⟨_, rfl⟩ <;> simpa using hn
example : ((run (start 10 (fun k p => p == "*" || k == p)) [.has "x" "g1", .add "*" "g1", .add "g1" "g2"]).hasLink "x" "g2").2 = true := by
  decide

/-- **domain_pattern_iff.** `DomainManager` with ANY domain matching function `dm` (not even reflexivity is
    needed after the repair F36) and any transitive name matching function: after ANY history of adds, deletes, queries and clears,
    `has_link(u, r, d)` ⇔ bounded reachability over the effective edges of the assignments recorded for `d`
    itself or for a domain pattern `d'` that `d` matches (`dm d d'`) — an assignment recorded for a domain
    pattern applies in exactly the domains that match it, cached or not — and the records in force are those
    the history says (in particular a delete removes exactly its own record: a grant also recorded for
    another matching domain stays). -/
theorem domain_pattern_iff (L : Nat) (mf dm : MatchFn) (ht : Trans mf)
    (ops : List DOp) (hops : DPlainRoles mf ops) (u r d : Name) (s : DM)
    (hs : s = drun (dinit L mf (some dm)) ops) :
    ((s.hasLink u r d).2 = true ↔
      ∃ n, n < L ∧ PathR (fun x y => ∃ a d', (d' = d ∨ dm d d' = true) ∧ s.recorded d' (a, y) ∧
                                            (x = a ∨ mf x a = true)) u r n) ∧
    (∀ d' l, s.recorded d' l ↔ dforce (fun _ _ => False) ops d' l) := by
  obtain ⟨h1, h2, h3, h4, h5, _⟩ := drun_inv (dinit_inv L mf (some dm) ht) ops hops
  rw [← hs] at h1 h2 h3 h4 h5
  have h2' : s.dmatchFn = some dm := h2
  have h3' : s.matchFn = mf := h3
  have h4' : s.maxLevel = L := h4
  have hE : ∀ x y, EStar s.matchFn (s.effLinks d) x y ↔
      ∃ a d', (d' = d ∨ dm d d' = true) ∧ s.recorded d' (a, y) ∧ (x = a ∨ mf x a = true) := by
    intro x y
    unfold EStar
    simp only [mem_effLinks h1.keys, DM.eff, DM.covers, h2', Option.some.injEq, exists_eq_left', h3']
    constructor
    · rintro ⟨a, ⟨d', hc, hrec⟩, hx⟩; exact ⟨a, d', hc, hrec, hx⟩
    · rintro ⟨a, d', hc, hrec, hx⟩; exact ⟨a, ⟨d', hc, hrec⟩, hx⟩
  refine ⟨?_, ?_⟩
  · rw [(dm_hasLink_spec h1 u r d).1, h4']
    constructor
    · rintro ⟨n, hn, p⟩; exact ⟨n, hn, PathR.mono (fun x y => (hE x y).mp) p⟩
    · rintro ⟨n, hn, p⟩; exact ⟨n, hn, PathR.mono (fun x y => (hE x y).mpr) p⟩
  · intro d' l; rw [h5, dinit_recorded]

/-- `*` as a domain pattern -/
def starDom : MatchFn := fun d p => p == "*" || d == p

/-- F23 (repaired): the same link recorded for `d1` and for `*`; deleting the `*` record keeps the grant in the
    cached `d1`; and a link recorded only for `*` applies in `d1`, `d2` and not after its deletion -/
example :
    let eq : MatchFn := fun a b => a == b
    ((drun (dinit 10 eq (some starDom)) [.add "a" "r" "d1", .add "a" "r" "*", .has "a" "r" "d1", .del "a" "r" "*"]).hasLink "a" "r" "d1").2 = true ∧
    ((drun (dinit 10 eq (some starDom)) [.has "a" "r" "d1", .add "a" "r" "*"]).hasLink "a" "r" "d1").2 = true ∧
    ((drun (dinit 10 eq (some starDom)) [.has "a" "r" "d1", .add "a" "r" "*", .has "a" "r" "d2", .del "a" "r" "*"]).hasLink "a" "r" "d2").2 = false ∧
    ((drun (dinit 10 eq (some starDom)) [.add "a" "r" "d1"]).hasLink "a" "r" "*").2 = false := by
  decide


end Casbin.C14
