import CasbinV.Props.C04
import CasbinV.Props.C09
import CasbinV.Props.C06f
/-!
# `update_filtered_policies` at enforcer level (C04, C09, C20)

`Enf.updateFilteredStep` (repaired, F16): refused before anything is touched unless it applies; then the adapter is
asked, then memory is changed.
* C04: it never touches role links and keeps the permission rules duplicate-free, so coherence is preserved.
* C20: a call that reports success notifies exactly once (always the generic `update()`), any other none.
* C09: from a mirrored state the store mirrors memory afterwards, and a call that reports failure has changed nothing
  and told the adapter nothing.
-/
namespace Casbin.Enf.UpdFiltered
open Casbin Casbin.Enf Casbin.Policy Casbin.Policy.C06 Casbin.Enf.C04 Casbin.Enf.C09

/-- the parts of the state the call can change are the `p` rules, the store, and the two logs -/
theorem frame (cfg : Cfg) (s : St) (news : List Rule) (idx : Nat) (vals : List String) :
    let s' := (updateFilteredStep cfg s news idx vals).1
    s'.links = s.links ∧ s'.pol.g = s.pol.g ∧ s'.pol.g2 = s.pol.g2 ∧ s'.autoBuild = s.autoBuild ∧
    s'.autoSave = s.autoSave ∧ s'.autoNotify = s.autoNotify := by
  unfold updateFilteredStep
  cases Policy.getFiltered s.pol.p idx vals with
  | error e => simp
  | ok oldMem =>
    simp only
    split
    · simp
    · cases cfg.hasAdapter && s.autoSave <;> cases Policy.getFiltered s.store.p idx vals <;>
        simp only [Bool.false_eq_true, ↓reduceIte] <;> split <;> (try split) <;> simp [Pol.set]

/-- the permission rules stay duplicate-free -/
theorem p_nodup (cfg : Cfg) (s : St) (news : List Rule) (idx : Nat) (vals : List String) (hd : s.pol.p.Nodup) :
    (updateFilteredStep cfg s news idx vals).1.pol.p.Nodup := by
  unfold updateFilteredStep
  cases Policy.getFiltered s.pol.p idx vals with
  | error e => exact hd
  | ok oldMem =>
    simp only
    split
    · exact hd
    · cases cfg.hasAdapter && s.autoSave <;> cases Policy.getFiltered s.store.p idx vals <;>
        simp only [Bool.false_eq_true, ↓reduceIte] <;> split <;> (try split) <;>
        simp only [Pol.set] <;> exact updateFilteredWith_nodup _ _ _ hd

/-- **C04**: role links still reflect the grouping policy after a filtered update -/
theorem coherent (cfg : Cfg) (s : St) (news : List Rule) (idx : Nat) (vals : List String) (h : Coherent cfg s) :
    Coherent cfg (updateFilteredStep cfg s news idx vals).1 := by
  obtain ⟨h1, h2, h3, h4, _, _⟩ := frame cfg s news idx vals
  exact ⟨by rw [h1, h2]; exact h.g, by rw [h1, h3]; exact h.g2, p_nodup cfg s news idx vals h.p, by rw [h4]; exact h.auto⟩

/-- **C20**: exactly one (generic) notification when the call reports success and a watcher is armed, none otherwise -/
theorem notifies_once (cfg : Cfg) (s : St) (news : List Rule) (idx : Nat) (vals : List String) :
    let r := updateFilteredStep cfg s news idx vals
    r.1.wlog = if r.2 = .ok (.bool true) ∧ cfg.hasWatcher = true ∧ s.autoNotify = true then s.wlog ++ [.update] else s.wlog := by
  unfold updateFilteredStep
  cases Policy.getFiltered s.pol.p idx vals with
  | error e => simp
  | ok oldMem =>
    simp only
    split
    · simp
    · cases cfg.hasAdapter && s.autoSave <;> cases Policy.getFiltered s.store.p idx vals <;>
        simp only [Bool.false_eq_true, ↓reduceIte] <;> split <;> (try split) <;> simp_all

/-- a refused call changes nothing and tells nobody -/
theorem refused_noop (cfg : Cfg) (s : St) (news : List Rule) (idx : Nat) (vals : List String) (old : List Rule)
    (hg : Policy.getFiltered s.pol.p idx vals = .ok old) (hc : updateFilteredRefused s.pol.p old news = true) :
    updateFilteredStep cfg s news idx vals = (s, .ok (.bool false)) := by
  unfold updateFilteredStep
  rw [hg]; simp only [hc, ↓reduceIte]

/-- **C09**: with auto-save on and the store mirroring memory, a filtered update leaves the store mirroring memory;
    it reports success exactly when it was not refused, and a refused call has changed nothing, adapter included -/
theorem mirror (cfg : Cfg) (s : St) (news : List Rule) (idx : Nat) (vals : List String)
    (had : cfg.hasAdapter = true) (hsave : s.autoSave = true) (hm : Mirror s) (hd : s.pol.p.Nodup)
    (hr : InRange idx vals s.pol.p) :
    Mirror (updateFilteredStep cfg s news idx vals).1 ∧
    ((updateFilteredStep cfg s news idx vals).2 = .ok (.bool false) → (updateFilteredStep cfg s news idx vals).1 = s) ∧
    ((updateFilteredStep cfg s news idx vals).2 = .ok (.bool true) ∨ (updateFilteredStep cfg s news idx vals).2 = .ok (.bool false)) := by
  have hg := getFiltered_exact s.pol.p idx vals hr
  cases hc : updateFilteredRefused s.pol.p (s.pol.p.filter (Spec.matchesFilter idx vals)) news with
  | true =>
    rw [refused_noop cfg s news idx vals _ hg (by simpa [Spec.getFiltered] using hc)]
    exact ⟨hm, fun _ => rfl, Or.inr rfl⟩
  | false =>
    unfold Mirror at hm
    have hc' := hc
    unfold updateFilteredRefused at hc'
    simp only [Bool.or_eq_false_iff] at hc'
    obtain ⟨⟨hold, hnews⟩, hcol⟩ := hc'
    obtain ⟨h1, h2, h3⟩ := removeMany_filter s.pol.p (Spec.matchesFilter idx vals) hd
    have hrem : (removeMany s.pol.p (s.pol.p.filter (Spec.matchesFilter idx vals))).1 =
        s.pol.p.filter (fun r => !Spec.matchesFilter idx vals r) := by
      have hall : (s.pol.p.filter (Spec.matchesFilter idx vals)).all (has s.pol.p) = true := by
        simp only [List.all_eq_true]; intro x hx; simp [has, (List.mem_filter.mp hx).1]
      unfold removeMany
      simp only [hall, ↓reduceIte]
      rw [foldl_erase_eq_filter _ _ hd]
      exact rest_eq s.pol.p idx vals
    have hadd : (addMany none (s.pol.p.filter (fun r => !Spec.matchesFilter idx vals r)) news) =
        (news.foldl (fun acc r => (Spec.add acc r).1) (s.pol.p.filter (fun r => !Spec.matchesFilter idx vals r)), true) := by
      unfold addMany
      have hno : news.any (has (s.pol.p.filter (fun r => !Spec.matchesFilter idx vals r))) = false := by
        rw [← rest_eq]
        simp only [List.any_eq_false] at hcol ⊢
        intro r hrn hcc
        exact hcol r hrn (by simpa [has] using hcc)
      simp only [hno, Bool.false_eq_true, ↓reduceIte, foldl_add_eq]
    have hstore : Policy.getFiltered s.store.p idx vals = .ok (s.pol.p.filter (Spec.matchesFilter idx vals)) := by
      rw [hm, hg]; rfl
    have hstep : updateFilteredStep cfg s news idx vals =
        (if cfg.hasWatcher && s.autoNotify then
          { s with alog := s.alog ++ [ACall.updateFiltered news idx vals],
                   store := applyACall s.store s.pol (ACall.updateFiltered news idx vals),
                   pol := s.pol.set .p (news.foldl (fun acc r => (Spec.add acc r).1) (s.pol.p.filter (fun r => !Spec.matchesFilter idx vals r))),
                   wlog := s.wlog ++ [.update],
                   ev := s.ev ++ [.adapter (ACall.updateFiltered news idx vals)] ++ [.watcher .update] }
         else
          { s with alog := s.alog ++ [ACall.updateFiltered news idx vals],
                   store := applyACall s.store s.pol (ACall.updateFiltered news idx vals),
                   pol := s.pol.set .p (news.foldl (fun acc r => (Spec.add acc r).1) (s.pol.p.filter (fun r => !Spec.matchesFilter idx vals r))),
                   ev := s.ev ++ [.adapter (ACall.updateFiltered news idx vals)] },
         .ok (.bool true)) := by
      unfold updateFilteredStep
      rw [hg]
      simp only [Spec.getFiltered, hc, Bool.false_eq_true, ↓reduceIte, had, hsave, Bool.and_self, hstore]
      simp only [updateFilteredWith, hold, Bool.false_eq_true, ↓reduceIte, hrem, hadd, hnews, h1, Bool.not_false, Bool.and_self, Bool.not_true]
      split <;> rfl
    rw [hstep]
    refine ⟨?_, fun h => by simp at h, Or.inl rfl⟩
    unfold Mirror
    split <;> simp [applyACall, Pol.set, Pol.get, hm]

def exCfg : Cfg := { gCount := 2, g2Count := 0, hasAdapter := true, hasWatcher := false, watcherEx := false, watcherUpd := false }
def exSt : St :=
  { pol := { p := [["a", "1"], ["a", "2"], ["b", "1"]] }, store := { p := [["a", "1"], ["a", "2"], ["b", "1"]] } }

/-- the three situations of the former finding F16 are now refused without a trace; an update that applies goes
    through to memory and store alike -/
example :
    updateFilteredStep exCfg exSt [["b", "1"], ["c", "1"]] 0 ["a"] = (exSt, .ok (.bool false)) ∧
    updateFilteredStep exCfg exSt [["c", "1"]] 0 ["z"] = (exSt, .ok (.bool false)) ∧
    updateFilteredStep exCfg exSt [] 0 ["a"] = (exSt, .ok (.bool false)) ∧
    (updateFilteredStep exCfg exSt [["c", "1"], ["a", "1"]] 0 ["a"]).1.store.p = [["b", "1"], ["c", "1"], ["a", "1"]] ∧
    (updateFilteredStep exCfg exSt [["c", "1"], ["a", "1"]] 0 ["a"]).1.pol.p = [["b", "1"], ["c", "1"], ["a", "1"]] ∧
    (updateFilteredStep exCfg exSt [["c", "1"], ["a", "1"]] 0 ["a"]).2 = .ok (.bool true) := by decide

end Casbin.Enf.UpdFiltered
