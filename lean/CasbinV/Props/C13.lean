import CasbinV.Model.Builtin
import CasbinV.Spec.Builtin
import CasbinV.Gen.FunctionTable
/-!
# C13 — built-in matching functions implement their documented pattern languages

Subjects: the definitions of `Model/Builtin.lean` (tied to `casbin/util/builtin_operators.py` by the differential
run of `tools/harness/props/c13.py`) and the table regenerated from `casbin/model/function.py` + the `*_func`
wrappers by translator T4 (`Gen/FunctionTable.lean`). Specifications: `Spec/Builtin.lean`.

Property theorems (everything else in this file is a helper lemma or a non-vacuity `example`):

* T4: `function_table`, `function_names_nodup`
* keyMatch / keyGet: `keyMatch_spec`, `keyGet_spec` (+ `keyMatch_eq_spec`, `keyGet_eq_spec`: the driver's spec column)
* glob (ALL patterns and strings, matcher as repaired by F09): `rangeMatch_spec`, `glob_spec`, `glob_denotes`
  (`den_iff`: the executable denotation is the declarative one)
* keyMatch2 / 3 / 5 (documented-form patterns, EVERY key): `keyMatch2_spec`, `keyMatch3_spec`,
  `keyMatch5_spec`, `dropQuery_spec`, `denK_iff`; through `compile_tokVar` (rewrite ∘ parse, generic in the variable
  syntax: `varSyntax_colon`, `varSyntax_braceLazy`, `varSyntax_braceGreedy`) and `matchNodes_denK`
* binding (variables end at '/' or the end, `*` last): `keyMatch4_binding`, `keyGet2_binding`, `keyGet3_binding`,
  `keyGet2_star`, `bindCheck_spec`, `pickGroup_spec`; through `matchNodes_caps` (unique match, greedy and lazy) and
  `names_repl`; declaratively `capsOf_iff`, `keyMatch4_declarative`, `keyMatch4_total`, `keyGet2_declarative`, `keyGet3_declarative`; `keyMatch4_eq_spec`, `keyGet2_eq_spec`, `keyGet3_eq_spec`: the driver's spec column
* ipMatch (IPv4 and IPv6, all four family combinations): `ipMatch_eq_spec` (the driver's spec column), `ipMatch_cidr`,
  `ipMatch_addr`, `ipMatch_v4`, `ipMatch_v4_addr`, `ipMatch_v6`, `ipMatch_v6_addr`, `ipMatch_mixed`,
  `ipMatch_raises_iff`, `ipMatch_bad_address`, `ipMatch_bad_pattern`, `ipMatch_total`; `maskTo_eq`, `sameBlock_shift`,
  `sameBlock_iff_interval`, `sameBlock_full`, `sameBlock_zero`; IPv6 texts: `parseV4_parseV6_disjoint`, `parseV6_lt`,
  `parseV6_full`, `parseV6_compressed`, `parseV6_compressed_eq_full`, `parseV6_full_congr`, `parseV6_upper`,
  `parseV6_mapped`, `parseV6_zone`, `parseV6_zone_empty`, `parseV6_zone_twice`, `parseHextet_toUpper`,
  `parseHextet_toLower`, `parseHextet_zero_cons`, `parseHextet_five`, `parseHextet_lt`

* all of the regex-family theorems hold for EVERY key, line feeds included (after `fix: … anchor the pattern with \Z`,
  F21-NLa, and `fix: … let '*' match line feeds`, F21-NLb: the regex is compiled with `(?s)`); `keyMatch2_sound`,
  `keyMatch3_sound`, `keyMatch5_sound` are corollaries (never raises, never `True` outside the denotation)

Hypotheses that are NOT removable: the documented-form predicates (`docTok2`/`tok3`/`tok5 = some _`, `detForm`):
outside them `re`'s own semantics applies (F21: `keyMatch3 k "*"` raises; `{x}/*{x}`), see the `example`s next to the
theorems.
-/
set_option linter.unusedSimpArgs false
namespace Casbin.C13
open Casbin.Builtin Casbin.Builtin.Spec

/-! ## T4: every matcher-visible name reaches the right function with the arguments in order -/

def resolve (name : String) : Option (String × List Nat) :=
  (Gen.functionMap.lookup name).bind fun w =>
    match Gen.wrappers.lookup w with
    | some (.call callee pos) => some (callee, pos)
    | _ => none

/-- matcher-visible name ↦ the function of `builtin_operators.py` it must reach, called as `f(args[0], args[1])` -/
def expectedFunctions : List (String × String) := [
  ("keyMatch", "key_match"), ("keyMatch2", "key_match2"), ("keyMatch3", "key_match3"),
  ("keyMatch4", "key_match4"), ("keyMatch5", "key_match5"), ("regexMatch", "regex_match"),
  ("ipMatch", "ip_match"), ("globMatch", "glob_match")]

theorem function_table :
    ∀ e ∈ expectedFunctions, resolve e.1 = some (e.2, [0, 1]) := by
  decide

/-- no matcher-visible name is registered twice (a later registration would silently replace the earlier one) -/
theorem function_names_nodup : (Gen.functionMap.map (·.1)).Nodup := by
  decide

example : resolve "globMatch" = some ("glob_match", [0, 1]) := by decide

/-! ## keyMatch / keyGet : `*` = any remainder -/

theorem findIdx_none (c : Char) (p : Str) : findIdx c p = none ↔ c ∉ p := by
  induction p with
  | nil => simp [findIdx]
  | cons x s ih =>
    simp only [findIdx]
    split
    · simp_all
    · rename_i h
      have hx : ¬ c = x := fun e => h e.symm
      simp [ih, hx]

/-- `find` returns the length of the text before the first occurrence -/
theorem findIdx_some (c : Char) (p : Str) (i : Nat) (h : findIdx c p = some i) :
    ∃ pre post, p = pre ++ c :: post ∧ c ∉ pre ∧ pre.length = i := by
  induction p generalizing i with
  | nil => simp [findIdx] at h
  | cons x s ih =>
    simp only [findIdx] at h
    split at h
    · rename_i hx; subst hx
      simp at h; subst h
      exact ⟨[], s, rfl, by simp, rfl⟩
    · rename_i hx
      simp only [Option.map_eq_some_iff] at h
      obtain ⟨j, hj, rfl⟩ := h
      obtain ⟨pre, post, rfl, hn, hl⟩ := ih j hj
      refine ⟨x :: pre, post, rfl, ?_, by simp [hl]⟩
      simp only [List.mem_cons, not_or]
      exact ⟨fun e => hx e.symm, hn⟩

theorem findIdx_append (c : Char) (pre post : Str) (h : c ∉ pre) :
    findIdx c (pre ++ c :: post) = some pre.length := by
  induction pre with
  | nil => simp [findIdx]
  | cons x s ih =>
    simp only [List.mem_cons, not_or] at h
    have hx : ¬ x = c := fun e => h.1 e.symm
    simp [findIdx, hx, ih h.2]

/-- **keyMatch**: without `*` the pattern denotes itself; otherwise it denotes every key that starts with the text
    before the first `*` ("any remainder", the remainder may be empty). -/
theorem keyMatch_spec (k p : Str) :
    keyMatch k p = true ↔
      ('*' ∉ p ∧ k = p) ∨ (∃ pre post, p = pre ++ '*' :: post ∧ '*' ∉ pre ∧ pre <+: k) := by
  unfold keyMatch
  split
  · rename_i h
    have hn := (findIdx_none _ _).1 h
    constructor
    · intro e; exact Or.inl ⟨hn, by simpa using e⟩
    · rintro (⟨_, rfl⟩ | ⟨pre, post, rfl, _, _⟩)
      · simp
      · simp at hn
  · rename_i i h
    obtain ⟨pre, post, rfl, hn, rfl⟩ := findIdx_some _ _ _ h
    have hstar : '*' ∈ pre ++ '*' :: post := by simp
    have htake : (pre ++ '*' :: post).take pre.length = pre := by simp
    constructor
    · intro e
      refine Or.inr ⟨pre, post, rfl, hn, ?_⟩
      split at e
      · rw [htake] at e
        have e' : k.take pre.length = pre := by simpa using e
        have hk := List.take_append_drop pre.length k
        rw [e'] at hk
        exact ⟨k.drop pre.length, hk⟩
      · rw [htake] at e
        have e' : k = pre := by simpa using e
        subst e'; exact List.prefix_refl _
    · rintro (⟨hc, _⟩ | ⟨pre', post', he, hn', hp⟩)
      · exact absurd hstar hc
      · have hpre : pre' = pre := by
          have h1 := findIdx_append '*' pre post hn
          have h2 := findIdx_append '*' pre' post' hn'
          rw [he] at h1; rw [h2] at h1
          have hl : pre'.length = pre.length := by simpa using h1
          have := congrArg (List.take pre.length) he
          rw [htake] at this
          rw [this, ← hl]; simp
        subst hpre
        obtain ⟨r, rfl⟩ := hp
        rw [htake]
        by_cases hr : r = []
        · subst hr; simp
        · have hlen : 0 < r.length := List.length_pos_iff.2 hr
          simp [hlen]

/-- **keyGet** returns exactly the remainder bound by the `*` (the empty text when the key does not match) -/
theorem keyGet_spec (k p : Str) :
    (∀ pre post rest, p = pre ++ '*' :: post → '*' ∉ pre → k = pre ++ rest → keyGet k p = rest) ∧
    ((¬ ∃ pre post, p = pre ++ '*' :: post ∧ '*' ∉ pre ∧ pre <+: k) → keyGet k p = []) := by
  constructor
  · rintro pre post rest rfl hn rfl
    unfold keyGet
    rw [findIdx_append _ _ _ hn]
    by_cases hr : rest = []
    · subst hr; simp
    · have hlen : 0 < rest.length := List.length_pos_iff.2 hr
      simp [hlen]
  · intro hno
    unfold keyGet
    split
    · rfl
    · rename_i i h
      obtain ⟨pre, post, rfl, hn, rfl⟩ := findIdx_some _ _ _ h
      split
      · split
        · rename_i _ e
          exfalso; apply hno
          refine ⟨pre, post, rfl, hn, ?_⟩
          have e' : k.take pre.length = pre := by simpa using e
          have hk := List.take_append_drop pre.length k
          rw [e'] at hk
          exact ⟨k.drop pre.length, hk⟩
        · rfl
      · rfl

/-- the executable specification used by the driver's `spec=` column is the same function -/
theorem beforeStar_spec (p : Str) :
    findIdx '*' p = (if p.contains '*' then some (beforeStar p).length else none) ∧
    (p.contains '*' = true → p.take (beforeStar p).length = beforeStar p) := by
  induction p with
  | nil => simp [findIdx, beforeStar]
  | cons x s ih =>
    by_cases hx : x = '*'
    · subst hx; simp [findIdx, beforeStar]
    · have hx' : ¬ '*' = x := fun e => hx e.symm
      obtain ⟨ih1, ih2⟩ := ih
      simp only [findIdx, beforeStar, hx, if_false, ih1, List.contains_cons]
      have hb : (('*' : Char) == x) = false := by simp [hx']
      simp only [hb, Bool.false_or]
      constructor
      · split <;> simp
      · intro h; simp [ih2 h]

theorem isPrefixOf_take (pre k : Str) :
    pre.isPrefixOf k = (if k.length > pre.length then k.take pre.length == pre else k == pre) := by
  induction pre generalizing k with
  | nil => cases k <;> simp
  | cons a pre ih =>
    cases k with
    | nil => simp
    | cons b k =>
      simp only [List.isPrefixOf_cons_cons, ih, List.length_cons, List.take_succ_cons]
      by_cases hab : a = b
      · subst hab
        by_cases hl : k.length > pre.length
        · have : k.length + 1 > pre.length + 1 := by omega
          simp [hl, this]
        · have : ¬ k.length + 1 > pre.length + 1 := by omega
          simp [hl, this]
      · have hba : ¬ b = a := fun e => hab e.symm
        have h1 : (a == b) = false := by simp [hab]
        have h2 : (b == a) = false := by simp [hba]
        simp [h1, h2]

theorem keyMatch_eq_spec (k p : Str) : keyMatch k p = keyMatchSpec k p := by
  obtain ⟨h1, h2⟩ := beforeStar_spec p
  unfold keyMatch keyMatchSpec
  rw [h1]
  by_cases hc : p.contains '*' = true
  · simp only [hc, if_true, h2 hc, isPrefixOf_take]
  · have hm : '*' ∉ p := by simpa using hc
    simp [hm]

theorem keyGet_eq_spec (k p : Str) : keyGet k p = keyGetSpec k p := by
  obtain ⟨h1, h2⟩ := beforeStar_spec p
  unfold keyGet keyGetSpec
  rw [h1]
  by_cases hc : p.contains '*' = true
  · simp only [hc, if_true, h2 hc, isPrefixOf_take, Bool.true_and]
    by_cases hl : k.length > (beforeStar p).length
    · simp [hl]
    · simp only [hl, if_false]
      by_cases he : k = beforeStar p
      · subst he; simp
      · simp [he]
  · have hm : '*' ∉ p := by simpa using hc
    simp [hm]

example : keyGet "/foo/bar/foo".toList "/foo/*".toList = "bar/foo".toList := by decide
example : keyMatch "/foo/bar".toList "/foo/*".toList = true := by decide
example : keyMatch "/foo".toList "/foo/*".toList = false := by decide

/-! ## rangeMatch: a class is parsed independently of the tested character, then tested -/

theorem char_eq_range (c t : Char) : (c == t) = (decide (c ≤ t) && decide (t ≤ c)) := by
  by_cases h : c = t
  · subst h; simp
  · have : ¬ (c ≤ t ∧ t ≤ c) := fun ⟨h1, h2⟩ => h (Char.le_antisymm h1 h2)
    have hb : (c == t) = false := by simp [h]
    rw [hb]
    by_cases h1 : c ≤ t
    · have h2 : ¬ t ≤ c := fun h2 => this ⟨h1, h2⟩
      simp [h2]
    · simp [h1]

theorem inItems_cons (t a b : Char) (its : List Item) :
    inItems t ((a, b) :: its) = ((decide (a ≤ t) && decide (t ≤ b)) || inItems t its) := by
  simp [inItems]

theorem rangeStep_items (t : Char) (k : Str → Bool → Option (Bool × Str)) (k' : Str → Option (List Item × Str))
    (hk : ∀ q o, k q o = (k' q).map (fun r => (o || inItems t r.1, r.2))) (ok : Bool) (c : Char) (p : Str) :
    rangeStep t k ok c p = (itemStep k' c p).map (fun r => (ok || inItems t r.1, r.2)) := by
  unfold rangeStep itemStep
  rcases p with _ | ⟨d, _ | ⟨c2, p2⟩⟩
  · simp [hk, Option.map_map, Function.comp_def, inItems_cons, char_eq_range, Bool.or_assoc]
  · simp [hk, Option.map_map, Function.comp_def, inItems_cons, char_eq_range, Bool.or_assoc]
  · simp only []
    split
    · split
      · simp [hk, Option.map_map, Function.comp_def, inItems_cons, char_eq_range, Bool.or_assoc]
      · split
        · rcases p2 with _ | ⟨c2', p3⟩
          · simp
          · simp [hk, Option.map_map, Function.comp_def, inItems_cons, Bool.or_assoc]
        · simp [hk, Option.map_map, Function.comp_def, inItems_cons, Bool.or_assoc]
    · simp [hk, Option.map_map, Function.comp_def, inItems_cons, char_eq_range, Bool.or_assoc]

theorem rangeLoop_items (t : Char) (fuel : Nat) (p : Str) (ok : Bool) :
    rangeLoop t fuel p ok = (classItems fuel p).map (fun r => (ok || inItems t r.1, r.2)) := by
  induction fuel generalizing p ok with
  | zero => simp [rangeLoop, classItems]
  | succ fuel ih =>
    cases p with
    | nil => simp [rangeLoop, classItems, inItems]
    | cons c p =>
      simp only [rangeLoop, classItems]
      split
      · simp [inItems]
      · split
        · rcases p with _ | ⟨c', p'⟩
          · simp
          · exact rangeStep_items t _ _ ih ok c' p'
        · exact rangeStep_items t _ _ ih ok c p

/-- **rangeMatch** = parse the class (`parseClass`, independent of the tested character), then test membership
    (xor negation); `none` is Python's `-1`, `some rest` the new pattern position. -/
theorem rangeMatch_spec (p : Str) (t : Char) :
    rangeMatch p t =
      (parseClass p).bind (fun r => if inItems t r.2.1 != r.1 then some r.2.2 else none) := by
  cases p with
  | nil => simp [rangeMatch, parseClass]
  | cons c p' =>
    simp only [rangeMatch, parseClass, rangeLoop_items]
    cases h : classItems ((if (c == '!' || c == '^') = true then p' else c :: p').length + 1)
        (if (c == '!' || c == '^') = true then p' else c :: p') with
    | none => simp
    | some r =>
      obtain ⟨its, rest⟩ := r
      simp only [Option.map_some, Option.bind_some, Bool.false_or]
      cases inItems t its <;> cases (c == '!' || c == '^') <;> simp

example : rangeMatch "a-c]x".toList 'b' = some ['x'] := by decide
example : rangeMatch "!a-c]x".toList 'b' = none := by decide

/-! ## glob: the (repaired) matcher equals the pathname-glob denotation, for ALL patterns and strings -/

theorem den_star (ts : List GTok) (s : Str) :
    den (.star :: ts) s =
      (den ts s || (match s with | [] => false | x :: s' => x != '/' && den (.star :: ts) s')) := by
  cases s <;> simp [den]

theorem den_star_cons (ts : List GTok) (c : Char) (s : Str) :
    den (.star :: ts) (c :: s) = (den ts (c :: s) || (c != '/' && den (.star :: ts) s)) := by
  rw [den_star]

theorem den_star_nil' (ts : List GTok) : den (.star :: ts) [] = den ts [] := by
  rw [den_star]; simp

theorem den_star_star (ts : List GTok) (s : Str) : den (.star :: .star :: ts) s = den (.star :: ts) s := by
  induction s with
  | nil => rw [den_star_nil']
  | cons c s ih =>
    rw [den_star_cons (.star :: ts), ih, den_star_cons ts]
    cases den ts (c :: s) <;> simp

theorem den_star_nil (s : Str) : den [.star] s = noSlash s := by
  induction s with
  | nil => simp [den, noSlash]
  | cons c s ih => rw [den_star_cons]; simp [den, noSlash, ih]

theorem den_star_slash (ts : List GTok) (s : Str) :
    den (.star :: .lit '/' :: ts) s =
      (match afterSlash s with | none => false | some s' => den ts s') := by
  induction s with
  | nil => simp [den, afterSlash]
  | cons c s ih =>
    rw [den_star_cons]
    by_cases hc : c = '/'
    · subst hc; simp [afterSlash, den]
    · have h1 : (c == '/') = false := by simp [hc]
      have h2 : (c != '/') = true := by simp [hc]
      simp [afterSlash, hc, ih, den, h1, h2]

theorem starLoop_den (ts : List GTok) (s : Str) (h : den ts [] = false) :
    starLoop (den ts) s = den (.star :: ts) s := by
  induction s with
  | nil => simp [starLoop, den_star_nil', h]
  | cons c s ih => rw [den_star_cons]; simp [starLoop, ih]

theorem tokenize_star (p : Str) : tokenize ('*' :: p) = .star :: tokenize p := by
  rw [tokenize]

theorem den_tokenize_stars (p : Str) (s : Str) :
    den (.star :: tokenize p) s = den (.star :: tokenize (dropStars p)) s := by
  fun_induction dropStars p with
  | case1 p ih => rw [tokenize_star, den_star_star, ih]
  | case2 p h => rfl

theorem dropStars_head (p : Str) (q : Str) : dropStars p ≠ '*' :: q := by
  fun_induction dropStars p with
  | case1 p ih => exact ih
  | case2 p h => intro e; exact h q e

theorem tokenize_lit (c : Char) (p : Str) (h1 : c ≠ '?') (h2 : c ≠ '*') (h3 : c ≠ '\\') (h4 : c ≠ '[') :
    tokenize (c :: p) = .lit c :: tokenize p := by
  rw [tokenize.eq_def]
  split <;> simp_all

theorem den_head_needs_char (c : Char) (q : Str) (hc : c ≠ '*') : den (tokenize (c :: q)) [] = false := by
  rw [tokenize.eq_def]
  split <;> simp_all [den]
  split <;> simp [den]

theorem tokenize_class (p : Str) :
    tokenize ('[' :: p) =
      (match parseClass p with
       | none => [.bad]
       | some (neg, items, rest) => .cls neg items :: tokenize rest) := by
  rw [tokenize]
  split <;> simp_all

theorem den_class (p' : Str) (x : Char) (s : Str) (hx : ¬ x = '/') :
    den (tokenize ('[' :: p')) (x :: s) =
      (match rangeMatch p' x with | none => false | some rest => den (tokenize rest) s) := by
  rw [tokenize_class, rangeMatch_spec]
  cases h : parseClass p' with
  | none => simp [den]
  | some r =>
    obtain ⟨neg, its, rest⟩ := r
    have h2 : (x != '/') = true := by simp [hx]
    simp only [Option.bind_some, den, h2, Bool.true_and]
    cases hb : (inItems x its != neg) <;> simp [hb]

/-- **glob** (as repaired by `fix: glob_match …`): the matcher answers exactly the denotation of the tokenised
    pattern, in which `*`, `?` and `[...]` never match '/'. No hypothesis on the pattern or the string. -/
theorem glob_spec (p s : Str) : glob p s = den (tokenize p) s := by
  fun_induction glob p s with
  | case1 s => simp [tokenize, den]
  | case2 p' => simp [tokenize, den]
  | case3 p' c s ih => simp [tokenize, den, ih]
  | case4 s p' h =>
    rw [tokenize_star, den_tokenize_stars, h]; simp [tokenize, den_star_nil]
  | case5 s p' q h hs =>
    rw [tokenize_star, den_tokenize_stars, h,
      tokenize_lit _ _ (by decide) (by decide) (by decide) (by decide), den_star_slash, hs]
  | case6 s p' q h s' hs ih =>
    rw [tokenize_star, den_tokenize_stars, h,
      tokenize_lit _ _ (by decide) (by decide) (by decide) (by decide), den_star_slash, hs, ih]
  | case7 s p' c q hc h ih =>
    have hstar : c ≠ '*' := by intro e; subst e; exact dropStars_head p' q h
    rw [tokenize_star, den_tokenize_stars, h]
    rw [show (fun s'' => glob (c :: q) s'') = den (tokenize (c :: q)) from funext ih]
    exact starLoop_den _ _ (den_head_needs_char c q hstar)
  | case8 p' => rw [tokenize_class]; split <;> simp [den]
  | case9 p' s => rw [tokenize_class]; split <;> simp [den]
  | case10 p' x s hx h => rw [den_class _ _ _ hx, h]
  | case11 p' x s hx rest h ih => rw [den_class _ _ _ hx, h, ih]
  | case12 => simp [tokenize, den]
  | case13 c s ih => simp [tokenize, den, ih]
  | case14 e p' => simp [tokenize, den]
  | case15 e p' c s ih => simp [tokenize, den, ih]
  | case16 c p' h1 h2 h3 h4 h5 =>
    have h6 : c ≠ '\\' := by
      intro e; cases p' with
      | nil => exact h4 e rfl
      | cons a b => exact h5 a b e rfl
    rw [tokenize_lit c p' (fun e => h1 e) (fun e => h2 e) h6 (fun e => h3 e)]; simp [den]
  | case17 c p' h1 h2 h3 h4 h5 x s ih =>
    have h6 : c ≠ '\\' := by
      intro e; cases p' with
      | nil => exact h4 e rfl
      | cons a b => exact h5 a b e rfl
    rw [tokenize_lit c p' (fun e => h1 e) (fun e => h2 e) h6 (fun e => h3 e)]; simp [den, ih]

/-- the documented reading of a well-formed pattern -/
example : tokenize "*.t[a-c!]?".toList = [.star, .lit '.', .lit 't', .cls false [('a', 'c'), ('!', '!')], .any1] := by
  simp [tokenize, parseClass, classItems, itemStep]
/-- F09 witnesses: the repaired matcher rejects them -/
example : glob "*a".toList "bb".toList = false := by
  rw [glob_spec]; simp [tokenize, den]

/-! ## The regex family, part 1: the backtracking matcher decides the denotation -/

/-- some split `s = w ++ s'` with every character of `w` satisfying `ok` (and `w ≠ []` unless `canStop`)
    has `k s'` -/
def runB (ok : Char → Bool) (k : Str → Bool) : Bool → Str → Bool
  | canStop, [] => canStop && k []
  | canStop, c :: s => (ok c && runB ok k true s) || (canStop && k (c :: s))

theorem repG_isSome {α : Type} (ok : Char → Bool) (k : Str → Option α) (cs : Bool) (s : Str) :
    (repG ok k cs s).isSome = runB ok (fun x => (k x).isSome) cs s := by
  induction s generalizing cs with
  | nil => cases cs <;> simp [repG, runB]
  | cons c s ih =>
    simp only [repG, runB]
    cases hok : ok c
    · cases cs <;> simp
    · rw [← ih true]
      cases hr : repG ok k true s with
      | none => cases cs <;> simp
      | some x => simp

theorem repL_isSome {α : Type} (ok : Char → Bool) (k : Str → Option α) (cs : Bool) (s : Str) :
    (repL ok k cs s).isSome = runB ok (fun x => (k x).isSome) cs s := by
  induction s generalizing cs with
  | nil => cases cs <;> simp [repL, runB]
  | cons c s ih =>
    simp only [repL, runB]
    rw [← ih true]
    cases cs
    · cases hok : ok c <;> simp
    · cases hk : k (c :: s) with
      | none => cases hok : ok c <;> simp
      | some x => simp

theorem runB_congr (ok : Char → Bool) (k k' : Str → Bool) (cs : Bool) (s : Str)
    (h : ∀ x, k x = k' x) : runB ok k cs s = runB ok k' cs s := by
  have : k = k' := funext h
  rw [this]

theorem runB_dot (k : Str → Bool) (s : Str) :
    runB Atom.dot.ok k true s = anySuffix k s := by
  induction s with
  | nil => simp [runB, anySuffix]
  | cons c s ih => simp [runB, anySuffix, Atom.ok, ih, Bool.or_comm]

theorem runB_notSlash (k : Str → Bool) (s : Str) :
    runB Atom.notSlash.ok k true s = anyRun k s := by
  induction s with
  | nil => simp [runB, anyRun]
  | cons c s ih => simp [runB, anyRun, Atom.ok, ih, Bool.or_comm]

/-- the regex node of a pattern token; `vn` = the node a variable is rewritten to -/
def nodeOfV (vn : Node) : KTok → Node
  | .lit c => { atom := .chr c, q := .one, cap := false }
  | .star => { atom := .dot, q := .star, cap := false }
  | .var => vn

/-- `[^/]+` without a capture (keyMatch2/3/5) -/
def vnPlain : Node := { atom := .notSlash, q := .plus, cap := false }


theorem atEnd_eq (s : Str) : atEnd s = s.isEmpty := rfl

/-- the matcher on the nodes of a documented-form pattern succeeds exactly on the denoted keys — EVERY key, line
    feeds included (`.` is compiled with `(?s)`) -/
theorem matchNodes_denK (ts : List KTok) (s : Str) :
    (matchNodes (ts.map (nodeOfV vnPlain)) s).isSome = denK ts s := by
  induction ts generalizing s with
  | nil =>
    simp only [List.map_nil, matchNodes, denK, ← atEnd_eq s]
    cases atEnd s <;> simp
  | cons t ts ih =>
    cases t with
    | lit c =>
      cases s with
      | nil => simp [matchNodes, denK, nodeOfV]
      | cons x s' =>
        simp only [List.map_cons, matchNodes, nodeOfV, denK, Atom.ok]
        rw [← ih s']
        by_cases hx : x = c
        · subst hx; simp
        · have : (x == c) = false := by simp [hx]
          simp [this]
    | star =>
      simp only [List.map_cons, matchNodes, nodeOfV, denK, Option.isSome_map, repG_isSome]
      rw [runB_congr _ _ (denK ts) true s (fun x => ih x), runB_dot]
    | var =>
      have e1 : vnPlain.q = .plus := rfl
      have e2 : vnPlain.atom = .notSlash := rfl
      simp only [List.map_cons, matchNodes, nodeOfV, e1, e2, denK, Option.isSome_map, repG_isSome]
      cases s with
      | nil => simp [runB]
      | cons x s' =>
        simp only [runB, Bool.false_and, Bool.or_false]
        rw [runB_congr _ _ (denK ts) true s' (fun x => ih x), runB_notSlash]
        simp [Atom.ok]

/-! ## The regex family, part 2: the rewrite of a documented-form pattern parses to the pattern's nodes -/

/-- the next regex character does not turn the preceding atom into something else (quantifier, `{m,n}`) -/
def headOK : Str → Bool
  | [] => true
  | h :: _ => !isQuantChar h && h != '{'

theorem replSlashStar_ne (c : Char) (s : Str) (h : c ≠ '/') : replSlashStar (c :: s) = c :: replSlashStar s := by
  rw [replSlashStar.eq_def]
  split
  · rename_i heq; simp at heq; exact absurd heq.1 h
  · rename_i heq; simp at heq; obtain ⟨rfl, rfl⟩ := heq; rfl
  · rename_i heq; simp at heq

theorem replSlashStar_slash (s : Str) (h : ∀ r, s ≠ '*' :: r) :
    replSlashStar ('/' :: s) = '/' :: replSlashStar s := by
  rw [replSlashStar.eq_def]
  split
  · rename_i heq; simp at heq; exact absurd heq (h _)
  · rename_i heq; simp at heq; obtain ⟨rfl, rfl⟩ := heq; rfl
  · rename_i heq; simp at heq

theorem takeSeg_repl (x : Str) : takeSeg (replSlashStar x) = takeSeg x := by
  fun_induction replSlashStar x with
  | case1 r ih => simp [takeSeg]
  | case2 c r h ih => simp [takeSeg, ih]
  | case3 => rfl

theorem takeSeg_cons_repl (c : Char) (s : Str) : takeSeg (c :: replSlashStar s) = takeSeg (c :: s) := by
  simp [takeSeg, takeSeg_repl]

/-- what the generic proof needs to know about a variable syntax (`:[^/]+`, `{[^/]+?}`, `{[^/]+}`) -/
structure VarSyntax (varLen : Str → Option Nat) : Prop where
  /-- a variable lies inside one segment -/
  inSeg : ∀ x m, varLen x = some m → noSlash (x.take m) = true
  /-- whether (and how long) a variable starts here depends only on the text up to the next '/' -/
  seg : ∀ x, varLen (takeSeg x) = varLen x
  /-- a variable does not start with `.` or `*` -/
  head : ∀ c s n, varLen (c :: s) = some (n + 1) → c ≠ '.' ∧ c ≠ '*'

theorem VarSyntax.seg2 {varLen : Str → Option Nat} (V : VarSyntax varLen) (x y : Str)
    (h : takeSeg x = takeSeg y) : varLen x = varLen y := by
  rw [← V.seg x, ← V.seg y, h]

theorem parseRe_step (fuel : Nat) (c : Char) (r : Str) (n : Node) (rest : Str)
    (h : parseItem (c :: r) = .ok n rest) :
    parseRe (fuel + 1) (c :: r) = (parseRe fuel rest).map (fun ns => n :: ns) := by
  simp [parseRe, h]

theorem isMeta_false (c : Char) (h : isMeta c = false) :
    c ≠ '.' ∧ c ≠ '^' ∧ c ≠ '$' ∧ c ≠ '*' ∧ c ≠ '+' ∧ c ≠ '?' ∧ c ≠ '{' ∧ c ≠ '}' ∧ c ≠ '[' ∧ c ≠ ']' ∧
    c ≠ '\\' ∧ c ≠ '|' ∧ c ≠ '(' ∧ c ≠ ')' := by
  simp [isMeta] at h
  simp [h]

theorem headOK_cons (h : Char) (Y : Str) (hY : headOK (h :: Y) = true) :
    h ≠ '*' ∧ h ≠ '+' ∧ h ≠ '?' ∧ h ≠ '{' := by
  simp [headOK, isQuantChar] at hY
  simp [hY]

theorem braceQuant_headOK (Y : Str) (hY : headOK Y = true) : braceQuant Y = false := by
  rcases Y with _ | ⟨h, _ | ⟨d, Y⟩⟩
  · rfl
  · rfl
  · obtain ⟨_, _, _, h4⟩ := headOK_cons h _ hY
    simp [braceQuant, h4]

theorem parseQuant_one (Y : Str) (hY : headOK Y = true) : parseQuant Y = .ok .one Y := by
  cases Y with
  | nil => rfl
  | cons h Y =>
    obtain ⟨h1, h2, h3, h4⟩ := headOK_cons h Y hY
    simp [parseQuant, h1, h2, h3, braceQuant_headOK _ hY]

theorem parseQuant_star (Y : Str) (hY : headOK Y = true) : parseQuant ('*' :: Y) = .ok .star Y := by
  cases Y with
  | nil => rfl
  | cons h Y =>
    obtain ⟨h1, h2, h3, h4⟩ := headOK_cons h Y hY
    simp [parseQuant, h1, h2, h3, braceQuant_headOK _ hY]

theorem parseQuant_plus (Y : Str) (hY : headOK Y = true) : parseQuant ('+' :: Y) = .ok .plus Y := by
  cases Y with
  | nil => rfl
  | cons h Y =>
    obtain ⟨h1, h2, h3, h4⟩ := headOK_cons h Y hY
    simp [parseQuant, h1, h2, h3, braceQuant_headOK _ hY]

theorem parseItem_lit (c : Char) (Y : Str) (hc : isMeta c = false) (hY : headOK Y = true) :
    parseItem (c :: Y) = .ok { atom := .chr c, q := .one, cap := false } Y := by
  obtain ⟨m1, m2, m3, m4, m5, m6, m7, m8, m9, m10, m11, m12, m13, m14⟩ := isMeta_false c hc
  have ha : parseAtom (c :: Y) = .ok (.chr c) Y := by
    simp [parseAtom, m1, m4, m5, m6, m7, m8, m9, hc]
  simp [parseItem, m13, ha, parseQuant_one Y hY]

theorem parseItem_dotstar (Y : Str) (hY : headOK Y = true) :
    parseItem ('.' :: '*' :: Y) = .ok { atom := .dot, q := .star, cap := false } Y := by
  have ha : parseAtom ('.' :: '*' :: Y) = .ok .dot ('*' :: Y) := by simp [parseAtom]
  simp [parseItem, ha, parseQuant_star Y hY]

/-- `[^\/]+` -/
theorem parseItem_notSlashEsc (Y : Str) (hY : headOK Y = true) :
    parseItem (reNotSlashEsc ++ Y) = .ok { atom := .notSlash, q := .plus, cap := false } Y := by
  show parseItem ('[' :: '^' :: '\\' :: '/' :: ']' :: '+' :: Y) = _
  have ha : parseAtom ('[' :: '^' :: '\\' :: '/' :: ']' :: '+' :: Y) = .ok .notSlash ('+' :: Y) := by
    simp [parseAtom]
  simp [parseItem, ha, parseQuant_plus Y hY]

/-- `[^/]+` -/
theorem parseItem_notSlash (Y : Str) (hY : headOK Y = true) :
    parseItem (reNotSlash ++ Y) = .ok { atom := .notSlash, q := .plus, cap := false } Y := by
  show parseItem ('[' :: '^' :: '/' :: ']' :: '+' :: Y) = _
  have ha : parseAtom ('[' :: '^' :: '/' :: ']' :: '+' :: Y) = .ok .notSlash ('+' :: Y) := by
    simp [parseAtom]
  simp [parseItem, ha, parseQuant_plus Y hY]

theorem subVar_copy (varLen : Str → Option Nat) (emit : Str) (c : Char) (s : Str)
    (h : ∀ n, varLen (c :: s) ≠ some (n + 1)) :
    subVar varLen emit 0 (c :: s) = c :: subVar varLen emit 0 s := by
  rw [subVar]
  split
  · rename_i n hn; exact absurd hn (h n)
  · rfl

theorem subVar_var (varLen : Str → Option Nat) (emit : Str) (c : Char) (s : Str) (n : Nat)
    (h : varLen (c :: s) = some (n + 1)) :
    subVar varLen emit 0 (c :: s) = emit ++ subVar varLen emit n s := by
  rw [subVar]
  split
  · rename_i m hm; rw [h] at hm; simp at hm; subst hm; rfl
  · rename_i hno; exact absurd h (hno n)

theorem noSlash_take_succ (c : Char) (s : Str) (n : Nat) (h : noSlash ((c :: s).take (n + 1)) = true) :
    c ≠ '/' ∧ noSlash (s.take n) = true := by
  simp [noSlash] at h
  exact h

theorem out_map_map {α β γ : Type} (x : Out α) (f : α → β) (g : β → γ) :
    (x.map f).map g = x.map (fun a => g (f a)) := by
  cases x <;> rfl

/-- **rewrite ∘ parse** (generic in the variable syntax): for a pattern of the documented form, the text produced
    by `replace("/*", "/.*")` followed by the `re.sub` scanner parses (as a regex) to exactly the pattern's nodes. -/
theorem compile_tokVar (varLen : Str → Option Nat) (okVar : Str → Bool) (emit : Str) (vn : Node)
    (V : VarSyntax varLen)
    (hE1 : ∀ Y, headOK Y = true → parseItem (emit ++ Y) = .ok vn Y)
    (e : Char) (es : Str) (hE2 : emit = e :: es) (hE3 : headOK [e] = true)
    (n : Nat) (p : Str) :
    ∀ ts, tokVar varLen okVar n p = some ts → noSlash (p.take n) = true →
      headOK (subVar varLen emit n (replSlashStar p)) = true ∧
      ∀ fuel, (subVar varLen emit n (replSlashStar p)).length < fuel →
        parseRe fuel (subVar varLen emit n (replSlashStar p)) = .ok (ts.map (nodeOfV vn)) := by
  fun_induction tokVar varLen okVar n p with
  | case1 =>
    intro ts h _; simp at h; subst h
    refine ⟨by simp [replSlashStar, subVar, headOK], ?_⟩
    intro fuel hf
    cases fuel with
    | zero => simp [replSlashStar, subVar] at hf
    | succ f => simp [replSlashStar, subVar, parseRe]
  | case2 n => intro ts h; simp at h
  | case3 n c s ih =>
    intro ts h hns
    obtain ⟨hc, hns'⟩ := noSlash_take_succ c s n hns
    rw [replSlashStar_ne c s hc, subVar]
    exact ih ts h hns'
  | case4 r ih =>
    intro ts h _
    simp only [Option.map_eq_some_iff] at h
    obtain ⟨ts', h', rfl⟩ := h
    obtain ⟨ihH, ihP⟩ := ih ts' h' (by simp [noSlash])
    have e1 : replSlashStar ('/' :: '*' :: r) = '/' :: '.' :: '*' :: replSlashStar r := by rw [replSlashStar]
    have c1 : ∀ x n, varLen ('/' :: x) ≠ some (n + 1) := by
      intro x n hv; have := V.inSeg _ _ hv; simp [noSlash] at this
    have c2 : ∀ x n, varLen ('.' :: x) ≠ some (n + 1) := by
      intro x n hv; exact (V.head _ _ _ hv).1 rfl
    have c3 : ∀ x n, varLen ('*' :: x) ≠ some (n + 1) := by
      intro x n hv; exact (V.head _ _ _ hv).2 rfl
    rw [e1, subVar_copy _ _ _ _ (c1 _), subVar_copy _ _ _ _ (c2 _), subVar_copy _ _ _ _ (c3 _)]
    refine ⟨by simp [headOK, isQuantChar], ?_⟩
    intro fuel hf
    simp only [List.length_cons] at hf
    obtain ⟨f, rfl⟩ : ∃ f, fuel = f + 2 := ⟨fuel - 2, by omega⟩
    rw [parseRe_step _ _ _ _ _ (parseItem_lit '/' _ (by decide) (by simp [headOK, isQuantChar])),
      parseRe_step _ _ _ _ _ (parseItem_dotstar _ ihH), ihP f (by omega)]
    rfl
  | case5 c s hns n hv hok ih =>
    intro ts h _
    simp only [Option.map_eq_some_iff] at h
    obtain ⟨ts', h', rfl⟩ := h
    obtain ⟨hc, hns'⟩ := noSlash_take_succ c s n (V.inSeg _ _ hv)
    obtain ⟨ihH, ihP⟩ := ih ts' h' hns'
    have hv' : varLen (c :: replSlashStar s) = some (n + 1) := by
      rw [V.seg2 _ _ (takeSeg_cons_repl c s)]; exact hv
    rw [replSlashStar_ne c s hc, subVar_var _ _ _ _ _ hv']
    refine ⟨by subst hE2; simpa [headOK] using hE3, ?_⟩
    intro fuel hf
    have hE1' := hE1 _ ihH
    subst hE2
    simp only [List.length_append, List.length_cons] at hf
    obtain ⟨f, rfl⟩ : ∃ f, fuel = f + 1 := ⟨fuel - 1, by omega⟩
    rw [List.cons_append] at hE1' ⊢
    rw [parseRe_step _ _ _ _ _ hE1', ihP f (by omega)]
    rfl
  | case6 c s hns n hv hok => intro ts h; simp at h
  | case7 c s hns hm hv => intro ts h; simp at h
  | case8 c s hns hm hv ih =>
    intro ts h _
    have hm' : isMeta c = false := by simpa using hm
    simp only [Option.map_eq_some_iff] at h
    obtain ⟨ts', h', rfl⟩ := h
    obtain ⟨ihH, ihP⟩ := ih ts' h' (by simp [noSlash])
    have e1 : replSlashStar (c :: s) = c :: replSlashStar s := by
      by_cases hc : c = '/'
      · subst hc; exact replSlashStar_slash s (fun r hr => hns r rfl hr)
      · exact replSlashStar_ne c s hc
    have hv' : ∀ n, varLen (c :: replSlashStar s) ≠ some (n + 1) := by
      intro n hn; rw [V.seg2 _ _ (takeSeg_cons_repl c s)] at hn; exact hv n hn
    rw [e1, subVar_copy _ _ _ _ hv']
    obtain ⟨m1, m2, m3, m4, m5, m6, m7, _⟩ := isMeta_false c hm'
    refine ⟨by simp [headOK, isQuantChar, m4, m5, m6, m7], ?_⟩
    intro fuel hf
    simp only [List.length_cons] at hf
    obtain ⟨f, rfl⟩ : ∃ f, fuel = f + 1 := ⟨fuel - 1, by omega⟩
    rw [parseRe_step _ _ _ _ _ (parseItem_lit c _ hm' ihH), ihP f (by omega)]
    rfl

/-! ### the three variable syntaxes -/

theorem takeSeg_idem (s : Str) : takeSeg (takeSeg s) = takeSeg s := by
  induction s with
  | nil => rfl
  | cons c s ih => by_cases h : c = '/' <;> simp [takeSeg, h, ih]

theorem noSlash_takeSeg (s : Str) : noSlash (s.take (takeSeg s).length) = true := by
  induction s with
  | nil => rfl
  | cons c s ih => by_cases h : c = '/' <;> simp [takeSeg, h, noSlash, ih]

theorem varSyntax_colon : VarSyntax varLenColon where
  inSeg := by
    intro x m h
    rcases x with _ | ⟨c, _ | ⟨d, s⟩⟩
    · simp [varLenColon] at h
    · simp [varLenColon] at h
    · simp only [varLenColon] at h
      split at h
      · rename_i hc
        simp at h; subst h
        have : 2 + (takeSeg s).length = (takeSeg s).length + 1 + 1 := by omega
        rw [this]
        simp [noSlash, hc.1, hc.2, noSlash_takeSeg]
      · simp at h
  seg := by
    intro x
    rcases x with _ | ⟨c, _ | ⟨d, s⟩⟩
    · rfl
    · by_cases h : c = '/' <;> simp [takeSeg, h, varLenColon]
    · by_cases h : c = '/'
      · subst h; simp [takeSeg, varLenColon]
      · by_cases h2 : d = '/'
        · subst h2; simp [takeSeg, h, varLenColon]
        · simp [takeSeg, h, h2, varLenColon, takeSeg_idem]
  head := by
    intro c s n h
    rcases s with _ | ⟨d, s⟩
    · simp [varLenColon] at h
    · simp only [varLenColon] at h
      split at h
      · rename_i hc; rw [hc.1]; decide
      · simp at h

theorem firstClose_takeSeg (s : Str) : firstClose (takeSeg s) = firstClose s := by
  induction s with
  | nil => rfl
  | cons c s ih =>
    by_cases h : c = '/'
    · subst h; simp [takeSeg, firstClose]
    · by_cases h2 : c = '}' <;> simp [takeSeg, firstClose, h, h2, ih]

theorem firstClose_noSlash (s : Str) (j : Nat) (h : firstClose s = some j) : noSlash (s.take (j + 1)) = true := by
  induction s generalizing j with
  | nil => simp [firstClose] at h
  | cons c s ih =>
    simp only [firstClose] at h
    split at h
    · rename_i hc; simp at h; subst h; subst hc; simp [noSlash]
    · split at h
      · simp at h
      · rename_i hc1 hc2
        simp only [Option.map_eq_some_iff] at h
        obtain ⟨i, hi, rfl⟩ := h
        simp [noSlash, hc2, ih i hi]

theorem varSyntax_braceLazy : VarSyntax varLenBraceLazy where
  inSeg := by
    intro x m h
    rcases x with _ | ⟨c, _ | ⟨d, s⟩⟩
    · simp [varLenBraceLazy] at h
    · simp [varLenBraceLazy] at h
    · simp only [varLenBraceLazy] at h
      split at h
      · rename_i hc
        simp only [Option.map_eq_some_iff] at h
        obtain ⟨j, hj, rfl⟩ := h
        have := firstClose_noSlash s j hj
        simp [noSlash, hc.1, hc.2, this]
      · simp at h
  seg := by
    intro x
    rcases x with _ | ⟨c, _ | ⟨d, s⟩⟩
    · rfl
    · by_cases h : c = '/' <;> simp [takeSeg, h, varLenBraceLazy]
    · by_cases h : c = '/'
      · subst h; simp [takeSeg, varLenBraceLazy]
      · by_cases h2 : d = '/'
        · subst h2; simp [takeSeg, h, varLenBraceLazy]
        · simp [takeSeg, h, h2, varLenBraceLazy, firstClose_takeSeg]
  head := by
    intro c s n h
    rcases s with _ | ⟨d, s⟩
    · simp [varLenBraceLazy] at h
    · simp only [varLenBraceLazy] at h
      split at h
      · rename_i hc; rw [hc.1]; decide
      · simp at h

theorem lastClose_takeSeg (s : Str) : lastClose (takeSeg s) = lastClose s := by
  induction s with
  | nil => rfl
  | cons c s ih =>
    by_cases h : c = '/'
    · subst h; simp [takeSeg, lastClose]
    · simp [takeSeg, lastClose, h, ih]

theorem lastClose_noSlash (s : Str) (i : Nat) (h : lastClose s = some i) : noSlash (s.take (i + 1)) = true := by
  induction s generalizing i with
  | nil => simp [lastClose] at h
  | cons c s ih =>
    simp only [lastClose] at h
    split at h
    · simp at h
    · rename_i hc
      split at h
      · rename_i j hj; simp at h; subst h
        simp [noSlash, hc, ih j hj]
      · split at h
        · simp at h; subst h; simp [noSlash, hc]
        · simp at h

theorem varSyntax_braceGreedy : VarSyntax varLenBraceGreedy where
  inSeg := by
    intro x m h
    rcases x with _ | ⟨c, s⟩
    · simp [varLenBraceGreedy] at h
    · simp only [varLenBraceGreedy] at h
      split at h
      · rename_i hc
        split at h
        · rename_i i hi
          simp at h; subst h
          have := lastClose_noSlash s (i + 1) hi
          simp [noSlash, hc, this]
        · simp at h
      · simp at h
  seg := by
    intro x
    rcases x with _ | ⟨c, s⟩
    · rfl
    · by_cases h : c = '/'
      · subst h; simp [takeSeg, varLenBraceGreedy]
      · simp [takeSeg, h, varLenBraceGreedy, lastClose_takeSeg]
  head := by
    intro c s n h
    simp only [varLenBraceGreedy] at h
    split at h
    · rename_i hc; rw [hc]; decide
    · simp at h

/-! ### keyMatch2 / keyMatch3 / keyMatch5 on documented-form patterns -/

/-- common last step: a rewritten pattern that parses to the nodes of `ts` decides `denK ts` -/
theorem reMatchBody_doc (body : Str) (ts : List KTok) (k : Str)
    (hp : ∀ fuel, body.length < fuel → parseRe fuel body = .ok (ts.map (nodeOfV vnPlain))) :
    asBool (reMatchBody body k) = .ok (denK ts k) := by
  simp [asBool, reMatchBody, hp (body.length + 1) (by omega), Out.map, matchNodes_denK ts k]

theorem headOK_ne_star (r : Str) (h : headOK r = true) : r ≠ starStr := by
  intro e; subst e; simp [starStr, headOK, isQuantChar] at h

/-- **keyMatch2**: for every pattern of the documented form (`docTok2 p = some ts`: literals that are not special
    to `re`, `*` directly after '/', or alone, `:name` up to the next '/') and EVERY key, the function
    answers exactly the denotation: `*` = any text, `:name` = one non-empty run without '/'. Never raises. -/
theorem keyMatch2_spec (k p : Str) (ts : List KTok) (hdoc : docTok2 p = some ts) :
    keyMatch2 k p = .ok (denK ts k) := by
  unfold docTok2 at hdoc
  split at hdoc
  · rename_i hp; subst hp
    simp at hdoc; subst hdoc
    have hr : rewrite2 ['*'] = capAll := by decide
    have hparse : parseRe (capAll.length + 1) capAll = .ok [{ atom := .dot, q := .star, cap := true }] := by decide
    have := matchNodes_denK [.star] k
    simp only [List.map_cons, List.map_nil, nodeOfV, matchNodes, Option.isSome_map] at this
    simp only [keyMatch2, hr, asBool, reMatchBody, hparse, Out.map, matchNodes, Option.isSome_map, this]
  · obtain ⟨hH, hP⟩ := compile_tokVar varLenColon okAny reNotSlashEsc vnPlain varSyntax_colon
      parseItem_notSlashEsc '[' _ rfl (by decide) 0 p ts hdoc (by simp [noSlash])
    have hr : rewrite2 p = subVar varLenColon reNotSlashEsc 0 (replSlashStar p) := by
      simp [rewrite2, headOK_ne_star _ hH]
    rw [keyMatch2, hr]
    exact reMatchBody_doc _ ts k hP

/-- **keyMatch3**: as keyMatch2 with `{name}` (up to the first `}` of its segment) as the variable syntax -/
theorem keyMatch3_spec (k p : Str) (ts : List KTok) (hdoc : tok3 p = some ts) :
    keyMatch3 k p = .ok (denK ts k) := by
  obtain ⟨_, hP⟩ := compile_tokVar varLenBraceLazy okAny reNotSlashEsc vnPlain varSyntax_braceLazy
    parseItem_notSlashEsc '[' _ rfl (by decide) 0 p ts hdoc (by simp [noSlash])
  rw [keyMatch3, rewrite3]
  exact reMatchBody_doc _ ts k hP

/-- **keyMatch5**: as keyMatch3 (`{name}`, the name without braces) after the query string of the key
    (everything from the first `?`) has been dropped -/
theorem keyMatch5_spec (k p : Str) (ts : List KTok) (hdoc : tok5 p = some ts) :
    keyMatch5 k p = .ok (denK ts (dropQuery k)) := by
  obtain ⟨_, hP⟩ := compile_tokVar varLenBraceGreedy okBraceName reNotSlash vnPlain varSyntax_braceGreedy
    parseItem_notSlash '[' _ rfl (by decide) 0 p ts hdoc (by simp [noSlash])
  rw [keyMatch5, rewrite5]
  exact reMatchBody_doc _ ts (dropQuery k) hP

/-- the query string is dropped at the first `?` -/
theorem dropQuery_spec (k : Str) :
    ('?' ∉ k → dropQuery k = k) ∧ (∀ pre post, k = pre ++ '?' :: post → '?' ∉ pre → dropQuery k = pre) := by
  constructor
  · intro h
    induction k with
    | nil => rfl
    | cons c s ih =>
      simp only [List.mem_cons, not_or] at h
      have hc : ¬ c = '?' := fun e => h.1 e.symm
      simp [dropQuery, hc, ih h.2]
  · intro pre post hk hn
    subst hk
    induction pre with
    | nil => simp [dropQuery]
    | cons c s ih =>
      simp only [List.mem_cons, not_or] at hn
      have hc : ¬ c = '?' := fun e => hn.1 e.symm
      simp [dropQuery, hc, ih hn.2]

example : docTok2 "/a/:id/*".toList = some [.lit '/', .lit 'a', .lit '/', .var, .lit '/', .star] := by decide
example : tok3 "/a/p_{id}_s".toList =
    some [.lit '/', .lit 'a', .lit '/', .lit 'p', .lit '_', .var, .lit '_', .lit 's'] := by decide
example : tok5 "/a/{id}/*".toList = some [.lit '/', .lit 'a', .lit '/', .var, .lit '/', .star] := by decide
example : keyMatch2 "/a/7/x/y".toList "/a/:id/*".toList = .ok true := by decide
/-- F21 (outside the documented form): a bare `*` raises `re.error` in keyMatch3/4/5 -/
example : keyMatch3 "a".toList "*".toList = .err .reError ∧ tok3 "*".toList = none := by decide

/-! ## ipMatch (IPv4 and IPv6): membership of an address in an address or CIDR block

`ipMatch_eq_spec`: wherever both texts denote (address: dotted quad or an RFC 4291 IPv6 text with optional zone;
pattern: such an address, optionally `/len` with `len` up to the family's width) the model answers
`same family ∧ leading len bits equal`. The masking implementation is the prefix reading for every width
(`maskTo_eq`, `sameBlock_shift`, `sameBlock_iff_interval`). What the IPv6 texts denote: `parseV6_full`,
`parseV6_compressed`, `parseV6_mapped`, `parseV6_zone`, `parseV6_lt`; spellings of one address are one address:
`parseHextet_toUpper`, `parseHextet_zero_cons`, `parseV6_compressed_eq_full`, `parseV6_full_congr`, `parseV6_upper`. -/

theorem splitOn_ne_nil (sep : Char) (s : Str) : splitOn sep s ≠ [] := by
  induction s with
  | nil => simp [splitOn]
  | cons c s ih =>
    simp only [splitOn]
    split
    · simp
    · split <;> simp

theorem splitOn_not_mem (sep : Char) (s : Str) (h : sep ∉ s) : splitOn sep s = [s] := by
  induction s with
  | nil => rfl
  | cons c s ih =>
    simp only [List.mem_cons, not_or] at h
    have hc : ¬ c = sep := fun e => h.1 e.symm
    simp [splitOn, hc, ih h.2]

theorem splitOn_append (sep : Char) (n l : Str) (h : sep ∉ n) :
    splitOn sep (n ++ sep :: l) = n :: splitOn sep l := by
  induction n with
  | nil => simp [splitOn]
  | cons c s ih =>
    simp only [List.mem_cons, not_or] at h
    have hc : ¬ c = sep := fun e => h.1 e.symm
    simp [splitOn, hc, ih h.2]

/-- every character of a text whose `sep`-separated pieces satisfy `P` satisfies `P` or is `sep` -/
theorem all_of_splitOn (sep : Char) (P : Char → Bool) (s : Str)
    (h : (splitOn sep s).all (fun w => w.all P) = true) : s.all (fun c => P c || c == sep) = true := by
  induction s with
  | nil => rfl
  | cons c s ih =>
    simp only [splitOn] at h
    split at h
    · rename_i hc; subst hc
      simp only [List.all_cons, List.all_nil, Bool.true_and] at h
      simp [ih h]
    · split at h
      · rename_i hne; exact absurd hne (splitOn_ne_nil sep s)
      · rename_i w ws hw
        rw [hw] at ih
        simp only [List.all_cons, Bool.and_eq_true] at h ih ⊢
        exact ⟨by simp [h.1.1], ih ⟨h.1.2, h.2⟩⟩

theorem parseOctet_digits (w : Str) (v : Nat) (h : parseOctet w = some v) : w.all isAsciiDigit = true := by
  unfold parseOctet at h
  split at h
  · simp at h
  · split at h
    · simp at h
    · rename_i _ hd; simpa using hd

theorem parseV4_chars (s : Str) (x : Nat) (h : parseV4 s = some x) :
    s.all (fun c => isAsciiDigit c || c == '.') = true := by
  apply all_of_splitOn
  unfold parseV4 at h
  split at h
  · rename_i a b c d heq
    rw [heq]
    split at h
    · rename_i va vb vc vd ha hb hc hd
      simp [parseOctet_digits _ _ ha, parseOctet_digits _ _ hb, parseOctet_digits _ _ hc, parseOctet_digits _ _ hd]
    · simp at h
  · simp at h

theorem not_mem_of_all (s : Str) (P : Char → Bool) (c : Char) (h : s.all P = true) (hc : P c = false) : c ∉ s := by
  intro hm
  have := List.all_eq_true.1 h c hm
  rw [hc] at this; exact absurd this (by simp)

theorem parsePrefixW_digits (w : Nat) (l : Str) (len : Nat) (h : parsePrefixW w l = some len) :
    l.all isAsciiDigit = true ∧ len ≤ w := by
  unfold parsePrefixW at h
  split at h
  · simp at h
  · rename_i hd
    simp only [Bool.or_eq_true, not_or, Bool.not_eq_true, Bool.not_eq_false'] at hd
    simp only [] at h
    split at h
    · simp at h
    · simp at h; subst h
      refine ⟨by simpa using hd.2, by omega⟩

theorem parsePrefix_digits (l : Str) (len : Nat) (h : parsePrefix l = some len) :
    l.all isAsciiDigit = true ∧ len ≤ 32 := parsePrefixW_digits 32 l len h

theorem parsePrefix6_digits (l : Str) (len : Nat) (h : parsePrefix6 l = some len) :
    l.all isAsciiDigit = true ∧ len ≤ 128 := parsePrefixW_digits 128 l len h

/-- the implementation (`addr & netmask` on both sides) is the specification (the leading `len` bits agree),
    for every address width -/
theorem maskTo_eq (w len x y : Nat) : (maskTo w len x == maskTo w len y) = sameBlock w len x y := by
  have hm : 0 < 2 ^ (w - len) := Nat.pow_pos (by decide)
  have e : ∀ z, maskTo w len z = 2 ^ (w - len) * (z / 2 ^ (w - len)) := by
    intro z
    have := Nat.div_add_mod z (2 ^ (w - len))
    unfold maskTo; omega
  simp only [e, sameBlock]
  by_cases h : x / 2 ^ (w - len) = y / 2 ^ (w - len)
  · simp [h]
  · have : ¬ 2 ^ (w - len) * (x / 2 ^ (w - len)) = 2 ^ (w - len) * (y / 2 ^ (w - len)) := by
      intro e'; exact h (Nat.eq_of_mul_eq_mul_left hm e')
    have b1 : (2 ^ (w - len) * (x / 2 ^ (w - len)) == 2 ^ (w - len) * (y / 2 ^ (w - len))) = false := by
      simpa using this
    have b2 : (x / 2 ^ (w - len) == y / 2 ^ (w - len)) = false := by simpa using h
    rw [b1, b2]

/-- the specification in the usual words: the leading `len` bits agree -/
theorem sameBlock_shift (w len x y : Nat) : sameBlock w len x y = (x >>> (w - len) == y >>> (w - len)) := by
  simp [sameBlock, Nat.shiftRight_eq_div_pow]

/-- … and as an interval: the block is `[network address, network address + 2^(w-len))` -/
theorem sameBlock_iff_interval (w len x y : Nat) :
    sameBlock w len x y = true ↔ maskTo w len y ≤ x ∧ x < maskTo w len y + 2 ^ (w - len) := by
  have hm : 0 < 2 ^ (w - len) := Nat.pow_pos (by decide)
  have e : maskTo w len y = 2 ^ (w - len) * (y / 2 ^ (w - len)) := by
    have := Nat.div_add_mod y (2 ^ (w - len))
    unfold maskTo; omega
  rw [e]
  simp only [sameBlock, beq_iff_eq]
  constructor
  · intro h
    rw [← h]
    have := Nat.div_add_mod x (2 ^ (w - len))
    have := Nat.mod_lt x hm
    omega
  · intro ⟨h1, h2⟩
    have h3 : x < 2 ^ (w - len) * (y / 2 ^ (w - len) + 1) := by rw [Nat.mul_add]; omega
    apply Nat.le_antisymm
    · exact Nat.le_of_lt_succ ((Nat.div_lt_iff_lt_mul hm).2 (by rw [Nat.mul_comm]; exact h3))
    · exact (Nat.le_div_iff_mul_le hm).2 (by rw [Nat.mul_comm]; exact h1)

/-- a full-length prefix denotes one address -/
theorem sameBlock_full (w x y : Nat) : sameBlock w w x y = (x == y) := by
  simp [sameBlock]

/-- the empty prefix denotes every address of the family -/
theorem sameBlock_zero (w x y : Nat) (hx : x < 2 ^ w) (hy : y < 2 ^ w) : sameBlock w 0 x y = true := by
  simp [sameBlock, Nat.div_eq_of_lt hx, Nat.div_eq_of_lt hy]

/-- every character of a piece is a character of the text -/
theorem mem_of_mem_splitOn (sep : Char) (s w : Str) (c : Char) (hw : w ∈ splitOn sep s) (hc : c ∈ w) : c ∈ s := by
  induction s generalizing w with
  | nil => simp [splitOn] at hw; subst hw; simp at hc
  | cons d s ih =>
    simp only [splitOn] at hw
    split at hw
    · simp only [List.mem_cons] at hw
      rcases hw with rfl | hw
      · simp at hc
      · exact List.mem_cons_of_mem _ (ih w hw hc)
    · split at hw
      · rename_i hne; exact absurd hne (splitOn_ne_nil sep s)
      · rename_i w0 ws heq
        rw [heq] at ih
        simp only [List.mem_cons] at hw
        rcases hw with rfl | hw
        · simp only [List.mem_cons] at hc
          rcases hc with rfl | hc
          · simp
          · exact List.mem_cons_of_mem _ (ih w0 (by simp) hc)
        · exact List.mem_cons_of_mem _ (ih w (by simp [hw]) hc)

theorem splitScope_mem (s a : Str) (c : Char) (h : splitScope s = some a) (hc : c ∈ a) : c ∈ s := by
  unfold splitScope at h
  split at h
  · rename_i a' heq
    simp at h; subst h
    exact mem_of_mem_splitOn '%' s _ c (by rw [heq]; simp) hc
  · rename_i a' z heq
    split at h
    · simp at h
    · simp at h; subst h
      exact mem_of_mem_splitOn '%' s _ c (by rw [heq]; simp) hc
  · simp at h

theorem parseV6Core_colon (s : Str) (x : Nat) (h : parseV6Core s = some x) : ':' ∈ s := by
  apply Classical.byContradiction
  intro hn
  unfold parseV6Core at h
  rw [splitOn_not_mem _ _ hn] at h
  simp at h

/-- an IPv6 address text contains a colon and no '/' -/
theorem parseV6_chars (s : Str) (x : Nat) (h : parseV6 s = some x) : ':' ∈ s ∧ '/' ∉ s := by
  unfold parseV6 at h
  split at h
  · simp at h
  · rename_i hs
    refine ⟨?_, by simpa using hs⟩
    split at h
    · simp at h
    · rename_i addr heq
      exact splitScope_mem s addr ':' heq (parseV6Core_colon addr x h)

/-- no text is both an IPv4 and an IPv6 address (so the order of the two attempts in `ip_address` / `ip_network`
    does not matter) -/
theorem parseV4_parseV6_disjoint (s : Str) (x : Nat) (h : parseV6 s = some x) : parseV4 s = none := by
  cases h4 : parseV4 s with
  | none => rfl
  | some y =>
    exact absurd (parseV6_chars s x h).1 (not_mem_of_all _ _ _ (parseV4_chars s y h4) (by decide))

theorem parseAddr_v4 (s : Str) (x : Nat) (h : parseV4 s = some x) : parseAddr s = some (.v4, x) := by
  simp [parseAddr, h]

theorem parseAddr_v6 (s : Str) (x : Nat) (h : parseV6 s = some x) : parseAddr s = some (.v6, x) := by
  simp [parseAddr, h, parseV4_parseV6_disjoint s x h]

theorem parseAddr_cases (s : Str) (f : Fam) (y : Nat) (h : parseAddr s = some (f, y)) :
    (f = .v4 ∧ parseV4 s = some y) ∨ (f = .v6 ∧ parseV4 s = none ∧ parseV6 s = some y) := by
  unfold parseAddr at h
  split at h
  · rename_i y' h4
    simp only [Option.some.injEq, Prod.mk.injEq] at h
    exact Or.inl ⟨h.1.symm, by rw [h4, h.2]⟩
  · rename_i h4
    split at h
    · rename_i y' h6
      simp only [Option.some.injEq, Prod.mk.injEq] at h
      exact Or.inr ⟨h.1.symm, h4, by rw [h6, h.2]⟩
    · simp at h

/-- **ipMatch = its specification** wherever the specification speaks (both texts denote: any of the four family
    combinations): the answer is `family equal ∧ leading len bits equal` -/
theorem ipMatch_eq_spec (a b : Str) (r : Bool) (h : ipSpec a b = some r) : ipMatch a b = .ok r := by
  unfold ipSpec at h
  split at h
  · rename_i f x g y len ha hb
    simp only [Option.some.injEq] at h
    subst h
    unfold ipMatch
    rw [ha]
    simp only
    unfold blockDen at hb
    unfold parseNet4 parseNet6
    split at hb
    · -- a plain address
      rename_i addr hs
      rw [hs]
      simp only
      cases hp : parseAddr addr with
      | none => simp [hp] at hb
      | some fy =>
        obtain ⟨g', y'⟩ := fy
        simp only [hp, Option.some.injEq, Prod.mk.injEq] at hb
        obtain ⟨rfl, rfl, rfl⟩ := hb
        rcases parseAddr_cases _ _ _ hp with ⟨rfl, h4⟩ | ⟨rfl, h4, h6⟩
        · simp only [h4]
          cases f <;> simp [maskTo_eq, Fam.width]
        · simp only [h4, h6]
          cases f <;> simp [maskTo_eq, Fam.width]
    · rename_i addr m hs
      rw [hs]
      simp only
      cases hp : parseAddr addr with
      | none => simp [hp] at hb
      | some fy =>
        obtain ⟨g', y'⟩ := fy
        simp only [hp] at hb
        cases hl : parsePrefixW g'.width m with
        | none => simp [hl] at hb
        | some len' =>
          simp only [hl, Option.some.injEq, Prod.mk.injEq] at hb
          obtain ⟨rfl, rfl, rfl⟩ := hb
          rcases parseAddr_cases _ _ _ hp with ⟨rfl, h4⟩ | ⟨rfl, h4, h6⟩
          · have hl' : parsePrefix m = some len' := hl
            simp only [h4, parseMask4, hl']
            cases f <;> simp [maskTo_eq, Fam.width]
          · have hl' : parsePrefix6 m = some len' := hl
            simp only [h4, h6, hl']
            cases f <;> simp [maskTo_eq, Fam.width]
    · simp at hb
  · simp at h

theorem parseAddr_no_slash (s : Str) (f : Fam) (y : Nat) (h : parseAddr s = some (f, y)) : '/' ∉ s := by
  rcases parseAddr_cases _ _ _ h with ⟨_, h4⟩ | ⟨_, _, h6⟩
  · exact not_mem_of_all _ _ _ (parseV4_chars s y h4) (by decide)
  · exact (parseV6_chars s y h6).2

/-- a plain address text as a pattern denotes that one address -/
theorem blockDen_addr (n : Str) (g : Fam) (y : Nat) (hn : parseAddr n = some (g, y)) :
    blockDen n = some (g, y, g.width) := by
  unfold blockDen
  rw [splitOn_not_mem _ _ (parseAddr_no_slash n g y hn)]
  simp [hn]

/-- `address/len` denotes the address's family, number and `len` -/
theorem blockDen_cidr (n l : Str) (g : Fam) (y len : Nat) (hn : parseAddr n = some (g, y))
    (hl : parsePrefixW g.width l = some len) : blockDen (n ++ '/' :: l) = some (g, y, len) := by
  have h5 : '/' ∉ l := not_mem_of_all _ _ _ (parsePrefixW_digits _ l len hl).1 (by decide)
  unfold blockDen
  rw [splitOn_append _ _ _ (parseAddr_no_slash n g y hn), splitOn_not_mem _ _ h5]
  simp [hn, hl]

/-- **ipMatch** on an address and a CIDR block `n/len`, both of any family: `True` exactly when the families are
    equal and the leading `len` bits agree (`strict=False`: host bits of `n` are ignored) -/
theorem ipMatch_cidr (a n l : Str) (f g : Fam) (x y len : Nat) (ha : parseAddr a = some (f, x))
    (hn : parseAddr n = some (g, y)) (hl : parsePrefixW g.width l = some len) :
    ipMatch a (n ++ '/' :: l) = .ok (f == g && sameBlock g.width len x y) := by
  apply ipMatch_eq_spec
  simp [ipSpec, ha, blockDen_cidr n l g y len hn hl]

/-- **ipMatch** on two address texts of any family: same family and same number -/
theorem ipMatch_addr (a n : Str) (f g : Fam) (x y : Nat) (ha : parseAddr a = some (f, x))
    (hn : parseAddr n = some (g, y)) : ipMatch a n = .ok (f == g && x == y) := by
  rw [← sameBlock_full g.width x y]
  apply ipMatch_eq_spec
  simp [ipSpec, ha, blockDen_addr n g y hn]

/-- **ipMatch** on a dotted-quad address and a CIDR block `n/len`: membership = the leading `len` bits agree
    (`strict=False`: host bits of `n` are ignored) -/
theorem ipMatch_v4 (a n l : Str) (x y len : Nat)
    (ha : parseV4 a = some x) (hn : parseV4 n = some y) (hl : parsePrefix l = some len) :
    ipMatch a (n ++ '/' :: l) = .ok (sameBlock 32 len x y) := by
  simpa [Fam.width] using ipMatch_cidr a n l .v4 .v4 x y len (parseAddr_v4 a x ha) (parseAddr_v4 n y hn) hl

/-- **ipMatch** on two dotted-quad addresses: equality of the addresses -/
theorem ipMatch_v4_addr (a n : Str) (x y : Nat) (ha : parseV4 a = some x) (hn : parseV4 n = some y) :
    ipMatch a n = .ok (x == y) := by
  simpa using ipMatch_addr a n .v4 .v4 x y (parseAddr_v4 a x ha) (parseAddr_v4 n y hn)

/-- **ipMatch** on an IPv6 address and an IPv6 block `n/len` (every text form of either, zones ignored):
    the leading `len` of the 128 bits agree -/
theorem ipMatch_v6 (a n l : Str) (x y len : Nat)
    (ha : parseV6 a = some x) (hn : parseV6 n = some y) (hl : parsePrefix6 l = some len) :
    ipMatch a (n ++ '/' :: l) = .ok (sameBlock 128 len x y) := by
  simpa [Fam.width] using ipMatch_cidr a n l .v6 .v6 x y len (parseAddr_v6 a x ha) (parseAddr_v6 n y hn) hl

/-- **ipMatch** on two IPv6 address texts: equality of the NUMBERS, whatever the spellings -/
theorem ipMatch_v6_addr (a n : Str) (x y : Nat) (ha : parseV6 a = some x) (hn : parseV6 n = some y) :
    ipMatch a n = .ok (x == y) := by
  simpa using ipMatch_addr a n .v6 .v6 x y (parseAddr_v6 a x ha) (parseAddr_v6 n y hn)

/-- an address of the other family is never in a block (also not an IPv4-mapped IPv6 address in an IPv4 block) -/
theorem ipMatch_mixed (a n l : Str) (f g : Fam) (x y len : Nat) (ha : parseAddr a = some (f, x))
    (hn : parseAddr n = some (g, y)) (hl : parsePrefixW g.width l = some len) (hfg : f ≠ g) :
    ipMatch a (n ++ '/' :: l) = .ok false ∧ ipMatch a n = .ok false := by
  have : (f == g) = false := by simpa using hfg
  rw [ipMatch_cidr a n l f g x y len ha hn hl, ipMatch_addr a n f g x y ha hn, this]
  simp

/-- an unparsable first argument raises (`ipaddress.ip_address` is outside the `try`), and nothing else does -/
theorem ipMatch_raises_iff (a b : Str) : ipMatch a b = .err .valueError ↔ parseAddr a = none := by
  unfold ipMatch
  cases parseAddr a with
  | none => simp
  | some fx =>
    obtain ⟨f, x⟩ := fx
    simp only
    cases parseNet4 b with
    | some yl => cases f <;> simp
    | none =>
      simp only
      cases parseNet6 b with
      | some yl => cases f <;> simp
      | none => simp

theorem ipMatch_bad_address (a b : Str) (h4 : parseV4 a = none) (h6 : parseV6 a = none) :
    ipMatch a b = .err .valueError := by
  rw [ipMatch_raises_iff]; simp [parseAddr, h4, h6]

/-- a pattern that is no network of either family matches nothing (`except ValueError: return ip1 == ip2` compares
    an address object with a `str`) -/
theorem ipMatch_bad_pattern (a b : Str) (f : Fam) (x : Nat) (ha : parseAddr a = some (f, x))
    (h4 : parseNet4 b = none) (h6 : parseNet6 b = none) : ipMatch a b = .ok false := by
  simp [ipMatch, ha, h4, h6]

/-- the model answers for every pair of texts: nothing of `ip_match` is left unmodelled -/
theorem ipMatch_total (a b : Str) : ipMatch a b ≠ .outside := by
  unfold ipMatch
  cases parseAddr a with
  | none => simp
  | some fx =>
    obtain ⟨f, x⟩ := fx
    simp only
    cases parseNet4 b with
    | some yl => cases f <;> simp
    | none =>
      simp only
      cases parseNet6 b with
      | some yl => cases f <;> simp
      | none => simp

/-! ### IPv6 text forms -/

theorem hexVal_toUpper_aux : ∀ n, n < 123 → hexVal (Char.ofNat n).toUpper = hexVal (Char.ofNat n) := by decide
theorem hexVal_toLower_aux : ∀ n, n < 91 → hexVal (Char.ofNat n).toLower = hexVal (Char.ofNat n) := by decide

/-- hex digits are read case-insensitively (and no other character becomes a hex digit by changing its case) -/
theorem hexVal_toUpper (c : Char) : hexVal c.toUpper = hexVal c := by
  by_cases h : c.toNat < 123
  · have := hexVal_toUpper_aux c.toNat h
    rwa [Char.ofNat_toNat] at this
  · have : c.toUpper = c := by
      unfold Char.toUpper
      rw [dif_neg]
      intro ⟨_, h2⟩
      apply h
      have : c.val.toNat ≤ 122 := h2
      show c.val.toNat < 123
      omega
    rw [this]

theorem hexVal_toLower (c : Char) : hexVal c.toLower = hexVal c := by
  by_cases h : c.toNat < 91
  · have := hexVal_toLower_aux c.toNat h
    rwa [Char.ofNat_toNat] at this
  · have : c.toLower = c := by
      unfold Char.toLower
      rw [dif_neg]
      intro ⟨_, h2⟩
      apply h
      have : c.val.toNat ≤ 90 := h2
      show c.val.toNat < 91
      omega
    rw [this]

theorem hexDigitsVal_map (f : Char → Char) (hf : ∀ c, hexVal (f c) = hexVal c) (s : Str) (acc : Nat) :
    hexDigitsVal (s.map f) acc = hexDigitsVal s acc := by
  induction s generalizing acc with
  | nil => rfl
  | cons c s ih => simp [hexDigitsVal, hf, ih]

/-- `parseHextet` sees a text only through the values of its hex digits -/
theorem parseHextet_map (f : Char → Char) (hf : ∀ c, hexVal (f c) = hexVal c) (s : Str) :
    parseHextet (s.map f) = parseHextet s := by
  have h1 : (s.map f).all isHexDigit = s.all isHexDigit := by
    simp only [List.all_map, Function.comp_def, isHexDigit, hf]
    rfl
  simp only [parseHextet, h1, List.length_map, hexDigitsVal_map f hf, List.isEmpty_iff, List.map_eq_nil_iff]

/-- upper-case and lower-case spellings of a hextet are the same number (or both invalid) -/
theorem parseHextet_toUpper (s : Str) : parseHextet (s.map Char.toUpper) = parseHextet s :=
  parseHextet_map _ hexVal_toUpper s

theorem parseHextet_toLower (s : Str) : parseHextet (s.map Char.toLower) = parseHextet s :=
  parseHextet_map _ hexVal_toLower s

/-- a leading zero does not change a hextet (as long as at most 4 digits are written) -/
theorem parseHextet_zero_cons (s : Str) (hs : s ≠ []) (hl : s.length < 4) :
    parseHextet ('0' :: s) = parseHextet s := by
  have h0 : isHexDigit '0' = true := by decide
  have h0' : (hexVal '0').getD 0 = 0 := by decide
  have h1 : ¬ (s.length + 1 > 4) := by omega
  have h2 : ¬ (s.length > 4) := by omega
  simp [parseHextet, h0, h0', h1, h2, hs, hexDigitsVal]

/-- … but a fifth digit is an error even when it is a leading zero -/
theorem parseHextet_five (s : Str) (hl : 4 < s.length) : parseHextet s = none := by
  unfold parseHextet
  split
  · rfl
  · simp [hl]

theorem hexVal_lt (c : Char) (v : Nat) (h : hexVal c = some v) : v < 16 := by
  unfold hexVal at h
  simp only [Bool.and_eq_true, decide_eq_true_eq, Char.le_def, UInt32.le_iff_toNat_le] at h
  have e : c.toNat = c.val.toNat := rfl
  split at h
  · rename_i hc
    simp only [Option.some.injEq] at h
    have : '9'.val.toNat = 57 := by decide
    have : '0'.val.toNat = 48 := by decide
    have : '0'.toNat = 48 := by decide
    omega
  · split at h
    · rename_i hc
      simp only [Option.some.injEq] at h
      have : 'f'.val.toNat = 102 := by decide
      have : 'a'.val.toNat = 97 := by decide
      have : 'a'.toNat = 97 := by decide
      omega
    · split at h
      · rename_i hc
        simp only [Option.some.injEq] at h
        have : 'F'.val.toNat = 70 := by decide
        have : 'A'.val.toNat = 65 := by decide
        have : 'A'.toNat = 65 := by decide
        omega
      · simp at h

theorem hexDigitsVal_lt (s : Str) (acc k : Nat) (hs : s.all isHexDigit = true) (ha : acc < 16 ^ k) :
    hexDigitsVal s acc < 16 ^ (k + s.length) := by
  induction s generalizing acc k with
  | nil => simpa [hexDigitsVal] using ha
  | cons c s ih =>
    simp only [List.all_cons, Bool.and_eq_true] at hs
    simp only [hexDigitsVal, List.length_cons]
    obtain ⟨v, hv⟩ := Option.isSome_iff_exists.1 hs.1
    have hlt := hexVal_lt c v hv
    have : acc * 16 + (hexVal c).getD 0 < 16 ^ (k + 1) := by
      rw [hv, Option.getD_some, Nat.pow_succ]; omega
    have := ih (acc * 16 + (hexVal c).getD 0) (k + 1) hs.2 this
    rwa [show k + 1 + s.length = k + (s.length + 1) by omega] at this

/-- a hextet is a 16-bit number -/
theorem parseHextet_lt (s : Str) (v : Nat) (h : parseHextet s = some v) : v < 65536 := by
  unfold parseHextet at h
  split at h
  · simp at h
  · rename_i hd
    split at h
    · simp at h
    · rename_i hl
      split at h
      · simp at h
      · simp only [Option.some.injEq] at h
        subst h
        have := hexDigitsVal_lt s 0 0 (by simpa using hd) (by simp)
        have h4 : (16 : Nat) ^ (0 + s.length) ≤ 16 ^ 4 := Nat.pow_le_pow_right (by decide) (by omega)
        have : (16 : Nat) ^ 4 = 65536 := by decide
        omega

theorem parseHextet_chars (s : Str) (v : Nat) (h : parseHextet s = some v) :
    s ≠ [] ∧ s.all isHexDigit = true := by
  unfold parseHextet at h
  split at h
  · simp at h
  · rename_i hd
    split at h
    · simp at h
    · split at h
      · simp at h
      · rename_i hne
        exact ⟨by simpa using hne, by simpa using hd⟩

/-! ### parseV6: a 128-bit number -/

/-- a part carries a 16-bit number (the two parts made from a dotted-quad suffix do by construction) -/
def Part.small : Part → Prop
  | .txt _ => True
  | .num v => v < 65536

theorem Part.val_lt (p : Part) (v : Nat) (hp : Part.small p) (h : p.val = some v) : v < 65536 := by
  cases p with
  | txt s => exact parseHextet_lt s v h
  | num w => simp [Part.val] at h; subst h; exact hp

theorem hextets_lt (ps : List Part) (acc k r : Nat) (hs : ∀ p ∈ ps, Part.small p) (ha : acc < 65536 ^ k)
    (h : hextets acc ps = some r) : r < 65536 ^ (k + ps.length) := by
  induction ps generalizing acc k with
  | nil => simp [hextets] at h; subst h; simpa using ha
  | cons p ps ih =>
    simp only [hextets] at h
    split at h
    · simp at h
    · rename_i v hv
      have hlt := Part.val_lt p v (hs p (by simp)) hv
      have : acc * 65536 + v < 65536 ^ (k + 1) := by rw [Nat.pow_succ]; omega
      have := ih (acc * 65536 + v) (k + 1) (fun q hq => hs q (by simp [hq])) this h
      rwa [show k + 1 + ps.length = k + (ps.length + 1) by omega] at this

theorem breakEmpty_parts (m : List Part) :
    (∀ p ∈ (breakEmpty m).1, p ∈ m) ∧ (∀ l, (breakEmpty m).2 = some l → ∀ p ∈ l, p ∈ m) := by
  induction m with
  | nil => simp [breakEmpty]
  | cons q m ih =>
    simp only [breakEmpty]
    split
    · simp only [List.not_mem_nil, false_imp_iff, implies_true, Option.some.injEq, true_and]
      intro l hl p hp; subst hl; exact List.mem_cons_of_mem _ hp
    · refine ⟨?_, ?_⟩
      · intro p hp
        simp only [List.mem_cons] at hp ⊢
        rcases hp with rfl | hp
        · exact Or.inl rfl
        · exact Or.inr (ih.1 p hp)
      · intro l hl p hp
        exact List.mem_cons_of_mem _ (ih.2 l hl p hp)

theorem parseV6Parts_lt (f : Part) (m : List Part) (l : Part) (x : Nat)
    (hs : ∀ p ∈ f :: m ++ [l], Part.small p) (h : parseV6Parts f m l = some x) : x < 2 ^ 128 := by
  have e128 : (2 : Nat) ^ 128 = 65536 ^ 8 := by decide
  rw [e128]
  unfold parseV6Parts at h
  split at h
  · simp at h
  · split at h
    · -- no '::'
      split at h
      · simp at h
      · rename_i hlen
        split at h
        · simp at h
        · split at h
          · simp at h
          · have := hextets_lt _ 0 0 x hs (by simp) h
            have hl : (f :: m ++ [l]).length = 8 := by simp at hlen ⊢; omega
            rwa [hl] at this
    · rename_i hh ll hb
      have hbp := breakEmpty_parts m
      rw [hb] at hbp
      split at h
      · simp at h
      · split at h
        · simp at h
        · split at h
          · simp at h
          · simp only at h
            have shi : ∀ p ∈ (if f.isEmpty = true then [] else f :: hh), Part.small p := by
              intro p hp
              split at hp
              · simp at hp
              · simp only [List.mem_cons] at hp
                rcases hp with rfl | hp
                · exact hs _ (by simp)
                · exact hs _ (by simp [hbp.1 p hp])
            have slo : ∀ p ∈ (if l.isEmpty = true then [] else ll ++ [l]), Part.small p := by
              intro p hp
              split at hp
              · simp at hp
              · simp only [List.mem_append, List.mem_singleton] at hp
                rcases hp with hp | rfl
                · exact hs _ (by simp [hbp.2 ll rfl p hp])
                · exact hs _ (by simp)
            generalize (if f.isEmpty = true then [] else f :: hh) = hi at h shi
            generalize (if l.isEmpty = true then [] else ll ++ [l]) = lo at h slo
            split at h
            · simp at h
            · rename_i hlen
              split at h
              · simp at h
              · rename_i xh hxh
                have h1 := hextets_lt _ 0 0 xh shi (by simp) hxh
                simp only [Nat.zero_add] at h1
                have h2 : xh * 65536 ^ (8 - (hi.length + lo.length)) < 65536 ^ (hi.length + (8 - (hi.length + lo.length))) := by
                  rw [Nat.pow_add]
                  exact Nat.mul_lt_mul_of_lt_of_le h1 (Nat.le_refl _) (Nat.pow_pos (by decide))
                have h3 := hextets_lt lo _ _ x slo h2 h
                rwa [show hi.length + (8 - (hi.length + lo.length)) + lo.length = 8 by omega] at h3

theorem ends_mem (ps : List Part) (f : Part) (m : List Part) (l : Part) (h : ends ps = some (f, m, l)) :
    ps = f :: m ++ [l] := by
  induction ps generalizing f m l with
  | nil => simp [ends] at h
  | cons p ps ih =>
    cases ps with
    | nil => simp [ends] at h
    | cons q r =>
      simp only [ends] at h
      split at h
      · rename_i he
        simp only [Option.some.injEq, Prod.mk.injEq] at h
        obtain ⟨rfl, rfl, rfl⟩ := h
        cases r with
        | nil => rfl
        | cons r0 r1 =>
          exfalso
          simp only [ends] at he
          split at he <;> simp at he
      · rename_i q' m' l' he
        simp only [Option.some.injEq, Prod.mk.injEq] at h
        obtain ⟨rfl, rfl, rfl⟩ := h
        rw [ih q' m' l' he]; rfl

theorem parseV6Core_lt (s : Str) (x : Nat) (h : parseV6Core s = some x) : x < 2 ^ 128 := by
  unfold parseV6Core at h
  split at h
  · simp at h
  · simp only at h
    split at h
    · simp at h
    · split at h
      · simp at h
      · rename_i parts hparts
        split at h
        · simp at h
        · rename_i f m l he
          have hps := ends_mem parts f m l he
          apply parseV6Parts_lt f m l x _ h
          rw [← hps]
          split at hparts
          · split at hparts
            · simp at hparts
            · rename_i v hv
              simp only [Option.some.injEq] at hparts
              subst hparts
              intro p hp
              simp only [List.mem_append, List.mem_map, List.mem_cons, List.not_mem_nil, or_false] at hp
              rcases hp with ⟨w, _, rfl⟩ | rfl | rfl
              · trivial
              · exact Nat.mod_lt _ (by decide)
              · exact Nat.mod_lt _ (by decide)
          · simp only [Option.some.injEq] at hparts
            subst hparts
            intro p hp
            simp only [List.mem_map] at hp
            obtain ⟨w, _, rfl⟩ := hp
            trivial

/-- every IPv6 address text denotes a 128-bit number -/
theorem parseV6_lt (s : Str) (x : Nat) (h : parseV6 s = some x) : x < 2 ^ 128 := by
  unfold parseV6 at h
  split at h
  · simp at h
  · split at h
    · simp at h
    · exact parseV6Core_lt _ x h

/-! ### parseV6 reads the RFC 4291 text forms: `h:h:h:h:h:h:h:h` and `h:…::…:h` -/

/-- the text `h1:h2:…:hn` -/
def joinColon : List Str → Str
  | [] => []
  | [h] => h
  | h :: g :: hs => h ++ ':' :: joinColon (g :: hs)

/-- the number written by a sequence of 16-bit groups, most significant first -/
def groupsVal (vs : List Nat) : Nat := vs.foldl (fun acc v => acc * 65536 + v) 0

/-- splitting at a separator splits the pieces -/
theorem splitOn_append_sep (sep : Char) (a b : Str) :
    splitOn sep (a ++ sep :: b) = splitOn sep a ++ splitOn sep b := by
  induction a with
  | nil => simp [splitOn]
  | cons c a ih =>
    simp only [List.cons_append, splitOn]
    split
    · simp [ih]
    · rw [ih]
      cases h : splitOn sep a with
      | nil => exact absurd h (splitOn_ne_nil sep a)
      | cons w ws => simp

theorem splitOn_joinColon (hs : List Str) (hne : hs ≠ []) (hc : ∀ h ∈ hs, ':' ∉ h) :
    splitOn ':' (joinColon hs) = hs := by
  induction hs with
  | nil => exact absurd rfl hne
  | cons h hs ih =>
    cases hs with
    | nil => simpa [joinColon] using splitOn_not_mem ':' h (hc h (by simp))
    | cons g hs =>
      simp only [joinColon]
      rw [splitOn_append_sep, splitOn_not_mem ':' h (hc h (by simp)), ih (by simp) (fun k hk => hc k (by simp [hk]))]
      rfl

theorem mem_joinColon (hs : List Str) (c : Char) (h : c ∈ joinColon hs) : c = ':' ∨ ∃ w ∈ hs, c ∈ w := by
  induction hs with
  | nil => simp [joinColon] at h
  | cons w hs ih =>
    cases hs with
    | nil => exact Or.inr ⟨w, by simp, by simpa [joinColon] using h⟩
    | cons g hs =>
      simp only [joinColon, List.mem_append, List.mem_cons] at h
      rcases h with h | h | h
      · exact Or.inr ⟨w, by simp, h⟩
      · exact Or.inl h
      · rcases ih h with h | ⟨k, hk, hck⟩
        · exact Or.inl h
        · exact Or.inr ⟨k, by simp [hk], hck⟩

/-- the hextet texts `hs` are valid and denote the numbers `vs` -/
def Hextets (hs : List Str) (vs : List Nat) : Prop := hs.map parseHextet = vs.map some

theorem Hextets.length {hs : List Str} {vs : List Nat} (h : Hextets hs vs) : hs.length = vs.length := by
  have := congrArg List.length h
  simpa using this

theorem Hextets.mem {hs : List Str} {vs : List Nat} (h : Hextets hs vs) (w : Str) (hw : w ∈ hs) :
    ∃ v, parseHextet w = some v := by
  have : parseHextet w ∈ vs.map some := by rw [← h]; exact List.mem_map_of_mem hw
  simp only [List.mem_map] at this
  obtain ⟨v, _, hv⟩ := this
  exact ⟨v, hv.symm⟩

theorem Hextets.not_mem {hs : List Str} {vs : List Nat} (h : Hextets hs vs) (c : Char) (hc : isHexDigit c = false)
    (w : Str) (hw : w ∈ hs) : c ∉ w := by
  obtain ⟨v, hv⟩ := h.mem w hw
  exact not_mem_of_all _ _ _ (parseHextet_chars w v hv).2 hc

theorem Hextets.ne_nil {hs : List Str} {vs : List Nat} (h : Hextets hs vs) (w : Str) (hw : w ∈ hs) : w ≠ [] := by
  obtain ⟨v, hv⟩ := h.mem w hw
  exact (parseHextet_chars w v hv).1

theorem Hextets.joinColon_not_mem {hs : List Str} {vs : List Nat} (h : Hextets hs vs) (c : Char)
    (hc : isHexDigit c = false) (hc' : c ≠ ':') : c ∉ joinColon hs := by
  intro hm
  rcases mem_joinColon hs c hm with e | ⟨w, hw, hcw⟩
  · exact hc' e
  · exact h.not_mem c hc w hw hcw

theorem hextets_txt (hs : List Str) (vs : List Nat) (h : Hextets hs vs) (acc : Nat) :
    hextets acc (hs.map Part.txt) = some (vs.foldl (fun a v => a * 65536 + v) acc) := by
  induction hs generalizing vs acc with
  | nil =>
    cases vs with
    | nil => rfl
    | cons v vs => simp [Hextets] at h
  | cons w hs ih =>
    cases vs with
    | nil => simp [Hextets] at h
    | cons v vs =>
      simp only [Hextets, List.map_cons, List.cons.injEq] at h
      simp only [List.map_cons, hextets, Part.val, h.1, List.foldl_cons]
      exact ih vs h.2 _

theorem breakEmpty_none (m : List Part) (h : ∀ p ∈ m, p.isEmpty = false) : breakEmpty m = (m, none) := by
  induction m with
  | nil => rfl
  | cons p m ih =>
    simp only [breakEmpty, h p (by simp), Bool.false_eq_true, if_false,
      ih (fun q hq => h q (by simp [hq]))]

theorem breakEmpty_some (hh ll : List Part) (h : ∀ p ∈ hh, p.isEmpty = false) :
    breakEmpty (hh ++ Part.txt [] :: ll) = (hh, some ll) := by
  induction hh with
  | nil => simp [breakEmpty, Part.isEmpty]
  | cons p m ih =>
    simp only [List.cons_append, breakEmpty, h p (by simp), Bool.false_eq_true, if_false,
      ih (fun q hq => h q (by simp [hq]))]

theorem ends_cons_append (p : Part) (m : List Part) (q : Part) : ends (p :: m ++ [q]) = some (p, m, q) := by
  induction m generalizing p with
  | nil => simp [ends]
  | cons r m ih =>
    have := ih r
    simp only [List.cons_append] at this ⊢
    cases hm : m ++ [q] with
    | nil => simp at hm
    | cons a b =>
      rw [hm] at this
      simp only [ends] at this ⊢
      simp only [this]

theorem txt_nonempty {hs : List Str} {vs : List Nat} (h : Hextets hs vs) :
    ∀ p ∈ hs.map Part.txt, p.isEmpty = false := by
  intro p hp
  simp only [List.mem_map] at hp
  obtain ⟨w, hw, rfl⟩ := hp
  have := h.ne_nil w hw
  simpa [Part.isEmpty] using this

theorem foldl_zeros (k acc : Nat) :
    (List.replicate k 0).foldl (fun a v => a * 65536 + v) acc = acc * 65536 ^ k := by
  induction k generalizing acc with
  | zero => simp
  | succ k ih => simp [List.replicate_succ, ih, Nat.pow_succ, Nat.mul_assoc, Nat.mul_comm 65536]

/-- a text without '/' and '%' is read by `_ip_int_from_string` directly -/
theorem parseV6_plain (s : Str) (h1 : '/' ∉ s) (h2 : '%' ∉ s) : parseV6 s = parseV6Core s := by
  simp [parseV6, h1, splitScope, splitOn_not_mem _ _ h2]

theorem exists_snoc {α : Type} (l : List α) (h : l ≠ []) : ∃ m q, l = m ++ [q] :=
  ⟨l.dropLast, l.getLast h, (List.dropLast_concat_getLast h).symm⟩

/-- **the full form**: eight valid hextets separated by colons denote the number they write, 16 bits each -/
theorem parseV6_full (hs : List Str) (vs : List Nat) (hv : Hextets hs vs) (hlen : hs.length = 8) :
    parseV6 (joinColon hs) = some (groupsVal vs) := by
  have hne : hs ≠ [] := by intro e; simp [e] at hlen
  have hcol : ∀ h ∈ hs, ':' ∉ h := hv.not_mem ':' (by decide)
  rw [parseV6_plain _ (hv.joinColon_not_mem '/' (by decide) (by decide))
    (hv.joinColon_not_mem '%' (by decide) (by decide))]
  obtain ⟨h0, tl, rfl⟩ := List.exists_cons_of_ne_nil hne
  have htl : tl ≠ [] := by intro e; simp [e] at hlen
  obtain ⟨mid, h7, rfl⟩ := exists_snoc tl htl
  have hdot : h7.contains '.' = false := by
    have := hv.not_mem '.' (by decide) h7 (by simp)
    simpa using this
  have hj : joinColon (h0 :: (mid ++ [h7])) ≠ [] := by
    intro e
    have := splitOn_joinColon _ hne hcol
    rw [e] at this
    simp [splitOn] at this
  unfold parseV6Core
  simp only [List.isEmpty_iff, hj, if_false, splitOn_joinColon _ hne hcol]
  have hl3 : ¬ (h0 :: (mid ++ [h7])).length < 3 := by simp at hlen ⊢; omega
  rw [if_neg hl3]
  have hlast : (h0 :: (mid ++ [h7])).getLast?.getD [] = h7 := by
    rw [← List.cons_append, List.getLast?_append]; simp
  simp only [hlast, hdot, Bool.false_eq_true, if_false]
  have hends : ends ((h0 :: (mid ++ [h7])).map Part.txt) = some (Part.txt h0, mid.map Part.txt, Part.txt h7) := by
    simpa using ends_cons_append (Part.txt h0) (mid.map Part.txt) (Part.txt h7)
  simp only [hends]
  have hnon := txt_nonempty hv
  have hmid : ∀ p ∈ mid.map Part.txt, p.isEmpty = false := fun p hp => hnon p (by
    simp only [List.map_cons, List.map_append, List.mem_cons, List.mem_append]; exact Or.inr (Or.inl hp))
  have hm6 : mid.length = 6 := by simp at hlen; omega
  unfold parseV6Parts
  simp only [breakEmpty_none _ hmid, List.length_map, hm6]
  have e0 : (Part.txt h0).isEmpty = false := hnon _ (by simp)
  have e7 : (Part.txt h7).isEmpty = false := hnon _ (by simp)
  simp only [e0, e7]
  have := hextets_txt _ vs hv 0
  simpa [groupsVal] using this

theorem parseV6Core_of_split (s : Str) (ps : List Str) (hs : s ≠ []) (hps : splitOn ':' s = ps)
    (h3 : 3 ≤ ps.length) (ini : List Str) (lastS : Str) (hlast : ps = ini ++ [lastS])
    (hdot' : lastS.contains '.' = false) (f : Part) (m : List Part) (l : Part)
    (he : ps.map Part.txt = f :: m ++ [l]) : parseV6Core s = parseV6Parts f m l := by
  have hdot : (ps.getLast?.getD []).contains '.' = false := by
    rw [hlast, List.getLast?_append]; simpa using hdot'
  unfold parseV6Core
  have h3' : ¬ ps.length < 3 := by omega
  simp only [List.isEmpty_iff, hs, if_false, hps]
  rw [if_neg h3']
  simp only [hdot, Bool.false_eq_true, if_false, he, ends_cons_append]

theorem any_isEmpty_false (m : List Part) (h : ∀ p ∈ m, p.isEmpty = false) : m.any Part.isEmpty = false := by
  induction m with
  | nil => rfl
  | cons p m ih => simp [h p (by simp), ih (fun q hq => h q (by simp [hq]))]

/-- **the compressed form**: `::` stands for the zero groups that make up eight; it may be at the start, in the
    middle or at the end, at most 7 groups are written. (`groupsVal (vh ++ zeros ++ vl)` is the number the full
    form of the same eight groups denotes, `parseV6_full`.) -/
theorem parseV6_compressed (hs ls : List Str) (vh vl : List Nat) (hh : Hextets hs vh) (hl : Hextets ls vl)
    (hlen : hs.length + ls.length ≤ 7) :
    parseV6 (joinColon hs ++ ':' :: ':' :: joinColon ls) =
      some (groupsVal (vh ++ List.replicate (8 - (hs.length + ls.length)) 0 ++ vl)) := by
  have hs1 : ∀ c, isHexDigit c = false → c ≠ ':' → c ∉ joinColon hs ++ ':' :: ':' :: joinColon ls := by
    intro c h1 h2
    simp only [List.mem_append, List.mem_cons, not_or]
    exact ⟨hh.joinColon_not_mem c h1 h2, h2, h2, hl.joinColon_not_mem c h1 h2⟩
  rw [parseV6_plain _ (hs1 '/' (by decide) (by decide)) (hs1 '%' (by decide) (by decide))]
  have hne : joinColon hs ++ ':' :: ':' :: joinColon ls ≠ [] := by simp
  have hsplit : splitOn ':' (joinColon hs ++ ':' :: ':' :: joinColon ls) =
      splitOn ':' (joinColon hs) ++ [] :: splitOn ':' (joinColon ls) := by
    rw [splitOn_append_sep]; simp [splitOn]
  have hnh := txt_nonempty hh
  have hnl := txt_nonempty hl
  have hgv : ∀ k, groupsVal (vh ++ List.replicate k 0 ++ vl) =
      vl.foldl (fun a v => a * 65536 + v) (vh.foldl (fun a v => a * 65536 + v) 0 * 65536 ^ k) := by
    intro k; simp [groupsVal, List.foldl_append, foldl_zeros]
  rw [hgv]
  cases hs with
  | nil =>
    have hvh : vh = [] := by have := hh.length; simpa using this.symm
    subst hvh
    cases List.eq_nil_or_concat ls with
    | inl hls =>
      subst hls
      have hvl : vl = [] := by have := hl.length; simpa using this.symm
      subst hvl
      rw [parseV6Core_of_split _ _ hne hsplit (by simp [joinColon, splitOn]) [[], []] [] (by simp [joinColon, splitOn])
        (by simp) (Part.txt []) [Part.txt []] (Part.txt []) (by simp [joinColon, splitOn])]
      simp [parseV6Parts, breakEmpty, Part.isEmpty, hextets]
    | inr hls =>
      obtain ⟨ls', q, rfl⟩ := hls
      simp only [List.concat_eq_append] at *
      have hcl : ∀ h ∈ ls' ++ [q], ':' ∉ h := hl.not_mem ':' (by decide)
      have hsj := splitOn_joinColon (ls' ++ [q]) (by simp) hcl
      have hdot : q.contains '.' = false := by
        have := hl.not_mem '.' (by decide) q (by simp); simpa using this
      have hq : (Part.txt q).isEmpty = false := hnl _ (by simp)
      have hqn : q ≠ [] := hl.ne_nil q (by simp)
      have hl' : ∀ p ∈ ls'.map Part.txt, p.isEmpty = false := fun p hp => hnl p (by
        simp only [List.map_append, List.mem_append]; exact Or.inl hp)
      rw [parseV6Core_of_split _ _ hne hsplit (by simp [joinColon, splitOn, hsj])
        ([] :: [] :: ls') q (by simp [joinColon, splitOn, hsj]) hdot
        (Part.txt []) (Part.txt [] :: ls'.map Part.txt) (Part.txt q) (by simp [joinColon, splitOn, hsj])]
      have hb := breakEmpty_some [] (ls'.map Part.txt) (by simp)
      simp only [List.nil_append] at hb
      have h9 : ¬ (ls'.length + 1 + 2 > 9) := by simp at hlen; omega
      have h7 : ¬ (ls'.length + 1 > 7) := by simp at hlen; omega
      have hx := hextets_txt _ vl hl 0
      simp only [List.map_append, List.map_cons, List.map_nil] at hx
      simp [parseV6Parts, hb, any_isEmpty_false _ hl', hq, hqn, Part.isEmpty, h9, h7, hextets, hx]
  | cons p hs' =>
    have hch : ∀ h ∈ p :: hs', ':' ∉ h := hh.not_mem ':' (by decide)
    have hsjh := splitOn_joinColon (p :: hs') (by simp) hch
    have hp : (Part.txt p).isEmpty = false := hnh _ (by simp)
    have hpn : p ≠ [] := hh.ne_nil p (by simp)
    have hh' : ∀ q ∈ hs'.map Part.txt, q.isEmpty = false := fun q hq => hnh q (by
      simp only [List.map_cons, List.mem_cons]; exact Or.inr hq)
    have hxh := hextets_txt _ vh hh 0
    simp only [List.map_cons] at hxh
    cases List.eq_nil_or_concat ls with
    | inl hls =>
      subst hls
      have hvl : vl = [] := by have := hl.length; simpa using this.symm
      subst hvl
      rw [parseV6Core_of_split _ _ hne hsplit (by simp [joinColon, splitOn, hsjh])
        (p :: hs' ++ [[]]) [] (by simp [joinColon, splitOn, hsjh]) (by simp)
        (Part.txt p) (hs'.map Part.txt ++ [Part.txt []]) (Part.txt []) (by simp [joinColon, splitOn, hsjh])]
      have hb := breakEmpty_some (hs'.map Part.txt) [] hh'
      have h9 : ¬ (hs'.length + 1 + 2 > 9) := by simp at hlen; omega
      have h7 : ¬ (hs'.length + 1 > 7) := by simp at hlen; omega
      simp [parseV6Parts, hb, hp, hpn, Part.isEmpty, h9, h7, hextets, hxh]
    | inr hls =>
      obtain ⟨ls', q, rfl⟩ := hls
      simp only [List.concat_eq_append] at *
      have hcl : ∀ h ∈ ls' ++ [q], ':' ∉ h := hl.not_mem ':' (by decide)
      have hsj := splitOn_joinColon (ls' ++ [q]) (by simp) hcl
      have hdot : q.contains '.' = false := by
        have := hl.not_mem '.' (by decide) q (by simp); simpa using this
      have hq : (Part.txt q).isEmpty = false := hnl _ (by simp)
      have hqn : q ≠ [] := hl.ne_nil q (by simp)
      have hl' : ∀ p ∈ ls'.map Part.txt, p.isEmpty = false := fun p hp => hnl p (by
        simp only [List.map_append, List.mem_append]; exact Or.inl hp)
      rw [parseV6Core_of_split _ _ hne hsplit (by simp [joinColon, splitOn, hsjh, hsj]; omega)
        (p :: hs' ++ [] :: ls') q (by simp [joinColon, splitOn, hsjh, hsj]) hdot
        (Part.txt p) (hs'.map Part.txt ++ Part.txt [] :: ls'.map Part.txt) (Part.txt q)
        (by simp [joinColon, splitOn, hsjh, hsj])]
      have hb := breakEmpty_some (hs'.map Part.txt) (ls'.map Part.txt) hh'
      have h9 : ¬ (hs'.length + (ls'.length + 1) + 2 > 9) := by simp at hlen; omega
      have h7 : ¬ (hs'.length + 1 + (ls'.length + 1) > 7) := by simp at hlen; omega
      have hx := hextets_txt _ vl hl
      simp only [List.map_append, List.map_cons, List.map_nil] at hx
      simp [parseV6Parts, hb, any_isEmpty_false _ hl', hp, hq, hpn, hqn, Part.isEmpty, h9, h7, hextets, hxh, hx]

/-! ### consequences: spellings of one address; zones -/

theorem Hextets.append {a b : List Str} {va vb : List Nat} (ha : Hextets a va) (hb : Hextets b vb) :
    Hextets (a ++ b) (va ++ vb) := by
  unfold Hextets at *; simp [ha, hb]

theorem Hextets.zeros (k : Nat) : Hextets (List.replicate k ['0']) (List.replicate k 0) := by
  have : parseHextet ['0'] = some 0 := by decide
  unfold Hextets; simp [List.map_replicate, this]

/-- `::` is an abbreviation: the compressed form and the full form with `0` groups written out are the same
    address -/
theorem parseV6_compressed_eq_full (hs ls : List Str) (vh vl : List Nat) (hh : Hextets hs vh) (hl : Hextets ls vl)
    (hlen : hs.length + ls.length ≤ 7) :
    parseV6 (joinColon hs ++ ':' :: ':' :: joinColon ls) =
      parseV6 (joinColon (hs ++ List.replicate (8 - (hs.length + ls.length)) ['0'] ++ ls)) := by
  rw [parseV6_compressed hs ls vh vl hh hl hlen,
    parseV6_full _ _ ((hh.append (Hextets.zeros _)).append hl) (by simp; omega)]

/-- the spelling of the groups does not matter (letter case, leading zeros, …): full forms whose groups denote
    the same numbers are the same address -/
theorem parseV6_full_congr (hs hs' : List Str) (vs : List Nat) (h : Hextets hs vs) (h' : Hextets hs' vs)
    (hlen : hs.length = 8) : parseV6 (joinColon hs) = parseV6 (joinColon hs') := by
  rw [parseV6_full hs vs h hlen, parseV6_full hs' vs h' (by rw [h'.length, ← h.length, hlen])]

theorem Hextets.upper {hs : List Str} {vs : List Nat} (h : Hextets hs vs) :
    Hextets (hs.map (List.map Char.toUpper)) vs := by
  unfold Hextets at *
  rw [← h, List.map_map]
  apply List.map_congr_left
  intro w _
  exact parseHextet_toUpper w

theorem Hextets.lower {hs : List Str} {vs : List Nat} (h : Hextets hs vs) :
    Hextets (hs.map (List.map Char.toLower)) vs := by
  unfold Hextets at *
  rw [← h, List.map_map]
  apply List.map_congr_left
  intro w _
  exact parseHextet_toLower w

/-- an address written in capitals is the same address (full and compressed forms) -/
theorem parseV6_upper (hs ls : List Str) (vh vl : List Nat) (hh : Hextets hs vh) (hl : Hextets ls vl) :
    (hs.length = 8 → parseV6 (joinColon (hs.map (List.map Char.toUpper))) = parseV6 (joinColon hs)) ∧
    (hs.length + ls.length ≤ 7 →
      parseV6 (joinColon (hs.map (List.map Char.toUpper)) ++ ':' :: ':' :: joinColon (ls.map (List.map Char.toUpper))) =
        parseV6 (joinColon hs ++ ':' :: ':' :: joinColon ls)) := by
  refine ⟨fun h8 => ?_, fun h7 => ?_⟩
  · exact parseV6_full_congr _ _ vh hh.upper hh (by simpa using h8)
  · rw [parseV6_compressed _ _ vh vl hh.upper hl.upper (by simpa using h7),
      parseV6_compressed hs ls vh vl hh hl h7]
    simp

/-- a zone (`%eth0`) is accepted after an address and plays no part in its number -/
theorem parseV6_zone (s z : Str) (hs : '%' ∉ s) (hz : z ≠ []) (hz1 : '%' ∉ z) (hz2 : '/' ∉ z) :
    parseV6 (s ++ '%' :: z) = parseV6 s := by
  unfold parseV6
  have hc : (s ++ '%' :: z).contains '/' = s.contains '/' := by
    have : ¬ ('/' = '%') := by decide
    simp [hz2, this]
  rw [hc]
  split
  · rfl
  · simp [splitScope, splitOn_append _ _ _ hs, splitOn_not_mem _ _ hz1, splitOn_not_mem _ _ hs, hz]

/-- an empty zone is an error -/
theorem parseV6_zone_empty (s : Str) (hs : '%' ∉ s) : parseV6 (s ++ ['%']) = none := by
  unfold parseV6
  split
  · rfl
  · simp [splitScope, splitOn_append _ _ _ hs, splitOn]

/-- a second '%' is an error -/
theorem parseV6_zone_twice (s z z' : Str) (hs : '%' ∉ s) (hz : '%' ∉ z) :
    parseV6 (s ++ '%' :: (z ++ '%' :: z')) = none := by
  unfold parseV6
  split
  · rfl
  · have : splitOn '%' (s ++ '%' :: (z ++ '%' :: z')) = s :: z :: splitOn '%' z' := by
      rw [splitOn_append _ _ _ hs, splitOn_append _ _ _ hz]
    cases h : splitOn '%' z' with
    | nil => exact absurd h (splitOn_ne_nil _ _)
    | cons w ws => simp [splitScope, this, h]

/-! non-vacuity and the corners, by evaluation -/
example : parseV4 "192.168.2.123".toList = some 3232236155 := by decide
example : ipMatch "192.168.2.123".toList "192.168.2.0/24".toList = .ok true := by decide
example : ipMatch "192.168.3.1".toList "192.168.2.0/24".toList = .ok false := by decide
example : parseV6 "::".toList = some 0 := by decide
example : parseV6 "::1".toList = some 1 := by decide
example : parseV6 "1::".toList = some (2 ^ 112) := by decide
example : parseV6 "2001:db8::1".toList = some 0x20010db8000000000000000000000001 := by decide
example : parseV6 "2001:DB8:0:0:0:0:0:1".toList = parseV6 "2001:db8::1".toList := by decide
example : parseV6 "2001:0db8:0000:0000:0000:0000:0000:0001".toList = parseV6 "2001:db8::1".toList := by decide
example : parseV6 "::ffff:1.2.3.4".toList = some 0xffff01020304 := by decide
example : parseV6 "::ffff:1.2.3.4".toList = parseV6 "::ffff:102:304".toList := by decide
example : parseV6 "fe80::1%eth0".toList = parseV6 "fe80::1".toList := by decide
example : parseV6 "1:2:3:4:5:6:7::".toList = parseV6 "1:2:3:4:5:6:7:0".toList := by decide
example : parseV6 ":::".toList = none := by decide
example : parseV6 "1::2::3".toList = none := by decide
example : parseV6 "12345::".toList = none := by decide
example : parseV6 "g::".toList = none := by decide
example : parseV6 "::%".toList = none := by decide
example : parseV6 "::1%a%b".toList = none := by decide
example : parseV6 "1:2:3:4:5:6:7:8:9".toList = none := by decide
example : parseV6 "1::3:4:5:6:7:8:9".toList = none := by decide
example : parseV6 ":1:2:3:4:5:6:7".toList = none := by decide
example : parseV6 "1:2:3:4:5:6:7:".toList = none := by decide
example : parseV6 "::1/64".toList = none := by decide
example : parseV6 "::01.2.3.4".toList = none := by decide
example : parseV6 "1.2.3.4".toList = none := by decide
example : Hextets ["2001".toList, "db8".toList] [0x2001, 0xdb8] := by unfold Hextets; decide
example : joinColon ["2001".toList, "db8".toList] ++ ':' :: ':' :: joinColon ["1".toList] = "2001:db8::1".toList := by
  decide

example : ipMatch "2001:db8::1".toList "2001:DB8:0:0:0:0:0:1".toList = .ok true := by decide
example : ipMatch "2001:db8:0:1::9".toList "2001:db8:0:1::/64".toList = .ok true := by decide
example : ipMatch "2001:db8:0:2::9".toList "2001:db8:0:1::/64".toList = .ok false := by decide
example : ipMatch "2001:db8:0:1::9".toList "2001:db8:0:1:ffff::5/64".toList = .ok true := by decide
example : ipMatch "fe80::1%eth0".toList "fe80::%eth1/10".toList = .ok true := by decide
example : ipMatch "2001:db8::1".toList "::/0".toList = .ok true := by decide
example : ipMatch "10.0.0.1".toList "::/0".toList = .ok false := by decide
example : ipMatch "::ffff:10.0.0.1".toList "10.0.0.0/8".toList = .ok false := by decide
example : ipMatch "::1".toList "::1/129".toList = .ok false := by decide
example : ipMatch "::1".toList "::1/ 64".toList = .ok false := by decide
example : ipMatch "::1".toList "::1/64/64".toList = .ok false := by decide
example : ipMatch "::1".toList "::1/".toList = .ok false := by decide
example : ipMatch "::1".toList "::1/ffff::".toList = .ok false := by decide
example : ipMatch ":::".toList "::/0".toList = .err .valueError := by decide
example : ipMatch "10.1.2.3".toList "10.1.0.0/255.255.0.0".toList = .ok true := by decide
example : ipMatch "10.1.2.3".toList "10.1.0.0/0.0.255.255".toList = .ok true := by decide
example : ipMatch "10.1.2.3".toList "10.1.0.0/255.0.255.0".toList = .ok false := by decide
example : ipSpec "2001:db8::1".toList "2001:DB8::/32".toList = some true := by decide
example : ipSpec "10.0.0.1".toList "2001:DB8::/32".toList = some false := by decide
example : ipSpec "2001:db8::1".toList "2001:DB8::/129".toList = none := by decide

/-! ### the dotted-quad suffix -/

theorem parseOctet_le (w : Str) (v : Nat) (h : parseOctet w = some v) : v ≤ 255 := by
  unfold parseOctet at h
  split at h
  · simp at h
  · split at h
    · simp at h
    · split at h
      · simp at h
      · split at h
        · simp at h
        · simp only at h
          split at h
          · simp at h
          · simp at h; omega

/-- an IPv4 address text denotes a 32-bit number and contains a dot -/
theorem parseV4_lt (s : Str) (v : Nat) (h : parseV4 s = some v) : v < 2 ^ 32 ∧ '.' ∈ s := by
  refine ⟨?_, ?_⟩
  · unfold parseV4 at h
    split at h
    · split at h
      · rename_i va vb vc vd ha hb hc hd
        simp at h
        have := parseOctet_le _ _ ha
        have := parseOctet_le _ _ hb
        have := parseOctet_le _ _ hc
        have := parseOctet_le _ _ hd
        omega
      · simp at h
    · simp at h
  · apply Classical.byContradiction
    intro hn
    unfold parseV4 at h
    rw [splitOn_not_mem _ _ hn] at h
    simp at h

/-- **the IPv4-mapped form** `::ffff:a.b.c.d` denotes `0xffff` followed by the 32 bits of the IPv4 address
    (it stays an IPv6 address: `ipMatch_mixed`) -/
theorem parseV6_mapped (d : Str) (v : Nat) (h : parseV4 d = some v) :
    parseV6 ("::ffff:".toList ++ d) = some (0xffff * 2 ^ 32 + v) := by
  have hc := parseV4_chars d v h
  have h1 : ':' ∉ d := not_mem_of_all _ _ _ hc (by decide)
  have h2 : '/' ∉ d := not_mem_of_all _ _ _ hc (by decide)
  have h3 : '%' ∉ d := not_mem_of_all _ _ _ hc (by decide)
  obtain ⟨hlt, hdot⟩ := parseV4_lt d v h
  have hdot' : d.contains '.' = true := by simpa using hdot
  rw [parseV6_plain _ (by simp [h2]) (by simp [h3])]
  have hsp : splitOn ':' ("::ffff:".toList ++ d) = [[], [], "ffff".toList, d] := by
    simp [splitOn, splitOn_not_mem _ _ h1]
  unfold parseV6Core
  rw [hsp]
  have hf : parseHextet ['f', 'f', 'f', 'f'] = some 65535 := by decide
  simp [hdot, h, ends, parseV6Parts, breakEmpty, Part.isEmpty, hextets, Part.val, hf]
  omega

example : parseV6 "::ffff:10.0.0.1".toList = some (0xffff * 2 ^ 32 + 167772161) := by decide

/-! ## The executable denotations say what the property says (declarative reading) -/

/-- a key is denoted by a keyMatch2/3/5 pattern: literals match themselves, `*` any text,
    a variable one non-empty run of characters without '/' -/
inductive DenotesK : List KTok → Str → Prop
  | nil : DenotesK [] []
  | lit {c : Char} {ts : List KTok} {s : Str} : DenotesK ts s → DenotesK (.lit c :: ts) (c :: s)
  | star {ts : List KTok} {s : Str} (w : Str) : DenotesK ts s → DenotesK (.star :: ts) (w ++ s)
  | var {ts : List KTok} {s : Str} (w : Str) : w ≠ [] → '/' ∉ w → DenotesK ts s → DenotesK (.var :: ts) (w ++ s)

theorem anySuffix_iff (k : Str → Bool) (s : Str) :
    anySuffix k s = true ↔ ∃ w s', s = w ++ s' ∧ k s' = true := by
  induction s with
  | nil =>
    simp only [anySuffix]
    constructor
    · intro h; exact ⟨[], [], rfl, h⟩
    · rintro ⟨w, s', e, h⟩
      have : s' = [] := by cases w <;> simp_all
      subst this; exact h
  | cons c s ih =>
    simp only [anySuffix, Bool.or_eq_true, ih]
    constructor
    · rintro (h | ⟨w, s', rfl, h⟩)
      · exact ⟨[], c :: s, rfl, h⟩
      · exact ⟨c :: w, s', rfl, h⟩
    · rintro ⟨w, s', e, h⟩
      cases w with
      | nil => simp at e; subst e; exact Or.inl h
      | cons d w => simp at e; obtain ⟨rfl, rfl⟩ := e; exact Or.inr ⟨w, s', rfl, h⟩

theorem anyRun_iff (k : Str → Bool) (s : Str) :
    anyRun k s = true ↔ ∃ w s', s = w ++ s' ∧ '/' ∉ w ∧ k s' = true := by
  induction s with
  | nil =>
    simp only [anyRun]
    constructor
    · intro h; exact ⟨[], [], rfl, by simp, h⟩
    · rintro ⟨w, s', e, _, h⟩
      have : s' = [] := by cases w <;> simp_all
      subst this; exact h
  | cons c s ih =>
    simp only [anyRun, Bool.or_eq_true, Bool.and_eq_true, ih]
    constructor
    · rintro (h | ⟨hc, w, s', rfl, hw, h⟩)
      · exact ⟨[], c :: s, rfl, by simp, h⟩
      · refine ⟨c :: w, s', rfl, ?_, h⟩
        simp only [List.mem_cons, not_or]
        exact ⟨fun e => by subst e; simp at hc, hw⟩
    · rintro ⟨w, s', e, hw, h⟩
      cases w with
      | nil => simp at e; subst e; exact Or.inl h
      | cons d w =>
        simp at e; obtain ⟨rfl, rfl⟩ := e
        simp only [List.mem_cons, not_or] at hw
        refine Or.inr ⟨?_, w, s', rfl, hw.2, h⟩
        have : ¬ c = '/' := fun e => hw.1 e.symm
        simp [this]

theorem denK_iff (ts : List KTok) (s : Str) : denK ts s = true ↔ DenotesK ts s := by
  induction ts generalizing s with
  | nil =>
    simp only [denK]
    constructor
    · intro h; have : s = [] := by simpa using h
      subst this; exact .nil
    · intro h; cases h; rfl
  | cons t ts ih =>
    cases t with
    | lit c =>
      cases s with
      | nil =>
        simp only [denK]
        constructor
        · intro h; simp at h
        · intro h; cases h
      | cons x s =>
        simp only [denK, Bool.and_eq_true, beq_iff_eq, ih]
        constructor
        · rintro ⟨rfl, h⟩; exact .lit h
        · intro h; cases h with | lit h => exact ⟨rfl, h⟩
    | star =>
      simp only [denK, anySuffix_iff]
      constructor
      · rintro ⟨w, s', rfl, h⟩; exact .star w ((ih s').1 h)
      · intro h; cases h with | star w h => exact ⟨w, _, rfl, (ih _).2 h⟩
    | var =>
      cases s with
      | nil =>
        simp only [denK]
        constructor
        · intro h; simp at h
        · intro h
          generalize he : ([] : Str) = e at h
          cases h with
          | var w hw _ _ =>
            cases w with
            | nil => exact absurd rfl hw
            | cons d w => simp at he
      | cons x s =>
        simp only [denK, Bool.and_eq_true, anyRun_iff]
        constructor
        · rintro ⟨hx, w, s', rfl, hw, h⟩
          have hx' : ¬ x = '/' := by simpa using hx
          have := DenotesK.var (x :: w) (by simp) (by
            simp only [List.mem_cons, not_or]; exact ⟨fun e => hx' e.symm, hw⟩) ((ih s').1 h)
          simpa using this
        · intro h
          generalize he : x :: s = e at h
          cases h with
          | var w hw hs h =>
            cases w with
            | nil => exact absurd rfl hw
            | cons d w =>
              simp at he; obtain ⟨rfl, rfl⟩ := he
              simp only [List.mem_cons, not_or] at hs
              have : ¬ x = '/' := fun e => hs.1 e.symm
              exact ⟨by simp [this], w, _, rfl, hs.2, (ih _).2 h⟩

/-- a string is denoted by a glob pattern (shell / pathname rules): a literal matches itself, `?` and a class one
    character other than '/', `*` any run of characters other than '/'; `bad` (dangling backslash in a class) nothing -/
inductive GDenotes : List GTok → Str → Prop
  | nil : GDenotes [] []
  | lit {c : Char} {ts : List GTok} {s : Str} : GDenotes ts s → GDenotes (.lit c :: ts) (c :: s)
  | any1 {x : Char} {ts : List GTok} {s : Str} : x ≠ '/' → GDenotes ts s → GDenotes (.any1 :: ts) (x :: s)
  | cls {x : Char} {neg : Bool} {items : List Item} {ts : List GTok} {s : Str} :
      x ≠ '/' → inItems x items ≠ neg → GDenotes ts s → GDenotes (.cls neg items :: ts) (x :: s)
  | star {ts : List GTok} {s : Str} (w : Str) : '/' ∉ w → GDenotes ts s → GDenotes (.star :: ts) (w ++ s)

theorem den_star_anyRun (ts : List GTok) (s : Str) : den (.star :: ts) s = anyRun (den ts) s := by
  induction s with
  | nil => rw [den_star_nil']; rfl
  | cons c s ih => rw [den_star_cons, ih]; rfl

theorem den_iff (ts : List GTok) (s : Str) : den ts s = true ↔ GDenotes ts s := by
  induction ts generalizing s with
  | nil =>
    simp only [den]
    constructor
    · intro h; have : s = [] := by simpa using h
      subst this; exact .nil
    · intro h; cases h; rfl
  | cons t ts ih =>
    cases t with
    | lit c =>
      cases s with
      | nil =>
        simp only [den]
        constructor
        · intro h; simp at h
        · intro h; cases h
      | cons x s =>
        simp only [den, Bool.and_eq_true, beq_iff_eq, ih]
        constructor
        · rintro ⟨rfl, h⟩; exact .lit h
        · intro h; cases h with | lit h => exact ⟨rfl, h⟩
    | any1 =>
      cases s with
      | nil =>
        simp only [den]
        constructor
        · intro h; simp at h
        · intro h; cases h
      | cons x s =>
        simp only [den, Bool.and_eq_true, ih]
        constructor
        · rintro ⟨hx, h⟩; exact .any1 (by simpa using hx) h
        · intro h; cases h with | any1 hx h => exact ⟨by simpa using hx, h⟩
    | cls neg items =>
      cases s with
      | nil =>
        simp only [den]
        constructor
        · intro h; simp at h
        · intro h; cases h
      | cons x s =>
        simp only [den, Bool.and_eq_true, ih]
        constructor
        · rintro ⟨⟨hx, hi⟩, h⟩; exact .cls (by simpa using hx) (by simpa using hi) h
        · intro h; cases h with | cls hx hi h => exact ⟨⟨by simpa using hx, by simpa using hi⟩, h⟩
    | bad =>
      simp only [den]
      constructor
      · intro h; simp at h
      · intro h; cases h
    | star =>
      rw [den_star_anyRun, anyRun_iff]
      constructor
      · rintro ⟨w, s', rfl, hw, h⟩; exact .star w hw ((ih s').1 h)
      · intro h; cases h with | star w hw h => exact ⟨w, _, rfl, hw, (ih _).2 h⟩

/-- **glob**, declaratively: the repaired matcher accepts exactly the strings the tokenised pattern denotes -/
theorem glob_denotes (p s : Str) : glob p s = true ↔ GDenotes (tokenize p) s := by
  rw [glob_spec, den_iff]

/-! ## keyMatch4's token loop and the keyGet group selection -/

theorem lookup_mem {α β : Type} [BEq α] [LawfulBEq α] (l : List (α × β)) (a : α) (b : β)
    (h : l.lookup a = some b) : (a, b) ∈ l := by
  induction l with
  | nil => simp at h
  | cons x l ih =>
    obtain ⟨a', b'⟩ := x
    simp only [List.lookup] at h
    split at h
    · rename_i heq; simp at heq; simp at h; subst h; subst heq; simp
    · exact List.mem_cons_of_mem _ (ih h)

theorem mem_mid {α : Type} (x a : α) (s r : List α) : x ∈ (a :: s) ++ r ↔ x ∈ s ++ a :: r := by
  simp only [List.cons_append, List.mem_cons, List.mem_append]
  constructor
  · rintro (h | h | h)
    · exact Or.inr (Or.inl h)
    · exact Or.inl h
    · exact Or.inr (Or.inr h)
  · rintro (h | h | h)
    · exact Or.inr (Or.inl h)
    · exact Or.inl h
    · exact Or.inr (Or.inr h)

theorem mem_weaken {α : Type} (x a : α) (s r : List α) (h : x ∈ s ++ r) : x ∈ s ++ a :: r := by
  simp only [List.mem_append, List.mem_cons] at h ⊢
  rcases h with h | h
  · exact Or.inl h
  · exact Or.inr (Or.inr h)

/-- invariant form: `seen` is functional and every later pair agrees with it -/
theorem bindCheck_iff (seen pairs : List (Str × Str))
    (hs : ∀ t v v', (t, v) ∈ seen → (t, v') ∈ seen → v = v') :
    bindCheck seen pairs = true ↔
      ∀ t v v', (t, v) ∈ seen ++ pairs → (t, v') ∈ seen ++ pairs → v = v' := by
  induction pairs generalizing seen with
  | nil => simp only [bindCheck, List.append_nil, true_iff]; exact hs
  | cons x r ih =>
    obtain ⟨t0, v0⟩ := x
    simp only [bindCheck]
    split
    · rename_i hl
      have hnot : ∀ v, (t0, v) ∉ seen := by
        intro v hm
        have : seen.lookup t0 ≠ none := by
          induction seen with
          | nil => simp at hm
          | cons y l ihl =>
            obtain ⟨a, b⟩ := y
            simp only [List.lookup]
            split
            · simp
            · rename_i hne
              apply ihl
              · intro t v v' h1 h2; exact hs t v v' (List.mem_cons_of_mem _ h1) (List.mem_cons_of_mem _ h2)
              · simp only [List.lookup] at hl; rw [hne] at hl; exact hl
              · simp only [List.mem_cons, Prod.mk.injEq] at hm
                rcases hm with ⟨rfl, rfl⟩ | hm
                · simp at hne
                · exact hm
        exact this hl
      rw [ih ((t0, v0) :: seen) (by
        intro t v v' h1 h2
        simp only [List.mem_cons, Prod.mk.injEq] at h1 h2
        rcases h1 with ⟨rfl, rfl⟩ | h1 <;> rcases h2 with ⟨h2a, rfl⟩ | h2
        · rfl
        · exact absurd h2 (hnot _)
        · subst h2a; exact absurd h1 (hnot _)
        · exact hs t v v' h1 h2)]
      constructor
      · intro h t v v' h1 h2
        exact h t v v' ((mem_mid _ _ _ _).2 h1) ((mem_mid _ _ _ _).2 h2)
      · intro h t v v' h1 h2
        exact h t v v' ((mem_mid _ _ _ _).1 h1) ((mem_mid _ _ _ _).1 h2)
    · rename_i v1 hl
      have hm := lookup_mem _ _ _ hl
      split
      · rename_i hv; subst hv
        rw [ih seen hs]
        constructor
        · intro h t v v' h1 h2
          have key : ∀ u, (t, u) ∈ seen ++ (t0, v1) :: r → (t, u) ∈ seen ++ r := by
            intro u hu
            simp only [List.mem_append, List.mem_cons, Prod.mk.injEq] at hu ⊢
            rcases hu with hu | ⟨rfl, rfl⟩ | hu
            · exact Or.inl hu
            · exact Or.inl hm
            · exact Or.inr hu
          exact h t v v' (key v h1) (key v' h2)
        · intro h t v v' h1 h2
          exact h t v v' (mem_weaken _ _ _ _ h1) (mem_weaken _ _ _ _ h2)
      · rename_i hv
        constructor
        · intro h; simp at h
        · intro h
          exfalso; apply hv
          apply h t0 v1 v0
          · simp only [List.mem_append]; exact Or.inl hm
          · simp

/-- **keyMatch4, the binding loop**: after a successful regex match the function answers `True` exactly when
    equal names captured equal texts -/
theorem bindCheck_spec (pairs : List (Str × Str)) :
    bindCheck [] pairs = true ↔ ∀ t v v', (t, v) ∈ pairs → (t, v') ∈ pairs → v = v' := by
  have := bindCheck_iff [] pairs (by intro t v v' h; simp at h)
  simpa using this

example : bindCheck [] [("id".toList, "1".toList), ("x".toList, "2".toList), ("id".toList, "1".toList)] = true := by
  decide
example : bindCheck [] [("id".toList, "1".toList), ("id".toList, "2".toList)] = false := by decide

/-- **keyGet2 / keyGet3, group selection**: the answer is the capture at the position of the first variable
    named `v` (empty when there is none) -/
theorem pickGroup_spec (v : Str) (names caps : List Str) (h : names.length = caps.length) :
    pickGroup v names caps = ((names.zip caps).lookup v).getD [] := by
  induction names generalizing caps with
  | nil => cases caps <;> simp [pickGroup]
  | cons n ns ih =>
    cases caps with
    | nil => simp at h
    | cons g gs =>
      simp only [List.length_cons, Nat.add_right_cancel_iff] at h
      simp only [pickGroup, List.zip_cons_cons, List.lookup]
      by_cases hv : v = n
      · subst hv; simp
      · have : (v == n) = false := by simp [hv]
        simp [hv, this, ih gs h]

/-! ## Captures: for patterns whose variables end at a '/' (or at the end) the match is unique -/

theorem repG_seg {α : Type} (k : Str → Option α)
    (hk : ∀ c x, c ≠ '/' → k (c :: x) = none) (cs : Bool) (s : Str) :
    repG Atom.notSlash.ok k cs s =
      (if (takeSeg s).isEmpty && !cs then none
       else (k (s.drop (takeSeg s).length)).map (fun r => (takeSeg s, r))) := by
  induction s generalizing cs with
  | nil => cases cs <;> simp [repG, takeSeg]
  | cons c s ih =>
    by_cases hc : c = '/'
    · subst hc
      cases cs <;> simp [repG, takeSeg, Atom.ok]
    · have hok : Atom.notSlash.ok c = true := by simp [Atom.ok, hc]
      simp only [repG, hok, if_true, ih true, takeSeg, hc, if_false, List.isEmpty_cons, Bool.false_and,
        Bool.and_false, Bool.not_true, List.length_cons, List.drop_succ_cons, Option.map_map,
        Bool.false_eq_true]
      cases hkd : k (s.drop (takeSeg s).length) with
      | some r => simp
      | none =>
        simp only [Option.map_none]
        cases cs
        · rfl
        · simp [hk c s hc]

theorem repL_seg {α : Type} (k : Str → Option α)
    (hk : ∀ c x, c ≠ '/' → k (c :: x) = none) (cs : Bool) (s : Str) :
    repL Atom.notSlash.ok k cs s =
      (if (takeSeg s).isEmpty && !cs then none
       else (k (s.drop (takeSeg s).length)).map (fun r => (takeSeg s, r))) := by
  induction s generalizing cs with
  | nil => cases cs <;> simp [repL, takeSeg]
  | cons c s ih =>
    by_cases hc : c = '/'
    · subst hc
      cases cs
      · simp [repL, takeSeg, Atom.ok]
      · cases hkd : k ('/' :: s) <;> simp [repL, takeSeg, Atom.ok, hkd]
    · have hok : Atom.notSlash.ok c = true := by simp [Atom.ok, hc]
      have hkc : k (c :: s) = none := hk c s hc
      simp only [repL, hkc, Option.map_none, hok, if_true, ih true, takeSeg, hc, if_false,
        List.isEmpty_cons, Bool.false_and, Bool.and_false, Bool.not_true, List.length_cons,
        List.drop_succ_cons, Option.map_map, Bool.false_eq_true]
      cases cs <;> simp [Function.comp_def]

theorem repG_all {α : Type} (ok : Char → Bool) (k : Str → Option α) (s : Str) (r : α)
    (hok : ∀ c ∈ s, ok c = true) (hk : k [] = some r) : repG ok k true s = some (s, r) := by
  induction s with
  | nil => simp [repG, hk]
  | cons c s ih =>
    have h1 : ok c = true := hok c (by simp)
    have h2 := ih (fun d hd => hok d (by simp [hd]))
    simp [repG, h1, h2]

/-- with a capturing variable node (`([^/]+)` or `([^/]+?)`) the first successful match of a pattern in
    `detForm` binds exactly the segments `capsOf` computes — for EVERY key -/
theorem matchNodes_caps (q : Quant) (hq : q = .plus ∨ q = .plusLazy) (ts : List KTok) (s : Str)
    (hd : detForm ts = true) :
    matchNodes (ts.map (nodeOfV { atom := .notSlash, q := q, cap := true })) s = capsOf ts s := by
  induction ts generalizing s with
  | nil => simp [matchNodes, capsOf, atEnd_eq s]
  | cons t ts ih =>
    cases t with
    | lit c =>
      have hd' : detForm ts = true := by simpa [detForm] using hd
      cases s with
      | nil => simp [matchNodes, capsOf, nodeOfV]
      | cons x s' =>
        simp only [List.map_cons, matchNodes, nodeOfV, capsOf, Atom.ok, ih s' hd']
        by_cases hx : x = c
        · subst hx; simp [Option.map_map, Function.comp_def]
        · have : (x == c) = false := by simp [hx]
          simp [this, hx]
    | star =>
      have hts : ts = [] := by simpa [detForm] using hd
      subst hts
      have := repG_all Atom.dot.ok (matchNodes []) s [] (fun _ _ => rfl) (by simp [matchNodes, atEnd])
      simp [matchNodes, nodeOfV, capsOf]
      exact ⟨s, by simpa [matchNodes] using this⟩
    | var =>
      simp only [detForm, Bool.and_eq_true] at hd
      obtain ⟨hnext, hd'⟩ := hd
      have hk : ∀ c x, c ≠ '/' →
          matchNodes (ts.map (nodeOfV { atom := .notSlash, q := q, cap := true })) (c :: x) = none := by
        intro c x hc
        cases ts with
        | nil =>
          have : atEnd (c :: x) = false := rfl
          simp [matchNodes, this]
        | cons t' ts' =>
          cases t' with
          | lit c' =>
            have : c' = '/' := by simpa using hnext
            subst this
            have : (c == '/') = false := by simp [hc]
            simp [matchNodes, nodeOfV, Atom.ok, this]
          | star => simp at hnext
          | var => simp at hnext
      have key : ∀ (rep : Option (Str × List Str)),
          rep = (if (takeSeg s).isEmpty && !false then none
                 else (matchNodes (ts.map (nodeOfV { atom := .notSlash, q := q, cap := true }))
                   (s.drop (takeSeg s).length)).map (fun r => (takeSeg s, r))) →
          rep.map (fun wc => wc.1 :: wc.2) = capsOf (.var :: ts) s := by
        intro rep hrep
        subst hrep
        simp only [capsOf, Bool.not_false, Bool.and_true]
        split
        · rfl
        · rw [ih _ hd']
          simp [Option.map_map, Function.comp_def]
      rcases hq with rfl | rfl
      · simp only [List.map_cons, matchNodes, nodeOfV, if_true]
        exact key _ (repG_seg _ hk false s)
      · simp only [List.map_cons, matchNodes, nodeOfV, if_true]
        exact key _ (repL_seg _ hk false s)

/-! ### capturing replacements -/

/-- `([^/]+)` -/
theorem parseItem_capNotSlash (Y : Str) (hY : headOK Y = true) :
    parseItem (capNotSlash ++ Y) = .ok { atom := .notSlash, q := .plus, cap := true } Y := by
  show parseItem ('(' :: '[' :: '^' :: '/' :: ']' :: '+' :: ')' :: Y) = _
  have ha : parseAtom ('[' :: '^' :: '/' :: ']' :: '+' :: ')' :: Y) = .ok .notSlash ('+' :: ')' :: Y) := by
    simp [parseAtom]
  have hq := parseQuant_plus (')' :: Y) (by simp [headOK, isQuantChar])
  cases Y with
  | nil => simp [parseItem, ha, hq]
  | cons h Y =>
    obtain ⟨h1, h2, h3, h4⟩ := headOK_cons h Y hY
    simp [parseItem, ha, hq, isQuantChar, h1, h2, h3, braceQuant_headOK _ hY]

/-- `([^\/]+)` -/
theorem parseItem_capNotSlashEsc (Y : Str) (hY : headOK Y = true) :
    parseItem (capNotSlashEsc ++ Y) = .ok { atom := .notSlash, q := .plus, cap := true } Y := by
  show parseItem ('(' :: '[' :: '^' :: '\\' :: '/' :: ']' :: '+' :: ')' :: Y) = _
  have ha : parseAtom ('[' :: '^' :: '\\' :: '/' :: ']' :: '+' :: ')' :: Y) = .ok .notSlash ('+' :: ')' :: Y) := by
    simp [parseAtom]
  have hq := parseQuant_plus (')' :: Y) (by simp [headOK, isQuantChar])
  cases Y with
  | nil => simp [parseItem, ha, hq]
  | cons h Y =>
    obtain ⟨h1, h2, h3, h4⟩ := headOK_cons h Y hY
    simp [parseItem, ha, hq, isQuantChar, h1, h2, h3, braceQuant_headOK _ hY]

/-- `([^/]+?)` -/
theorem parseItem_capNotSlashLazy (Y : Str) (hY : headOK Y = true) :
    parseItem (capNotSlashLazy ++ Y) = .ok { atom := .notSlash, q := .plusLazy, cap := true } Y := by
  show parseItem ('(' :: '[' :: '^' :: '/' :: ']' :: '+' :: '?' :: ')' :: Y) = _
  have ha : parseAtom ('[' :: '^' :: '/' :: ']' :: '+' :: '?' :: ')' :: Y) = .ok .notSlash ('+' :: '?' :: ')' :: Y) := by
    simp [parseAtom]
  have hq : parseQuant ('+' :: '?' :: ')' :: Y) = .ok .plusLazy (')' :: Y) := by
    simp [parseQuant, isQuantChar, braceQuant]
    cases Y <;> simp
  cases Y with
  | nil => simp [parseItem, ha, hq]
  | cons h Y =>
    obtain ⟨h1, h2, h3, h4⟩ := headOK_cons h Y hY
    simp [parseItem, ha, hq, isQuantChar, h1, h2, h3, braceQuant_headOK _ hY]

/-! ### the names the code extracts, and the final binding theorems -/

theorem namesVar_copy (varLen : Str → Option Nat) (nameOf : Str → Str) (c : Char) (s : Str)
    (h : ∀ n, varLen (c :: s) ≠ some (n + 1)) :
    namesVar varLen nameOf 0 (c :: s) = namesVar varLen nameOf 0 s := by
  rw [namesVar]
  split
  · rename_i n hn; exact absurd hn (h n)
  · rfl

theorem namesVar_var (varLen : Str → Option Nat) (nameOf : Str → Str) (c : Char) (s : Str) (n : Nat)
    (h : varLen (c :: s) = some (n + 1)) :
    namesVar varLen nameOf 0 (c :: s) = nameOf ((c :: s).take (n + 1)) :: namesVar varLen nameOf n s := by
  rw [namesVar]
  split
  · rename_i m hm; rw [h] at hm; simp at hm; subst hm; rfl
  · rename_i hno; exact absurd h (hno n)

theorem take_repl (x : Str) (m : Nat) (h : noSlash (x.take m) = true) :
    (replSlashStar x).take m = x.take m := by
  induction m generalizing x with
  | zero => simp
  | succ m ih =>
    cases x with
    | nil => simp [replSlashStar]
    | cons c s =>
      obtain ⟨hc, hs⟩ := noSlash_take_succ c s m h
      rw [replSlashStar_ne c s hc]
      simp [ih s hs]

def varCount : List KTok → Nat
  | [] => 0
  | .var :: ts => varCount ts + 1
  | _ :: ts => varCount ts

/-- `re.findall` on the text after `replace("/*", "/.*")` finds the same names as on the pattern itself,
    one per variable -/
theorem names_repl (varLen : Str → Option Nat) (okVar : Str → Bool) (nameOf : Str → Str) (V : VarSyntax varLen)
    (n : Nat) (p : Str) :
    ∀ ts, tokVar varLen okVar n p = some ts → noSlash (p.take n) = true →
      namesVar varLen nameOf n (replSlashStar p) = namesVar varLen nameOf n p ∧
      (namesVar varLen nameOf n p).length = varCount ts := by
  fun_induction tokVar varLen okVar n p with
  | case1 => intro ts h _; simp at h; subst h; simp [replSlashStar, namesVar, varCount]
  | case2 n => intro ts h; simp at h
  | case3 n c s ih =>
    intro ts h hns
    obtain ⟨hc, hns'⟩ := noSlash_take_succ c s n hns
    rw [replSlashStar_ne c s hc, namesVar, namesVar]
    exact ih ts h hns'
  | case4 r ih =>
    intro ts h _
    simp only [Option.map_eq_some_iff] at h
    obtain ⟨ts', h', rfl⟩ := h
    obtain ⟨ih1, ih2⟩ := ih ts' h' (by simp [noSlash])
    have e1 : replSlashStar ('/' :: '*' :: r) = '/' :: '.' :: '*' :: replSlashStar r := by rw [replSlashStar]
    have c1 : ∀ x n, varLen ('/' :: x) ≠ some (n + 1) := by
      intro x n hv; have := V.inSeg _ _ hv; simp [noSlash] at this
    have c2 : ∀ x n, varLen ('.' :: x) ≠ some (n + 1) := by
      intro x n hv; exact (V.head _ _ _ hv).1 rfl
    have c3 : ∀ x n, varLen ('*' :: x) ≠ some (n + 1) := by
      intro x n hv; exact (V.head _ _ _ hv).2 rfl
    rw [e1, namesVar_copy _ _ _ _ (c1 _), namesVar_copy _ _ _ _ (c2 _), namesVar_copy _ _ _ _ (c3 _),
      namesVar_copy _ _ _ _ (c1 _), namesVar_copy _ _ _ _ (c3 _)]
    exact ⟨ih1, by simpa [varCount] using ih2⟩
  | case5 c s hns n hv hok ih =>
    intro ts h _
    simp only [Option.map_eq_some_iff] at h
    obtain ⟨ts', h', rfl⟩ := h
    have hin := V.inSeg _ _ hv
    obtain ⟨hc, hns'⟩ := noSlash_take_succ c s n hin
    obtain ⟨ih1, ih2⟩ := ih ts' h' hns'
    have hv' : varLen (c :: replSlashStar s) = some (n + 1) := by
      rw [V.seg2 _ _ (takeSeg_cons_repl c s)]; exact hv
    rw [replSlashStar_ne c s hc, namesVar_var _ _ _ _ _ hv', namesVar_var _ _ _ _ _ hv, ih1]
    have : (c :: replSlashStar s).take (n + 1) = (c :: s).take (n + 1) := by
      simp [take_repl s n hns']
    rw [this]
    exact ⟨rfl, by simp [varCount, ih2]⟩
  | case6 c s hns n hv hok => intro ts h; simp at h
  | case7 c s hns hm hv => intro ts h; simp at h
  | case8 c s hns hm hv ih =>
    intro ts h _
    simp only [Option.map_eq_some_iff] at h
    obtain ⟨ts', h', rfl⟩ := h
    obtain ⟨ih1, ih2⟩ := ih ts' h' (by simp [noSlash])
    have e1 : replSlashStar (c :: s) = c :: replSlashStar s := by
      by_cases hc : c = '/'
      · subst hc; exact replSlashStar_slash s (fun r hr => hns r rfl hr)
      · exact replSlashStar_ne c s hc
    have hv' : ∀ n, varLen (c :: replSlashStar s) ≠ some (n + 1) := by
      intro n hn; rw [V.seg2 _ _ (takeSeg_cons_repl c s)] at hn; exact hv n hn
    rw [e1, namesVar_copy _ _ _ _ hv', namesVar_copy _ _ _ _ (fun n hn => hv n hn)]
    exact ⟨ih1, by simpa [varCount] using ih2⟩

theorem capsOf_length (ts : List KTok) (s : Str) (caps : List Str) (hd : detForm ts = true)
    (h : capsOf ts s = some caps) : caps.length = varCount ts := by
  induction ts generalizing s caps with
  | nil => simp only [capsOf] at h; split at h <;> simp at h; subst h; rfl
  | cons t ts ih =>
    cases t with
    | lit c =>
      have hd' : detForm ts = true := by simpa [detForm] using hd
      cases s with
      | nil => simp [capsOf] at h
      | cons x s' =>
        simp only [capsOf] at h
        split at h
        · simpa [varCount] using ih s' caps hd' h
        · simp at h
    | star =>
      have hts : ts = [] := by simpa [detForm] using hd
      subst hts
      simp [capsOf] at h; subst h; rfl
    | var =>
      simp only [detForm, Bool.and_eq_true] at hd
      simp only [capsOf] at h
      split at h
      · simp at h
      · simp only [Option.map_eq_some_iff] at h
        obtain ⟨c', hc', rfl⟩ := h
        simp [varCount, ih _ c' hd.2 hc']

theorem pickOverrun_len (v : Str) (names caps : List Str) (h : names.length = caps.length) :
    pickOverrun v names caps = false := by
  induction names generalizing caps with
  | nil => cases caps <;> simp [pickOverrun]
  | cons n ns ih =>
    cases caps with
    | nil => simp at h
    | cons g gs =>
      simp only [List.length_cons, Nat.add_right_cancel_iff] at h
      simp only [pickOverrun]
      split
      · rfl
      · exact ih gs h

/-- **keyMatch4** (binding): for a pattern of the documented form whose variables end at a '/' or at the end and
    whose `*` is last, and EVERY key: the answer is `True` exactly when the key is denoted (`capsOf`
    finds the segment bound by every variable) and, by `bindCheck_spec`, equal names bound equal texts.
    Never raises. -/
theorem keyMatch4_binding (k p : Str) (ts : List KTok) (hdoc : tok5 p = some ts) (hd : detForm ts = true) :
    keyMatch4 k p = .ok (match capsOf ts k with
      | none => false
      | some caps => bindCheck [] ((namesVar varLenBraceGreedy nameBrace 0 p).zip caps)) := by
  obtain ⟨_, hP⟩ := compile_tokVar varLenBraceGreedy okBraceName capNotSlash
    { atom := .notSlash, q := .plus, cap := true } varSyntax_braceGreedy
    parseItem_capNotSlash '(' _ rfl (by decide) 0 p ts hdoc (by simp [noSlash])
  obtain ⟨hn1, hn2⟩ := names_repl varLenBraceGreedy okBraceName nameBrace varSyntax_braceGreedy 0 p ts hdoc
    (by simp [noSlash])
  simp only [keyMatch4, reMatchBody, hP _ (Nat.lt_succ_self _), Out.map, Out.bind, hn1,
    matchNodes_caps .plus (Or.inl rfl) ts k hd]
  cases hc : capsOf ts k with
  | none => rfl
  | some caps =>
    have := capsOf_length ts k caps hd hc
    simp [hn2, this]

/-- **keyGet2** (binding): the text bound by the first variable named `v`; empty when the key is not denoted or
    no variable has that name -/
theorem keyGet2_binding (k p v : Str) (ts : List KTok) (hdoc : tokVar varLenColon okAny 0 p = some ts)
    (hd : detForm ts = true) :
    keyGet2 k p v = .ok (match capsOf ts k with
      | none => []
      | some caps => (((namesVar varLenColon nameColon 0 p).zip caps).lookup v).getD []) := by
  obtain ⟨hH, hP⟩ := compile_tokVar varLenColon okAny capNotSlashEsc
    { atom := .notSlash, q := .plus, cap := true } varSyntax_colon
    parseItem_capNotSlashEsc '(' _ rfl (by decide) 0 p ts hdoc (by simp [noSlash])
  obtain ⟨hn1, hn2⟩ := names_repl varLenColon okAny nameColon varSyntax_colon 0 p ts hdoc (by simp [noSlash])
  have hr : rewriteGet2 p = subVar varLenColon capNotSlashEsc 0 (replSlashStar p) := by
    simp [rewriteGet2, headOK_ne_star _ hH]
  simp only [keyGet2, hr, reMatchBody, hP _ (Nat.lt_succ_self _), Out.map, Out.bind, hn1,
    matchNodes_caps .plus (Or.inl rfl) ts k hd]
  cases hc : capsOf ts k with
  | none => rfl
  | some caps =>
    have hl : (namesVar varLenColon nameColon 0 p).length = caps.length := by
      rw [hn2, capsOf_length ts k caps hd hc]
    simp [pickOverrun_len _ _ _ hl, pickGroup_spec _ _ _ hl]

/-- **keyGet3** (binding): as keyGet2 with `{name}`; the lazy capture `([^/]+?)` binds the same segment -/
theorem keyGet3_binding (k p v : Str) (ts : List KTok) (hdoc : tok3 p = some ts)
    (hd : detForm ts = true) :
    keyGet3 k p v = .ok (match capsOf ts k with
      | none => []
      | some caps => (((namesVar varLenBraceLazy nameBrace 0 p).zip caps).lookup v).getD []) := by
  obtain ⟨hH, hP⟩ := compile_tokVar varLenBraceLazy okAny capNotSlashLazy
    { atom := .notSlash, q := .plusLazy, cap := true } varSyntax_braceLazy
    parseItem_capNotSlashLazy '(' _ rfl (by decide) 0 p ts hdoc (by simp [noSlash])
  obtain ⟨hn1, hn2⟩ := names_repl varLenBraceLazy okAny nameBrace varSyntax_braceLazy 0 p ts hdoc
    (by simp [noSlash])
  have hr : rewriteGet3 p = subVar varLenBraceLazy capNotSlashLazy 0 (replSlashStar p) := by
    simp [rewriteGet3, headOK_ne_star _ hH]
  simp only [keyGet3, hr, reMatchBody, hP _ (Nat.lt_succ_self _), Out.map, Out.bind, hn1,
    matchNodes_caps .plusLazy (Or.inr rfl) ts k hd]
  cases hc : capsOf ts k with
  | none => rfl
  | some caps =>
    have hl : (namesVar varLenBraceLazy nameBrace 0 p).length = caps.length := by
      rw [hn2, capsOf_length ts k caps hd hc]
    simp [pickOverrun_len _ _ _ hl, pickGroup_spec _ _ _ hl]

example : (tok5 "/p/{id}/c/{id}".toList).map detForm = some true := by decide
example : keyMatch4 "/p/1/c/1".toList "/p/{id}/c/{id}".toList = .ok true := by decide
example : keyMatch4 "/p/1/c/2".toList "/p/{id}/c/{id}".toList = .ok false := by decide
example : keyGet2 "/r/7".toList "/r/:id".toList "id".toList = .ok ['7'] := by decide
/-- F21 (outside `detForm`: `*` directly followed by a variable): only the first backtracking match is examined -/
example : keyMatch4 "aa/aa".toList "{x}/*{x}".toList = .ok false ∧
    (tok5 "{x}/*{x}".toList).map detForm = some false := by decide

/-! ### the driver's `spec=` column for the binding functions is the right-hand side of these theorems -/

theorem bindForm_some (toks : Option (List KTok)) (ts : List KTok) (h : bindForm toks = some ts) :
    toks = some ts ∧ detForm ts = true := by
  cases toks with
  | none => simp [bindForm] at h
  | some ts' =>
    simp only [bindForm, Option.bind_some] at h
    split at h
    · simp at h; subst h; exact ⟨rfl, by assumption⟩
    · simp at h

theorem keyMatch4_eq_spec (k p : Str) (b : Bool) (h : keyMatch4Spec k p = some b) :
    keyMatch4 k p = .ok b := by
  simp only [keyMatch4Spec, Option.map_eq_some_iff] at h
  obtain ⟨ts, hts, rfl⟩ := h
  obtain ⟨h1, h2⟩ := bindForm_some _ _ hts
  exact keyMatch4_binding k p ts h1 h2

theorem keyGet2_eq_spec (k p v r : Str) (h : keyGet2Spec k p v = some r) (hp : p ≠ ['*']) :
    keyGet2 k p v = .ok r := by
  simp only [keyGet2Spec, hp, if_false, Option.map_eq_some_iff] at h
  obtain ⟨ts, hts, rfl⟩ := h
  obtain ⟨h1, h2⟩ := bindForm_some _ _ hts
  exact keyGet2_binding k p v ts h1 h2

/-- the whole pattern `*` binds nothing: keyGet2 answers the empty text -/
theorem keyGet2_star (k v : Str) : keyGet2 k ['*'] v = .ok [] := by
  have hr : rewriteGet2 ['*'] = capAll := by decide
  have hparse : parseRe (capAll.length + 1) capAll = .ok [{ atom := .dot, q := .star, cap := true }] := by decide
  have hn : namesVar varLenColon nameColon 0 (replSlashStar ['*']) = [] := by decide
  simp only [keyGet2, hr, reMatchBody, hparse, Out.map, Out.bind, hn]
  cases matchNodes [{ atom := Atom.dot, q := Quant.star, cap := true }] k with
  | none => rfl
  | some caps => cases caps <;> simp [pickOverrun, pickGroup]

theorem keyGet3_eq_spec (k p v r : Str) (h : keyGet3Spec k p v = some r) :
    keyGet3 k p v = .ok r := by
  simp only [keyGet3Spec, Option.map_eq_some_iff] at h
  obtain ⟨ts, hts, rfl⟩ := h
  obtain ⟨h1, h2⟩ := bindForm_some _ _ hts
  exact keyGet3_binding k p v ts h1 h2

/-! ### declarative reading of the bindings -/

/-- `DenotesK` with the texts bound by the variables, left to right -/
inductive DenotesKB : List KTok → Str → List Str → Prop
  | nil : DenotesKB [] [] []
  | lit {c : Char} {ts : List KTok} {s : Str} {caps : List Str} :
      DenotesKB ts s caps → DenotesKB (.lit c :: ts) (c :: s) caps
  | star {ts : List KTok} {s : Str} {caps : List Str} (w : Str) :
      DenotesKB ts s caps → DenotesKB (.star :: ts) (w ++ s) caps
  | var {ts : List KTok} {s : Str} {caps : List Str} (w : Str) :
      w ≠ [] → '/' ∉ w → DenotesKB ts s caps → DenotesKB (.var :: ts) (w ++ s) (w :: caps)

theorem takeSeg_append_drop (s : Str) : takeSeg s ++ s.drop (takeSeg s).length = s := by
  induction s with
  | nil => rfl
  | cons c s ih => by_cases h : c = '/' <;> simp [takeSeg, h, ih]

theorem takeSeg_noSlash (s : Str) : '/' ∉ takeSeg s := by
  induction s with
  | nil => simp [takeSeg]
  | cons c s ih =>
    by_cases h : c = '/'
    · simp [takeSeg, h]
    · simp only [takeSeg, h, if_false, List.mem_cons, not_or]
      exact ⟨fun e => h e.symm, ih⟩

theorem takeSeg_append (w s' : Str) (hw : '/' ∉ w) (hs : s' = [] ∨ ∃ r, s' = '/' :: r) : takeSeg (w ++ s') = w := by
  induction w with
  | nil =>
    rcases hs with rfl | ⟨r, rfl⟩ <;> simp [takeSeg]
  | cons c w ih =>
    simp only [List.mem_cons, not_or] at hw
    have hc : ¬ c = '/' := fun e => hw.1 e.symm
    simp [takeSeg, hc, ih hw.2]

/-- what follows a variable in `detForm` starts with '/' (or is empty) in every denoted key -/
theorem detForm_next (ts : List KTok) (s : Str) (caps : List Str)
    (hn : (match ts with | [] => true | .lit c :: _ => c == '/' | _ => false) = true)
    (h : DenotesKB ts s caps) : s = [] ∨ ∃ r, s = '/' :: r := by
  cases h with
  | nil => exact Or.inl rfl
  | lit h => simp at hn; subst hn; exact Or.inr ⟨_, rfl⟩
  | star w h => simp at hn
  | var w _ _ h => simp at hn

/-- for patterns in `detForm` the bindings are unique, and `capsOf` computes them -/
theorem capsOf_iff (ts : List KTok) (s : Str) (caps : List Str) (hd : detForm ts = true) :
    capsOf ts s = some caps ↔ DenotesKB ts s caps := by
  induction ts generalizing s caps with
  | nil =>
    simp only [capsOf]
    constructor
    · intro h
      split at h
      · rename_i hs
        have : s = [] := by simpa using hs
        simp at h; subst h; subst this; exact .nil
      · simp at h
    · intro h; cases h; simp
  | cons t ts ih =>
    cases t with
    | lit c =>
      have hd' : detForm ts = true := by simpa [detForm] using hd
      cases s with
      | nil =>
        simp only [capsOf]
        constructor
        · intro h; simp at h
        · intro h; cases h
      | cons x s' =>
        simp only [capsOf]
        constructor
        · intro h
          split at h
          · rename_i hx; subst hx; exact .lit ((ih s' caps hd').1 h)
          · simp at h
        · intro h
          cases h with
          | lit h => simp [(ih s' caps hd').2 h]
    | star =>
      have hts : ts = [] := by simpa [detForm] using hd
      subst hts
      simp only [capsOf]
      constructor
      · intro h; simp at h; subst h
        have := DenotesKB.star s DenotesKB.nil
        simpa using this
      · intro h
        cases h with
        | star w h => cases h; rfl
    | var =>
      simp only [detForm, Bool.and_eq_true] at hd
      obtain ⟨hnext, hd'⟩ := hd
      simp only [capsOf]
      constructor
      · intro h
        split at h
        · simp at h
        · rename_i hne
          simp only [Option.map_eq_some_iff] at h
          obtain ⟨c', hc', rfl⟩ := h
          have := DenotesKB.var (takeSeg s) (by simpa using hne) (takeSeg_noSlash s) ((ih _ c' hd').1 hc')
          rw [takeSeg_append_drop] at this
          exact this
      · intro h
        generalize hs : s = s0 at h
        cases h with
        | var w hw hsl h =>
          have hnx := detForm_next ts _ _ hnext h
          have e1 := takeSeg_append w _ hsl hnx
          subst hs
          rw [e1]
          have hne : w.isEmpty = false := by cases w <;> simp_all
          simp only [hne, Bool.false_eq_true, if_false, List.drop_left]
          rw [(ih _ _ hd').2 h]
          rfl

/-- **keyMatch4**, declaratively: `True` exactly when the key decomposes along the pattern (literals, one non-empty
    run without '/' per variable, any remainder for a final `*`) and equal names bound equal texts -/
theorem keyMatch4_declarative (k p : Str) (ts : List KTok) (hdoc : tok5 p = some ts) (hd : detForm ts = true) :
    keyMatch4 k p = .ok true ↔
      ∃ caps, DenotesKB ts k caps ∧
        ∀ t v v', (t, v) ∈ (namesVar varLenBraceGreedy nameBrace 0 p).zip caps →
          (t, v') ∈ (namesVar varLenBraceGreedy nameBrace 0 p).zip caps → v = v' := by
  rw [keyMatch4_binding k p ts hdoc hd]
  cases hc : capsOf ts k with
  | none =>
    constructor
    · intro h; simp at h
    · rintro ⟨caps, h1, _⟩
      rw [(capsOf_iff ts k caps hd).2 h1] at hc; simp at hc
  | some caps =>
    simp only [Out.ok.injEq, bindCheck_spec]
    constructor
    · intro h; exact ⟨caps, (capsOf_iff ts k caps hd).1 hc, h⟩
    · rintro ⟨caps', h1, h2⟩
      have := (capsOf_iff ts k caps' hd).2 h1
      rw [hc] at this; simp at this; subst this
      exact h2

/-- keyMatch4 never answers anything else than `True` / `False` on these inputs, and `False` is the complement -/
theorem keyMatch4_total (k p : Str) (ts : List KTok) (hdoc : tok5 p = some ts) (hd : detForm ts = true)
    : keyMatch4 k p = .ok true ∨ keyMatch4 k p = .ok false := by
  rw [keyMatch4_binding k p ts hdoc hd]
  cases capsOf ts k with
  | none => exact Or.inr rfl
  | some caps => cases bindCheck [] ((namesVar varLenBraceGreedy nameBrace 0 p).zip caps) <;> simp

/-- **keyGet2**, declaratively: when the key decomposes along the pattern with bindings `caps`, the answer is the
    text bound by the first variable named `v` (empty if there is none); when it does not decompose, the empty text -/
theorem keyGet2_declarative (k p v : Str) (ts : List KTok) (hdoc : tokVar varLenColon okAny 0 p = some ts)
    (hd : detForm ts = true) :
    (∀ caps, DenotesKB ts k caps →
      keyGet2 k p v = .ok ((((namesVar varLenColon nameColon 0 p).zip caps).lookup v).getD [])) ∧
    ((¬ ∃ caps, DenotesKB ts k caps) → keyGet2 k p v = .ok []) := by
  rw [keyGet2_binding k p v ts hdoc hd]
  constructor
  · intro caps h
    rw [(capsOf_iff ts k caps hd).2 h]
  · intro h
    cases hc : capsOf ts k with
    | none => rfl
    | some caps => exact absurd ⟨caps, (capsOf_iff ts k caps hd).1 hc⟩ h

/-- **keyGet3**, declaratively (as keyGet2, `{name}` variables) -/
theorem keyGet3_declarative (k p v : Str) (ts : List KTok) (hdoc : tok3 p = some ts)
    (hd : detForm ts = true) :
    (∀ caps, DenotesKB ts k caps →
      keyGet3 k p v = .ok ((((namesVar varLenBraceLazy nameBrace 0 p).zip caps).lookup v).getD [])) ∧
    ((¬ ∃ caps, DenotesKB ts k caps) → keyGet3 k p v = .ok []) := by
  rw [keyGet3_binding k p v ts hdoc hd]
  constructor
  · intro caps h
    rw [(capsOf_iff ts k caps hd).2 h]
  · intro h
    cases hc : capsOf ts k with
    | none => rfl
    | some caps => exact absurd ⟨caps, (capsOf_iff ts k caps hd).1 hc⟩ h

/-- the names the code extracts are the texts between the delimiters: an instance on the documentation's example -/
example : namesVar varLenBraceGreedy nameBrace 0 "/parent/{id}/child/{id}".toList = ["id".toList, "id".toList] := by
  decide
example : namesVar varLenColon nameColon 0 "/r/:res/:id".toList = ["res".toList, "id".toList] := by decide

/-! ### soundness as a corollary: never true for a key outside the pattern (every key, line feeds included) -/

/-- **keyMatch2**: never raises and never answers `True` for a key the pattern does not denote -/
theorem keyMatch2_sound (k p : Str) (ts : List KTok) (hdoc : docTok2 p = some ts) :
    ∃ b, keyMatch2 k p = .ok b ∧ (b = true → denK ts k = true) :=
  ⟨denK ts k, keyMatch2_spec k p ts hdoc, id⟩

theorem keyMatch3_sound (k p : Str) (ts : List KTok) (hdoc : tok3 p = some ts) :
    ∃ b, keyMatch3 k p = .ok b ∧ (b = true → denK ts k = true) :=
  ⟨denK ts k, keyMatch3_spec k p ts hdoc, id⟩

theorem keyMatch5_sound (k p : Str) (ts : List KTok) (hdoc : tok5 p = some ts) :
    ∃ b, keyMatch5 k p = .ok b ∧ (b = true → denK ts (dropQuery k) = true) :=
  ⟨denK ts (dropQuery k), keyMatch5_spec k p ts hdoc, id⟩

/-- a trailing line feed is not accepted (F21-NLa: it was, with `$`) -/
example : keyMatch2 "/a\n".toList "/a".toList = .ok false := by decide
/-- `*` is any remainder, line feeds included (F21-NLb: it was not, `.` without `(?s)`) -/
example : keyMatch2 "/a/b\nc".toList "/a/*".toList = .ok true ∧
    (docTok2 "/a/*".toList).map (fun ts => denK ts "/a/b\nc".toList) = some true := by decide
/-- a variable is one non-empty run without '/', which may contain a line feed (`[^/]+` always matched it) -/
example : keyGet2 "/a/1\n2/x".toList "/a/:id/x".toList "id".toList = .ok "1\n2".toList := by decide

end Casbin.C13
