import CasbinV.Props.C09
import CasbinV.Props.C06u
/-!
# C09 (batch update) — `update_policies` keeps the store mirroring memory

Memory replaces in place, position by position (`acc.set (l.idxOf old) new`); the faithful adapter rewrites every stored
rule that is the old side of a pair.  With a duplicate-free rule list and pairwise different old rules these coincide.
-/
namespace Casbin.Enf.C09
open Casbin Casbin.Enf Casbin.Policy Casbin.Policy.C06

/-- position-wise description of the in-place replacement -/
theorem foldl_set_getElem? (l : List Rule) (hd : l.Nodup) (ps : List (Rule × Rule)) (acc : List Rule)
    (hin : ∀ p ∈ ps, p.1 ∈ l) (hnd : (ps.map (·.1)).Nodup) (hlen : acc.length = l.length)
    (i : Nat) (hi : i < l.length) :
    (ps.foldl (fun acc (p : Rule × Rule) => acc.set (l.idxOf p.1) p.2) acc)[i]? =
      match ps.find? (·.1 == l[i]) with
      | some p => some p.2
      | none => acc[i]? := by
  induction ps generalizing acc with
  | nil => simp
  | cons p ps ih =>
    simp only [List.foldl_cons]
    have hnd' : (ps.map (·.1)).Nodup := (List.nodup_cons.mp (by simpa using hnd)).2
    have hp1 : p.1 ∉ ps.map (·.1) := (List.nodup_cons.mp (by simpa using hnd)).1
    rw [ih (acc.set (l.idxOf p.1) p.2) (fun q hq => hin q (by simp [hq])) hnd' (by simp [hlen])]
    have hpl : p.1 ∈ l := hin p (by simp)
    by_cases hpi : p.1 = l[i]
    · -- this pair rewrites position i; no later pair has the same old rule
      have hnone : ps.find? (·.1 == l[i]) = none := by
        apply List.find?_eq_none.mpr
        intro q hq hc
        have : q.1 = l[i] := by simpa using hc
        exact hp1 (by rw [hpi, ← this]; exact List.mem_map_of_mem (f := (·.1)) hq)
      simp only [hnone, List.find?_cons, hpi, beq_self_eq_true]
      rw [List.Nodup.idxOf_getElem hd i hi, List.getElem?_set_self (by omega)]
    · have hne : l.idxOf p.1 ≠ i := by
        intro hc
        apply hpi
        have := List.getElem_idxOf (List.idxOf_lt_length_of_mem hpl)
        simp only [hc] at this
        exact this.symm
      have hb : (p.1 == l[i]) = false := by simpa using hpi
      simp only [List.find?_cons, hb]
      rw [List.getElem?_set_ne hne]

/-- the in-place batch replacement equals rewriting every rule that is the old side of a pair -/
theorem foldl_set_eq_map (l : List Rule) (hd : l.Nodup) (olds news : List Rule)
    (hin : ∀ o ∈ olds, o ∈ l) (hnd : olds.Nodup) (hlen : olds.length = news.length) :
    (olds.zip news).foldl (fun acc (p : Rule × Rule) => acc.set (l.idxOf p.1) p.2) l =
      l.map fun x => match (olds.zip news).find? (·.1 == x) with | some (_, n) => n | none => x := by
  have hfst : (olds.zip news).map (·.1) = olds := by
    rw [List.map_fst_zip]; omega
  apply List.ext_getElem?
  intro i
  by_cases hi : i < l.length
  · rw [foldl_set_getElem? l hd (olds.zip news) l
      (fun p hp => hin p.1 (List.of_mem_zip hp).1) (by rw [hfst]; exact hnd) rfl i hi]
    rw [List.getElem?_map, List.getElem?_eq_getElem hi]
    simp only [Option.map_some]
    cases (olds.zip news).find? (·.1 == l[i]) with
    | none => rfl
    | some p => rfl
  · have h1 : ((olds.zip news).foldl (fun acc (p : Rule × Rule) => acc.set (l.idxOf p.1) p.2) l).length = l.length :=
      foldl_set_length l _ l
    rw [List.getElem?_eq_none (by omega), List.getElem?_eq_none (by simp; omega)]

/-- **`update_policies` keeps the mirror** (pairwise different old rules) -/
theorem mirror_updateMany (cfg : Cfg) (s : St) (olds news : List Rule) (had : cfg.hasAdapter = true)
    (hsave : s.autoSave = true) (hm : Mirror s) (hd : s.pol.p.Nodup) (hnd : olds.Nodup) :
    Mirror (step cfg s (.updateMany olds news)).1 := by
  unfold Mirror at *
  simp only [step]
  cases hu : Policy.updateMany none s.pol.p olds news with
  | error e => exact hm
  | ok res =>
    obtain ⟨l, ok⟩ := res
    cases ok with
    | false => simpa using hm
    | true =>
      obtain ⟨_, h2⟩ := updateMany_spec s.pol.p olds news l true hd hu
      obtain ⟨_, _, hlen, hin, hl⟩ := h2 rfl
      simp only [Bool.not_true, Bool.false_eq_true, ↓reduceIte]
      have hp := persist_store cfg { s with pol := s.pol.set .p l } (.updatePolicies .p olds news)
        (updOnly cfg (.forUpdatePolicies olds news))
      rw [hp.1, hp.2.2]
      simp only [had, hsave, Bool.and_self, ↓reduceIte, applyACall]
      rw [hm, hl, foldl_set_eq_map s.pol.p hd olds news hin hnd hlen]
      rfl

/-- with the same old rule named twice the two sides differ (memory: the last pair wins, the adapter: the first) - the
    reason for the hypothesis; the property's histories do not pin down what a store does with such a call -/
example : (step { gCount := 2, g2Count := 0, hasAdapter := true, hasWatcher := false, watcherEx := false, watcherUpd := false }
      { pol := { p := [["a"], ["b"]] }, store := { p := [["a"], ["b"]] } } (.updateMany [["a"], ["a"]] [["x"], ["y"]])).1.pol.p = [["y"], ["b"]] ∧
    (step { gCount := 2, g2Count := 0, hasAdapter := true, hasWatcher := false, watcherEx := false, watcherUpd := false }
      { pol := { p := [["a"], ["b"]] }, store := { p := [["a"], ["b"]] } } (.updateMany [["a"], ["a"]] [["x"], ["y"]])).1.store.p = [["x"], ["b"]] := by decide

end Casbin.Enf.C09
