import CasbinV.Props.C09
import CasbinV.Props.C06u
/-!
# C09 (batch update) — `update_policies` keeps the store mirroring memory

Memory replaces in place, position by position (`acc.set (l.idxOf old) new`); the faithful adapter rewrites every stored
rule that is the old side of a pair.  With a duplicate-free rule list and pairwise different old rules these coincide
(`C06.foldl_set_eq_map`), and a batch naming an old rule twice is refused.
-/
namespace Casbin.Enf.C09
open Casbin Casbin.Enf Casbin.Policy Casbin.Policy.C06

/-- **`update_policies` keeps the mirror**, whatever the batch: a call naming an old rule twice is refused before the
    adapter is told anything (repaired `Policy.update_policies`), so a successful call has pairwise different old rules -/
theorem mirror_updateMany (cfg : Cfg) (s : St) (olds news : List Rule) (had : cfg.hasAdapter = true)
    (hsave : s.autoSave = true) (hm : Mirror s) (hd : s.pol.p.Nodup) :
    Mirror (step cfg s (.updateMany olds news)).1 := by
  unfold Mirror at *
  simp only [step]
  cases hu : Policy.updateMany none s.pol.p olds news with
  | error e => exact hm
  | ok res =>
    obtain ⟨l, ok⟩ := res
    cases ok with
    | false => simpa using hm
    | true =>
      obtain ⟨_, h2⟩ := updateMany_spec s.pol.p olds news l true hd hu
      obtain ⟨_, _, hlen, hin, hl, hnd⟩ := h2 rfl
      simp only [Bool.not_true, Bool.false_eq_true, ↓reduceIte]
      have hp := persist_store cfg { s with pol := s.pol.set .p l } (.updatePolicies .p olds news)
        (updOnly cfg (.forUpdatePolicies olds news))
      rw [hp.1, hp.2.2]
      simp only [had, hsave, Bool.and_self, ↓reduceIte, applyACall]
      rw [hm, hl, foldl_set_eq_map s.pol.p hd olds news hin hnd hlen]
      rfl

/-- non-vacuity: a successful batch update through the adapter; and the call naming the same old rule twice (memory used
    to keep the last pair, the adapter the first) is refused with memory and store untouched -/
example : (step { gCount := 2, g2Count := 0, hasAdapter := true, hasWatcher := false, watcherEx := false, watcherUpd := false }
      { pol := { p := [["a"], ["b"]] }, store := { p := [["a"], ["b"]] } } (.updateMany [["a"], ["b"]] [["b"], ["c"]])).1.pol.p = [["b"], ["c"]] ∧
    (step { gCount := 2, g2Count := 0, hasAdapter := true, hasWatcher := false, watcherEx := false, watcherUpd := false }
      { pol := { p := [["a"], ["b"]] }, store := { p := [["a"], ["b"]] } } (.updateMany [["a"], ["b"]] [["b"], ["c"]])).1.store.p = [["b"], ["c"]] := by decide
example : (step { gCount := 2, g2Count := 0, hasAdapter := true, hasWatcher := false, watcherEx := false, watcherUpd := false }
      { pol := { p := [["a"], ["b"]] }, store := { p := [["a"], ["b"]] } } (.updateMany [["a"], ["a"]] [["x"], ["y"]])).1.pol.p = [["a"], ["b"]] ∧
    (step { gCount := 2, g2Count := 0, hasAdapter := true, hasWatcher := false, watcherEx := false, watcherUpd := false }
      { pol := { p := [["a"], ["b"]] }, store := { p := [["a"], ["b"]] } } (.updateMany [["a"], ["a"]] [["x"], ["y"]])).1.store.p = [["a"], ["b"]] := by decide

end Casbin.Enf.C09
