import CasbinV.Props.C20
/-!
# C20 (order) — notifications are issued after the adapter has been told

`St.ev` records adapter calls and notifications in the order they leave the enforcer.  Every management call (and
`save_policy`, `load_policy`, the filtered update) extends it by adapter calls followed by notifications - never a
notification before the adapter call it reports.  (The in-memory change precedes both by construction: `persist` is
applied to the state that already holds the new policy and does not touch it, `C09.persist_store`.)
-/
namespace Casbin.Enf.C20
open Casbin Casbin.Enf Casbin.Policy

/-- `ev` extends `base` by adapter calls followed by notifications -/
def Ordered (base ev : List Ev) : Prop :=
  ∃ (as : List ACall) (ws : List WCall), ev = base ++ as.map Ev.adapter ++ ws.map Ev.watcher

theorem Ordered.refl (l : List Ev) : Ordered l l := ⟨[], [], by simp⟩

theorem Ordered.of_eq {base ev : List Ev} (h : ev = base) : Ordered base ev := h ▸ Ordered.refl _

theorem persist_ev (cfg : Cfg) (s : St) (c : ACall) (w : Option WCall) :
    (persist cfg s c w).ev =
      if cfg.hasAdapter && s.autoSave then
        if cfg.hasWatcher && s.autoNotify then
          s.ev ++ [Ev.adapter c] ++ [Ev.watcher (match w with | some x => x | none => .update)]
        else s.ev ++ [Ev.adapter c]
      else s.ev := by
  unfold persist
  cases cfg.hasAdapter <;> cases s.autoSave <;> cases cfg.hasWatcher <;> cases s.autoNotify <;> rfl

theorem persist_ordered (cfg : Cfg) (s0 s : St) (c : ACall) (w : Option WCall) (h : s.ev = s0.ev) :
    Ordered s0.ev (persist cfg s c w).ev := by
  rw [persist_ev, h]
  split
  · split
    · exact ⟨[c], [match w with | some x => x | none => .update], by simp⟩
    · exact ⟨[c], [], by simp⟩
  · exact Ordered.refl _

theorem relink_ev (cfg : Cfg) (s s2 : St) (sec : Sec) (add : Bool) (rules : List Rule)
    (h : relink cfg s sec add rules = .ok s2) : s2.ev = s.ev := by
  unfold relink at h
  split at h
  · cases h; rfl
  · split at h
    · cases h
    · cases h; rfl

theorem finish_ev (cfg : Cfg) (s1 : St) (sec : Sec) (add : Bool) (rules : List Rule) (ret : Ret) :
    (finish cfg s1 sec add rules ret).1.ev = s1.ev := by
  unfold finish
  cases hrl : relink cfg s1 sec add rules with
  | error e => rfl
  | ok s2 => exact relink_ev cfg s1 s2 sec add rules hrl

theorem loadCore_ev (cfg : Cfg) (s0 : St) : (loadCore cfg s0).1.ev = s0.ev := by
  unfold loadCore
  simp only
  split
  · split
    · split <;> rfl
    · rfl
  · rfl

/-- **every call tells the adapter before it notifies the watcher** -/
theorem step_ordered (cfg : Cfg) (s : St) (op : Op) : Ordered s.ev (step cfg s op).1.ev := by
  cases op with
  | add sec r =>
    simp only [step]
    cases Policy.add none (s.pol.get sec) r with
    | mk l ok =>
      cases ok
      · exact Ordered.refl _
      · simp only [Bool.not_true, Bool.false_eq_true, ↓reduceIte]
        split
        · exact Ordered.refl _
        · rw [finish_ev]; exact persist_ordered cfg s _ _ _ rfl
  | addMany sec rs =>
    simp only [step]
    cases Policy.addMany none (s.pol.get sec) rs with
    | mk l ok =>
      cases ok
      · exact Ordered.refl _
      · simp only [Bool.not_true, Bool.false_eq_true, ↓reduceIte]
        split
        · exact Ordered.refl _
        · rw [finish_ev]; exact persist_ordered cfg s _ _ _ rfl
  | remove sec r =>
    simp only [step]
    cases Policy.remove (s.pol.get sec) r with
    | mk l ok =>
      cases ok
      · exact Ordered.refl _
      · simp only [Bool.not_true, Bool.false_eq_true, ↓reduceIte]
        rw [finish_ev]; exact persist_ordered cfg s _ _ _ rfl
  | removeMany sec rs =>
    simp only [step]
    cases Policy.removeMany (s.pol.get sec) rs with
    | mk l ok =>
      cases ok
      · exact Ordered.refl _
      · simp only [Bool.not_true, Bool.false_eq_true, ↓reduceIte]
        rw [finish_ev]; exact persist_ordered cfg s _ _ _ rfl
  | removeFiltered sec idx vals =>
    simp only [step]
    split
    · split
      · exact Ordered.refl _
      · split
        · exact Ordered.refl _
        · exact persist_ordered cfg s _ _ _ rfl
    · split
      · exact Ordered.refl _
      · split
        · exact Ordered.refl _
        · rw [finish_ev]; exact persist_ordered cfg s _ _ _ rfl
  | update old new =>
    simp only [step]
    split
    · exact Ordered.refl _
    · split
      · exact Ordered.refl _
      · exact persist_ordered cfg s _ _ _ rfl
  | updateMany olds news =>
    simp only [step]
    split
    · exact Ordered.refl _
    · split
      · exact Ordered.refl _
      · exact persist_ordered cfg s _ _ _ rfl
  | clearPolicy => exact Ordered.refl _
  | buildRoleLinks =>
    simp only [step]
    split <;> exact Ordered.refl _
  | savePolicy =>
    simp only [step]
    split
    · exact ⟨[.savePolicy], [if cfg.watcherEx then .forSavePolicy else .update], by simp⟩
    · exact ⟨[.savePolicy], [], by simp⟩
  | loadPolicy k =>
    simp only [step]
    split
    · exact ⟨[.loadPolicy], [], by simp⟩
    · rw [loadCore_ev]; exact ⟨[.loadPolicy], [], by simp⟩
  | enableAutoSave b => exact Ordered.refl _
  | enableAutoBuild b => exact Ordered.refl _
  | enableAutoNotify b => exact Ordered.refl _

/-- the filtered update as well -/
theorem updateFiltered_ordered (cfg : Cfg) (s : St) (news : List Rule) (idx : Nat) (vals : List String) :
    Ordered s.ev (updateFilteredStep cfg s news idx vals).1.ev := by
  unfold updateFilteredStep
  cases Policy.getFiltered s.pol.p idx vals with
  | error e => exact Ordered.refl _
  | ok oldMem =>
    simp only
    split
    · exact Ordered.refl _
    · cases cfg.hasAdapter && s.autoSave <;> cases Policy.getFiltered s.store.p idx vals <;>
        simp only [Bool.false_eq_true, ↓reduceIte] <;> split <;> (try split)
      all_goals first
        | exact Ordered.refl _
        | (refine ⟨[], [.update], ?_⟩; simp; done)
        | (refine ⟨[ACall.updateFiltered news idx vals], [], ?_⟩; simp; done)
        | (refine ⟨[ACall.updateFiltered news idx vals], [.update], ?_⟩; simp; done)

/-- over a whole history: the sequence is a concatenation of such blocks, hence no notification ever precedes the
    adapter call of its own management call -/
theorem run_blocks (cfg : Cfg) (ops : List Op) (s : St) :
    ∃ blocks : List (List ACall × List WCall),
      (run cfg s ops).ev = s.ev ++ blocks.flatMap fun b => b.1.map Ev.adapter ++ b.2.map Ev.watcher := by
  induction ops generalizing s with
  | nil => exact ⟨[], by simp [run]⟩
  | cons op ops ih =>
    obtain ⟨as, ws, h1⟩ := step_ordered cfg s op
    obtain ⟨bs, h2⟩ := ih (step cfg s op).1
    refine ⟨(as, ws) :: bs, ?_⟩
    simp only [run, List.foldl_cons] at h2 ⊢
    rw [h2, h1]
    simp [List.append_assoc]

example : (step { gCount := 2, g2Count := 0, hasAdapter := true, hasWatcher := true, watcherEx := true, watcherUpd := false } {}
    (.add .p ["alice", "data1", "read"])).1.ev =
    [.adapter (.addPolicy .p ["alice", "data1", "read"]), .watcher (.forAddPolicy .p ["alice", "data1", "read"])] := by decide

end Casbin.Enf.C20
