import CasbinV.Props.C04
import CasbinV.Props.C09
import CasbinV.Props.C01
/-!
# C05 — domains are isolated tenants

Model with domains (`Shape.rbacDom`): requests `[sub, dom, obj, act]`, permission rules `[sub, dom, obj, act]`, role
assignments `[user, role, dom]`, matcher `g(r.sub, p.sub, r.dom) && r.dom == p.dom && r.obj == p.obj && r.act == p.act`.
-/
namespace Casbin.Enf.C05
open Casbin Casbin.Enf Casbin.Policy Casbin.Policy.C06 Casbin.Enf.C04

/-- position of the domain field in a rule of a section -/
def domIdx : Sec → Nat
  | .p => 1 | .g => 2 | .g2 => 2

/-- the rule is recorded for domain `D` -/
def inDom (sec : Sec) (D : String) (r : Rule) : Bool := r[domIdx sec]? == some D

/-- the part of a section recorded for `D` -/
def part (sec : Sec) (D : String) (l : List Rule) : List Rule := l.filter (inDom sec D)

/-- two states agree on everything recorded for `D` -/
structure SameIn (D : String) (s s' : St) : Prop where
  p : part .p D s'.pol.p = part .p D s.pol.p
  g : part .g D s'.pol.g = part .g D s.pol.g
  lg : part .g D s'.links.g = part .g D s.links.g

theorem SameIn.refl (D : String) (s : St) : SameIn D s s := ⟨rfl, rfl, rfl⟩

theorem SameIn.trans {D : String} {a b c : St} (h1 : SameIn D a b) (h2 : SameIn D b c) : SameIn D a c :=
  ⟨h2.p.trans h1.p, h2.g.trans h1.g, h2.lg.trans h1.lg⟩

/-! ## list lemmas: operations on foreign rules do not touch the `D` part -/

variable {f : Rule → Bool}

theorem filter_append_foreign (l : List Rule) (r : Rule) (h : f r = false) : (l ++ [r]).filter f = l.filter f := by
  simp [List.filter_append, List.filter, h]

theorem filter_erase_foreign (l : List Rule) (r : Rule) (h : f r = false) : (l.erase r).filter f = l.filter f := by
  induction l with
  | nil => rfl
  | cons a as ih =>
    by_cases ha : a = r
    · subst ha; simp [List.erase_cons_head, List.filter, h]
    · have : (a == r) = false := by simpa using ha
      simp [List.erase_cons, this, List.filter, ih]

theorem filter_set_foreign (l : List Rule) (i : Nat) (new : Rule) (hi : i < l.length) (h1 : f new = false)
    (h2 : f l[i] = false) : (l.set i new).filter f = l.filter f := by
  induction l generalizing i with
  | nil => simp at hi
  | cons a as ih =>
    cases i with
    | zero => simp at h2; simp [List.filter, h1, h2]
    | succ j =>
      simp only [List.length_cons] at hi
      simp only [List.getElem_cons_succ] at h2
      simp only [List.set_cons_succ, List.filter]
      rw [ih j (by omega) h2]

theorem filter_addLink_foreign (l : List Rule) (r : Rule) (h : f r = false) : (addLink l r).filter f = l.filter f := by
  unfold addLink; split
  · rfl
  · exact filter_append_foreign l r h

theorem filter_filter_foreign (l : List Rule) (m : Rule → Bool) (h : ∀ x ∈ l, f x = true → m x = false) :
    (l.filter (fun r => !m r)).filter f = l.filter f := by
  rw [List.filter_filter]
  apply List.filter_congr
  intro x hx
  cases hfx : f x with
  | false => simp
  | true => simp [h x hx hfx]

theorem foldl_add_foreign (rs l : List Rule) (h : ∀ r ∈ rs, f r = false) :
    (rs.foldl (fun acc r => (Policy.add none acc r).1) l).filter f = l.filter f := by
  induction rs generalizing l with
  | nil => rfl
  | cons r rs ih =>
    simp only [List.foldl_cons]
    rw [ih _ (fun x hx => h x (by simp [hx]))]
    unfold Policy.add
    split
    · rfl
    · exact filter_append_foreign l r (h r (by simp))

theorem foldl_erase_foreign (rs l : List Rule) (h : ∀ r ∈ rs, f r = false) :
    (rs.foldl (fun acc r => if acc.contains r then acc.erase r else acc) l).filter f = l.filter f := by
  induction rs generalizing l with
  | nil => rfl
  | cons r rs ih =>
    simp only [List.foldl_cons]
    rw [ih _ (fun x hx => h x (by simp [hx]))]
    split
    · exact filter_erase_foreign l r (h r (by simp))
    · rfl

theorem incLinks_foreign (count : Nat) (add : Bool) (pol rs store res : List Rule)
    (h : ∀ r ∈ rs, f (r.take count) = false) (hres : incLinks count add pol store rs = .ok res) :
    res.filter f = store.filter f := by
  induction rs generalizing store with
  | nil => simp [incLinks] at hres; subst hres; rfl
  | cons r rs ih =>
    unfold incLinks at hres
    split at hres
    · cases hres
    · rw [ih _ (fun x hx => h x (by simp [hx])) hres]
      cases add with
      | true => exact filter_addLink_foreign store _ (h r (by simp))
      | false =>
        simp only [Bool.false_eq_true, ↓reduceIte]
        split
        · rfl
        · exact filter_erase_foreign store _ (h r (by simp))

/-! ## foreign calls -/

/-- the call touches only things recorded for domains other than `D` -/
def Foreign (D : String) : Op → Prop
  | .add sec r => inDom sec D r = false
  | .addMany sec rs => ∀ r ∈ rs, inDom sec D r = false
  | .remove sec r => inDom sec D r = false
  | .removeMany sec rs => ∀ r ∈ rs, inDom sec D r = false
  | .removeFiltered sec idx vals => ∃ j d, idx + j = domIdx sec ∧ vals[j]? = some d ∧ d ≠ "" ∧ d ≠ D
  | .update old new => inDom .p D old = false ∧ inDom .p D new = false
  | _ => False

theorem inDom_take (D : String) (r : Rule) : inDom .g D (r.take 3) = inDom .g D r := by
  unfold inDom domIdx
  simp [List.getElem?_take]

theorem sameIn_of_change (D : String) (s s' : St) (sec : Sec) (l : List Rule)
    (hpol : s'.pol = s.pol.set sec l) (hl : part sec D l = part sec D (s.pol.get sec))
    (hlinks : part .g D s'.links.g = part .g D s.links.g) : SameIn D s s' := by
  cases sec with
  | p => exact ⟨by rw [hpol]; exact hl, by rw [hpol]; rfl, hlinks⟩
  | g => exact ⟨by rw [hpol]; rfl, by rw [hpol]; exact hl, hlinks⟩
  | g2 => exact ⟨by rw [hpol]; rfl, by rw [hpol]; rfl, hlinks⟩

theorem relink_part (cfg : Cfg) (hc : cfg.gCount = 3) (D : String) (s s2 : St) (sec : Sec) (add : Bool)
    (rules : List Rule) (hr : sec = .g → ∀ r ∈ rules, inDom .g D r = false)
    (h : relink cfg s sec add rules = .ok s2) : part .g D s2.links.g = part .g D s.links.g := by
  unfold relink at h
  split at h
  · cases h; rfl
  · split at h
    · cases h
    · rename_i l hl
      cases h
      cases sec with
      | p => rfl
      | g2 => rfl
      | g =>
        simp only [Pol.set, Pol.get, Cfg.count, hc] at hl ⊢
        exact incLinks_foreign 3 add _ rules _ l (fun r hx => by rw [inDom_take]; exact hr rfl r hx) hl

theorem finish_part (cfg : Cfg) (hc : cfg.gCount = 3) (D : String) (s1 : St) (sec : Sec) (add : Bool)
    (rules : List Rule) (ret : Ret) (hr : sec = .g → ∀ r ∈ rules, inDom .g D r = false) :
    part .g D (finish cfg s1 sec add rules ret).1.links.g = part .g D s1.links.g ∧
    (finish cfg s1 sec add rules ret).1.pol = s1.pol := by
  unfold finish
  cases hrl : relink cfg s1 sec add rules with
  | error e => exact ⟨rfl, rfl⟩
  | ok s2 => exact ⟨relink_part cfg hc D s1 s2 sec add rules hr hrl, (C09.relink_store cfg s1 s2 sec add rules hrl).2.2⟩

theorem persist_links (cfg : Cfg) (s : St) (c : ACall) (w : Option WCall) :
    (persist cfg s c w).links = s.links ∧ (persist cfg s c w).pol = s.pol := by
  have := persist_pol cfg s c w
  exact ⟨this.2.1, this.1⟩

/-- a filter that pins the domain position to a foreign domain matches no rule of `D` -/
theorem foreign_filter_no_match (sec : Sec) (D : String) (idx : Nat) (vals : List String)
    (hf : ∃ j d, idx + j = domIdx sec ∧ vals[j]? = some d ∧ d ≠ "" ∧ d ≠ D) (r : Rule)
    (hr : inDom sec D r = true) : Spec.matchesFilter idx vals r = false := by
  obtain ⟨j, d, hj, hv, hne, hnd⟩ := hf
  unfold Spec.matchesFilter
  rw [Bool.eq_false_iff]
  intro hall
  rw [List.all_eq_true] at hall
  have hjl : j < vals.length := by
    rcases Nat.lt_or_ge j vals.length with h | h
    · exact h
    · simp [List.getElem?_eq_none h] at hv
  have hmem : (d, j) ∈ vals.zipIdx := by
    rw [List.mem_zipIdx_iff_getElem?]; simpa using hv
  have := hall (d, j) hmem
  unfold inDom at hr
  simp only [beq_iff_eq] at hr
  simp only [Bool.or_eq_true, beq_iff_eq, hne, false_or, hj, hr] at this
  exact hnd (Option.some.inj this).symm

theorem rfGrouping_part (cfg : Cfg) (hc : cfg.gCount = 3) (D : String) (s : St) (sec : Sec) (idx : Nat)
    (vals : List String) (hop : ∃ j d, idx + j = domIdx sec ∧ vals[j]? = some d ∧ d ≠ "" ∧ d ≠ D)
    (key : ∀ (l : List Rule), l = (s.pol.get sec).filter (fun r => !Spec.matchesFilter idx vals r) →
        part sec D l = part sec D (s.pol.get sec)) :
    SameIn D s (match Policy.removeFilteredReturnsEffects (s.pol.get sec) idx vals with
      | .error e => (s, (Except.error (ofPErr e) : Except EErr Ret))
      | .ok (l, eff) =>
        if eff.isEmpty then ({ s with pol := s.pol.set sec l }, .ok (.rules []))
        else
          finish cfg (persist cfg { s with pol := s.pol.set sec l } (.removeFiltered sec idx vals)
            (exOnly cfg (.forRemoveFiltered sec idx vals))) sec false eff (.rules eff)).1 := by
  cases hrf : Policy.removeFilteredReturnsEffects (s.pol.get sec) idx vals with
  | error e => exact SameIn.refl D s
  | ok res =>
    obtain ⟨l, eff⟩ := res
    simp only []
    have hvals : vals.isEmpty = false := by
      obtain ⟨j, d, _, hv, _, _⟩ := hop
      cases vals with
      | nil => simp at hv
      | cons _ _ => rfl
    have hfacts : l = (s.pol.get sec).filter (fun r => !Spec.matchesFilter idx vals r) ∧
        eff = (s.pol.get sec).filter (Spec.matchesFilter idx vals) := by
      unfold Policy.removeFilteredReturnsEffects at hrf
      cases hpf : partitionFiltered idx vals (s.pol.get sec) with
      | error e => simp [hpf, Except.map] at hrf
      | ok pr =>
        obtain ⟨yes, no⟩ := pr
        simp [hpf, Except.map] at hrf
        obtain ⟨rfl, rfl⟩ := hrf
        obtain ⟨h1, h2⟩ := C09.partitionFiltered_ok idx vals _ yes no hpf
        exact ⟨h2, h1⟩
    split
    · exact sameIn_of_change D s _ sec l rfl (key l hfacts.1) rfl
    · have hf := finish_part cfg hc D (persist cfg { s with pol := s.pol.set sec l } (.removeFiltered sec idx vals)
        (exOnly cfg (.forRemoveFiltered sec idx vals))) sec false eff (.rules eff)
        (fun e x hx => by
          subst e
          rw [hfacts.2] at hx
          have hm := (List.mem_filter.mp hx).2
          cases hin : inDom .g D x with
          | false => rfl
          | true => rw [foreign_filter_no_match .g D idx vals hop x hin] at hm; cases hm)
      have hp := persist_links cfg { s with pol := s.pol.set sec l } (.removeFiltered sec idx vals)
        (exOnly cfg (.forRemoveFiltered sec idx vals))
      exact sameIn_of_change D s _ sec l (by rw [hf.2, hp.2]) (key l hfacts.1) (by rw [hf.1, hp.1])

/-- **Frame step.** A call that touches only other domains leaves everything recorded for `D` untouched —
    permission rules, role assignments and role links — whether it succeeds, is rejected or raises. -/
theorem foreign_step (cfg : Cfg) (hc : cfg.gCount = 3) (D : String) (s : St) (op : Op) (hop : Foreign D op)
    (hd : C09.NodupPol s.pol) : SameIn D s (step cfg s op).1 := by
  cases op with
  | add sec r =>
    simp only [step]
    cases hadd : Policy.add none (s.pol.get sec) r with
    | mk l ok =>
      cases ok with
      | false => exact SameIn.refl D s
      | true =>
        simp only [Bool.not_true, Bool.false_eq_true, ↓reduceIte]
        split
        · exact SameIn.refl D s
        have hf := finish_part cfg hc D (persist cfg { s with pol := s.pol.set sec l } (.addPolicy sec r)
          (exOnly cfg (.forAddPolicy sec r))) sec true [r] (.bool true)
          (fun e x hx => by simp at hx; subst hx; subst e; exact hop)
        have hp := persist_links cfg { s with pol := s.pol.set sec l } (.addPolicy sec r) (exOnly cfg (.forAddPolicy sec r))
        refine sameIn_of_change D s _ sec l (by rw [hf.2, hp.2]) ?_ (by rw [hf.1, hp.1])
        have hl : l = (Policy.add none (s.pol.get sec) r).1 := by rw [hadd]
        rw [hl]; unfold Policy.add part
        split
        · rfl
        · exact filter_append_foreign _ r hop
  | addMany sec rs =>
    simp only [step]
    cases hadd : Policy.addMany none (s.pol.get sec) rs with
    | mk l ok =>
      cases ok with
      | false => exact SameIn.refl D s
      | true =>
        simp only [Bool.not_true, Bool.false_eq_true, ↓reduceIte]
        split
        · exact SameIn.refl D s
        have hf := finish_part cfg hc D (persist cfg { s with pol := s.pol.set sec l } (.addPolicies sec rs)
          (exOnly cfg (.forAddPolicies sec rs))) sec true rs (.bool true)
          (fun e x hx => by subst e; exact hop x hx)
        have hp := persist_links cfg { s with pol := s.pol.set sec l } (.addPolicies sec rs) (exOnly cfg (.forAddPolicies sec rs))
        refine sameIn_of_change D s _ sec l (by rw [hf.2, hp.2]) ?_ (by rw [hf.1, hp.1])
        unfold Policy.addMany at hadd
        split at hadd
        · cases hadd
        · cases hadd; exact foldl_add_foreign rs _ hop
  | remove sec r =>
    simp only [step]
    cases hrem : Policy.remove (s.pol.get sec) r with
    | mk l ok =>
      cases ok with
      | false => exact SameIn.refl D s
      | true =>
        simp only [Bool.not_true, Bool.false_eq_true, ↓reduceIte]
        have hf := finish_part cfg hc D (persist cfg { s with pol := s.pol.set sec l } (.removePolicy sec r)
          (exOnly cfg (.forRemovePolicy sec r))) sec false [r] (.bool true)
          (fun e x hx => by simp at hx; subst hx; subst e; exact hop)
        have hp := persist_links cfg { s with pol := s.pol.set sec l } (.removePolicy sec r) (exOnly cfg (.forRemovePolicy sec r))
        refine sameIn_of_change D s _ sec l (by rw [hf.2, hp.2]) ?_ (by rw [hf.1, hp.1])
        have hl : l = (s.pol.get sec).erase r := by
          unfold Policy.remove at hrem
          split at hrem
          · cases hrem
          · exact (Prod.mk.inj hrem).1.symm
        rw [hl]; exact filter_erase_foreign _ r hop
  | removeMany sec rs =>
    simp only [step]
    cases hrem : Policy.removeMany (s.pol.get sec) rs with
    | mk l ok =>
      cases ok with
      | false => exact SameIn.refl D s
      | true =>
        simp only [Bool.not_true, Bool.false_eq_true, ↓reduceIte]
        have hf := finish_part cfg hc D (persist cfg { s with pol := s.pol.set sec l } (.removePolicies sec rs)
          (exOnly cfg (.forRemovePolicies sec rs))) sec false rs (.bool true)
          (fun e x hx => by subst e; exact hop x hx)
        have hp := persist_links cfg { s with pol := s.pol.set sec l } (.removePolicies sec rs) (exOnly cfg (.forRemovePolicies sec rs))
        refine sameIn_of_change D s _ sec l (by rw [hf.2, hp.2]) ?_ (by rw [hf.1, hp.1])
        unfold Policy.removeMany at hrem
        split at hrem
        · cases hrem; exact foldl_erase_foreign rs _ hop
        · cases hrem
  | removeFiltered sec idx vals =>
    have key : ∀ (l : List Rule), l = (s.pol.get sec).filter (fun r => !Spec.matchesFilter idx vals r) →
        part sec D l = part sec D (s.pol.get sec) := by
      intro l hl
      rw [hl]; unfold part
      exact filter_filter_foreign _ _ (fun x _ hx => foreign_filter_no_match sec D idx vals hop x hx)
    cases sec with
    | p =>
      simp only [step]
      cases hrf : Policy.removeFiltered (s.pol.get .p) idx vals with
      | error e => exact SameIn.refl D s
      | ok res =>
        obtain ⟨l, any⟩ := res
        have hl : l = (s.pol.get .p).filter (fun r => !Spec.matchesFilter idx vals r) := by
          unfold Policy.removeFiltered at hrf
          cases hpf : partitionFiltered idx vals (s.pol.get .p) with
          | error e => simp [hpf, Except.map] at hrf
          | ok pr =>
            obtain ⟨yes, no⟩ := pr
            simp [hpf, Except.map] at hrf
            obtain ⟨rfl, _⟩ := hrf
            exact (C09.partitionFiltered_ok idx vals _ yes no hpf).2
        simp only []
        split
        · exact sameIn_of_change D s _ .p l rfl (key l hl) rfl
        · have hp := persist_links cfg { s with pol := s.pol.set .p l } (.removeFiltered .p idx vals)
            (exOnly cfg (.forRemoveFiltered .p idx vals))
          exact sameIn_of_change D s _ .p l hp.2 (key l hl) (by rw [hp.1])
    | g => simp only [step]; exact rfGrouping_part cfg hc D s .g idx vals hop key
    | g2 => simp only [step]; exact rfGrouping_part cfg hc D s .g2 idx vals hop key
  | update old new =>
    simp only [step]
    cases hu : Policy.update none s.pol.p old new with
    | error e => exact SameIn.refl D s
    | ok res =>
      obtain ⟨l, ok⟩ := res
      simp only []
      cases ok with
      | false => exact SameIn.refl D s
      | true =>
        simp only [Bool.not_true, Bool.false_eq_true, ↓reduceIte]
        have hp := persist_links cfg { s with pol := s.pol.set .p l } (.updatePolicy .p old new)
          (updOnly cfg (.forUpdatePolicy old new))
        refine sameIn_of_change D s _ .p l hp.2 ?_ (by rw [hp.1])
        unfold Policy.update at hu
        split at hu
        · cases hu
        · rename_i hc1
          split at hu
          · cases hu
          · simp only [] at hu
            cases hu
            have hin : old ∈ s.pol.p := by simpa using hc1
            have hi : s.pol.p.idxOf old < s.pol.p.length := List.idxOf_lt_length_iff.mpr hin
            have hget : s.pol.p[s.pol.p.idxOf old] = old := List.getElem_idxOf hi
            exact filter_set_foreign _ _ new hi hop.2 (by rw [hget]; exact hop.1)
  | updateMany _ _ | clearPolicy | buildRoleLinks | savePolicy | loadPolicy _ | enableAutoSave _
  | enableAutoBuild _ | enableAutoNotify _ => exact hop.elim

end Casbin.Enf.C05

namespace Casbin.Enf.C05
open Casbin Casbin.Enf Casbin.Policy Casbin.Policy.C06 Casbin.Enf.C04

/-! ## what is recorded for `D` determines every answer in `D` -/

theorem any_congr' {α : Type} (l : List α) (f g : α → Bool) (h : ∀ x ∈ l, f x = g x) : l.any f = l.any g := by
  induction l with
  | nil => rfl
  | cons a as ih => simp only [List.any_cons, h a (by simp), ih (fun x hx => h x (by simp [hx]))]

/-- the edge a stored link contributes to the graph of a domain -/
def edgeIn (D : String) (l : Rule) : Option (Name × Name) :=
  match l, some D with
  | [u, r], none => some (u, r)
  | [u, r, d], some d' => if d == d' then some (u, r) else none
  | _, _ => none

theorem edgesOf_eq (store : List Rule) (D : String) : edgesOf store (some D) = store.filterMap (edgeIn D) := rfl

theorem edgeIn_foreign (D : String) (l : Rule) (h : inDom .g D l = false) : edgeIn D l = none := by
  unfold edgeIn
  split
  · rename_i h'; cases h'
  · rename_i u r d d' h2
    cases h2
    unfold inDom domIdx at h
    simp only [List.getElem?_cons_succ, List.getElem?_cons_zero] at h
    have : d ≠ D := by intro e; subst e; simp at h
    simp [this]
  · rfl

theorem edgesOf_part (store : List Rule) (D : String) : edgesOf (part .g D store) (some D) = edgesOf store (some D) := by
  rw [edgesOf_eq, edgesOf_eq]
  unfold part
  induction store with
  | nil => rfl
  | cons l ls ih =>
    simp only [List.filter]
    cases hin : inDom .g D l with
    | true => simp only [List.filterMap_cons]; rw [ih]
    | false => simp only [List.filterMap_cons, edgeIn_foreign D l hin]; exact ih

/-- role queries in `D` depend on the links recorded for `D` only -/
theorem links_in_domain (s s' : St) (D : String) (h : part .g D s'.links.g = part .g D s.links.g) :
    (∀ n1 n2, hasLinkQ s'.links.g n1 n2 (some D) = hasLinkQ s.links.g n1 n2 (some D)) ∧
    (∀ n, getRoles s'.links.g n (some D) = getRoles s.links.g n (some D)) ∧
    (∀ n, getUsers s'.links.g n (some D) = getUsers s.links.g n (some D)) := by
  have he : edgesOf s'.links.g (some D) = edgesOf s.links.g (some D) := by
    rw [← edgesOf_part s'.links.g D, ← edgesOf_part s.links.g D, h]
  refine ⟨fun n1 n2 => ?_, fun n => ?_, fun n => ?_⟩
  · unfold hasLinkQ; rw [he]
  · unfold getRoles; rw [he]
  · unfold getUsers; rw [he]

/-- all permission rules have the model's four fields -/
def PSized (l : List Rule) : Prop := ∀ r ∈ l, r.length = 4

/-- the domain matcher on a well-sized rule -/
def matchD (links : Pol) (rs rd ro ra : String) (pv : Rule) : Bool :=
  match pv with
  | ps :: pd :: po :: pa :: _ => hasLinkQ links.g rs ps (some rd) && rd == pd && ro == po && ra == pa
  | _ => false

theorem matcher_dom (links : Pol) (rs rd ro ra : String) (pv : Rule) (h : pv.length = 4) :
    matcher .rbacDom links [rs, rd, ro, ra] pv = .bool (matchD links rs rd ro ra pv) := by
  match pv, h with
  | [ps, pd, po, pa], _ => rfl

theorem allOutcomes_dom (links : Pol) (rs rd ro ra : String) (l : List Rule) (h : PSized l) :
    C01.allOutcomes { kind := .allowOverride, rArity := 4, pArity := 4 } (matcher .rbacDom links) [rs, rd, ro, ra] l =
      .ok (l.map fun pv => if matchD links rs rd ro ra pv then Outcome.mAllow else Outcome.noMatch) := by
  induction l with
  | nil => rfl
  | cons pv ps ih =>
    have hl : pv.length = 4 := h pv (by simp)
    have ih' := ih (fun x hx => h x (by simp [hx]))
    simp only [C01.allOutcomes, ruleOutcome, hl, matcher_dom links rs rd ro ra pv hl, ih', List.map_cons]
    cases matchD links rs rd ro ra pv <;> simp [ruleEft]

/-- the decision for a request in domain `rd ≠ ""` is "some rule matches" -/
theorem enforce_dom (s : St) (rs rd ro ra : String) (h : PSized s.pol.p) (hrd : rd ≠ "") :
    enforceQ .rbacDom s [rs, rd, ro, ra] = .ok (s.pol.p.any (matchD s.links rs rd ro ra)) := by
  unfold enforceQ
  cases hp : s.pol.p with
  | nil =>
    have := C01.empty_policy { kind := .allowOverride, rArity := Shape.rbacDom.arity, pArity := Shape.rbacDom.arity }
      (matcher .rbacDom s.links) [rs, rd, ro, ra] rfl rfl rfl
    rw [this]
    have hm : (matcher .rbacDom s.links [rs, rd, ro, ra] (List.replicate Shape.rbacDom.arity "")).truthy = false := by
      have : List.replicate Shape.rbacDom.arity "" = ["", "", "", ""] := rfl
      rw [this]
      simp [matcher, MVal.truthy, hrd]
    simp [hm, spec, Outcome.isAllow]
  | cons r rest =>
    have hps : PSized (r :: rest) := by rw [← hp]; exact h
    have := C01.enforce_eq_spec { kind := .allowOverride, rArity := 4, pArity := 4 } (matcher .rbacDom s.links)
      (r :: rest) [rs, rd, ro, ra] _ rfl rfl (by simp) (allOutcomes_dom s.links rs rd ro ra (r :: rest) hps)
    show enforce { kind := .allowOverride, rArity := 4, pArity := 4 } _ _ _ = _
    rw [this]
    simp only [spec, List.any_map]
    congr 1
    apply any_congr'
    intro x _
    simp only [Function.comp]
    cases matchD s.links rs rd ro ra x <;> simp [Outcome.isAllow]

theorem matchD_only_domain (links : Pol) (rs rd ro ra : String) (pv : Rule) (h : matchD links rs rd ro ra pv = true) :
    inDom .p rd pv = true := by
  unfold matchD at h
  split at h
  · rename_i ps pd po pa _
    simp only [Bool.and_eq_true, beq_iff_eq] at h
    obtain ⟨⟨⟨_, hd⟩, _⟩, _⟩ := h
    subst hd
    simp [inDom, domIdx]
  · cases h

theorem any_part (l : List Rule) (D : String) (m : Rule → Bool) (h : ∀ x, m x = true → inDom .p D x = true) :
    l.any m = (part .p D l).any m := by
  unfold part
  rw [List.any_filter]
  apply any_congr'
  intro x _
  cases hm : m x with
  | false => simp
  | true => simp [h x hm]

/-- **Answers in `D` depend on what is recorded for `D` only.** -/
theorem same_in_answers (D : String) (hD : D ≠ "") (s s' : St) (h : SameIn D s s') (hs : PSized s.pol.p)
    (hs' : PSized s'.pol.p) :
    (∀ n1 n2, hasLinkQ s'.links.g n1 n2 (some D) = hasLinkQ s.links.g n1 n2 (some D)) ∧
    (∀ n, getRoles s'.links.g n (some D) = getRoles s.links.g n (some D)) ∧
    (∀ n, getUsers s'.links.g n (some D) = getUsers s.links.g n (some D)) ∧
    (∀ rs ro ra, enforceQ .rbacDom s' [rs, D, ro, ra] = enforceQ .rbacDom s [rs, D, ro, ra]) := by
  obtain ⟨h1, h2, h3⟩ := links_in_domain s s' D h.lg
  refine ⟨h1, h2, h3, ?_⟩
  intro rs ro ra
  rw [enforce_dom s' rs D ro ra hs' hD, enforce_dom s rs D ro ra hs hD]
  congr 1
  have hm : ∀ pv, matchD s'.links rs D ro ra pv = matchD s.links rs D ro ra pv := by
    intro pv; unfold matchD; split
    · rw [h1]
    · rfl
  rw [any_part s'.pol.p D _ (fun x hx => matchD_only_domain _ _ _ _ _ x hx),
      any_part s.pol.p D _ (fun x hx => matchD_only_domain _ _ _ _ _ x hx), h.p]
  apply any_congr'
  intro x _; exact hm x

end Casbin.Enf.C05

namespace Casbin.Enf.C05
open Casbin Casbin.Enf Casbin.Policy Casbin.Policy.C06 Casbin.Enf.C04

theorem nodupPol_of_coherent {cfg : Cfg} {s : St} (h : Coherent cfg s) : C09.NodupPol s.pol :=
  ⟨h.p, h.g.nodupR, h.g2.nodupR⟩

/-- every history of calls touching only other domains leaves what is recorded for `D` untouched -/
theorem foreign_run (cfg : Cfg) (hc : cfg.gCount = 3) (D : String) (ops : List Op) (s : St) (h : Coherent cfg s)
    (hok : RunOK cfg s ops) (hf : ∀ op ∈ ops, Foreign D op) : SameIn D s (run cfg s ops) := by
  induction ops generalizing s with
  | nil => exact SameIn.refl D s
  | cons op ops ih =>
    simp only [run, List.foldl_cons]
    have h1 := foreign_step cfg hc D s op (hf op (by simp)) (nodupPol_of_coherent h)
    have h2 := ih (step cfg s op).1 (coherent_step cfg s op h hok.1) hok.2 (fun o ho => hf o (by simp [ho]))
    exact h1.trans h2

/-- **Domain isolation.** After any history of management calls that touch only domains other than `D` — adds,
    removes, batches, filtered removals, updates; successful, rejected or raising — every decision for a request
    in `D` and every role query scoped to `D` is what it was before. -/
theorem foreign_frame (cfg : Cfg) (hc : cfg.gCount = 3) (D : String) (hD : D ≠ "") (ops : List Op) (s : St)
    (h : Coherent cfg s) (hok : RunOK cfg s ops) (hf : ∀ op ∈ ops, Foreign D op)
    (hs : PSized s.pol.p) (hs' : PSized (run cfg s ops).pol.p) :
    (∀ n1 n2, hasLinkQ (run cfg s ops).links.g n1 n2 (some D) = hasLinkQ s.links.g n1 n2 (some D)) ∧
    (∀ n, getRoles (run cfg s ops).links.g n (some D) = getRoles s.links.g n (some D)) ∧
    (∀ n, getUsers (run cfg s ops).links.g n (some D) = getUsers s.links.g n (some D)) ∧
    (∀ rs ro ra, enforceQ .rbacDom (run cfg s ops) [rs, D, ro, ra] = enforceQ .rbacDom s [rs, D, ro, ra]) :=
  same_in_answers D hD s _ (foreign_run cfg hc D ops s h hok hf) hs hs'

/-- domain-scoped role queries report only what is recorded for the queried domain -/
theorem scoped_queries_filter (store : List Rule) (D : String) (n x : String) :
    (x ∈ getRoles store n (some D) → [n, x, D] ∈ store) ∧ (x ∈ getUsers store n (some D) → [x, n, D] ∈ store) := by
  have key : ∀ u r, (u, r) ∈ edgesOf store (some D) → [u, r, D] ∈ store := by
    intro u r he
    rw [edgesOf_eq] at he
    obtain ⟨l, hl, hle⟩ := List.mem_filterMap.mp he
    unfold edgeIn at hle
    split at hle
    · rename_i h'; cases h'
    · rename_i u' r' d d' h2
      cases h2
      split at hle
      · rename_i hd
        simp at hd; subst hd
        cases hle; exact hl
      · cases hle
    · cases hle
  constructor
  · intro hx
    unfold getRoles at hx
    obtain ⟨e, he, rfl⟩ := List.mem_map.mp hx
    obtain ⟨he1, he2⟩ := List.mem_filter.mp he
    simp at he2; subst he2
    exact key _ _ he1
  · intro hx
    unfold getUsers at hx
    obtain ⟨e, he, rfl⟩ := List.mem_map.mp hx
    obtain ⟨he1, he2⟩ := List.mem_filter.mp he
    simp at he2; subst he2
    exact key _ _ he1

/-! ## Non-vacuity -/

example : Foreign "d1" (.add .g ["bob", "admin", "d2"]) ∧ Foreign "d1" (.removeFiltered .g 0 ["", "", "d2"]) ∧
    Foreign "d1" (.removeFiltered .p 1 ["d2"]) ∧ ¬ Foreign "d1" (.add .p ["admin", "d1", "data1", "read"]) := by
  refine ⟨by show inDom _ _ _ = false; decide, ⟨2, "d2", by decide, by decide, by decide, by decide⟩,
    ⟨0, "d2", by decide, by decide, by decide, by decide⟩, by show ¬ (inDom _ _ _ = false); decide⟩

end Casbin.Enf.C05
