import CasbinV.Model.Matcher
import CasbinV.Model.MatcherTokens
/-!
# C02 — a rule matches exactly when the matcher expression is true of request and rule

The pipeline from the model text to the evaluated expression is textual. The theorems here say that every
textual step maps *every layout* of *every token sequence* to a layout of the translated token sequence
(so the result cannot depend on how the matcher is spaced), under explicit decidable hypotheses on the token
sequence; the points excluded by the hypotheses are exhibited by `decide` witnesses and run against the real
code by the harness. Subject: `Model/Matcher.lean` (tied to the code by exhaustive small-scope and random
differential execution, function by function and for the pipeline as a whole).

Since the F01b repair the steps of this file are the *per-text* steps: the pipeline applies them to the texts outside
string literals (`split_literals`). `Props/C02Lit.lean` lifts every layout theorem of this file to token sequences
with string literals, with no hypothesis on what the literals contain.
-/
namespace Casbin.C02
open Casbin.Matcher

/-! ## `str.replace` of a doubled character -/

theorem replace2_cons_ne (a : Char) (R : Str) (c : Char) (r : Str) (hc : c ≠ a) :
    replace2 a R (c :: r) = c :: replace2 a R r := by
  cases r with
  | nil => simp [replace2]
  | cons d rest => simp [replace2, hc]

theorem replace2_pair (a : Char) (R r : Str) : replace2 a R (a :: a :: r) = R ++ replace2 a R r := by
  simp [replace2]

theorem replace2_noa (a : Char) (R x y : Str) (h : a ∉ x) :
    replace2 a R (x ++ y) = x ++ replace2 a R y := by
  induction x with
  | nil => rfl
  | cons c cs ih =>
    have hc : c ≠ a := by intro e; subst e; simp at h
    have hcs : a ∉ cs := by intro e; exact h (List.mem_cons_of_mem _ e)
    simp only [List.cons_append]
    rw [replace2_cons_ne _ _ _ _ hc, ih hcs]

/-! ## `re.sub(r"!(?!=)", …)` -/

theorem subNot_cons_ne (R : Str) (c : Char) (r : Str) (hc : c ≠ '!') :
    subNot R (c :: r) = c :: subNot R r := by
  simp [subNot, hc]

theorem subNot_nobang (R x y : Str) (h : '!' ∉ x) : subNot R (x ++ y) = x ++ subNot R y := by
  induction x with
  | nil => rfl
  | cons c cs ih =>
    have hc : c ≠ '!' := by intro e; subst e; simp at h
    have hcs : '!' ∉ cs := by intro e; exact h (List.mem_cons_of_mem _ e)
    simp only [List.cons_append]
    rw [subNot_cons_ne _ _ _ hc, ih hcs]

theorem subNot_ne (R r : Str) : subNot R ('!' :: '=' :: r) = '!' :: '=' :: subNot R r := by
  rw [subNot]
  simp only [↓reduceIte]
  rw [subNot_cons_ne _ _ _ (by decide)]

theorem subNot_bang (R r : Str) (h : startsEq r = false) : subNot R ('!' :: r) = R ++ subNot R r := by
  cases r with
  | nil => simp [subNot]
  | cons c t =>
    have hc : c ≠ '=' := by intro e; subst e; simp [startsEq] at h
    rw [subNot]
    simp only [↓reduceIte]
    intro tail heq
    cases heq
    exact hc rfl

/-! ## `_get_expression` maps every layout to a valid layout of the translated tokens -/

/-- a layout with an arbitrary token-text function -/
def renderWith (f : Tok → Str) : List (Tok × Str) → Str
  | [] => []
  | (t, g) :: r => f t ++ g ++ renderWith f r

theorem render_eq (ts : List (Tok × Str)) : render ts = renderWith Tok.src ts := by
  induction ts with
  | nil => rfl
  | cons p r ih => obtain ⟨t, g⟩ := p; simp [render, renderWith, ih]

/-- token texts after the first, second and third rewriting step -/
def s1 : Tok → Str | .andOp => andR | t => t.src
def s2 : Tok → Str | .orOp => orR | t => s1 t
def s3 : Tok → Str | .notOp => notR | t => s2 t

theorem noOp_of_any {s : Str} (h : s.any opChar = false) : '&' ∉ s ∧ '|' ∉ s ∧ '!' ∉ s := by
  simp only [List.any_eq_false] at h
  refine ⟨?_, ?_, ?_⟩ <;> intro hm <;> have := h _ hm <;> simp [opChar] at this

theorem noOp_of_blank {g : Str} (h : g.all isBlank = true) : '&' ∉ g ∧ '|' ∉ g ∧ '!' ∉ g ∧ '=' ∉ g := by
  simp only [List.all_eq_true] at h
  refine ⟨?_, ?_, ?_, ?_⟩ <;> intro hm <;> have := h _ hm <;> simp [isBlank] at this

/-- what token-local well-formedness gives for the three passes -/
theorem wf_src {t : Tok} (h : t.wf = true) :
    (t ≠ .andOp → '&' ∉ t.src) ∧ (t ≠ .orOp → '|' ∉ s1 t) ∧ (t ≠ .notOp → t ≠ .neOp → '!' ∉ s2 t) := by
  cases t with
  | ref k suf f =>
    simp only [Tok.wf, Bool.and_eq_true, Bool.not_eq_eq_eq_not, Bool.not_true] at h
    obtain ⟨⟨hk, hs⟩, hf⟩ := h
    have ⟨a1, a2, a3⟩ := noOp_of_any hs
    have ⟨b1, b2, b3⟩ := noOp_of_any hf
    simp only [opChar, Bool.or_eq_false_iff, beq_eq_false_iff_ne, ne_eq] at hk
    obtain ⟨⟨k1, k2⟩, k3⟩ := hk
    simp [Tok.src, s1, s2, a1, a2, a3, b1, b2, b3, Ne.symm k1, Ne.symm k2, Ne.symm k3]
  | word s =>
    simp only [Tok.wf, Bool.and_eq_true, Bool.not_eq_eq_eq_not, Bool.not_true] at h
    have ⟨a1, a2, a3⟩ := noOp_of_any h.1
    simp [Tok.src, s1, s2, a1, a2, a3]
  | other s =>
    simp only [Tok.wf, Bool.and_eq_true, Bool.not_eq_eq_eq_not, Bool.not_true] at h
    have ⟨a1, a2, a3⟩ := noOp_of_any h.1
    simp [Tok.src, s1, s2, a1, a2, a3]
  | andOp => simp [s1, s2, andR]
  | orOp => simp [Tok.src, s1, s2, orR]
  | notOp => simp [Tok.src, s1, s2]
  | neOp => simp [Tok.src, s1, s2]

def localWf (ts : List (Tok × Str)) : Prop := ∀ p ∈ ts, p.1.wf = true ∧ p.2.all isBlank = true

theorem pass1 (ts : List (Tok × Str)) (h : localWf ts) :
    replace2 '&' andR (renderWith Tok.src ts) = renderWith s1 ts := by
  induction ts with
  | nil => rfl
  | cons p r ih =>
    obtain ⟨t, g⟩ := p
    have ⟨hw, hb⟩ := h (t, g) (by simp)
    have ih' := ih (fun q hq => h q (by simp [hq]))
    have hg := (noOp_of_blank hb).1
    by_cases ht : t = .andOp
    · subst ht
      simp only [renderWith, Tok.src, s1, List.cons_append, List.nil_append]
      rw [replace2_pair, replace2_noa _ _ _ _ hg, ih']
      simp
    · have hs := (wf_src hw).1 ht
      have e : s1 t = t.src := by cases t <;> simp_all [s1]
      simp only [renderWith, List.append_assoc]
      rw [replace2_noa _ _ _ _ hs, replace2_noa _ _ _ _ hg, ih', e]

theorem pass2 (ts : List (Tok × Str)) (h : localWf ts) :
    replace2 '|' orR (renderWith s1 ts) = renderWith s2 ts := by
  induction ts with
  | nil => rfl
  | cons p r ih =>
    obtain ⟨t, g⟩ := p
    have ⟨hw, hb⟩ := h (t, g) (by simp)
    have ih' := ih (fun q hq => h q (by simp [hq]))
    have hg := (noOp_of_blank hb).2.1
    by_cases ht : t = .orOp
    · subst ht
      simp only [renderWith, Tok.src, s1, s2, List.cons_append, List.nil_append]
      rw [replace2_pair, replace2_noa _ _ _ _ hg, ih']
      simp
    · have hs := (wf_src hw).2.1 ht
      have e : s2 t = s1 t := by cases t <;> simp_all [s2]
      simp only [renderWith, List.append_assoc]
      rw [replace2_noa _ _ _ _ hs, replace2_noa _ _ _ _ hg, ih', e]

theorem wfToks_cons {t : Tok} {g : Str} {rest : List (Tok × Str)} (h : wfToks ((t, g) :: rest) = true) :
    t.wf = true ∧ g.all isBlank = true ∧ wfToks rest = true ∧
    (∀ t' g' r', rest = (t', g') :: r' →
      (t = .notOp → g = [] → startsEq t'.src = false) ∧
      (t.wordySrc = true → g = [] → t'.wordySrc = false ∧ t' ≠ .notOp)) := by
  cases rest with
  | nil => simp_all [wfToks]
  | cons q r' =>
    obtain ⟨t', g'⟩ := q
    unfold wfToks at h
    simp only [Bool.and_eq_true] at h
    obtain ⟨⟨⟨hw, hb⟩, ha⟩, hr⟩ := h
    simp only [Bool.or_eq_true, Bool.not_eq_eq_eq_not, Bool.not_true] at ha
    obtain ⟨ha1, ha2⟩ := ha
    refine ⟨hw, hb, hr, ?_⟩
    intro t'' g'' r'' e
    cases e
    refine ⟨?_, ?_⟩
    · intro ht hg
      subst ht; subst hg
      simpa using ha1
    · intro ht hg
      subst hg
      simp [ht] at ha2
      simpa using ha2

theorem wfToks_local (ts : List (Tok × Str)) (h : wfToks ts = true) : localWf ts := by
  induction ts with
  | nil => intro p hp; cases hp
  | cons q r ih =>
    obtain ⟨t, g⟩ := q
    have ⟨hw, hb, hr, _⟩ := wfToks_cons h
    intro p hp
    rcases List.mem_cons.mp hp with e | e
    · subst e; exact ⟨hw, hb⟩
    · exact ih hr p e

theorem startsEq_cons (c : Char) (x : Str) : startsEq (c :: x) = decide (c = '=') := by
  by_cases h : c = '='
  · subst h; rfl
  · simp only [h, decide_false]
    unfold startsEq
    split
    · rename_i heq; cases heq; exact absurd rfl h
    · rfl

theorem startsEq_s2 {t : Tok} (z : Str) (hw : t.wf = true) (h : startsEq t.src = false) :
    startsEq (s2 t ++ z) = false := by
  cases t with
  | ref k suf f => simpa [s2, s1, Tok.src, startsEq_cons] using h
  | word s =>
    cases s with
    | nil => simp [Tok.wf] at hw
    | cons c s' => simpa [s2, s1, Tok.src, startsEq_cons] using h
  | other s =>
    cases s with
    | nil => simp [Tok.wf] at hw
    | cons c s' => simpa [s2, s1, Tok.src, startsEq_cons] using h
  | andOp => simp [s2, s1, andR, startsEq_cons]
  | orOp => simp [s2, orR, startsEq_cons]
  | notOp => simp [s2, s1, Tok.src, startsEq_cons]
  | neOp => simp [s2, s1, Tok.src, startsEq_cons]

theorem pass3 (ts : List (Tok × Str)) (h : wfToks ts = true) :
    subNot notR (renderWith s2 ts) = renderWith s3 ts := by
  induction ts with
  | nil => rfl
  | cons p r ih =>
    obtain ⟨t, g⟩ := p
    have ⟨hw, hb, hr, hadj⟩ := wfToks_cons h
    have ih' := ih hr
    have hg := (noOp_of_blank hb).2.2.1
    by_cases ht : t = .notOp
    · subst ht
      have hse : startsEq (g ++ renderWith s2 r) = false := by
        cases g with
        | cons c g' =>
          have : c ≠ '=' := by
            intro e; subst e; simp [isBlank] at hb
          simp only [List.cons_append, startsEq]
          split
          · rename_i heq; cases heq; exact absurd rfl this
          · rfl
        | nil =>
          cases r with
          | nil => rfl
          | cons q r' =>
            obtain ⟨t', g'⟩ := q
            have hs := (hadj t' g' r' rfl).1 rfl rfl
            have hw' := (wfToks_cons hr).1
            simp only [List.nil_append, renderWith, List.append_assoc]
            exact startsEq_s2 _ hw' hs
      simp only [renderWith, s2, s1, s3, Tok.src, List.cons_append, List.nil_append]
      rw [subNot_bang _ _ hse, subNot_nobang _ _ _ hg, ih']
      simp
    · by_cases hn : t = .neOp
      · subst hn
        simp only [renderWith, s2, s1, s3, Tok.src, List.cons_append, List.nil_append]
        rw [subNot_ne, subNot_nobang _ _ _ hg, ih']
      · have hs := (wf_src hw).2.2 ht hn
        have e : s3 t = s2 t := by cases t <;> simp_all [s3]
        simp only [renderWith, List.append_assoc]
        rw [subNot_nobang _ _ _ hs, subNot_nobang _ _ _ hg, ih', e]

theorem renderWith_s3 (ts : List (Tok × Str)) : renderWith s3 ts = renderPy (ts.map pad) := by
  induction ts with
  | nil => rfl
  | cons p r ih =>
    obtain ⟨t, g⟩ := p
    cases t <;> simp [renderWith, renderPy, pad, s3, s2, s1, Tok.py, Tok.src, andR, orR, notR, ih]

theorem pad_separated (ts : List (Tok × Str)) (h : wfToks ts = true) : pySeparated (ts.map pad) = true := by
  induction ts with
  | nil => rfl
  | cons p r ih =>
    obtain ⟨t, g⟩ := p
    have ⟨_, _, hr, hadj⟩ := wfToks_cons h
    have ih' := ih hr
    cases r with
    | nil => cases t <;> rfl
    | cons q r' =>
      obtain ⟨t', g'⟩ := q
      have ⟨_, h2⟩ := hadj t' g' r' rfl
      simp only [List.map_cons] at ih' ⊢
      have key : (!((pad (t, g)).2.1.wordy && (pad (t', g')).2.1.wordy) ||
          !((pad (t, g)).2.2 ++ (pad (t', g')).1).isEmpty) = true := by
        cases g with
        | cons c g0 => cases t <;> cases t' <;> simp [pad]
        | nil =>
          cases t <;> cases t' <;> simp_all [pad, Tok.wordy, Tok.wordySrc]
      rcases hp : pad (t, g) with ⟨a, b, c⟩
      rcases hp' : pad (t', g') with ⟨a', b', c'⟩
      rw [hp, hp'] at key
      rw [hp'] at ih'
      simp only [pySeparated, Bool.and_eq_true]
      exact ⟨key, ih'⟩

/-- **getExpression_layout** — for every token sequence and every layout of it (`wfToks`: lexemes contain no
    operator character, gaps are blanks, no `!` directly before `=`, words are not glued), the text
    `_get_expression` hands to the evaluator is a layout of the translated tokens (`&& ↦ and`, `|| ↦ or`,
    `! ↦ not`) in which word-like tokens are separated. -/
theorem getExpression_layout (ts : List (Tok × Str)) (h : wfToks ts = true) :
    getExpression (render ts) = renderPy (ts.map pad) ∧ pySeparated (ts.map pad) = true := by
  refine ⟨?_, pad_separated ts h⟩
  have hl := wfToks_local ts h
  unfold getExpression
  rw [render_eq, pass1 ts hl, pass2 ts hl, pass3 ts h, renderWith_s3]

/-- non-vacuity: `r.sub==p.sub&&!(r.obj!=p.obj)||g(r.sub,"x")`, written without a single blank -/
def exampleToks : List (Tok × Str) :=
  [(.ref 'r' [] "sub".toList, []), (.other "==".toList, []), (.ref 'p' [] "sub".toList, []), (.andOp, []),
   (.notOp, []), (.other "(".toList, []), (.ref 'r' [] "obj".toList, []), (.neOp, []),
   (.ref 'p' [] "obj".toList, []), (.other ")".toList, []), (.orOp, []), (.word "g".toList, []),
   (.other "(".toList, []), (.ref 'r' [] "sub".toList, []), (.other ",".toList, []),
   (.other "\"x\"".toList, []), (.other ")".toList, [])]

example : wfToks exampleToks = true := by decide
example : String.ofList (render exampleToks) = "r.sub==p.sub&&!(r.obj!=p.obj)||g(r.sub,\"x\")" := by decide
example : String.ofList (getExpression (render exampleToks)) =
    "r.sub==p.sub and not (r.obj!=p.obj) or g(r.sub,\"x\")" := by decide

/-- **F01, negative witness**: the unrepaired code (`"and"`, `"or"`) glues the keyword to its neighbours, so
    its output is *not* the translated layout for the layout without blanks — `a&&b` becomes `aandb`. -/
theorem unrepaired_glues :
    getExpressionUnrepaired (render [(.word ['a'], []), (.andOp, []), (.word ['b'], [])]) = "aandb".toList ∧
    getExpression (render [(.word ['a'], []), (.andOp, []), (.word ['b'], [])]) = "a and b".toList ∧
    getExpressionUnrepaired (render [(.word ['a'], []), (.orOp, []), (.notOp, []), (.word ['b'], [])]) = "aornot b".toList := by
  decide

/-- outside `wfToks`: the per-text step rewrites an operator character wherever it stands. Before the F01b repair
    this step ran over the whole matcher, string literals included (this witness); the repaired pipeline applies it
    to the texts *outside* string literals only: `Props/C02Lit.lean`, `getExpressionL_layout` (no hypothesis on
    literal bodies) and the positive witness `literal_not_rewritten`. -/
theorem literal_rewritten :
    getExpression (render [(.other "\"a&&b\"".toList, [])]) = "\"a and b\"".toList ∧
    wfToks [(.other "\"a&&b\"".toList, [])] = false := by
  decide

/-! ## `remove_comments` -/

theorem takeWhile_ne_append (a : Char) (x y : Str) (h : a ∉ x) :
    (x ++ a :: y).takeWhile (· != a) = x := by
  induction x with
  | nil => simp
  | cons c cs ih =>
    have hc : c ≠ a := by intro e; subst e; simp at h
    have hcs : a ∉ cs := by intro e; exact h (List.mem_cons_of_mem _ e)
    simp [hc, ih hcs]

/-- **removeComments_prefix** — whatever follows the first `#` is dropped and the text before it is stripped;
    a text without `#` is returned as it is (not stripped) -/
theorem removeComments_prefix (x y : Str) (h : '#' ∉ x) :
    removeComments (x ++ '#' :: y) = strip x ∧ removeComments x = x := by
  constructor
  · unfold removeComments
    have : (x ++ '#' :: y).contains '#' = true := by simp
    rw [if_pos this, takeWhile_ne_append _ _ _ h]
  · unfold removeComments
    simp [h]

example : '#' ∉ "r_sub == p_sub  ".toList := by decide
example : String.ofList (removeComments "r_sub == p_sub  # the matcher".toList) = "r_sub == p_sub" := by decide

/-- the per-text step cuts at any `#`; before the F01b repair it ran over the whole matcher, so a `#` inside a string
    literal cut it (this witness). Repaired: `removeCommentsL` looks for `#` outside string literals only
    (`Props/C02Lit.lean`, `removeCommentsL_prefix`, `hash_in_literal_kept`). -/
theorem hash_in_literal_cuts : removeComments "r_obj == \"a#b\"".toList = "r_obj == \"a".toList := by decide

/-! ## result typing -/

/-- **matcher_result_typing** — `bool` as it is, a number iff it is non-zero, anything else raises -/
theorem matcher_result_typing (k : ResKind) :
    resultMatches k = (match k with
      | .bool b => .ok b | .float nz => .ok nz | .int nz => .ok nz | .other => .error .resultType) := by
  cases k <;> rfl

example : resultMatches (.int true) = .ok true := rfl

/-! ## `escape_assertion` maps every layout to the same layout of the renamed tokens -/

theorem lastWord_cons (pw : Bool) (c : Char) (t : Str) : lastWord pw (c :: t) = lastWord (isWord c) t := by
  cases t with
  | nil => simp [lastWord]
  | cons d t' =>
    simp only [lastWord, List.getLast?_cons_cons]
    cases h : (d :: t').getLast? with
    | none => simp at h
    | some x => rfl

theorem lastWord_append (pw : Bool) (x y : Str) : lastWord pw (x ++ y) = lastWord (lastWord pw x) y := by
  induction x generalizing pw with
  | nil => simp [lastWord]
  | cons c x ih => simp only [List.cons_append, lastWord_cons, ih]

theorem dropWhile_digits (x : Str) (c : Char) (z : Str) (hx : x.all isDigit = true) (hc : isDigit c = false) :
    (x ++ c :: z).dropWhile isDigit = c :: z ∧ (x ++ c :: z).takeWhile isDigit = x := by
  induction x with
  | nil => simp [hc]
  | cons d x ih =>
    simp only [List.all_cons, Bool.and_eq_true] at hx
    simp [hx.1, ih hx.2]

theorem stops_drop (t y : Str) (h : stopsWithin t = true) :
    ∃ c r, (t ++ y).dropWhile isDigit = c :: r ∧ c ≠ '.' := by
  induction t with
  | nil => simp [stopsWithin] at h
  | cons d t ih =>
    by_cases hd : isDigit d = true
    · have : stopsWithin t = true := by simpa [stopsWithin, List.dropWhile_cons, hd] using h
      obtain ⟨c, r, e, hc⟩ := ih this
      exact ⟨c, r, by simp [hd, e], hc⟩
    · have hd' : isDigit d = false := by simpa using hd
      refine ⟨d, t ++ y, by simp [hd'], ?_⟩
      simpa [stopsWithin, List.dropWhile_cons, hd'] using h

theorem stops_noprefix (suf t y : Str) (hs : suf.all isDigit = true) (h : stopsWithin t = true) :
    (suf ++ ['.']).isPrefixOf (t ++ y) = false := by
  induction suf generalizing t with
  | nil =>
    cases t with
    | nil => simp [stopsWithin] at h
    | cons d t =>
      by_cases hd : isDigit d = true
      · have : d ≠ '.' := by intro e; subst e; simp [isDigit] at hd
        simp [List.isPrefixOf, Ne.symm this]
      · have hd' : isDigit d = false := by simpa using hd
        have : d ≠ '.' := by simpa [stopsWithin, List.dropWhile_cons, hd'] using h
        simp [List.isPrefixOf, Ne.symm this]
  | cons s suf ih =>
    simp only [List.all_cons, Bool.and_eq_true] at hs
    cases t with
    | nil => simp [stopsWithin] at h
    | cons d t =>
      by_cases hsd : s = d
      · subst hsd
        have : stopsWithin t = true := by simpa [stopsWithin, List.dropWhile_cons, hs.1] using h
        simp [ih t hs.2 this]
      · simp [List.isPrefixOf, hsd]

theorem quiet_sub (k : Char) (suf : Str) (hs : suf.all isDigit = true) (x y : Str) (pw : Bool)
    (h : quiet k pw x = true) :
    subRef k suf 0 pw (x ++ y) = x ++ subRef k suf 0 (lastWord pw x) y := by
  induction x generalizing pw with
  | nil => simp [lastWord]
  | cons c t ih =>
    simp only [quiet, Bool.and_eq_true, Bool.or_eq_true] at h
    obtain ⟨h1, h2⟩ := h
    have cond : (!pw && c == k && (suf ++ ['.']).isPrefixOf (t ++ y)) = false := by
      rcases h1 with (h1 | h1) | h1
      · simp [h1]
      · have : (c == k) = false := by simpa using h1
        simp [this]
      · simp [stops_noprefix suf t y hs h1]
    simp only [List.cons_append, subRef, cond, lastWord_cons]
    simp [ih _ h2]

theorem refSuffixAt_quiet (k c : Char) (t y : Str) (h : (c != k || stopsWithin t) = true) :
    refSuffixAt k (c :: (t ++ y)) = none := by
  simp only [Bool.or_eq_true] at h
  by_cases hc : c = k
  · subst hc
    have hst : stopsWithin t = true := by simpa using h
    obtain ⟨d, r, e, hd⟩ := stops_drop t y hst
    simp only [refSuffixAt, ↓reduceIte, e]
    split
    · rename_i heq; cases heq; exact absurd rfl hd
    · rfl
  · simp [refSuffixAt, hc]

theorem quiet_search (k : Char) (x y : Str) (pw : Bool) (h : quiet k pw x = true) :
    searchRef k pw (x ++ y) = searchRef k (lastWord pw x) y := by
  induction x generalizing pw with
  | nil => simp [lastWord]
  | cons c t ih =>
    simp only [quiet, Bool.and_eq_true] at h
    obtain ⟨h1, h2⟩ := h
    have cond : (if pw then none else refSuffixAt k (c :: (t ++ y))) = none := by
      cases pw with
      | true => rfl
      | false => simpa using refSuffixAt_quiet k c t y (by simpa using h1)
    simp only [List.cons_append, searchRef, cond, lastWord_cons]
    exact ih _ h2

theorem sub_skip (k : Char) (suf x : Str) (d : Char) (z : Str) (pw : Bool) :
    subRef k suf (x.length + 1) pw (x ++ d :: z) = x ++ '_' :: subRef k suf 0 false z := by
  induction x generalizing pw with
  | nil => simp [subRef]
  | cons c x ih => simp [subRef, ih]

theorem sub_ref (k : Char) (suf z : Str) :
    subRef k suf 0 false (k :: (suf ++ '.' :: z)) = k :: (suf ++ '_' :: subRef k suf 0 false z) := by
  have pre : (suf ++ ['.']).isPrefixOf (suf ++ '.' :: z) = true := by
    induction suf with
    | nil => simp [List.isPrefixOf]
    | cons c s ih => simp [ih]
  simp only [subRef, Bool.not_false, Bool.true_and, beq_self_eq_true, pre, ↓reduceIte]
  rw [sub_skip]

theorem search_ref (k : Char) (suf z : Str) (hs : suf.all isDigit = true) :
    searchRef k false (k :: (suf ++ '.' :: z)) = some suf := by
  have ⟨e1, e2⟩ := dropWhile_digits suf '.' z hs (by decide)
  simp [searchRef, refSuffixAt, e1, e2]

theorem src_lastWord_ref (pw : Bool) (k : Char) (suf f : Str) :
    lastWord pw (Tok.ref k suf f).src = lastWord false f := by
  simp only [Tok.src, lastWord_cons]
  rw [lastWord_append, lastWord_cons]
  rfl

theorem render_map_cons (fn : Tok → Tok) (t : Tok) (g : Str) (rest : List (Tok × Str)) :
    render (mapToks fn ((t, g) :: rest)) = (fn t).src ++ g ++ render (mapToks fn rest) := by
  simp [mapToks, render]

theorem okFor_sub (k : Char) (suf : Str) (hs : suf.all isDigit = true) (ts : List (Tok × Str)) (pw : Bool)
    (h : okFor k suf pw ts = true) :
    subRef k suf 0 pw (render ts) = render (mapToks (escK k) ts) := by
  induction ts generalizing pw with
  | nil => simp [render, mapToks, subRef]
  | cons p rest ih =>
    obtain ⟨t, g⟩ := p
    simp only [okFor, Bool.and_eq_true] at h
    obtain ⟨⟨ht, hg⟩, hr⟩ := h
    have ih' := ih _ hr
    rw [render_map_cons]
    simp only [render, List.append_assoc]
    by_cases hk : ∃ s f, t = .ref k s f
    · obtain ⟨s, f, e⟩ := hk
      subst e
      simp only [↓reduceIte, Bool.and_eq_true, Bool.not_eq_eq_eq_not, Bool.not_true, beq_iff_eq] at ht
      obtain ⟨⟨⟨hpw, hsuf⟩, hdig⟩, hf⟩ := ht
      subst hsuf; subst hpw
      rw [src_lastWord_ref] at hg hr ih'
      simp only [Tok.src, escK, ↓reduceIte, List.cons_append, List.append_assoc]
      rw [sub_ref, quiet_sub k s hdig f _ false hf, quiet_sub k s hdig g _ _ hg, ih']
    · have hq : quiet k pw t.src = true := by
        cases t with
        | ref k' s f =>
          have : k' ≠ k := by intro e; subst e; exact hk ⟨s, f, rfl⟩
          simpa [this] using ht
        | _ => simpa using ht
      have he : escK k t = t := by
        cases t with
        | ref k' s f =>
          have : k' ≠ k := by intro e; subst e; exact hk ⟨s, f, rfl⟩
          simp [escK, this]
        | _ => rfl
      rw [he, quiet_sub k suf hs _ _ _ hq, quiet_sub k suf hs g _ _ hg, ih']

theorem okFor_search (k : Char) (suf : Str) (ts : List (Tok × Str)) (pw : Bool)
    (h : okFor k suf pw ts = true) :
    searchRef k pw (render ts) = if hasRef k ts = true then some suf else none := by
  induction ts generalizing pw with
  | nil => simp [render, searchRef, hasRef]
  | cons p rest ih =>
    obtain ⟨t, g⟩ := p
    simp only [okFor, Bool.and_eq_true] at h
    obtain ⟨⟨ht, hg⟩, hr⟩ := h
    have ih' := ih _ hr
    simp only [render, List.append_assoc]
    by_cases hk : ∃ s f, t = .ref k s f
    · obtain ⟨s, f, e⟩ := hk
      subst e
      simp only [↓reduceIte, Bool.and_eq_true, Bool.not_eq_eq_eq_not, Bool.not_true, beq_iff_eq] at ht
      obtain ⟨⟨⟨hpw, hsuf⟩, hdig⟩, _⟩ := ht
      subst hsuf; subst hpw
      simp only [Tok.src, List.cons_append, List.append_assoc]
      rw [search_ref k s _ hdig]
      simp [hasRef]
    · have hq : quiet k pw t.src = true := by
        cases t with
        | ref k' s f =>
          have : k' ≠ k := by intro e; subst e; exact hk ⟨s, f, rfl⟩
          simpa [this] using ht
        | _ => simpa using ht
      have hh : hasRef k ((t, g) :: rest) = hasRef k rest := by
        cases t with
        | ref k' s f =>
          have : k' ≠ k := by intro e; subst e; exact hk ⟨s, f, rfl⟩
          simp [hasRef, this]
        | _ => rfl
      rw [quiet_search k _ _ _ hq, quiet_search k g _ _ hg, ih', hh]

theorem mapToks_cons (fn : Tok → Tok) (t : Tok) (g : Str) (rest : List (Tok × Str)) :
    mapToks fn ((t, g) :: rest) = (fn t, g) :: mapToks fn rest := rfl

theorem noRef_map (k : Char) (ts : List (Tok × Str)) (h : hasRef k ts = false) : mapToks (escK k) ts = ts := by
  induction ts with
  | nil => rfl
  | cons p rest ih =>
    obtain ⟨t, g⟩ := p
    cases t with
    | ref k' s f =>
      simp only [hasRef, Bool.or_eq_false_iff, beq_eq_false_iff_ne, ne_eq] at h
      rw [mapToks_cons, ih h.2]
      simp [escK, h.1]
    | _ =>
      rw [mapToks_cons, ih (by simpa [hasRef] using h)]
      rfl

/-- one kind (`p` or `r`): every reference `k{suf}.field` becomes the identifier `k{suf}_field`, gaps and all
    other tokens are untouched -/
theorem escapeKind_layout (k : Char) (suf : Str) (hs : suf.all isDigit = true) (ts : List (Tok × Str))
    (h : okFor k suf false ts = true) :
    escapeKind k (render ts) = render (mapToks (escK k) ts) := by
  unfold escapeKind
  rw [okFor_search k suf ts false h]
  by_cases hr : hasRef k ts = true
  · simp only [hr, ↓reduceIte]
    exact okFor_sub k suf hs ts false h
  · have hr' : hasRef k ts = false := by simpa using hr
    simp only [hr', Bool.false_eq_true, ↓reduceIte]
    rw [noRef_map k ts hr']

/-- **escapeAssertion_layout** — for every token sequence in which all policy references carry one suffix
    `sp` and all request references one suffix `sr` (`singleSuffix`) and nothing else looks like a reference
    (`noShadow`; both are the decidable `okFor`), and for every layout of it, `escape_assertion` yields the same
    layout of the renamed tokens. -/
theorem escapeAssertion_layout (sp sr : Str) (hp : sp.all isDigit = true) (hr : sr.all isDigit = true)
    (ts : List (Tok × Str)) (h1 : okFor 'p' sp false ts = true)
    (h2 : okFor 'r' sr false (mapToks (escK 'p') ts) = true) :
    escapeAssertion (render ts) = render (mapToks escTok ts) := by
  unfold escapeAssertion
  rw [escapeKind_layout 'p' sp hp ts h1, escapeKind_layout 'r' sr hr _ h2]
  congr 1
  simp only [mapToks, List.map_map]
  rfl

/-- non-vacuity: `r2.sub == p2.sub && regexMatch(r2.act, "read")` (identifiers and a literal starting with `r`) -/
def exampleEsc : List (Tok × Str) :=
  [(.ref 'r' ['2'] "sub".toList, [' ']), (.other "==".toList, [' ']), (.ref 'p' ['2'] "sub".toList, [' ']),
   (.andOp, [' ']), (.word "regexMatch".toList, []), (.other "(".toList, []), (.ref 'r' ['2'] "act".toList, []),
   (.other ",".toList, [' ']), (.other "\"read\"".toList, []), (.other ")".toList, [])]

example : okFor 'p' ['2'] false exampleEsc = true ∧ okFor 'r' ['2'] false (mapToks (escK 'p') exampleEsc) = true := by
  decide
example : String.ofList (escapeAssertion (render exampleEsc)) =
    "r2_sub == p2_sub && regexMatch(r2_act, \"read\")" := by decide

/-- outside the hypotheses: the per-text step renames reference-like text wherever it stands — before the F01b repair
    also inside a string literal (first conjunct; repaired: `escapeAssertionL_layout`, `literal_not_renamed` in
    `Props/C02Lit.lean`); and a matcher mixing two suffixes of one kind has only the first suffix renamed (third
    conjunct: still so, `singleSuffix` stays a hypothesis) -/
theorem escape_outside_hypotheses :
    escapeAssertion "r.obj == \"p.txt\"".toList = "r_obj == \"p_txt\"".toList ∧
    okFor 'p' [] false [(.ref 'r' [] "obj".toList, [' ']), (.other "==".toList, [' ']), (.other "\"p.txt\"".toList, [])] = false ∧
    escapeAssertion "p.x == p2.y".toList = "p_x == p2.y".toList := by
  decide

/-! ## `eval()`: detection, argument extraction and splicing — for every placement of white space between
     `eval` and `(` and around the argument (F01c repaired) -/

theorem mismatch_drop (lit s y : Str) (h : mismatch lit s = true) : dropPrefix? lit (s ++ y) = none := by
  induction lit generalizing s with
  | nil => cases s <;> simp [mismatch] at h
  | cons p ps ih =>
    cases s with
    | nil => simp [mismatch] at h
    | cons c t =>
      simp only [mismatch, Bool.or_eq_true, bne_iff_ne, ne_eq] at h
      by_cases hpc : p = c
      · subst hpc
        simp only [not_true_eq_false, false_or] at h
        simp [dropPrefix?, ih t h]
      · simp [dropPrefix?, hpc]

theorem dropPrefix_self (lit z : Str) : dropPrefix? lit (lit ++ z) = some z := by
  induction lit with
  | nil => cases z <;> rfl
  | cons p ps ih => simp [dropPrefix?, ih]

theorem dropPrefix_append (lit s t y : Str) (h : dropPrefix? lit s = some t) :
    dropPrefix? lit (s ++ y) = some (t ++ y) := by
  induction lit generalizing s with
  | nil =>
    cases s <;> simp [dropPrefix?] at h <;> subst h
    · cases y <;> rfl
    · rfl
  | cons p ps ih =>
    cases s with
    | nil => simp [dropPrefix?] at h
    | cons c s' =>
      by_cases hpc : p = c
      · subst hpc
        simp only [dropPrefix?, beq_self_eq_true, ↓reduceIte] at h
        simp [dropPrefix?, ih s' h]
      · simp [dropPrefix?, hpc] at h

theorem dropWhile_all (p : Char → Bool) (x : Str) (c : Char) (z : Str) (hx : x.all p = true) (hc : p c = false) :
    (x ++ c :: z).dropWhile p = c :: z ∧ (x ++ c :: z).takeWhile p = x := by
  induction x with
  | nil => simp [hc]
  | cons d x ih =>
    simp only [List.all_cons, Bool.and_eq_true] at hx
    simp [hx.1, ih hx.2]

theorem dropWhile_all_nil (p : Char → Bool) (x : Str) (hx : x.all p = true) : x.dropWhile p = [] := by
  induction x with
  | nil => rfl
  | cons d x ih =>
    simp only [List.all_cons, Bool.and_eq_true] at hx
    simp [hx.1, ih hx.2]

theorem dropWhile_stops (p : Char → Bool) (t y : Str) (c : Char) (r : Str) (h : t.dropWhile p = c :: r) :
    (t ++ y).dropWhile p = c :: (r ++ y) := by
  induction t with
  | nil => simp at h
  | cons d t ih =>
    by_cases hd : p d = true
    · simp only [List.dropWhile_cons, hd, ↓reduceIte] at h
      simp [hd, ih h]
    · have hd' : p d = false := by simpa using hd
      simp only [List.dropWhile_cons, hd', Bool.false_eq_true, ↓reduceIte, List.cons.injEq] at h
      obtain ⟨rfl, rfl⟩ := h
      simp [hd']

theorem evalAt_noStart (s y : Str) (h : noStart s = true) : evalAt (s ++ y) = none := by
  simp only [noStart, Bool.or_eq_true] at h
  rcases h with h | h
  · simp [evalAt, mismatch_drop _ _ _ h]
  · cases hd : dropPrefix? evalWord s with
    | none => simp [hd] at h
    | some t =>
      simp only [hd] at h
      cases hw : t.dropWhile isSpace with
      | nil => simp [hw] at h
      | cons c r =>
        simp only [hw, bne_iff_ne, ne_eq] at h
        simp only [evalAt, dropPrefix_append _ _ _ y hd, dropWhile_stops _ t y c r hw]
        split
        · rename_i heq; cases heq; exact absurd rfl h
        · rfl

/-- `str.strip` removes exactly the white space around a text that has none at its ends -/
theorem strip_pad (a x b : Str) (ha : a.all isSpace = true) (hb : b.all isSpace = true)
    (hx : trimmed x = true) : strip (a ++ (x ++ b)) = x := by
  simp only [trimmed, Bool.and_eq_true] at hx
  obtain ⟨h1, h2⟩ := hx
  cases x with
  | nil =>
    have : (a ++ b).all isSpace = true := by simp [ha, hb]
    simp [strip, lstrip, rstrip, dropWhile_all_nil _ _ this]
  | cons c x' =>
    have hc : isSpace c = false := by simpa using h1
    have e1 : lstrip (a ++ (c :: x' ++ b)) = c :: x' ++ b := by
      simpa [lstrip] using (dropWhile_all isSpace a c (x' ++ b) ha hc).1
    cases hr : (c :: x').reverse with
    | nil => simp at hr
    | cons l r =>
      simp only [hr] at h2
      have hl : isSpace l = false := by simpa using h2
      have hbr : b.reverse.all isSpace = true := by simpa using hb
      have e2 : (c :: x' ++ b).reverse.dropWhile isSpace = l :: r := by
        rw [List.reverse_append, hr]
        exact (dropWhile_all isSpace b.reverse l r hbr hl).1
      rw [strip, e1, rstrip, e2, ← hr, List.reverse_reverse]

theorem space_no_paren {w : Str} (h : w.all isSpace = true) : ')' ∉ w := by
  intro hm
  have := List.all_eq_true.mp h _ hm
  simp [isSpace] at this

/-- the text of one call and what the scanner sees at its first character -/
def callText (c : EvalCall) (z : Str) : Str :=
  evalWord ++ (c.ws1 ++ '(' :: (c.ws2 ++ (c.name ++ (c.ws3 ++ ')' :: z))))

def callBody (c : EvalCall) : Str := 'v' :: 'a' :: 'l' :: (c.ws1 ++ '(' :: (c.ws2 ++ (c.name ++ c.ws3)))

theorem call_text (c : EvalCall) (z : Str) : callText c z = 'e' :: (callBody c ++ ')' :: z) := by
  simp [callText, callBody, evalWord]

def okCall (c : EvalCall) : Bool :=
  c.ws1.all isSpace && c.ws2.all isSpace && c.ws3.all isSpace && !c.name.contains ')' && trimmed c.name

theorem evalAt_call (c : EvalCall) (z : Str) (h : okCall c = true) :
    evalAt (callText c z) = some (c.name, (callBody c).length + 1) := by
  simp only [okCall, Bool.and_eq_true, Bool.not_eq_eq_eq_not, Bool.not_true] at h
  obtain ⟨⟨⟨⟨h1, h2⟩, h3⟩, hn⟩, ht⟩ := h
  have hn' : ')' ∉ c.name := by simpa using hn
  have hcontent : ')' ∉ c.ws2 ++ (c.name ++ c.ws3) := by
    simp [space_no_paren h2, space_no_paren h3, hn']
  have ⟨d1, d2⟩ := dropWhile_all isSpace c.ws1 '(' (c.ws2 ++ (c.name ++ (c.ws3 ++ ')' :: z))) h1 (by decide)
  have eu : c.ws2 ++ (c.name ++ (c.ws3 ++ ')' :: z)) = (c.ws2 ++ (c.name ++ c.ws3)) ++ ')' :: z := by simp
  simp only [callText, evalAt, dropPrefix_self, d1, d2]
  have hc : (c.ws2 ++ (c.name ++ (c.ws3 ++ ')' :: z))).contains ')' = true := by simp
  rw [if_pos hc, eu, takeWhile_ne_append _ _ _ hcontent, strip_pad _ _ _ h2 h3 ht]
  simp [callBody]
  omega

theorem quietE_find (x y : Str) (pw : Bool) (h : quietE pw x = true) :
    findEvals 0 pw (x ++ y) = findEvals 0 (lastWord pw x) y := by
  induction x generalizing pw with
  | nil => simp [lastWord]
  | cons c t ih =>
    simp only [quietE, Bool.and_eq_true, Bool.or_eq_true] at h
    obtain ⟨h1, h2⟩ := h
    have cond : (if pw = true then none else evalAt (c :: (t ++ y))) = none := by
      rcases h1 with h1 | h1
      · simp [h1]
      · have := evalAt_noStart (c :: t) y h1
        simp only [List.cons_append] at this
        simp [this]
    simp only [List.cons_append, findEvals, cond, lastWord_cons]
    exact ih _ h2

theorem quietE_replace (x y : Str) (pw : Bool) (rules : List Str) (h : quietE pw x = true) :
    replaceEvalAux 0 pw (x ++ y) rules = (replaceEvalAux 0 (lastWord pw x) y rules).map (x ++ ·) := by
  induction x generalizing pw with
  | nil => simp [lastWord]
  | cons c t ih =>
    simp only [quietE, Bool.and_eq_true, Bool.or_eq_true] at h
    obtain ⟨h1, h2⟩ := h
    have cond : (if pw = true then none else evalAt (c :: (t ++ y))) = none := by
      rcases h1 with h1 | h1
      · simp [h1]
      · have := evalAt_noStart (c :: t) y h1
        simp only [List.cons_append] at this
        simp [this]
    simp only [List.cons_append, replaceEvalAux, cond, lastWord_cons]
    rw [ih _ h2]
    cases replaceEvalAux 0 (lastWord (isWord c) t) y rules <;> simp

theorem find_skip (x : Str) (d : Char) (z : Str) (pw : Bool) :
    findEvals (x.length + 1) pw (x ++ d :: z) = findEvals 0 false z := by
  induction x generalizing pw with
  | nil => simp [findEvals]
  | cons c x ih => simp [findEvals, ih]

theorem replace_skip (x : Str) (d : Char) (z : Str) (pw : Bool) (rules : List Str) :
    replaceEvalAux (x.length + 1) pw (x ++ d :: z) rules = replaceEvalAux 0 false z rules := by
  induction x generalizing pw with
  | nil => simp [replaceEvalAux]
  | cons c x ih => simp [replaceEvalAux, ih]

theorem quietEnd_find (x : Str) (pw : Bool) (h : quietEnd pw x = true) : findEvals 0 pw x = [] := by
  induction x generalizing pw with
  | nil => rfl
  | cons c t ih =>
    simp only [quietEnd, Bool.and_eq_true, Bool.or_eq_true] at h
    obtain ⟨h1, h2⟩ := h
    have cond : (if pw = true then none else evalAt (c :: t)) = none := by
      rcases h1 with h1 | h1
      · simp [h1]
      · simp [Option.isNone_iff_eq_none.mp h1]
    simp only [findEvals, cond]
    exact ih _ h2

theorem quietEnd_replace (x : Str) (pw : Bool) (rules : List Str) (h : quietEnd pw x = true) :
    replaceEvalAux 0 pw x rules = some x := by
  induction x generalizing pw with
  | nil => rfl
  | cons c t ih =>
    simp only [quietEnd, Bool.and_eq_true, Bool.or_eq_true] at h
    obtain ⟨h1, h2⟩ := h
    have cond : (if pw = true then none else evalAt (c :: t)) = none := by
      rcases h1 with h1 | h1
      · simp [h1]
      · simp [Option.isNone_iff_eq_none.mp h1]
    simp only [replaceEvalAux, cond]
    rw [ih _ h2]
    rfl

theorem find_call (c : EvalCall) (z : Str) (h : okCall c = true) :
    findEvals 0 false (callText c z) = c.name :: findEvals 0 false z := by
  have e := evalAt_call c z h
  rw [call_text] at e ⊢
  simp only [findEvals, Bool.false_eq_true, ↓reduceIte, e]
  rw [find_skip]

theorem replace_call (c : EvalCall) (z r : Str) (rs : List Str) (h : okCall c = true) :
    replaceEvalAux 0 false (callText c z) (r :: rs) =
      (replaceEvalAux 0 false z rs).map fun out => '(' :: (r ++ ')' :: out) := by
  have e := evalAt_call c z h
  rw [call_text] at e ⊢
  simp only [replaceEvalAux, Bool.false_eq_true, ↓reduceIte, e]
  rw [replace_skip]

theorem renderEvals_cons (c : EvalCall) (rest : List EvalCall) (tail : Str) :
    renderEvals (c :: rest) tail = c.pre ++ callText c (renderEvals rest tail) := rfl

theorem okEvals_cons {pw : Bool} {c : EvalCall} {rest : List EvalCall} {tail : Str}
    (h : okEvals pw (c :: rest) tail = true) :
    quietE pw c.pre = true ∧ lastWord pw c.pre = false ∧ okCall c = true ∧ okEvals false rest tail = true := by
  simp only [okEvals, Bool.and_eq_true, Bool.not_eq_eq_eq_not, Bool.not_true] at h
  obtain ⟨⟨⟨⟨⟨⟨⟨a, b⟩, c1⟩, c2⟩, c3⟩, c4⟩, c5⟩, d⟩ := h
  refine ⟨a, b, ?_, d⟩
  have c4' : ')' ∉ c.name := by simpa using c4
  simp [okCall, c1, c2, c3, c4', c5]

/-- **getEvalValue_layout** — `get_eval_value` returns exactly the names of the calls, in order, for every
    placement of white space inside the calls (`has_eval` holds iff there is a call) -/
theorem getEvalValue_layout (segs : List EvalCall) (tail : Str) (pw : Bool)
    (h : okEvals pw segs tail = true) :
    findEvals 0 pw (renderEvals segs tail) = segs.map (·.name) := by
  induction segs generalizing pw with
  | nil => simpa [renderEvals] using quietEnd_find tail pw (by simpa [okEvals] using h)
  | cons c rest ih =>
    obtain ⟨hq, hl, hc, hr⟩ := okEvals_cons h
    rw [renderEvals_cons, quietE_find c.pre _ pw hq, hl, find_call c _ hc, ih false hr]
    rfl

/-- **replaceEval_layout** — `k` occurrences of `eval( name )` are replaced by the `k` parenthesised rule texts,
    in order; the text between them is untouched (for every text in which nothing else looks like a call, and
    every placement of white space inside the calls) -/
theorem replaceEval_layout (segs : List EvalCall) (tail : Str) (rules : List Str) (pw : Bool)
    (h : okEvals pw segs tail = true) (hl : rules.length = segs.length) :
    replaceEvalAux 0 pw (renderEvals segs tail) rules = some (spliced segs rules tail) := by
  induction segs generalizing pw rules with
  | nil =>
    cases rules with
    | nil => simpa [renderEvals, spliced] using quietEnd_replace tail pw [] (by simpa [okEvals] using h)
    | cons r rs => simp at hl
  | cons c rest ih =>
    cases rules with
    | nil => simp at hl
    | cons r rs =>
      obtain ⟨hq, hlw, hc, hr⟩ := okEvals_cons h
      rw [renderEvals_cons, quietE_replace c.pre _ pw _ hq, hlw, replace_call c _ r rs hc,
        ih rs false hr (by simpa using hl)]
      simp [spliced]

/-- too few rule texts: `rules.pop(0)` raises (`IndexError`) -/
theorem replaceEval_short (c : EvalCall) (rest : List EvalCall) (tail : Str) (pw : Bool)
    (h : okEvals pw (c :: rest) tail = true) :
    replaceEvalAux 0 pw (renderEvals (c :: rest) tail) [] = none := by
  obtain ⟨hq, hlw, hc, _⟩ := okEvals_cons h
  have e := evalAt_call c (renderEvals rest tail) hc
  rw [renderEvals_cons, quietE_replace c.pre _ pw _ hq, hlw]
  rw [call_text] at e ⊢
  simp only [replaceEvalAux, Bool.false_eq_true, ↓reduceIte, e]
  rfl

theorem okEvals_tight {pw : Bool} {segs : List EvalCall} {tail : Str} (h : okEvals pw segs tail = true) :
    okEvals pw (segs.map EvalCall.tight) tail = true := by
  induction segs generalizing pw with
  | nil => simpa [okEvals] using h
  | cons c rest ih =>
    simp only [okEvals, Bool.and_eq_true, Bool.not_eq_eq_eq_not, Bool.not_true] at h
    obtain ⟨⟨⟨⟨⟨⟨⟨a, b⟩, _⟩, _⟩, _⟩, c4⟩, c5⟩, d⟩ := h
    have c4' : ')' ∉ c.name := by simpa using c4
    simp [okEvals, EvalCall.tight, a, b, c4', c5, ih d]

theorem spliced_tight (segs : List EvalCall) (rules : List Str) (tail : Str) :
    spliced (segs.map EvalCall.tight) rules tail = spliced segs rules tail := by
  induction segs generalizing rules with
  | nil => cases rules <;> rfl
  | cons c rest ih =>
    cases rules with
    | nil => rfl
    | cons r rs => simp [spliced, EvalCall.tight, ih]

/-- **eval_spacing_irrelevant** (F01c) — the names found and the spliced text are the same as for the matcher
    in which every call is written `eval(name)` without white space -/
theorem eval_spacing_irrelevant (segs : List EvalCall) (tail : Str) (rules : List Str)
    (h : okEvals false segs tail = true) (hl : rules.length = segs.length) :
    getEvalValue (renderEvals segs tail) = getEvalValue (renderEvals (segs.map EvalCall.tight) tail) ∧
    replaceEval (renderEvals segs tail) rules = replaceEval (renderEvals (segs.map EvalCall.tight) tail) rules := by
  have ht := okEvals_tight h
  constructor
  · unfold getEvalValue
    rw [getEvalValue_layout _ _ _ h, getEvalValue_layout _ _ _ ht]
    simp [EvalCall.tight, Function.comp_def]
  · unfold replaceEval
    rw [replaceEval_layout _ _ _ _ h hl, replaceEval_layout _ _ _ _ ht (by simpa using hl), spliced_tight]

/-- non-vacuity: `eval ( p_sub_rule ) && r_obj == p_obj || eval(p_rule2 )` -/
def exampleEvals : List EvalCall :=
  [{ pre := [], ws1 := [' '], ws2 := [' '], name := "p_sub_rule".toList, ws3 := [' '] },
   { pre := " && r_obj == p_obj || ".toList, ws1 := [], ws2 := [], name := "p_rule2".toList, ws3 := ['\t'] }]

example : okEvals false exampleEvals [] = true := by decide
example : String.ofList (renderEvals exampleEvals []) = "eval ( p_sub_rule ) && r_obj == p_obj || eval(p_rule2\t)" := by
  decide
example : (replaceEval (renderEvals exampleEvals []) ["r_sub.age > 18".toList, "True".toList]).map String.ofList =
    some "(r_sub.age > 18) && r_obj == p_obj || (True)" := by decide
example : (getEvalValue (renderEvals exampleEvals [])).map String.ofList = ["p_sub_rule", "p_rule2"] := by decide
example : getEvalValue "evaluate(x) && my_eval(y) && eval(p_r)".toList = ["p_r".toList] := by decide

/-- **F01c, negative witness**: the unrepaired regular expression `\beval\(([^)]*)\)` keeps the blanks in the
    group (so the lookup of the rule field fails) and does not see `eval (…)` at all -/
def evalAtUnrepaired (s : Str) : Option Str :=
  match dropPrefix? (evalWord ++ ['(']) s with
  | none => none
  | some t => if t.contains ')' then some (t.takeWhile (· != ')')) else none

theorem unrepaired_eval_keeps_blanks :
    evalAtUnrepaired "eval( p_r )".toList = some " p_r ".toList ∧
    evalAtUnrepaired "eval (p_r)".toList = none ∧
    (evalAt "eval( p_r )".toList).map (·.1) = some "p_r".toList ∧
    (evalAt "eval (p_r)".toList).map (·.1) = some "p_r".toList := by
  decide

/-! ## `Config._parse_buffer`: blank and comment lines, continuation lines -/

theorem write_nil (st : PState) (h : st.buf = []) : write st = .ok st := by
  simp [write, h]

theorem write_ok_cases (st st' : PState) (h : write st = .ok st') :
    (st.buf.flatten = [] ∧ st' = st) ∨
    (st'.buf = [] ∧ st'.canWrite = st.canWrite ∧ st'.sect = st.sect) := by
  unfold write at h
  by_cases hj : st.buf.flatten = []
  · simp only [hj, ↓reduceIte, Except.ok.injEq] at h
    exact Or.inl ⟨hj, h.symm⟩
  · simp only [hj, ↓reduceIte] at h
    split at h
    · cases h
    · simp only [Except.ok.injEq] at h
      subst h
      exact Or.inr ⟨rfl, rfl, rfl⟩

/-- a line the parser skips: blank, or starting with `#` / `;` -/
def isSkip (raw : Str) : Prop := strip raw = [] ∨ ∃ h t, strip raw = h :: t ∧ (h = '#' ∨ h = ';')

theorem stepLine_skip (st : PState) (raw : Str) (hs : isSkip raw) :
    stepLine st raw = (preWrite st).map ({ · with canWrite := true }) := by
  unfold stepLine
  cases preWrite st with
  | error e => rfl
  | ok st1 =>
    rcases hs with hs | ⟨h, t, hs, hh⟩
    · simp [hs, Except.map]
    · simp [hs, hh, Except.map]

theorem stepLine_congr (a b : PState) (raw : Str) (h : preWrite a = preWrite b) :
    stepLine a raw = stepLine b raw := by
  unfold stepLine
  rw [h]

theorem eta_cw (st : PState) (b : Bool) (h : st.canWrite = b) : { st with canWrite := b } = st := by
  cases st; simp_all

/-- **skip_line_invariant** — a blank line or a `#` / `;` comment line between complete entries (i.e. when no
    unfinished continuation is pending: `canWrite` or an empty buffer) does not change the parsed data -/
theorem skip_line_invariant (st : PState) (raw : Str) (rest : List Str) (hs : isSkip raw)
    (h : st.canWrite = true ∨ st.buf = []) :
    (parseLines st (raw :: rest)).map (·.data) = (parseLines st rest).map (·.data) := by
  rw [parseLines, stepLine_skip st raw hs]
  by_cases hc : st.canWrite = true
  · -- the pending entry is written first, exactly as the next iteration would have done
    simp only [preWrite, hc, ↓reduceIte]
    cases hw : write st with
    | error e =>
      cases rest with
      | nil => simp [Except.map, parseLines, finish, hc, hw]
      | cons r rest' => simp [Except.map, parseLines, stepLine, preWrite, hc, hw]
    | ok st1 =>
      simp only [Except.map]
      rcases write_ok_cases st st1 hw with ⟨_, e⟩ | ⟨hb, hcw, _⟩
      · subst e
        have : ({ ({ st1 with canWrite := false } : PState) with canWrite := true } : PState) = st1 := by
          cases st1; simp_all
        rw [this]
      · have hcw1 : st1.canWrite = true := by rw [hcw, hc]
        have e2 : ({ ({ st1 with canWrite := false } : PState) with canWrite := true } : PState) = st1 := by
          cases st1; simp_all
        rw [e2]
        cases rest with
        | nil =>
          simp [parseLines, finish, hc, hw, hcw1, hb, write_nil st1 hb]
        | cons r rest' =>
          have : preWrite st1 = preWrite st := by
            simp [preWrite, hc, hw, hcw1, write_nil st1 hb]
          simp only [parseLines]
          rw [stepLine_congr st1 st r this]
  · have hc' : st.canWrite = false := by simpa using hc
    have hb : st.buf = [] := by
      rcases h with h | h
      · exact absurd h hc
      · exact h
    simp only [preWrite, hc', Bool.false_eq_true, ↓reduceIte, Except.map]
    cases rest with
    | nil =>
      have hb2 : ({ st with canWrite := true } : PState).buf = [] := hb
      have w2 := write_nil _ hb2
      simp only [parseLines, finish, ↓reduceIte, w2, hc', Bool.false_eq_true]
      simp [hb]
    | cons r rest' =>
      have hb2 : ({ st with canWrite := true } : PState).buf = [] := hb
      have : preWrite { st with canWrite := true } = preWrite st := by
        simp only [preWrite, ↓reduceIte, write_nil _ hb2, Except.map, hc', Bool.false_eq_true]
        rw [eta_cw st false hc']
      simp only [parseLines]
      rw [stepLine_congr _ st r this]

example : isSkip "  # a comment".toList := by
  refine Or.inr ⟨'#', " a comment".toList, by decide, Or.inl rfl⟩
example : isSkip "   ".toList := Or.inl (by decide)

/-- simulation between parser states: the buffer is only ever observed through its concatenation and emptiness -/
def Sim (a b : PState) : Prop :=
  a.sect = b.sect ∧ a.canWrite = b.canWrite ∧ a.data = b.data ∧ a.buf.flatten = b.buf.flatten ∧
  (a.buf = [] ↔ b.buf = [])

def SimE : Except CfgErr PState → Except CfgErr PState → Prop
  | .ok a, .ok b => Sim a b
  | .error e, .error e' => e = e'
  | _, _ => False

theorem SimE_err {e : CfgErr} {b : PState} (h : SimE (.error e) (.ok b)) : False := h
theorem SimE_err' {e : CfgErr} {a : PState} (h : SimE (.ok a) (.error e)) : False := h

theorem SimE_map {x y : Except CfgErr PState} {f : PState → PState} (h : SimE x y)
    (hf : ∀ a b, Sim a b → Sim (f a) (f b)) : SimE (x.map f) (y.map f) := by
  cases x with
  | error e => cases y with
    | error e' => exact h
    | ok b => exact (SimE_err h).elim
  | ok a => cases y with
    | error e' => exact (SimE_err' h).elim
    | ok b => exact hf a b h

theorem SimE_data {x y : Except CfgErr PState} (h : SimE x y) : x.map (·.data) = y.map (·.data) := by
  cases x with
  | error e => cases y with
    | error e' => cases e; cases e'; rfl
    | ok b => exact (SimE_err h).elim
  | ok a => cases y with
    | error e' => exact (SimE_err' h).elim
    | ok b => simp only [Except.map]; rw [(show a.data = b.data from h.2.2.1)]

theorem Sim_cw {a b : PState} (c : Bool) (h : Sim a b) :
    Sim { a with canWrite := c } { b with canWrite := c } := by
  obtain ⟨h1, _, h3, h4, h5⟩ := h
  exact ⟨h1, rfl, h3, h4, h5⟩

theorem write_sim {a b : PState} (h : Sim a b) : SimE (write a) (write b) := by
  obtain ⟨h1, h2, h3, h4, h5⟩ := h
  unfold write
  rw [← h4]
  by_cases hj : a.buf.flatten = []
  · simp only [hj, ↓reduceIte]
    exact ⟨h1, h2, h3, h4, h5⟩
  · simp only [hj, ↓reduceIte]
    cases splitFirst '=' a.buf.flatten with
    | none => exact rfl
    | some ov =>
      obtain ⟨o, v⟩ := ov
      exact ⟨h1, h2, by simp only [h1, h3], rfl, Iff.rfl⟩

theorem preWrite_sim {a b : PState} (h : Sim a b) : SimE (preWrite a) (preWrite b) := by
  unfold preWrite
  rw [← h.2.1]
  by_cases hc : a.canWrite = true
  · simp only [hc, ↓reduceIte]
    exact SimE_map (write_sim h) (fun _ _ => Sim_cw false)
  · simp only [hc, Bool.false_eq_true, ↓reduceIte]
    exact h

theorem stepLine_sim {a b : PState} (raw : Str) (h : Sim a b) : SimE (stepLine a raw) (stepLine b raw) := by
  have hp := preWrite_sim h
  unfold stepLine
  cases ha : preWrite a with
  | error e =>
    cases hb : preWrite b with
    | error e' => exact rfl
    | ok b' => rw [ha, hb] at hp; exact (SimE_err hp).elim
  | ok a' =>
    cases hb : preWrite b with
    | error e' => rw [ha, hb] at hp; exact (SimE_err' hp).elim
    | ok b' =>
      rw [ha, hb] at hp
      obtain ⟨h1, h2, h3, h4, h5⟩ := (hp : Sim a' b')
      have hne : (a'.buf ≠ []) ↔ (b'.buf ≠ []) := not_congr h5
      simp only
      cases strip raw with
      | nil => exact ⟨h1, rfl, h3, h4, h5⟩
      | cons c t =>
        simp only
        split
        · exact ⟨h1, rfl, h3, h4, h5⟩
        · split
          · have hw : SimE (if a'.buf ≠ [] then (write a').map ({ · with canWrite := false }) else .ok a')
                (if b'.buf ≠ [] then (write b').map ({ · with canWrite := false }) else .ok b') := by
              by_cases hbb : a'.buf ≠ []
              · rw [if_pos hbb, if_pos (hne.mp hbb)]
                exact SimE_map (write_sim ⟨h1, h2, h3, h4, h5⟩) (fun _ _ => Sim_cw false)
              · rw [if_neg hbb, if_neg (fun x => hbb (hne.mpr x))]
                exact ⟨h1, h2, h3, h4, h5⟩
            cases hwa : (if a'.buf ≠ [] then (write a').map ({ · with canWrite := false }) else .ok a') with
            | error e =>
              cases hwb : (if b'.buf ≠ [] then (write b').map ({ · with canWrite := false }) else .ok b') with
              | error e' => exact rfl
              | ok b2 => rw [hwa, hwb] at hw; exact (SimE_err hw).elim
            | ok a2 =>
              cases hwb : (if b'.buf ≠ [] then (write b').map ({ · with canWrite := false }) else .ok b') with
              | error e' => rw [hwa, hwb] at hw; exact (SimE_err' hw).elim
              | ok b2 =>
                rw [hwa, hwb] at hw
                have hw' : Sim a2 b2 := hw
                exact ⟨rfl, hw'.2.1, hw'.2.2.1, hw'.2.2.2.1, hw'.2.2.2.2⟩
          · split
            · refine ⟨h1, h2, h3, ?_, ?_⟩
              · simp [h4]
              · simp
            · refine ⟨h1, rfl, h3, ?_, ?_⟩
              · simp [h4]
              · simp

theorem finish_sim {a b : PState} (h : Sim a b) : SimE (finish a) (finish b) := by
  unfold finish
  have hw : SimE (if a.canWrite = true then write a else .ok a) (if b.canWrite = true then write b else .ok b) := by
    rw [← h.2.1]
    by_cases hc : a.canWrite = true
    · simp only [hc, ↓reduceIte]; exact write_sim h
    · simp only [hc, Bool.false_eq_true, ↓reduceIte]; exact h
  cases hwa : (if a.canWrite = true then write a else .ok a) with
  | error e =>
    cases hwb : (if b.canWrite = true then write b else .ok b) with
    | error e' => exact rfl
    | ok b2 => rw [hwa, hwb] at hw; exact (SimE_err hw).elim
  | ok a2 =>
    cases hwb : (if b.canWrite = true then write b else .ok b) with
    | error e' => rw [hwa, hwb] at hw; exact (SimE_err' hw).elim
    | ok b2 =>
      rw [hwa, hwb] at hw
      have h' : Sim a2 b2 := hw
      have hne : (a2.buf ≠ []) ↔ (b2.buf ≠ []) := not_congr h'.2.2.2.2
      simp only
      by_cases hb : a2.buf ≠ []
      · rw [if_pos hb, if_pos (hne.mp hb)]; exact write_sim h'
      · rw [if_neg hb, if_neg (fun x => hb (hne.mpr x))]; exact h'

theorem parse_sim {a b : PState} (ls : List Str) (h : Sim a b) : SimE (parseLines a ls) (parseLines b ls) := by
  induction ls generalizing a b with
  | nil => exact finish_sim h
  | cons raw rest ih =>
    have hs := stepLine_sim raw h
    simp only [parseLines]
    cases ha : stepLine a raw with
    | error e =>
      cases hb : stepLine b raw with
      | error e' => exact rfl
      | ok b' => rw [ha, hb] at hs; exact (SimE_err hs).elim
    | ok a' =>
      cases hb : stepLine b raw with
      | error e' => rw [ha, hb] at hs; exact (SimE_err' hs).elim
      | ok b' => rw [ha, hb] at hs; exact ih hs

/-- a stripped line that is neither skipped nor a section header -/
def plainLine (l : Str) : Prop :=
  ∃ h t, l = h :: t ∧ h ≠ '#' ∧ h ≠ ';' ∧ ¬(h = '[' ∧ l.getLast? = some ']')

theorem step_plain (st : PState) (raw l : Str) (hcw : st.canWrite = false) (hs : strip raw = l)
    (hp : plainLine l) :
    stepLine st raw =
      if l.getLast? = some '\\' then .ok { st with buf := st.buf ++ [strip l.dropLast ++ [' ']] }
      else .ok { st with buf := st.buf ++ [l], canWrite := true } := by
  obtain ⟨h, t, e, h1, h2, h3⟩ := hp
  subst e
  unfold stepLine
  simp only [preWrite, hcw, Bool.false_eq_true, ↓reduceIte, hs]
  rw [if_neg (by simp [h1, h2]), if_neg h3]

/-- a continuation line contributes its text (without the backslash, stripped) and one blank -/
theorem step_cont (st : PState) (raw x : Str) (hcw : st.canWrite = false) (hs : strip raw = x ++ ['\\'])
    (hp : plainLine (x ++ ['\\'])) :
    stepLine st raw = .ok { st with buf := st.buf ++ [strip x ++ [' ']] } := by
  rw [step_plain st raw _ hcw hs hp]
  simp

theorem step_last (st : PState) (raw y : Str) (hcw : st.canWrite = false) (hs : strip raw = y)
    (hp : plainLine y) (hl : y.getLast? ≠ some '\\') :
    stepLine st raw = .ok { st with buf := st.buf ++ [y], canWrite := true } := by
  rw [step_plain st raw _ hcw hs hp, if_neg hl]

/-- what the continuation lines `(raw, x)` (stripped: `x ++ "\\"`) put into the buffer -/
def contribs (conts : List (Str × Str)) : List Str := conts.map fun p => strip p.2 ++ [' ']

theorem run_conts (st : PState) (hcw : st.canWrite = false) (conts : List (Str × Str)) (tail : List Str)
    (hc : ∀ p ∈ conts, strip p.1 = p.2 ++ ['\\'] ∧ plainLine (p.2 ++ ['\\'])) :
    parseLines st (conts.map (·.1) ++ tail) = parseLines { st with buf := st.buf ++ contribs conts } tail := by
  induction conts generalizing st with
  | nil => simp [contribs]
  | cons p rest ih =>
    have ⟨h1, h2⟩ := hc p (by simp)
    simp only [List.map_cons, List.cons_append, parseLines]
    rw [step_cont st p.1 p.2 hcw h1 h2]
    simp only
    rw [ih { st with buf := st.buf ++ [strip p.2 ++ [' ']] } hcw (fun q hq => hc q (by simp [hq]))]
    simp [contribs]

/-- **continuation_invariant** — an entry written over any number of continuation lines (each ending in a
    backslash, with arbitrary blanks before and after the text) is parsed exactly like the same entry on ONE
    line in which every break is a single blank; `rest` is whatever follows (more entries, sections, EOF). -/
theorem continuation_invariant (st : PState) (hcw : st.canWrite = false) (conts : List (Str × Str))
    (rawLast y rawJoined : Str) (rest : List Str)
    (hc : ∀ p ∈ conts, strip p.1 = p.2 ++ ['\\'] ∧ plainLine (p.2 ++ ['\\']))
    (hl : strip rawLast = y) (hpl : plainLine y) (hll : y.getLast? ≠ some '\\')
    (hj : strip rawJoined = (contribs conts).flatten ++ y) (hpj : plainLine ((contribs conts).flatten ++ y))
    (hlj : ((contribs conts).flatten ++ y).getLast? ≠ some '\\') :
    (parseLines st (conts.map (·.1) ++ rawLast :: rest)).map (·.data) =
      (parseLines st (rawJoined :: rest)).map (·.data) := by
  rw [run_conts st hcw conts _ hc]
  simp only [parseLines]
  rw [step_last { st with buf := st.buf ++ contribs conts } rawLast y hcw hl hpl hll,
    step_last st rawJoined _ hcw hj hpj hlj]
  simp only
  apply SimE_data
  apply parse_sim
  refine ⟨rfl, rfl, rfl, ?_, ?_⟩
  · simp
  · simp

/-- non-vacuity: `m = r.sub == p.sub \\` / `   && r.obj == p.obj` against the one-line form -/
example :
    (∀ p ∈ [("m = r.sub == p.sub  \\  ".toList, "m = r.sub == p.sub  ".toList)],
        strip p.1 = p.2 ++ ['\\'] ∧ plainLine (p.2 ++ ['\\'])) ∧
    strip "   && r.obj == p.obj ".toList = "&& r.obj == p.obj".toList ∧
    plainLine "&& r.obj == p.obj".toList ∧
    strip "m = r.sub == p.sub && r.obj == p.obj".toList =
      (contribs [("m = r.sub == p.sub  \\  ".toList, "m = r.sub == p.sub  ".toList)]).flatten ++
        "&& r.obj == p.obj".toList := by
  refine ⟨?_, by decide, ⟨'&', "& r.obj == p.obj".toList, by decide, by decide, by decide, by decide⟩, by decide⟩
  intro p hp
  simp only [List.mem_singleton] at hp
  subst hp
  exact ⟨by decide, ⟨'m', " = r.sub == p.sub  \\".toList, by decide, by decide, by decide, by decide⟩⟩

end Casbin.C02
