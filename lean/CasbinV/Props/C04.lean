import CasbinV.Model.Enforcer
import CasbinV.Props.C06
import CasbinV.Props.C06u
/-!
# C04 — role links always reflect the grouping policy

Subject: `Casbin.Enf.step` (Model/Enforcer.lean).  `Coherent`: in every role definition the link store is a
duplicate-free list holding exactly the stored grouping rules.  It holds after construction/load, every management
call preserves it (with `auto_build_role_links` on), and under it every decision and role query equals that of a
freshly constructed enforcer holding the same policy.
-/
namespace Casbin.Enf.C04
open Casbin Casbin.Enf Casbin.Policy Casbin.Policy.C06

/-! ## link-store lemmas -/

theorem addLink_mem (store : List Rule) (l x : Rule) : x ∈ addLink store l ↔ x ∈ store ∨ x = l := by
  unfold addLink
  split
  · rename_i h; simp at h; constructor
    · exact Or.inl
    · rintro (h' | rfl) <;> assumption
  · simp

theorem addLink_nodup (store : List Rule) (l : Rule) (hd : store.Nodup) : (addLink store l).Nodup := by
  unfold addLink
  split
  · exact hd
  · rename_i h; simp at h
    exact List.nodup_append.mpr ⟨hd, by simp, by intro a ha b hb; simp at hb; subst hb; exact fun e => h (e ▸ ha)⟩

theorem delLink_mem (store : List Rule) (l x : Rule) (hd : store.Nodup) :
    x ∈ delLink store l ↔ x ∈ store ∧ x ≠ l := by
  unfold delLink; rw [hd.mem_erase_iff]; exact and_comm

theorem delLink_nodup (store : List Rule) (l : Rule) (hd : store.Nodup) : (delLink store l).Nodup :=
  hd.erase l

/-- every rule has at least as many fields as the role definition has `_` (shorter ones are refused, F27; longer ones
    are truncated to their link) -/
def Sized (count : Nat) (rs : List Rule) : Prop := ∀ r ∈ rs, count ≤ r.length

/-- `x` is the link of one of the rules: the rule cut to the role definition's size -/
def LinkOf (count : Nat) (rules : List Rule) (x : Rule) : Prop := ∃ r ∈ rules, r.take count = x

theorem LinkOf.append {count : Nat} {a b : List Rule} {x : Rule} :
    LinkOf count (a ++ b) x ↔ LinkOf count a x ∨ LinkOf count b x := by
  unfold LinkOf
  constructor
  · rintro ⟨r, hr, he⟩
    rcases List.mem_append.mp hr with h | h
    · exact Or.inl ⟨r, h, he⟩
    · exact Or.inr ⟨r, h, he⟩
  · rintro (⟨r, hr, he⟩ | ⟨r, hr, he⟩)
    · exact ⟨r, List.mem_append.mpr (Or.inl hr), he⟩
    · exact ⟨r, List.mem_append.mpr (Or.inr hr), he⟩

theorem LinkOf.congr {count : Nat} {a b : List Rule} (h : ∀ r, r ∈ a ↔ r ∈ b) (x : Rule) :
    LinkOf count a x ↔ LinkOf count b x := by
  unfold LinkOf
  constructor <;> rintro ⟨r, hr, he⟩
  · exact ⟨r, (h r).mp hr, he⟩
  · exact ⟨r, (h r).mpr hr, he⟩

theorem incLinks_add (count : Nat) (pol rs store : List Rule) (hs : Sized count rs) (hd : store.Nodup) :
    ∃ res, incLinks count true pol store rs = .ok res ∧ res.Nodup ∧ ∀ x, x ∈ res ↔ x ∈ store ∨ LinkOf count rs x := by
  induction rs generalizing store with
  | nil => exact ⟨store, rfl, hd, by simp [LinkOf]⟩
  | cons r rs ih =>
    have hr : ¬ r.length < count := by have := hs r (by simp); omega
    obtain ⟨res, h1, h2, h3⟩ := ih (addLink store (r.take count)) (fun x hx => hs x (by simp [hx]))
      (addLink_nodup store _ hd)
    refine ⟨res, ?_, h2, ?_⟩
    · unfold incLinks; simp only [hr, ↓reduceIte]; exact h1
    · intro x
      rw [h3, addLink_mem]
      unfold LinkOf
      simp only [List.mem_cons, exists_eq_or_imp]
      grind

/-- incremental removal: `pol` holds the rules that remain, `rs` the removed ones; when the store held exactly the links
    of both, it ends up holding exactly the links of the remaining rules (a link shared with a remaining rule stays) -/
theorem incLinks_del (count : Nat) (pol rs store : List Rule) (hs : Sized count rs) (hd : store.Nodup)
    (ha : ∀ o ∈ pol, o.take count ∈ store)
    (hb : ∀ x ∈ store, LinkOf count pol x ∨ LinkOf count rs x) :
    ∃ res, incLinks count false pol store rs = .ok res ∧ res.Nodup ∧ ∀ x, x ∈ res ↔ LinkOf count pol x := by
  induction rs generalizing store with
  | nil =>
    refine ⟨store, rfl, hd, fun x => ⟨fun hx => ?_, fun ⟨o, ho, he⟩ => he ▸ ha o ho⟩⟩
    rcases hb x hx with h | ⟨r, hr, _⟩
    · exact h
    · simp at hr
  | cons r rs ih =>
    have hr : ¬ r.length < count := by have := hs r (by simp); omega
    by_cases hshare : pol.any (fun o => o.take count == r.take count) = true
    · -- the link is shared with a remaining rule: it stays
      obtain ⟨o, ho, he⟩ := List.any_eq_true.mp hshare
      have he' : o.take count = r.take count := by simpa using he
      obtain ⟨res, h1, h2, h3⟩ := ih store (fun x hx => hs x (by simp [hx])) hd ha (fun x hx => by
        rcases hb x hx with h | ⟨r', hr', hx'⟩
        · exact Or.inl h
        · rcases List.mem_cons.mp hr' with rfl | hr''
          · exact Or.inl ⟨o, ho, he'.trans hx'⟩
          · exact Or.inr ⟨r', hr'', hx'⟩)
      refine ⟨res, ?_, h2, h3⟩
      unfold incLinks; simp only [hr, ↓reduceIte, Bool.false_eq_true, hshare]; exact h1
    · have hshare' : pol.any (fun o => o.take count == r.take count) = false := by simpa using hshare
      obtain ⟨res, h1, h2, h3⟩ := ih (delLink store (r.take count)) (fun x hx => hs x (by simp [hx]))
        (delLink_nodup store _ hd)
        (fun o ho => by
          rw [delLink_mem _ _ _ hd]
          refine ⟨ha o ho, fun he => ?_⟩
          have := List.any_eq_false.mp hshare' o ho
          simp [he] at this)
        (fun x hx => by
          rw [delLink_mem _ _ _ hd] at hx
          rcases hb x hx.1 with h | ⟨r', hr', hx'⟩
          · exact Or.inl h
          · rcases List.mem_cons.mp hr' with rfl | hr''
            · exact absurd hx'.symm hx.2
            · exact Or.inr ⟨r', hr'', hx'⟩)
      refine ⟨res, ?_, h2, h3⟩
      unfold incLinks; simp only [hr, ↓reduceIte, Bool.false_eq_true, hshare']; exact h1

/-- building from scratch yields exactly the links of the rules -/
theorem buildLinks_spec (count : Nat) (rules : List Rule) (hs : Sized count rules) :
    ∃ res, buildLinks count rules = .ok res ∧ res.Nodup ∧ ∀ x, x ∈ res ↔ LinkOf count rules x := by
  obtain ⟨res, h1, h2, h3⟩ := incLinks_add count [] rules [] hs List.nodup_nil
  exact ⟨res, h1, h2, by intro x; rw [h3]; simp⟩

/-! ## coherence -/

/-- the link store of one role definition reflects its grouping rules -/
structure CohSec (count : Nat) (links rules : List Rule) : Prop where
  sized : Sized count rules
  nodupL : links.Nodup
  nodupR : rules.Nodup
  same : ∀ x, x ∈ links ↔ LinkOf count rules x

/-- every role definition of the model is coherent and the permission rules are duplicate-free -/
structure Coherent (cfg : Cfg) (s : St) : Prop where
  g : CohSec cfg.gCount s.links.g s.pol.g
  g2 : CohSec cfg.g2Count s.links.g2 s.pol.g2
  p : s.pol.p.Nodup
  auto : s.autoBuild = true

theorem Coherent.sec {cfg : Cfg} {s : St} (h : Coherent cfg s) (sec : Sec) (hsec : sec ≠ .p) :
    CohSec (cfg.count sec) (s.links.get sec) (s.pol.get sec) := by
  cases sec
  · exact absurd rfl hsec
  · exact h.g
  · exact h.g2

/-- a well-formed policy: duplicate-free sections, no grouping rule with fewer fields than the role definition has `_` -/
structure PolOK (cfg : Cfg) (pol : Pol) : Prop where
  p : pol.p.Nodup
  g : pol.g.Nodup
  g2 : pol.g2.Nodup
  sg : Sized cfg.gCount pol.g
  sg2 : Sized cfg.g2Count pol.g2

/-- admissible calls: `auto_build_role_links` is not switched off (grouping rules of ANY size may be passed to the
    management calls: shorter ones are refused before anything is stored, F27; longer ones are truncated to links, F28),
    and what the adapter delivers on `load_policy` is a well-formed policy -/
def OpOK (cfg : Cfg) (s : St) : Op → Prop
  | .enableAutoBuild b => b = true
  | .loadPolicy _ => PolOK cfg s.store
  | _ => True

theorem persist_pol (cfg : Cfg) (s : St) (c : ACall) (w : Option WCall) :
    (persist cfg s c w).pol = s.pol ∧ (persist cfg s c w).links = s.links ∧
    (persist cfg s c w).autoBuild = s.autoBuild := by
  unfold persist; split <;> (try split) <;> simp

theorem set_get_same (m : Pol) (sec : Sec) (l : List Rule) : (m.set sec l).get sec = l := by
  cases sec <;> rfl

theorem set_get_other (m : Pol) (sec sec' : Sec) (l : List Rule) (h : sec' ≠ sec) :
    (m.set sec l).get sec' = m.get sec' := by
  cases sec <;> cases sec' <;> simp_all [Pol.set, Pol.get]

/-- rebuild a `Coherent` from per-section facts -/
theorem coherent_of_sections (cfg : Cfg) (s : St)
    (hg : CohSec cfg.gCount (s.links.get .g) (s.pol.get .g))
    (hg2 : CohSec cfg.g2Count (s.links.get .g2) (s.pol.get .g2))
    (hp : (s.pol.get .p).Nodup) (ha : s.autoBuild = true) : Coherent cfg s :=
  ⟨hg, hg2, hp, ha⟩

/-- generic step: a grouping section's rules and links are changed consistently, other sections untouched -/
theorem coherent_update (cfg : Cfg) (s : St) (h : Coherent cfg s) (sec : Sec) (rules links : List Rule)
    (hnew : sec ≠ .p → CohSec (cfg.count sec) links rules) (hp : sec = .p → rules.Nodup)
    (s' : St) (hpol : s'.pol = s.pol.set sec rules)
    (hlinks : s'.links = if sec = .p then s.links else s.links.set sec links)
    (ha : s'.autoBuild = true) : Coherent cfg s' := by
  cases sec with
  | p =>
    simp at hlinks
    exact ⟨by rw [hlinks, hpol]; exact h.g, by rw [hlinks, hpol]; exact h.g2, by rw [hpol]; exact hp rfl, ha⟩
  | g =>
    simp at hlinks
    have := hnew (by simp)
    exact ⟨by rw [hlinks, hpol]; exact this, by rw [hlinks, hpol]; exact h.g2, by rw [hpol]; exact h.p, ha⟩
  | g2 =>
    simp at hlinks
    have := hnew (by simp)
    exact ⟨by rw [hlinks, hpol]; exact h.g, by rw [hlinks, hpol]; exact this, by rw [hpol]; exact h.p, ha⟩

/-- what `relink` does with well-sized rules.  Adding: the links of the rules join the store.  Removing (`rules` =
    the removed rules, the section already holds the remaining ones): when the store held exactly the links of both, it
    ends up with exactly the links of the remaining rules. -/
theorem relink_spec (cfg : Cfg) (s : St) (sec : Sec) (add : Bool) (rules : List Rule)
    (hauto : s.autoBuild = true) (hd : sec ≠ .p → (s.links.get sec).Nodup)
    (hs : sec ≠ .p → Sized (cfg.count sec) rules)
    (hrem : add = false → sec ≠ .p →
      (∀ o ∈ s.pol.get sec, o.take (cfg.count sec) ∈ s.links.get sec) ∧
      (∀ x ∈ s.links.get sec, LinkOf (cfg.count sec) (s.pol.get sec) x ∨ LinkOf (cfg.count sec) rules x)) :
    ∃ s2, relink cfg s sec add rules = .ok s2 ∧ s2.pol = s.pol ∧ s2.autoBuild = s.autoBuild ∧
      (sec = .p → s2.links = s.links) ∧
      (sec ≠ .p → ∃ l, s2.links = s.links.set sec l ∧ l.Nodup ∧
        ∀ x, x ∈ l ↔ (if add then x ∈ s.links.get sec ∨ LinkOf (cfg.count sec) rules x
                      else LinkOf (cfg.count sec) (s.pol.get sec) x)) := by
  unfold relink
  by_cases hsec : sec = .p
  · subst hsec; simp
  · simp only [hsec, decide_false, hauto, Bool.not_true, Bool.or_self, Bool.false_eq_true, ↓reduceIte]
    cases add with
    | true =>
      obtain ⟨res, h1, h2, h3⟩ := incLinks_add (cfg.count sec) (s.pol.get sec) rules (s.links.get sec) (hs hsec) (hd hsec)
      rw [h1]
      exact ⟨_, rfl, rfl, rfl, fun e => e.elim, fun _ => ⟨res, rfl, h2, by simpa using h3⟩⟩
    | false =>
      obtain ⟨res, h1, h2, h3⟩ := incLinks_del (cfg.count sec) (s.pol.get sec) rules (s.links.get sec) (hs hsec) (hd hsec)
        (hrem rfl hsec).1 (hrem rfl hsec).2
      rw [h1]
      exact ⟨_, rfl, rfl, rfl, fun e => e.elim, fun _ => ⟨res, rfl, h2, by simpa using h3⟩⟩

end Casbin.Enf.C04

namespace Casbin.Enf.C04
open Casbin Casbin.Enf Casbin.Policy Casbin.Policy.C06

/-- common shape of the grouping/permission changing calls: policy of `sec` replaced by `l`, adapter/watcher traffic,
    then incremental link maintenance with `rules` -/
theorem coherent_change (cfg : Cfg) (s : St) (h : Coherent cfg s) (sec : Sec) (l : List Rule) (add : Bool)
    (rules : List Rule) (c : ACall) (w : Option WCall)
    (hs : sec ≠ .p → Sized (cfg.count sec) rules)
    (hl : l.Nodup)
    (hsz : sec ≠ .p → Sized (cfg.count sec) l)
    (hmem : ∀ x, x ∈ l ↔ (if add then x ∈ s.pol.get sec ∨ x ∈ rules else x ∈ s.pol.get sec ∧ x ∉ rules)) :
    ∃ s2, relink cfg (persist cfg { s with pol := s.pol.set sec l } c w) sec add rules = .ok s2 ∧ Coherent cfg s2 := by
  have hp := persist_pol cfg { s with pol := s.pol.set sec l } c w
  obtain ⟨hp1, hp2, hp3⟩ := hp
  have hauto : (persist cfg { s with pol := s.pol.set sec l } c w).autoBuild = true := by rw [hp3]; exact h.auto
  have hd : sec ≠ .p → ((persist cfg { s with pol := s.pol.set sec l } c w).links.get sec).Nodup := by
    intro hsec; rw [hp2]; exact (h.sec sec hsec).nodupL
  have hrem : add = false → sec ≠ .p →
      (∀ o ∈ (persist cfg { s with pol := s.pol.set sec l } c w).pol.get sec,
        o.take (cfg.count sec) ∈ (persist cfg { s with pol := s.pol.set sec l } c w).links.get sec) ∧
      (∀ x ∈ (persist cfg { s with pol := s.pol.set sec l } c w).links.get sec,
        LinkOf (cfg.count sec) ((persist cfg { s with pol := s.pol.set sec l } c w).pol.get sec) x ∨
        LinkOf (cfg.count sec) rules x) := by
    intro hadd hsec
    have hc := h.sec sec hsec
    rw [hp1, hp2]
    simp only [set_get_same]
    have hold : ∀ x, x ∈ l ↔ x ∈ s.pol.get sec ∧ x ∉ rules := by
      intro x; have := hmem x; simpa [hadd] using this
    refine ⟨fun o ho => (hc.same _).mpr ⟨o, ((hold o).mp ho).1, rfl⟩, fun x hx => ?_⟩
    obtain ⟨r, hr, he⟩ := (hc.same x).mp hx
    by_cases hin : r ∈ rules
    · exact Or.inr ⟨r, hin, he⟩
    · exact Or.inl ⟨r, (hold r).mpr ⟨hr, hin⟩, he⟩
  obtain ⟨s2, h1, h2, h3, h4, h5⟩ := relink_spec cfg _ sec add rules hauto hd hs hrem
  refine ⟨s2, h1, ?_⟩
  by_cases hsec : sec = .p
  · have hlk := h4 hsec
    refine coherent_update cfg s h sec l [] (fun e => absurd hsec e) (fun _ => hl) s2 (by rw [h2, hp1]) ?_ (by rw [h3]; exact hauto)
    rw [hlk, hp2]; simp [hsec]
  · obtain ⟨lk, hlk, hlkd, hlkm⟩ := h5 hsec
    have hc := h.sec sec hsec
    refine coherent_update cfg s h sec l lk (fun _ => ⟨hsz hsec, hlkd, hl, ?_⟩) (fun e => absurd e hsec) s2
      (by rw [h2, hp1]) (by simp [hsec, hlk, hp2]) (by rw [h3]; exact hauto)
    intro x
    rw [hlkm, hp2, hp1]
    simp only [set_get_same]
    cases add with
    | false => simp
    | true =>
      simp only [↓reduceIte]
      rw [hc.same]
      have hold : ∀ r, r ∈ l ↔ r ∈ s.pol.get sec ++ rules := by
        intro r; have := hmem r; simpa using this
      rw [LinkOf.congr hold, LinkOf.append]

theorem Coherent.nodup {cfg : Cfg} {s : St} (h : Coherent cfg s) (sec : Sec) : (s.pol.get sec).Nodup := by
  cases sec
  · exact h.p
  · exact h.g.nodupR
  · exact h.g2.nodupR

theorem Coherent.sizedSec {cfg : Cfg} {s : St} (h : Coherent cfg s) (sec : Sec) (hsec : sec ≠ .p) :
    Sized (cfg.count sec) (s.pol.get sec) := (h.sec sec hsec).sized

theorem not_short (cfg : Cfg) (sec : Sec) (rs : List Rule) (hs : ¬ shortFor cfg sec rs = true) :
    sec ≠ .p → Sized (cfg.count sec) rs := by
  intro hsec r hr
  have h2 : ¬ r.length < cfg.count sec := by
    intro hlt
    apply hs
    unfold shortFor
    have : (sec != Sec.p) = true := by simpa using hsec
    rw [this, Bool.true_and]
    exact List.any_eq_true.mpr ⟨r, hr, by simpa using hlt⟩
  omega

theorem step_add (cfg : Cfg) (s : St) (h : Coherent cfg s) (sec : Sec) (r : Rule) :
    Coherent cfg (step cfg s (.add sec r)).1 := by
  simp only [step]
  cases hadd : Policy.add none (s.pol.get sec) r with
  | mk l ok =>
    cases ok with
    | false => simpa using h
    | true =>
      by_cases hs : shortFor cfg sec [r] = true
      · simp only [Bool.not_true, Bool.false_eq_true, ↓reduceIte, hs]; exact h
      · have hr : sec ≠ .p → Sized (cfg.count sec) [r] := not_short cfg sec [r] hs
        have hl : l = (Policy.add none (s.pol.get sec) r).1 := by rw [hadd]
        obtain ⟨s2, h1, h2⟩ := coherent_change cfg s h sec l true [r] (.addPolicy sec r) (exOnly cfg (.forAddPolicy sec r))
          hr
          (by rw [hl]; exact add_nodup none _ r (h.nodup sec))
          (fun hsec x hx => by
            rw [hl, add_mem] at hx
            rcases hx with hx | rfl
            · exact h.sizedSec sec hsec x hx
            · exact hr hsec x (by simp))
          (fun x => by rw [hl, add_mem]; simp)
        simp only [Bool.not_true, Bool.false_eq_true, ↓reduceIte, hs, finish, h1]
        exact h2

theorem step_addMany (cfg : Cfg) (s : St) (h : Coherent cfg s) (sec : Sec) (rs : List Rule) :
    Coherent cfg (step cfg s (.addMany sec rs)).1 := by
  simp only [step]
  cases hadd : Policy.addMany none (s.pol.get sec) rs with
  | mk l ok =>
    cases ok with
    | false => simpa using h
    | true =>
      by_cases hs : shortFor cfg sec rs = true
      · simp only [Bool.not_true, Bool.false_eq_true, ↓reduceIte, hs]; exact h
      · have hr : sec ≠ .p → Sized (cfg.count sec) rs := not_short cfg sec rs hs
        have hok : (Policy.addMany none (s.pol.get sec) rs).2 = true := by rw [hadd]
        have hl : l = (Policy.addMany none (s.pol.get sec) rs).1 := by rw [hadd]
        have hsucc := addMany_success none (s.pol.get sec) rs (h.nodup sec) hok
        obtain ⟨s2, h1, h2⟩ := coherent_change cfg s h sec l true rs (.addPolicies sec rs) (exOnly cfg (.forAddPolicies sec rs))
          hr (by rw [hl]; exact hsucc.2)
          (fun hs x hx => by
            rw [hl, hsucc.1] at hx
            rcases hx with hx | hx
            · exact h.sizedSec sec hs x hx
            · exact hr hs x hx)
          (fun x => by rw [hl, hsucc.1]; simp)
        simp only [Bool.not_true, Bool.false_eq_true, ↓reduceIte, hs, finish, h1]
        exact h2

theorem step_remove (cfg : Cfg) (s : St) (h : Coherent cfg s) (sec : Sec) (r : Rule) :
    Coherent cfg (step cfg s (.remove sec r)).1 := by
  simp only [step]
  cases hrem : Policy.remove (s.pol.get sec) r with
  | mk l ok =>
    cases ok with
    | false => simpa using h
    | true =>
      have hl : l = (Policy.remove (s.pol.get sec) r).1 := by rw [hrem]
      have hok : (Policy.remove (s.pol.get sec) r).2 = true := by rw [hrem]
      have hin : r ∈ s.pol.get sec := by
        rw [remove_result _ _ (h.nodup sec)] at hok; simpa using hok
      obtain ⟨s2, h1, h2⟩ := coherent_change cfg s h sec l false [r] (.removePolicy sec r) (exOnly cfg (.forRemovePolicy sec r))
        (fun hs x hx => by simp at hx; subst hx; exact h.sizedSec sec hs x hin)
        (by rw [hl]; exact remove_nodup _ r (h.nodup sec))
        (fun hs x hx => by
          rw [hl, remove_mem _ _ _ (h.nodup sec)] at hx
          exact h.sizedSec sec hs x hx.1)
        (fun x => by rw [hl, remove_mem _ _ _ (h.nodup sec)]; simp)
      simp only [Bool.not_true, Bool.false_eq_true, ↓reduceIte, finish, h1]
      exact h2

theorem step_removeMany (cfg : Cfg) (s : St) (h : Coherent cfg s) (sec : Sec) (rs : List Rule) :
    Coherent cfg (step cfg s (.removeMany sec rs)).1 := by
  simp only [step]
  cases hrem : Policy.removeMany (s.pol.get sec) rs with
  | mk l ok =>
    cases ok with
    | false => simpa using h
    | true =>
      have hl : l = (Policy.removeMany (s.pol.get sec) rs).1 := by rw [hrem]
      have hok : (Policy.removeMany (s.pol.get sec) rs).2 = true := by rw [hrem]
      have hsucc := removeMany_success (s.pol.get sec) rs (h.nodup sec) hok
      have hall : ∀ x ∈ rs, x ∈ s.pol.get sec := by
        rw [removeMany_result] at hok; simpa using hok
      obtain ⟨s2, h1, h2⟩ := coherent_change cfg s h sec l false rs (.removePolicies sec rs) (exOnly cfg (.forRemovePolicies sec rs))
        (fun hs x hx => h.sizedSec sec hs x (hall x hx))
        (by rw [hl]; exact removeMany_nodup _ rs (h.nodup sec))
        (fun hs x hx => by
          rw [hl, hsucc.1] at hx
          exact h.sizedSec sec hs x hx.1)
        (fun x => by rw [hl, hsucc.1]; simp)
      simp only [Bool.not_true, Bool.false_eq_true, ↓reduceIte, finish, h1]
      exact h2

end Casbin.Enf.C04

namespace Casbin.Enf.C04
open Casbin Casbin.Enf Casbin.Policy Casbin.Policy.C06

theorem partitionFiltered_mem (idx : Nat) (vals : List String) (l yes no : List Rule)
    (h : partitionFiltered idx vals l = .ok (yes, no)) :
    (∀ x, x ∈ l ↔ x ∈ yes ∨ x ∈ no) ∧ (l.Nodup → ∀ x, x ∈ yes → x ∉ no) := by
  induction l generalizing yes no with
  | nil => simp [partitionFiltered] at h; obtain ⟨rfl, rfl⟩ := h; simp
  | cons r rs ih =>
    unfold partitionFiltered at h
    split at h
    · cases h
    · split at h
      · cases h
      · rename_i b _ y n hp
        obtain ⟨h1, h2⟩ := ih y n hp
        have hsub := partitionFiltered_sublist idx vals rs y n hp
        split at h <;> cases h
        · refine ⟨fun x => by simp only [List.mem_cons, h1]; grind, ?_⟩
          intro hd x hx
          have hd' := List.nodup_cons.mp hd
          rcases List.mem_cons.mp hx with rfl | hx'
          · exact fun hn => hd'.1 (hsub.1.subset hn)
          · exact h2 hd'.2 x hx'
        · refine ⟨fun x => by simp only [List.mem_cons, h1]; grind, ?_⟩
          intro hd x hx
          have hd' := List.nodup_cons.mp hd
          intro hn
          rcases List.mem_cons.mp hn with rfl | hn'
          · exact hd'.1 (hsub.2.subset hx)
          · exact h2 hd'.2 x hx hn'

theorem rfGrouping (cfg : Cfg) (s : St) (h : Coherent cfg s) (sec : Sec) (hsec : sec ≠ .p) (idx : Nat)
    (vals : List String) :
    Coherent cfg (match Policy.removeFilteredReturnsEffects (s.pol.get sec) idx vals with
      | .error e => (s, (Except.error (ofPErr e) : Except EErr Ret))
      | .ok (l, eff) =>
        if eff.isEmpty then ({ s with pol := s.pol.set sec l }, .ok (.rules []))
        else
          finish cfg (persist cfg { s with pol := s.pol.set sec l } (.removeFiltered sec idx vals)
            (exOnly cfg (.forRemoveFiltered sec idx vals))) sec false eff (.rules eff)).1 := by
  cases hrf : Policy.removeFilteredReturnsEffects (s.pol.get sec) idx vals with
  | error e => simpa using h
  | ok res =>
    obtain ⟨l, eff⟩ := res
    simp only []
    -- facts about the partition
    have hfacts : l.Nodup ∧ (∀ x, x ∈ l ↔ x ∈ s.pol.get sec ∧ x ∉ eff) ∧ (∀ x ∈ eff, x ∈ s.pol.get sec) := by
      unfold Policy.removeFilteredReturnsEffects at hrf
      · cases hp : partitionFiltered idx vals (s.pol.get sec) with
        | error e => simp [hp, Except.map] at hrf
        | ok pr =>
          obtain ⟨yes, no⟩ := pr
          simp [hp, Except.map] at hrf
          obtain ⟨rfl, rfl⟩ := hrf
          obtain ⟨hm, hdisj⟩ := partitionFiltered_mem idx vals _ yes no hp
          have hsub := partitionFiltered_sublist idx vals _ yes no hp
          refine ⟨hsub.1.nodup (h.nodup sec), ?_, fun x hx => hsub.2.subset hx⟩
          intro x
          constructor
          · intro hx; exact ⟨hsub.1.subset hx, fun hy => hdisj (h.nodup sec) x hy hx⟩
          · rintro ⟨hx, hny⟩
            rcases (hm x).mp hx with hy | hn
            · exact absurd hy hny
            · exact hn
    obtain ⟨hlnd, hlmem, heffin⟩ := hfacts
    split
    · -- nothing matched: `eff = []`, so `l` holds exactly the old rules
      rename_i hemp
      have heff : eff = [] := by simpa using hemp
      subst heff
      have hc := h.sec sec hsec
      refine coherent_update cfg s h sec l (s.links.get sec) (fun _ => ⟨?_, hc.nodupL, hlnd, ?_⟩)
        (fun e => absurd e hsec) _ rfl ?_ h.auto
      · intro x hx; exact hc.sized x ((hlmem x).mp hx).1
      · intro x; rw [hc.same]; exact LinkOf.congr (fun r => by rw [hlmem]; simp) x
      · simp only [hsec, ↓reduceIte]
        cases sec <;> simp_all [Pol.set, Pol.get]
    · obtain ⟨s2, h1, h2⟩ := coherent_change cfg s h sec l false eff (.removeFiltered sec idx vals)
        (exOnly cfg (.forRemoveFiltered sec idx vals))
        (fun hs x hx => h.sizedSec sec hs x (heffin x hx)) hlnd
        (fun hs x hx => h.sizedSec sec hs x ((hlmem x).mp hx).1)
        (fun x => by rw [hlmem]; simp)
      simp only [finish, h1]
      exact h2

theorem step_removeFiltered (cfg : Cfg) (s : St) (h : Coherent cfg s) (sec : Sec) (idx : Nat) (vals : List String) :
    Coherent cfg (step cfg s (.removeFiltered sec idx vals)).1 := by
  cases sec with
  | p =>
    simp only [step]
    cases hrf : Policy.removeFiltered (s.pol.get .p) idx vals with
    | error e => simpa using h
    | ok res =>
      obtain ⟨l, any⟩ := res
      have hl : l.Nodup := by
        unfold Policy.removeFiltered at hrf
        cases hp : partitionFiltered idx vals (s.pol.get .p) with
        | error e => simp [hp, Except.map] at hrf
        | ok pr =>
          obtain ⟨yes, no⟩ := pr
          simp [hp, Except.map] at hrf
          obtain ⟨rfl, _⟩ := hrf
          exact (partitionFiltered_sublist idx vals _ yes no hp).1.nodup h.p
      have key : ∀ s' : St, s'.pol = s.pol.set .p l → s'.links = s.links → s'.autoBuild = true → Coherent cfg s' := by
        intro s' h1 h2 h3
        exact coherent_update cfg s h .p l [] (fun e => absurd rfl e) (fun _ => hl) s' h1 (by simp [h2]) h3
      simp only []
      split
      · exact key _ rfl rfl h.auto
      · have hp := persist_pol cfg { s with pol := s.pol.set .p l } (.removeFiltered .p idx vals)
          (exOnly cfg (.forRemoveFiltered .p idx vals))
        exact key _ hp.1 hp.2.1 (by rw [hp.2.2]; exact h.auto)
  | g => simp only [step]; exact rfGrouping cfg s h .g (by simp) idx vals
  | g2 => simp only [step]; exact rfGrouping cfg s h .g2 (by simp) idx vals

end Casbin.Enf.C04

namespace Casbin.Enf.C04
open Casbin Casbin.Enf Casbin.Policy Casbin.Policy.C06

theorem rebuildAll_spec (cfg : Cfg) (pol : Pol) (hg : Sized cfg.gCount pol.g) (hg2 : Sized cfg.g2Count pol.g2) :
    ∃ l, rebuildAll cfg pol = .ok l ∧ l.g.Nodup ∧ l.g2.Nodup ∧ (∀ x, x ∈ l.g ↔ LinkOf cfg.gCount pol.g x) ∧
      (∀ x, x ∈ l.g2 ↔ LinkOf cfg.g2Count pol.g2 x) := by
  obtain ⟨a, ha1, ha2, ha3⟩ := buildLinks_spec cfg.gCount pol.g hg
  obtain ⟨b, hb1, hb2, hb3⟩ := buildLinks_spec cfg.g2Count pol.g2 hg2
  exact ⟨{ p := [], g := a, g2 := b }, by simp [rebuildAll, ha1, hb1], ha2, hb2, ha3, hb3⟩

/-- the state after construction and `load_policy` of a well-formed policy is coherent -/
theorem coherent_init (cfg : Cfg) (pol : Pol) (hok : PolOK cfg pol) :
    ∃ l, rebuildAll cfg pol = .ok l ∧ Coherent cfg { pol := pol, links := l, store := pol } := by
  obtain ⟨l, h1, h2, h3, h4, h5⟩ := rebuildAll_spec cfg pol hok.sg hok.sg2
  exact ⟨l, h1, ⟨hok.sg, h2, hok.g, h4⟩, ⟨hok.sg2, h3, hok.g2, h5⟩, hok.p, rfl⟩

theorem coherent_relinked (cfg : Cfg) (s : St) (h : Coherent cfg s) (s' : St) (l : Pol)
    (hl : rebuildAll cfg s.pol = .ok l) (hpol : s'.pol = s.pol) (hlinks : s'.links = l) (ha : s'.autoBuild = true) :
    Coherent cfg s' := by
  obtain ⟨l', h1, h2, h3, h4, h5⟩ := rebuildAll_spec cfg s.pol h.g.sized h.g2.sized
  rw [hl] at h1; cases h1
  exact ⟨by rw [hlinks, hpol]; exact ⟨h.g.sized, h2, h.g.nodupR, h4⟩,
         by rw [hlinks, hpol]; exact ⟨h.g2.sized, h3, h.g2.nodupR, h5⟩, by rw [hpol]; exact h.p, ha⟩

/-- coherence only looks at policy, links and the auto-build flag -/
theorem coherent_congr (cfg : Cfg) (s s' : St) (h : Coherent cfg s) (h1 : s'.pol = s.pol) (h2 : s'.links = s.links)
    (h3 : s'.autoBuild = s.autoBuild) : Coherent cfg s' :=
  ⟨by rw [h1, h2]; exact h.g, by rw [h1, h2]; exact h.g2, by rw [h1]; exact h.p, by rw [h3]; exact h.auto⟩

/-- **Invariant step.** Every admissible management call preserves coherence — also when it is rejected, reports
    "already present", raises, or is a no-op. -/
theorem coherent_step (cfg : Cfg) (s : St) (op : Op) (h : Coherent cfg s) (hop : OpOK cfg s op) :
    Coherent cfg (step cfg s op).1 := by
  cases op with
  | add sec r => exact step_add cfg s h sec r
  | addMany sec rs => exact step_addMany cfg s h sec rs
  | remove sec r => exact step_remove cfg s h sec r
  | removeMany sec rs => exact step_removeMany cfg s h sec rs
  | removeFiltered sec idx vals => exact step_removeFiltered cfg s h sec idx vals
  | update old new =>
    simp only [step]
    have hu := update_refines s.pol.p old new h.p
    rw [hu]
    simp only []
    split
    · exact h
    · have hp := persist_pol cfg { s with pol := s.pol.set .p (Spec.update s.pol.p old new).1 } (.updatePolicy .p old new)
        (updOnly cfg (.forUpdatePolicy old new))
      exact coherent_update cfg s h .p _ [] (fun e => absurd rfl e) (fun _ => spec_update_nodup _ _ _ h.p) _
        hp.1 (by simp [hp.2.1]) (by rw [hp.2.2]; exact h.auto)
  | updateMany olds news =>
    simp only [step]
    cases hu : Policy.updateMany none s.pol.p olds news with
    | error e => exact h
    | ok res =>
      obtain ⟨l, ok⟩ := res
      simp only []
      cases ok with
      | false => exact h
      | true =>
        simp only [Bool.not_true, Bool.false_eq_true, ↓reduceIte]
        have hp := persist_pol cfg { s with pol := s.pol.set .p l } (.updatePolicies .p olds news)
          (updOnly cfg (.forUpdatePolicies olds news))
        exact coherent_update cfg s h .p l [] (fun e => absurd rfl e)
          (fun _ => updateMany_nodup s.pol.p olds news l true h.p hu) _ hp.1 (by simp [hp.2.1]) (by rw [hp.2.2]; exact h.auto)
  | clearPolicy =>
    simp only [step, h.auto, ↓reduceIte]
    exact ⟨⟨fun _ hx => by simp at hx, List.nodup_nil, List.nodup_nil, by simp [LinkOf]⟩,
           ⟨fun _ hx => by simp at hx, List.nodup_nil, List.nodup_nil, by simp [LinkOf]⟩, List.nodup_nil, by simpa using h.auto⟩
  | buildRoleLinks =>
    simp only [step]
    obtain ⟨l, h1, _⟩ := rebuildAll_spec cfg s.pol h.g.sized h.g2.sized
    rw [h1]
    exact coherent_relinked cfg s h _ l h1 rfl rfl h.auto
  | savePolicy =>
    simp only [step]
    split <;> exact coherent_congr cfg s _ h rfl rfl rfl
  | loadPolicy failAfter =>
    simp only [step]
    split
    · exact coherent_congr cfg s _ h rfl rfl rfl
    · have hok : PolOK cfg s.store := hop
      obtain ⟨l, h1, h2, h3, h4, h5⟩ := rebuildAll_spec cfg s.store hok.sg hok.sg2
      simp only [loadCore, h.auto, ↓reduceIte, h1]
      exact ⟨⟨hok.sg, h2, hok.g, h4⟩, ⟨hok.sg2, h3, hok.g2, h5⟩, hok.p, rfl⟩
  | enableAutoSave b => exact coherent_congr cfg s _ h rfl rfl rfl
  | enableAutoBuild b =>
    have : b = true := hop
    subst this
    exact ⟨h.g, h.g2, h.p, rfl⟩
  | enableAutoNotify b => exact coherent_congr cfg s _ h rfl rfl rfl

/-- admissibility of a whole history (each call judged in the state it is issued in) -/
def RunOK (cfg : Cfg) : St → List Op → Prop
  | _, [] => True
  | s, op :: ops => OpOK cfg s op ∧ RunOK cfg (step cfg s op).1 ops

/-- **Invariant.** Coherence holds after every admissible history. -/
theorem coherent_run (cfg : Cfg) (ops : List Op) (s : St) (h : Coherent cfg s) (hok : RunOK cfg s ops) :
    Coherent cfg (run cfg s ops) := by
  induction ops generalizing s with
  | nil => exact h
  | cons op ops ih =>
    simp only [run, List.foldl_cons]
    exact ih _ (coherent_step cfg s op h hok.1) hok.2

/-- a failed `load_policy` (adapter failure, or a delivered grouping rule that is too short) keeps coherence: the
    rollback rebuilds the links from the old policy -/
theorem failed_load_coherent (cfg : Cfg) (s : St) (h : Coherent cfg s) (k : Option Nat) (e : EErr)
    (hfail : (step cfg s (.loadPolicy k)).2 = .error e) :
    (step cfg s (.loadPolicy k)).1.pol = s.pol ∧ Coherent cfg (step cfg s (.loadPolicy k)).1 := by
  simp only [step] at hfail ⊢
  split
  · exact ⟨rfl, coherent_congr cfg s _ h rfl rfl rfl⟩
  · rename_i hnf
    simp only [hnf, Bool.false_eq_true, ↓reduceIte] at hfail
    simp only [loadCore, h.auto, ↓reduceIte] at hfail ⊢
    cases hnew : rebuildAll cfg s.store with
    | error e' =>
      obtain ⟨l, h1, _⟩ := rebuildAll_spec cfg s.pol h.g.sized h.g2.sized
      simp only [h1]
      exact ⟨by trivial, coherent_relinked cfg s h _ l h1 rfl rfl rfl⟩
    | ok l => simp [hnew] at hfail

end Casbin.Enf.C04

namespace Casbin.Enf.C04
open Casbin Casbin.Enf Casbin.Policy Casbin.Policy.C06

/-! ## observational equivalence with a freshly constructed enforcer -/

theorem edgesOf_congr (a b : List Rule) (h : ∀ x, x ∈ a ↔ x ∈ b) (d : Option String) (e : Name × Name) :
    e ∈ edgesOf a d ↔ e ∈ edgesOf b d := by
  unfold edgesOf
  simp only [List.mem_filterMap]
  constructor <;> rintro ⟨x, hx, hf⟩
  · exact ⟨x, (h x).mp hx, hf⟩
  · exact ⟨x, (h x).mpr hx, hf⟩

theorem path_congr (g1 g2 : Graph) (h : ∀ e, e ∈ g1 ↔ e ∈ g2) {u v : Name} {n : Nat} (p : Path g1 u v n) :
    Path g2 u v n := by
  induction p with
  | refl u => exact Path.refl u
  | step he _ ih => exact Path.step ((h _).mp he) ih

/-- reachability answers depend on the *set* of edges only -/
theorem hasLink_congr (g1 g2 : Graph) (h : ∀ e, e ∈ g1 ↔ e ∈ g2) (L : Nat) (a b : Name) :
    hasLink g1 L a b = hasLink g2 L a b := by
  rw [Bool.eq_iff_iff, hasLink_iff, hasLink_iff]
  constructor
  · rintro (rfl | ⟨n, hn, p⟩)
    · exact Or.inl rfl
    · exact Or.inr ⟨n, hn, path_congr g1 g2 h p⟩
  · rintro (rfl | ⟨n, hn, p⟩)
    · exact Or.inl rfl
    · exact Or.inr ⟨n, hn, path_congr g2 g1 (fun e => (h e).symm) p⟩

theorem hasLinkQ_congr (a b : List Rule) (h : ∀ x, x ∈ a ↔ x ∈ b) (n1 n2 : String) (d : Option String) :
    hasLinkQ a n1 n2 d = hasLinkQ b n1 n2 d :=
  hasLink_congr _ _ (edgesOf_congr a b h d) _ _ _

theorem getRoles_congr (a b : List Rule) (h : ∀ x, x ∈ a ↔ x ∈ b) (n : String) (d : Option String) (x : String) :
    x ∈ getRoles a n d ↔ x ∈ getRoles b n d := by
  unfold getRoles
  simp only [List.mem_map, List.mem_filter]
  constructor <;> rintro ⟨e, ⟨he, hf⟩, hx⟩
  · exact ⟨e, ⟨(edgesOf_congr a b h d e).mp he, hf⟩, hx⟩
  · exact ⟨e, ⟨(edgesOf_congr a b h d e).mpr he, hf⟩, hx⟩

theorem getUsers_congr (a b : List Rule) (h : ∀ x, x ∈ a ↔ x ∈ b) (n : String) (d : Option String) (x : String) :
    x ∈ getUsers a n d ↔ x ∈ getUsers b n d := by
  unfold getUsers
  simp only [List.mem_map, List.mem_filter]
  constructor <;> rintro ⟨e, ⟨he, hf⟩, hx⟩
  · exact ⟨e, ⟨(edgesOf_congr a b h d e).mp he, hf⟩, hx⟩
  · exact ⟨e, ⟨(edgesOf_congr a b h d e).mpr he, hf⟩, hx⟩

theorem matcher_congr (sh : Shape) (l1 l2 : Pol) (hg : ∀ x, x ∈ l1.g ↔ x ∈ l2.g) (hg2 : ∀ x, x ∈ l1.g2 ↔ x ∈ l2.g2) :
    matcher sh l1 = matcher sh l2 := by
  funext req pv
  unfold matcher
  split <;> simp only [hasLinkQ_congr _ _ hg, hasLinkQ_congr _ _ hg2]

/-- the links a freshly constructed enforcer holding the current policy would have -/
def freshLinks (cfg : Cfg) (s : St) : Pol :=
  match rebuildAll cfg s.pol with
  | .ok l => l
  | .error _ => s.links

/-- **Observational theorem.** In a coherent state every role query and every decision equals that of a freshly
    constructed enforcer holding the current policy (whatever history led here). -/
theorem observational (cfg : Cfg) (sh : Shape) (s : St) (h : Coherent cfg s) :
    (∀ n1 n2 d, hasLinkQ s.links.g n1 n2 d = hasLinkQ (freshLinks cfg s).g n1 n2 d) ∧
    (∀ n1 n2 d, hasLinkQ s.links.g2 n1 n2 d = hasLinkQ (freshLinks cfg s).g2 n1 n2 d) ∧
    (∀ n d x, x ∈ getRoles s.links.g n d ↔ x ∈ getRoles (freshLinks cfg s).g n d) ∧
    (∀ n d x, x ∈ getUsers s.links.g n d ↔ x ∈ getUsers (freshLinks cfg s).g n d) ∧
    (∀ n d x, x ∈ getRoles s.links.g2 n d ↔ x ∈ getRoles (freshLinks cfg s).g2 n d) ∧
    (∀ n d x, x ∈ getUsers s.links.g2 n d ↔ x ∈ getUsers (freshLinks cfg s).g2 n d) ∧
    (∀ req, enforceQ sh s req = enforceQ sh { s with links := freshLinks cfg s } req) := by
  obtain ⟨l, h1, _, _, h4, h5⟩ := rebuildAll_spec cfg s.pol h.g.sized h.g2.sized
  have hf : freshLinks cfg s = l := by simp [freshLinks, h1]
  have hg : ∀ x, x ∈ s.links.g ↔ x ∈ l.g := fun x => (h.g.same x).trans (h4 x).symm
  have hg2 : ∀ x, x ∈ s.links.g2 ↔ x ∈ l.g2 := fun x => (h.g2.same x).trans (h5 x).symm
  rw [hf]
  refine ⟨fun _ _ _ => hasLinkQ_congr _ _ hg _ _ _, fun _ _ _ => hasLinkQ_congr _ _ hg2 _ _ _,
    fun _ _ _ => getRoles_congr _ _ hg _ _ _, fun _ _ _ => getUsers_congr _ _ hg _ _ _,
    fun _ _ _ => getRoles_congr _ _ hg2 _ _ _, fun _ _ _ => getUsers_congr _ _ hg2 _ _ _, ?_⟩
  intro req
  unfold enforceQ
  rw [matcher_congr sh s.links l hg hg2]

/-- after `remove_grouping_policy(r)` - whether it succeeded or not - the rule is not stored -/
theorem removed_not_stored (cfg : Cfg) (s : St) (h : Coherent cfg s) (sec : Sec) (r : Rule) :
    r ∉ (step cfg s (.remove sec r)).1.pol.get sec := by
  -- the rule is gone from the policy (C06) whether or not the call succeeded
  simp only [step]
  cases hrem : Policy.remove (s.pol.get sec) r with
  | mk l ok =>
    cases ok with
    | false =>
      have : (Policy.remove (s.pol.get sec) r).2 = false := by rw [hrem]
      rw [remove_result _ _ (h.nodup sec)] at this
      simpa using this
    | true =>
      have hl : l = (Policy.remove (s.pol.get sec) r).1 := by rw [hrem]
      have hnot : r ∉ l := by rw [hl, remove_mem _ _ _ (h.nodup sec)]; simp
      simp only [Bool.not_true, Bool.false_eq_true, ↓reduceIte]
      have hp := persist_pol cfg { s with pol := s.pol.set sec l } (.removePolicy sec r) (exOnly cfg (.forRemovePolicy sec r))
      simp only [finish]
      cases hrl : relink cfg (persist cfg { s with pol := s.pol.set sec l } (.removePolicy sec r)
          (exOnly cfg (.forRemovePolicy sec r))) sec false [r] with
      | error e => simp only []; rw [hp.1]; simpa [set_get_same] using hnot
      | ok s2 =>
        simp only []
        unfold relink at hrl
        split at hrl
        · cases hrl; rw [hp.1]; simpa [set_get_same] using hnot
        · split at hrl
          · cases hrl
          · cases hrl; simp only []; rw [hp.1]; simpa [set_get_same] using hnot


/-- **revocation takes effect**: after the removal of a role assignment its link is gone - unless another assignment
    that is still stored has the very same link (rules that differ only beyond the role definition, F28) -/
theorem revocation_effective (cfg : Cfg) (s : St) (h : Coherent cfg s) (sec : Sec) (hsec : sec ≠ .p) (r : Rule) :
    r.take (cfg.count sec) ∈ (step cfg s (.remove sec r)).1.links.get sec →
      ∃ o ∈ (step cfg s (.remove sec r)).1.pol.get sec, o ≠ r ∧ o.take (cfg.count sec) = r.take (cfg.count sec) := by
  intro hin
  have hc := (coherent_step cfg s (.remove sec r) h trivial).sec sec hsec
  obtain ⟨o, ho, he⟩ := (hc.same _).mp hin
  exact ⟨o, ho, fun e => removed_not_stored cfg s h sec r (e ▸ ho), he⟩

/-- in particular, when rules have exactly the role definition's size the link of a removed assignment is gone -/
theorem revocation_effective_exact (cfg : Cfg) (s : St) (h : Coherent cfg s) (sec : Sec) (hsec : sec ≠ .p) (r : Rule)
    (hex : ∀ o ∈ (step cfg s (.remove sec r)).1.pol.get sec, o.length = cfg.count sec) (hr : r.length = cfg.count sec) :
    r ∉ (step cfg s (.remove sec r)).1.links.get sec := by
  intro hin
  have hin' : r.take (cfg.count sec) ∈ (step cfg s (.remove sec r)).1.links.get sec := by
    rw [← hr, List.take_length]; exact hin
  obtain ⟨o, ho, hne, he⟩ := revocation_effective cfg s h sec hsec r hin'
  apply hne
  have h1 : o.take (cfg.count sec) = o := by rw [← hex o ho]; exact List.take_length
  have h2 : r.take (cfg.count sec) = r := by rw [← hr]; exact List.take_length
  rw [h1, h2] at he; exact he

/-- a call that reports failure or "already present" leaves links (and everything else) untouched -/
theorem rejected_call_no_link (cfg : Cfg) (s : St) (sec : Sec) (r : Rule) (rs : List Rule) :
    ((step cfg s (.add sec r)).2 = .ok (.bool false) → (step cfg s (.add sec r)).1 = s) ∧
    ((step cfg s (.addMany sec rs)).2 = .ok (.bool false) → (step cfg s (.addMany sec rs)).1 = s) := by
  constructor
  · simp only [step]
    cases Policy.add none (s.pol.get sec) r with
    | mk l ok =>
      cases ok with
      | false => simp
      | true =>
        simp only [Bool.not_true, Bool.false_eq_true, ↓reduceIte, finish]
        split
        · simp
        · split <;> simp
  · simp only [step]
    cases Policy.addMany none (s.pol.get sec) rs with
    | mk l ok =>
      cases ok with
      | false => simp
      | true =>
        simp only [Bool.not_true, Bool.false_eq_true, ↓reduceIte, finish]
        split
        · simp
        · split <;> simp

/-- **F27 repaired**: a grouping rule with fewer fields than its role definition is refused before anything is stored,
    persisted, linked or notified - whatever else the batch contains -/
theorem short_add_refused (cfg : Cfg) (s : St) (sec : Sec) (r : Rule) (hs : shortFor cfg sec [r] = true) :
    (step cfg s (.add sec r)).1 = s := by
  simp only [step]
  cases Policy.add none (s.pol.get sec) r with
  | mk l ok => cases ok <;> simp [hs]

theorem short_addMany_refused (cfg : Cfg) (s : St) (sec : Sec) (rs : List Rule) (hs : shortFor cfg sec rs = true) :
    (step cfg s (.addMany sec rs)).1 = s := by
  simp only [step]
  cases Policy.addMany none (s.pol.get sec) rs with
  | mk l ok => cases ok <;> simp [hs]

example : (step { gCount := 2 } { pol := { g := [["alice", "admin"]] }, links := { g := [["alice", "admin"]] } }
    (.addMany .g [["bob", "admin"], ["carol"]])) =
    ({ pol := { g := [["alice", "admin"]] }, links := { g := [["alice", "admin"]] } }, .error .shortGroupingRule) := by decide

/-- **F28 repaired**: rules that differ only beyond the role definition share one link; removing one of them keeps
    the link as long as another is still stored … -/
theorem shared_link_survives (count : Nat) (pol store : List Rule) (r : Rule) (hr : count ≤ r.length)
    (hshare : ∃ o ∈ pol, o.take count = r.take count) : incLinks count false pol store [r] = .ok store := by
  obtain ⟨o, ho, he⟩ := hshare
  have hlt : ¬ r.length < count := by omega
  have hany : pol.any (fun o => o.take count == r.take count) = true :=
    List.any_eq_true.mpr ⟨o, ho, by simpa using he⟩
  simp [incLinks, hlt, hany]

/-- … and goes with the last of them (the whole scenario on the model: two over-long rules, removed one after the other) -/
example :
    let s0 : St := { pol := { g := [["alice", "admin", "x"], ["alice", "admin", "y"]] }, links := { g := [["alice", "admin"]] } }
    let s1 := (step { gCount := 2 } s0 (.remove .g ["alice", "admin", "x"])).1
    let s2 := (step { gCount := 2 } s1 (.remove .g ["alice", "admin", "y"])).1
    s1.links.g = [["alice", "admin"]] ∧ s1.pol.g = [["alice", "admin", "y"]] ∧ s2.links.g = [] ∧ s2.pol.g = [] := by decide

/-! ## Non-vacuity -/

/-- a concrete coherent state (RBAC model with two assignments), reached through `coherent_init` -/
example : PolOK { gCount := 2 } { p := [["admin", "data1", "read"]], g := [["alice", "admin"], ["bob", "admin"]] } :=
  ⟨by decide, by decide, by decide, by intro r hr; simp at hr; rcases hr with rfl | rfl <;> exact Nat.le_refl _, by intro r hr; simp at hr⟩

example : RunOK { gCount := 2 } {} [.add .g ["alice", "admin"], .add .g ["alice", "admin"],
    .addMany .g [["alice", "admin"], ["bob", "admin"]], .remove .g ["alice", "admin"], .clearPolicy] := by
  simp [RunOK, OpOK, Cfg.count, Sized]

/-- over-long and short grouping rules are inside the theorem: the state reached by this history - two rules that differ
    only beyond the role definition, a too short one (refused), one of the two removed - is coherent, and the shared
    link is still there -/
example :
    let ops : List Op := [.addMany .g [["alice", "admin", "x"], ["alice", "admin", "y"]], .add .g ["bob"],
      .remove .g ["alice", "admin", "x"]]
    Coherent { gCount := 2 } (run { gCount := 2 } {} ops) ∧
    (run { gCount := 2 } {} ops).links.g = [["alice", "admin"]] ∧
    (run { gCount := 2 } {} ops).pol.g = [["alice", "admin", "y"]] := by
  refine ⟨coherent_run _ _ _ ?_ (by simp [RunOK, OpOK]), by decide, by decide⟩
  exact ⟨⟨fun _ hx => by simp at hx, List.nodup_nil, List.nodup_nil, by simp [LinkOf]⟩,
         ⟨fun _ hx => by simp at hx, List.nodup_nil, List.nodup_nil, by simp [LinkOf]⟩, List.nodup_nil, rfl⟩

end Casbin.Enf.C04
