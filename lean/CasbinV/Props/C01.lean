import CasbinV.Model.Effect
import CasbinV.Gen.Effectors
/-!
# C01 — the decision is the declared effect combination of exactly the matching rules

Property theorems only. Subject: `Casbin.enforceEx` / `Casbin.enforce` (Model/Effect.lean, tied to
`CoreEnforcer.enforce_ex` by the correspondence run) and the definitions regenerated from
`casbin/effect/*.py` by translator T1 (`Gen/Effectors.lean`, tied by `gen_*` below).
-/
namespace Casbin.C01
open Casbin

/-! ## Tie to the regenerated effectors (T1) -/

theorem gen_intermediate_eq :
    Gen.intermediate_AllowOverrideEffector = intermediate .allowOverride ∧
    Gen.intermediate_DenyOverrideEffector = intermediate .denyOverride ∧
    Gen.intermediate_AllowAndDenyEffector = intermediate .allowAndDeny ∧
    Gen.intermediate_PriorityEffector = intermediate .priority := by
  refine ⟨?_, ?_, ?_, ?_⟩ <;> funext ⟨a, i, d⟩ <;> cases a <;> cases i <;> cases d <;> rfl

theorem gen_final_eq :
    Gen.final_AllowOverrideEffector = final .allowOverride ∧
    Gen.final_DenyOverrideEffector = final .denyOverride ∧
    Gen.final_AllowAndDenyEffector = final .allowAndDeny ∧
    Gen.final_PriorityEffector = final .priority := by
  refine ⟨?_, ?_, ?_, ?_⟩ <;> funext ⟨a, i, d⟩ <;> cases a <;> cases i <;> cases d <;> rfl

def clsKind : String → Option EffectKind
  | "AllowOverrideEffector" => some .allowOverride
  | "DenyOverrideEffector" => some .denyOverride
  | "AllowAndDenyEffector" => some .allowAndDeny
  | "PriorityEffector" => some .priority
  | _ => none

/-- the regenerated `get_effector` table selects, for each of the five documented effect expressions,
    the effector the model uses, in the same order; every other string is rejected by both
    (`lookupEffector` raises when no entry matches) -/
theorem effect_table :
    Gen.effectTable.map (fun p => (p.1, clsKind p.2)) = effectTable.map (fun p => (p.1, some p.2)) := by
  decide

theorem gen_effectToBool (e : Eft) :
    (match Gen.effectToBoolTable.find? (·.1 == e) with
     | some (_, b) => Except.ok b
     | none => Except.error Err.effectToBool) = effectToBool e := by
  cases e <;> rfl

/-- the three effect constants are pairwise distinct (otherwise set membership would conflate them) -/
theorem gen_effConsts_distinct :
    Gen.effConsts.map (·.1) = [.allow, .indet, .deny] ∧ (Gen.effConsts.map (·.2)).Nodup := by
  decide

/-! ## The rule loop against the effect expressions -/

/-- all rule outcomes, or the first error -/
def allOutcomes {ρ : Type} (cfg : Cfg) (m : List ρ → List String → MVal) (req : List ρ) :
    List (List String) → Except Err (List Outcome)
  | [] => .ok []
  | p :: ps =>
    match ruleOutcome cfg m req p with
    | .error e => .error e
    | .ok o => match allOutcomes cfg m req ps with
      | .error e => .error e
      | .ok os => .ok (o :: os)

/-- the loop over already classified outcomes -/
def loopO (k : EffectKind) : List Outcome → EffSet → Nat → EffSet × Option Nat
  | [], s, _ => (s, none)
  | o :: os, s, idx =>
    match o with
    | .noMatch => loopO k os (s.add .indet) (idx + 1)
    | o =>
      let s' := s.add o.eft
      if intermediate k s' != .indet then (s', some idx) else loopO k os s' (idx + 1)

theorem loop_eq_loopO {ρ : Type} (cfg : Cfg) (m : List ρ → List String → MVal) (req : List ρ)
    (policy : List (List String)) (os : List Outcome) (s : EffSet) (idx : Nat)
    (h : allOutcomes cfg m req policy = .ok os) :
    loop cfg m req policy s idx = .ok (loopO cfg.kind os s idx) := by
  induction policy generalizing os s idx with
  | nil => simp [allOutcomes] at h; subst h; simp [loop, loopO]
  | cons p ps ih =>
    simp only [allOutcomes] at h
    split at h
    · cases h
    · rename_i o ho
      split at h
      · cases h
      · rename_i os' hos
        cases h
        unfold loop loopO
        rw [ho]
        cases o <;> simp only [] <;> (try split) <;> (try rfl) <;> exact ih os' _ _ hos

theorem loopO_spec (k : EffectKind) (os : List Outcome) (s : EffSet) (idx : Nat)
    (hinv : intermediate k s = .indet) :
    final k (loopO k os s idx).1 = .allow ↔
      (match k with
       | .allowOverride => s.a ∨ os.any (·.isAllow)
       | .denyOverride => ¬ s.d ∧ ¬ os.any (·.isDeny)
       | .allowAndDeny => (s.a ∨ os.any (·.isAllow)) ∧ ¬ s.d ∧ ¬ os.any (·.isDeny)
       | .priority => (match os.find? decisive with | some .mAllow => True | _ => False)) := by
  induction os generalizing s idx with
  | nil => cases k <;> grind [loopO, final, intermediate]
  | cons o os ih =>
    cases k <;> cases o <;> grind [loopO, final, intermediate, EffSet.add, Outcome.eft, decisive, Outcome.isAllow, Outcome.isDeny]

/-- the collected set never holds ALLOW and DENY together while the loop is still running under
    `priority` — the reason a *set* of effects is enough -/
theorem final_never_indet (k : EffectKind) (s : EffSet) : final k s ≠ .indet := by
  cases k <;> simp [final] <;> split <;> simp <;> split <;> simp

theorem effectToBool_final (k : EffectKind) (s : EffSet) :
    effectToBool (final k s) = .ok (final k s == .allow) := by
  have := final_never_indet k s
  cases h : final k s <;> simp_all [effectToBool]

/-- **Main theorem.** For every effector, matcher, non-empty policy (any order, any multiplicity) and
    well-sized request: if every rule can be classified (right arity, matcher result bool/float), the
    decision is the effect expression over the rule outcomes. -/
theorem enforce_eq_spec {ρ : Type} (cfg : Cfg) (m : List ρ → List String → MVal)
    (policy : List (List String)) (req : List ρ) (os : List Outcome)
    (hen : cfg.enabled = true) (har : cfg.rArity = req.length) (hne : policy ≠ [])
    (hos : allOutcomes cfg m req policy = .ok os) :
    enforce cfg m policy req = .ok (spec cfg.kind os) := by
  have hl := loop_eq_loopO cfg m req policy os {} 0 hos
  have hs := loopO_spec cfg.kind os {} 0 (by cases cfg.kind <;> simp [intermediate])
  have hemp : policy.isEmpty = false := by cases policy <;> simp_all
  unfold enforce enforceEx
  simp only [hen, har, hemp, hl, effectToBool_final]
  simp
  generalize (loopO cfg.kind os {} 0) = r at hs ⊢
  cases hk : cfg.kind <;> simp [hk, spec] at hs ⊢ <;> grind

/-- a rule whose matcher errors or whose arity is wrong makes the call raise, unless an earlier rule
    already decided -/
theorem enforce_error_from_rule {ρ : Type} (cfg : Cfg) (m : List ρ → List String → MVal)
    (policy : List (List String)) (req : List ρ) (s : EffSet) (idx : Nat) (e : Err)
    (h : loop cfg m req policy s idx = .error e) :
    ∃ p ∈ policy, ruleOutcome cfg m req p = .error e := by
  induction policy generalizing s idx with
  | nil => simp [loop] at h
  | cons p ps ih =>
    unfold loop at h
    split at h
    · rename_i e' he; cases h; exact ⟨p, by simp, he⟩
    · obtain ⟨q, hq, hqe⟩ := ih _ _ h; exact ⟨q, by simp [hq], hqe⟩
    · simp only [] at h
      split at h
      · cases h
      · obtain ⟨q, hq, hqe⟩ := ih _ _ h; exact ⟨q, by simp [hq], hqe⟩

/-! ## Consequences for the specification itself -/

def demote : Outcome → Outcome | .mOther => .noMatch | o => o

theorem any_demote (f : Outcome → Bool) (hf : f .mOther = f .noMatch) (os : List Outcome) :
    (os.map demote).any f = os.any f := by
  induction os with
  | nil => rfl
  | cons o os ih => cases o <;> simp_all [demote]

theorem find_demote (os : List Outcome) : (os.map demote).find? decisive = os.find? decisive := by
  induction os with
  | nil => rfl
  | cons o os ih => cases o <;> simp_all [demote, decisive, Outcome.isAllow, Outcome.isDeny, List.find?]

/-- rules whose effect is neither allow nor deny never decide -/
theorem other_never_decides (k : EffectKind) (os : List Outcome) :
    spec k os = spec k (os.map demote) := by
  cases k <;> simp only [spec, find_demote] <;> (try rw [any_demote _ rfl]) <;> (try rw [any_demote _ rfl])

theorem any_filter_match (f : Outcome → Bool) (hf : f .noMatch = false) (os : List Outcome) :
    (os.filter (!·.isNoMatch)).any f = os.any f := by
  induction os with
  | nil => rfl
  | cons o os ih => cases o <;> simp_all [List.filter, Outcome.isNoMatch]

theorem find_filter_match (os : List Outcome) :
    (os.filter (!·.isNoMatch)).find? decisive = os.find? decisive := by
  induction os with
  | nil => rfl
  | cons o os ih =>
    cases o <;> simp_all [List.filter, Outcome.isNoMatch, decisive, Outcome.isAllow, Outcome.isDeny, List.find?]

/-- only the matching rules take part -/
theorem nonmatching_irrelevant (k : EffectKind) (os : List Outcome) :
    spec k os = spec k (os.filter (!·.isNoMatch)) := by
  cases k <;> simp only [spec, find_filter_match] <;> (try rw [any_filter_match _ rfl]) <;> (try rw [any_filter_match _ rfl])

/-- under the three non-priority expressions the order of the rules is irrelevant -/
theorem order_irrelevant (k : EffectKind) (hk : k ≠ .priority) (os os' : List Outcome)
    (hp : os.Perm os') : spec k os = spec k os' := by
  have hany : ∀ f : Outcome → Bool, os.any f = os'.any f := by
    intro f
    rw [Bool.eq_iff_iff]
    simp only [List.any_eq_true]
    constructor <;> rintro ⟨x, hx, hf⟩
    · exact ⟨x, hp.mem_iff.mp hx, hf⟩
    · exact ⟨x, hp.mem_iff.mpr hx, hf⟩
  cases k <;> simp_all [spec]

/-- empty policy: the matcher is judged once against empty rule fields -/
theorem empty_policy {ρ : Type} (cfg : Cfg) (m : List ρ → List String → MVal) (req : List ρ)
    (hen : cfg.enabled = true) (har : cfg.rArity = req.length) (hev : cfg.hasEval = false) :
    enforce cfg m [] req =
      .ok (spec cfg.kind [if (m req (List.replicate cfg.pArity "")).truthy then .mAllow else .noMatch]) := by
  unfold enforce enforceEx
  simp only [hen, har, hev, effectToBool_final]
  cases hk : cfg.kind <;> cases (m req (List.replicate cfg.pArity "")).truthy <;>
    simp [spec, final, EffSet.add, decisive, List.find?, Outcome.isAllow, Outcome.isDeny]

theorem empty_policy_eval_raises {ρ : Type} (cfg : Cfg) (m : List ρ → List String → MVal) (req : List ρ)
    (hen : cfg.enabled = true) (har : cfg.rArity = req.length) (hev : cfg.hasEval = true) :
    enforce cfg m [] req = .error .evalOnEmptyPolicy := by
  unfold enforce enforceEx; simp [hen, har, hev]

/-- a disabled enforcer allows everything (even ill-sized requests), with an empty explanation -/
theorem disabled_allows {ρ : Type} (cfg : Cfg) (m : List ρ → List String → MVal)
    (policy : List (List String)) (req : List ρ) (hen : cfg.enabled = false) :
    enforceEx cfg m policy req = .ok (true, none) := by
  unfold enforceEx; simp [hen]

/-- a request whose arity does not fit the model raises instead of producing a decision -/
theorem bad_arity_raises {ρ : Type} (cfg : Cfg) (m : List ρ → List String → MVal)
    (policy : List (List String)) (req : List ρ) (hen : cfg.enabled = true)
    (har : cfg.rArity ≠ req.length) :
    enforce cfg m policy req = .error .invalidRequestSize := by
  unfold enforce enforceEx; simp [hen, har]

/-! ## Non-vacuity -/

/-- a concrete configuration meeting the hypotheses of `enforce_eq_spec`, with a deny after an allow -/
example :
    let cfg : Cfg := { kind := .allowAndDeny, rArity := 1, pArity := 2, eftCol := some 1 }
    let m : List String → List String → MVal := fun r p => .bool (r[0]? == p[0]?)
    allOutcomes cfg m ["k"] [["k", "allow"], ["x", "deny"], ["k", "deny"]] = .ok [.mAllow, .noMatch, .mDeny] ∧
    enforce cfg m [["k", "allow"], ["x", "deny"], ["k", "deny"]] ["k"] = .ok false := by
  intro cfg m; decide

end Casbin.C01
