import CasbinV.Model.Enforcer
/-!
# C20 — every successful policy change notifies the watcher exactly once

Subject: the notification part of `Casbin.Enf.step` (`persist`, `savePolicy`).
-/
namespace Casbin.Enf.C20
open Casbin Casbin.Enf Casbin.Policy

/-- the callback that corresponds to a management call, when the watcher offers it; else the generic `update` -/
def expected (cfg : Cfg) : Op → Option WCall
  | .add sec r => some (if cfg.watcherEx then .forAddPolicy sec r else .update)
  | .addMany sec rs => some (if cfg.watcherEx then .forAddPolicies sec rs else .update)
  | .remove sec r => some (if cfg.watcherEx then .forRemovePolicy sec r else .update)
  | .removeMany sec rs => some (if cfg.watcherEx then .forRemovePolicies sec rs else .update)
  | .removeFiltered sec idx vals => some (if cfg.watcherEx then .forRemoveFiltered sec idx vals else .update)
  | .update old new => some (if cfg.watcherUpd then .forUpdatePolicy old new else .update)
  | .updateMany olds news => some (if cfg.watcherUpd then .forUpdatePolicies olds news else .update)
  | .savePolicy => some (if cfg.watcherEx then .forSavePolicy else .update)
  | _ => none

/-- the policy-changing management calls (everything `expected` knows, except `save_policy`) -/
def isChange : Op → Bool
  | .add .. | .addMany .. | .remove .. | .removeMany .. | .removeFiltered .. | .update .. | .updateMany .. => true
  | _ => false

/-- a call reports success: `True`, or a non-empty list of removed rules -/
def success : Except EErr Ret → Bool
  | .ok (.bool true) => true
  | .ok (.rules (_ :: _)) => true
  | _ => false

theorem persist_wlog (cfg : Cfg) (s : St) (c : ACall) (w : Option WCall) :
    (persist cfg s c w).wlog =
      if cfg.hasAdapter && s.autoSave && cfg.hasWatcher && s.autoNotify then
        s.wlog ++ [match w with | some x => x | none => .update]
      else s.wlog := by
  unfold persist
  cases cfg.hasAdapter <;> cases s.autoSave <;> cases cfg.hasWatcher <;> cases s.autoNotify <;> simp <;> rfl

theorem relink_wlog (cfg : Cfg) (s s2 : St) (sec : Sec) (add : Bool) (rules : List Rule)
    (h : relink cfg s sec add rules = .ok s2) : s2.wlog = s.wlog ∧ s2.alog = s.alog ∧ s2.store = s.store := by
  unfold relink at h
  split at h
  · cases h; exact ⟨rfl, rfl, rfl⟩
  · split at h
    · cases h
    · cases h; exact ⟨rfl, rfl, rfl⟩

/-- all conditions of the property's premise -/
def Armed (cfg : Cfg) (s : St) : Prop :=
  cfg.hasAdapter = true ∧ s.autoSave = true ∧ cfg.hasWatcher = true ∧ s.autoNotify = true

theorem exOnly_eq (cfg : Cfg) (w : WCall) :
    (match exOnly cfg w with | some x => x | none => WCall.update) = if cfg.watcherEx then w else .update := by
  unfold exOnly; split <;> simp_all

theorem updOnly_eq (cfg : Cfg) (w : WCall) :
    (match updOnly cfg w with | some x => x | none => WCall.update) = if cfg.watcherUpd then w else .update := by
  unfold updOnly; split <;> simp_all

/-- the tail shared by the grouping-aware calls: incremental link maintenance never touches the logs -/
theorem tail_wlog (cfg : Cfg) (s1 : St) (sec : Sec) (add : Bool) (rules : List Rule) (ret r : Ret)
    (h : (finish cfg s1 sec add rules ret).2 = .ok r) :
    (finish cfg s1 sec add rules ret).1.wlog = s1.wlog ∧ r = ret := by
  unfold finish at h ⊢
  cases hrl : relink cfg s1 sec add rules with
  | error e => simp [hrl] at h
  | ok s2 =>
    simp only [hrl] at h ⊢
    exact ⟨(relink_wlog cfg s1 s2 sec add rules hrl).1, by cases h; rfl⟩

/-- **Main theorem.** With adapter, auto-save, auto-notify and a watcher, a policy-changing management call that
    returns (does not raise) results in exactly one notification when it reports success — the operation's own
    callback with the operation's own arguments when the watcher offers it, else the generic update — and in none
    when it reports failure or "no change". -/
theorem notify_once (cfg : Cfg) (s : St) (op : Op) (hop : isChange op = true) (harm : Armed cfg s) (r : Ret)
    (hr : (step cfg s op).2 = .ok r) :
    (step cfg s op).1.wlog = if success (.ok r) then s.wlog ++ (expected cfg op).toList else s.wlog := by
  obtain ⟨h1, h2, h3, h4⟩ := harm
  have hw : ∀ (s' : St) c w, s'.autoSave = true → s'.autoNotify = true → s'.wlog = s.wlog →
      (persist cfg s' c w).wlog = s.wlog ++ [match w with | some x => x | none => .update] := by
    intro s' c w ha hn hl
    rw [persist_wlog]; simp [h1, h3, ha, hn, hl]
  cases op with
  | add sec r0 =>
    simp only [step] at hr ⊢
    cases hadd : Policy.add none (s.pol.get sec) r0 with
    | mk l ok =>
      rw [hadd] at hr
      cases ok with
      | false => simp at hr; subst hr; simp [success]
      | true =>
        simp only [Bool.not_true, Bool.false_eq_true, ↓reduceIte] at hr ⊢
        by_cases hs : shortFor cfg sec [r0] = true
        · simp only [hs, ↓reduceIte] at hr; cases hr
        · simp only [hs, Bool.false_eq_true, ↓reduceIte] at hr ⊢
          obtain ⟨hh, rfl⟩ := tail_wlog cfg _ sec true [r0] _ r hr
          rw [hh, hw { s with pol := s.pol.set _ l } _ _ h2 h4 rfl, exOnly_eq]; simp [success, expected]
  | addMany sec rs =>
    simp only [step] at hr ⊢
    cases hadd : Policy.addMany none (s.pol.get sec) rs with
    | mk l ok =>
      rw [hadd] at hr
      cases ok with
      | false => simp at hr; subst hr; simp [success]
      | true =>
        simp only [Bool.not_true, Bool.false_eq_true, ↓reduceIte] at hr ⊢
        by_cases hs : shortFor cfg sec rs = true
        · simp only [hs, ↓reduceIte] at hr; cases hr
        · simp only [hs, Bool.false_eq_true, ↓reduceIte] at hr ⊢
          obtain ⟨hh, rfl⟩ := tail_wlog cfg _ sec true rs _ r hr
          rw [hh, hw { s with pol := s.pol.set _ l } _ _ h2 h4 rfl, exOnly_eq]; simp [success, expected]
  | remove sec r0 =>
    simp only [step] at hr ⊢
    cases hadd : Policy.remove (s.pol.get sec) r0 with
    | mk l ok =>
      rw [hadd] at hr
      cases ok with
      | false => simp at hr; subst hr; simp [success]
      | true =>
        simp only [Bool.not_true, Bool.false_eq_true, ↓reduceIte] at hr ⊢
        obtain ⟨hh, rfl⟩ := tail_wlog cfg _ sec false [r0] _ r hr
        rw [hh, hw { s with pol := s.pol.set _ l } _ _ h2 h4 rfl, exOnly_eq]; simp [success, expected]
  | removeMany sec rs =>
    simp only [step] at hr ⊢
    cases hadd : Policy.removeMany (s.pol.get sec) rs with
    | mk l ok =>
      rw [hadd] at hr
      cases ok with
      | false => simp at hr; subst hr; simp [success]
      | true =>
        simp only [Bool.not_true, Bool.false_eq_true, ↓reduceIte] at hr ⊢
        obtain ⟨hh, rfl⟩ := tail_wlog cfg _ sec false rs _ r hr
        rw [hh, hw { s with pol := s.pol.set _ l } _ _ h2 h4 rfl, exOnly_eq]; simp [success, expected]
  | removeFiltered sec idx vals =>
    cases sec with
    | p =>
      simp only [step] at hr ⊢
      cases hrf : Policy.removeFiltered (s.pol.get .p) idx vals with
      | error e => rw [hrf] at hr; simp at hr
      | ok res =>
        obtain ⟨l, any⟩ := res
        rw [hrf] at hr
        cases any with
        | false => simp at hr; subst hr; simp [success]
        | true =>
          simp only [Bool.not_true, Bool.false_eq_true, ↓reduceIte] at hr ⊢
          cases hr
          rw [hw { s with pol := s.pol.set _ l } _ _ h2 h4 rfl, exOnly_eq]; simp [success, expected]
    | g | g2 =>
      all_goals
        simp only [step] at hr ⊢
        cases hrf : Policy.removeFilteredReturnsEffects (s.pol.get _) idx vals with
        | error e => rw [hrf] at hr; simp at hr
        | ok res =>
          obtain ⟨l, eff⟩ := res
          rw [hrf] at hr
          cases eff with
          | nil => simp at hr; subst hr; simp [success]
          | cons e es =>
            simp only [List.isEmpty_cons, Bool.false_eq_true, ↓reduceIte] at hr ⊢
            obtain ⟨hh, rfl⟩ := tail_wlog cfg _ _ false (e :: es) _ r hr
            rw [hh, hw { s with pol := s.pol.set _ l } _ _ h2 h4 rfl, exOnly_eq]; simp [success, expected]
  | update old new =>
    simp only [step] at hr ⊢
    cases hu : Policy.update none s.pol.p old new with
    | error e => rw [hu] at hr; simp at hr
    | ok res =>
      obtain ⟨l, ok⟩ := res
      rw [hu] at hr
      cases ok with
      | false => simp at hr; subst hr; simp [success]
      | true =>
        simp only [Bool.not_true, Bool.false_eq_true, ↓reduceIte] at hr ⊢
        cases hr
        rw [hw { s with pol := s.pol.set _ l } _ _ h2 h4 rfl, updOnly_eq]; simp [success, expected]
  | updateMany olds news =>
    simp only [step] at hr ⊢
    cases hu : Policy.updateMany none s.pol.p olds news with
    | error e => rw [hu] at hr; simp at hr
    | ok res =>
      obtain ⟨l, ok⟩ := res
      rw [hu] at hr
      cases ok with
      | false => simp at hr; subst hr; simp [success]
      | true =>
        simp only [Bool.not_true, Bool.false_eq_true, ↓reduceIte] at hr ⊢
        cases hr
        rw [hw { s with pol := s.pol.set _ l } _ _ h2 h4 rfl, updOnly_eq]; simp [success, expected]
  | clearPolicy | buildRoleLinks | savePolicy | loadPolicy _ | enableAutoSave _ | enableAutoBuild _
  | enableAutoNotify _ => simp [isChange] at hop

/-- while auto-notify is off (or no watcher is set, or auto-save is off, or there is no adapter) a policy-changing
    management call results in no notification -/
theorem notify_none_unarmed (cfg : Cfg) (s : St) (op : Op) (hop : isChange op = true)
    (hoff : (cfg.hasAdapter && s.autoSave && cfg.hasWatcher && s.autoNotify) = false) :
    (step cfg s op).1.wlog = s.wlog := by
  have hw : ∀ (s' : St) c w, s'.autoSave = s.autoSave → s'.autoNotify = s.autoNotify → s'.wlog = s.wlog →
      (persist cfg s' c w).wlog = s.wlog := by
    intro s' c w ha hn hl
    rw [persist_wlog, ha, hn, hoff]; simpa using hl
  have tail : ∀ (s1 : St) sec add rules (ret : Ret), s1.wlog = s.wlog →
      (finish cfg s1 sec add rules ret).1.wlog = s.wlog := by
    intro s1 sec add rules ret h1
    unfold finish
    cases hrl : relink cfg s1 sec add rules with
    | error e => simpa using h1
    | ok s2 => simp only []; rw [(relink_wlog cfg s1 s2 sec add rules hrl).1]; exact h1
  cases op with
  | add sec r0 =>
    simp only [step]
    cases Policy.add none (s.pol.get sec) r0 with
    | mk l ok => cases ok <;> simp only [Bool.not_false, Bool.not_true, Bool.false_eq_true, ↓reduceIte]
                 split
                 · rfl
                 · exact tail _ _ _ _ _ (hw { s with pol := s.pol.set _ l } _ _ rfl rfl rfl)
  | addMany sec rs =>
    simp only [step]
    cases Policy.addMany none (s.pol.get sec) rs with
    | mk l ok => cases ok <;> simp only [Bool.not_false, Bool.not_true, Bool.false_eq_true, ↓reduceIte]
                 split
                 · rfl
                 · exact tail _ _ _ _ _ (hw { s with pol := s.pol.set _ l } _ _ rfl rfl rfl)
  | remove sec r0 =>
    simp only [step]
    cases Policy.remove (s.pol.get sec) r0 with
    | mk l ok => cases ok <;> simp only [Bool.not_false, Bool.not_true, Bool.false_eq_true, ↓reduceIte]
                 exact tail _ _ _ _ _ (hw { s with pol := s.pol.set _ l } _ _ rfl rfl rfl)
  | removeMany sec rs =>
    simp only [step]
    cases Policy.removeMany (s.pol.get sec) rs with
    | mk l ok => cases ok <;> simp only [Bool.not_false, Bool.not_true, Bool.false_eq_true, ↓reduceIte]
                 exact tail _ _ _ _ _ (hw { s with pol := s.pol.set _ l } _ _ rfl rfl rfl)
  | removeFiltered sec idx vals =>
    cases sec with
    | p =>
      simp only [step]
      cases Policy.removeFiltered (s.pol.get .p) idx vals with
      | error e => rfl
      | ok res =>
        obtain ⟨l, any⟩ := res
        cases any <;> simp only [Bool.not_false, Bool.not_true, Bool.false_eq_true, ↓reduceIte]
        exact hw { s with pol := s.pol.set _ l } _ _ rfl rfl rfl
    | g | g2 =>
      all_goals
        simp only [step]
        cases Policy.removeFilteredReturnsEffects (s.pol.get _) idx vals with
        | error e => rfl
        | ok res =>
          obtain ⟨l, eff⟩ := res
          cases eff with
          | nil => rfl
          | cons e es =>
            simp only [List.isEmpty_cons, Bool.false_eq_true, ↓reduceIte]
            exact tail _ _ _ _ _ (hw { s with pol := s.pol.set _ l } _ _ rfl rfl rfl)
  | update old new =>
    simp only [step]
    cases Policy.update none s.pol.p old new with
    | error e => rfl
    | ok res =>
      obtain ⟨l, ok⟩ := res
      cases ok <;> simp only [Bool.not_false, Bool.not_true, Bool.false_eq_true, ↓reduceIte]
      exact hw { s with pol := s.pol.set _ l } _ _ rfl rfl rfl
  | updateMany olds news =>
    simp only [step]
    cases Policy.updateMany none s.pol.p olds news with
    | error e => rfl
    | ok res =>
      obtain ⟨l, ok⟩ := res
      cases ok <;> simp only [Bool.not_false, Bool.not_true, Bool.false_eq_true, ↓reduceIte]
      exact hw { s with pol := s.pol.set _ l } _ _ rfl rfl rfl
  | clearPolicy | buildRoleLinks | savePolicy | loadPolicy _ | enableAutoSave _ | enableAutoBuild _
  | enableAutoNotify _ => simp [isChange] at hop

/-- `save_policy` notifies exactly once (whatever the auto-notify flag), with the save callback when offered -/
theorem save_notifies_once (cfg : Cfg) (s : St) (hw : cfg.hasWatcher = true) :
    (step cfg s .savePolicy).1.wlog = s.wlog ++ (expected cfg .savePolicy).toList ∧
    (step cfg s .savePolicy).2 = .ok .unit := by
  simp [step, hw, expected]

/-! ## Non-vacuity -/

example :
    let cfg : Cfg := { hasAdapter := true, hasWatcher := true, watcherEx := true }
    Armed cfg {} ∧ (step cfg {} (.add .g ["alice", "admin"])).1.wlog = [.forAddPolicy .g ["alice", "admin"]] ∧
    (step cfg (step cfg {} (.add .g ["alice", "admin"])).1 (.add .g ["alice", "admin"])).1.wlog =
      [.forAddPolicy .g ["alice", "admin"]] := by
  refine ⟨⟨rfl, rfl, rfl, rfl⟩, by decide, by decide⟩

end Casbin.Enf.C20
