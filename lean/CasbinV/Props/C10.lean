import CasbinV.Model.Persist
import CasbinV.Spec.Persist
/-!
# C10 — saving then loading a policy through the bundled adapters is lossless
-/
namespace Casbin.C10
open Casbin.Py Casbin.Persist Casbin.Persist.Spec

/-! ## Python string primitives -/

theorem lstrip_length_le (s : Str) : (lstrip s).length ≤ s.length := by
  induction s with
  | nil => simp [lstrip]
  | cons c s ih => unfold lstrip; split <;> simp <;> omega

theorem rstrip_length_le (s : Str) : (rstrip s).length ≤ s.length := by
  induction s with
  | nil => simp [rstrip]
  | cons c s ih =>
    unfold rstrip
    split
    · split <;> simp
    · rename_i h; simp; exact ih

theorem lstrip_of_strip_eq {s : Str} (h : strip s = s) : lstrip s = s := by
  cases s with
  | nil => rfl
  | cons c s =>
    unfold lstrip
    split
    · rename_i hc
      exfalso
      have h1 := rstrip_length_le (lstrip (c :: s))
      have h2 := lstrip_length_le s
      unfold strip at h
      rw [h] at h1
      unfold lstrip at h1
      simp [hc] at h1
      omega
    · rfl

theorem rstrip_of_strip_eq {s : Str} (h : strip s = s) : rstrip s = s := by
  have := lstrip_of_strip_eq h
  unfold strip at h
  rw [this] at h
  exact h

theorem lstrip_cons_space {c : Char} {s : Str} (hc : isSpace c = true) : lstrip (c :: s) = lstrip s := by
  rw [lstrip]; simp [hc]

theorem lstrip_cons_nonspace {c : Char} {s : Str} (hc : isSpace c = false) : lstrip (c :: s) = c :: s := by
  rw [lstrip]; simp [hc]

theorem rstrip_cons_of_ne_nil {c : Char} {s : Str} (h : rstrip s ≠ []) : rstrip (c :: s) = c :: rstrip s := by
  rw [rstrip]
  split
  · rename_i h'; exact absurd h' h
  · rfl

theorem rstrip_cons_nonspace {c : Char} {s : Str} (hc : isSpace c = false) : rstrip (c :: s) = c :: rstrip s := by
  rw [rstrip]
  split
  · rename_i h'; simp [hc, h']
  · rfl

theorem rstrip_append_of_ne_nil (s t : Str) (h : rstrip t ≠ []) : rstrip (s ++ t) = s ++ rstrip t := by
  induction s with
  | nil => rfl
  | cons c s ih =>
    have : rstrip (s ++ t) ≠ [] := by rw [ih]; simp [h]
    simp only [List.cons_append]
    rw [rstrip_cons_of_ne_nil this, ih]

/-! ## the tokenizer loop as an accumulator-free scanner -/

abbrev Scanned := Except Err (Str × List Str)

/-- apply `g` to the current token -/
def onTok (g : Str → Str) : Scanned → Scanned
  | .ok (t, ts) => .ok (g t, ts)
  | .error e => .error e

/-- a top-level comma: what was scanned becomes further tokens, the current token ends here -/
def newTok : Scanned → Scanned
  | .ok (t, ts) => .ok ([], t :: ts)
  | .error e => .error e

/-- the rest of the current token and the further tokens -/
def scan : Nat → Str → Scanned
  | _, [] => .ok ([], [])
  | d, c :: s =>
    if isOpen c then onTok (c :: ·) (scan (d + 1) s)
    else if isClose c then
      match d with
      | 0 => .error .indexError
      | d' + 1 => onTok (c :: ·) (scan d' s)
    else if c == ',' && d == 0 then newTok (scan d s)
    else onTok (c :: ·) (scan d s)

/-- glue a scan result onto accumulated tokens `ts ++ [cur]` -/
def glue (ts : List Str) (cur : Str) : Scanned → Except Err (List Str)
  | .ok (t, more) => .ok (ts ++ [cur ++ t] ++ more)
  | .error e => .error e

theorem glue_onTok (ts : List Str) (cur : Str) (c : Char) (x : Scanned) :
    glue ts (cur ++ [c]) x = glue ts cur (onTok (c :: ·) x) := by
  cases x with
  | error e => rfl
  | ok r => simp [glue, onTok]

theorem glue_newTok (ts : List Str) (cur : Str) (x : Scanned) :
    glue (ts ++ [cur]) [] x = glue ts cur (newTok x) := by
  cases x with
  | error e => rfl
  | ok r => simp [glue, newTok]

theorem appendLast_snoc (ts : List Str) (cur : Str) (c : Char) :
    appendLast (ts ++ [cur]) c = .ok (ts ++ [cur ++ [c]]) := by
  induction ts with
  | nil => simp [appendLast]
  | cons t ts ih =>
    cases ts with
    | nil => simp [appendLast]
    | cons u us =>
      simp only [List.cons_append] at ih ⊢
      rw [appendLast, ih]

/-- the loop with a current token = the scanner, glued onto the accumulated tokens -/
theorem tokLoop_snoc (s : Str) (d : Nat) (ts : List Str) (cur : Str) :
    tokLoop s d (ts ++ [cur]) = glue ts cur (scan d s) := by
  induction s generalizing d ts cur with
  | nil => simp [tokLoop, scan, glue]
  | cons c s ih =>
    unfold tokLoop scan
    by_cases ho : isOpen c = true
    · simp only [ho, ↓reduceIte, appendLast_snoc]
      rw [ih, glue_onTok]
    · simp only [ho, Bool.false_eq_true, ↓reduceIte]
      by_cases hc : isClose c = true
      · simp only [hc, ↓reduceIte]
        cases d with
        | zero => rfl
        | succ d' =>
          simp only [appendLast_snoc]
          rw [ih, glue_onTok]
      · simp only [hc, Bool.false_eq_true, ↓reduceIte]
        by_cases hk : (c == ',' && d == 0) = true
        · simp only [hk, ↓reduceIte]
          rw [ih (ts := ts ++ [cur]) (cur := []), glue_newTok]
        · simp only [hk, Bool.false_eq_true, ↓reduceIte]
          have hne : (ts ++ [cur]).isEmpty = false := by simp
          simp only [hne, Bool.false_eq_true, ↓reduceIte, appendLast_snoc]
          rw [ih, glue_onTok]

/-- first token and further tokens as one list -/
def toToks (first : Str → Str) : Scanned → Except Err (List Str)
  | .ok (t, more) => .ok (first t :: more)
  | .error e => .error e

/-- **the loop of `load_policy_line`, for every line**: a first bracket raises, a first comma is dropped, and
    from then on the loop is the scanner -/
theorem tokLoop_eq_scan (c : Char) (s : Str) :
    tokLoop (c :: s) 0 [] =
      if isOpen c || isClose c then .error .indexError
      else toToks (fun t => if c == ',' then t else c :: t) (scan 0 s) := by
  unfold tokLoop
  by_cases ho : isOpen c = true
  · simp [ho, appendLast]
  · simp only [ho, Bool.false_eq_true, ↓reduceIte]
    by_cases hc : isClose c = true
    · simp [hc]
    · simp only [hc, Bool.false_eq_true, ↓reduceIte, Bool.or_self]
      by_cases hk : c = ','
      · subst hk
        have := tokLoop_snoc s 0 [] []
        simp only [List.nil_append] at this
        simp only [beq_self_eq_true, Bool.and_self, ↓reduceIte, List.nil_append, this]
        cases scan 0 s with
        | error e => rfl
        | ok r => simp [glue, toToks]
      · have hk' : (c == ',') = false := by simpa using hk
        have := tokLoop_snoc s 0 [] [c]
        simp only [List.nil_append] at this
        simp only [hk', Bool.false_and, Bool.false_eq_true, ↓reduceIte, List.isEmpty_nil, List.nil_append, this]
        cases scan 0 s with
        | error e => rfl
        | ok r => simp [glue, toToks]

/-! ## scanning a rendered line -/

theorem onTok_onTok (g h : Str → Str) (x : Scanned) : onTok g (onTok h x) = onTok (fun t => g (h t)) x := by
  cases x with
  | error e => rfl
  | ok r => rfl

/-- a balanced field without top-level comma is swallowed whole by the scanner, at any depth it balances from -/
theorem scan_field (f : Str) (d : Nat) (rest : Str) (h : fieldScan d f = true) :
    scan d (f ++ rest) = onTok (f ++ ·) (scan 0 rest) := by
  induction f generalizing d with
  | nil =>
    simp [fieldScan] at h
    subst h
    simp only [List.nil_append]
    cases scan 0 rest with
    | error e => rfl
    | ok r => obtain ⟨t, ts⟩ := r; rfl
  | cons c f ih =>
    unfold fieldScan at h
    simp only [List.cons_append]
    conv => lhs; unfold scan
    by_cases ho : isOpen c = true
    · simp only [ho, ↓reduceIte] at h ⊢
      rw [ih _ h, onTok_onTok]
    · simp only [ho, Bool.false_eq_true, ↓reduceIte] at h ⊢
      by_cases hc : isClose c = true
      · simp only [hc, ↓reduceIte] at h ⊢
        cases d with
        | zero => simp at h
        | succ d' =>
          simp only at h ⊢
          rw [ih _ h, onTok_onTok]
      · simp only [hc, Bool.false_eq_true, ↓reduceIte] at h ⊢
        by_cases hk : (c == ',') = true
        · simp only [hk, ↓reduceIte, Bool.and_eq_true, bne_iff_ne, ne_eq] at h
          have hd : (d == 0) = false := by simpa using h.1
          simp only [hk, hd, Bool.and_false, Bool.false_eq_true, ↓reduceIte]
          rw [ih _ h.2, onTok_onTok]
        · simp only [hk, Bool.false_eq_true, ↓reduceIte, Bool.and_eq_true] at h
          simp only [hk, Bool.false_and, Bool.false_eq_true, ↓reduceIte]
          rw [ih _ h.2, onTok_onTok]

/-- the part of a line after the type name: every further token with its comma -/
def pieces (ws : List Str) : Str := ws.flatMap fun w => ',' :: w

theorem scan_pieces (k0 : Str) (ws : List Str) (hk : fieldScan 0 k0 = true)
    (hw : ∀ w ∈ ws, fieldScan 0 w = true) : scan 0 (k0 ++ pieces ws) = .ok (k0, ws) := by
  induction ws generalizing k0 with
  | nil =>
    have := scan_field k0 0 [] hk
    simpa [pieces, scan, onTok] using this
  | cons w ws ih =>
    rw [scan_field k0 0 _ hk]
    have h1 : pieces (w :: ws) = ',' :: (w ++ pieces ws) := by simp [pieces]
    rw [h1]
    conv => lhs; arg 2; unfold scan
    have hcomma : isOpen ',' = false ∧ isClose ',' = false := by decide
    simp only [hcomma.1, hcomma.2, Bool.false_eq_true, ↓reduceIte, beq_self_eq_true, Bool.and_self]
    rw [ih w (hw w (by simp)) (fun x hx => hw x (by simp [hx]))]
    simp [newTok, onTok]

/-- characters a policy-type name is made of -/
def plain (c : Char) : Bool := !isSpace c && c != ',' && !isOpen c && !isClose c

theorem fieldScan_plain (k : Str) (h : k.all plain = true) : fieldScan 0 k = true := by
  induction k with
  | nil => rfl
  | cons c k ih =>
    simp only [List.all_cons, Bool.and_eq_true] at h
    obtain ⟨hc, hk⟩ := h
    simp only [plain, Bool.and_eq_true, Bool.not_eq_true', bne_iff_ne, ne_eq] at hc
    obtain ⟨⟨⟨hs, hcm⟩, ho⟩, hcl⟩ := hc
    unfold fieldScan
    have hcm' : (c == ',') = false := by simpa using hcm
    have hnl : (c != '\n') = true := by
      simp only [bne_iff_ne, ne_eq]
      intro h; subst h; revert hs; decide
    simp [ho, hcl, hcm', hnl, ih hk]

theorem strip_plain (k : Str) (h : k.all plain = true) : strip k = k := by
  have hns : ∀ c ∈ k, isSpace c = false := by
    intro c hc
    have := List.all_eq_true.mp h c hc
    simp only [plain, Bool.and_eq_true, Bool.not_eq_true'] at this
    exact this.1.1.1
  have hl : lstrip k = k := by
    cases k with
    | nil => rfl
    | cons c k => exact lstrip_cons_nonspace (hns c (by simp))
  have hr : rstrip k = k := by
    clear hl h
    induction k with
    | nil => rfl
    | cons c k ih =>
      rw [rstrip_cons_nonspace (hns c (by simp)), ih (fun x hx => hns x (by simp [hx]))]
  unfold strip; rw [hl, hr]

theorem keyOK_iff (k : Str) : keyOK k = true ↔ k ≠ [] ∧ k.head? ≠ some '#' ∧ k.all plain = true := by
  unfold keyOK
  simp only [Bool.and_eq_true, Bool.not_eq_true', List.isEmpty_eq_false_iff, bne_iff_ne, ne_eq, and_assoc]
  constructor
  · rintro ⟨h1, h2, h3⟩
    refine ⟨h1, h2, ?_⟩
    rw [List.all_eq_true] at h3 ⊢
    intro c hc; have := h3 c hc
    simp only [plain]; simpa [and_assoc] using this
  · rintro ⟨h1, h2, h3⟩
    refine ⟨h1, h2, ?_⟩
    rw [List.all_eq_true] at h3 ⊢
    intro c hc; have := h3 c hc
    simp only [plain] at this; simpa [and_assoc] using this

/-- **tokenizing a type name followed by comma-led fields** (the shape of every saved line, before and after
    `strip`): the fields come back trimmed, in order -/
theorem parseLine_pieces (k : Str) (ws : List Str) (hk : keyOK k = true)
    (hw : ∀ w ∈ ws, fieldScan 0 w = true) :
    parseLine (k ++ pieces ws) = .ok (some (k, ws.map strip)) := by
  obtain ⟨hne, hhash, hplain⟩ := (keyOK_iff k).mp hk
  cases k with
  | nil => exact absurd rfl hne
  | cons c k' =>
    have hc : plain c = true := by simp only [List.all_cons, Bool.and_eq_true] at hplain; exact hplain.1
    have hk' : k'.all plain = true := by simp only [List.all_cons, Bool.and_eq_true] at hplain; exact hplain.2
    simp only [plain, Bool.and_eq_true, Bool.not_eq_true', bne_iff_ne, ne_eq] at hc
    obtain ⟨⟨⟨hs, hcm⟩, ho⟩, hcl⟩ := hc
    have hcm' : (c == ',') = false := by simpa using hcm
    have hh : c ≠ '#' := by simpa using hhash
    unfold parseLine
    simp only [List.cons_append, List.isEmpty_cons, Bool.false_eq_true, ↓reduceIte, List.take_succ_cons,
      List.take_zero]
    have : ([c] == ['#']) = false := by simp [hh]
    simp only [this, Bool.false_eq_true, ↓reduceIte]
    rw [tokLoop_eq_scan, scan_pieces k' ws (fieldScan_plain k' hk') hw]
    simp only [ho, hcl, Bool.or_self, Bool.false_eq_true, ↓reduceIte, hcm', toToks, List.map_cons]
    rw [strip_plain (c :: k') hplain]

/-! ## a saved line -/

theorem join_pad (f : Str) (fs : List Str) :
    [',', ' '] ++ join [',', ' '] (f :: fs) = pieces ((f :: fs).map (' ' :: ·)) := by
  induction fs generalizing f with
  | nil => simp [join, pieces]
  | cons g gs ih =>
    have := ih g
    simp only [join, List.map_cons, pieces, List.flatMap_cons] at this ⊢
    simp only [List.append_assoc, List.cons_append, List.nil_append] at this ⊢
    rw [this]

/-- a saved line is the type name followed by comma-led, blank-padded fields -/
theorem renderLine_eq_pieces (k : Str) (fs : List Str) (hne : fs ≠ []) :
    renderLine k fs = k ++ pieces (fs.map (' ' :: ·)) := by
  cases fs with
  | nil => exact absurd rfl hne
  | cons f fs =>
    unfold renderLine
    rw [List.append_assoc, join_pad]

theorem fieldOK_iff (f : Str) : fieldOK f = true ↔ fieldScan 0 f = true ∧ strip f = f := by
  simp [fieldOK]

theorem isSpace_blank : isSpace ' ' = true := by decide

theorem fieldScan_pad (f : Str) (h : fieldScan 0 f = true) : fieldScan 0 (' ' :: f) = true := by
  rw [fieldScan]
  have : isOpen ' ' = false ∧ isClose ' ' = false ∧ (' ' == ',') = false ∧ (' ' != '\n') = true := by decide
  simp [this.1, this.2.1, this.2.2.1, this.2.2.2, h]

theorem strip_pad (f : Str) : strip (' ' :: f) = strip f := by
  unfold strip
  rw [lstrip_cons_space isSpace_blank]

/-- **`line_roundtrip`** (string adapter: the line is tokenized as saved).  For every type name and every rule with
    at least one field, all fields admissible, tokenizing the saved line gives back the type and the fields. -/
theorem line_roundtrip (k : Str) (fs : List Str) (hk : keyOK k = true) (hne : fs ≠ [])
    (hf : ∀ f ∈ fs, fieldOK f = true) :
    parseLine (renderLine k fs) = .ok (some (k, fs)) := by
  rw [renderLine_eq_pieces k fs hne, parseLine_pieces k _ hk]
  · congr 3
    rw [List.map_map]
    conv => rhs; rw [← List.map_id fs]
    apply List.map_congr_left
    intro f hfm
    simp only [Function.comp_apply, id_eq, strip_pad]
    exact ((fieldOK_iff f).mp (hf f hfm)).2
  · intro w hw
    obtain ⟨f, hfm, rfl⟩ := List.mem_map.mp hw
    exact fieldScan_pad f ((fieldOK_iff f).mp (hf f hfm)).1

/-- what `strip` does to a saved line: only the padding of an empty last field can go -/
theorem strip_render (k : Str) (fs : List Str) (hk : keyOK k = true) (hne : fs ≠ [])
    (hf : ∀ f ∈ fs, fieldOK f = true) :
    ∃ ws : List Str, strip (renderLine k fs) = k ++ pieces ws ∧ ws.map strip = fs ∧
      ∀ w ∈ ws, fieldScan 0 w = true := by
  obtain ⟨hkne, _, hplain⟩ := (keyOK_iff k).mp hk
  have hl : lstrip (renderLine k fs) = renderLine k fs := by
    cases k with
    | nil => exact absurd rfl hkne
    | cons c k' =>
      have hc : plain c = true := by simp only [List.all_cons, Bool.and_eq_true] at hplain; exact hplain.1
      simp only [plain, Bool.and_eq_true, Bool.not_eq_true'] at hc
      unfold renderLine
      simp only [List.cons_append]
      exact lstrip_cons_nonspace hc.1.1.1
  have hsplit : fs = fs.dropLast ++ [fs.getLast hne] := (List.dropLast_concat_getLast hne).symm
  generalize fs.dropLast = init at hsplit
  generalize fs.getLast hne = fl at hsplit
  subst hsplit
  have hfl := (fieldOK_iff fl).mp (hf fl (by simp))
  have hrfl : rstrip fl = fl := rstrip_of_strip_eq hfl.2
  -- the last piece after rstrip
  refine ⟨init.map (' ' :: ·) ++ [rstrip (' ' :: fl)], ?_, ?_, ?_⟩
  · unfold strip
    rw [hl, renderLine_eq_pieces _ _ hne]
    have hp : ∀ (a : List Str) (w : Str), pieces (a ++ [w]) = pieces a ++ (',' :: w) := by
      intro a w; simp [pieces]
    rw [List.map_append, List.map_cons, List.map_nil, hp, hp, ← List.append_assoc, ← List.append_assoc]
    have hcs : isSpace ',' = false := by decide
    have h1 : rstrip (',' :: ' ' :: fl) = ',' :: rstrip (' ' :: fl) := rstrip_cons_nonspace hcs
    rw [rstrip_append_of_ne_nil _ _ (by rw [h1]; simp), h1]
  · rw [List.map_append, List.map_map]
    congr 1
    · conv => rhs; rw [← List.map_id init]
      apply List.map_congr_left
      intro f hfm
      simp only [Function.comp_apply, id_eq, strip_pad]
      exact ((fieldOK_iff f).mp (hf f (by simp [hfm]))).2
    · simp only [List.map_cons, List.map_nil, List.cons.injEq, and_true]
      cases fl with
      | nil => simp [rstrip, isSpace_blank, strip, lstrip]
      | cons c r =>
        rw [rstrip_cons_of_ne_nil (by rw [hrfl]; simp), hrfl, strip_pad]
        exact hfl.2
  · intro w hw
    rcases List.mem_append.mp hw with hw | hw
    · obtain ⟨f, hfm, rfl⟩ := List.mem_map.mp hw
      exact fieldScan_pad f ((fieldOK_iff f).mp (hf f (by simp [hfm]))).1
    · simp only [List.mem_singleton] at hw
      subst hw
      cases fl with
      | nil => simp [rstrip, isSpace_blank, fieldScan]
      | cons c r =>
        rw [rstrip_cons_of_ne_nil (by rw [hrfl]; simp), hrfl]
        exact fieldScan_pad _ hfl.1

/-- **`line_roundtrip`, file adapters**: the saved line is stripped before it is tokenized -/
theorem line_roundtrip_file (k : Str) (fs : List Str) (hk : keyOK k = true) (hne : fs ≠ [])
    (hf : ∀ f ∈ fs, fieldOK f = true) :
    parseLine (strip (renderLine k fs)) = .ok (some (k, fs)) := by
  obtain ⟨ws, h1, h2, h3⟩ := strip_render k fs hk hne hf
  rw [h1, parseLine_pieces k ws hk h3, h2]

/-! ## loading a list of lines = extending every policy type by the rules the lines hold for it -/

theorem append_unknown (m : Store) (k : Str) (r : Rule) (h : m.hasKey k = false) : m.append k r = m := by
  unfold Store.append
  conv => rhs; rw [← List.map_id m]
  apply List.map_congr_left
  intro e he
  have : (e.key == k) = false := by
    simp only [Store.hasKey, List.any_eq_false] at h
    simpa using h e he
  simp [this]

theorem hasSec_of_hasKey (m : Store) (k : Str) (c : Char) (hc : k.head? = some c) (h : m.hasKey k = true) :
    m.hasSec c = true := by
  simp only [Store.hasKey, Store.hasSec, List.any_eq_true, Entry.sec] at h ⊢
  obtain ⟨e, he, hk⟩ := h
  exact ⟨e, he, by simp at hk; simp [hk, hc]⟩

/-- the type dispatch of `load_policy_line` appends to the named type, which changes nothing when the model does not
    define it -/
theorem loadPolicyLine_some (l : Str) (m : Store) (k : Str) (r : Rule) (h : parseLine l = .ok (some (k, r))) :
    loadPolicyLine l m = .ok (m.append k r) := by
  have hk : k ≠ [] := by
    unfold parseLine at h
    split at h <;> try simp at h
    split at h <;> try simp at h
    split at h <;> try simp at h
    split at h <;> simp at h
    rename_i key rule hne _
    obtain ⟨rfl, _⟩ := h
    intro hnil; exact hne hnil
  unfold loadPolicyLine
  simp only [h]
  cases k with
  | nil => exact absurd rfl hk
  | cons c k' =>
    simp only [List.head?_cons]
    by_cases hkey : m.hasKey (c :: k') = true
    · have := hasSec_of_hasKey m (c :: k') c rfl hkey
      simp [this, hkey]
    · have hkey' : m.hasKey (c :: k') = false := by simpa using hkey
      rw [append_unknown m _ r hkey']
      by_cases hs : m.hasSec c = true <;> simp [hs, hkey']

theorem loadPolicyLine_none (l : Str) (m : Store) (h : parseLine l = .ok none) : loadPolicyLine l m = .ok m := by
  unfold loadPolicyLine; simp [h]

theorem loadPolicyLine_error (l : Str) (m : Store) (e : Err) (h : parseLine l = .error e) :
    loadPolicyLine l m = .error e := by
  unfold loadPolicyLine; simp [h]

def applyOpt (m : Store) : Option (Str × Rule) → Store
  | none => m
  | some (k, r) => m.append k r

def appendAll (m : Store) : List (Str × Rule) → Store
  | [] => m
  | (k, r) :: kr => appendAll (m.append k r) kr

/-- a line handler that never raises on `ls` and whose effect is described by `d` -/
theorem loadLines_described (h : Str → Store → Except Err Store) (d : Str → Option (Str × Rule)) (ls : List Str)
    (H : ∀ l ∈ ls, ∀ m, h l m = .ok (applyOpt m (d l))) (m : Store) :
    loadLines h ls m = (appendAll m (ls.filterMap d), none) := by
  induction ls generalizing m with
  | nil => rfl
  | cons l ls ih =>
    rw [loadLines, H l (by simp) m]
    simp only
    rw [ih (fun x hx => H x (by simp [hx]))]
    cases hd : d l with
    | none => simp [applyOpt, hd]
    | some kr => obtain ⟨k, r⟩ := kr; simp [applyOpt, hd, appendAll]

theorem rulesOf_cons (k : Str) (r : Rule) (kr : List (Str × Rule)) (key : Str) :
    rulesOf ((k, r) :: kr) key = if k == key then r :: rulesOf kr key else rulesOf kr key := by
  unfold rulesOf
  by_cases h : (k == key) = true <;> simp [h]

theorem appendAll_eq_extend (m : Store) (kr : List (Str × Rule)) : appendAll m kr = extend m kr := by
  induction kr generalizing m with
  | nil =>
    simp only [appendAll, extend, rulesOf, List.filter_nil, List.map_nil, List.append_nil]
    exact (List.map_id m).symm
  | cons p kr ih =>
    obtain ⟨k, r⟩ := p
    rw [appendAll, ih]
    unfold extend Store.append
    rw [List.map_map]
    apply List.map_congr_left
    intro e _
    simp only [Function.comp_apply, rulesOf_cons]
    by_cases hk : (e.key == k) = true
    · have hk' : (k == e.key) = true := by simp at hk ⊢; exact hk.symm
      simp [hk, hk']
    · have hk' : (k == e.key) = false := by simp at hk ⊢; exact fun h => hk h.symm
      simp [hk, hk']

/-! ## whole texts -/

theorem splitOn_not_mem (sep : Char) (a : Str) (h : sep ∉ a) : splitOn sep a = [a] := by
  induction a with
  | nil => rfl
  | cons c a ih =>
    have hc : c ≠ sep := fun e => h (by simp [e])
    have ha : sep ∉ a := fun e => h (by simp [e])
    rw [splitOn]; simp [hc, ih ha]

theorem splitOn_append_sep (sep : Char) (a b : Str) (h : sep ∉ a) :
    splitOn sep (a ++ sep :: b) = a :: splitOn sep b := by
  induction a with
  | nil => simp [splitOn]
  | cons c a ih =>
    have hc : c ≠ sep := fun e => h (by simp [e])
    have ha : sep ∉ a := fun e => h (by simp [e])
    simp only [List.cons_append]
    rw [splitOn]; simp [hc, ih ha]

theorem splitOn_join (ls : List Str) (hne : ls ≠ []) (h : ∀ l ∈ ls, '\n' ∉ l) :
    splitOn '\n' (join ['\n'] ls) = ls := by
  induction ls with
  | nil => exact absurd rfl hne
  | cons p ps ih =>
    cases ps with
    | nil => simp only [join]; exact splitOn_not_mem _ _ (h p (by simp))
    | cons q qs =>
      simp only [join, List.append_assoc, List.cons_append, List.nil_append]
      rw [splitOn_append_sep _ _ _ (h p (by simp)), ih (by simp) (fun l hl => h l (by simp [hl]))]

theorem fieldScan_no_nl (f : Str) (d : Nat) (h : fieldScan d f = true) : '\n' ∉ f := by
  induction f generalizing d with
  | nil => simp
  | cons c f ih =>
    unfold fieldScan at h
    have hnl : isOpen '\n' = false ∧ isClose '\n' = false ∧ ('\n' == ',') = false := by decide
    intro hm
    rcases List.mem_cons.mp hm with hm | hm
    · subst hm
      simp [hnl.1, hnl.2.1, hnl.2.2] at h
    · by_cases ho : isOpen c = true
      · simp only [ho, ↓reduceIte] at h; exact ih _ h hm
      · simp only [ho, Bool.false_eq_true, ↓reduceIte] at h
        by_cases hc : isClose c = true
        · simp only [hc, ↓reduceIte] at h
          cases d with
          | zero => simp at h
          | succ d' => exact ih _ h hm
        · simp only [hc, Bool.false_eq_true, ↓reduceIte] at h
          by_cases hk : (c == ',') = true
          · simp only [hk, ↓reduceIte, Bool.and_eq_true] at h; exact ih _ h.2 hm
          · simp only [hk, Bool.false_eq_true, ↓reduceIte, Bool.and_eq_true] at h; exact ih _ h.2 hm

theorem render_no_nl (k : Str) (fs : List Str) (hk : keyOK k = true) (hf : ∀ f ∈ fs, fieldOK f = true) :
    '\n' ∉ renderLine k fs := by
  obtain ⟨_, _, hplain⟩ := (keyOK_iff k).mp hk
  have h1 : '\n' ∉ k := fieldScan_no_nl k 0 (fieldScan_plain k hplain)
  have h2 : '\n' ∉ join [',', ' '] fs := by
    induction fs with
    | nil => simp [join]
    | cons f fs ih =>
      have hf0 := fieldScan_no_nl f 0 ((fieldOK_iff f).mp (hf f (by simp))).1
      cases fs with
      | nil => simpa [join] using hf0
      | cons g gs =>
        have := ih (fun x hx => hf x (by simp [hx]))
        simp only [join, List.append_assoc, List.cons_append, List.nil_append, List.mem_append, List.mem_cons,
          not_or]
        exact ⟨hf0, by decide, by decide, this⟩
  unfold renderLine
  simp only [List.append_assoc, List.cons_append, List.nil_append, List.mem_append, List.mem_cons, not_or]
  exact ⟨h1, by decide, by decide, h2⟩

/-- the (type, rule) pairs `save_policy` writes for one section, in writing order -/
def secPairs (st : Store) (c : Char) : List (Str × Rule) :=
  st.flatMap fun e => if e.sec == some c then e.rules.map fun r => (e.key, r) else []

def savePairs (st : Store) : List (Str × Rule) := secPairs st 'p' ++ secPairs st 'g'

theorem saveLines_eq (st : Store) : saveLines st = (savePairs st).map fun p => renderLine p.1 p.2 := by
  have h : ∀ c, secLines st c = (secPairs st c).map fun p => renderLine p.1 p.2 := by
    intro c
    unfold secLines secPairs
    rw [List.map_flatMap]
    congr 1
    funext e
    split <;> simp
  unfold saveLines savePairs
  rw [List.map_append, h, h]

theorem rulesOf_append (a b : List (Str × Rule)) (k : Str) : rulesOf (a ++ b) k = rulesOf a k ++ rulesOf b k := by
  simp [rulesOf]

theorem rulesOf_entry (key : Str) (rules : List Rule) (k : Str) :
    rulesOf (rules.map fun r => (key, r)) k = if key == k then rules else [] := by
  unfold rulesOf
  by_cases h : (key == k) = true
  · simp [h, List.filter_map, Function.comp_def]
  · simp [h, List.filter_map, Function.comp_def]

theorem rulesOf_secPairs_notin (st : Store) (c : Char) (k : Str) (h : ∀ e ∈ st, (e.key == k) = false) :
    rulesOf (secPairs st c) k = [] := by
  induction st with
  | nil => rfl
  | cons e es ih =>
    have he := h e (by simp)
    unfold secPairs at ih ⊢
    rw [List.flatMap_cons, rulesOf_append, ih (fun x hx => h x (by simp [hx]))]
    split
    · rw [rulesOf_entry]; simp [he]
    · rfl

theorem rulesOf_secPairs (st : Store) (c : Char) (hn : keysNodup st = true) (e : Entry) (he : e ∈ st) :
    rulesOf (secPairs st c) e.key = if e.sec == some c then e.rules else [] := by
  induction st with
  | nil => simp at he
  | cons e0 es ih =>
    simp only [keysNodup, Bool.and_eq_true, Bool.not_eq_true', List.any_eq_false] at hn
    obtain ⟨hfresh, hn'⟩ := hn
    have hstep : secPairs (e0 :: es) c =
        (if e0.sec == some c then e0.rules.map fun r => (e0.key, r) else []) ++ secPairs es c := by
      simp [secPairs]
    rw [hstep, rulesOf_append]
    rcases List.mem_cons.mp he with rfl | hmem
    · rw [rulesOf_secPairs_notin es c e.key (fun x hx => by simpa using hfresh x hx)]
      split
      · rw [rulesOf_entry]; simp
      · rfl
    · have hne : (e0.key == e.key) = false := by
        have := hfresh e hmem
        simp at this ⊢
        exact fun h => this h.symm
      rw [ih hn' hmem]
      split
      · rw [rulesOf_entry]; simp [hne]
      · simp [rulesOf]

theorem isPG_iff (e : Entry) : isPG e = true ↔ e.sec = some 'p' ∨ e.sec = some 'g' := by
  simp [isPG]

/-- what the saved lines hold for every policy type of the model: the type's rules for `p`/`g` types, nothing else -/
theorem rulesOf_savePairs (st : Store) (hn : keysNodup st = true) (e : Entry) (he : e ∈ st) :
    rulesOf (savePairs st) e.key = if isPG e then e.rules else [] := by
  unfold savePairs
  rw [rulesOf_append, rulesOf_secPairs st 'p' hn e he, rulesOf_secPairs st 'g' hn e he]
  by_cases hp : e.sec = some 'p'
  · simp [isPG, hp]
  · by_cases hg : e.sec = some 'g'
    · simp [isPG, hg]
    · simp [isPG, hp, hg]

theorem extend_clearPG_savePairs (st : Store) (hn : keysNodup st = true) :
    extend (clearPG st) (savePairs st) = st := by
  unfold extend clearPG
  rw [List.map_map]
  conv => rhs; rw [← List.map_id st]
  apply List.map_congr_left
  intro e he
  have hr := rulesOf_savePairs st hn e he
  simp only [Function.comp_apply, id_eq]
  by_cases hpg : isPG e = true
  · have : (e.sec == some 'p' || e.sec == some 'g') = true := hpg
    simp only [this, ↓reduceIte, hr, hpg, List.nil_append]
  · have hpg' : isPG e = false := by simpa using hpg
    have : (e.sec == some 'p' || e.sec == some 'g') = false := hpg'
    simp [this, hr, hpg']

theorem savePairs_ok (st : Store) (h : policyOK st = true) :
    ∀ p ∈ savePairs st, keyOK p.1 = true ∧ p.2 ≠ [] ∧ ∀ f ∈ p.2, fieldOK f = true := by
  simp only [policyOK, Bool.and_eq_true, List.all_eq_true, Bool.or_eq_true, Bool.not_eq_true'] at h
  obtain ⟨_, hall⟩ := h
  have hsec : ∀ c, (c = 'p' ∨ c = 'g') → ∀ p ∈ secPairs st c,
      keyOK p.1 = true ∧ p.2 ≠ [] ∧ ∀ f ∈ p.2, fieldOK f = true := by
    intro c hc p hp
    simp only [secPairs, List.mem_flatMap] at hp
    obtain ⟨e, he, hpe⟩ := hp
    split at hpe
    · rename_i hsec
      obtain ⟨r, hr, rfl⟩ := List.mem_map.mp hpe
      have hpg : isPG e = true := by
        simp only [beq_iff_eq] at hsec
        rcases hc with rfl | rfl <;> simp [isPG, hsec]
      rcases hall e he with hno | hok
      · rw [hpg] at hno; exact absurd hno (by simp)
      · have hrule := hok.2 r hr
        simp only [ruleOK, Bool.and_eq_true, Bool.not_eq_true', List.isEmpty_eq_false_iff,
          List.all_eq_true] at hrule
        exact ⟨hok.1, hrule.1, hrule.2⟩
    · simp at hpe
  intro p hp
  rcases List.mem_append.mp hp with hp | hp
  · exact hsec 'p' (Or.inl rfl) p hp
  · exact hsec 'g' (Or.inr rfl) p hp

/-- loading the lines `save_policy` writes (through `pre`, the adapter's treatment of a line) appends exactly the
    saved (type, rule) pairs -/
theorem loadLines_saved (pre : Str → Str) (h : Str → Store → Except Err Store)
    (hh : ∀ l m, l ≠ [] → h l m = loadPolicyLine (pre l) m)
    (hpre : ∀ k fs, keyOK k = true → fs ≠ [] → (∀ f ∈ fs, fieldOK f = true) →
      parseLine (pre (renderLine k fs)) = .ok (some (k, fs)))
    (kr : List (Str × Rule))
    (hok : ∀ p ∈ kr, keyOK p.1 = true ∧ p.2 ≠ [] ∧ ∀ f ∈ p.2, fieldOK f = true) (m : Store) :
    loadLines h (kr.map fun p => renderLine p.1 p.2) m = (extend m kr, none) := by
  let d : Str → Option (Str × Rule) := fun l =>
    match parseLine (pre l) with | .ok (some kr) => some kr | _ => none
  have hne : ∀ k fs, renderLine k fs ≠ [] := by intro k fs; simp [renderLine]
  have H : ∀ l ∈ kr.map (fun p => renderLine p.1 p.2), ∀ m, h l m = .ok (applyOpt m (d l)) := by
    intro l hl m
    obtain ⟨p, hp, rfl⟩ := List.mem_map.mp hl
    obtain ⟨h1, h2, h3⟩ := hok p hp
    have hparse := hpre p.1 p.2 h1 h2 h3
    rw [hh _ _ (hne _ _), loadPolicyLine_some _ _ _ _ hparse]
    simp [d, hparse, applyOpt]
  rw [loadLines_described h d _ H m, appendAll_eq_extend]
  congr 2
  rw [List.filterMap_map]
  have hgen : ∀ (l : List (Str × Rule)), (∀ p ∈ l, p ∈ kr) →
      l.filterMap (d ∘ fun p => renderLine p.1 p.2) = l := by
    intro l
    induction l with
    | nil => intro _; rfl
    | cons p ps ih =>
      intro hsub
      obtain ⟨h1, h2, h3⟩ := hok p (hsub p (by simp))
      have : (d ∘ fun p => renderLine p.1 p.2) p = some p := by
        simp [d, hpre p.1 p.2 h1 h2 h3]
      rw [List.filterMap_cons, this, ih (fun q hq => hsub q (by simp [hq]))]
  exact hgen kr (fun _ h => h)

/-- **`text_roundtrip`, file adapter and async file adapter** (`_save_policy_file` then `_load_policy_file`; the two
    adapters have the same code).  Every policy whose `p`/`g` rules are admissible is reproduced exactly — every
    policy type, same order; other assertions are untouched.  The empty policy is included (empty file). -/
theorem text_roundtrip_file (st : Store) (h : policyOK st = true) :
    loadFile (saveFile st) (clearPG st) = (st, none) := by
  have hn : keysNodup st = true := by simp only [policyOK, Bool.and_eq_true] at h; exact h.1
  have hok := savePairs_ok st h
  unfold loadFile saveFile
  by_cases hemp : saveLines st = []
  · -- nothing to save: the file is empty, its single empty line is skipped
    have hp : savePairs st = [] := by
      have := saveLines_eq st; rw [hemp] at this
      exact List.map_eq_nil_iff.mp this.symm
    rw [hemp]
    have : loadLines (fun l st => loadPolicyLine (strip l) st) (splitOn '\n' (join ['\n'] [])) (clearPG st)
        = (clearPG st, none) := by
      simp [join, splitOn, loadLines, strip, lstrip, rstrip, loadPolicyLine, parseLine]
    rw [this]
    have := extend_clearPG_savePairs st hn
    rw [hp] at this
    have he : extend (clearPG st) [] = clearPG st := by
      unfold extend; simp [rulesOf]
    rw [he] at this; rw [this]
  · rw [splitOn_join _ hemp]
    · rw [saveLines_eq]
      rw [loadLines_saved strip _ (fun _ _ _ => rfl) line_roundtrip_file _ hok, extend_clearPG_savePairs st hn]
    · intro l hl
      rw [saveLines_eq] at hl
      obtain ⟨p, hp, rfl⟩ := List.mem_map.mp hl
      obtain ⟨h1, _, h3⟩ := hok p hp
      exact render_no_nl _ _ h1 h3

theorem rstripChar_snoc_ne (c x : Char) (s : Str) (h : x ≠ c) : rstripChar c (s ++ [x]) = s ++ [x] := by
  induction s with
  | nil => simp [rstripChar, h]
  | cons y s ih => simp only [List.cons_append]; rw [rstripChar, ih]; simp

theorem rstripChar_snoc_eq (c : Char) (s : Str) : rstripChar c (s ++ [c]) = rstripChar c s := by
  induction s with
  | nil => simp [rstripChar]
  | cons y s ih =>
    simp only [List.cons_append]
    conv => lhs; unfold rstripChar
    conv => rhs; unfold rstripChar
    rw [ih]

theorem flatMap_nl (ls : List Str) (hne : ls ≠ []) :
    (ls.flatMap fun l => l ++ ['\n']) = join ['\n'] ls ++ ['\n'] := by
  induction ls with
  | nil => exact absurd rfl hne
  | cons p ps ih =>
    cases ps with
    | nil => simp [join]
    | cons q qs =>
      have := ih (by simp)
      rw [List.flatMap_cons, this]
      simp [join]

/-- a text of rendered lines ends with a character of its last line -/
theorem join_last (ls : List Str) (hne : ls ≠ []) (hl : ∀ l ∈ ls, l ≠ [] ∧ '\n' ∉ l) :
    ∃ s x, join ['\n'] ls = s ++ [x] ∧ x ≠ '\n' := by
  induction ls with
  | nil => exact absurd rfl hne
  | cons p ps ih =>
    cases ps with
    | nil =>
      obtain ⟨h1, h2⟩ := hl p (by simp)
      refine ⟨p.dropLast, p.getLast h1, by simp [join, List.dropLast_concat_getLast], ?_⟩
      intro he; exact h2 (he ▸ List.getLast_mem h1)
    | cons q qs =>
      obtain ⟨s, x, hs, hx⟩ := ih (by simp) (fun l hm => hl l (by simp [hm]))
      refine ⟨p ++ ['\n'] ++ s, x, ?_, hx⟩
      simp only [join]
      rw [hs]; simp

/-- on a non-empty policy the string adapter stores the same text as the file adapter writes -/
theorem saveString_eq_saveFile (st : Store) (h : policyOK st = true) (hne : saveLines st ≠ []) :
    saveString st = saveFile st := by
  have hok := savePairs_ok st h
  unfold saveString saveFile
  rw [flatMap_nl _ hne, rstripChar_snoc_eq]
  obtain ⟨s, x, hs, hx⟩ := join_last (saveLines st) hne (by
    intro l hl
    rw [saveLines_eq] at hl
    obtain ⟨p, hp, rfl⟩ := List.mem_map.mp hl
    obtain ⟨h1, _, h3⟩ := hok p hp
    exact ⟨by simp [renderLine], render_no_nl _ _ h1 h3⟩)
  rw [hs, rstripChar_snoc_ne _ _ _ hx]

/-- **`text_roundtrip`, string adapter** (after repair F08), for every non-empty admissible policy -/
theorem text_roundtrip_string_partial (st : Store) (h : policyOK st = true) (hne : saveLines st ≠ []) :
    loadString (saveString st) (clearPG st) = (st, none) := by
  have hn : keysNodup st = true := by simp only [policyOK, Bool.and_eq_true] at h; exact h.1
  have hok := savePairs_ok st h
  rw [saveString_eq_saveFile st h hne]
  unfold loadString saveFile
  have htext : (join ['\n'] (saveLines st)).isEmpty = false := by
    obtain ⟨s, x, hs, _⟩ := join_last (saveLines st) hne (by
      intro l hl
      rw [saveLines_eq] at hl
      obtain ⟨p, hp, rfl⟩ := List.mem_map.mp hl
      obtain ⟨h1, _, h3⟩ := hok p hp
      exact ⟨by simp [renderLine], render_no_nl _ _ h1 h3⟩)
    rw [hs]; simp
  simp only [htext, Bool.false_eq_true, ↓reduceIte]
  rw [splitOn_join _ hne]
  · rw [saveLines_eq]
    rw [loadLines_saved id _ (fun l m hl => by simp [hl]) line_roundtrip _ hok,
      extend_clearPG_savePairs st hn]
  · intro l hl
    rw [saveLines_eq] at hl
    obtain ⟨p, hp, rfl⟩ := List.mem_map.mp hl
    obtain ⟨h1, _, h3⟩ := hok p hp
    exact render_no_nl _ _ h1 h3

/-- open finding F08b: the empty policy does not come back through a string — `save_policy` stores `""`, which
    `load_policy` rejects -/
theorem text_roundtrip_string_empty (st : Store) (hemp : saveLines st = []) :
    loadString (saveString st) (clearPG st) = (clearPG st, some .invalidLine) := by
  unfold loadString saveString
  rw [hemp]
  simp [rstripChar]

/-! ## `load_spec`: the loader against the declarative reading of a policy text -/

/-- the scanner computes the declarative top-level comma split (characters annotated with their bracket depth, cut
    at the commas of depth 0), for every line that never closes a bracket it did not open -/
theorem scan_eq_spec (l : Str) (d : Nat) (h : neverNegative d l = true) :
    ∃ t ts, scan d l = .ok (t, ts) ∧ splitTop (annotate d l) = t :: ts := by
  induction l generalizing d with
  | nil => exact ⟨[], [], rfl, rfl⟩
  | cons c s ih =>
    unfold neverNegative at h
    unfold scan annotate splitTop
    by_cases ho : isOpen c = true
    · simp only [ho, ↓reduceIte] at h ⊢
      obtain ⟨t, ts, h1, h2⟩ := ih _ h
      have hc : (c == ',') = false := by
        cases hcc : (c == ',') with
        | false => rfl
        | true => simp only [beq_iff_eq] at hcc; subst hcc; revert ho; decide
      refine ⟨c :: t, ts, by simp [h1, onTok], ?_⟩
      simp [hc, h2]
    · simp only [ho, Bool.false_eq_true, ↓reduceIte] at h ⊢
      by_cases hcl : isClose c = true
      · simp only [hcl, ↓reduceIte] at h ⊢
        cases d with
        | zero => simp at h
        | succ d' =>
          simp only at h
          obtain ⟨t, ts, h1, h2⟩ := ih _ h
          have hc : (c == ',') = false := by
            cases hcc : (c == ',') with
            | false => rfl
            | true => simp only [beq_iff_eq] at hcc; subst hcc; revert hcl; decide
          refine ⟨c :: t, ts, by simp [h1, onTok], ?_⟩
          simp only [Nat.add_sub_cancel, hc, Bool.false_and, Bool.false_eq_true, ↓reduceIte, h2]
      · simp only [hcl, Bool.false_eq_true, ↓reduceIte] at h ⊢
        obtain ⟨t, ts, h1, h2⟩ := ih _ h
        by_cases hk : (c == ',' && d == 0) = true
        · exact ⟨[], t :: ts, by simp [hk, h1, newTok], by simp [hk, h2]⟩
        · exact ⟨c :: t, ts, by simp [hk, h1, onTok], by simp [hk, h2]⟩

/-- **the tokenizer is the declarative split**: on every line of the grammar `type, field, …` (`lineWF`)
    `load_policy_line` skips exactly the empty and the comment lines and otherwise yields the trimmed top-level
    comma split, first field = policy type -/
theorem parseLine_eq_spec (l : Str) (h : lineWF l = true) : parseLine l = .ok (specLine l) := by
  cases l with
  | nil => rfl
  | cons c s =>
    unfold lineWF at h
    by_cases hh : c = '#'
    · subst hh; simp [parseLine, specLine]
    · have hh' : (c == '#') = false := by simpa using hh
      simp only [hh', Bool.false_or, Bool.and_eq_true, bne_iff_ne, ne_eq, Bool.not_eq_true'] at h
      obtain ⟨⟨⟨⟨hcm, ho⟩, hcl⟩, hnn⟩, hkey⟩ := h
      have hcm' : (c == ',') = false := by simpa using hcm
      obtain ⟨t, ts, h1, h2⟩ := scan_eq_spec (c :: s) 0 hnn
      -- the first character is an ordinary one: the scan of the line is that of its tail with `c` in front
      have hscan : scan 0 (c :: s) = onTok (c :: ·) (scan 0 s) := by
        conv => lhs; unfold scan
        simp [ho, hcl, hcm']
      have htoks : tokLoop (c :: s) 0 [] = .ok (t :: ts) := by
        rw [tokLoop_eq_scan]
        simp only [ho, hcl, Bool.or_self, Bool.false_eq_true, ↓reduceIte, hcm']
        rw [hscan] at h1
        cases hs : scan 0 s with
        | error e => rw [hs] at h1; simp [onTok] at h1
        | ok r =>
          obtain ⟨t', ts'⟩ := r
          rw [hs] at h1
          simp only [onTok, Except.ok.injEq, Prod.mk.injEq] at h1
          obtain ⟨rfl, rfl⟩ := h1
          rfl
      have hspec : specFields (c :: s) = (t :: ts).map strip := by unfold specFields; rw [h2]
      unfold parseLine specLine
      have h3 : ([c] == ['#']) = false := by simp [hh]
      simp only [List.isEmpty_cons, Bool.false_eq_true, ↓reduceIte, List.take_succ_cons, List.take_zero, h3, htoks,
        List.head?_cons, Bool.false_or]
      have h4 : (some c == some '#') = false := by simp [hh]
      simp only [h4, Bool.false_eq_true, ↓reduceIte]
      rw [hspec] at hkey ⊢
      simp only [List.map_cons] at hkey ⊢
      cases hk : strip t with
      | nil => simp [hk] at hkey
      | cons a b => rfl

/-- loading lines through `load_policy_line` (after `pre`), when no line raises: every policy type is extended by
    the rules the lines hold for it, in order -/
theorem loadLines_full (pre : Str → Str) (ls : List Str) (hok : ∀ l ∈ ls, ∀ e, parseLine (pre l) ≠ .error e)
    (m : Store) :
    loadLines (fun l m => loadPolicyLine (pre l) m) ls m = (extend m (parsedPairs (ls.map pre)), none) := by
  rw [loadLines_described _ (fun l => parsed (pre l)) _ ?_ m, appendAll_eq_extend]
  · congr 2
    simp [parsedPairs, List.filterMap_map, Function.comp_def]
  · intro l hl m
    have hne := hok l hl
    unfold parsed
    cases hp : parseLine (pre l) with
    | error e => exact absurd hp (hne e)
    | ok o =>
      cases o with
      | none => simp [applyOpt, loadPolicyLine_none _ m hp]
      | some kr => obtain ⟨k, r⟩ := kr; simp [applyOpt, loadPolicyLine_some _ m k r hp]

theorem rulesOf_parsedPairs (key : Str) (ls : List Str) (h : ∀ l ∈ ls, lineWF l = true) :
    rulesOf (parsedPairs ls) key = rulesFor key ls := by
  induction ls with
  | nil => rfl
  | cons l ls ih =>
    have hl := parseLine_eq_spec l (h l (by simp))
    have ih' := ih (fun x hx => h x (by simp [hx]))
    have hparsed : parsed l = specLine l := by
      unfold parsed; rw [hl]; cases specLine l <;> rfl
    unfold parsedPairs rulesFor at ih' ⊢
    rw [List.filterMap_cons, List.filterMap_cons, hparsed]
    cases hs : specLine l with
    | none => simpa using ih'
    | some kr =>
      obtain ⟨k, r⟩ := kr
      simp only
      rw [rulesOf_cons]
      by_cases hk : (k == key) = true
      · simp only [hk, ↓reduceIte]; rw [ih']
      · simp only [hk, Bool.false_eq_true, ↓reduceIte]; rw [ih']

/-- **`load_spec`, file adapter and async file adapter.**  For every text whose (stripped) lines are inside the line
    grammar, loading yields exactly: every policy type the model defines extended, in text order, by the fields of the
    non-empty non-comment lines whose first field names it; lines naming another type change nothing. -/
theorem load_spec (text : Str) (m : Store) (h : ∀ l ∈ textLines true text, lineWF l = true) :
    loadFile text m =
      (m.map fun e => { e with rules := e.rules ++ rulesFor e.key (textLines true text) }, none) := by
  have hlines : textLines true text = (splitOn '\n' text).map strip := by simp [textLines]
  unfold loadFile
  rw [loadLines_full strip _ ?_ m]
  · rw [← hlines]
    unfold extend
    congr 1
    apply List.map_congr_left
    intro e _
    rw [rulesOf_parsedPairs e.key _ h]
  · intro l hl e he
    have := parseLine_eq_spec (strip l) (h _ (by rw [hlines]; exact List.mem_map_of_mem hl))
    rw [this] at he; exact absurd he (by simp)

/-- **`load_spec`, string adapter** (lines are not stripped; the empty text is rejected) -/
theorem load_spec_string (text : Str) (m : Store) (hne : text ≠ [])
    (h : ∀ l ∈ textLines false text, lineWF l = true) :
    loadString text m =
      (m.map fun e => { e with rules := e.rules ++ rulesFor e.key (textLines false text) }, none) := by
  have hlines : textLines false text = (splitOn '\n' text).map id := by simp [textLines]
  have hfun : (fun (l : Str) (st : Store) => if l.isEmpty then Except.ok st else loadPolicyLine l st) =
      fun l st => loadPolicyLine (id l) st := by
    funext l st
    cases l with
    | nil => simp [loadPolicyLine, parseLine]
    | cons c l => simp
  unfold loadString
  have : text.isEmpty = false := by cases text with | nil => exact absurd rfl hne | cons _ _ => rfl
  simp only [this, Bool.false_eq_true, ↓reduceIte]
  rw [hfun, loadLines_full id _ ?_ m]
  · rw [← hlines]
    unfold extend
    congr 1
    apply List.map_congr_left
    intro e _
    rw [rulesOf_parsedPairs e.key _ h]
  · intro l hl e he
    have := parseLine_eq_spec l (h _ (by rw [hlines]; simpa using hl))
    simp only [id_eq] at he
    rw [this] at he; exact absurd he (by simp)

/-- Boolean form of `parseLine l = .ok (some kr)` (for `decide`) -/
def parsesTo (l : Str) (kr : Str × Rule) : Bool :=
  match parseLine l with
  | .ok (some x) => x == kr
  | _ => false

theorem parsesTo_iff (l : Str) (kr : Str × Rule) : parsesTo l kr = true ↔ parseLine l = .ok (some kr) := by
  unfold parsesTo
  split
  · rename_i x h; simp [h]
  · rename_i h
    constructor
    · intro h'; exact absurd h' (by simp)
    · intro h'; exact absurd h' (h kr)

def parseFails (l : Str) (e : Err) : Bool :=
  match parseLine l with
  | .error x => x == e
  | _ => false

/-! ## non-vacuity: concrete instances meeting the hypotheses -/

def exRule : Rule := ["alice".toList, "f(a, [b, c])".toList, [], "a b#é".toList]

example : keyOK "p2".toList = true ∧ ruleOK exRule = true := by decide

example : parseLine (renderLine "p2".toList exRule) = .ok (some ("p2".toList, exRule)) :=
  line_roundtrip _ _ (by decide) (by decide) (by decide)

def exPolicy : Store :=
  [{ key := ['r'], arity := 3, rules := [] },
   { key := ['p'], arity := 3, rules := [exRule, ["bob".toList]] },
   { key := "p2".toList, arity := 2, rules := [[[]]] },
   { key := ['g'], arity := 2, rules := [["alice".toList, "admin".toList]] }]

example : policyOK exPolicy = true ∧ saveLines exPolicy ≠ [] := by decide

example : loadFile (saveFile exPolicy) (clearPG exPolicy) = (exPolicy, none) :=
  text_roundtrip_file exPolicy (by decide)

def exText : Str := "p, alice, f(a, b), read\n# note\n\n  p2 , x\ng, alice, admin\nzz, ignored".toList

example : (textLines true exText).all lineWF = true := by decide

/-- the excluded points are really excluded by the code: a rule without fields comes back as `[""]`, a field with
    a top-level comma comes back as two -/
example : parsesTo (renderLine ['p'] []) (['p'], [[]]) = true := by decide
example : parsesTo (renderLine ['p'] ["a,b".toList]) (['p'], [['a'], ['b']]) = true := by decide
example : parseFails (renderLine ['p'] ["a)".toList]) .indexError = true := by decide

end Casbin.C10
