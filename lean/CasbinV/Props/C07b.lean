import CasbinV.Model.Policy
/-!
# C07 (second half) — subject priority: rules of a subject are consulted before rules of the roles it inherits from

Subject: `hierarchyLoop` / `hierarchyMap` (`Model.get_subject_hierarchy_map`) and `sortByKey`
(`sorted(policy, key=level of the rule's subject)`).
-/
namespace Casbin.Policy.C07b
open Casbin.Policy

/-- the loop invariant, relative to the full list of assignments `E` and all subjects `U` -/
structure HInv (E : List HEdge) (U : List String) (up : List HEdge) (us : List String) (k : Nat)
    (acc : List (String × Nat)) : Prop where
  /-- every assignment is still pending or its child already has a level -/
  edge : ∀ c p, (c, p) ∈ E → (c, p) ∈ up ∨ ∃ l, (c, l) ∈ acc
  /-- assigned levels are below the current round -/
  below : ∀ x l, (x, l) ∈ acc → l < k
  /-- a parent gets its level only after all its children: they sit strictly lower -/
  parent : ∀ c p, (c, p) ∈ E → ∀ l, (p, l) ∈ acc → ∃ l', l' < l ∧ (c, l') ∈ acc
  /-- every subject is assigned or still unsorted, never both; each at most once -/
  cover : ∀ x, x ∈ U → x ∈ us ∨ ∃ l, (x, l) ∈ acc
  disjoint : ∀ x l, (x, l) ∈ acc → x ∉ us
  unique : ∀ x l l', (x, l) ∈ acc → (x, l') ∈ acc → l = l'
  pending : ∀ c p, (c, p) ∈ up → (c, p) ∈ E

theorem hinv_init (E : List HEdge) (U : List String) : HInv E U E U 0 [] :=
  ⟨fun c p h => Or.inl h, by simp, by simp, fun x h => Or.inl h, by simp, by simp, fun c p h => h⟩

theorem mem_peelRound (up : List HEdge) (us : List String) (s : String) :
    s ∈ peelRound up us ↔ s ∈ us ∧ ∀ c, (c, s) ∉ up := by
  unfold peelRound
  simp only [List.mem_filter, Bool.not_eq_true', List.contains_eq_mem, decide_eq_false_iff_not, List.mem_map,
    not_exists, not_and]
  constructor
  · rintro ⟨h1, h2⟩
    exact ⟨h1, fun c hc => h2 (c, s) hc rfl⟩
  · rintro ⟨h1, h2⟩
    exact ⟨h1, fun e he hs => by cases e; simp at hs; subst hs; exact h2 _ he⟩

theorem hinv_step (E : List HEdge) (U : List String) (up : List HEdge) (us : List String) (k : Nat)
    (acc : List (String × Nat)) (h : HInv E U up us k acc) :
    HInv E U (up.filter fun x => !(peelRound up us).contains x.1) (us.filter fun s => !(peelRound up us).contains s)
      (k + 1) (acc ++ (peelRound up us).map (·, k)) := by
  have hmem : ∀ x l, (x, l) ∈ acc ++ (peelRound up us).map (·, k) ↔ (x, l) ∈ acc ∨ (x ∈ peelRound up us ∧ l = k) := by
    intro x l
    simp only [List.mem_append, List.mem_map, Prod.mk.injEq]
    constructor
    · rintro (h | ⟨a, ha, rfl, rfl⟩)
      · exact Or.inl h
      · exact Or.inr ⟨ha, rfl⟩
    · rintro (h | ⟨h1, rfl⟩)
      · exact Or.inl h
      · exact Or.inr ⟨x, h1, rfl, rfl⟩
  refine ⟨?_, ?_, ?_, ?_, ?_, ?_, ?_⟩
  · intro c p hE
    rcases h.edge c p hE with hup | ⟨l, hl⟩
    · by_cases hc : c ∈ peelRound up us
      · exact Or.inr ⟨k, (hmem c k).mpr (Or.inr ⟨hc, rfl⟩)⟩
      · exact Or.inl (List.mem_filter.mpr ⟨hup, by simpa using hc⟩)
    · exact Or.inr ⟨l, (hmem c l).mpr (Or.inl hl)⟩
  · intro x l hx
    rcases (hmem x l).mp hx with h1 | ⟨_, rfl⟩
    · have := h.below x l h1; omega
    · omega
  · intro c p hE l hp
    rcases (hmem p l).mp hp with h1 | ⟨hps, rfl⟩
    · obtain ⟨l', hl', hc⟩ := h.parent c p hE l h1
      exact ⟨l', hl', (hmem c l').mpr (Or.inl hc)⟩
    · -- p is peeled now: no pending assignment has it as parent, so c was assigned in an earlier round
      have hnp := ((mem_peelRound up us p).mp hps).2 c
      rcases h.edge c p hE with hup | ⟨l', hl'⟩
      · exact absurd hup hnp
      · exact ⟨l', h.below c l' hl', (hmem c l').mpr (Or.inl hl')⟩
  · intro x hx
    rcases h.cover x hx with hus | ⟨l, hl⟩
    · by_cases hs : x ∈ peelRound up us
      · exact Or.inr ⟨k, (hmem x k).mpr (Or.inr ⟨hs, rfl⟩)⟩
      · exact Or.inl (List.mem_filter.mpr ⟨hus, by simpa using hs⟩)
    · exact Or.inr ⟨l, (hmem x l).mpr (Or.inl hl)⟩
  · intro x l hx hin
    have hin' := List.mem_filter.mp hin
    rcases (hmem x l).mp hx with h1 | ⟨hs, _⟩
    · exact h.disjoint x l h1 hin'.1
    · have := hin'.2; simp at this; exact this hs
  · intro x l l' h1 h2
    rcases (hmem x l).mp h1 with a | ⟨a, rfl⟩ <;> rcases (hmem x l').mp h2 with b | ⟨b, rfl⟩
    · exact h.unique x l l' a b
    · exact absurd ((mem_peelRound up us x).mp b).1 (h.disjoint x l a)
    · exact absurd ((mem_peelRound up us x).mp a).1 (h.disjoint x l' b)
    · rfl
  · intro c p hcp
    exact h.pending c p (List.mem_filter.mp hcp).1

theorem hinv_loop (E : List HEdge) (U : List String) (fuel : Nat) (up : List HEdge) (us : List String) (k : Nat)
    (acc m : List (String × Nat)) (h : HInv E U up us k acc) (hm : hierarchyLoop fuel up us k acc = .ok m) :
    ∃ us' k' acc', HInv E U [] us' k' acc' ∧ m = acc' ++ us'.map (·, k') := by
  induction fuel generalizing up us k acc with
  | zero =>
    cases up with
    | nil => simp [hierarchyLoop] at hm; exact ⟨us, k, acc, h, hm.symm⟩
    | cons e up => simp [hierarchyLoop] at hm
  | succ f ih =>
    cases up with
    | nil => simp [hierarchyLoop] at hm; exact ⟨us, k, acc, h, hm.symm⟩
    | cons e up =>
      simp only [hierarchyLoop] at hm
      split at hm
      · cases hm
      · exact ih _ _ _ _ (hinv_step E U (e :: up) us k acc h) hm

/-- level of a subject in the finished map, as `dict.get` reads it -/
theorem lookup_of_unique (m : List (String × Nat)) (x : String) (l : Nat) (hx : (x, l) ∈ m)
    (hu : ∀ l', (x, l') ∈ m → l' = l) : m.lookup x = some l := by
  induction m with
  | nil => simp at hx
  | cons a as ih =>
    obtain ⟨y, ly⟩ := a
    by_cases hy : x = y
    · subst hy
      have := hu ly (by simp)
      simp [List.lookup, this]
    · have hne : (x == y) = false := by simpa using hy
      simp only [List.lookup, hne]
      apply ih
      · rcases List.mem_cons.mp hx with h | h
        · cases h; exact absurd rfl hy
        · exact h
      · intro l' hl'; exact hu l' (by simp [hl'])

/-- **Hierarchy levels.** Whenever `get_subject_hierarchy_map` returns, every subject sits strictly below every
    role it is assigned to (so, transitively, below everything it inherits from). -/
theorem hierarchy_levels (E : List HEdge) (m : List (String × Nat)) (hm : hierarchyMap E = .ok m) :
    ∀ c p, (c, p) ∈ E → levelOf m c < levelOf m p := by
  unfold hierarchyMap at hm
  obtain ⟨us', k', acc', hinv, rfl⟩ := hinv_loop E (subjectsOf E) _ E (subjectsOf E) 0 [] _ (hinv_init E _) hm
  intro c p hE
  -- membership and uniqueness in the final map
  have hmem : ∀ x l, (x, l) ∈ acc' ++ us'.map (·, k') ↔ (x, l) ∈ acc' ∨ (x ∈ us' ∧ l = k') := by
    intro x l
    simp only [List.mem_append, List.mem_map, Prod.mk.injEq]
    constructor
    · rintro (h | ⟨a, ha, rfl, rfl⟩)
      · exact Or.inl h
      · exact Or.inr ⟨ha, rfl⟩
    · rintro (h | ⟨h1, rfl⟩)
      · exact Or.inl h
      · exact Or.inr ⟨x, h1, rfl, rfl⟩
  have huniq : ∀ x l l', (x, l) ∈ acc' ++ us'.map (·, k') → (x, l') ∈ acc' ++ us'.map (·, k') → l' = l := by
    intro x l l' h1 h2
    rcases (hmem x l).mp h1 with a | ⟨a, rfl⟩ <;> rcases (hmem x l').mp h2 with b | ⟨b, rfl⟩
    · exact hinv.unique x l' l b a
    · exact absurd b (hinv.disjoint x l a)
    · exact absurd a (hinv.disjoint x l' b)
    · rfl
  -- the child has a level in acc'
  have hc : ∃ lc, (c, lc) ∈ acc' := by
    rcases hinv.edge c p hE with h | h
    · simp at h
    · exact h
  obtain ⟨lc, hlc⟩ := hc
  have hcl : levelOf (acc' ++ us'.map (·, k')) c = lc := by
    unfold levelOf
    rw [lookup_of_unique _ c lc ((hmem c lc).mpr (Or.inl hlc)) (fun l' h => huniq c lc l' ((hmem c lc).mpr (Or.inl hlc)) h)]
    rfl
  -- the parent is a subject: assigned (strictly above its child) or in the last level
  have hpU : p ∈ subjectsOf E := by
    unfold subjectsOf
    rw [List.mem_eraseDups]
    exact List.mem_flatMap.mpr ⟨(c, p), hE, by simp⟩
  rcases hinv.cover p hpU with hus | ⟨lp, hlp⟩
  · have hpl : levelOf (acc' ++ us'.map (·, k')) p = k' := by
      unfold levelOf
      rw [lookup_of_unique _ p k' ((hmem p k').mpr (Or.inr ⟨hus, rfl⟩))
        (fun l' h => huniq p k' l' ((hmem p k').mpr (Or.inr ⟨hus, rfl⟩)) h)]
      rfl
    rw [hcl, hpl]; exact hinv.below c lc hlc
  · have hpl : levelOf (acc' ++ us'.map (·, k')) p = lp := by
      unfold levelOf
      rw [lookup_of_unique _ p lp ((hmem p lp).mpr (Or.inl hlp)) (fun l' h => huniq p lp l' ((hmem p lp).mpr (Or.inl hlp)) h)]
      rfl
    obtain ⟨l', hl', hcl'⟩ := hinv.parent c p hE lp hlp
    have : l' = lc := hinv.unique c l' lc hcl' hlc
    rw [hcl, hpl]; omega

/-- `c → x₁ → … → xₙ → a` along the assignments -/
def ChainTo (E : List HEdge) : String → List String → String → Prop
  | c, [], a => (c, a) ∈ E
  | c, x :: xs, a => (c, x) ∈ E ∧ ChainTo E x xs a

/-- along any chain of assignments the level strictly increases -/
theorem level_lt_of_chain (E : List HEdge) (m : List (String × Nat)) (hm : hierarchyMap E = .ok m)
    (chain : List String) (c a : String) (hchain : ChainTo E c chain a) : levelOf m c < levelOf m a := by
  induction chain generalizing c with
  | nil => exact hierarchy_levels E m hm c a hchain
  | cons x xs ih =>
    have h1 := hierarchy_levels E m hm c x hchain.1
    have h2 := ih x hchain.2
    omega

/-! ## the sort -/

theorem insertByKey_perm (key : Rule → Nat) (r : Rule) (l : List Rule) : (insertByKey key r l).Perm (r :: l) := by
  induction l with
  | nil => simp [insertByKey]
  | cons x xs ih =>
    unfold insertByKey
    split
    · exact (List.Perm.cons x ih).trans (List.Perm.swap r x xs)
    · exact List.Perm.refl _

theorem insertByKey_sorted (key : Rule → Nat) (r : Rule) (l : List Rule)
    (hs : l.Pairwise (fun a b => key a ≤ key b)) : (insertByKey key r l).Pairwise (fun a b => key a ≤ key b) := by
  induction l with
  | nil => simp [insertByKey]
  | cons x xs ih =>
    have hx := List.pairwise_cons.mp hs
    unfold insertByKey
    split
    · rename_i hle
      refine List.pairwise_cons.mpr ⟨?_, ih hx.2⟩
      intro y hy
      rcases List.mem_cons.mp ((insertByKey_perm key r xs).mem_iff.mp hy) with rfl | h
      · exact hle
      · exact hx.1 y h
    · rename_i hgt
      refine List.pairwise_cons.mpr ⟨?_, hs⟩
      intro y hy
      rcases List.mem_cons.mp hy with rfl | h
      · omega
      · have := hx.1 y h; omega

theorem sortByKey_spec (key : Rule → Nat) (l : List Rule) :
    (sortByKey key l).Pairwise (fun a b => key a ≤ key b) ∧ (sortByKey key l).Perm l := by
  unfold sortByKey
  suffices h : ∀ acc : List Rule, acc.Pairwise (fun a b => key a ≤ key b) →
      (l.foldl (fun acc r => insertByKey key r acc) acc).Pairwise (fun a b => key a ≤ key b) ∧
      (l.foldl (fun acc r => insertByKey key r acc) acc).Perm (acc ++ l) by
    simpa using h [] List.Pairwise.nil
  induction l with
  | nil => intro acc hs; simpa using hs
  | cons r rs ih =>
    intro acc hs
    obtain ⟨h1, h2⟩ := ih (insertByKey key r acc) (insertByKey_sorted key r acc hs)
    refine ⟨h1, h2.trans ?_⟩
    exact (List.Perm.append_right rs (insertByKey_perm key r acc)).trans List.perm_middle.symm

/-- **Subject before ancestors.** In the sorted policy a rule whose subject sits on a strictly lower level is never
    behind a rule whose subject sits higher: with `hierarchy_levels` / `level_lt_of_chain`, the rules given to a
    subject come before the rules given to any role it inherits from — so, under the priority effect (C01: the first
    definite match decides), the more specific subject wins. -/
theorem lower_level_first (key : Rule → Nat) (l : List Rule) (pre mid post : List Rule) (r1 r2 : Rule)
    (hsplit : sortByKey key l = pre ++ (r2 :: (mid ++ (r1 :: post)))) : key r2 ≤ key r1 := by
  have hs := (sortByKey_spec key l).1
  rw [hsplit] at hs
  have := (List.pairwise_append.mp hs).2.1
  have h2 := (List.pairwise_cons.mp this).1
  exact h2 r1 (List.mem_append_right _ (List.mem_cons_self ..))

/-! ## Non-vacuity -/

example : hierarchyMap [("::alice", "::admin"), ("::admin", "::root"), ("::bob", "::admin")] =
    .ok [("::alice", 0), ("::bob", 0), ("::admin", 1), ("::root", 2)] := by decide

example : hierarchyMap [("::a", "::b"), ("::b", "::a")] = .error .cycle := by decide

example : sortBySubjectHierarchy none [["alice", "admin"], ["admin", "root"]]
    [["root", "data1", "read", "deny"], ["alice", "data1", "read", "allow"], ["admin", "data1", "read", "deny"]] =
    .ok [["alice", "data1", "read", "allow"], ["admin", "data1", "read", "deny"], ["root", "data1", "read", "deny"]] := by
  decide

end Casbin.Policy.C07b
