import CasbinV.Model.Enforcer
import CasbinV.Props.C06
/-!
# C09 — with auto-save the adapter's store mirrors the in-memory policy

Subject: the adapter traffic of `Casbin.Enf.step` against a *faithful* adapter (`applyACall`): ordered rule sets per
section that apply exactly the call they are given.
-/
namespace Casbin.Enf.C09
open Casbin Casbin.Enf Casbin.Policy Casbin.Policy.C06

/-- the adapter holds exactly the in-memory policy (same rules, same order, every section) -/
def Mirror (s : St) : Prop := s.store = s.pol

/-- every section of the in-memory policy is duplicate-free (C06's invariant) -/
def NodupPol (m : Pol) : Prop := m.p.Nodup ∧ m.g.Nodup ∧ m.g2.Nodup

theorem NodupPol.get {m : Pol} (h : NodupPol m) (sec : Sec) : (m.get sec).Nodup := by
  cases sec
  · exact h.1
  · exact h.2.1
  · exact h.2.2

theorem persist_store (cfg : Cfg) (s : St) (c : ACall) (w : Option WCall) :
    (persist cfg s c w).store = (if cfg.hasAdapter && s.autoSave then applyACall s.store s.pol c else s.store) ∧
    (persist cfg s c w).alog = (if cfg.hasAdapter && s.autoSave then s.alog ++ [c] else s.alog) ∧
    (persist cfg s c w).pol = s.pol := by
  unfold persist
  cases cfg.hasAdapter <;> cases s.autoSave <;> cases cfg.hasWatcher <;> cases s.autoNotify <;> simp

theorem relink_store (cfg : Cfg) (s s2 : St) (sec : Sec) (add : Bool) (rules : List Rule)
    (h : relink cfg s sec add rules = .ok s2) : s2.store = s.store ∧ s2.alog = s.alog ∧ s2.pol = s.pol := by
  unfold relink at h
  split at h
  · cases h; exact ⟨rfl, rfl, rfl⟩
  · split at h
    · cases h
    · cases h; exact ⟨rfl, rfl, rfl⟩

theorem finish_store (cfg : Cfg) (s1 : St) (sec : Sec) (add : Bool) (rules : List Rule) (ret : Ret) :
    (finish cfg s1 sec add rules ret).1.store = s1.store ∧ (finish cfg s1 sec add rules ret).1.alog = s1.alog ∧
    (finish cfg s1 sec add rules ret).1.pol = s1.pol := by
  unfold finish
  cases hrl : relink cfg s1 sec add rules with
  | error e => exact ⟨rfl, rfl, rfl⟩
  | ok s2 => exact relink_store cfg s1 s2 sec add rules hrl

theorem set_set (m : Pol) (sec : Sec) (a : List Rule) : ∀ b, (m.set sec a = m.set sec b ↔ a = b) := by
  intro b; cases sec <;> simp [Pol.set]

/-! ### the faithful adapter's view of each call equals the in-memory effect -/

theorem foldl_add_eq (rs l : List Rule) :
    rs.foldl (fun acc r => (Policy.add none acc r).1) l = rs.foldl (fun acc r => (Spec.add acc r).1) l := by
  congr 1; funext acc r; rw [add_refines]

theorem foldl_erase_eq_filter (rs l : List Rule) (hd : l.Nodup) :
    rs.foldl (fun acc r => if acc.contains r then acc.erase r else acc) l = l.filter (fun x => !rs.contains x) := by
  induction rs generalizing l with
  | nil => simp only [List.foldl_nil]; symm; apply List.filter_eq_self.mpr; intro x _; rfl
  | cons r rs ih =>
    simp only [List.foldl_cons]
    have h1 := eraseIfPresent_eq l r
    unfold eraseIfPresent at h1
    rw [h1, ih _ (hd.erase r), List.Nodup.erase_eq_filter hd r, List.filter_filter]
    apply List.filter_congr
    intro x _
    by_cases hx : x = r
    · subst hx; simp
    · have : (x != r) = true := by simpa using hx
      have h2 : (x == r) = false := by simpa using hx
      simp [this, List.contains_cons, h2, hx]

/-- whenever `matchesFrom` answers (does not raise) it answers what the specification says -/
theorem matchesFrom_ok (r : Rule) (idx : Nat) (vals : List String) (b : Bool)
    (h : matchesFrom r idx vals = .ok b) : b = Spec.matchesFilter idx vals r := by
  induction vals generalizing idx with
  | nil => simp [matchesFrom] at h; simp [Spec.matchesFilter, h]
  | cons v vs ih =>
    have hz : Spec.matchesFilter idx (v :: vs) r =
        ((v == "" || r[idx]? == some v) && Spec.matchesFilter (idx + 1) vs r) := by
      simp only [Spec.matchesFilter, List.zipIdx_cons, List.all_cons, Nat.add_zero]
      congr 1
      rw [show (1 : Nat) = 0 + 1 from rfl, List.zipIdx_succ]
      simp [List.all_map, Function.comp_def, Nat.add_assoc, Nat.add_comm 1]
    rw [hz]
    unfold matchesFrom at h
    by_cases hv : v = ""
    · simp [hv] at h ⊢; exact ih _ h
    · simp only [beq_iff_eq, hv, ↓reduceIte] at h
      cases hx : r[idx]? with
      | none => simp [hx] at h
      | some x =>
        simp only [hx] at h
        by_cases hxv : x = v
        · simp [hxv] at h; simp [hv, hxv]; exact ih _ h
        · simp [hxv] at h; simp [hv, hxv, h]

theorem partitionFiltered_ok (idx : Nat) (vals : List String) (l yes no : List Rule)
    (h : partitionFiltered idx vals l = .ok (yes, no)) :
    yes = l.filter (Spec.matchesFilter idx vals) ∧ no = l.filter (fun r => !Spec.matchesFilter idx vals r) := by
  induction l generalizing yes no with
  | nil => simp [partitionFiltered] at h; obtain ⟨rfl, rfl⟩ := h; simp
  | cons r rs ih =>
    unfold partitionFiltered at h
    split at h
    · cases h
    · rename_i b hb
      have hbs := matchesFrom_ok r idx vals b hb
      split at h
      · cases h
      · rename_i y n hp
        obtain ⟨h1, h2⟩ := ih y n hp
        split at h <;> cases h <;> simp_all [List.filter]

theorem set_get_self (m : Pol) (sec : Sec) : m.set sec (m.get sec) = m := by
  cases sec <;> cases m <;> rfl

theorem mirror_rfGrouping (cfg : Cfg) (s : St) (sec : Sec) (idx : Nat) (vals : List String)
    (had : cfg.hasAdapter = true) (hsave : s.autoSave = true) (hm : s.store = s.pol) (hd : NodupPol s.pol) :
    (match Policy.removeFilteredReturnsEffects (s.pol.get sec) idx vals with
      | .error e => (s, (Except.error (ofPErr e) : Except EErr Ret))
      | .ok (l, eff) =>
        if eff.isEmpty then ({ s with pol := s.pol.set sec l }, .ok (.rules []))
        else
          finish cfg (persist cfg { s with pol := s.pol.set sec l } (.removeFiltered sec idx vals)
            (exOnly cfg (.forRemoveFiltered sec idx vals))) sec false eff (.rules eff)).1.store =
    (match Policy.removeFilteredReturnsEffects (s.pol.get sec) idx vals with
      | .error e => (s, (Except.error (ofPErr e) : Except EErr Ret))
      | .ok (l, eff) =>
        if eff.isEmpty then ({ s with pol := s.pol.set sec l }, .ok (.rules []))
        else
          finish cfg (persist cfg { s with pol := s.pol.set sec l } (.removeFiltered sec idx vals)
            (exOnly cfg (.forRemoveFiltered sec idx vals))) sec false eff (.rules eff)).1.pol := by
  cases hrf : Policy.removeFilteredReturnsEffects (s.pol.get sec) idx vals with
  | error e => simpa using hm
  | ok res =>
    obtain ⟨l, eff⟩ := res
    simp only []
    cases eff with
    | nil =>
      simp only [List.isEmpty_nil, ↓reduceIte]
      have hno : l = s.pol.get sec := by
        unfold Policy.removeFilteredReturnsEffects at hrf
        · cases hpf : partitionFiltered idx vals (s.pol.get sec) with
          | error e => simp [hpf, Except.map] at hrf
          | ok pr =>
            obtain ⟨yes, no⟩ := pr
            simp [hpf, Except.map] at hrf
            obtain ⟨hno', hy⟩ := hrf
            subst hy
            obtain ⟨h1, h2⟩ := partitionFiltered_ok idx vals _ [] no hpf
            rw [← hno', h2]; apply List.filter_eq_self.mpr
            intro x hx
            have := List.filter_eq_nil_iff.mp h1.symm x hx
            simpa using this
      rw [hno, set_get_self]; exact hm
    | cons e es =>
      simp only [List.isEmpty_cons, Bool.false_eq_true, ↓reduceIte]
      have hl : l = (s.pol.get sec).filter (fun r => !Spec.matchesFilter idx vals r) := by
        unfold Policy.removeFilteredReturnsEffects at hrf
        · cases hpf : partitionFiltered idx vals (s.pol.get sec) with
          | error e => simp [hpf, Except.map] at hrf
          | ok pr =>
            obtain ⟨yes, no⟩ := pr
            simp [hpf, Except.map] at hrf
            obtain ⟨rfl, _⟩ := hrf
            exact (partitionFiltered_ok idx vals _ yes no hpf).2
      have hfs := finish_store cfg (persist cfg { s with pol := s.pol.set sec l } (.removeFiltered sec idx vals)
            (exOnly cfg (.forRemoveFiltered sec idx vals))) sec false (e :: es) (.rules (e :: es))
      rw [hfs.1, hfs.2.2]
      have hps := persist_store cfg { s with pol := s.pol.set sec l } (.removeFiltered sec idx vals)
            (exOnly cfg (.forRemoveFiltered sec idx vals))
      rw [hps.1, hps.2.2]
      simp [had, hsave, applyACall, hm, hl, Spec.removeFiltered]

/-- **Mirror step.** With an adapter and auto-save on, every policy-changing management call (single, batch,
    filtered, update) leaves the faithful adapter holding exactly the in-memory policy — whether the call succeeds,
    is rejected, or raises. -/
theorem mirror_step (cfg : Cfg) (s : St) (op : Op) (had : cfg.hasAdapter = true) (hsave : s.autoSave = true)
    (hm : Mirror s) (hd : NodupPol s.pol)
    (hop : match op with
      | .add .. | .addMany .. | .remove .. | .removeMany .. | .removeFiltered .. | .update .. => True
      | _ => False) :
    Mirror (step cfg s op).1 := by
  unfold Mirror at *
  have hp : ∀ (l : List Rule) sec c w, applyACall s.store (s.pol.set sec l) c = s.pol.set sec l →
      (persist cfg { s with pol := s.pol.set sec l } c w).store = (persist cfg { s with pol := s.pol.set sec l } c w).pol := by
    intro l sec c w h
    have := persist_store cfg { s with pol := s.pol.set sec l } c w
    rw [this.1, this.2.2]; simp [had, hsave, h]
  have hf : ∀ (s1 : St) sec add rules ret, s1.store = s1.pol →
      (finish cfg s1 sec add rules ret).1.store = (finish cfg s1 sec add rules ret).1.pol := by
    intro s1 sec add rules ret h
    have := finish_store cfg s1 sec add rules ret
    rw [this.1, this.2.2]; exact h
  cases op with
  | add sec r =>
    simp only [step]
    cases hadd : Policy.add none (s.pol.get sec) r with
    | mk l ok =>
      cases ok with
      | false => simpa using hm
      | true =>
        simp only [Bool.not_true, Bool.false_eq_true, ↓reduceIte]
        split
        · exact hm
        apply hf; apply hp
        have : l = (Spec.add (s.pol.get sec) r).1 := by rw [← add_refines, hadd]
        simp [applyACall, hm, this]
  | addMany sec rs =>
    simp only [step]
    cases hadd : Policy.addMany none (s.pol.get sec) rs with
    | mk l ok =>
      cases ok with
      | false => simpa using hm
      | true =>
        simp only [Bool.not_true, Bool.false_eq_true, ↓reduceIte]
        split
        · exact hm
        apply hf; apply hp
        have : l = rs.foldl (fun acc r => (Spec.add acc r).1) (s.pol.get sec) := by
          unfold Policy.addMany at hadd
          split at hadd
          · cases hadd
          · cases hadd; exact foldl_add_eq rs _
        simp [applyACall, hm, this]
  | remove sec r =>
    simp only [step]
    cases hrem : Policy.remove (s.pol.get sec) r with
    | mk l ok =>
      cases ok with
      | false => simpa using hm
      | true =>
        simp only [Bool.not_true, Bool.false_eq_true, ↓reduceIte]
        apply hf; apply hp
        have : l = (s.pol.get sec).filter (· != r) := by
          have h1 : l = (Policy.remove (s.pol.get sec) r).1 := by rw [hrem]
          rw [h1, remove_refines _ _ (hd.get sec)]
          unfold Spec.remove; split
          · rfl
          · rename_i hn
            symm; apply List.filter_eq_self.mpr; intro x hx; simp; exact fun e => hn (e ▸ hx)
        simp [applyACall, hm, this]
  | removeMany sec rs =>
    simp only [step]
    cases hrem : Policy.removeMany (s.pol.get sec) rs with
    | mk l ok =>
      cases ok with
      | false => simpa using hm
      | true =>
        simp only [Bool.not_true, Bool.false_eq_true, ↓reduceIte]
        apply hf; apply hp
        have : l = (s.pol.get sec).filter (fun x => !rs.contains x) := by
          unfold Policy.removeMany at hrem
          split at hrem
          · cases hrem; exact foldl_erase_eq_filter rs _ (hd.get sec)
          · cases hrem
        simp [applyACall, hm, this]
  | removeFiltered sec idx vals =>
    cases sec with
    | p =>
      simp only [step]
      cases hrf : Policy.removeFiltered (s.pol.get .p) idx vals with
      | error e => simpa using hm
      | ok res =>
        obtain ⟨l, any⟩ := res
        have hl : l = (s.pol.get .p).filter (fun r => !Spec.matchesFilter idx vals r) := by
          unfold Policy.removeFiltered at hrf
          cases hpf : partitionFiltered idx vals (s.pol.get .p) with
          | error e => simp [hpf, Except.map] at hrf
          | ok pr =>
            obtain ⟨yes, no⟩ := pr
            simp [hpf, Except.map] at hrf
            obtain ⟨rfl, _⟩ := hrf
            exact (partitionFiltered_ok idx vals _ yes no hpf).2
        simp only []
        cases any with
        | false =>
          -- nothing matched: the list is unchanged, the adapter is not told anything
          simp only [Bool.not_false, ↓reduceIte]
          have hpf : partitionFiltered idx vals (s.pol.get .p) = .ok ([], l) := by
            unfold Policy.removeFiltered at hrf
            cases hpf : partitionFiltered idx vals (s.pol.get .p) with
            | error e => simp [hpf, Except.map] at hrf
            | ok pr =>
              obtain ⟨yes, no⟩ := pr
              simp [hpf, Except.map] at hrf
              obtain ⟨rfl, hy⟩ := hrf
              have : yes = [] := by cases yes <;> simp_all
              subst this; rfl
          have hno : l = s.pol.get .p := by
            obtain ⟨h1, h2⟩ := partitionFiltered_ok idx vals _ [] l hpf
            rw [h2]; apply List.filter_eq_self.mpr
            intro x hx
            have := List.filter_eq_nil_iff.mp h1.symm x hx
            simpa using this
          rw [hno]
          have : s.pol.set .p (s.pol.get .p) = s.pol := by cases s.pol; rfl
          simp [this, hm]
        | true =>
          simp only [Bool.not_true, Bool.false_eq_true, ↓reduceIte]
          apply hp
          simp [applyACall, hm, hl, Spec.removeFiltered]
    | g => simp only [step]; exact mirror_rfGrouping cfg s .g idx vals had hsave hm hd
    | g2 => simp only [step]; exact mirror_rfGrouping cfg s .g2 idx vals had hsave hm hd
  | update old new =>
    simp only [step]
    have hu := update_refines s.pol.p old new hd.1
    rw [hu]
    simp only []
    split
    · exact hm
    · rename_i hok
      apply hp
      have hok' : (Spec.update s.pol.p old new).2 = true := by simpa using hok
      have : (Spec.update s.pol.p old new).1 = s.pol.p.map (fun x => if x = old then new else x) := by
        unfold Spec.update at hok' ⊢
        split <;> simp_all
      simp [applyACall, hm, this, Pol.get]
  | updateMany _ _ | clearPolicy | buildRoleLinks | savePolicy | loadPolicy _ | enableAutoSave _
  | enableAutoBuild _ | enableAutoNotify _ => exact hop.elim

/-- a call that reports failure or "no change" has told the adapter nothing -/
theorem failed_call_silent (cfg : Cfg) (s : St) (op : Op)
    (hop : match op with
      | .add .. | .addMany .. | .remove .. | .removeMany .. | .removeFiltered .. | .update .. | .updateMany .. => True
      | _ => False)
    (hfail : (step cfg s op).2 = .ok (.bool false) ∨ (step cfg s op).2 = .ok (.rules [])) :
    (step cfg s op).1.alog = s.alog ∧ (step cfg s op).1.store = s.store := by
  have hfin : ∀ (s1 : St) sec add rules (ret : Ret),
      ((finish cfg s1 sec add rules ret).2 = .ok (.bool false) ∨ (finish cfg s1 sec add rules ret).2 = .ok (.rules [])) →
      ret = .bool false ∨ ret = .rules [] := by
    intro s1 sec add rules ret h
    unfold finish at h
    cases hrl : relink cfg s1 sec add rules with
    | error e => simp [hrl] at h
    | ok s2 => simpa [hrl] using h
  cases op with
  | add sec r =>
    simp only [step] at hfail ⊢
    revert hfail
    cases Policy.add none (s.pol.get sec) r with
    | mk l ok =>
      cases ok with
      | false => intro _; exact ⟨rfl, rfl⟩
      | true =>
        simp only [Bool.not_true, Bool.false_eq_true, ↓reduceIte]
        split
        · intro _; exact ⟨rfl, rfl⟩
        intro hfail
        have := hfin _ _ _ _ _ hfail; simp at this
  | addMany sec rs =>
    simp only [step] at hfail ⊢
    revert hfail
    cases Policy.addMany none (s.pol.get sec) rs with
    | mk l ok =>
      cases ok with
      | false => intro _; exact ⟨rfl, rfl⟩
      | true =>
        simp only [Bool.not_true, Bool.false_eq_true, ↓reduceIte]
        split
        · intro _; exact ⟨rfl, rfl⟩
        intro hfail
        have := hfin _ _ _ _ _ hfail; simp at this
  | remove sec r =>
    simp only [step] at hfail ⊢
    revert hfail
    cases Policy.remove (s.pol.get sec) r with
    | mk l ok =>
      cases ok with
      | false => intro _; exact ⟨rfl, rfl⟩
      | true =>
        simp only [Bool.not_true, Bool.false_eq_true, ↓reduceIte]
        intro hfail
        have := hfin _ _ _ _ _ hfail; simp at this
  | removeMany sec rs =>
    simp only [step] at hfail ⊢
    revert hfail
    cases Policy.removeMany (s.pol.get sec) rs with
    | mk l ok =>
      cases ok with
      | false => intro _; exact ⟨rfl, rfl⟩
      | true =>
        simp only [Bool.not_true, Bool.false_eq_true, ↓reduceIte]
        intro hfail
        have := hfin _ _ _ _ _ hfail; simp at this
  | removeFiltered sec idx vals =>
    cases sec with
    | p =>
      simp only [step] at hfail ⊢
      revert hfail
      cases Policy.removeFiltered (s.pol.get .p) idx vals with
      | error e => intro _; exact ⟨rfl, rfl⟩
      | ok res =>
        obtain ⟨l, any⟩ := res
        cases any with
        | false => intro _; exact ⟨rfl, rfl⟩
        | true => simp
    | g | g2 =>
      all_goals
        simp only [step] at hfail ⊢
        revert hfail
        cases Policy.removeFilteredReturnsEffects (s.pol.get _) idx vals with
        | error e => intro _; exact ⟨rfl, rfl⟩
        | ok res =>
          obtain ⟨l, eff⟩ := res
          cases eff with
          | nil => intro _; exact ⟨rfl, rfl⟩
          | cons e es =>
            simp only [List.isEmpty_cons, Bool.false_eq_true, ↓reduceIte]
            intro hfail
            have := hfin _ _ _ _ _ hfail; simp at this
  | update old new =>
    simp only [step] at hfail ⊢
    revert hfail
    cases Policy.update none s.pol.p old new with
    | error e => intro _; exact ⟨rfl, rfl⟩
    | ok res =>
      obtain ⟨l, ok⟩ := res
      cases ok with
      | false => intro _; exact ⟨rfl, rfl⟩
      | true => simp
  | updateMany olds news =>
    simp only [step] at hfail ⊢
    revert hfail
    cases Policy.updateMany none s.pol.p olds news with
    | error e => intro _; exact ⟨rfl, rfl⟩
    | ok res =>
      obtain ⟨l, ok⟩ := res
      cases ok with
      | false => intro _; exact ⟨rfl, rfl⟩
      | true => simp
  | clearPolicy | buildRoleLinks | savePolicy | loadPolicy _ | enableAutoSave _
  | enableAutoBuild _ | enableAutoNotify _ => exact hop.elim

/-- with auto-save off (or without an adapter) the adapter is not written by any management call -/
theorem autosave_off_no_calls (cfg : Cfg) (s : St) (op : Op)
    (hop : match op with
      | .add .. | .addMany .. | .remove .. | .removeMany .. | .removeFiltered .. | .update .. | .updateMany .. => True
      | _ => False)
    (hoff : (cfg.hasAdapter && s.autoSave) = false) :
    (step cfg s op).1.alog = s.alog ∧ (step cfg s op).1.store = s.store := by
  have hp : ∀ (s' : St) c w, s'.autoSave = s.autoSave → s'.alog = s.alog → s'.store = s.store →
      (persist cfg s' c w).alog = s.alog ∧ (persist cfg s' c w).store = s.store := by
    intro s' c w h1 h2 h3
    have := persist_store cfg s' c w
    rw [this.1, this.2.1, h1, hoff]; exact ⟨h2, h3⟩
  have hf : ∀ (s1 : St) sec add rules (ret : Ret), (s1.alog = s.alog ∧ s1.store = s.store) →
      (finish cfg s1 sec add rules ret).1.alog = s.alog ∧ (finish cfg s1 sec add rules ret).1.store = s.store := by
    intro s1 sec add rules ret h
    have := finish_store cfg s1 sec add rules ret
    rw [this.1, this.2.1]; exact h
  cases op with
  | add sec r =>
    simp only [step]
    cases Policy.add none (s.pol.get sec) r with
    | mk l ok => cases ok <;> simp only [Bool.not_false, Bool.not_true, Bool.false_eq_true, ↓reduceIte]
                 · exact ⟨by trivial, by trivial⟩
                 · split
                   · exact ⟨by trivial, by trivial⟩
                   · exact hf _ _ _ _ _ (hp { s with pol := s.pol.set _ l } _ _ rfl rfl rfl)
  | addMany sec rs =>
    simp only [step]
    cases Policy.addMany none (s.pol.get sec) rs with
    | mk l ok => cases ok <;> simp only [Bool.not_false, Bool.not_true, Bool.false_eq_true, ↓reduceIte]
                 · exact ⟨by trivial, by trivial⟩
                 · split
                   · exact ⟨by trivial, by trivial⟩
                   · exact hf _ _ _ _ _ (hp { s with pol := s.pol.set _ l } _ _ rfl rfl rfl)
  | remove sec r =>
    simp only [step]
    cases Policy.remove (s.pol.get sec) r with
    | mk l ok => cases ok <;> simp only [Bool.not_false, Bool.not_true, Bool.false_eq_true, ↓reduceIte]
                 · exact ⟨by trivial, by trivial⟩
                 · exact hf _ _ _ _ _ (hp { s with pol := s.pol.set _ l } _ _ rfl rfl rfl)
  | removeMany sec rs =>
    simp only [step]
    cases Policy.removeMany (s.pol.get sec) rs with
    | mk l ok => cases ok <;> simp only [Bool.not_false, Bool.not_true, Bool.false_eq_true, ↓reduceIte]
                 · exact ⟨by trivial, by trivial⟩
                 · exact hf _ _ _ _ _ (hp { s with pol := s.pol.set _ l } _ _ rfl rfl rfl)
  | removeFiltered sec idx vals =>
    cases sec with
    | p =>
      simp only [step]
      cases Policy.removeFiltered (s.pol.get .p) idx vals with
      | error e => exact ⟨rfl, rfl⟩
      | ok res =>
        obtain ⟨l, any⟩ := res
        cases any <;> simp only [Bool.not_false, Bool.not_true, Bool.false_eq_true, ↓reduceIte]
        · exact ⟨by trivial, by trivial⟩
        · exact hp { s with pol := s.pol.set _ l } _ _ rfl rfl rfl
    | g | g2 =>
      all_goals
        simp only [step]
        cases Policy.removeFilteredReturnsEffects (s.pol.get _) idx vals with
        | error e => exact ⟨rfl, rfl⟩
        | ok res =>
          obtain ⟨l, eff⟩ := res
          cases eff with
          | nil => exact ⟨rfl, rfl⟩
          | cons e es =>
            simp only [List.isEmpty_cons, Bool.false_eq_true, ↓reduceIte]
            exact hf _ _ _ _ _ (hp { s with pol := s.pol.set _ l } _ _ rfl rfl rfl)
  | update old new =>
    simp only [step]
    cases Policy.update none s.pol.p old new with
    | error e => exact ⟨rfl, rfl⟩
    | ok res =>
      obtain ⟨l, ok⟩ := res
      cases ok <;> simp only [Bool.not_false, Bool.not_true, Bool.false_eq_true, ↓reduceIte]
      · exact ⟨by trivial, by trivial⟩
      · exact hp { s with pol := s.pol.set _ l } _ _ rfl rfl rfl
  | updateMany olds news =>
    simp only [step]
    cases Policy.updateMany none s.pol.p olds news with
    | error e => exact ⟨rfl, rfl⟩
    | ok res =>
      obtain ⟨l, ok⟩ := res
      cases ok <;> simp only [Bool.not_false, Bool.not_true, Bool.false_eq_true, ↓reduceIte]
      · exact ⟨by trivial, by trivial⟩
      · exact hp { s with pol := s.pol.set _ l } _ _ rfl rfl rfl
  | clearPolicy | buildRoleLinks | savePolicy | loadPolicy _ | enableAutoSave _
  | enableAutoBuild _ | enableAutoNotify _ => exact hop.elim

/-- `save_policy` stores exactly the in-memory policy -/
theorem save_writes_memory (cfg : Cfg) (s : St) : Mirror (step cfg s .savePolicy).1 := by
  simp only [step, Mirror]; split <;> rfl

/-- `load_policy` directly after a mirrored state changes no rule (hence, with C04, no decision) -/
theorem reload_is_identity (cfg : Cfg) (s : St) (hm : Mirror s) :
    (step cfg s (.loadPolicy none)).1.pol = s.pol := by
  unfold Mirror at hm
  simp only [step, failsAt, Bool.false_eq_true, ↓reduceIte, loadCore]
  split
  · split
    · split <;> rfl
    · exact hm
  · exact hm

/-! ## Non-vacuity -/

example :
    let cfg : Cfg := { hasAdapter := true }
    let s := (step cfg {} (.addMany .p [["a", "x"], ["b", "x"], ["a", "x"]])).1
    s.store = s.pol ∧ NodupPol s.pol ∧ s.alog = [.addPolicies .p [["a", "x"], ["b", "x"], ["a", "x"]]] ∧
    s.store.p = [["a", "x"], ["b", "x"]] := by
  refine ⟨by decide, ⟨by decide, by decide, by decide⟩, by decide, by decide⟩

end Casbin.Enf.C09
