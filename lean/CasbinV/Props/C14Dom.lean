import CasbinV.Props.C14
namespace Casbin.C14
open Casbin Casbin.RM Casbin.C03

/-! # C14 / C04 at role-manager level — `DomainManager` with a domain matching function AND a role-name matching
function at the same time: the per-domain caches always equal a rebuild

`DM` (Model/RoleManager.lean) is `DomainManager`: per-domain link stores (`all_links`), the lazily filled cache
`rm_map` of per-domain `RoleManager`s, each of which itself copies pattern roles on first sight.  This file proves,
for EVERY history of add_link / delete_link / has_link / get_roles / get_users / clear / add_matching_func /
add_domain_matching_func (registration and RE-registration at any point, over existing links and caches):

* `cached_eq_rebuilt`     every cached per-domain manager answers exactly like the manager `_get_role_manager` would
                          build now from the union of the links recorded for the matching domain patterns;
* `dm_observational`      two coherent domain managers holding the same records answer alike, hence
* `registration_history`  after ANY history the answers equal those of the same manager with an EMPTY cache (a fresh
                          `DomainManager` holding the current links) and are the path semantics over the records in force;
* `domain_delete_exact`, `shared_record_survives`, `pattern_delete_roles`, `overlap_survives` — removal removes
                          exactly the grants the removed record gave (link recorded under two domain patterns, two
                          overlapping name patterns).

Hypotheses (all on the ROLE-NAME matching function; NOTHING is assumed of the domain matching function after the
repair F36, see `nonreflexive_domain_fn` below):
* `Trans f` for every registered name matching function — dropped: `domain_nontransitive_cache_differs` (F22, open);
* patterns on the user side (`ROk`: no other name matches an assigned role under the function in force) — dropped:
  `role_side_pattern_order_dependent`.
-/

/-! ## cached = rebuilt -/

/-- two coherent role managers with the same function, level and stored links answer alike -/
theorem rm_observational {s t : RM} (hts : Trans s.mtch) (hs : Inv s) (ht : Inv t)
    (hm : t.mtch = s.mtch) (hl : t.maxLevel = s.maxLevel) (hlinks : ∀ l, l ∈ t.allLinks ↔ l ∈ s.allLinks)
    (u r : Name) :
    (s.hasLink u r).2 = (t.hasLink u r).2 ∧ (∀ x, x ∈ (s.getRoles u).2 ↔ x ∈ (t.getRoles u).2) := by
  have hE : ∀ x y, EStar t.mtch t.allLinks x y ↔ EStar s.mtch s.allLinks x y := by
    intro x y; unfold EStar; simp only [hlinks, hm]
  constructor
  · rw [Bool.eq_iff_iff, hasLink_iff_pathR hts hs, hasLink_iff_pathR (by rw [hm]; exact hts) ht, hl]
    constructor
    · rintro ⟨n, hn, p⟩; exact ⟨n, hn, PathR.mono (fun x y => (hE x y).mpr) p⟩
    · rintro ⟨n, hn, p⟩; exact ⟨n, hn, PathR.mono (fun x y => (hE x y).mp) p⟩
  · intro x
    rw [getRoles_iff hts hs, getRoles_iff (by rw [hm]; exact hts) ht, hE]

/-- **cached = rebuilt.** In every coherent state, the cached manager of a domain gives the answers of the manager
    `DomainManagerBase._get_role_manager` would build at this moment from the link stores (own domain + every
    recorded domain pattern the domain matches), whatever names the cached one has seen and copied meanwhile. -/
theorem cached_eq_rebuilt {s : DM} (h : DInv s) {d : Name} {rm : RM} (hc : (d, rm) ∈ s.rmMap) (u r : Name) :
    (rm.hasLink u r).2 = ((s.build d).hasLink u r).2 ∧
    (∀ x, x ∈ (rm.getRoles u).2 ↔ x ∈ ((s.build d).getRoles u).2) := by
  obtain ⟨c1, c2, c3, c4⟩ := h.cache d rm hc
  obtain ⟨b1, b2, b3, b4⟩ := build_spec h d
  have hm := rm_mtch_of_matchFn c2
  have hmb := rm_mtch_of_matchFn b2
  exact rm_observational (by rw [hm]; exact h.trans) c3 b3 (by rw [hm, hmb]) (by rw [c1, b1])
    (by intro l; rw [c4, b4]) u r

/-- two coherent domain managers with the same functions, level and records answer alike (whatever their caches
    and whatever the order of their stores) -/
theorem dm_observational {s t : DM} (hs : DInv s) (ht : DInv t)
    (hm : t.matchFn = s.matchFn) (hd : t.dmatchFn = s.dmatchFn) (hl : t.maxLevel = s.maxLevel)
    (hrec : ∀ d l, t.recorded d l ↔ s.recorded d l) (u r d : Name) :
    (s.hasLink u r d).2 = (t.hasLink u r d).2 ∧ (∀ x, x ∈ (s.getRoles u d).2 ↔ x ∈ (t.getRoles u d).2) := by
  have hE : ∀ x y, EStar t.matchFn (t.effLinks d) x y ↔ EStar s.matchFn (s.effLinks d) x y := by
    intro x y; unfold EStar
    simp only [mem_effLinks hs.keys, mem_effLinks ht.keys, DM.eff, DM.covers, hd, hrec, hm]
  constructor
  · rw [Bool.eq_iff_iff, (dm_hasLink_spec hs u r d).1, (dm_hasLink_spec ht u r d).1, hl]
    constructor
    · rintro ⟨n, hn, p⟩; exact ⟨n, hn, PathR.mono (fun x y => (hE x y).mpr) p⟩
    · rintro ⟨n, hn, p⟩; exact ⟨n, hn, PathR.mono (fun x y => (hE x y).mp) p⟩
  · intro x
    rw [(dm_getRoles_spec hs u d).1, (dm_getRoles_spec ht u d).1, hE]

/-- the same manager with an empty cache: a fresh `DomainManager` on which the current links were added -/
def uncached (s : DM) : DM := { s with rmMap := [] }

theorem uncached_inv {s : DM} (h : DInv s) : DInv (uncached s) := by
  refine ⟨h.keys, by simp [uncached], h.stores, h.trans, h.plain, ?_⟩
  intro d rm hmem; simp [uncached] at hmem

/-- `get_users` under a name matching function reports the matching names *seen so far*; it is sound (everything
    reported holds the role through an assignment applying in the domain) and contains every assigned user -/
theorem dm_getUsers_pattern {s : DM} (h : DInv s) (n d u : Name) :
    (u ∈ (s.getUsers n d).2 → EStar s.matchFn (s.effLinks d) u n) ∧
    ((u, n) ∈ s.effLinks d → u ∈ (s.getUsers n d).2) := by
  obtain ⟨g1, g2, g3, g4, g5, g6⟩ := getRM_spec h d
  have hmem := lookup_some_mem g2
  obtain ⟨c1, c2, c3, c4⟩ := g1.cache d _ hmem
  have hm : (s.getRM d).2.mtch = s.matchFn := by rw [rm_mtch_of_matchFn c2, g5]
  have hu : ∀ u, u ∈ (s.getUsers n d).2 ↔ u ∈ ((s.getRM d).2.getUsers n).2 := fun _ => Iff.rfl
  have hE : ∀ x y, EStar (s.getRM d).2.mtch (s.getRM d).2.allLinks x y ↔ EStar s.matchFn (s.effLinks d) x y := by
    intro x y; unfold EStar
    simp only [c4, mem_effLinks h.keys, hm, eff_congr g3 g4]
  rw [hu, getUsers_iff (by rw [hm]; exact h.trans) c3, hE]
  refine ⟨fun hh => hh.2, fun hl => ⟨Or.inl ?_, ⟨u, hl, Or.inl rfl⟩⟩⟩
  have : (u, n) ∈ (s.getRM d).2.allLinks := by
    rw [c4, eff_congr g3 g4, ← mem_effLinks h.keys]; exact hl
  exact (c3.ends u n this).1

/-! ## histories with (re-)registration of both functions -/

inductive ROp
  | op (o : DOp)
  | regMatch (f : MatchFn)     -- add_matching_func / Enforcer.add_named_matching_func
  | regDom (f : MatchFn)       -- add_domain_matching_func / Enforcer.add_named_domain_matching_func

def rstep (s : DM) : ROp → DM × Option Err
  | .op o => dstep s o
  | .regMatch f => (s.addMatchingFunc f, none)
  | .regDom f => (s.addDomainMatchingFunc f, none)

def rrun (s : DM) : List ROp → DM
  | [] => s
  | op :: ops => rrun (rstep s op).1 ops

def rerrors (s : DM) : List ROp → List Err
  | [] => []
  | op :: ops => (match (rstep s op).2 with | some e => [e] | none => []) ++ rerrors (rstep s op).1 ops

/-- registration does not touch the records -/
def rupd (P : Name → Link → Prop) : ROp → Name → Link → Prop
  | .op o => dupd P o
  | _ => P

def rforce (P : Name → Link → Prop) : List ROp → Name → Link → Prop
  | [] => P
  | op :: ops => rforce (rupd P op) ops

/-- the standing hypotheses along a history: a role that is added is matched by no other name under the name
    matching function in force; a name matching function that is (re-)registered is transitive and matches no other
    name to a role recorded at that moment.  No condition on domain matching functions. -/
def ROk (s : DM) : List ROp → Prop
  | [] => True
  | op :: ops =>
    (match op with
      | .op (.add _ b _) => ∀ n, s.matchFn n b = true → n = b
      | .regMatch f => Trans f ∧ ∀ d l, s.recorded d l → ∀ n, f n l.2 = true → n = l.2
      | _ => True) ∧ ROk (rstep s op).1 ops

/-- **`add_matching_func` keeps the caches coherent**: every cached manager is rebuilt (`RoleManager._rebuild`) from
    its own link store under the new function -/
theorem regMatch_inv {s : DM} (h : DInv s) (f : MatchFn) (ht : Trans f)
    (hpl : ∀ d l, s.recorded d l → ∀ n, f n l.2 = true → n = l.2) :
    DInv (s.addMatchingFunc f) ∧ (s.addMatchingFunc f).allLinks = s.allLinks ∧
    (s.addMatchingFunc f).dmatchFn = s.dmatchFn ∧ (s.addMatchingFunc f).matchFn = f ∧
    (s.addMatchingFunc f).maxLevel = s.maxLevel := by
  refine ⟨⟨h.keys, ?_, h.stores, ht, hpl, ?_⟩, rfl, rfl, rfl, rfl⟩
  · show ((s.rmMap.map fun e => (e.1, e.2.addMatchingFunc f)).map (·.1)).Nodup
    rw [map_keys _ _ (by intro e; rfl)]; exact h.ckeys
  · intro d rm' hmem
    have hmem' : (d, rm') ∈ s.rmMap.map fun e => (e.1, e.2.addMatchingFunc f) := hmem
    obtain ⟨⟨k, rm⟩, hrm, he⟩ := List.mem_map.mp hmem'
    simp only [Prod.mk.injEq] at he
    obtain ⟨rfl, rfl⟩ := he
    obtain ⟨c1, _, _, c4⟩ := h.cache k rm hrm
    obtain ⟨i1, i2, i3, i4⟩ := addMatchingFunc_inv rm f ht (by
      intro l hl n hn
      obtain ⟨d', _, hrec⟩ := (c4 l).mp hl
      exact hpl d' l hrec n hn)
    refine ⟨by rw [i3]; exact c1, i2, i1, ?_⟩
    intro l; rw [i4, c4]; rfl

/-- **`add_domain_matching_func` drops every cached manager** (`_rebuild`): coherent for ANY function -/
theorem regDom_inv {s : DM} (h : DInv s) (f : MatchFn) :
    DInv (s.addDomainMatchingFunc f) ∧ (s.addDomainMatchingFunc f).allLinks = s.allLinks ∧
    (s.addDomainMatchingFunc f).dmatchFn = some f ∧ (s.addDomainMatchingFunc f).matchFn = s.matchFn ∧
    (s.addDomainMatchingFunc f).maxLevel = s.maxLevel := by
  refine ⟨⟨h.keys, by simp [DM.addDomainMatchingFunc], h.stores, h.trans, h.plain, ?_⟩, rfl, rfl, rfl, rfl⟩
  intro d rm hmem; simp [DM.addDomainMatchingFunc] at hmem

theorem rstep_inv {s : DM} (h : DInv s) (op : ROp) (hok : ROk s [op]) :
    DInv (rstep s op).1 ∧ (rstep s op).1.maxLevel = s.maxLevel ∧
    (∀ d l, (rstep s op).1.recorded d l ↔ rupd s.recorded op d l) ∧ (rstep s op).2 = none := by
  cases op with
  | op o =>
    obtain ⟨h1, _, _, h4, h5, h6⟩ := dstep_inv h o (by
      intro a b d e; subst e; exact hok.1)
    exact ⟨h1, h4, h5, h6⟩
  | regMatch f =>
    obtain ⟨i1, i2, _, _, i5⟩ := regMatch_inv h f hok.1.1 hok.1.2
    exact ⟨i1, i5, fun d l => by rw [show (rstep s (.regMatch f)).1 = s.addMatchingFunc f from rfl, recorded_congr i2]; rfl, rfl⟩
  | regDom f =>
    obtain ⟨i1, i2, _, _, i5⟩ := regDom_inv h f
    exact ⟨i1, i5, fun d l => by rw [show (rstep s (.regDom f)).1 = s.addDomainMatchingFunc f from rfl, recorded_congr i2]; rfl, rfl⟩

/-- **cache coherence over histories with registration.** -/
theorem rrun_inv {s : DM} (h : DInv s) (ops : List ROp) (hok : ROk s ops) :
    DInv (rrun s ops) ∧ (rrun s ops).maxLevel = s.maxLevel ∧
    (∀ d l, (rrun s ops).recorded d l ↔ rforce s.recorded ops d l) ∧ rerrors s ops = [] := by
  induction ops generalizing s with
  | nil => exact ⟨h, rfl, fun d l => Iff.rfl, rfl⟩
  | cons op ops ih =>
    obtain ⟨h1, h2, h3, h4⟩ := rstep_inv h op ⟨hok.1, trivial⟩
    obtain ⟨i1, i2, i3, i4⟩ := @ih (rstep s op).1 h1 hok.2
    refine ⟨i1, by rw [← h2]; exact i2, ?_, by simp [rerrors, h4, i4]⟩
    intro d l
    show (rrun (rstep s op).1 ops).recorded d l ↔ rforce (rupd s.recorded op) ops d l
    rw [i3]
    have : (rstep s op).1.recorded = rupd s.recorded op := by
      funext d' l'; exact propext (h3 d' l')
    rw [this]

/-- **registration_history (C04 at role-manager level with patterns; C14 "whatever the order").** Start from a new
    `DomainManager` (name matching function `mf`, initially equality in the code; domain matching function `dmf`,
    initially none) and run ANY history of adds, deletes, queries, clears and (re-)registrations of both kinds of
    function.  Then no call raised, and in the final state `s`, for every query:
    * `has_link` and `get_roles` answer exactly like the same manager with an EMPTY cache, i.e. like a fresh
      `DomainManager` holding the current links and functions (cached = rebuilt);
    * `has_link(u, r, d)` ⇔ `r` is reachable from `u` in fewer than `max_hierarchy_level` effective edges over the
      records applying in `d` (recorded for `d` or for a domain pattern that `d` matches under the CURRENT domain
      function; a name holds the roles of every user pattern it matches under the CURRENT name function);
    * the records in force are those the adds / deletes / clears of the history say. -/
theorem registration_history (L : Nat) (mf : MatchFn) (dmf : Option MatchFn) (ht : Trans mf)
    (ops : List ROp) (hok : ROk (dinit L mf dmf) ops) (s : DM) (hs : s = rrun (dinit L mf dmf) ops)
    (u r d : Name) :
    rerrors (dinit L mf dmf) ops = [] ∧
    (s.hasLink u r d).2 = ((uncached s).hasLink u r d).2 ∧
    (∀ x, x ∈ (s.getRoles u d).2 ↔ x ∈ ((uncached s).getRoles u d).2) ∧
    ((s.hasLink u r d).2 = true ↔
      ∃ n, n < L ∧ PathR (fun x y => ∃ a d', s.covers d d' ∧ s.recorded d' (a, y) ∧
                                        (x = a ∨ s.matchFn x a = true)) u r n) ∧
    (∀ d' l, s.recorded d' l ↔ rforce (fun _ _ => False) ops d' l) := by
  obtain ⟨h1, h2, h3, h4⟩ := rrun_inv (dinit_inv L mf dmf ht) ops hok
  rw [← hs] at h1 h2 h3
  have h2' : s.maxLevel = L := h2
  obtain ⟨o1, o2⟩ := dm_observational h1 (uncached_inv h1) rfl rfl rfl (fun _ _ => Iff.rfl) u r d
  refine ⟨h4, o1, o2, ?_, ?_⟩
  · rw [(dm_hasLink_spec h1 u r d).1, h2']
    have hE : ∀ x y, EStar s.matchFn (s.effLinks d) x y ↔
        ∃ a d', s.covers d d' ∧ s.recorded d' (a, y) ∧ (x = a ∨ s.matchFn x a = true) := by
      intro x y
      unfold EStar
      simp only [mem_effLinks h1.keys, DM.eff]
      constructor
      · rintro ⟨a, ⟨d', hc, hrec⟩, hx⟩; exact ⟨a, d', hc, hrec, hx⟩
      · rintro ⟨a, d', hc, hrec, hx⟩; exact ⟨a, ⟨d', hc, hrec⟩, hx⟩
    constructor
    · rintro ⟨n, hn, p⟩; exact ⟨n, hn, PathR.mono (fun x y => (hE x y).mp) p⟩
    · rintro ⟨n, hn, p⟩; exact ⟨n, hn, PathR.mono (fun x y => (hE x y).mpr) p⟩
  · intro d' l; rw [h3, dinit_recorded]

/-! ## removal removes exactly the grants the removed record gave -/

/-- **domain_delete_exact.** After `delete_link(a, b, d)` in any coherent state (cached managers present or not),
    `has_link(u, r, d0)` is the path semantics over the records applying in `d0` MINUS the one record `(d, (a, b))` —
    a grant that another record (the same link under another matching domain pattern, or an overlapping name
    pattern) also gives stays. -/
theorem domain_delete_exact {s : DM} (h : DInv s) (a b d u r d0 : Name) :
    (s.deleteLink a b d).2 = none ∧
    (((s.deleteLink a b d).1.hasLink u r d0).2 = true ↔
      ∃ n, n < s.maxLevel ∧ PathR (fun x y => ∃ a' d', s.covers d0 d' ∧ s.recorded d' (a', y) ∧
                                        ¬ (d' = d ∧ (a', y) = (a, b)) ∧ (x = a' ∨ s.matchFn x a' = true)) u r n) := by
  obtain ⟨i1, i2, i3, i4, i5, i6⟩ := dm_deleteLink_spec h a b d
  have hrec : ∀ d' l, (s.deleteLink a b d).1.recorded d' l ↔ s.recorded d' l ∧ ¬ (d' = d ∧ l = (a, b)) := by
    intro d' l
    by_cases hR : s.recorded d (a, b)
    · exact (i6 hR).2 d' l
    · rw [(i5 hR).2]
      exact ⟨fun hr => ⟨hr, fun hh => hR (hh.1 ▸ hh.2 ▸ hr)⟩, And.left⟩
  have herr : (s.deleteLink a b d).2 = none := by
    by_cases hR : s.recorded d (a, b)
    · exact (i6 hR).1
    · exact (i5 hR).1
  refine ⟨herr, ?_⟩
  rw [(dm_hasLink_spec i1 u r d0).1, i4]
  have hE : ∀ x y, EStar (s.deleteLink a b d).1.matchFn ((s.deleteLink a b d).1.effLinks d0) x y ↔
      ∃ a' d', s.covers d0 d' ∧ s.recorded d' (a', y) ∧ ¬ (d' = d ∧ (a', y) = (a, b)) ∧
        (x = a' ∨ s.matchFn x a' = true) := by
    intro x y
    unfold EStar
    simp only [mem_effLinks i1.keys, DM.eff, DM.covers, i2, i3, hrec]
    constructor
    · rintro ⟨a', ⟨d', hc, hr, hne⟩, hx⟩; exact ⟨a', d', hc, hr, hne, hx⟩
    · rintro ⟨a', d', hc, hr, hne, hx⟩; exact ⟨a', ⟨d', hc, hr, hne⟩, hx⟩
  constructor
  · rintro ⟨n, hn, p⟩; exact ⟨n, hn, PathR.mono (fun x y => (hE x y).mp) p⟩
  · rintro ⟨n, hn, p⟩; exact ⟨n, hn, PathR.mono (fun x y => (hE x y).mpr) p⟩

/-- **shared_record_survives (link multiset over domains).** The same link recorded under two domain patterns that
    both apply in `d0`: deleting ONE record changes no answer in `d0`. -/
theorem shared_record_survives {s : DM} (h : DInv s) (a b d d2 d0 : Name) (hne : d2 ≠ d)
    (hc : s.covers d0 d2) (hrec : s.recorded d2 (a, b)) (u r : Name) :
    ((s.deleteLink a b d).1.hasLink u r d0).2 = (s.hasLink u r d0).2 := by
  rw [Bool.eq_iff_iff, (domain_delete_exact h a b d u r d0).2, (dm_hasLink_spec h u r d0).1]
  have hE : ∀ x y, EStar s.matchFn (s.effLinks d0) x y ↔
      ∃ a' d', s.covers d0 d' ∧ s.recorded d' (a', y) ∧ ¬ (d' = d ∧ (a', y) = (a, b)) ∧
        (x = a' ∨ s.matchFn x a' = true) := by
    intro x y
    unfold EStar
    simp only [mem_effLinks h.keys, DM.eff]
    constructor
    · rintro ⟨a', ⟨d', hc', hr⟩, hx⟩
      by_cases hh : d' = d ∧ (a', y) = (a, b)
      · obtain ⟨_, he⟩ := hh
        simp only [Prod.mk.injEq] at he
        obtain ⟨rfl, rfl⟩ := he
        exact ⟨a', d2, hc, hrec, fun hh' => hne hh'.1, hx⟩
      · exact ⟨a', d', hc', hr, hh, hx⟩
    · rintro ⟨a', d', hc', hr, _, hx⟩; exact ⟨a', ⟨d', hc', hr⟩, hx⟩
  constructor
  · rintro ⟨n, hn, p⟩; exact ⟨n, hn, PathR.mono (fun x y => (hE x y).mpr) p⟩
  · rintro ⟨n, hn, p⟩; exact ⟨n, hn, PathR.mono (fun x y => (hE x y).mp) p⟩

/-- **pattern_delete_roles.** `get_roles` after deleting an assignment: exactly the roles the REMAINING assignments
    give (directly or through a user pattern the name matches) -/
theorem pattern_delete_roles {s : RM} (ht : Trans s.mtch) (h : Inv s) (a b u r : Name) :
    r ∈ ((s.deleteLink a b).1.getRoles u).2 ↔
      ∃ a', (a', r) ∈ s.allLinks ∧ (a', r) ≠ (a, b) ∧ (u = a' ∨ s.mtch u a' = true) := by
  obtain ⟨h1, _, h3, _, h5⟩ := deleteLink_inv ht h a b
  have hm : (s.deleteLink a b).1.mtch = s.mtch := by funext x y; simp [RM.mtch, h3]
  rw [getRoles_iff (by rw [hm]; exact ht) h1, hm]
  unfold EStar
  simp only [h5]
  constructor
  · rintro ⟨a', ⟨hin, hne⟩, hx⟩; exact ⟨a', hin, hne, hx⟩
  · rintro ⟨a', hin, hne, hx⟩; exact ⟨a', ⟨hin, hne⟩, hx⟩

/-- **overlap_survives.** A name matching two user patterns that both grant `b`: deleting one of the two
    assignments keeps the grant (F10 repaired) -/
theorem overlap_survives {s : RM} (ht : Trans s.mtch) (h : Inv s) (a a' b u : Name)
    (hin : (a', b) ∈ s.allLinks) (hne : a' ≠ a) (hu : u = a' ∨ s.mtch u a' = true) :
    b ∈ ((s.deleteLink a b).1.getRoles u).2 :=
  (pattern_delete_roles ht h a b u b).mpr ⟨a', hin, fun he => hne (Prod.mk.inj he).1, hu⟩

/-! ## non-vacuity and negative witnesses -/

/-- a domain matching function that matches NOTHING (not reflexive) -/
def neverDom : MatchFn := fun _ _ => false

/-- F36 (repaired in the model, `DM.affected` / `DM.delCaches`): under a domain matching function that does not
    relate a domain to itself (regex_match on `d(1)`, glob_match on `d[1]`) the cached manager of the very domain a
    link is added to / deleted from is still updated — the unrepaired code answered `False` to the first query. -/
theorem nonreflexive_domain_fn :
    let eq : MatchFn := fun a b => a == b
    ((drun (dinit 10 eq (some neverDom)) [.has "a" "r" "d", .add "a" "r" "d"]).hasLink "a" "r" "d").2 = true ∧
    ((drun (dinit 10 eq (some neverDom)) [.add "a" "r" "d", .has "a" "r" "d", .del "a" "r" "d"]).hasLink "a" "r" "d").2 = false := by
  decide

/-- the user-side pattern `*`, both as a name pattern and as a domain pattern -/
def starFn : MatchFn := fun k p => p == "*" || k == p

/-- non-vacuity of `registration_history`: links first, a cache built under equality, then BOTH functions
    registered, more links, the domain function registered again -/
def demoOps : List ROp :=
  [.op (.add "*" "g1" "*"), .op (.has "x" "g1" "d1"), .regMatch starFn, .regDom starFn,
   .op (.has "x" "g1" "d1"), .op (.add "g1" "g2" "d1"), .regDom starFn, .op (.del "*" "g1" "*"), .op (.add "*" "g1" "*")]

example : ((rrun (dinit 10 (fun a b => a == b) none) demoOps).hasLink "x" "g2" "d1").2 = true := by decide

theorem demo_ok : ROk (dinit 10 (fun a b => a == b) none) demoOps := by
  have hplain : ∀ (b : Name), b = "g1" ∨ b = "g2" → ∀ n, starFn n b = true → n = b := by
    intro b hb n hn
    rcases hb with rfl | rfl <;> simpa [starFn] using hn
  refine ⟨?_, trivial, ⟨star_trans, ?_⟩, trivial, trivial, ?_, trivial, trivial, ?_, trivial⟩
  · intro n hn; simpa [dinit] using hn
  · rintro d l ⟨ls, hmem, hl⟩ n hn
    have : l.2 = "g1" := by
      revert hmem hl
      simp only [rstep, dstep, DM.addLink, DM.touch, DM.hasLink, DM.getRM, dinit]
      intro hmem hl
      simp at hmem
      obtain ⟨_, rfl⟩ := hmem
      simp [insertE] at hl
      rw [hl]
    exact hplain l.2 (Or.inl this) n hn
  · exact hplain "g2" (Or.inr rfl)
  · exact hplain "g1" (Or.inl rfl)

example : ∀ u r d, ((rrun (dinit 10 (fun a b => a == b) none) demoOps).hasLink u r d).2 =
    ((uncached (rrun (dinit 10 (fun a b => a == b) none) demoOps)).hasLink u r d).2 :=
  fun u r d => (registration_history 10 _ none eq_trans demoOps demo_ok _ rfl u r d).2.1

/-- non-vacuity of `cached_eq_rebuilt`: a state with a cached manager that has seen (and copied for) names the
    rebuilt one has not -/
example : (rrun (dinit 10 starFn (some starFn))
    [.op (.has "x" "g1" "d1"), .op (.add "*" "g1" "*"), .op (.has "y" "g1" "d1")]).rmMap.length = 1 := by decide

/-- non-vacuity of `shared_record_survives` / `domain_delete_exact`: the same link under `*` and `d1` -/
example :
    let s := drun (dinit 10 starFn (some starFn)) [.add "*" "g1" "*", .add "*" "g1" "d1", .has "x" "g1" "d1"]
    ((s.deleteLink "*" "g1" "*").1.hasLink "x" "g1" "d1").2 = true ∧
    (((s.deleteLink "*" "g1" "*").1.deleteLink "*" "g1" "d1").1.hasLink "x" "g1" "d1").2 = false ∧
    ((s.deleteLink "*" "g1" "*").1.hasLink "x" "g1" "d2").2 = false := by decide

/-- non-vacuity of `overlap_survives`: `/b/1` matches `/b/:id` and `/b/*` -/
example :
    let s := run (start 10 km2) [.add "/b/:id" "g1", .has "/b/1" "g1", .add "/b/*" "g1"]
    ((s.deleteLink "/b/:id" "g1").1.getRoles "/b/1").2 = ["g1"] ∧
    (((s.deleteLink "/b/:id" "g1").1.deleteLink "/b/*" "g1").1.getRoles "/b/1").2 = [] := by decide

/-- **Negative witness for `Trans` at domain-manager level (open finding F22):** with the non-transitive `km2` as name
    matching function the CACHED manager of `d1` (which saw `/b/1/2` before the assignments) and the manager rebuilt
    from the same links disagree. -/
theorem domain_nontransitive_cache_differs :
    let s := drun (dinit 10 km2 (some starFn)) [.has "/b/1/2" "g1" "d1", .add "/b/:id" "g1" "*", .add "/b/*" "g2" "*"]
    (s.hasLink "/b/1/2" "g1" "d1").2 = false ∧ ((uncached s).hasLink "/b/1/2" "g1" "d1").2 = true := by
  decide

/-- a transitive function with a pattern on the ROLE side: `g1` matches the role `g*` -/
def roleStar : MatchFn := fun k p => k == p || (k == "g1" && p == "g*")

theorem roleStar_trans : Trans roleStar := by
  intro n p a h1 h2
  simp only [roleStar, Bool.or_eq_true, Bool.and_eq_true, beq_iff_eq] at *
  rcases h1 with rfl | ⟨rfl, rfl⟩
  · exact h2
  · rcases h2 with rfl | ⟨h, _⟩
    · exact Or.inr ⟨rfl, rfl⟩
    · exact absurd h (by decide)

/-- **Negative witness for the user-side-pattern hypothesis (`PlainRoles` / `ROk`):** with a (transitive) function
    under which another name matches an assigned ROLE, `get_roles` depends on whether that name was first seen
    before or after the assignment (cached vs rebuilt differ). -/
theorem role_side_pattern_order_dependent :
    ((run (start 10 roleStar) [.add "a" "g*", .has "g1" "g1"]).getRoles "a").2 = ["g*", "g1"] ∧
    ((run (start 10 roleStar) [.has "g1" "g1", .add "a" "g*"]).getRoles "a").2 = ["g*"] := by
  decide

/-- `/g/x1` matches the ROLE pattern `/g/*` -/
def roleG : MatchFn := fun k p => k == p || (p == "/g/*" && k == "/g/x1")

/-- F35 (repaired in the model: `linked`, `RM.gone`), pattern on the role side — outside the hypotheses of the
    theorems above, checked on the model: a name matching the role pattern that was first seen AFTER the assignment
    loses the grant when the assignment is revoked (the unrepaired code kept `bob -> /g/x1`), and deleting a direct
    assignment to that name keeps the grant the pattern assignment still gives (the unrepaired code removed it). -/
theorem role_side_revocation :
    ((run (start 10 roleG) [.add "bob" "/g/*", .has "bob" "/g/x1", .del "bob" "/g/*"]).hasLink "bob" "/g/x1").2 = false ∧
    ((run (start 10 roleG) [.add "bob" "/g/*", .add "bob" "/g/x1", .del "bob" "/g/x1"]).hasLink "bob" "/g/x1").2 = true ∧
    ((run (start 10 roleG) [.add "bob" "/g/*", .add "al" "/g/*", .has "al" "/g/x1", .del "bob" "/g/*"]).hasLink "al" "/g/x1").2 = true := by
  decide

end Casbin.C14
