import CasbinV.Props.C06
/-!
# C06 (batch update) — `update_policies` keeps the rule set duplicate-free and is all-or-nothing
-/
namespace Casbin.Policy.C06
open Casbin.Policy

theorem foldl_set_count (l : List Rule) (ps : List (Rule × Rule)) (news : List Rule) (acc : List Rule) (v : Rule)
    (hps : ∀ p ∈ ps, p.2 ∈ news) (hv : v ∉ news) :
    (ps.foldl (fun acc (p : Rule × Rule) => acc.set (l.idxOf p.1) p.2) acc).count v ≤ acc.count v := by
  induction ps generalizing acc with
  | nil => exact Nat.le_refl _
  | cons p ps ih =>
    simp only [List.foldl_cons]
    refine Nat.le_trans (ih _ (fun q hq => hps q (by simp [hq]))) ?_
    have hne : p.2 ≠ v := fun e => hv (e ▸ hps p (by simp))
    by_cases hi : l.idxOf p.1 < acc.length
    · rw [List.count_set hi]
      have : (p.2 == v) = false := by simpa using hne
      simp [this]
    · rw [List.set_eq_of_length_le (by omega)]
      exact Nat.le_refl _

theorem foldl_set_length (l : List Rule) (ps : List (Rule × Rule)) (acc : List Rule) :
    (ps.foldl (fun acc (p : Rule × Rule) => acc.set (l.idxOf p.1) p.2) acc).length = acc.length := by
  induction ps generalizing acc with
  | nil => rfl
  | cons p ps ih => simp only [List.foldl_cons]; rw [ih]; simp

/-- what `update_policies` answers when it does not raise: either nothing changed and it reports `False`, or every old
    rule was present, the lists have equal length, and the new list (same length, replaced in place) is duplicate-free -/
theorem updateMany_spec (l olds news l' : List Rule) (ok : Bool) (hd : l.Nodup)
    (h : updateMany none l olds news = .ok (l', ok)) :
    (ok = false → l' = l) ∧
    (ok = true → l'.Nodup ∧ l'.length = l.length ∧ olds.length = news.length ∧ (∀ o ∈ olds, o ∈ l) ∧
      l' = (olds.zip news).foldl (fun acc (p : Rule × Rule) => acc.set (l.idxOf p.1) p.2) l ∧ olds.Nodup) := by
  unfold updateMany at h
  by_cases hlen : (olds.length != news.length) = true
  · simp only [hlen, ↓reduceIte] at h; cases h; exact ⟨fun _ => rfl, fun e => by cases e⟩
  · by_cases hdup : (olds.any fun o => decide (olds.count o > 1)) = true
    · simp only [hlen, hdup, ↓reduceIte] at h; cases h; exact ⟨fun _ => rfl, fun e => by cases e⟩
    by_cases hall : (!olds.all l.contains) = true
    · simp only [hlen, hdup, hall, ↓reduceIte] at h; cases h; exact ⟨fun _ => rfl, fun e => by cases e⟩
    · simp only [hlen, hdup, hall, ↓reduceIte] at h
      by_cases hcnt : (news.any fun n =>
          decide (List.count n ((olds.zip news).foldl (fun acc x => acc.set (List.idxOf x.fst l) x.snd) l) > 1)) = true
      · simp only [hcnt, ↓reduceIte] at h; cases h; exact ⟨fun _ => rfl, fun e => by cases e⟩
      · simp only [hcnt, ↓reduceIte] at h
        cases h
        refine ⟨(fun e => by cases e), fun _ => ⟨?_, ?_, (by simpa using hlen), ?_, rfl, ?_⟩⟩
        · rw [List.nodup_iff_count]
          intro a
          by_cases ha : a ∈ news
          · have := hcnt
            simp only [List.any_eq_true, decide_eq_true_eq, not_exists, not_and, Nat.not_lt] at this
            exact this a ha
          · refine Nat.le_trans (foldl_set_count l (olds.zip news) news l a (fun p hp => (List.of_mem_zip hp).2) ha) ?_
            exact (List.nodup_iff_count.mp hd) a
        · exact foldl_set_length l _ l
        · intro o ho
          have : olds.all l.contains = true := by simpa using hall
          simpa using (List.all_eq_true.mp this) o ho
        · rw [List.nodup_iff_count]
          intro a
          by_cases ha : a ∈ olds
          · have := hdup
            simp only [List.any_eq_true, decide_eq_true_eq, not_exists, not_and, Nat.not_lt] at this
            exact this a ha
          · rw [List.count_eq_zero_of_not_mem ha]; omega

/-- position-wise description of the in-place replacement -/
theorem foldl_set_getElem? (l : List Rule) (hd : l.Nodup) (ps : List (Rule × Rule)) (acc : List Rule)
    (hin : ∀ p ∈ ps, p.1 ∈ l) (hnd : (ps.map (·.1)).Nodup) (hlen : acc.length = l.length)
    (i : Nat) (hi : i < l.length) :
    (ps.foldl (fun acc (p : Rule × Rule) => acc.set (l.idxOf p.1) p.2) acc)[i]? =
      match ps.find? (·.1 == l[i]) with
      | some p => some p.2
      | none => acc[i]? := by
  induction ps generalizing acc with
  | nil => simp
  | cons p ps ih =>
    simp only [List.foldl_cons]
    have hnd' : (ps.map (·.1)).Nodup := (List.nodup_cons.mp (by simpa using hnd)).2
    have hp1 : p.1 ∉ ps.map (·.1) := (List.nodup_cons.mp (by simpa using hnd)).1
    rw [ih (acc.set (l.idxOf p.1) p.2) (fun q hq => hin q (by simp [hq])) hnd' (by simp [hlen])]
    have hpl : p.1 ∈ l := hin p (by simp)
    by_cases hpi : p.1 = l[i]
    · -- this pair rewrites position i; no later pair has the same old rule
      have hnone : ps.find? (·.1 == l[i]) = none := by
        apply List.find?_eq_none.mpr
        intro q hq hc
        have : q.1 = l[i] := by simpa using hc
        exact hp1 (by rw [hpi, ← this]; exact List.mem_map_of_mem (f := (·.1)) hq)
      simp only [hnone, List.find?_cons, hpi, beq_self_eq_true]
      rw [List.Nodup.idxOf_getElem hd i hi, List.getElem?_set_self (by omega)]
    · have hne : l.idxOf p.1 ≠ i := by
        intro hc
        apply hpi
        have := List.getElem_idxOf (List.idxOf_lt_length_of_mem hpl)
        simp only [hc] at this
        exact this.symm
      have hb : (p.1 == l[i]) = false := by simpa using hpi
      simp only [List.find?_cons, hb]
      rw [List.getElem?_set_ne hne]

/-- the in-place batch replacement equals rewriting every rule that is the old side of a pair -/
theorem foldl_set_eq_map (l : List Rule) (hd : l.Nodup) (olds news : List Rule)
    (hin : ∀ o ∈ olds, o ∈ l) (hnd : olds.Nodup) (hlen : olds.length = news.length) :
    (olds.zip news).foldl (fun acc (p : Rule × Rule) => acc.set (l.idxOf p.1) p.2) l =
      l.map fun x => match (olds.zip news).find? (·.1 == x) with | some (_, n) => n | none => x := by
  have hfst : (olds.zip news).map (·.1) = olds := by
    rw [List.map_fst_zip]; omega
  apply List.ext_getElem?
  intro i
  by_cases hi : i < l.length
  · rw [foldl_set_getElem? l hd (olds.zip news) l
      (fun p hp => hin p.1 (List.of_mem_zip hp).1) (by rw [hfst]; exact hnd) rfl i hi]
    rw [List.getElem?_map, List.getElem?_eq_getElem hi]
    simp only [Option.map_some]
    cases (olds.zip news).find? (·.1 == l[i]) with
    | none => rfl
    | some p => rfl
  · have h1 : ((olds.zip news).foldl (fun acc (p : Rule × Rule) => acc.set (l.idxOf p.1) p.2) l).length = l.length :=
      foldl_set_length l _ l
    rw [List.getElem?_eq_none (by omega), List.getElem?_eq_none (by simp; omega)]

/-- **`update_policies` refines the batch-update specification**: on a duplicate-free rule list the call answers exactly
    what `Spec.updateMany` prescribes - every pair applied at once, in place, or nothing changed and `False`
    (lengths differ, an old rule named twice, an old rule absent, or the result would hold a rule twice) -/
theorem updateMany_refines (l olds news : List Rule) (hd : l.Nodup) :
    updateMany none l olds news = .ok (Spec.updateMany l olds news) := by
  cases h : updateMany none l olds news with
  | error e =>
    unfold updateMany at h
    split at h <;> try cases h
    split at h <;> try cases h
    split at h <;> try cases h
    simp only at h
    split at h <;> cases h
  | ok res =>
    obtain ⟨l', ok⟩ := res
    obtain ⟨h1, h2⟩ := updateMany_spec l olds news l' ok hd h
    congr 1
    cases ok with
    | true =>
      obtain ⟨hn, _, hlen, hin, hl, hnd⟩ := h2 rfl
      rw [foldl_set_eq_map l hd olds news hin hnd hlen] at hl
      have hl' : l' = Spec.replaceAll l olds news := hl
      unfold Spec.updateMany
      rw [if_pos ⟨hlen, hnd, hin, hl' ▸ hn⟩, hl']
    | false =>
      have hl := h1 rfl
      subst hl
      unfold Spec.updateMany
      by_cases hc : olds.length = news.length ∧ olds.Nodup ∧ (∀ o ∈ olds, o ∈ l')
      · obtain ⟨hlen, hnd, hin⟩ := hc
        -- the checks pass, so the model went as far as the candidate list and found a rule twice
        have hcand : _ = Spec.replaceAll l' olds news := foldl_set_eq_map l' hd olds news hin hnd hlen
        unfold updateMany at h
        have e1 : (olds.length != news.length) = false := by simp [hlen]
        have e2 : (olds.any fun o => decide (olds.count o > 1)) = false := by
          rw [List.any_eq_false]; intro o _
          have := (List.nodup_iff_count.mp hnd) o
          simp; omega
        have e3 : (!olds.all l'.contains) = false := by
          simp; exact hin
        simp only [e1, e2, e3, Bool.false_eq_true, ↓reduceIte] at h
        split at h
        · rename_i hany
          rw [hcand] at hany
          have hnn : ¬ (Spec.replaceAll l' olds news).Nodup := by
            intro hnod
            simp only [List.any_eq_true, decide_eq_true_eq] at hany
            obtain ⟨n, _, hgt⟩ := hany
            have := (List.nodup_iff_count.mp hnod) n
            omega
          rw [if_neg (fun hh => hnn hh.2.2.2)]
        · simp only [Except.ok.injEq, Prod.mk.injEq] at h
          exact absurd h.2 (by decide)
      · rw [if_neg (fun hh => hc ⟨hh.1, hh.2.1, hh.2.2.1⟩)]

theorem updateMany_nodup (l olds news l' : List Rule) (ok : Bool) (hd : l.Nodup)
    (h : updateMany none l olds news = .ok (l', ok)) : l'.Nodup := by
  obtain ⟨h1, h2⟩ := updateMany_spec l olds news l' ok hd h
  cases ok with
  | false => rw [h1 rfl]; exact hd
  | true => exact (h2 rfl).1

example : updateMany none [["a"], ["b"], ["c"]] [["a"], ["b"]] [["b"], ["a"]] = .ok ([["b"], ["a"], ["c"]], true) := by decide
example : updateMany none [["a"], ["b"], ["c"]] [["a"], ["b"]] [["c"], ["x"]] = .ok ([["a"], ["b"], ["c"]], false) := by decide
-- an old rule named twice: refused as a whole (the unrepaired code answered True and kept only the last pair);
-- a chain through a rule that is itself replaced applies at once
example : updateMany none [["a"], ["b"], ["c"]] [["a"], ["a"]] [["x"], ["y"]] = .ok ([["a"], ["b"], ["c"]], false) := by decide
example : updateMany none [["a"], ["b"], ["c"]] [["a"], ["b"]] [["b"], ["x"]] = .ok ([["b"], ["x"], ["c"]], true) := by decide
example : Spec.updateMany [["a"], ["b"], ["c"]] [["a"], ["b"]] [["b"], ["x"]] = ([["b"], ["x"], ["c"]], true) := by decide

end Casbin.Policy.C06
