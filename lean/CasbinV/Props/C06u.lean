import CasbinV.Props.C06
/-!
# C06 (batch update) — `update_policies` keeps the rule set duplicate-free and is all-or-nothing
-/
namespace Casbin.Policy.C06
open Casbin.Policy

theorem foldl_set_count (l : List Rule) (ps : List (Rule × Rule)) (news : List Rule) (acc : List Rule) (v : Rule)
    (hps : ∀ p ∈ ps, p.2 ∈ news) (hv : v ∉ news) :
    (ps.foldl (fun acc (p : Rule × Rule) => acc.set (l.idxOf p.1) p.2) acc).count v ≤ acc.count v := by
  induction ps generalizing acc with
  | nil => exact Nat.le_refl _
  | cons p ps ih =>
    simp only [List.foldl_cons]
    refine Nat.le_trans (ih _ (fun q hq => hps q (by simp [hq]))) ?_
    have hne : p.2 ≠ v := fun e => hv (e ▸ hps p (by simp))
    by_cases hi : l.idxOf p.1 < acc.length
    · rw [List.count_set hi]
      have : (p.2 == v) = false := by simpa using hne
      simp [this]
    · rw [List.set_eq_of_length_le (by omega)]
      exact Nat.le_refl _

theorem foldl_set_length (l : List Rule) (ps : List (Rule × Rule)) (acc : List Rule) :
    (ps.foldl (fun acc (p : Rule × Rule) => acc.set (l.idxOf p.1) p.2) acc).length = acc.length := by
  induction ps generalizing acc with
  | nil => rfl
  | cons p ps ih => simp only [List.foldl_cons]; rw [ih]; simp

/-- what `update_policies` answers when it does not raise: either nothing changed and it reports `False`, or every old
    rule was present, the lists have equal length, and the new list (same length, replaced in place) is duplicate-free -/
theorem updateMany_spec (l olds news l' : List Rule) (ok : Bool) (hd : l.Nodup)
    (h : updateMany none l olds news = .ok (l', ok)) :
    (ok = false → l' = l) ∧
    (ok = true → l'.Nodup ∧ l'.length = l.length ∧ olds.length = news.length ∧ (∀ o ∈ olds, o ∈ l) ∧
      l' = (olds.zip news).foldl (fun acc (p : Rule × Rule) => acc.set (l.idxOf p.1) p.2) l) := by
  unfold updateMany at h
  by_cases hlen : (olds.length != news.length) = true
  · simp only [hlen, ↓reduceIte] at h; cases h; exact ⟨fun _ => rfl, fun e => by cases e⟩
  · by_cases hall : (!olds.all l.contains) = true
    · simp only [hlen, hall, ↓reduceIte] at h; cases h; exact ⟨fun _ => rfl, fun e => by cases e⟩
    · simp only [hlen, hall, ↓reduceIte] at h
      by_cases hcnt : (news.any fun n =>
          decide (List.count n ((olds.zip news).foldl (fun acc x => acc.set (List.idxOf x.fst l) x.snd) l) > 1)) = true
      · simp only [hcnt, ↓reduceIte] at h; cases h; exact ⟨fun _ => rfl, fun e => by cases e⟩
      · simp only [hcnt, ↓reduceIte] at h
        cases h
        refine ⟨(fun e => by cases e), fun _ => ⟨?_, ?_, (by simpa using hlen), ?_, rfl⟩⟩
        · rw [List.nodup_iff_count]
          intro a
          by_cases ha : a ∈ news
          · have := hcnt
            simp only [List.any_eq_true, decide_eq_true_eq, not_exists, not_and, Nat.not_lt] at this
            exact this a ha
          · refine Nat.le_trans (foldl_set_count l (olds.zip news) news l a (fun p hp => (List.of_mem_zip hp).2) ha) ?_
            exact (List.nodup_iff_count.mp hd) a
        · exact foldl_set_length l _ l
        · intro o ho
          have : olds.all l.contains = true := by simpa using hall
          simpa using (List.all_eq_true.mp this) o ho

theorem updateMany_nodup (l olds news l' : List Rule) (ok : Bool) (hd : l.Nodup)
    (h : updateMany none l olds news = .ok (l', ok)) : l'.Nodup := by
  obtain ⟨h1, h2⟩ := updateMany_spec l olds news l' ok hd h
  cases ok with
  | false => rw [h1 rfl]; exact hd
  | true => exact (h2 rfl).1

example : updateMany none [["a"], ["b"], ["c"]] [["a"], ["b"]] [["b"], ["a"]] = .ok ([["b"], ["a"], ["c"]], true) := by decide
example : updateMany none [["a"], ["b"], ["c"]] [["a"], ["b"]] [["c"], ["x"]] = .ok ([["a"], ["b"], ["c"]], false) := by decide

end Casbin.Policy.C06
