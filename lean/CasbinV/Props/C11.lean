import CasbinV.Props.C04
/-!
# C11 — a failed policy reload leaves the enforcer exactly as it was

Subject: `Casbin.Enf.step cfg s (.loadPolicy k)` — the adapter raises after delivering `k` rules, or delivers a
grouping rule that is unusable for the model (too short for the role definition).
-/
namespace Casbin.Enf.C11
open Casbin Casbin.Enf Casbin.Policy Casbin.Enf.C04

/-- **Frame theorem.** If `load_policy` raises — whatever the failure point `k`, and also when the failure happens
    while the role links are being rebuilt — the policy is untouched and every role query and every decision is
    what it was before the call (the state before must be coherent: the rollback rebuilds the links from the old
    policy, which restores the old links exactly when they reflected that policy — C04's invariant). -/
theorem failed_load_frame (cfg : Cfg) (sh : Shape) (s : St) (h : Coherent cfg s) (k : Option Nat) (e : EErr)
    (hfail : (step cfg s (.loadPolicy k)).2 = .error e) :
    let s' := (step cfg s (.loadPolicy k)).1
    s'.pol = s.pol ∧ s'.autoBuild = s.autoBuild ∧ s'.autoSave = s.autoSave ∧ s'.store = s.store ∧
    (∀ n1 n2 d, hasLinkQ s'.links.g n1 n2 d = hasLinkQ s.links.g n1 n2 d) ∧
    (∀ n1 n2 d, hasLinkQ s'.links.g2 n1 n2 d = hasLinkQ s.links.g2 n1 n2 d) ∧
    (∀ n d x, x ∈ getRoles s'.links.g n d ↔ x ∈ getRoles s.links.g n d) ∧
    (∀ n d x, x ∈ getUsers s'.links.g n d ↔ x ∈ getUsers s.links.g n d) ∧
    (∀ req, enforceQ sh s' req = enforceQ sh s req) := by
  intro s'
  obtain ⟨hpol, hcoh⟩ := failed_load_coherent cfg s h k e hfail
  have hg : ∀ x, x ∈ s'.links.g ↔ x ∈ s.links.g := fun x => by
    rw [hcoh.g.same, h.g.same]; show LinkOf cfg.gCount s'.pol.g x ↔ _; rw [hpol]
  have hg2 : ∀ x, x ∈ s'.links.g2 ↔ x ∈ s.links.g2 := fun x => by
    rw [hcoh.g2.same, h.g2.same]; show LinkOf cfg.g2Count s'.pol.g2 x ↔ _; rw [hpol]
  have hflags : s'.autoBuild = s.autoBuild ∧ s'.autoSave = s.autoSave ∧ s'.store = s.store := by
    show (step cfg s (.loadPolicy k)).1.autoBuild = _ ∧ (step cfg s (.loadPolicy k)).1.autoSave = _ ∧
      (step cfg s (.loadPolicy k)).1.store = _
    simp only [step]
    split
    · exact ⟨rfl, rfl, rfl⟩
    · simp only [loadCore]
      split
      · split
        · split <;> exact ⟨rfl, rfl, rfl⟩
        · exact ⟨rfl, rfl, rfl⟩
      · exact ⟨rfl, rfl, rfl⟩
  refine ⟨hpol, hflags.1, hflags.2.1, hflags.2.2, fun _ _ _ => hasLinkQ_congr _ _ hg _ _ _,
    fun _ _ _ => hasLinkQ_congr _ _ hg2 _ _ _, fun _ _ _ => getRoles_congr _ _ hg _ _ _,
    fun _ _ _ => getUsers_congr _ _ hg _ _ _, ?_⟩
  intro req
  unfold enforceQ
  rw [matcher_congr sh s'.links s.links hg hg2, hpol]

/-- a failing adapter fails: delivering fewer rules than it holds raises -/
theorem adapter_failure_raises (cfg : Cfg) (s : St) (k : Nat)
    (hk : k < s.store.p.length + s.store.g.length + s.store.g2.length) :
    (step cfg s (.loadPolicy (some k))).2 = .error .adapterFailure := by
  simp [step, failsAt, hk]

/-- a delivered grouping rule shorter than the role definition makes the reload raise (while linking) -/
theorem short_rule_raises (cfg : Cfg) (s : St) (h : s.autoBuild = true) (r : Rule) (rest : List Rule)
    (hr : r.length < cfg.gCount) (hs : s.store.g = r :: rest) :
    (step cfg s (.loadPolicy none)).2 = .error .shortGroupingRule := by
  simp only [step, failsAt, Bool.false_eq_true, ↓reduceIte, loadCore, h]
  have : rebuildAll cfg s.store = .error .shortGroupingRule := by
    simp [rebuildAll, buildLinks, hs, incLinks, hr]
  rw [this]
  simp only []
  cases rebuildAll cfg s.pol <;> rfl

/-- a successful reload replaces policy and role links together -/
theorem successful_load_replaces_both (cfg : Cfg) (s : St) (h : s.autoBuild = true) (k : Option Nat) (r : Ret)
    (hok : (step cfg s (.loadPolicy k)).2 = .ok r) :
    (step cfg s (.loadPolicy k)).1.pol = s.store ∧
    rebuildAll cfg s.store = .ok (step cfg s (.loadPolicy k)).1.links := by
  simp only [step] at hok ⊢
  split at hok
  · cases hok
  · rename_i hnf
    simp only [hnf, Bool.false_eq_true, ↓reduceIte]
    simp only [loadCore, h, ↓reduceIte] at hok ⊢
    cases hnew : rebuildAll cfg s.store with
    | error e =>
      rw [hnew] at hok
      simp only [] at hok
      cases hold : rebuildAll cfg s.pol <;> simp [hold] at hok
    | ok l => exact ⟨rfl, rfl⟩

/-! ## Non-vacuity -/

/-- a coherent RBAC state whose adapter store was corrupted with a short grouping rule: the reload raises and,
    by `failed_load_frame`, nothing observable changes -/
example :
    let cfg : Cfg := { gCount := 2, hasAdapter := true }
    let s : St := { pol := { g := [["alice", "admin"]] }, links := { g := [["alice", "admin"]] },
                    store := { g := [["bob"]] } }
    (step cfg s (.loadPolicy none)).2 = .error .shortGroupingRule ∧
    (step cfg s (.loadPolicy none)).1.links.g = [["alice", "admin"]] := by
  decide

end Casbin.Enf.C11
