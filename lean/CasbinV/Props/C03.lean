import CasbinV.Model.RoleManager
namespace Casbin.C03
open Casbin Casbin.RM

theorem mem_insertE {α} [BEq α] [LawfulBEq α] {e x : α} {es : List α} :
    x ∈ insertE e es ↔ x = e ∨ x ∈ es := by
  unfold insertE
  split
  · rename_i h
    have := List.contains_iff_mem.mp h
    constructor
    · intro hx; exact Or.inr hx
    · rintro (rfl | hx)
      · exact this
      · exact hx
  · simp [or_comm]

theorem mem_addAll {α} [BEq α] [LawfulBEq α] {x : α} {new es : List α} :
    x ∈ addAll new es ↔ x ∈ es ∨ x ∈ new := by
  unfold addAll
  induction new generalizing es with
  | nil => simp
  | cons e new ih =>
    simp only [List.foldl_cons, ih, mem_insertE, List.mem_cons]
    grind

theorem nodup_insertE {α} [BEq α] [LawfulBEq α] {e : α} {es : List α} (h : es.Nodup) : (insertE e es).Nodup := by
  unfold insertE
  split
  · exact h
  · rename_i hc
    have : e ∉ es := fun hm => hc (List.contains_iff_mem.mpr hm)
    rw [List.nodup_append]
    refine ⟨h, by simp, ?_⟩
    intro a ha b hb
    simp at hb; subst hb
    intro hab; subst hab; exact this ha

theorem mem_dedup {α} [BEq α] [LawfulBEq α] {x : α} {l : List α} : x ∈ dedup l ↔ x ∈ l := by
  induction l with
  | nil => simp [dedup]
  | cons y ys ih =>
    unfold dedup
    split
    · rename_i h
      have := List.contains_iff_mem.mp h
      rw [ih]; simp only [List.mem_cons]
      constructor
      · exact Or.inr
      · rintro (rfl | h') <;> assumption
    · simp [ih]

theorem mem_preds {g : Graph} {u v : Name} : u ∈ preds g v ↔ (u, v) ∈ g := by simp [preds]

/-- the level search only looks at the *set* of frontier members -/
theorem hasLinkAux_congr (g : Graph) (t : Name) (lvl : Nat) {r1 r2 : List Name} (h : ∀ x, x ∈ r1 ↔ x ∈ r2) :
    hasLinkAux g t lvl r1 = hasLinkAux g t lvl r2 := by
  rw [Bool.eq_iff_iff, hasLinkAux_iff, hasLinkAux_iff]
  constructor <;> rintro ⟨r, hr, rest⟩
  · exact ⟨r, (h r).mp hr, rest⟩
  · exact ⟨r, (h r).mpr hr, rest⟩

/-- `bfs` (frontier kept as a set) is the search of Model/Graph.lean whenever the matching function used in
    the target test only relates the target to itself -/
theorem bfs_eq_hasLinkAux (m : MatchFn) (g : Graph) (t : Name) (hm : ∀ x, m x t = true → x = t)
    (lvl : Nat) (roles : List Name) : bfs m g t lvl roles = hasLinkAux g t lvl roles := by
  induction lvl generalizing roles with
  | zero => simp [bfs, hasLinkAux]
  | succ l ih =>
    cases roles with
    | nil => simp [bfs, hasLinkAux]
    | cons r rs =>
      unfold bfs hasLinkAux
      have hany : (r :: rs).any (fun x => x == t || m x t) = (r :: rs).any (· == t) := by
        congr 1
        funext x
        cases hx : m x t
        · simp
        · simp [hm x hx]
      rw [hany, ih]
      split
      · rfl
      · exact hasLinkAux_congr g t l (fun x => mem_dedup)

theorem bfs_iff (m : MatchFn) (g : Graph) (t : Name) (hm : ∀ x, m x t = true → x = t) (lvl : Nat) (u : Name) :
    bfs m g t lvl [u] = true ↔ ∃ n, n < lvl ∧ Path g u t n := by
  rw [bfs_eq_hasLinkAux m g t hm, hasLinkAux_iff]; simp


/-- a path of exactly `n` steps of a relation (the assignments in force need not be a finite list of edges:
    under a matching function every matching name has the pattern's roles) -/
inductive PathR (R : Name → Name → Prop) : Name → Name → Nat → Prop
  | refl (u) : PathR R u u 0
  | step {u v w n} : R u v → PathR R v w n → PathR R u w (n + 1)

theorem path_iff_pathR (g : Graph) (u v : Name) (n : Nat) : Path g u v n ↔ PathR (fun a b => (a, b) ∈ g) u v n := by
  constructor
  · intro h; induction h with
    | refl u => exact .refl u
    | step he _ ih => exact .step he ih
  · intro h; induction h with
    | refl u => exact .refl u
    | step he _ ih => exact .step he ih

/-- effective edges: `(n, b)` when some assignment `(a, b)` is in force with `n = a` or `n` matching `a` -/
def EStar (m : MatchFn) (L : List Link) (n b : Name) : Prop := ∃ a, (a, b) ∈ L ∧ (n = a ∨ m n a = true)

/-- the matching function is transitive -/
def Trans (m : MatchFn) : Prop := ∀ n p a, m n p = true → m p a = true → m n a = true

/-! ### `_get_role` -/

@[simp] theorem getRole_allLinks (s : RM) (n : Name) : (s.getRole n).allLinks = s.allLinks := by
  unfold RM.getRole; split <;> rfl
@[simp] theorem getRole_maxLevel (s : RM) (n : Name) : (s.getRole n).maxLevel = s.maxLevel := by
  unfold RM.getRole; split <;> rfl
@[simp] theorem getRole_matchFn (s : RM) (n : Name) : (s.getRole n).matchFn = s.matchFn := by
  unfold RM.getRole; split <;> rfl
@[simp] theorem getRole_mtch (s : RM) (n : Name) : (s.getRole n).mtch = s.mtch := by
  funext a b; simp [RM.mtch]
@[simp] theorem getRole_condFns (s : RM) (n : Name) : (s.getRole n).condFns = s.condFns := by
  unfold RM.getRole; split <;> rfl
@[simp] theorem getRole_condParams (s : RM) (n : Name) : (s.getRole n).condParams = s.condParams := by
  unfold RM.getRole; split <;> rfl

theorem mem_getRole_nodes {s : RM} {n x : Name} : x ∈ (s.getRole n).nodes ↔ x ∈ s.nodes ∨ x = n := by
  unfold RM.getRole
  split
  · rename_i h
    have := List.contains_iff_mem.mp h
    constructor
    · exact Or.inl
    · rintro (h | rfl) <;> assumption
  · simp

theorem getRole_of_mem {s : RM} {n : Name} (h : n ∈ s.nodes) : s.getRole n = s := by
  unfold RM.getRole; simp [h]

theorem mem_copyFrom {n p : Name} {es : Graph} {e : Link} :
    e ∈ copyFrom n p es ↔
      (e ∈ es ∨ ∃ y, (p, y) ∈ es ∧ e = (n, y)) ∨
      ∃ u, ((u, p) ∈ es ∨ ∃ y, (p, y) ∈ es ∧ (u, p) = (n, y)) ∧ e = (u, n) := by
  unfold copyFrom
  simp only [mem_addAll, List.mem_map, mem_preds, succs_mem]
  constructor
  · rintro ((h | ⟨y, hy, rfl⟩) | ⟨u, (hu | ⟨y, hy, he⟩), rfl⟩)
    · exact Or.inl (Or.inl h)
    · exact Or.inl (Or.inr ⟨y, hy, rfl⟩)
    · exact Or.inr ⟨u, Or.inl hu, rfl⟩
    · exact Or.inr ⟨u, Or.inr ⟨y, hy, he.symm⟩, rfl⟩
  · rintro ((h | ⟨y, hy, rfl⟩) | ⟨u, (hu | ⟨y, hy, he⟩), rfl⟩)
    · exact Or.inl (Or.inl h)
    · exact Or.inl (Or.inr ⟨y, hy, rfl⟩)
    · exact Or.inr ⟨u, Or.inl hu, rfl⟩
    · exact Or.inr ⟨u, Or.inr ⟨y, hy, he.symm⟩, rfl⟩

/-- first sight of `n` when no matching node is the role of anything: `n` gets the roles of the nodes it
    matches and nothing else changes -/
theorem mem_fold_copy (n : Name) (P : List Name) (es : Graph)
    (hP : ∀ p ∈ P, ∀ u, (u, p) ∉ es) (e : Link) :
    e ∈ P.foldl (fun es p => copyFrom n p es) es ↔ e ∈ es ∨ ∃ p ∈ P, ∃ y, (p, y) ∈ es ∧ e = (n, y) := by
  induction P generalizing es with
  | nil => simp
  | cons p P ih =>
    have hp := hP p (List.mem_cons_self)
    have hcopy : ∀ e, e ∈ copyFrom n p es ↔ e ∈ es ∨ ∃ y, (p, y) ∈ es ∧ e = (n, y) := by
      intro e
      rw [mem_copyFrom]
      constructor
      · rintro (h | ⟨u, (hu | ⟨y, hy, he⟩), _⟩)
        · exact h
        · exact absurd hu (hp u)
        · simp only [Prod.mk.injEq] at he
          obtain ⟨_, rfl⟩ := he
          exact absurd hy (hp p)
      · exact Or.inl
    rw [List.foldl_cons, ih]
    · simp only [hcopy, List.mem_cons]
      constructor
      · rintro ((h | h) | ⟨q, hq, y, (hy | ⟨z, hz, he⟩), rfl⟩)
        · exact Or.inl h
        · exact Or.inr ⟨p, Or.inl rfl, h⟩
        · exact Or.inr ⟨q, Or.inr hq, y, hy, rfl⟩
        · simp only [Prod.mk.injEq] at he
          obtain ⟨rfl, rfl⟩ := he
          exact Or.inr ⟨p, Or.inl rfl, _, hz, rfl⟩
      · rintro (h | ⟨q, (rfl | hq), y, hy, rfl⟩)
        · exact Or.inl (Or.inl h)
        · exact Or.inl (Or.inr ⟨y, hy, rfl⟩)
        · exact Or.inr ⟨q, hq, y, Or.inl hy, rfl⟩
    · intro q hq u hu
      rw [hcopy] at hu
      rcases hu with hu | ⟨y, hy, he⟩
      · exact hP q (List.mem_cons_of_mem _ hq) u hu
      · simp only [Prod.mk.injEq] at he
        obtain ⟨_, rfl⟩ := he
        exact hP q (List.mem_cons_of_mem _ hq) p hy

/-- **The graph invariant.** The link store is a set, both ends of every stored link are nodes, the role of a
    stored link is matched by no other name (patterns sit on the user side), and the graph is exactly the
    effective edges `E*` restricted to the nodes that exist. -/
structure Inv (s : RM) : Prop where
  nodup : s.allLinks.Nodup
  ends : ∀ a b, (a, b) ∈ s.allLinks → a ∈ s.nodes ∧ b ∈ s.nodes
  plain : ∀ a b, (a, b) ∈ s.allLinks → ∀ n, s.mtch n b = true → n = b
  edges : ∀ n b, (n, b) ∈ s.edges ↔ n ∈ s.nodes ∧ EStar s.mtch s.allLinks n b

theorem getRole_inv {s : RM} (ht : Trans s.mtch) (h : Inv s) (n : Name) : Inv (s.getRole n) := by
  by_cases hn : n ∈ s.nodes
  · rw [getRole_of_mem hn]; exact h
  · refine ⟨by simpa using h.nodup, ?_, by simpa using h.plain, ?_⟩
    · intro a b hab
      simp only [getRole_allLinks] at hab
      have := h.ends a b hab
      exact ⟨mem_getRole_nodes.mpr (Or.inl this.1), mem_getRole_nodes.mpr (Or.inl this.2)⟩
    · intro x y
      simp only [getRole_allLinks, getRole_mtch, mem_getRole_nodes]
      have hedges : (s.getRole n).edges =
          (s.nodes.filter fun p => s.mtch n p).foldl (fun es p => copyFrom n p es) s.edges := by
        unfold RM.getRole
        simp [hn]
      rw [hedges, mem_fold_copy]
      · constructor
        · rintro (hxy | ⟨p, hp, z, hz, he⟩)
          · have := (h.edges x y).mp hxy
            exact ⟨Or.inl this.1, this.2⟩
          · simp only [Prod.mk.injEq] at he
            obtain ⟨rfl, rfl⟩ := he
            simp only [List.mem_filter] at hp
            obtain ⟨_, a, hab, hpa⟩ := (h.edges p y).mp hz
            refine ⟨Or.inr rfl, a, hab, Or.inr ?_⟩
            rcases hpa with rfl | hpa
            · exact hp.2
            · exact ht _ _ _ hp.2 hpa
        · rintro ⟨hx | rfl, hE⟩
          · exact Or.inl ((h.edges x y).mpr ⟨hx, hE⟩)
          · obtain ⟨a, hab, hxa⟩ := hE
            have ha := (h.ends a y hab).1
            rcases hxa with rfl | hxa
            · exact absurd ha hn
            · refine Or.inr ⟨a, ?_, y, (h.edges a y).mpr ⟨ha, a, hab, Or.inl rfl⟩, rfl⟩
              simp [ha, hxa]
      · intro p hp u hup
        simp only [List.mem_filter] at hp
        obtain ⟨_, a, hab, _⟩ := (h.edges u p).mp hup
        have := h.plain a p hab n hp.2
        subst this
        exact hn hp.1

theorem mem_getRole2_nodes {s : RM} {a b x : Name} :
    x ∈ ((s.getRole a).getRole b).nodes ↔ x ∈ s.nodes ∨ x = a ∨ x = b := by
  simp [mem_getRole_nodes, or_assoc]

/-! ### `add_link` -/

theorem mem_extra {t : RM} {a b : Name} {e : Link} :
    e ∈ t.extra a b ↔
      (∃ r, (r ∈ t.nodes ∧ r ≠ a ∧ t.mtch r a = true) ∧ e = (r, b)) ∨
      (∃ r, (r ∈ t.nodes ∧ r ≠ b ∧ t.mtch r b = true) ∧ e = (b, r)) := by
  unfold RM.extra
  simp only [List.mem_append, List.mem_map, List.mem_filter, Bool.and_eq_true, bne_iff_ne, ne_eq]
  constructor
  · rintro (⟨r, ⟨h1, h2, h3⟩, rfl⟩ | ⟨r, ⟨h1, h2, h3⟩, rfl⟩)
    · exact Or.inl ⟨r, ⟨h1, h2, h3⟩, rfl⟩
    · exact Or.inr ⟨r, ⟨h1, h2, h3⟩, rfl⟩
  · rintro (⟨r, ⟨h1, h2, h3⟩, rfl⟩ | ⟨r, ⟨h1, h2, h3⟩, rfl⟩)
    · exact Or.inl ⟨r, ⟨h1, h2, h3⟩, rfl⟩
    · exact Or.inr ⟨r, ⟨h1, h2, h3⟩, rfl⟩

theorem addLink_allLinks (s : RM) (a b : Name) : (s.addLink a b).allLinks = insertE (a, b) s.allLinks := by
  simp [RM.addLink]
@[simp] theorem addLink_nodes (s : RM) (a b : Name) : (s.addLink a b).nodes = ((s.getRole a).getRole b).nodes := rfl
@[simp] theorem addLink_mtch (s : RM) (a b : Name) : (s.addLink a b).mtch = s.mtch := by
  funext x y; simp [RM.mtch, RM.addLink]
@[simp] theorem addLink_maxLevel (s : RM) (a b : Name) : (s.addLink a b).maxLevel = s.maxLevel := by
  simp [RM.addLink]
@[simp] theorem addLink_matchFn (s : RM) (a b : Name) : (s.addLink a b).matchFn = s.matchFn := by
  simp [RM.addLink]

theorem EStar_insert {m : MatchFn} {L : List Link} {a b x y : Name} :
    EStar m (insertE (a, b) L) x y ↔ EStar m L x y ∨ (y = b ∧ (x = a ∨ m x a = true)) := by
  unfold EStar
  simp only [mem_insertE, Prod.mk.injEq]
  constructor
  · rintro ⟨c, (⟨rfl, rfl⟩ | hc), hx⟩
    · exact Or.inr ⟨rfl, hx⟩
    · exact Or.inl ⟨c, hc, hx⟩
  · rintro (⟨c, hc, hx⟩ | ⟨rfl, hx⟩)
    · exact ⟨c, Or.inr hc, hx⟩
    · exact ⟨a, Or.inl ⟨rfl, rfl⟩, hx⟩

theorem addLink_inv {s : RM} (ht : Trans s.mtch) (h : Inv s) (a b : Name)
    (hb : ∀ n, s.mtch n b = true → n = b) : Inv (s.addLink a b) := by
  have ht1 : Trans (s.getRole a).mtch := by simpa using ht
  have hI := getRole_inv ht1 (getRole_inv ht h a) b
  have hna : a ∈ ((s.getRole a).getRole b).nodes := mem_getRole2_nodes.mpr (Or.inr (Or.inl rfl))
  have hnb : b ∈ ((s.getRole a).getRole b).nodes := mem_getRole2_nodes.mpr (Or.inr (Or.inr rfl))
  have hmt : ((s.getRole a).getRole b).mtch = s.mtch := by simp
  have hL : ((s.getRole a).getRole b).allLinks = s.allLinks := by simp
  refine ⟨?_, ?_, ?_, ?_⟩
  · rw [addLink_allLinks]; exact nodup_insertE h.nodup
  · intro x y hxy
    rw [addLink_allLinks, mem_insertE] at hxy
    rw [addLink_nodes]
    rcases hxy with hxy | hxy
    · simp only [Prod.mk.injEq] at hxy; obtain ⟨rfl, rfl⟩ := hxy; exact ⟨hna, hnb⟩
    · exact hI.ends x y (by simpa using hxy)
  · intro x y hxy n hn
    rw [addLink_allLinks, mem_insertE] at hxy
    rw [addLink_mtch] at hn
    rcases hxy with hxy | hxy
    · simp only [Prod.mk.injEq] at hxy; obtain ⟨rfl, rfl⟩ := hxy; exact hb n hn
    · exact h.plain x y hxy n hn
  · intro x y
    rw [addLink_allLinks, addLink_mtch, addLink_nodes, EStar_insert]
    have hE : (x, y) ∈ (s.addLink a b).edges ↔
        (x, y) ∈ ((s.getRole a).getRole b).edges ∨ (x, y) = (a, b) ∨ (x, y) ∈ ((s.getRole a).getRole b).extra a b := by
      simp only [RM.addLink, mem_addAll, List.mem_cons]
    rw [hE, hI.edges, mem_extra, hmt, hL]
    simp only [Prod.mk.injEq]
    constructor
    · rintro (⟨hx, hE⟩ | ⟨rfl, rfl⟩ | ⟨r, ⟨h1, h2, h3⟩, rfl, rfl⟩ | ⟨r, ⟨h1, h2, h3⟩, rfl, rfl⟩)
      · exact ⟨hx, Or.inl hE⟩
      · exact ⟨hna, Or.inr ⟨rfl, Or.inl rfl⟩⟩
      · exact ⟨h1, Or.inr ⟨rfl, Or.inr h3⟩⟩
      · exact absurd (hb _ h3) h2
    · rintro ⟨hx, (hE | ⟨rfl, (rfl | hxa)⟩)⟩
      · exact Or.inl ⟨hx, hE⟩
      · exact Or.inr (Or.inl ⟨rfl, rfl⟩)
      · by_cases hxa' : x = a
        · exact Or.inr (Or.inl ⟨hxa', rfl⟩)
        · exact Or.inr (Or.inr (Or.inl ⟨x, ⟨hx, hxa', hxa⟩, rfl, rfl⟩))

/-! ### `delete_link` -/

theorem linked_iff {f : MatchFn} {L : List Link} {x y : Name}
    (hplain : ∀ a b, (a, b) ∈ L → ∀ n, f n b = true → n = b) :
    linked f L x y = true ↔ EStar f L x y := by
  unfold linked EStar
  simp only [List.any_eq_true, Bool.or_eq_true, Bool.and_eq_true, beq_iff_eq, bne_iff_ne, ne_eq]
  constructor
  · rintro ⟨⟨a, b⟩, hl, ((⟨rfl, h⟩ | ⟨⟨rfl, hne⟩, hf⟩) | ⟨h, hf⟩)⟩
    · exact ⟨a, hl, h.imp Eq.symm id⟩
    · exact absurd (hplain a _ hl y hf).symm hne
    · have := hplain a b hl y hf
      subst this
      exact ⟨a, hl, h.imp Eq.symm id⟩
  · rintro ⟨a, hl, h⟩
    exact ⟨(a, y), hl, Or.inl (Or.inl ⟨rfl, h.imp Eq.symm id⟩)⟩

theorem mtch_some {s : RM} {f : MatchFn} (h : s.matchFn = some f) : s.mtch = f := by
  funext a b; simp [RM.mtch, h]
theorem mtch_none {s : RM} (h : s.matchFn = none) : s.mtch = fun _ _ => false := by
  funext a b; simp [RM.mtch, h]

theorem EStar_erase {m : MatchFn} {L : List Link} (hnd : L.Nodup) {a b x y : Name} (hab : (a, b) ∈ L) :
    EStar m L x y ↔ EStar m (L.erase (a, b)) x y ∨ (y = b ∧ (x = a ∨ m x a = true)) := by
  unfold EStar
  simp only [hnd.mem_erase_iff]
  constructor
  · rintro ⟨c, hc, hx⟩
    by_cases he : (c, y) = (a, b)
    · simp only [Prod.mk.injEq] at he; obtain ⟨rfl, rfl⟩ := he; exact Or.inr ⟨rfl, hx⟩
    · exact Or.inl ⟨c, ⟨he, hc⟩, hx⟩
  · rintro (⟨c, ⟨_, hc⟩, hx⟩ | ⟨rfl, hx⟩)
    · exact ⟨c, hc, hx⟩
    · exact ⟨a, hab, hx⟩

/-- under the invariant the graph part of `delete_link` never raises and leaves exactly the effective edges
    of the remaining links -/
theorem delEdges_spec {t : RM} (hI : Inv t) {a b : Name} (hab : (a, b) ∈ t.allLinks) (ha : a ∈ t.nodes) :
    (t.delEdges (t.allLinks.erase (a, b)) a b).2 = none ∧
    ∀ x y, (x, y) ∈ (t.delEdges (t.allLinks.erase (a, b)) a b).1 ↔
      x ∈ t.nodes ∧ EStar t.mtch (t.allLinks.erase (a, b)) x y := by
  have hmem : ∀ l, l ∈ t.allLinks.erase (a, b) ↔ l ∈ t.allLinks ∧ l ≠ (a, b) := by
    intro l; rw [hI.nodup.mem_erase_iff]; exact and_comm
  unfold RM.delEdges
  cases hmf : t.matchFn with
  | none =>
    have hm0 := mtch_none hmf
    have hedge : (a, b) ∈ t.edges := (hI.edges a b).mpr ⟨ha, a, hab, Or.inl rfl⟩
    simp only [List.contains_iff_mem.mpr hedge, ↓reduceIte, true_and]
    intro x y
    simp only [List.mem_filter, bne_iff_ne, ne_eq, hI.edges]
    rw [EStar_erase hI.nodup hab]
    simp only [hm0, Bool.false_eq_true, or_false]
    constructor
    · rintro ⟨⟨hx, (hE | ⟨rfl, rfl⟩)⟩, hne⟩
      · exact ⟨hx, hE⟩
      · exact absurd rfl hne
    · rintro ⟨hx, hE⟩
      refine ⟨⟨hx, Or.inl hE⟩, ?_⟩
      intro he
      obtain ⟨c, hc, hxc⟩ := hE
      simp only [Bool.false_eq_true, or_false] at hxc
      subst hxc
      exact ((hmem _).mp hc).2 he
  | some f =>
    have hmf' := mtch_some hmf
    simp only [true_and]
    intro x y
    have hlk := @linked_iff f (t.allLinks.erase (a, b)) x y (by
      intro p q hpq; rw [← hmf']; exact hI.plain p q ((hmem _).mp hpq).1)
    simp only [List.mem_filter, hI.edges, Bool.not_eq_true', RM.gone]
    rw [EStar_erase hI.nodup hab, hmf']
    constructor
    · rintro ⟨⟨hx, hE⟩, hg⟩
      refine ⟨hx, ?_⟩
      rcases hE with hE | ⟨rfl, hxa⟩
      · exact hE
      · by_cases hl : linked f (t.allLinks.erase (a, y)) x y = true
        · exact hlk.mp hl
        · exfalso
          have hc : t.nodes.contains x = true := List.contains_iff_mem.mpr hx
          have hxa' : (x == a || f x a) = true := by
            rcases hxa with rfl | hxa <;> simp [*]
          simp [hxa', hl] at hg
          exact hg hx
    · rintro ⟨hx, hE⟩
      refine ⟨⟨hx, Or.inl hE⟩, ?_⟩
      simp [hlk.mpr hE]

theorem deleteLink_absent {s : RM} {a b : Name} (hab : (a, b) ∉ s.allLinks) : s.deleteLink a b = (s, none) := by
  unfold RM.deleteLink
  have : s.allLinks.contains (a, b) = false := by
    rw [Bool.eq_false_iff]; intro hc; exact hab (List.contains_iff_mem.mp hc)
  rw [this]; rfl

theorem deleteLink_present {s : RM} {a b : Name} (hab : (a, b) ∈ s.allLinks) :
    s.deleteLink a b =
      ({ ((s.getRole a).getRole b) with
          allLinks := s.allLinks.erase (a, b),
          edges := (((s.getRole a).getRole b).delEdges (s.allLinks.erase (a, b)) a b).1 },
       (((s.getRole a).getRole b).delEdges (s.allLinks.erase (a, b)) a b).2) := by
  unfold RM.deleteLink
  rw [List.contains_iff_mem.mpr hab]
  simp

/-- deleting a stored link never raises, removes exactly that link from the store and re-establishes the
    invariant; deleting an absent link changes nothing -/
theorem deleteLink_inv {s : RM} (ht : Trans s.mtch) (h : Inv s) (a b : Name) :
    Inv (s.deleteLink a b).1 ∧ (s.deleteLink a b).2 = none ∧
    (s.deleteLink a b).1.matchFn = s.matchFn ∧ (s.deleteLink a b).1.maxLevel = s.maxLevel ∧
    ∀ l, l ∈ (s.deleteLink a b).1.allLinks ↔ l ∈ s.allLinks ∧ l ≠ (a, b) := by
  by_cases hab : (a, b) ∈ s.allLinks
  · have ht1 : Trans (s.getRole a).mtch := by simpa using ht
    have hI := getRole_inv ht1 (getRole_inv ht h a) b
    have hL : ((s.getRole a).getRole b).allLinks = s.allLinks := by simp
    have hna : a ∈ ((s.getRole a).getRole b).nodes := mem_getRole2_nodes.mpr (Or.inr (Or.inl rfl))
    have hmem : ∀ l, l ∈ s.allLinks.erase (a, b) ↔ l ∈ s.allLinks ∧ l ≠ (a, b) := by
      intro l; rw [h.nodup.mem_erase_iff]; exact and_comm
    have hsp := delEdges_spec hI (by rw [hL]; exact hab) hna
    rw [hL] at hsp
    rw [deleteLink_present hab]
    refine ⟨⟨?_, ?_, ?_, ?_⟩, hsp.1, by simp, by simp, hmem⟩
    · exact h.nodup.erase _
    · intro x y hxy; exact hI.ends x y (by rw [hL]; exact ((hmem _).mp hxy).1)
    · intro x y hxy n hn
      exact hI.plain x y (by rw [hL]; exact ((hmem _).mp hxy).1) n hn
    · intro x y; exact hsp.2 x y
  · rw [deleteLink_absent hab]
    refine ⟨h, rfl, rfl, rfl, ?_⟩
    intro l
    constructor
    · intro hl; exact ⟨hl, fun he => hab (he ▸ hl)⟩
    · exact And.left

/-! ### queries -/

theorem PathR.mono {R S : Name → Name → Prop} (h : ∀ a b, R a b → S a b) {u v : Name} {n : Nat}
    (p : PathR R u v n) : PathR S u v n := by
  induction p with
  | refl u => exact .refl u
  | step he _ ih => exact .step (h _ _ he) ih

/-- paths in the graph = paths along the effective edges, from any existing node -/
theorem path_edges_iff {t : RM} (hI : Inv t) {u r : Name} (hu : u ∈ t.nodes) (n : Nat) :
    Path t.edges u r n ↔ PathR (EStar t.mtch t.allLinks) u r n := by
  rw [path_iff_pathR]
  constructor
  · exact PathR.mono (fun a b hab => ((hI.edges a b).mp hab).2)
  · intro p
    induction p with
    | refl u => exact .refl u
    | @step x y z k he _ ih =>
      have hy : y ∈ t.nodes := by obtain ⟨a, hab, _⟩ := he; exact (hI.ends a y hab).2
      exact .step ((hI.edges x y).mpr ⟨hu, he⟩) (ih hy)

theorem hasLink_fst (s : RM) (u r : Name) : (s.hasLink u r).1 = (s.getRole u).getRole r := rfl

/-- `has_link` ⇔ a path of fewer than `max_hierarchy_level` effective edges (every state satisfying the
    invariant, every matching function that is transitive) -/
theorem hasLink_iff_pathR {s : RM} (ht : Trans s.mtch) (h : Inv s) (u r : Name) :
    (s.hasLink u r).2 = true ↔ ∃ n, n < s.maxLevel ∧ PathR (EStar s.mtch s.allLinks) u r n := by
  have ht1 : Trans (s.getRole u).mtch := by simpa using ht
  have hI := getRole_inv ht1 (getRole_inv ht h u) r
  have hu : u ∈ ((s.getRole u).getRole r).nodes := mem_getRole2_nodes.mpr (Or.inr (Or.inl rfl))
  show bfs noMatch ((s.getRole u).getRole r).edges r ((s.getRole u).getRole r).maxLevel [u] = true ↔ _
  rw [bfs_iff noMatch _ r (by intro x hx; simp [noMatch] at hx)]
  simp only [getRole_maxLevel]
  constructor
  · rintro ⟨n, hn, p⟩; refine ⟨n, hn, ?_⟩; have := (path_edges_iff hI hu n).mp p; simpa using this
  · rintro ⟨n, hn, p⟩; refine ⟨n, hn, (path_edges_iff hI hu n).mpr ?_⟩; simpa using p

theorem hasLink_inv {s : RM} (ht : Trans s.mtch) (h : Inv s) (u r : Name) : Inv (s.hasLink u r).1 := by
  have ht1 : Trans (s.getRole u).mtch := by simpa using ht
  exact getRole_inv ht1 (getRole_inv ht h u) r

theorem getRoles_iff {s : RM} (ht : Trans s.mtch) (h : Inv s) (u r : Name) :
    r ∈ (s.getRoles u).2 ↔ EStar s.mtch s.allLinks u r := by
  have hI := getRole_inv ht h u
  show r ∈ succs (s.getRole u).edges u ↔ _
  rw [succs_mem, hI.edges]
  simp [mem_getRole_nodes]

theorem getUsers_iff {s : RM} (ht : Trans s.mtch) (h : Inv s) (r u : Name) :
    u ∈ (s.getUsers r).2 ↔ (u ∈ s.nodes ∨ u = r) ∧ EStar s.mtch s.allLinks u r := by
  have hI := getRole_inv ht h r
  show u ∈ preds (s.getRole r).edges r ↔ _
  rw [mem_preds, hI.edges]
  simp [mem_getRole_nodes]

theorem clear_inv (s : RM) : Inv s.clear := by
  refine ⟨by simp [RM.clear], ?_, ?_, ?_⟩ <;> simp [RM.clear, EStar]

/-! ### managers whose matching function only relates equal names (none registered, or the equality the
domain managers install) -/

def NoPat (s : RM) : Prop := ∀ x y, s.mtch x y = true → x = y

theorem NoPat.trans {s : RM} (h : NoPat s) : Trans s.mtch := by
  intro n p a h1 h2; have := h n p h1; subst this; exact h2

theorem NoPat.plain {s : RM} (h : NoPat s) (b n : Name) : s.mtch n b = true → n = b := h n b

theorem EStar_noPat {s : RM} (h : NoPat s) (x y : Name) : EStar s.mtch s.allLinks x y ↔ (x, y) ∈ s.allLinks := by
  unfold EStar
  constructor
  · rintro ⟨a, hab, (rfl | hx)⟩
    · exact hab
    · have := h x a hx; subst this; exact hab
  · intro hxy; exact ⟨x, hxy, Or.inl rfl⟩

/-- without patterns first sight of a name does not touch the graph -/
theorem getRole_edges_noPat {s : RM} (h : NoPat s) (n : Name) : (s.getRole n).edges = s.edges := by
  unfold RM.getRole
  split
  · rfl
  · rename_i hn
    have : (s.nodes.filter fun p => s.mtch n p) = [] := by
      rw [List.filter_eq_nil_iff]
      intro p hp hm
      have := h n p hm; subst this
      exact hn (List.contains_iff_mem.mpr hp)
    simp [this]

theorem getRole_noPat {s : RM} (h : NoPat s) (n : Name) : NoPat (s.getRole n) := by
  intro x y; simpa using h x y

/-! ### histories -/

/-- the calls a client can make on a role manager -/
inductive Op
  | add (a b : Name) | del (a b : Name) | has (u r : Name) | roles (n : Name) | users (n : Name) | clear

def step (s : RM) : Op → RM × Option Err
  | .add a b => (s.addLink a b, none)
  | .del a b => s.deleteLink a b
  | .has u r => ((s.hasLink u r).1, none)
  | .roles n => ((s.getRoles n).1, none)
  | .users n => ((s.getUsers n).1, none)
  | .clear => (s.clear, none)

/-- run a history, going on after an error as a client that catches the exception would -/
def run (s : RM) : List Op → RM
  | [] => s
  | op :: ops => run (step s op).1 ops

/-- the errors raised along a history -/
def errors (s : RM) : List Op → List Err
  | [] => []
  | op :: ops => (match (step s op).2 with | some e => [e] | none => []) ++ errors (step s op).1 ops

/-- how one call changes whether the assignment `l` is in force -/
def upd (b : Bool) (op : Op) (l : Link) : Bool :=
  match op with
  | .add a r => if (a, r) == l then true else b
  | .del a r => if (a, r) == l then false else b
  | .clear => false
  | _ => b

/-- **the assignments in force** after a history: `l` is in force iff the last `add`/`delete`/`clear`
    that concerns it was an `add` -/
def inForce (ops : List Op) (l : Link) : Bool := ops.foldl (fun b op => upd b op l) false

def fresh (maxLevel : Nat) (mf : Option MatchFn) : RM := { maxLevel := maxLevel, matchFn := mf }

theorem fresh_inv (L : Nat) (mf : Option MatchFn) : Inv (fresh L mf) := by
  refine ⟨by simp [fresh], ?_, ?_, ?_⟩ <;> simp [fresh, EStar]

@[simp] theorem clear_mtch (s : RM) : s.clear.mtch = s.mtch := rfl
@[simp] theorem clear_maxLevel (s : RM) : s.clear.maxLevel = s.maxLevel := rfl

/-- every call preserves the invariant, the matching function and the level; none raises; the store changes as
    `upd` says (the adds must respect "patterns on the user side") -/
theorem step_inv {s : RM} (ht : Trans s.mtch) (h : Inv s) (op : Op)
    (hop : ∀ a b, op = .add a b → ∀ n, s.mtch n b = true → n = b) :
    Inv (step s op).1 ∧ (step s op).2 = none ∧ (step s op).1.mtch = s.mtch ∧
    (step s op).1.maxLevel = s.maxLevel ∧
    ∀ l, l ∈ (step s op).1.allLinks ↔ upd (decide (l ∈ s.allLinks)) op l = true := by
  cases op with
  | add a b =>
    refine ⟨addLink_inv ht h a b (hop a b rfl), rfl, by simp [step], by simp [step], ?_⟩
    intro l
    simp only [step, addLink_allLinks, mem_insertE, upd]
    by_cases hl : (a, b) = l
    · simp [hl]
    · have : ((a, b) == l) = false := by simpa using hl
      simp [this]
      intro he; exact absurd he.symm hl
  | del a b =>
    obtain ⟨h1, h2, h3, h4, h5⟩ := deleteLink_inv ht h a b
    refine ⟨h1, h2, ?_, h4, ?_⟩
    · funext x y; simp [RM.mtch, step, h3]
    · intro l
      simp only [step, h5, upd]
      by_cases hl : (a, b) = l
      · simp [hl]
      · have : ((a, b) == l) = false := by simpa using hl
        simp [this]
        intro _ he; exact hl he.symm
  | has u r =>
    refine ⟨hasLink_inv ht h u r, rfl, by simp [step, hasLink_fst], by simp [step, hasLink_fst], ?_⟩
    intro l; simp [step, hasLink_fst, upd]
  | roles n =>
    refine ⟨getRole_inv ht h n, rfl, ?_, ?_, ?_⟩
    · show (s.getRole n).mtch = _; simp
    · show (s.getRole n).maxLevel = _; simp
    · intro l; show l ∈ (s.getRole n).allLinks ↔ _; simp [upd]
  | users n =>
    refine ⟨getRole_inv ht h n, rfl, ?_, ?_, ?_⟩
    · show (s.getRole n).mtch = _; simp
    · show (s.getRole n).maxLevel = _; simp
    · intro l; show l ∈ (s.getRole n).allLinks ↔ _; simp [upd]
  | clear =>
    refine ⟨clear_inv s, rfl, rfl, rfl, ?_⟩
    intro l; simp [step, RM.clear, upd]

/-- the adds of a history put patterns on the user side only: no other name matches an assigned role -/
def PlainRoles (m : MatchFn) (ops : List Op) : Prop :=
  ∀ a b, Op.add a b ∈ ops → ∀ n, m n b = true → n = b

theorem run_inv {s : RM} (ht : Trans s.mtch) (h : Inv s) (ops : List Op) (hops : PlainRoles s.mtch ops) :
    Inv (run s ops) ∧ errors s ops = [] ∧ (run s ops).mtch = s.mtch ∧ (run s ops).maxLevel = s.maxLevel ∧
    ∀ l, l ∈ (run s ops).allLinks ↔ ops.foldl (fun b op => upd b op l) (decide (l ∈ s.allLinks)) = true := by
  induction ops generalizing s with
  | nil => exact ⟨h, rfl, rfl, rfl, by simp [run]⟩
  | cons op ops ih =>
    obtain ⟨h1, h2, h3, h4, h5⟩ := step_inv ht h op (fun a b e => hops a b (by simp [e]))
    have := @ih (step s op).1 (by rw [h3]; exact ht) h1
      (by intro a b hab; rw [h3]; exact hops a b (List.mem_cons_of_mem _ hab))
    obtain ⟨i1, i2, i3, i4, i5⟩ := this
    refine ⟨i1, ?_, by rw [← h3]; exact i3, by rw [← h4]; exact i4, ?_⟩
    · simp [errors, h2, i2]
    · intro l
      rw [show run s (op :: ops) = run (step s op).1 ops from rfl, i5, List.foldl_cons]
      congr 2
      rw [Bool.eq_iff_iff]; simp [h5]

/-! ## C03, single manager: the theorems -/

theorem hasLink_edges_noPat {s : RM} (hp : NoPat s) (u r : Name) : (s.hasLink u r).1.edges = s.edges := by
  rw [hasLink_fst, getRole_edges_noPat (getRole_noPat hp u), getRole_edges_noPat hp]

/-- **hasLink_spec.** `has_link(u, r)` ⇔ `r` is reachable from `u` along the current edges by a path of fewer
    than `max_hierarchy_level` edges — every graph (cycles, self-loops, diamonds), every level, every state. -/
theorem hasLink_spec {s : RM} (hp : NoPat s) (u r : Name) :
    (s.hasLink u r).2 = true ↔ ∃ n, n < s.maxLevel ∧ Path s.edges u r n := by
  show bfs noMatch ((s.getRole u).getRole r).edges r ((s.getRole u).getRole r).maxLevel [u] = true ↔ _
  rw [bfs_iff noMatch _ r (by intro x hx; simp [noMatch] at hx)]
  have := hasLink_edges_noPat hp u r
  rw [hasLink_fst] at this
  simp [this]

/-- **hasLink_refl.** every name holds itself (as soon as the level allows looking at the start node at all) -/
theorem hasLink_refl (s : RM) (u : Name) (hL : 0 < s.maxLevel) : (s.hasLink u u).2 = true := by
  show bfs noMatch ((s.getRole u).getRole u).edges u ((s.getRole u).getRole u).maxLevel [u] = true
  simp only [getRole_maxLevel]
  obtain ⟨k, hk⟩ := Nat.exists_eq_succ_of_ne_zero (Nat.pos_iff_ne_zero.mp hL)
  rw [hk]; simp [bfs]

/-- **hasLink_depth_bound.** a role at the end of a path of exactly `max − 1` edges is held; a role all of
    whose paths have at least `max` edges is not -/
theorem hasLink_depth_bound {s : RM} (hp : NoPat s) (u r : Name) :
    (0 < s.maxLevel → Path s.edges u r (s.maxLevel - 1) → (s.hasLink u r).2 = true) ∧
    ((∀ n, Path s.edges u r n → s.maxLevel ≤ n) → (s.hasLink u r).2 = false) := by
  constructor
  · intro hL p
    exact (hasLink_spec hp u r).mpr ⟨_, by omega, p⟩
  · intro hall
    rw [Bool.eq_false_iff]
    intro ht
    obtain ⟨n, hn, p⟩ := (hasLink_spec hp u r).mp ht
    have := hall n p
    omega

/-- **getRoles_direct.** `get_roles` reports exactly the direct assignments -/
theorem getRoles_direct {s : RM} (hp : NoPat s) (u r : Name) : r ∈ (s.getRoles u).2 ↔ (u, r) ∈ s.edges := by
  show r ∈ succs (s.getRole u).edges u ↔ _
  rw [succs_mem, getRole_edges_noPat hp]

/-- **getUsers_direct.** `get_users` reports exactly the direct members -/
theorem getUsers_direct {s : RM} (hp : NoPat s) (r u : Name) : u ∈ (s.getUsers r).2 ↔ (u, r) ∈ s.edges := by
  show u ∈ preds (s.getRole r).edges r ↔ _
  rw [mem_preds, getRole_edges_noPat hp]

/-- **query_pure** (single manager): queries create nodes, never edges or stored links -/
theorem query_pure {s : RM} (hp : NoPat s) (u r : Name) :
    ((s.hasLink u r).1.edges = s.edges ∧ (s.hasLink u r).1.allLinks = s.allLinks) ∧
    ((s.getRoles u).1.edges = s.edges ∧ (s.getRoles u).1.allLinks = s.allLinks) ∧
    ((s.getUsers u).1.edges = s.edges ∧ (s.getUsers u).1.allLinks = s.allLinks) := by
  refine ⟨⟨hasLink_edges_noPat hp u r, by simp [hasLink_fst]⟩, ⟨?_, ?_⟩, ⟨?_, ?_⟩⟩
  · exact getRole_edges_noPat hp u
  · show (s.getRole u).allLinks = _; simp
  · exact getRole_edges_noPat hp u
  · show (s.getRole u).allLinks = _; simp

theorem fresh_noPat_none (L : Nat) : NoPat (fresh L none) := by intro x y h; simp [fresh, RM.mtch] at h
theorem fresh_noPat_eq (L : Nat) : NoPat (fresh L (some fun a b => a == b)) := by
  intro x y h; simpa [fresh, RM.mtch] using h

theorem edges_iff_links {s : RM} (hp : NoPat s) (h : Inv s) (l : Link) : l ∈ s.edges ↔ l ∈ s.allLinks := by
  obtain ⟨x, y⟩ := l
  rw [h.edges, EStar_noPat hp]
  constructor
  · exact And.right
  · intro hl; exact ⟨(h.ends x y hl).1, hl⟩

/-- **history_edges.** After ANY history of adds, deletes, queries and clears on a fresh manager — in every
    order, with repetitions — no call has raised and the graph consists exactly of the assignments in force
    (those whose last add/delete/clear was an add). -/
theorem history_edges (L : Nat) (mf : Option MatchFn) (hp : NoPat (fresh L mf)) (ops : List Op) :
    errors (fresh L mf) ops = [] ∧ ∀ l, l ∈ (run (fresh L mf) ops).edges ↔ inForce ops l = true := by
  obtain ⟨h1, h2, h3, _, h5⟩ := run_inv hp.trans (fresh_inv L mf) ops (fun a b _ n hn => hp n b hn)
  refine ⟨h2, ?_⟩
  intro l
  have hp' : NoPat (run (fresh L mf) ops) := by intro x y; rw [h3]; exact hp x y
  rw [edges_iff_links hp' h1, h5]
  simp [inForce, fresh]

/-- … hence after any history `has_link` is bounded reachability over the assignments in force -/
theorem history_hasLink (L : Nat) (mf : Option MatchFn) (hp : NoPat (fresh L mf)) (ops : List Op) (u r : Name) :
    ((run (fresh L mf) ops).hasLink u r).2 = true ↔
      ∃ n, n < L ∧ PathR (fun a b => inForce ops (a, b) = true) u r n := by
  obtain ⟨_, _, h3, h4, _⟩ := run_inv hp.trans (fresh_inv L mf) ops (fun a b _ n hn => hp n b hn)
  have hp' : NoPat (run (fresh L mf) ops) := by intro x y; rw [h3]; exact hp x y
  rw [hasLink_spec hp', h4]
  have he := (history_edges L mf hp ops).2
  constructor
  · rintro ⟨n, hn, p⟩
    exact ⟨n, hn, PathR.mono (fun a b hab => (he (a, b)).mp hab) ((path_iff_pathR _ _ _ _).mp p)⟩
  · rintro ⟨n, hn, p⟩
    exact ⟨n, hn, (path_iff_pathR _ _ _ _).mpr (PathR.mono (fun a b hab => (he (a, b)).mpr hab) p)⟩

/-! non-vacuity -/
example : NoPat (fresh 10 none) := fresh_noPat_none 10
example : (((fresh 10 none).addLink "a" "b").hasLink "a" "b").2 = true := by decide
example : Path ((fresh 3 none).addLink "a" "b" |>.addLink "b" "c").edges "a" "c" (3 - 1) :=
  .step (v := "b") (by decide) (.step (v := "c") (by decide) (.refl _))
example : (run (fresh 2 none) [.add "a" "b", .add "b" "c", .add "a" "b", .del "a" "b", .has "a" "c"]).edges = [("b", "c")] := by
  decide
example : inForce [.add "a" "b", .add "b" "c", .add "a" "b", .del "a" "b"] ("a", "b") = false := by decide
/-- the bound is exact: a chain of 2 edges is followed at level 3 and not at level 2 -/
example : (((fresh 3 none).addLink "a" "b" |>.addLink "b" "c").hasLink "a" "c").2 = true ∧
          (((fresh 2 none).addLink "a" "b" |>.addLink "b" "c").hasLink "a" "c").2 = false := by decide

/-! ## conditional links -/

theorem passes_getRole (s : RM) (n d : Name) : (s.getRole n).passes d = s.passes d := by
  funext e; simp [RM.passes]

theorem activeEdges_getRole {s : RM} (hp : NoPat s) (n d : Name) : (s.getRole n).activeEdges d = s.activeEdges d := by
  unfold RM.activeEdges
  rw [passes_getRole, getRole_edges_noPat hp]

/-- an edge is followed in domain `d` iff no condition is registered for (user, role, d) or the registered
    function returns true on the parameters stored for that key -/
theorem mem_activeEdges (s : RM) (d : Name) (e : Link) :
    e ∈ s.activeEdges d ↔ e ∈ s.edges ∧
      (∀ fn, s.condFns.lookup (e.1, e.2, d) = some fn → fn ((s.condParams.lookup (e.1, e.2, d)).getD []) = true) := by
  unfold RM.activeEdges RM.passes
  rw [List.mem_filter]
  cases h : s.condFns.lookup (e.1, e.2, d) <;> simp

/-- **conditional_iff.** the conditional manager answers true ⇔ the names are equal or there is a path of AT
    MOST `max_hierarchy_level` edges (one more than the plain manager follows) each of whose conditions — if
    it carries one — holds on its stored parameters -/
theorem conditional_iff {s : RM} (hp : NoPat s) (u r d : Name) :
    (s.condHasLink u r d).2 = true ↔ u = r ∨ ∃ n, n ≤ s.maxLevel ∧ Path (s.activeEdges d) u r n := by
  unfold RM.condHasLink
  split
  · rename_i h
    simp only [true_iff]
    simp only [Bool.or_eq_true, beq_iff_eq] at h
    exact Or.inl (h.elim id (hp u r))
  · rename_i h
    simp only [Bool.or_eq_true, beq_iff_eq, not_or] at h
    have hm : ∀ x, ((s.getRole u).getRole r).mtch x r = true → x = r := by
      intro x hx; exact hp x r (by simpa using hx)
    rw [bfs_iff _ _ r hm, activeEdges_getRole (getRole_noPat hp u), activeEdges_getRole hp]
    simp only [getRole_maxLevel, Nat.lt_succ_iff]
    constructor
    · exact Or.inr
    · rintro (rfl | h')
      · exact absurd rfl h.1
      · exact h'

/-- all conditions true = the unconditional graph; a false condition cuts its edge -/
example : let s := ((fresh 10 none).addLink "a" "b" |>.addLink "b" "c" |>.addCondFn "a" "b" "" (fun ps => ps.head? == some "T"))
    ((s.setCondParams "a" "b" "" ["T"]).condHasLink "a" "c" "").2 = true ∧
    ((s.setCondParams "a" "b" "" ["F"]).condHasLink "a" "c" "").2 = false := by decide
/-- the conditional search follows one edge more than the plain one -/
example : let s := ((fresh 1 none).addLink "a" "b")
    (s.condHasLink "a" "b" "").2 = true ∧ (s.hasLink "a" "b").2 = false := by decide

/-! ### a reload keeps the registered conditions (`ConditionalRoleManager.clear` after its repair) -/

theorem condClear_inv (s : RM) : Inv s.condClear := by
  refine ⟨by simp [RM.condClear], ?_, ?_, ?_⟩ <;> simp [RM.condClear, EStar]

@[simp] theorem condClear_condFns (s : RM) : s.condClear.condFns = s.condFns := rfl
@[simp] theorem condClear_edges (s : RM) : s.condClear.edges = [] := rfl
@[simp] theorem condClear_allLinks (s : RM) : s.condClear.allLinks = [] := rfl
@[simp] theorem addLink_condFns (s : RM) (a b : Name) : (s.addLink a b).condFns = s.condFns := by
  simp [RM.addLink]
@[simp] theorem setCondParams_condFns (s : RM) (a b d : Name) (ps : List String) :
    (s.setCondParams a b d ps).condFns = s.condFns := by
  simp [RM.setCondParams]

theorem lookup_assocSet_self {κ β} [BEq κ] [LawfulBEq κ] (k : κ) (v : β) (l : List (κ × β)) :
    (assocSet k v l).lookup k = some v := by
  induction l with
  | nil => simp [assocSet]
  | cons e rest ih =>
    obtain ⟨k', v'⟩ := e
    by_cases h : k' = k
    · subst h; simp [assocSet]
    · have h1 : (k' == k) = false := by simpa using h
      have h2 : (k == k') = false := by simpa using fun e : k = k' => h e.symm
      simp [assocSet, List.lookup, h1, h2, ih]

/-- **reload_keeps_conditions.** Whatever the state, after `clear` - the first step of every reload, rebuild and
    rollback - an assignment that is built again with parameters `ps` is followed exactly when the function that
    was registered for it BEFORE the clear returns true on `ps`: a reload cannot turn a conditional assignment
    into an unconditional one. (Before the repair `clear` emptied `condFns` and the right-hand side was `true`.) -/
theorem reload_keeps_conditions (s : RM) (a b d : Name) (ps : List String) (fn : CondFn)
    (h : s.condFns.lookup (a, b, d) = some fn) (t : RM) (ht : t.condFns = s.condClear.condFns) :
    ((t.addLink a b).setCondParams a b d ps).passes d (a, b) = fn ps := by
  unfold RM.passes
  simp only [setCondParams_condFns, addLink_condFns, ht, condClear_condFns, h]
  simp [RM.setCondParams, lookup_assocSet_self]

/-- the conditions of all keys survive any number of rebuilt links: `clear` + any adds leave `condFns` as it was -/
theorem condClear_foldl_addLink (s : RM) (ls : List Link) :
    (ls.foldl (fun t l => t.addLink l.1 l.2) s.condClear).condFns = s.condFns := by
  suffices ∀ t : RM, (ls.foldl (fun t l => t.addLink l.1 l.2) t).condFns = t.condFns from by
    rw [this]; rfl
  induction ls with
  | nil => intro t; rfl
  | cons l rest ih => intro t; simp [List.foldl, ih]

example : let s := ((fresh 10 none).addLink "a" "b" |>.addCondFn "a" "b" "" (fun ps => ps.head? == some "T")
                      |>.setCondParams "a" "b" "" ["F"])
    (s.condHasLink "a" "b" "").2 = false ∧
    (((s.condClear.addLink "a" "b").setCondParams "a" "b" "" ["F"]).condHasLink "a" "b" "").2 = false ∧
    (((s.condClear.addLink "a" "b").setCondParams "a" "b" "" ["T"]).condHasLink "a" "b" "").2 = true := by decide

/-! ## DomainManager: per-domain stores, lazily built caches -/

section assoc
variable {β : Type}

theorem lookup_some_mem {l : List (Name × β)} {k : Name} {v : β} (h : l.lookup k = some v) : (k, v) ∈ l := by
  induction l with
  | nil => simp at h
  | cons e l ih =>
    obtain ⟨k', v'⟩ := e
    simp only [List.lookup_cons] at h
    split at h
    · rename_i hk; simp only [beq_iff_eq] at hk; subst hk; simp only [Option.some.injEq] at h; subst h; simp
    · exact List.mem_cons_of_mem _ (ih h)

theorem lookup_none_not_key {l : List (Name × β)} {k : Name} (h : l.lookup k = none) : k ∉ l.map (·.1) := by
  induction l with
  | nil => simp
  | cons e l ih =>
    obtain ⟨k', v'⟩ := e
    simp only [List.lookup_cons] at h
    split at h
    · cases h
    · rename_i hk
      have hk' : k ≠ k' := by simpa using hk
      simp only [List.map_cons, List.mem_cons, not_or]
      exact ⟨hk', ih h⟩

theorem lookup_of_mem_nodup {l : List (Name × β)} (hn : (l.map (·.1)).Nodup) {k : Name} {v : β}
    (h : (k, v) ∈ l) : l.lookup k = some v := by
  induction l with
  | nil => simp at h
  | cons e l ih =>
    obtain ⟨k', v'⟩ := e
    simp only [List.map_cons, List.nodup_cons] at hn
    simp only [List.mem_cons, Prod.mk.injEq] at h
    simp only [List.lookup_cons]
    rcases h with ⟨rfl, rfl⟩ | h
    · simp
    · have : (k == k') = false := by
        rw [beq_eq_false_iff_ne]; rintro rfl
        exact hn.1 (List.mem_map.mpr ⟨(k, v), h, rfl⟩)
      rw [this]; exact ih hn.2 h

theorem assocPut_keys (k : Name) (v : β) (l : List (Name × β)) : (assocPut k v l).map (·.1) = l.map (·.1) := by
  unfold assocPut
  rw [List.map_map]
  apply List.map_congr_left
  intro e _
  simp only [Function.comp]
  split
  · rename_i h; simp only [beq_iff_eq] at h; exact h.symm
  · rfl

theorem mem_assocPut {k : Name} {v : β} {l : List (Name × β)} {e : Name × β} (h : e ∈ assocPut k v l) :
    e = (k, v) ∨ (e ∈ l ∧ e.1 ≠ k) := by
  unfold assocPut at h
  obtain ⟨e', he', rfl⟩ := List.mem_map.mp h
  split
  · exact Or.inl rfl
  · rename_i hne; simp only [beq_iff_eq] at hne; exact Or.inr ⟨he', hne⟩

end assoc

/-- link `l` is recorded for domain `d` -/
def _root_.Casbin.RM.DM.recorded (s : DM) (d : Name) (l : Link) : Prop := ∃ ls, (d, ls) ∈ s.allLinks ∧ l ∈ ls

/-- the store of domain `d'` applies to queries in domain `d`: its own, or — under a domain matching function —
    a recorded domain pattern that `d` matches -/
def _root_.Casbin.RM.DM.covers (s : DM) (d d' : Name) : Prop := d' = d ∨ ∃ dm, s.dmatchFn = some dm ∧ dm d d' = true

/-- the assignments that apply in domain `d` -/
def _root_.Casbin.RM.DM.eff (s : DM) (d : Name) (l : Link) : Prop := ∃ d', s.covers d d' ∧ s.recorded d' l

theorem mem_linksOf {s : DM} (hk : (s.allLinks.map (·.1)).Nodup) {d : Name} {l : Link} :
    l ∈ s.linksOf d ↔ s.recorded d l := by
  unfold DM.linksOf DM.recorded
  constructor
  · intro h
    cases hl : s.allLinks.lookup d with
    | none => simp [hl] at h
    | some ls => simp only [hl, Option.getD_some] at h; exact ⟨ls, lookup_some_mem hl, h⟩
  · rintro ⟨ls, hls, hl⟩
    simp [lookup_of_mem_nodup hk hls, hl]

theorem mem_effLinks {s : DM} (hk : (s.allLinks.map (·.1)).Nodup) {d : Name} {l : Link} :
    l ∈ s.effLinks d ↔ s.eff d l := by
  unfold DM.effLinks DM.eff DM.covers
  cases hdm : s.dmatchFn with
  | none =>
    simp only [mem_linksOf hk, reduceCtorEq, false_and, exists_false, or_false]
    constructor
    · intro h; exact ⟨d, rfl, h⟩
    · rintro ⟨d', rfl, h⟩; exact h
  | some dm =>
    simp only [List.mem_append, mem_linksOf hk, List.mem_flatMap, List.mem_filter, Bool.and_eq_true, bne_iff_ne,
      ne_eq, Option.some.injEq]
    constructor
    · rintro (h | ⟨⟨d', ls⟩, ⟨hmem, hne, hm⟩, hl⟩)
      · exact ⟨d, Or.inl rfl, h⟩
      · exact ⟨d', Or.inr ⟨dm, rfl, hm⟩, ls, hmem, hl⟩
    · rintro ⟨d', (rfl | ⟨dm', rfl, hm⟩), hrec⟩
      · exact Or.inl hrec
      · by_cases hdd : d = d'
        · subst hdd; exact Or.inl hrec
        · obtain ⟨ls, hmem, hl⟩ := hrec
          exact Or.inr ⟨(d', ls), ⟨hmem, hdd, hm⟩, hl⟩

/-- **Cache coherence.** Domain keys are unique, every per-domain store is a set, and every cached manager is
    a coherent `RoleManager` (graph invariant) over exactly the assignments that apply in its domain. The
    standing assumptions on the user supplied functions are carried along: the name matching function is
    transitive and relates no other name to an assigned role; NOTHING is assumed of the domain matching function
    (F36 repaired: a domain's own cached manager is always among the affected ones). -/
structure DInv (s : DM) : Prop where
  keys : (s.allLinks.map (·.1)).Nodup
  ckeys : (s.rmMap.map (·.1)).Nodup
  stores : ∀ d ls, (d, ls) ∈ s.allLinks → ls.Nodup
  trans : Trans s.matchFn
  plain : ∀ d l, s.recorded d l → ∀ n, s.matchFn n l.2 = true → n = l.2
  cache : ∀ d rm, (d, rm) ∈ s.rmMap →
    rm.maxLevel = s.maxLevel ∧ rm.matchFn = some s.matchFn ∧ Inv rm ∧ ∀ l, l ∈ rm.allLinks ↔ s.eff d l

theorem foldl_addLink {t : RM} (ht : Trans t.mtch) (h : Inv t) (ls : List Link)
    (hpl : ∀ l ∈ ls, ∀ n, t.mtch n l.2 = true → n = l.2) :
    Inv (ls.foldl (fun t l => t.addLink l.1 l.2) t) ∧
    (ls.foldl (fun t l => t.addLink l.1 l.2) t).matchFn = t.matchFn ∧
    (ls.foldl (fun t l => t.addLink l.1 l.2) t).maxLevel = t.maxLevel ∧
    ∀ l, l ∈ (ls.foldl (fun t l => t.addLink l.1 l.2) t).allLinks ↔ l ∈ t.allLinks ∨ l ∈ ls := by
  induction ls generalizing t with
  | nil => exact ⟨h, rfl, rfl, by simp⟩
  | cons x ls ih =>
    have hx := addLink_inv ht h x.1 x.2 (hpl x List.mem_cons_self)
    have := @ih (t.addLink x.1 x.2) (by simpa using ht) hx
      (by intro l hl n hn; exact hpl l (List.mem_cons_of_mem _ hl) n (by simpa using hn))
    obtain ⟨i1, i2, i3, i4⟩ := this
    refine ⟨i1, by simpa using i2, by simpa using i3, ?_⟩
    intro l
    rw [List.foldl_cons, i4, addLink_allLinks, mem_insertE, List.mem_cons]
    constructor
    · rintro ((rfl | h') | h')
      · exact Or.inr (Or.inl rfl)
      · exact Or.inl h'
      · exact Or.inr (Or.inr h')
    · rintro (h' | rfl | h')
      · exact Or.inl (Or.inr h')
      · exact Or.inl (Or.inl rfl)
      · exact Or.inr h'

theorem build_eq (s : DM) (d : Name) :
    s.build d = (s.effLinks d).foldl (fun t l => t.addLink l.1 l.2) (fresh s.maxLevel (some s.matchFn)) := rfl

theorem build_spec {s : DM} (h : DInv s) (d : Name) :
    (s.build d).maxLevel = s.maxLevel ∧ (s.build d).matchFn = some s.matchFn ∧ Inv (s.build d) ∧
    ∀ l, l ∈ (s.build d).allLinks ↔ s.eff d l := by
  rw [build_eq]
  have := foldl_addLink (t := fresh s.maxLevel (some s.matchFn)) h.trans (fresh_inv _ _) (s.effLinks d) (by
    intro l hl n hn
    obtain ⟨d', _, hrec⟩ := (mem_effLinks h.keys).mp hl
    exact h.plain d' l hrec n hn)
  obtain ⟨i1, i2, i3, i4⟩ := this
  refine ⟨i3, i2, i1, ?_⟩
  intro l; rw [i4, mem_effLinks h.keys]; simp [fresh]

theorem eff_congr {s s' : DM} (h1 : s'.allLinks = s.allLinks) (h2 : s'.dmatchFn = s.dmatchFn) : s'.eff = s.eff := by
  funext d l; simp only [DM.eff, DM.covers, DM.recorded, h1, h2]

theorem recorded_congr {s s' : DM} (h1 : s'.allLinks = s.allLinks) : s'.recorded = s.recorded := by
  funext d l; simp only [DM.recorded, h1]

/-- replacing the cached manager of `d` by another coherent one keeps the invariant -/
theorem put_inv {s : DM} (h : DInv s) (d : Name) (rm : RM)
    (hrm : rm.maxLevel = s.maxLevel ∧ rm.matchFn = some s.matchFn ∧ Inv rm ∧ ∀ l, l ∈ rm.allLinks ↔ s.eff d l) :
    DInv { s with rmMap := assocPut d rm s.rmMap } := by
  refine ⟨h.keys, ?_, h.stores, h.trans, h.plain, ?_⟩
  · show ((assocPut d rm s.rmMap).map (·.1)).Nodup
    rw [assocPut_keys]; exact h.ckeys
  · intro d' rm' hmem
    rcases mem_assocPut hmem with he | ⟨he, _⟩
    · simp only [Prod.mk.injEq] at he; obtain ⟨rfl, rfl⟩ := he; exact hrm
    · exact h.cache d' rm' he

/-- `_get_role_manager`: a cache miss builds a coherent manager from the store; nothing else changes -/
theorem getRM_spec {s : DM} (h : DInv s) (d : Name) :
    DInv (s.getRM d).1 ∧ (s.getRM d).1.rmMap.lookup d = some (s.getRM d).2 ∧
    (s.getRM d).1.allLinks = s.allLinks ∧ (s.getRM d).1.dmatchFn = s.dmatchFn ∧
    (s.getRM d).1.matchFn = s.matchFn ∧ (s.getRM d).1.maxLevel = s.maxLevel := by
  unfold DM.getRM
  cases hl : s.rmMap.lookup d with
  | some rm => exact ⟨h, hl, rfl, rfl, rfl, rfl⟩
  | none =>
    have hnk := lookup_none_not_key hl
    refine ⟨⟨h.keys, ?_, h.stores, h.trans, h.plain, ?_⟩, ?_, rfl, rfl, rfl, rfl⟩
    · show ((s.rmMap ++ [(d, s.build d)]).map (·.1)).Nodup
      rw [List.map_append, List.nodup_append]
      refine ⟨h.ckeys, by simp, ?_⟩
      intro a ha b hb
      simp only [List.map_cons, List.map_nil, List.mem_singleton] at hb
      subst hb; rintro rfl; exact hnk ha
    · intro d' rm' hmem
      have hmem' : (d', rm') ∈ s.rmMap ++ [(d, s.build d)] := hmem
      rw [List.mem_append] at hmem'
      rcases hmem' with hm | hm
      · exact h.cache d' rm' hm
      · simp only [List.mem_singleton, Prod.mk.injEq] at hm
        obtain ⟨rfl, rfl⟩ := hm
        exact build_spec h d'
    · show (s.rmMap ++ [(d, s.build d)]).lookup d = some (s.build d)
      apply lookup_of_mem_nodup
      · rw [List.map_append, List.nodup_append]
        refine ⟨h.ckeys, by simp, ?_⟩
        intro a ha b hb
        simp only [List.map_cons, List.map_nil, List.mem_singleton] at hb
        subst hb; rintro rfl; exact hnk ha
      · simp

theorem rm_mtch_of_matchFn {rm : RM} {f : MatchFn} (h : rm.matchFn = some f) : rm.mtch = f := mtch_some h

/-- **domain_scoped / domain_pattern_iff (state form).** In every coherent state `has_link(u, r, d)` ⇔ `r` is
    reachable from `u` in fewer than `max_hierarchy_level` effective edges over the assignments that apply in
    `d` (`mem_effLinks`: recorded for `d`, or for a domain pattern that `d` matches) — whether or not the
    domain had been queried before; and the query keeps the state coherent and the stores untouched. -/
theorem dm_hasLink_spec {s : DM} (h : DInv s) (u r d : Name) :
    ((s.hasLink u r d).2 = true ↔
      ∃ n, n < s.maxLevel ∧ PathR (EStar s.matchFn (s.effLinks d)) u r n) ∧
    DInv (s.hasLink u r d).1 ∧ (s.hasLink u r d).1.allLinks = s.allLinks ∧
    (s.hasLink u r d).1.dmatchFn = s.dmatchFn ∧ (s.hasLink u r d).1.matchFn = s.matchFn ∧
    (s.hasLink u r d).1.maxLevel = s.maxLevel := by
  obtain ⟨g1, g2, g3, g4, g5, g6⟩ := getRM_spec h d
  have hc := g1.cache d _ (lookup_some_mem g2)
  rw [g6, g5, eff_congr g3 g4] at hc
  obtain ⟨c1, c2, c3, c4⟩ := hc
  have hm := rm_mtch_of_matchFn c2
  have hE : ∀ x y, EStar s.matchFn (s.getRM d).2.allLinks x y ↔ EStar s.matchFn (s.effLinks d) x y := by
    intro x y; unfold EStar; simp only [c4, mem_effLinks h.keys]
  refine ⟨?_, ?_, g3, g4, g5, g6⟩
  · show ((s.getRM d).2.hasLink u r).2 = true ↔ _
    rw [hasLink_iff_pathR (by rw [hm]; exact h.trans) c3, hm, c1]
    constructor
    · rintro ⟨n, hn, p⟩; exact ⟨n, hn, PathR.mono (fun x y => (hE x y).mp) p⟩
    · rintro ⟨n, hn, p⟩; exact ⟨n, hn, PathR.mono (fun x y => (hE x y).mpr) p⟩
  · show DInv { (s.getRM d).1 with rmMap := assocPut d ((s.getRM d).2.hasLink u r).1 (s.getRM d).1.rmMap }
    apply put_inv g1
    rw [g6, g5, eff_congr g3 g4]
    refine ⟨by simp [hasLink_fst, c1], by simp [hasLink_fst, c2], hasLink_inv (by rw [hm]; exact h.trans) c3 u r, ?_⟩
    intro l; rw [← c4]; simp [hasLink_fst]

theorem dm_getRoles_spec {s : DM} (h : DInv s) (n d : Name) :
    (∀ r, r ∈ (s.getRoles n d).2 ↔ EStar s.matchFn (s.effLinks d) n r) ∧
    DInv (s.getRoles n d).1 ∧ (s.getRoles n d).1.allLinks = s.allLinks ∧
    (s.getRoles n d).1.dmatchFn = s.dmatchFn ∧ (s.getRoles n d).1.matchFn = s.matchFn ∧
    (s.getRoles n d).1.maxLevel = s.maxLevel := by
  obtain ⟨g1, g2, g3, g4, g5, g6⟩ := getRM_spec h d
  have hc := g1.cache d _ (lookup_some_mem g2)
  rw [g6, g5, eff_congr g3 g4] at hc
  obtain ⟨c1, c2, c3, c4⟩ := hc
  have hm := rm_mtch_of_matchFn c2
  refine ⟨?_, ?_, g3, g4, g5, g6⟩
  · intro r
    show r ∈ ((s.getRM d).2.getRoles n).2 ↔ _
    rw [getRoles_iff (by rw [hm]; exact h.trans) c3, hm]
    unfold EStar; simp only [c4, mem_effLinks h.keys]
  · show DInv { (s.getRM d).1 with rmMap := assocPut d ((s.getRM d).2.getRole n) (s.getRM d).1.rmMap }
    apply put_inv g1
    rw [g6, g5, eff_congr g3 g4]
    refine ⟨by simp [c1], by simp [c2], getRole_inv (by rw [hm]; exact h.trans) c3 n, ?_⟩
    intro l; rw [← c4]; simp

theorem dm_getUsers_spec {s : DM} (h : DInv s) (hnp : ∀ x y, s.matchFn x y = true → x = y) (n d : Name) :
    (∀ u, u ∈ (s.getUsers n d).2 ↔ (u, n) ∈ s.effLinks d) ∧
    DInv (s.getUsers n d).1 ∧ (s.getUsers n d).1.allLinks = s.allLinks ∧
    (s.getUsers n d).1.dmatchFn = s.dmatchFn ∧ (s.getUsers n d).1.matchFn = s.matchFn ∧
    (s.getUsers n d).1.maxLevel = s.maxLevel := by
  obtain ⟨g1, g2, g3, g4, g5, g6⟩ := getRM_spec h d
  have hc := g1.cache d _ (lookup_some_mem g2)
  rw [g6, g5, eff_congr g3 g4] at hc
  obtain ⟨c1, c2, c3, c4⟩ := hc
  have hm := rm_mtch_of_matchFn c2
  have hp : NoPat (s.getRM d).2 := by intro x y; rw [hm]; exact hnp x y
  refine ⟨?_, ?_, g3, g4, g5, g6⟩
  · intro u
    show u ∈ ((s.getRM d).2.getUsers n).2 ↔ _
    rw [getUsers_direct hp, edges_iff_links hp c3, c4, mem_effLinks h.keys]
  · show DInv { (s.getRM d).1 with rmMap := assocPut d ((s.getRM d).2.getRole n) (s.getRM d).1.rmMap }
    apply put_inv g1
    rw [g6, g5, eff_congr g3 g4]
    refine ⟨by simp [c1], by simp [c2], getRole_inv (by rw [hm]; exact h.trans) c3 n, ?_⟩
    intro l; rw [← c4]; simp

/-! ### stores -/

theorem touch_keys_mem (s : DM) (d : Name) : d ∈ (s.touch d).allLinks.map (·.1) := by
  unfold DM.touch
  split
  · rename_i h
    obtain ⟨ls, hls⟩ := Option.isSome_iff_exists.mp h
    exact List.mem_map.mpr ⟨((d, ls) : Name × List Link), lookup_some_mem hls, rfl⟩
  · simp

theorem touch_recorded (s : DM) (d : Name) : (s.touch d).recorded = s.recorded := by
  funext d' l
  unfold DM.touch
  split
  · rfl
  · simp only [DM.recorded, List.mem_append, List.mem_singleton, Prod.mk.injEq, eq_iff_iff]
    constructor
    · rintro ⟨ls, (h | ⟨_, rfl⟩), hl⟩
      · exact ⟨ls, h, hl⟩
      · simp at hl
    · rintro ⟨ls, h, hl⟩; exact ⟨ls, Or.inl h, hl⟩

theorem touch_eff (s : DM) (d : Name) : (s.touch d).eff = s.eff := by
  funext d0 l
  have hr := touch_recorded s d
  have hd : (s.touch d).dmatchFn = s.dmatchFn := by unfold DM.touch; split <;> rfl
  simp only [DM.eff, DM.covers, hr, hd]

theorem touch_inv {s : DM} (h : DInv s) (d : Name) : DInv (s.touch d) := by
  have hr := touch_recorded s d
  have he := touch_eff s d
  unfold DM.touch at *
  split
  · exact h
  · rename_i hn
    have hnone : s.allLinks.lookup d = none := by
      cases hh : s.allLinks.lookup d with
      | none => rfl
      | some v => simp [hh] at hn
    simp only [hn, Bool.false_eq_true, ↓reduceIte] at hr he
    refine ⟨?_, h.ckeys, ?_, h.trans, ?_, ?_⟩
    · show ((s.allLinks ++ [((d, []) : Name × List Link)]).map (·.1)).Nodup
      rw [List.map_append, List.nodup_append]
      refine ⟨h.keys, by simp, ?_⟩
      intro a ha b hb
      simp only [List.map_cons, List.map_nil, List.mem_singleton] at hb
      subst hb; rintro rfl; exact lookup_none_not_key hnone ha
    · intro d' ls hmem
      have hmem' : (d', ls) ∈ s.allLinks ++ [(d, [])] := hmem
      rw [List.mem_append] at hmem'
      rcases hmem' with hm | hm
      · exact h.stores d' ls hm
      · simp only [List.mem_singleton, Prod.mk.injEq] at hm; rw [hm.2]; exact List.nodup_nil
    · rw [hr]; exact h.plain
    · rw [he]; exact h.cache

/-- the store update of `add_link` / `delete_link`: rewrite the entry of `d` -/
def setStore (s : DM) (d : Name) (f : List Link → List Link) : DM :=
  { s with allLinks := s.allLinks.map fun (e : Name × List Link) => if e.1 == d then (e.1, f e.2) else e }

theorem setStore_keys (s : DM) (d : Name) (f : List Link → List Link) :
    (setStore s d f).allLinks.map (·.1) = s.allLinks.map (·.1) := by
  unfold setStore
  simp only [List.map_map]
  apply List.map_congr_left
  intro e _
  simp only [Function.comp]
  split <;> rfl

theorem mem_setStore {s : DM} {d : Name} {f : List Link → List Link} {d' : Name} {ls' : List Link} :
    (d', ls') ∈ (setStore s d f).allLinks ↔
      ∃ ls, (d', ls) ∈ s.allLinks ∧ ls' = if d' = d then f ls else ls := by
  unfold setStore
  simp only [List.mem_map]
  constructor
  · rintro ⟨⟨k, ls⟩, hmem, he⟩
    by_cases hk : k = d
    · subst hk; simp only [beq_self_eq_true, ↓reduceIte, Prod.mk.injEq] at he
      obtain ⟨rfl, rfl⟩ := he; exact ⟨ls, hmem, by simp⟩
    · have : (k == d) = false := by simpa using hk
      simp only [this, Bool.false_eq_true, ↓reduceIte, Prod.mk.injEq] at he
      obtain ⟨rfl, rfl⟩ := he; exact ⟨ls, hmem, by simp [hk]⟩
  · rintro ⟨ls, hmem, rfl⟩
    refine ⟨(d', ls), hmem, ?_⟩
    by_cases hk : d' = d
    · subst hk; simp
    · have : (d' == d) = false := by simpa using hk
      simp [this, hk]

theorem setStore_dmatchFn (s : DM) (d : Name) (f : List Link → List Link) : (setStore s d f).dmatchFn = s.dmatchFn := rfl

theorem recorded_setStore_insert {s : DM} {d : Name} (hk : d ∈ s.allLinks.map (·.1)) (a b d' : Name) (l : Link) :
    (setStore s d (insertE (a, b))).recorded d' l ↔ s.recorded d' l ∨ (d' = d ∧ l = (a, b)) := by
  unfold DM.recorded
  simp only [mem_setStore]
  constructor
  · rintro ⟨ls', ⟨ls, hmem, rfl⟩, hl⟩
    by_cases hd : d' = d
    · simp only [hd, ↓reduceIte, mem_insertE] at hl
      rcases hl with rfl | hl
      · exact Or.inr ⟨hd, rfl⟩
      · exact Or.inl ⟨ls, hmem, hl⟩
    · simp only [hd, ↓reduceIte] at hl; exact Or.inl ⟨ls, hmem, hl⟩
  · rintro (⟨ls, hmem, hl⟩ | ⟨rfl, rfl⟩)
    · refine ⟨_, ⟨ls, hmem, rfl⟩, ?_⟩
      split
      · exact mem_insertE.mpr (Or.inr hl)
      · exact hl
    · obtain ⟨⟨k, ls⟩, hmem, hk'⟩ := List.mem_map.mp hk
      simp only at hk'; subst hk'
      exact ⟨_, ⟨ls, hmem, rfl⟩, by simp [mem_insertE]⟩

theorem recorded_setStore_erase {s : DM} {d : Name} (hs : ∀ d ls, (d, ls) ∈ s.allLinks → ls.Nodup)
    (a b d' : Name) (l : Link) :
    (setStore s d (fun ls => ls.erase (a, b))).recorded d' l ↔ s.recorded d' l ∧ ¬ (d' = d ∧ l = (a, b)) := by
  unfold DM.recorded
  simp only [mem_setStore]
  constructor
  · rintro ⟨ls', ⟨ls, hmem, rfl⟩, hl⟩
    by_cases hd : d' = d
    · simp only [hd, ↓reduceIte, (hs _ _ hmem).mem_erase_iff] at hl
      exact ⟨⟨ls, hmem, hl.2⟩, fun h => hl.1 h.2⟩
    · simp only [hd, ↓reduceIte] at hl; exact ⟨⟨ls, hmem, hl⟩, fun h => hd h.1⟩
  · rintro ⟨⟨ls, hmem, hl⟩, hne⟩
    refine ⟨_, ⟨ls, hmem, rfl⟩, ?_⟩
    split
    · rename_i hd
      rw [(hs _ _ hmem).mem_erase_iff]
      exact ⟨fun h => hne ⟨hd, h⟩, hl⟩
    · exact hl

/-- (F36 repaired; for ANY domain matching function) "affected" (which cached managers `add_link`/`delete_link`
    update) and "covers" (which stores a new manager is built from) are the same relation -/
theorem affected_iff {s : DM} (d0 d : Name) :
    s.affected d0 d = true ↔ s.covers d0 d := by
  unfold DM.affected DM.covers
  cases hdm : s.dmatchFn with
  | none =>
    simp only [beq_iff_eq, reduceCtorEq, false_and, exists_false, or_false]
    exact eq_comm
  | some dm =>
    simp only [Bool.or_eq_true, beq_iff_eq]
    constructor
    · rintro (h | h)
      · exact Or.inl h.symm
      · exact Or.inr ⟨dm, rfl, h⟩
    · rintro (rfl | ⟨dm', he, h⟩)
      · exact Or.inl rfl
      · simp only [Option.some.injEq] at he; subst he; exact Or.inr h

theorem map_keys {β} (l : List (Name × β)) (f : Name × β → Name × β) (hf : ∀ e, (f e).1 = e.1) :
    (l.map f).map (·.1) = l.map (·.1) := by
  rw [List.map_map]; apply List.map_congr_left; intro e _; exact hf e

/-- **coherence is preserved by `add_link`** (cached or not, with or without a domain matching function) and the
    link is recorded for exactly that domain -/
theorem dm_addLink_spec {s : DM} (h : DInv s) (a b d : Name) (hb : ∀ n, s.matchFn n b = true → n = b) :
    DInv (s.addLink a b d) ∧
    (∀ d' l, (s.addLink a b d).recorded d' l ↔ s.recorded d' l ∨ (d' = d ∧ l = (a, b))) ∧
    (s.addLink a b d).dmatchFn = s.dmatchFn ∧ (s.addLink a b d).matchFn = s.matchFn ∧
    (s.addLink a b d).maxLevel = s.maxLevel := by
  have h1 := touch_inv h d
  have hk := touch_keys_mem s d
  have hm1 : (s.touch d).matchFn = s.matchFn := by unfold DM.touch; split <;> rfl
  have hd1 : (s.touch d).dmatchFn = s.dmatchFn := by unfold DM.touch; split <;> rfl
  have hl1 : (s.touch d).maxLevel = s.maxLevel := by unfold DM.touch; split <;> rfl
  have hc1 : (s.touch d).rmMap = s.rmMap := by unfold DM.touch; split <;> rfl
  have hrec : ∀ d' l, (setStore (s.touch d) d (insertE (a, b))).recorded d' l ↔ s.recorded d' l ∨ (d' = d ∧ l = (a, b)) := by
    intro d' l; rw [recorded_setStore_insert hk, touch_recorded]
  have heq : s.addLink a b d =
      { setStore (s.touch d) d (insertE (a, b)) with
        rmMap := (s.touch d).rmMap.map fun (e : Name × RM) =>
          if (s.touch d).affected e.1 d then (e.1, e.2.addLink a b) else e } := rfl
  have hrec' : (s.addLink a b d).recorded = (setStore (s.touch d) d (insertE (a, b))).recorded := by rw [heq]; rfl
  have hcov : ∀ d0 d', (s.addLink a b d).covers d0 d' ↔ s.covers d0 d' := by
    intro d0 d'; rw [heq]; simp only [DM.covers, setStore_dmatchFn, hd1]
  have heff : ∀ d0 l, (s.addLink a b d).eff d0 l ↔ s.eff d0 l ∨ (s.covers d0 d ∧ l = (a, b)) := by
    intro d0 l
    simp only [DM.eff, hcov, hrec', hrec]
    constructor
    · rintro ⟨d', hc, (hr | ⟨rfl, rfl⟩)⟩
      · exact Or.inl ⟨d', hc, hr⟩
      · exact Or.inr ⟨hc, rfl⟩
    · rintro (⟨d', hc, hr⟩ | ⟨hc, rfl⟩)
      · exact ⟨d', hc, Or.inl hr⟩
      · exact ⟨d, hc, Or.inr ⟨rfl, rfl⟩⟩
  have hM : (s.addLink a b d).matchFn = s.matchFn := by rw [heq]; exact hm1
  have hD : (s.addLink a b d).dmatchFn = s.dmatchFn := by rw [heq]; exact hd1
  have hLv : (s.addLink a b d).maxLevel = s.maxLevel := by rw [heq]; exact hl1
  refine ⟨⟨?_, ?_, ?_, by rw [hM]; exact h.trans, ?_, ?_⟩, ?_, hD, hM, hLv⟩
  · rw [heq]; show ((setStore (s.touch d) d (insertE (a, b))).allLinks.map (·.1)).Nodup
    rw [setStore_keys]; exact h1.keys
  · rw [heq]
    show (((s.touch d).rmMap.map fun (e : Name × RM) =>
          if (s.touch d).affected e.1 d then (e.1, e.2.addLink a b) else e).map (·.1)).Nodup
    rw [map_keys _ _ (by intro e; split <;> rfl)]; exact h1.ckeys
  · intro d' ls' hmem
    rw [heq] at hmem
    obtain ⟨ls, hls, rfl⟩ := mem_setStore.mp hmem
    split
    · exact nodup_insertE (h1.stores d' ls hls)
    · exact h1.stores d' ls hls
  · intro d' l hr n hn
    rw [hrec', hrec] at hr
    rw [hM] at hn
    rcases hr with hr | ⟨_, rfl⟩
    · exact h.plain d' l hr n hn
    · exact hb n hn
  · intro d0 rm' hmem
    rw [heq] at hmem
    obtain ⟨⟨k, rm⟩, hrm, he⟩ := List.mem_map.mp hmem
    rw [hc1] at hrm
    obtain ⟨c1, c2, c3, c4⟩ := h.cache k rm hrm
    have hm := rm_mtch_of_matchFn c2
    have haff : (s.touch d).affected k d = s.affected k d := by simp only [DM.affected, hd1]
    rw [haff] at he
    by_cases hA : s.affected k d = true
    · simp only [hA, ↓reduceIte, Prod.mk.injEq] at he
      obtain ⟨rfl, rfl⟩ := he
      refine ⟨by rw [hLv]; simp [c1], by rw [hM]; simp [c2], addLink_inv (by rw [hm]; exact h.trans) c3 a b (by rw [hm]; exact hb), ?_⟩
      intro l
      rw [addLink_allLinks, mem_insertE, c4, heff]
      have := (affected_iff k d).mp hA
      constructor
      · rintro (rfl | h') ; exact Or.inr ⟨this, rfl⟩; exact Or.inl h'
      · rintro (h' | ⟨_, rfl⟩) ; exact Or.inr h'; exact Or.inl rfl
    · simp only [hA, Bool.false_eq_true, ↓reduceIte, Prod.mk.injEq] at he
      obtain ⟨rfl, rfl⟩ := he
      refine ⟨by rw [hLv]; exact c1, by rw [hM]; exact c2, c3, ?_⟩
      intro l
      rw [c4, heff]
      have : ¬ s.covers k d := fun hc => hA ((affected_iff k d).mpr hc)
      constructor
      · exact Or.inl
      · rintro (h' | ⟨hc, _⟩) ; exact h'; exact absurd hc this
  · intro d' l; rw [hrec', hrec]

theorem deleteInCaches_spec (aff : Name → Bool) (a b : Name) (l : List (Name × RM))
    (hall : ∀ e ∈ l, aff e.1 = true → (e.2.deleteLink a b).2 = none) :
    deleteInCaches aff a b l =
      (l.map fun (e : Name × RM) => if aff e.1 then (e.1, (e.2.deleteLink a b).1) else e, none) := by
  induction l with
  | nil => rfl
  | cons e l ih =>
    obtain ⟨d, rm⟩ := e
    have ih' := ih (fun e he => hall e (List.mem_cons_of_mem _ he))
    unfold deleteInCaches
    by_cases hd : aff d = true
    · have hn := hall (d, rm) List.mem_cons_self hd
      simp only at hn
      simp only [hd, ↓reduceIte, List.map_cons]
      cases hdl : rm.deleteLink a b with
      | mk rm' e =>
        rw [hdl] at hn; simp only at hn; subst hn
        simp only [ih']
    · simp only [hd, Bool.false_eq_true, ↓reduceIte, List.map_cons, ih']

/-- a state with the same functions and level, its own coherent stores and coherent caches is coherent -/
theorem dinv_with_caches {s s2 : DM} (h : DInv s) (m : List (Name × RM))
    (hk : (s2.allLinks.map (·.1)).Nodup) (hck : (m.map (·.1)).Nodup)
    (hst : ∀ d ls, (d, ls) ∈ s2.allLinks → ls.Nodup)
    (hm : s2.matchFn = s.matchFn) (hd : s2.dmatchFn = s.dmatchFn) (hl : s2.maxLevel = s.maxLevel)
    (hplain : ∀ d l, s2.recorded d l → ∀ n, s.matchFn n l.2 = true → n = l.2)
    (hcache : ∀ d0 rm, (d0, rm) ∈ m →
      rm.maxLevel = s.maxLevel ∧ rm.matchFn = some s.matchFn ∧ Inv rm ∧ ∀ l, l ∈ rm.allLinks ↔ s2.eff d0 l) :
    DInv { s2 with rmMap := m } := by
  refine ⟨hk, hck, hst, ?_, ?_, ?_⟩
  · show Trans s2.matchFn; rw [hm]; exact h.trans
  · show ∀ d l, s2.recorded d l → ∀ n, s2.matchFn n l.2 = true → n = l.2; rw [hm]; exact hplain
  · intro d0 rm hmem
    show rm.maxLevel = s2.maxLevel ∧ rm.matchFn = some s2.matchFn ∧ Inv rm ∧ ∀ l, l ∈ rm.allLinks ↔ s2.eff d0 l
    rw [hm, hl]; exact hcache d0 rm hmem

/-- **coherence is preserved by `delete_link`**: it never raises; deleting an unrecorded link changes no
    assignment; deleting a recorded one removes exactly that (domain, link) record, whatever
    caches exist (F23 repaired: under a domain matching function the affected caches are dropped) -/
theorem dm_deleteLink_spec {s : DM} (h : DInv s) (a b d : Name) :
    DInv (s.deleteLink a b d).1 ∧
    (s.deleteLink a b d).1.dmatchFn = s.dmatchFn ∧ (s.deleteLink a b d).1.matchFn = s.matchFn ∧
    (s.deleteLink a b d).1.maxLevel = s.maxLevel ∧
    (¬ s.recorded d (a, b) →
      (s.deleteLink a b d).2 = none ∧ (s.deleteLink a b d).1.recorded = s.recorded) ∧
    (s.recorded d (a, b) →
      (s.deleteLink a b d).2 = none ∧
      ∀ d' l, (s.deleteLink a b d).1.recorded d' l ↔ s.recorded d' l ∧ ¬ (d' = d ∧ l = (a, b))) := by
  have h1 := touch_inv h d
  have hm1 : (s.touch d).matchFn = s.matchFn := by unfold DM.touch; split <;> rfl
  have hd1 : (s.touch d).dmatchFn = s.dmatchFn := by unfold DM.touch; split <;> rfl
  have hl1 : (s.touch d).maxLevel = s.maxLevel := by unfold DM.touch; split <;> rfl
  have hc1 : (s.touch d).rmMap = s.rmMap := by unfold DM.touch; split <;> rfl
  have hrec1 := touch_recorded s d
  have hmemL : (a, b) ∈ (s.touch d).linksOf d ↔ s.recorded d (a, b) := by rw [mem_linksOf h1.keys, hrec1]
  by_cases hR : s.recorded d (a, b)
  · -- the link is recorded
    have hcont : ((s.touch d).linksOf d).contains (a, b) = true := List.contains_iff_mem.mpr (hmemL.mpr hR)
    generalize hs2 : setStore (s.touch d) d (fun ls => ls.erase (a, b)) = s2
    have heq : s.deleteLink a b d = ({ s2 with rmMap := (s2.delCaches a b d).1 }, (s2.delCaches a b d).2) := by
      rw [← hs2]; unfold DM.deleteLink; simp only [hcont, Bool.not_true, Bool.false_eq_true, ↓reduceIte]; rfl
    have hm2 : s2.matchFn = s.matchFn := by rw [← hs2]; exact hm1
    have hd2 : s2.dmatchFn = s.dmatchFn := by rw [← hs2]; exact hd1
    have hl2 : s2.maxLevel = s.maxLevel := by rw [← hs2]; exact hl1
    have hc2 : s2.rmMap = s.rmMap := by rw [← hs2]; exact hc1
    have hrec2 : ∀ d' l, s2.recorded d' l ↔ s.recorded d' l ∧ ¬ (d' = d ∧ l = (a, b)) := by
      intro d' l; rw [← hs2, recorded_setStore_erase h1.stores, hrec1]
    have hkeys2 : (s2.allLinks.map (·.1)).Nodup := by rw [← hs2, setStore_keys]; exact h1.keys
    have hstores2 : ∀ d' ls, (d', ls) ∈ s2.allLinks → ls.Nodup := by
      intro d' ls' hmem
      rw [← hs2] at hmem
      obtain ⟨ls, hls, rfl⟩ := mem_setStore.mp hmem
      split
      · exact (h1.stores d' ls hls).erase _
      · exact h1.stores d' ls hls
    have hplain2 : ∀ d' l, s2.recorded d' l → ∀ n, s.matchFn n l.2 = true → n = l.2 := by
      intro d' l hr; exact h.plain d' l ((hrec2 d' l).mp hr).1
    have hcov2 : ∀ d0 d', s2.covers d0 d' ↔ s.covers d0 d' := by
      intro d0 d'; simp only [DM.covers, hd2]
    -- domains that the deleted record does not reach keep their assignments
    have heff_other : ∀ d0, ¬ s.covers d0 d → ∀ l, s2.eff d0 l ↔ s.eff d0 l := by
      intro d0 hnc l
      simp only [DM.eff, hcov2, hrec2]
      constructor
      · rintro ⟨d', hc, hr, _⟩; exact ⟨d', hc, hr⟩
      · rintro ⟨d', hc, hr⟩; exact ⟨d', hc, hr, fun hh => hnc (hh.1 ▸ hc)⟩
    -- the cache part
    have hcaches : (s2.delCaches a b d).2 = none ∧ ((s2.delCaches a b d).1.map (·.1)).Nodup ∧
        ∀ d0 rm, (d0, rm) ∈ (s2.delCaches a b d).1 →
          rm.maxLevel = s.maxLevel ∧ rm.matchFn = some s.matchFn ∧ Inv rm ∧ ∀ l, l ∈ rm.allLinks ↔ s2.eff d0 l := by
      unfold DM.delCaches
      rw [hd2, hc2]
      cases hdm : s.dmatchFn with
      | some dm =>
        refine ⟨rfl, ?_, ?_⟩
        · exact h.ckeys.sublist ((List.filter_sublist (l := s.rmMap)).map _)
        · intro d0 rm hmem
          simp only [List.mem_filter, Bool.not_eq_true'] at hmem
          obtain ⟨hin, hnd⟩ := hmem
          obtain ⟨c1, c2, c3, c4⟩ := h.cache d0 rm hin
          have hnc : ¬ s.covers d0 d := by
            rintro (rfl | ⟨dm', he, hm⟩)
            · simp at hnd
            · rw [hdm] at he; simp only [Option.some.injEq] at he; subst he
              rw [hm] at hnd; simp at hnd
          exact ⟨c1, c2, c3, fun l => by rw [c4]; exact (heff_other d0 hnc l).symm⟩
      | none =>
        have hnoerr : ∀ e ∈ s.rmMap, (fun d' => d' == d) e.1 = true → (e.2.deleteLink a b).2 = none := by
          intro e he _
          obtain ⟨_, c2, c3, _⟩ := h.cache e.1 e.2 he
          exact (deleteLink_inv (by rw [rm_mtch_of_matchFn c2]; exact h.trans) c3 a b).2.1
        have hcovN : ∀ d0 d', s.covers d0 d' ↔ d' = d0 := by
          intro d0 d'; simp [DM.covers, hdm]
        have hspec := deleteInCaches_spec (fun d' => d' == d) a b s.rmMap hnoerr
        rw [hspec]
        refine ⟨rfl, ?_, ?_⟩
        · rw [map_keys _ _ (by intro e; split <;> rfl)]; exact h.ckeys
        · intro d0 rm' hmem
          obtain ⟨⟨k, rm⟩, hrm, he⟩ := List.mem_map.mp hmem
          obtain ⟨c1, c2, c3, c4⟩ := h.cache k rm hrm
          have hm := rm_mtch_of_matchFn c2
          by_cases hk : k = d
          · subst hk
            simp only [beq_self_eq_true, ↓reduceIte, Prod.mk.injEq] at he
            obtain ⟨rfl, rfl⟩ := he
            obtain ⟨i1, _, i3, i4, i5⟩ := deleteLink_inv (by rw [hm]; exact h.trans) c3 a b
            refine ⟨by rw [i4]; exact c1, by rw [i3]; exact c2, i1, ?_⟩
            intro l
            rw [i5, c4]
            simp only [DM.eff, hcov2, hcovN, hrec2]
            constructor
            · rintro ⟨⟨d', rfl, hr⟩, hne⟩; exact ⟨d', rfl, hr, fun hh => hne hh.2⟩
            · rintro ⟨d', rfl, hr, hne⟩; exact ⟨⟨d', rfl, hr⟩, fun hh => hne ⟨rfl, hh⟩⟩
          · have : (k == d) = false := by simpa using hk
            simp only [this, Bool.false_eq_true, ↓reduceIte, Prod.mk.injEq] at he
            obtain ⟨rfl, rfl⟩ := he
            refine ⟨c1, c2, c3, ?_⟩
            intro l; rw [c4]
            exact (heff_other k (by rw [hcovN]; exact fun hh => hk hh.symm) l).symm
    obtain ⟨e1, e2, e3⟩ := hcaches
    rw [heq]
    exact ⟨dinv_with_caches h _ hkeys2 e2 hstores2 hm2 hd2 hl2 hplain2 e3, hd2, hm2, hl2,
      fun hn => absurd hR hn, fun _ => ⟨e1, hrec2⟩⟩
  · -- not recorded: silent no-op, only the (empty) store entry may have been created
    have hcont : ((s.touch d).linksOf d).contains (a, b) = false := by
      rw [Bool.eq_false_iff]; intro hc; exact hR (hmemL.mp (List.contains_iff_mem.mp hc))
    have heq : s.deleteLink a b d = (s.touch d, none) := by
      unfold DM.deleteLink; simp only [hcont, Bool.not_false, ↓reduceIte]
    rw [heq]
    exact ⟨h1, hd1, hm1, hl1, fun _ => ⟨rfl, hrec1⟩, fun hr => absurd hr hR⟩

theorem dm_getUsers_inv {s : DM} (h : DInv s) (n d : Name) :
    DInv (s.getUsers n d).1 ∧ (s.getUsers n d).1.allLinks = s.allLinks ∧
    (s.getUsers n d).1.dmatchFn = s.dmatchFn ∧ (s.getUsers n d).1.matchFn = s.matchFn ∧
    (s.getUsers n d).1.maxLevel = s.maxLevel := by
  have := dm_getRoles_spec h n d
  exact this.2

theorem dm_clear_inv {s : DM} (h : DInv s) : DInv s.clear := by
  refine ⟨by simp [DM.clear], by simp [DM.clear], ?_, h.trans, ?_, ?_⟩
  · intro d ls hmem; simp [DM.clear] at hmem
  · rintro d l ⟨ls, hmem, _⟩; simp [DM.clear] at hmem
  · intro d rm hmem; simp [DM.clear] at hmem

/-! ### histories on a domain manager -/

inductive DOp
  | add (a b d : Name) | del (a b d : Name) | has (u r d : Name) | roles (n d : Name) | users (n d : Name) | clear

def dstep (s : DM) : DOp → DM × Option Err
  | .add a b d => (s.addLink a b d, none)
  | .del a b d => s.deleteLink a b d
  | .has u r d => ((s.hasLink u r d).1, none)
  | .roles n d => ((s.getRoles n d).1, none)
  | .users n d => ((s.getUsers n d).1, none)
  | .clear => (s.clear, none)

def drun (s : DM) : List DOp → DM
  | [] => s
  | op :: ops => drun (dstep s op).1 ops

/-- the errors raised along a history -/
def derrors (s : DM) : List DOp → List Err
  | [] => []
  | op :: ops => (match (dstep s op).2 with | some e => [e] | none => []) ++ derrors (dstep s op).1 ops

/-- how one call changes which (domain, link) records are in force -/
def dupd (P : Name → Link → Prop) (op : DOp) : Name → Link → Prop :=
  match op with
  | .add a b d => fun d' l => P d' l ∨ (d' = d ∧ l = (a, b))
  | .del a b d => fun d' l => P d' l ∧ ¬ (d' = d ∧ l = (a, b))
  | .clear => fun _ _ => False
  | _ => P

/-- the (domain, link) records in force after a history -/
def dforce (P : Name → Link → Prop) : List DOp → Name → Link → Prop
  | [] => P
  | op :: ops => dforce (dupd P op) ops

theorem recorded_of_allLinks {s s' : DM} (h : s'.allLinks = s.allLinks) : s'.recorded = s.recorded :=
  recorded_congr h

theorem dstep_inv {s : DM} (h : DInv s) (op : DOp)
    (hop : ∀ a b d, op = .add a b d → ∀ n, s.matchFn n b = true → n = b) :
    DInv (dstep s op).1 ∧ (dstep s op).1.dmatchFn = s.dmatchFn ∧ (dstep s op).1.matchFn = s.matchFn ∧
    (dstep s op).1.maxLevel = s.maxLevel ∧
    (∀ d l, (dstep s op).1.recorded d l ↔ dupd s.recorded op d l) ∧
    (dstep s op).2 = none := by
  cases op with
  | add a b d =>
    obtain ⟨i1, i2, i3, i4, i5⟩ := dm_addLink_spec h a b d (hop a b d rfl)
    exact ⟨i1, i3, i4, i5, i2, rfl⟩
  | del a b d =>
    obtain ⟨i1, i2, i3, i4, i5, i6⟩ := dm_deleteLink_spec h a b d
    refine ⟨i1, i2, i3, i4, ?_, ?_⟩
    · intro d' l
      by_cases hR : s.recorded d (a, b)
      · exact (i6 hR).2 d' l
      · show (s.deleteLink a b d).1.recorded d' l ↔ _
        rw [(i5 hR).2]
        simp only [dupd]
        constructor
        · intro hr; exact ⟨hr, fun hh => hR (hh.1 ▸ hh.2 ▸ hr)⟩
        · exact And.left
    · by_cases hR : s.recorded d (a, b)
      · exact (i6 hR).1
      · exact (i5 hR).1
  | has u r d =>
    obtain ⟨_, i1, i2, i3, i4, i5⟩ := dm_hasLink_spec h u r d
    exact ⟨i1, i3, i4, i5, fun d' l => by rw [show (dstep s (.has u r d)).1 = (s.hasLink u r d).1 from rfl, recorded_congr i2]; rfl, rfl⟩
  | roles n d =>
    obtain ⟨_, i1, i2, i3, i4, i5⟩ := dm_getRoles_spec h n d
    exact ⟨i1, i3, i4, i5, fun d' l => by rw [show (dstep s (.roles n d)).1 = (s.getRoles n d).1 from rfl, recorded_congr i2]; rfl, rfl⟩
  | users n d =>
    obtain ⟨i1, i2, i3, i4, i5⟩ := dm_getUsers_inv h n d
    exact ⟨i1, i3, i4, i5, fun d' l => by rw [show (dstep s (.users n d)).1 = (s.getUsers n d).1 from rfl, recorded_congr i2]; rfl, rfl⟩
  | clear =>
    refine ⟨dm_clear_inv h, rfl, rfl, rfl, ?_, rfl⟩
    intro d l
    simp only [dstep, DM.clear, DM.recorded, dupd, List.not_mem_nil, false_and, exists_false]

/-- the adds of a history put patterns on the user side only -/
def DPlainRoles (m : MatchFn) (ops : List DOp) : Prop :=
  ∀ a b d, DOp.add a b d ∈ ops → ∀ n, m n b = true → n = b

/-- **cache coherence over histories (incl. `query_pure`).** Whatever adds, deletes, queries (which build
    caches) and clears were made, in whatever order, the domain manager is coherent and the records in force
    are those the history says -/
theorem drun_inv {s : DM} (h : DInv s) (ops : List DOp) (hops : DPlainRoles s.matchFn ops) :
    DInv (drun s ops) ∧ (drun s ops).dmatchFn = s.dmatchFn ∧ (drun s ops).matchFn = s.matchFn ∧
    (drun s ops).maxLevel = s.maxLevel ∧ (∀ d l, (drun s ops).recorded d l ↔ dforce s.recorded ops d l) ∧
    derrors s ops = [] := by
  induction ops generalizing s with
  | nil => exact ⟨h, rfl, rfl, rfl, fun d l => Iff.rfl, rfl⟩
  | cons op ops ih =>
    obtain ⟨h1, h2, h3, h4, h5, h6⟩ := dstep_inv h op (fun a b d e => hops a b d (by simp [e]))
    obtain ⟨i1, i2, i3, i4, i5, i6⟩ := @ih (dstep s op).1 h1
      (by intro a b d hab; rw [h3]; exact hops a b d (List.mem_cons_of_mem _ hab))
    refine ⟨i1, by rw [← h2]; exact i2, by rw [← h3]; exact i3, by rw [← h4]; exact i4, ?_, by simp [derrors, h6, i6]⟩
    intro d l
    show (drun (dstep s op).1 ops).recorded d l ↔ dforce (dupd s.recorded op) ops d l
    rw [i5]
    have : (dstep s op).1.recorded = dupd s.recorded op := by
      funext d' l'; exact propext (h5 d' l')
    rw [this]

def dinit (L : Nat) (mf : MatchFn) (dmf : Option MatchFn) : DM := { maxLevel := L, matchFn := mf, dmatchFn := dmf }

theorem dinit_inv (L : Nat) (mf : MatchFn) (dmf : Option MatchFn) (ht : Trans mf) : DInv (dinit L mf dmf) := by
  refine ⟨by simp [dinit], by simp [dinit], ?_, ht, ?_, ?_⟩
  · intro d ls hmem; simp [dinit] at hmem
  · rintro d l ⟨ls, hmem, _⟩; simp [dinit] at hmem
  · intro d rm hmem; simp [dinit] at hmem

theorem eq_trans : Trans (fun a b => a == b) := by
  intro n p a h1 h2; simp only [beq_iff_eq] at *; exact h1.trans h2

theorem eff_none {s : DM} (hdm : s.dmatchFn = none) (d : Name) (l : Link) : s.eff d l ↔ s.recorded d l := by
  simp only [DM.eff, DM.covers, hdm, reduceCtorEq, false_and, exists_false, or_false]
  constructor
  · rintro ⟨d', rfl, hr⟩; exact hr
  · intro hr; exact ⟨d, rfl, hr⟩

theorem dinit_recorded (L : Nat) (mf : MatchFn) (dmf : Option MatchFn) :
    (dinit L mf dmf).recorded = fun _ _ => False := by
  funext d l; simp [DM.recorded, dinit]

/-- **domain_scoped.** `DomainManager` as the enforcer creates it (no domain matching function; names related
    by equality only): after ANY history, `has_link(u, r, d)` ⇔ bounded reachability over the links recorded
    for the queried domain — and for no other —, whether the answer comes from a cache or a fresh build;
    `get_roles` / `get_users` report exactly the direct assignments of that domain. -/
theorem domain_scoped (L : Nat) (ops : List DOp) (u r d : Name) (s : DM)
    (hs : s = drun (dinit L (fun a b => a == b) none) ops) :
    ((s.hasLink u r d).2 = true ↔ ∃ n, n < L ∧ PathR (fun a b => s.recorded d (a, b)) u r n) ∧
    (∀ x, x ∈ (s.getRoles u d).2 ↔ s.recorded d (u, x)) ∧
    (∀ x, x ∈ (s.getUsers r d).2 ↔ s.recorded d (x, r)) ∧
    (∀ d' l, s.recorded d' l ↔ dforce (fun _ _ => False) ops d' l) ∧
    derrors (dinit L (fun a b => a == b) none) ops = [] := by
  have hplain : DPlainRoles (fun a b => a == b) ops := by intro a b d _ n hn; simpa using hn
  obtain ⟨h1, h2, h3, h4, h5, h6⟩ := drun_inv (dinit_inv L _ none eq_trans) ops hplain
  rw [← hs] at h1 h2 h3 h4 h5
  have h2' : s.dmatchFn = none := h2
  have h3' : s.matchFn = fun a b => a == b := h3
  have h4' : s.maxLevel = L := h4
  have hE : ∀ x y, EStar s.matchFn (s.effLinks d) x y ↔ s.recorded d (x, y) := by
    intro x y
    unfold EStar
    simp only [mem_effLinks h1.keys, eff_none h2', h3', beq_iff_eq]
    constructor
    · rintro ⟨a, hr, (rfl | rfl)⟩ <;> exact hr
    · intro hr; exact ⟨x, hr, Or.inl rfl⟩
  refine ⟨?_, ?_, ?_, ?_, h6⟩
  · rw [(dm_hasLink_spec h1 u r d).1, h4']
    constructor
    · rintro ⟨n, hn, p⟩; exact ⟨n, hn, PathR.mono (fun x y => (hE x y).mp) p⟩
    · rintro ⟨n, hn, p⟩; exact ⟨n, hn, PathR.mono (fun x y => (hE x y).mpr) p⟩
  · intro x; rw [(dm_getRoles_spec h1 u d).1, hE]
  · intro x
    rw [(dm_getUsers_spec h1 (by rw [h3']; intro x y hxy; simpa using hxy) r d).1, mem_effLinks h1.keys,
      eff_none h2']
  · intro d' l; rw [h5, dinit_recorded]

/-- queries never change what is recorded (they may build caches and create nodes) -/
theorem dm_query_pure {s : DM} (h : DInv s) (u r d : Name) :
    (s.hasLink u r d).1.allLinks = s.allLinks ∧ (s.getRoles u d).1.allLinks = s.allLinks ∧
    (s.getUsers u d).1.allLinks = s.allLinks ∧
    DInv (s.hasLink u r d).1 ∧ DInv (s.getRoles u d).1 ∧ DInv (s.getUsers u d).1 :=
  ⟨(dm_hasLink_spec h u r d).2.2.1, (dm_getRoles_spec h u d).2.2.1, (dm_getUsers_inv h u d).2.1,
   (dm_hasLink_spec h u r d).2.1, (dm_getRoles_spec h u d).2.1, (dm_getUsers_inv h u d).1⟩

/-! non-vacuity: F18's history (duplicate add, delete) answers the same with and without a cache -/
example :
    ((drun (dinit 10 (fun a b => a == b) none) [.add "a" "r" "d", .add "a" "r" "d", .del "a" "r" "d"]).hasLink "a" "r" "d").2 = false ∧
    ((drun (dinit 10 (fun a b => a == b) none) [.has "x" "y" "d", .add "a" "r" "d", .add "a" "r" "d", .del "a" "r" "d"]).hasLink "a" "r" "d").2 = false ∧
    ((drun (dinit 10 (fun a b => a == b) none) [.has "x" "y" "d", .add "a" "r" "d", .add "r" "s" "d", .add "r" "t" "e"]).hasLink "a" "s" "d").2 = true ∧
    ((drun (dinit 10 (fun a b => a == b) none) [.has "x" "y" "d", .add "a" "r" "d", .add "r" "s" "d", .add "r" "t" "e"]).hasLink "a" "t" "d").2 = false := by
  decide

/-! ## registration of a matching function after links exist (`_rebuild`), `g()`, `build_role_links` -/

/-- `add_matching_func` on a manager that already holds links rebuilds the graph from the link store: the
    result satisfies the invariant for the NEW function (so `hasLink_iff_pathR` applies to it) and stores the
    same links -/
theorem addMatchingFunc_inv (s : RM) (f : MatchFn) (ht : Trans f)
    (hpl : ∀ l ∈ s.allLinks, ∀ n, f n l.2 = true → n = l.2) :
    Inv (s.addMatchingFunc f) ∧ (s.addMatchingFunc f).matchFn = some f ∧
    (s.addMatchingFunc f).maxLevel = s.maxLevel ∧ ∀ l, l ∈ (s.addMatchingFunc f).allLinks ↔ l ∈ s.allLinks := by
  have hm : (RM.clear { s with matchFn := some f }).mtch = f := rfl
  have := foldl_addLink (t := RM.clear { s with matchFn := some f }) (by rw [hm]; exact ht) (clear_inv _)
    s.allLinks (by rw [hm]; exact hpl)
  obtain ⟨i1, i2, i3, i4⟩ := this
  refine ⟨i1, i2, i3, ?_⟩
  intro l
  have := i4 l
  simp only [RM.clear, List.not_mem_nil, false_or] at this
  exact this

/-- `g(n1, n2)` is `has_link(n1, n2)`, `g(n1, n2, d, …)` is `has_link(n1, n2, d)`, without a manager equality -/
theorem gFunction_spec (m : Mgr) (n1 n2 d : Name) (rest : List Name) :
    gFunction (some m) [n1, n2] = ((some (m.hasLink n1 n2 []).1), (m.hasLink n1 n2 []).2) ∧
    gFunction (some m) (n1 :: n2 :: d :: rest) = ((some (m.hasLink n1 n2 [d]).1), (m.hasLink n1 n2 [d]).2) ∧
    gFunction none (n1 :: n2 :: rest) = (none, .ok (n1 == n2)) ∧
    gFunction (some m) [n1] = (some m, .error .indexError) := by
  refine ⟨rfl, rfl, rfl, rfl⟩

/-- `build_role_links` on a plain manager with well-formed rules (`count ≥ 2`, every rule at least that long)
    raises nothing and adds exactly the links (rule[0], rule[1]) in order; a short rule stops it with an error
    after the earlier rules were added -/
theorem buildRoleLinks_plain (count : Nat) (hc : 2 ≤ count) (s : RM) (rules : List (List Name))
    (hlen : ∀ r ∈ rules, count ≤ r.length) :
    buildRoleLinks count (.plain s) rules =
      (.plain (rules.foldl (fun t r => t.addLink (r.headD "") ((r.drop 1).headD "")) s), none) := by
  induction rules generalizing s with
  | nil => simp [buildRoleLinks, show ¬ count < 2 by omega]
  | cons r rs ih =>
    have hr := hlen r List.mem_cons_self
    unfold buildRoleLinks
    simp only [show ¬ count < 2 by omega, show ¬ r.length < count by omega, ↓reduceIte]
    match r, hr with
    | a :: b :: rest, _ =>
      obtain ⟨k, rfl⟩ : ∃ k, count = k + 2 := ⟨count - 2, by omega⟩
      simp only [List.take_succ_cons, Mgr.addLink, List.foldl_cons, List.headD_cons, List.drop_succ_cons, List.drop_zero]
      exact ih (s.addLink a b) (fun r' hr' => hlen r' (List.mem_cons_of_mem _ hr'))
    | [a], h => simp at h; omega
    | [], h => simp at h; omega

theorem buildRoleLinks_short (count : Nat) (hc : 2 ≤ count) (m : Mgr) (r : List Name) (rs : List (List Name))
    (hr : r.length < count) : buildRoleLinks count m (r :: rs) = (m, some .shortRule) := by
  unfold buildRoleLinks; simp [show ¬ count < 2 by omega, hr]

theorem buildRoleLinks_badDef (count : Nat) (hc : count < 2) (m : Mgr) (rules : List (List Name)) :
    buildRoleLinks count m rules = (m, some .badRoleDef) := by
  cases rules <;> simp [buildRoleLinks, hc]

example : (buildRoleLinks 2 (.plain (fresh 10 none)) [["a", "b"], ["b", "c", "extra"]]).2 = none := by decide


end Casbin.C03
