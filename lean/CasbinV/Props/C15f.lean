import CasbinV.Props.C15
/-!
# C15 — the fuel of the implicit-roles worklist loop always suffices
-/
namespace Casbin.Enf.C15
open Casbin Casbin.Enf Casbin.Policy

theorem length_le_of_nodup_subset (l m : List String) (hd : l.Nodup) (hs : ∀ x ∈ l, x ∈ m) : l.length ≤ m.length := by
  induction l generalizing m with
  | nil => exact Nat.zero_le _
  | cons a t ih =>
    have hd' := List.nodup_cons.mp hd
    have ham : a ∈ m := hs a (by simp)
    have ht : ∀ x ∈ t, x ∈ m.erase a := by
      intro x hx
      have hxa : x ≠ a := fun e => hd'.1 (e ▸ hx)
      exact (List.mem_erase_of_ne hxa).mpr (hs x (by simp [hx]))
    have := ih (m.erase a) hd'.2 ht
    rw [List.length_erase_of_mem ham] at this
    have hpos : 0 < m.length := List.length_pos_of_mem ham
    simp only [List.length_cons]; omega

theorem visitRoles_lengths (rs queue res : List String) :
    (visitRoles rs queue res).1.length + res.length = queue.length + (visitRoles rs queue res).2.length := by
  induction rs generalizing queue res with
  | nil => simp [visitRoles]
  | cons r rs ih =>
    unfold visitRoles
    split
    · exact ih queue res
    · have := ih (queue ++ [r]) (res ++ [r])
      simp only [List.length_append, List.length_singleton] at this
      omega

theorem succs_sub_names (g : Graph) (n x : String) (h : x ∈ succs g n) : x ∈ namesOf g := by
  unfold namesOf
  rw [List.mem_eraseDups]
  have := succs_mem.mp h
  exact List.mem_append_right _ (List.mem_map.mpr ⟨(n, x), this, rfl⟩)

/-- the loop terminates within any fuel exceeding `queue.length + (names − |res|)` -/
theorem loop_terminates (g : Graph) (fuel : Nat) (queue res : List String) (hd : res.Nodup)
    (hsub : ∀ x ∈ res, x ∈ namesOf g) (hf : queue.length + ((namesOf g).length - res.length) < fuel) :
    ∃ out, implicitLoop g fuel queue res = some out := by
  induction fuel generalizing queue res with
  | zero => omega
  | succ f ih =>
    cases queue with
    | nil => exact ⟨res, by simp [implicitLoop]⟩
    | cons n q =>
      simp only [implicitLoop]
      obtain ⟨h1, _, _, _, h5⟩ := visitRoles_spec (succs g n) q res
      have hl := visitRoles_lengths (succs g n) q res
      have hsub' : ∀ x ∈ (visitRoles (succs g n) q res).2, x ∈ namesOf g := by
        intro x hx
        rcases (h1 x).mp hx with h | h
        · exact hsub x h
        · exact succs_sub_names g n x h
      have hb := length_le_of_nodup_subset _ _ (h5 hd) hsub'
      have hb0 := length_le_of_nodup_subset _ _ hd hsub
      apply ih _ _ (h5 hd) hsub'
      simp only [List.length_cons] at hf
      omega

/-- **`get_implicit_roles_for_user` always returns** (the fuel `names + 2` is never exhausted) … -/
theorem implicitRoles_total (store : List Rule) (u : String) (dom : Option String) :
    ∃ out, implicitRoles store u dom = some out := by
  unfold implicitRoles
  apply loop_terminates _ _ _ _ List.nodup_nil (by simp)
  simp only [List.length_cons, List.length_nil]; omega

/-- … so the characterisation holds unconditionally: the result lists, once each, exactly the reachable roles -/
theorem implicit_roles_exact (store : List Rule) (u : String) (dom : Option String) :
    ∃ out, implicitRoles store u dom = some out ∧ (∀ r, r ∈ out ↔ PathPlus (edgesOf store dom) u r) ∧ out.Nodup := by
  obtain ⟨out, h⟩ := implicitRoles_total store u dom
  exact ⟨out, h, implicit_roles_iff store u dom out h⟩

end Casbin.Enf.C15
