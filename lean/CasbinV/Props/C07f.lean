import CasbinV.Props.C07b
/-!
# C07 — the fuel of the leaf-peeling loop always suffices: `get_subject_hierarchy_map` returns or reports a cycle
-/
namespace Casbin.Policy.C07b
open Casbin.Policy

theorem loop_no_fuel_error (fuel : Nat) (up : List HEdge) (us : List String) (k : Nat) (acc : List (String × Nat))
    (hf : us.length < fuel) : hierarchyLoop fuel up us k acc ≠ .error .fuel := by
  induction fuel generalizing up us k acc with
  | zero => omega
  | succ f ih =>
    cases up with
    | nil => simp [hierarchyLoop]
    | cons e up =>
      simp only [hierarchyLoop]
      split
      · simp
      · rename_i hne
        apply ih
        -- some subject is peeled in this round, so the list of unsorted subjects gets strictly shorter
        have hex : ∃ x, x ∈ peelRound (e :: up) us := by
          cases hp : peelRound (e :: up) us with
          | nil => simp [hp] at hne
          | cons x xs => exact ⟨x, by simp⟩
        obtain ⟨x, hx⟩ := hex
        have hxus : x ∈ us := ((mem_peelRound (e :: up) us x).mp hx).1
        have hlt : (us.filter fun s => !(peelRound (e :: up) us).contains s).length < us.length := by
          apply List.length_filter_lt_length_iff_exists.mpr
          exact ⟨x, hxus, by simpa using hx⟩
        omega

/-- **`get_subject_hierarchy_map` either returns a level map or reports a cycle** — the fuel is never exhausted -/
theorem hierarchyMap_total (E : List HEdge) : hierarchyMap E ≠ .error .fuel := by
  unfold hierarchyMap
  exact loop_no_fuel_error _ _ _ _ _ (Nat.lt_succ_self _)

end Casbin.Policy.C07b
