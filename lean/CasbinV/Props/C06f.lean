import CasbinV.Props.C06r
/-!
# C06 (filtered update) — `update_filtered_policies` is all-or-nothing

The repaired code (F16) refuses - before the adapter or the model is touched - when the filter selects nothing, when
there are no new rules, or when a new rule is already held outside the selection; otherwise it removes the selection
and adds the new rules (each once).  `updateFiltered_refines`: that is the all-or-nothing specification.
`unrepaired_not_all_or_nothing_witness` keeps the witness against the code as it was (the in-memory half alone).
-/
namespace Casbin.Policy.C06
open Casbin.Policy

theorem updateFilteredWith_nodup (l old news : List Rule) (hd : l.Nodup) : (updateFilteredWith l old news).1.Nodup := by
  unfold updateFilteredWith
  split
  · exact hd
  · exact addMany_nodup none _ news (removeMany_nodup l old hd)

/-- the rule set stays duplicate-free whatever the filtered update does -/
theorem updateFiltered_nodup (l news l' : List Rule) (idx : Nat) (vals : List String) (ok : Bool) (hd : l.Nodup)
    (h : updateFiltered l news idx vals = .ok (l', ok)) : l'.Nodup := by
  unfold updateFiltered at h
  cases hg : getFiltered l idx vals with
  | error e => rw [hg] at h; simp [Except.map] at h
  | ok old =>
    rw [hg] at h
    simp only [Except.map, Except.ok.injEq] at h
    split at h
    · cases h; exact hd
    · have := updateFilteredWith_nodup l old news hd
      rw [h] at this; exact this

/-- outside the selection = the rules the filter does not match -/
theorem rest_eq (l : List Rule) (idx : Nat) (vals : List String) :
    (l.filter fun x => !(l.filter (Spec.matchesFilter idx vals)).contains x) =
      l.filter fun r => !Spec.matchesFilter idx vals r := by
  apply List.filter_congr
  intro x hx
  cases hmx : Spec.matchesFilter idx vals x
  · have : ¬ x ∈ l.filter (Spec.matchesFilter idx vals) := by
      intro hc; rw [(List.mem_filter.mp hc).2] at hmx; cases hmx
    simp [this]
  · have : x ∈ l.filter (Spec.matchesFilter idx vals) := List.mem_filter.mpr ⟨hx, hmx⟩
    simp [this]

/-- the guard is exactly the negation of the specification's condition -/
theorem refused_iff (l news : List Rule) (idx : Nat) (vals : List String) :
    updateFilteredRefused l (l.filter (Spec.matchesFilter idx vals)) news =
      !(l.any (Spec.matchesFilter idx vals) && !news.isEmpty &&
        news.all (fun r => !(l.filter fun r => !Spec.matchesFilter idx vals r).contains r)) := by
  unfold updateFilteredRefused
  rw [rest_eq]
  have h1 : (l.filter (Spec.matchesFilter idx vals)).isEmpty = !l.any (Spec.matchesFilter idx vals) := by
    cases hf : l.filter (Spec.matchesFilter idx vals) with
    | nil =>
      have : l.any (Spec.matchesFilter idx vals) = false := by
        apply List.any_eq_false.mpr
        intro x hx hm
        have : x ∈ l.filter (Spec.matchesFilter idx vals) := List.mem_filter.mpr ⟨hx, hm⟩
        rw [hf] at this; simp at this
      simp [this]
    | cons a as =>
      have ha : a ∈ l.filter (Spec.matchesFilter idx vals) := by rw [hf]; simp
      have : l.any (Spec.matchesFilter idx vals) = true :=
        List.any_eq_true.mpr ⟨a, (List.mem_filter.mp ha).1, (List.mem_filter.mp ha).2⟩
      simp [this]
  rw [h1]
  have h2 : (news.any fun r => (l.filter fun r => !Spec.matchesFilter idx vals r).contains r) =
      !news.all (fun r => !(l.filter fun r => !Spec.matchesFilter idx vals r).contains r) := by
    rw [List.not_all_eq_any_not]; congr 1; funext r; simp
  rw [h2]
  cases l.any (Spec.matchesFilter idx vals) <;> cases news.isEmpty <;> simp

/-- when the guard lets the call through, the in-memory half removes the selection and adds every new rule -/
theorem with_applies (l news : List Rule) (idx : Nat) (vals : List String) (hd : l.Nodup)
    (hacc : updateFilteredRefused l (l.filter (Spec.matchesFilter idx vals)) news = false) :
    (updateFilteredWith l (l.filter (Spec.matchesFilter idx vals)) news).2 = true ∧
    (∀ x, x ∈ (updateFilteredWith l (l.filter (Spec.matchesFilter idx vals)) news).1 ↔
      (x ∈ l ∧ Spec.matchesFilter idx vals x = false) ∨ x ∈ news) := by
  unfold updateFilteredRefused at hacc
  simp only [Bool.or_eq_false_iff] at hacc
  obtain ⟨⟨hold, hnews⟩, hcol⟩ := hacc
  obtain ⟨h1, h2, h3⟩ := removeMany_filter l (Spec.matchesFilter idx vals) hd
  have hnd1 := removeMany_nodup l (l.filter (Spec.matchesFilter idx vals)) hd
  have hadd : (addMany none (removeMany l (l.filter (Spec.matchesFilter idx vals))).1 news).2 = true := by
    rw [addMany_result]
    simp only [Bool.not_eq_eq_eq_not, Bool.not_true, List.any_eq_false, decide_eq_true_eq]
    intro r hrn hmem
    have hx := (h2 r).mp hmem
    have := List.any_eq_false.mp hcol r hrn
    apply this
    rw [List.contains_iff_mem, rest_eq]
    exact List.mem_filter.mpr ⟨hx.1, by simp [hx.2]⟩
  obtain ⟨ha1, _⟩ := addMany_success none _ news hnd1 hadd
  unfold updateFilteredWith
  simp only [hold, Bool.false_eq_true, ↓reduceIte, h1, hnews, Bool.not_false, Bool.and_self, true_and]
  intro x
  rw [ha1 x, h2 x]

/-- **`update_filtered_policies` refines the all-or-nothing specification**: same result, same rule set -/
theorem updateFiltered_refines (l news : List Rule) (idx : Nat) (vals : List String) (hd : l.Nodup)
    (hr : InRange idx vals l) :
    ∃ l', updateFiltered l news idx vals = .ok (l', (Spec.updateFiltered l news idx vals).2) ∧
      ∀ x, x ∈ l' ↔ x ∈ (Spec.updateFiltered l news idx vals).1 := by
  unfold updateFiltered
  rw [getFiltered_exact l idx vals hr]
  unfold Spec.getFiltered
  simp only [Except.map]
  have hk := refused_iff l news idx vals
  have hspec : ∀ b, (l.any (Spec.matchesFilter idx vals) && !news.isEmpty &&
        news.all (fun r => !(l.filter fun r => !Spec.matchesFilter idx vals r).contains r)) = b →
      Spec.updateFiltered l news idx vals =
        if b = true then ((l.filter fun r => !Spec.matchesFilter idx vals r) ++ news.eraseDups, true) else (l, false) := by
    intro b hb; subst hb; rfl
  generalize hC : (l.any (Spec.matchesFilter idx vals) && !news.isEmpty &&
        news.all (fun r => !(l.filter fun r => !Spec.matchesFilter idx vals r).contains r)) = C at hk
  have hs := hspec C hC
  cases C with
  | false =>
    have hc : updateFilteredRefused l (l.filter (Spec.matchesFilter idx vals)) news = true := by rw [hk]; rfl
    rw [hs]
    refine ⟨l, ?_, fun x => ?_⟩
    · simp only [hc, ↓reduceIte, Bool.false_eq_true]
    · simp only [Bool.false_eq_true, ↓reduceIte]
  | true =>
    have hc : updateFilteredRefused l (l.filter (Spec.matchesFilter idx vals)) news = false := by rw [hk]; rfl
    obtain ⟨h1, h2⟩ := with_applies l news idx vals hd hc
    rw [hs]
    refine ⟨(updateFilteredWith l (l.filter (Spec.matchesFilter idx vals)) news).1, ?_, fun x => ?_⟩
    · simp only [hc, Bool.false_eq_true, ↓reduceIte]
      rw [← h1]
    · rw [h2 x]
      simp only [↓reduceIte, List.mem_append, List.mem_filter, List.mem_eraseDups, Bool.not_eq_eq_eq_not, Bool.not_true]

/-- a refused filtered update changes nothing; an accepted one reports success -/
theorem updateFiltered_all_or_nothing (l news l' : List Rule) (idx : Nat) (vals : List String)
    (h : updateFiltered l news idx vals = .ok (l', false)) (hd : l.Nodup) (hr : InRange idx vals l) : l' = l := by
  unfold updateFiltered at h
  rw [getFiltered_exact l idx vals hr] at h
  simp only [Except.map, Except.ok.injEq] at h
  split at h
  · cases h; rfl
  · rename_i hc
    have := (with_applies l news idx vals hd (by simpa [Spec.getFiltered] using hc)).1
    unfold Spec.getFiltered at h
    rw [h] at this; cases this

/-- **F16, witness against the code as it was** (the in-memory half without the guard): a new rule already held outside
    the selection makes the add fail after the selection was removed and the call still reports success; with no new
    rules the selection is removed and the call reports failure -/
theorem unrepaired_not_all_or_nothing_witness :
    updateFilteredWith [["a", "1"], ["a", "2"], ["b", "1"]] [["a", "1"], ["a", "2"]] [["b", "1"]] = ([["b", "1"]], true) ∧
    Spec.updateFiltered [["a", "1"], ["a", "2"], ["b", "1"]] [["b", "1"]] 0 ["a"] = ([["a", "1"], ["a", "2"], ["b", "1"]], false) ∧
    updateFilteredWith [["a", "1"], ["b", "1"]] [["a", "1"]] [] = ([["b", "1"]], false) ∧
    Spec.updateFiltered [["a", "1"], ["b", "1"]] [] 0 ["a"] = ([["a", "1"], ["b", "1"]], false) := by decide

example : updateFiltered [["a", "1"], ["a", "2"], ["b", "1"]] [["c", "1"], ["a", "1"]] 0 ["a"] =
    .ok ([["b", "1"], ["c", "1"], ["a", "1"]], true) := by decide
example : updateFiltered [["a", "1"], ["a", "2"], ["b", "1"]] [["b", "1"]] 0 ["a"] =
    .ok ([["a", "1"], ["a", "2"], ["b", "1"]], false) := by decide

end Casbin.Policy.C06
