import CasbinV.Props.C06
import CasbinV.Props.C01
/-!
# C07 — priority models keep rules in priority order and the best-priority match decides

Domain: priorities are decimal integers - ASCII digits with an optional leading `-` (where `int` and `Int` agree); see DESIGN C07.
-/
namespace Casbin.Policy.C07
open Casbin.Policy Casbin.Policy.C06

/-- every rule carries a numeric priority in column `pi` -/
def AllNumeric (pi : Nat) (l : List Rule) : Prop := ∀ r ∈ l, ∃ p, prioOf pi r = some p

/-- numeric key with a default for the (excluded) non-numeric case, only used under `AllNumeric` -/
def key (pi : Nat) (r : Rule) : Int := (prioOf pi r).getD 0

/-- ascending numeric priority -/
def Sorted (pi : Nat) (l : List Rule) : Prop := l.Pairwise (fun a b => key pi a ≤ key pi b)

theorem key_of_some {pi : Nat} {r : Rule} {p : Int} (h : prioOf pi r = some p) : key pi r = p := by
  simp [key, h]

/-! ## single add: the bubble loop -/

/-- on a descending reversed prefix the bubble loop puts the new rule in front of exactly the rules with a
    smaller-or-equal priority (i.e. *after* them in the real order) -/
theorem bubbleRev_eq (pi : Nat) (p : Int) (r : Rule) (rev : List Rule) (hn : AllNumeric pi rev)
    (hs : rev.Pairwise (fun a b => key pi b ≤ key pi a)) :
    bubbleRev pi p r rev = rev.filter (fun x => decide (key pi x > p)) ++ r :: rev.filter (fun x => decide (key pi x ≤ p)) := by
  induction rev with
  | nil => simp [bubbleRev]
  | cons x xs ih =>
    obtain ⟨px, hpx⟩ := hn x (by simp)
    have hk := key_of_some hpx
    have hn' : AllNumeric pi xs := fun y hy => hn y (by simp [hy])
    have hs' := (List.pairwise_cons.mp hs).2
    have hle := (List.pairwise_cons.mp hs).1
    unfold bubbleRev
    rw [hpx]
    by_cases hgt : px > p
    · simp only [hgt, ↓reduceIte]
      rw [ih hn' hs']
      simp [List.filter, hk, hgt, Int.not_le.mpr hgt]
    · simp only [hgt, ↓reduceIte]
      -- everything behind x is ≤ x ≤ p, so nothing is filtered out on the left
      have hall : ∀ y ∈ x :: xs, key pi y ≤ p := by
        intro y hy
        rcases List.mem_cons.mp hy with rfl | hy'
        · omega
        · have := hle y hy'; omega
      have h1 : (x :: xs).filter (fun x => decide (key pi x > p)) = [] := by
        apply List.filter_eq_nil_iff.mpr; intro y hy; have := hall y hy; simp; omega
      have h2 : (x :: xs).filter (fun x => decide (key pi x ≤ p)) = x :: xs := by
        apply List.filter_eq_self.mpr; intro y hy; have := hall y hy; simpa using this
      rw [h1, h2]; rfl

/-- **Stable ordered insertion.** Adding a rule to a sorted policy puts it after every rule of smaller or equal
    priority and before every rule of greater priority; all other rules keep their relative order. -/
theorem insertByPriority_eq (pi : Nat) (l : List Rule) (r : Rule) (p : Int) (hp : prioOf pi r = some p)
    (hn : AllNumeric pi l) (hs : Sorted pi l) :
    insertByPriority pi l r =
      l.filter (fun x => decide (key pi x ≤ p)) ++ r :: l.filter (fun x => decide (key pi x > p)) := by
  unfold insertByPriority
  rw [hp]
  have hn' : AllNumeric pi l.reverse := fun y hy => hn y (List.mem_reverse.mp hy)
  have hs' : l.reverse.Pairwise (fun a b => key pi b ≤ key pi a) := List.pairwise_reverse.mpr hs
  simp only []
  rw [bubbleRev_eq pi p r l.reverse hn' hs']
  simp [List.filter_reverse]

theorem sorted_filter_append (pi : Nat) (p : Int) (l : List Rule) (r : Rule) (hr : key pi r = p) (hs : Sorted pi l) :
    Sorted pi (l.filter (fun x => decide (key pi x ≤ p)) ++ r :: l.filter (fun x => decide (key pi x > p))) := by
  unfold Sorted at *
  rw [List.pairwise_append]
  refine ⟨hs.filter _, ?_, ?_⟩
  · rw [List.pairwise_cons]
    refine ⟨?_, hs.filter _⟩
    intro y hy
    have := (List.mem_filter.mp hy).2
    simp at this; omega
  · intro a ha b hb
    have h1 := (List.mem_filter.mp ha).2
    simp at h1
    rcases List.mem_cons.mp hb with rfl | hb'
    · omega
    · have h2 := (List.mem_filter.mp hb').2
      simp at h2; omega

/-- single add keeps the policy sorted -/
theorem add_keeps_sorted (pi : Nat) (l : List Rule) (r : Rule) (p : Int) (hp : prioOf pi r = some p)
    (hn : AllNumeric pi l) (hs : Sorted pi l) : Sorted pi (add (some pi) l r).1 := by
  unfold add
  split
  · exact hs
  · simp only []
    rw [insertByPriority_eq pi l r p hp hn hs]
    exact sorted_filter_append pi p l r (key_of_some hp) hs

theorem add_keeps_numeric (pi : Nat) (l : List Rule) (r : Rule) (p : Int) (hp : prioOf pi r = some p)
    (hn : AllNumeric pi l) : AllNumeric pi (add (some pi) l r).1 := by
  intro x hx
  rcases (add_mem (some pi) l r x).mp hx with h | rfl
  · exact hn x h
  · exact ⟨p, hp⟩

/-- batch add keeps the policy sorted (the repaired `add_policies` inserts rule by rule) -/
theorem addMany_keeps_sorted (pi : Nat) (l rs : List Rule) (hr : AllNumeric pi rs)
    (hn : AllNumeric pi l) (hs : Sorted pi l) :
    Sorted pi (addMany (some pi) l rs).1 ∧ AllNumeric pi (addMany (some pi) l rs).1 := by
  unfold addMany
  split
  · exact ⟨hs, hn⟩
  · rename_i hx
    clear hx
    simp only []
    induction rs generalizing l with
    | nil => exact ⟨hs, hn⟩
    | cons r rs ih =>
      obtain ⟨p, hp⟩ := hr r (by simp)
      simp only [List.foldl_cons]
      exact ih _ (fun y hy => hr y (by simp [hy])) (add_keeps_numeric pi l r p hp hn) (add_keeps_sorted pi l r p hp hn hs)

/-- removals keep the order (the result is a sublist) -/
theorem sublist_keeps_sorted (pi : Nat) (l l' : List Rule) (h : l'.Sublist l) (hs : Sorted pi l) : Sorted pi l' :=
  List.Pairwise.sublist h hs

theorem remove_keeps_sorted (pi : Nat) (l : List Rule) (r : Rule) (hs : Sorted pi l) :
    Sorted pi (remove l r).1 := sublist_keeps_sorted pi l _ (remove_sublist l r) hs

theorem removeMany_keeps_sorted (pi : Nat) (l rs : List Rule) (hs : Sorted pi l) :
    Sorted pi (removeMany l rs).1 := sublist_keeps_sorted pi l _ (removeMany_sublist l rs) hs

/-- replacing a rule by one of the same priority keeps the order (this is what `update_policy`'s priority
    guard enforces) -/
theorem set_keeps_sorted (pi : Nat) (l : List Rule) (i : Nat) (new : Rule) (hi : i < l.length)
    (hk : key pi new = key pi l[i]) (hs : Sorted pi l) : Sorted pi (l.set i new) := by
  unfold Sorted at *
  rw [List.pairwise_iff_getElem] at hs ⊢
  intro a b ha hb hab
  simp only [List.length_set] at ha hb
  have := hs a b ha hb hab
  simp only [List.getElem_set]
  split <;> split <;> simp_all <;> omega

/-! ## load: Python's stable sort -/

theorem insertSorted_perm (pi : Nat) (r : Rule) (l : List Rule) : (insertSorted pi r l).Perm (r :: l) := by
  induction l with
  | nil => simp [insertSorted]
  | cons x xs ih =>
    unfold insertSorted
    split
    · split
      · exact (List.Perm.cons x ih).trans (List.Perm.swap r x xs)
      · exact List.Perm.refl _
    · exact (List.Perm.cons x ih).trans (List.Perm.swap r x xs)

theorem insertSorted_eq (pi : Nat) (r : Rule) (p : Int) (hp : prioOf pi r = some p) (l : List Rule)
    (hn : AllNumeric pi l) (hs : Sorted pi l) :
    insertSorted pi r l =
      l.filter (fun x => decide (key pi x ≤ p)) ++ r :: l.filter (fun x => decide (key pi x > p)) := by
  induction l with
  | nil => simp [insertSorted]
  | cons x xs ih =>
    obtain ⟨px, hpx⟩ := hn x (by simp)
    have hk := key_of_some hpx
    have hn' : AllNumeric pi xs := fun y hy => hn y (by simp [hy])
    have hs' := (List.pairwise_cons.mp hs).2
    have hle := (List.pairwise_cons.mp hs).1
    unfold insertSorted
    rw [hp, hpx]
    by_cases hc : px ≤ p
    · simp only [hc, ↓reduceIte]
      rw [ih hn' hs']
      simp [List.filter, hk, hc, Int.not_lt.mpr hc]
    · simp only [hc, ↓reduceIte]
      have hall : ∀ y ∈ x :: xs, key pi y > p := by
        intro y hy
        rcases List.mem_cons.mp hy with rfl | hy'
        · omega
        · have := hle y hy'; omega
      have h1 : (x :: xs).filter (fun x => decide (key pi x ≤ p)) = [] := by
        apply List.filter_eq_nil_iff.mpr; intro y hy; have := hall y hy; simp; omega
      have h2 : (x :: xs).filter (fun x => decide (key pi x > p)) = x :: xs := by
        apply List.filter_eq_self.mpr; intro y hy; have := hall y hy; simpa using this
      rw [h1, h2]; rfl

/-- after loading the rules are in ascending numeric priority, the same rules as delivered … -/
theorem load_sorted (pi : Nat) (l : List Rule) (hn : AllNumeric pi l) :
    Sorted pi (sortByPriority pi l) ∧ (sortByPriority pi l).Perm l := by
  unfold sortByPriority
  suffices h : ∀ (acc : List Rule), AllNumeric pi acc → Sorted pi acc →
      Sorted pi (l.foldl (fun acc r => insertSorted pi r acc) acc) ∧
      (l.foldl (fun acc r => insertSorted pi r acc) acc).Perm (acc ++ l) by
    simpa using h [] (fun _ h => by simp at h) List.Pairwise.nil
  induction l with
  | nil => intro acc _ hs; simpa using hs
  | cons r rs ih =>
    intro acc hna hsa
    obtain ⟨p, hp⟩ := hn r (by simp)
    have hn' : AllNumeric pi rs := fun y hy => hn y (by simp [hy])
    have hperm := insertSorted_perm pi r acc
    have hna' : AllNumeric pi (insertSorted pi r acc) := by
      intro y hy
      rcases List.mem_cons.mp (hperm.mem_iff.mp hy) with rfl | h
      · exact ⟨p, hp⟩
      · exact hna y h
    have hsa' : Sorted pi (insertSorted pi r acc) := by
      rw [insertSorted_eq pi r p hp acc hna hsa]
      exact sorted_filter_append pi p acc r (key_of_some hp) hsa
    obtain ⟨h1, h2⟩ := ih hn' _ hna' hsa'
    refine ⟨h1, h2.trans ?_⟩
    exact (List.Perm.append_right rs hperm).trans List.perm_middle.symm

/-- … and the sort is stable: rules of equal priority stay in arrival order -/
theorem load_stable (pi : Nat) (l : List Rule) (hn : AllNumeric pi l) (q : Int) :
    (sortByPriority pi l).filter (fun x => key pi x == q) = l.filter (fun x => key pi x == q) := by
  unfold sortByPriority
  suffices h : ∀ (acc : List Rule), AllNumeric pi acc → Sorted pi acc →
      (l.foldl (fun acc r => insertSorted pi r acc) acc).filter (fun x => key pi x == q) =
        acc.filter (fun x => key pi x == q) ++ l.filter (fun x => key pi x == q) ∧
      True by
    simpa using (h [] (fun _ h => by simp at h) List.Pairwise.nil).1
  induction l with
  | nil => intro acc _ _; simp
  | cons r rs ih =>
    intro acc hna hsa
    obtain ⟨p, hp⟩ := hn r (by simp)
    have hn' : AllNumeric pi rs := fun y hy => hn y (by simp [hy])
    have hperm := insertSorted_perm pi r acc
    have hna' : AllNumeric pi (insertSorted pi r acc) := by
      intro y hy
      rcases List.mem_cons.mp (hperm.mem_iff.mp hy) with rfl | h
      · exact ⟨p, hp⟩
      · exact hna y h
    have heq := insertSorted_eq pi r p hp acc hna hsa
    have hsa' : Sorted pi (insertSorted pi r acc) := by
      rw [heq]; exact sorted_filter_append pi p acc r (key_of_some hp) hsa
    refine ⟨?_, trivial⟩
    simp only [List.foldl_cons]
    rw [(ih hn' _ hna' hsa').1, heq]
    have hkr := key_of_some hp
    -- filtering the split list by `key = q`
    simp only [List.filter_append, List.filter_cons, List.filter_filter, List.append_assoc]
    by_cases hq : p = q
    · subst hq
      have e1 : acc.filter (fun x => (key pi x == p) && decide (key pi x ≤ p)) = acc.filter (fun x => key pi x == p) := by
        apply List.filter_congr; intro x _; by_cases h : key pi x = p <;> simp [h]
      have e2 : acc.filter (fun x => (key pi x == p) && decide (key pi x > p)) = [] := by
        apply List.filter_eq_nil_iff.mpr; intro x _; by_cases h : key pi x = p <;> simp [h]
      simp [hkr, e1, e2]
    · have hrq : (key pi r == q) = false := by simp [hkr, hq]
      by_cases hle : q ≤ p
      · have e1 : acc.filter (fun x => (key pi x == q) && decide (key pi x ≤ p)) = acc.filter (fun x => key pi x == q) := by
          apply List.filter_congr; intro x _; by_cases h : key pi x = q <;> simp [h, hle]
        have e2 : acc.filter (fun x => (key pi x == q) && decide (key pi x > p)) = [] := by
          apply List.filter_eq_nil_iff.mpr; intro x _; by_cases h : key pi x = q <;> simp [h]; omega
        simp [hrq, e1, e2]
      · have e1 : acc.filter (fun x => (key pi x == q) && decide (key pi x ≤ p)) = [] := by
          apply List.filter_eq_nil_iff.mpr; intro x _; by_cases h : key pi x = q <;> simp [h]; omega
        have e2 : acc.filter (fun x => (key pi x == q) && decide (key pi x > p)) = acc.filter (fun x => key pi x == q) := by
          apply List.filter_congr; intro x _; by_cases h : key pi x = q <;> simp [h]; omega
        simp [hrq, e1, e2]

/-! ## the best-priority match decides -/

/-- in a sorted policy the first rule satisfying any predicate (e.g. "matches with a definite effect") has the
    smallest priority among all rules satisfying it; with `C01.enforce_eq_spec` (priority effect = effect of the
    first decisive match) this is "the best-priority match decides" -/
theorem first_match_is_best (pi : Nat) (l : List Rule) (hs : Sorted pi l) (f : Rule → Bool) (r : Rule)
    (hf : l.find? f = some r) : ∀ x ∈ l, f x = true → key pi r ≤ key pi x := by
  induction l with
  | nil => simp at hf
  | cons a as ih =>
    intro x hx hfx
    have hle := (List.pairwise_cons.mp hs).1
    have hs' := (List.pairwise_cons.mp hs).2
    simp only [List.find?_cons] at hf
    split at hf
    · cases hf
      rcases List.mem_cons.mp hx with rfl | hx'
      · exact Int.le_refl _
      · exact hle x hx'
    · rename_i hfa
      rcases List.mem_cons.mp hx with rfl | hx'
      · simp_all
      · exact ih hs' hf x hx' hfx

/-! ## every history of adds and removes keeps the order -/

inductive Op
  | add (r : Rule)
  | addMany (rs : List Rule)
  | remove (r : Rule)
  | removeMany (rs : List Rule)

def step (pi : Nat) (l : List Rule) : Op → List Rule
  | .add r => (add (some pi) l r).1
  | .addMany rs => (addMany (some pi) l rs).1
  | .remove r => (remove l r).1
  | .removeMany rs => (removeMany l rs).1

def Op.Numeric (pi : Nat) : Op → Prop
  | .add r => ∃ p, prioOf pi r = some p
  | .addMany rs => AllNumeric pi rs
  | _ => True

theorem sublist_keeps_numeric (pi : Nat) (l l' : List Rule) (h : l'.Sublist l) (hn : AllNumeric pi l) :
    AllNumeric pi l' := fun y hy => hn y (h.subset hy)

/-- **Invariant.** Starting from a loaded (sorted) policy, every sequence of single and batch adds and removes
    with numeric priorities leaves the rules in ascending numeric priority. -/
theorem sorted_invariant (pi : Nat) (ops : List Op) (l : List Rule) (hops : ∀ op ∈ ops, op.Numeric pi)
    (hn : AllNumeric pi l) (hs : Sorted pi l) : Sorted pi (ops.foldl (step pi) l) := by
  induction ops generalizing l with
  | nil => simpa
  | cons op ops ih =>
    have hop := hops op (by simp)
    have hops' : ∀ o ∈ ops, o.Numeric pi := fun o ho => hops o (by simp [ho])
    simp only [List.foldl_cons]
    cases op with
    | add r =>
      obtain ⟨p, hp⟩ := hop
      exact ih _ hops' (add_keeps_numeric pi l r p hp hn) (add_keeps_sorted pi l r p hp hn hs)
    | addMany rs =>
      have := addMany_keeps_sorted pi l rs hop hn hs
      exact ih _ hops' this.2 this.1
    | remove r =>
      exact ih _ hops' (sublist_keeps_numeric pi l _ (remove_sublist l r) hn) (remove_keeps_sorted pi l r hs)
    | removeMany rs =>
      exact ih _ hops' (sublist_keeps_numeric pi l _ (removeMany_sublist l rs) hn) (removeMany_keeps_sorted pi l rs hs)

/-! ## Non-vacuity -/

-- negative priorities are numeric priorities: `int` reads them, the (repaired) load sorts on `int` like the ordered insertion
example : prioOfString "-10" = some (-10) := by decide
example : prioOfString "-" = none ∧ prioOfString "" = none ∧ prioOfString "--1" = none ∧ prioOfString "1-" = none := by decide
example : sortByPriority 0 [["10", "a"], ["-1", "b"], ["1", "c"], ["-10", "d"]] =
    [["-10", "d"], ["-1", "b"], ["1", "c"], ["10", "a"]] := by decide
example : (add (some 0) [["-10", "d"], ["1", "c"]] ["-1", "b"]).1 = [["-10", "d"], ["-1", "b"], ["1", "c"]] := by decide
example : prioOf 0 ["10", "alice"] = some 10 := by decide
example : sortByPriority 0 [["10", "a"], ["1", "b"], ["10", "c"], ["2", "d"]] =
    [["1", "b"], ["2", "d"], ["10", "a"], ["10", "c"]] := by decide
example : (add (some 0) [["1", "b"], ["10", "a"]] ["2", "z"]).1 = [["1", "b"], ["2", "z"], ["10", "a"]] := by decide
example : (addMany (some 0) [["1", "b"], ["10", "a"]] [["20", "y"], ["2", "z"]]).1 =
    [["1", "b"], ["2", "z"], ["10", "a"], ["20", "y"]] := by decide

end Casbin.Policy.C07
