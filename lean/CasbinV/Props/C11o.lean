import CasbinV.Props.C04
import CasbinV.Props.C07
import CasbinV.Props.C07b
import CasbinV.Props.C07f
import CasbinV.Props.C11
import CasbinV.Model.LoadOrd
/-!
# C11 (ordering) — a reload that fails WHILE ORDERING the delivered rules leaves the enforcer exactly as it was

Subject: `Casbin.Enf.loadOrd cfg o s k` (Model/LoadOrd.lean): `load_policy` of a model that orders its rules
(`sort_policies_by_subject_hierarchy`, `sort_policies_by_priority`, both raising on ill-formed values), between the
adapter and the link building of `Model/Enforcer.lean`'s `loadCore`.
-/
namespace Casbin.Enf.C11o
open Casbin Casbin.Enf Casbin.Policy Casbin.Enf.C04

/-! ## the extension is conservative -/

theorem loadCore_eq_from (cfg : Cfg) (s0 : St) : loadCore cfg s0 = loadCoreFrom cfg s0 s0.store := rfl

theorem orderStore_default (st : Pol) : orderStore {} st = .ok st := rfl

/-- a model that orders nothing (no `p_priority` token, no `subjectPriority` effect): `loadOrd` IS the `load_policy`
    of Model/Enforcer.lean, about which C04 / C05 / C09 / C11 / C15 / C20 speak -/
theorem loadOrd_default (cfg : Cfg) (s : St) (k : Option Nat) :
    loadOrd cfg {} s k = ((step cfg s (.loadPolicy k)).1, liftE (step cfg s (.loadPolicy k)).2) := by
  simp only [loadOrd, step, orderStore_default]
  split
  · rfl
  · rfl

/-! ## failure while ordering -/

/-- the state a `load_policy` call leaves when it touched nothing: only the adapter saw a call -/
def logged (s : St) : St := { s with alog := s.alog ++ [.loadPolicy], ev := s.ev ++ [.adapter .loadPolicy] }

theorem loadOrd_unfold (cfg : Cfg) (o : OrdCfg) (s : St) (k : Option Nat) :
    loadOrd cfg o s k =
      if failsAt k (s.store.p.length + s.store.g.length + s.store.g2.length) then
        (logged s, .error (.enf .adapterFailure))
      else match orderStore o s.store with
        | .error e => (logged s, .error (.ord e))
        | .ok new => ((loadCoreFrom cfg (logged s) new).1, liftE (loadCoreFrom cfg (logged s) new).2) := rfl

theorem liftE_ne_ord (x : Except EErr Ret) (e : OErr) : liftE x ≠ .error (.ord e) := by
  cases x <;> simp [liftE]

theorem liftE_error (x : Except EErr Ret) (e : LErr) (h : liftE x = .error e) : ∃ e', x = .error e' := by
  cases x with
  | ok r => simp [liftE] at h
  | error e' => exact ⟨e', rfl⟩

theorem liftE_ok (x : Except EErr Ret) (r : Ret) (h : liftE x = .ok r) : x = .ok r := by
  cases x with
  | ok r' => simp [liftE] at h; rw [h]
  | error e' => simp [liftE] at h

/-- **Ordering failures are reachable and exactly characterised**: `load_policy` raises an ordering exception iff the
    adapter delivered everything and the ordering step rejects what was delivered. -/
theorem ordering_failure_iff (cfg : Cfg) (o : OrdCfg) (s : St) (k : Option Nat) (e : OErr) :
    (loadOrd cfg o s k).2 = .error (.ord e) ↔
      failsAt k (s.store.p.length + s.store.g.length + s.store.g2.length) = false ∧ orderStore o s.store = .error e := by
  rw [loadOrd_unfold]
  split
  · rename_i h; simp [h]
  · rename_i h
    simp only [Bool.not_eq_true] at h
    cases ho : orderStore o s.store with
    | error e' => simp [h]
    | ok new =>
      simp only [h, true_and]
      constructor
      · intro hl
        exact absurd hl (liftE_ne_ord _ _)
      · intro hl; cases hl

/-- **Frame theorem for ordering failures — no hypothesis on the state.** If `load_policy` raises while ordering the
    delivered rules (a priority that cannot be compared, a rule without the field a key reads, a grouping rule the
    hierarchy cannot use, a cyclic hierarchy), the enforcer state is LITERALLY the state before, except that the
    adapter has seen one `load_policy` call: policy, link stores, the three flags, the adapter's store and the
    watcher log are equal — for every state (coherent or not), store, failure point and failure kind.  The sorts
    work on the deep copy and run before the role managers are cleared: there is nothing to roll back. -/
theorem ordering_failure_changes_nothing (cfg : Cfg) (o : OrdCfg) (s : St) (k : Option Nat) (e : OErr)
    (hfail : (loadOrd cfg o s k).2 = .error (.ord e)) : (loadOrd cfg o s k).1 = logged s := by
  obtain ⟨h1, h2⟩ := (ordering_failure_iff cfg o s k e).mp hfail
  rw [loadOrd_unfold]
  simp only [h1, h2, Bool.false_eq_true, ↓reduceIte]

/-- everything observable after a load that failed while ordering is what it was before -/
theorem ordering_failure_frame (cfg : Cfg) (o : OrdCfg) (s : St) (k : Option Nat) (e : OErr)
    (hfail : (loadOrd cfg o s k).2 = .error (.ord e)) :
    let s' := (loadOrd cfg o s k).1
    s'.pol = s.pol ∧ s'.links = s.links ∧ s'.autoBuild = s.autoBuild ∧ s'.autoSave = s.autoSave ∧
    s'.autoNotify = s.autoNotify ∧ s'.store = s.store ∧ s'.wlog = s.wlog ∧ s'.alog = s.alog ++ [.loadPolicy] ∧
    (∀ sh req, enforceQ sh s' req = enforceQ sh s req) ∧ (∀ sh req, enforceQO sh s' req = enforceQO sh s req) := by
  intro s'
  have h : s' = logged s := ordering_failure_changes_nothing cfg o s k e hfail
  rw [h]
  exact ⟨rfl, rfl, rfl, rfl, rfl, rfl, rfl, rfl, fun _ _ => rfl, fun _ _ => rfl⟩

/-! ## any failure, coherent state: the rollback relink restores the links -/

theorem loadCoreFrom_failed (cfg : Cfg) (s0 : St) (new : Pol) (h : Coherent cfg s0) (e : EErr)
    (hfail : (loadCoreFrom cfg s0 new).2 = .error e) :
    (loadCoreFrom cfg s0 new).1.pol = s0.pol ∧ Coherent cfg (loadCoreFrom cfg s0 new).1 ∧
    (loadCoreFrom cfg s0 new).1.autoBuild = s0.autoBuild ∧ (loadCoreFrom cfg s0 new).1.autoSave = s0.autoSave ∧
    (loadCoreFrom cfg s0 new).1.autoNotify = s0.autoNotify ∧ (loadCoreFrom cfg s0 new).1.store = s0.store ∧
    (loadCoreFrom cfg s0 new).1.wlog = s0.wlog ∧ (loadCoreFrom cfg s0 new).1.alog = s0.alog := by
  have hab := h.auto
  cases hnew : rebuildAll cfg new with
  | error e' =>
    obtain ⟨l, h1, _⟩ := rebuildAll_spec cfg s0.pol h.g.sized h.g2.sized
    have hv : loadCoreFrom cfg s0 new = ({ s0 with links := l }, .error e') := by
      simp [loadCoreFrom, hab, hnew, h1]
    rw [hv]
    exact ⟨rfl, coherent_relinked cfg s0 h _ l h1 rfl rfl hab, rfl, rfl, rfl, rfl, rfl, rfl⟩
  | ok l => simp [loadCoreFrom, hab, hnew] at hfail

/-- a failed ordering reload — whatever the failure: adapter, ordering, link building — keeps the policy and
    C04's coherence invariant -/
theorem failed_loadOrd_coherent (cfg : Cfg) (o : OrdCfg) (s : St) (h : Coherent cfg s) (k : Option Nat) (e : LErr)
    (hfail : (loadOrd cfg o s k).2 = .error e) :
    (loadOrd cfg o s k).1.pol = s.pol ∧ Coherent cfg (loadOrd cfg o s k).1 ∧
    (loadOrd cfg o s k).1.autoBuild = s.autoBuild ∧ (loadOrd cfg o s k).1.autoSave = s.autoSave ∧
    (loadOrd cfg o s k).1.autoNotify = s.autoNotify ∧ (loadOrd cfg o s k).1.store = s.store ∧
    (loadOrd cfg o s k).1.wlog = s.wlog ∧ (loadOrd cfg o s k).1.alog = s.alog ++ [.loadPolicy] := by
  have hl : Coherent cfg (logged s) := coherent_congr cfg s _ h rfl rfl rfl
  rw [loadOrd_unfold] at hfail ⊢
  split
  · exact ⟨rfl, hl, rfl, rfl, rfl, rfl, rfl, rfl⟩
  · rename_i hnf
    simp only [hnf, Bool.false_eq_true, ↓reduceIte] at hfail
    cases ho : orderStore o s.store with
    | error e' => exact ⟨rfl, hl, rfl, rfl, rfl, rfl, rfl, rfl⟩
    | ok new =>
      simp only [ho] at hfail ⊢
      obtain ⟨e', hr⟩ := liftE_error _ _ hfail
      exact loadCoreFrom_failed cfg (logged s) new hl e' hr

theorem matcherO_congr (sh : OShape) (l1 l2 : Pol) (hg : ∀ x, x ∈ l1.g ↔ x ∈ l2.g) :
    matcherO sh l1 = matcherO sh l2 := by
  funext req pv
  unfold matcherO
  split <;> (split <;> simp only [hasLinkQ_congr _ _ hg])

/-- **Frame theorem (all failure kinds).** If the ordering `load_policy` raises — adapter failure after any prefix,
    a failure while ordering, or a failure while the role links are built from the ORDERED rules — the policy (and
    its order), the flags and the adapter's store are untouched and every role query and every decision, under the
    allow-override effect and under the priority effects (where the order of the rules decides), is what it was
    before the call: the rollback relink equals the links before (C04's coherence invariant is the hypothesis that
    makes "rebuilt from the old policy" mean "as before"). -/
theorem failed_loadOrd_frame (cfg : Cfg) (o : OrdCfg) (s : St) (h : Coherent cfg s) (k : Option Nat) (e : LErr)
    (hfail : (loadOrd cfg o s k).2 = .error e) :
    let s' := (loadOrd cfg o s k).1
    s'.pol = s.pol ∧ s'.autoBuild = s.autoBuild ∧ s'.autoSave = s.autoSave ∧ s'.store = s.store ∧
    (∀ x, x ∈ s'.links.g ↔ x ∈ s.links.g) ∧ (∀ x, x ∈ s'.links.g2 ↔ x ∈ s.links.g2) ∧
    (∀ n1 n2 d, hasLinkQ s'.links.g n1 n2 d = hasLinkQ s.links.g n1 n2 d) ∧
    (∀ n1 n2 d, hasLinkQ s'.links.g2 n1 n2 d = hasLinkQ s.links.g2 n1 n2 d) ∧
    (∀ n d x, x ∈ getRoles s'.links.g n d ↔ x ∈ getRoles s.links.g n d) ∧
    (∀ n d x, x ∈ getUsers s'.links.g n d ↔ x ∈ getUsers s.links.g n d) ∧
    (∀ sh req, enforceQ sh s' req = enforceQ sh s req) ∧
    (∀ sh req, enforceQO sh s' req = enforceQO sh s req) := by
  intro s'
  obtain ⟨hpol, hcoh, hab, has, _, hst, _, _⟩ := failed_loadOrd_coherent cfg o s h k e hfail
  have hg : ∀ x, x ∈ s'.links.g ↔ x ∈ s.links.g := fun x => by
    rw [hcoh.g.same, h.g.same]; show LinkOf cfg.gCount s'.pol.g x ↔ _; rw [hpol]
  have hg2 : ∀ x, x ∈ s'.links.g2 ↔ x ∈ s.links.g2 := fun x => by
    rw [hcoh.g2.same, h.g2.same]; show LinkOf cfg.g2Count s'.pol.g2 x ↔ _; rw [hpol]
  refine ⟨hpol, hab, has, hst, hg, hg2, fun _ _ _ => hasLinkQ_congr _ _ hg _ _ _,
    fun _ _ _ => hasLinkQ_congr _ _ hg2 _ _ _, fun _ _ _ => getRoles_congr _ _ hg _ _ _,
    fun _ _ _ => getUsers_congr _ _ hg _ _ _, ?_, ?_⟩
  · intro sh req
    unfold enforceQ
    rw [matcher_congr sh s'.links s.links hg hg2, hpol]
  · intro sh req
    unfold enforceQO
    rw [matcherO_congr sh s'.links s.links hg, hpol]

/-! ## success -/

/-- **A successful reload installs the ORDERED store and the links built from it, together.** -/
theorem successful_loadOrd_installs_ordered (cfg : Cfg) (o : OrdCfg) (s : St) (h : s.autoBuild = true)
    (k : Option Nat) (r : Ret) (hok : (loadOrd cfg o s k).2 = .ok r) :
    ∃ new, orderStore o s.store = .ok new ∧ (loadOrd cfg o s k).1.pol = new ∧
      rebuildAll cfg new = .ok (loadOrd cfg o s k).1.links ∧ (loadOrd cfg o s k).1.store = s.store := by
  rw [loadOrd_unfold] at hok ⊢
  split at hok
  · cases hok
  · rename_i hnf
    simp only [hnf, Bool.false_eq_true, ↓reduceIte]
    cases ho : orderStore o s.store with
    | error e => simp [ho] at hok
    | ok new =>
      simp only [ho] at hok ⊢
      refine ⟨new, rfl, ?_⟩
      have hok' := liftE_ok _ _ hok
      have hab : (logged s).autoBuild = true := h
      cases hnew : rebuildAll cfg new with
      | error e =>
        cases hold : rebuildAll cfg s.pol <;> simp [loadCoreFrom, h, hnew, hold, logged] at hok'
      | ok l =>
        have hv : loadCoreFrom cfg (logged s) new = ({ logged s with pol := new, links := l }, .ok .unit) := by
          simp [loadCoreFrom, hab, hnew]
        rw [hv]
        exact ⟨rfl, rfl, rfl⟩

/-- with `auto_build_role_links` off a successful reload installs the ordered store and leaves the links alone -/
theorem successful_loadOrd_no_autobuild (cfg : Cfg) (o : OrdCfg) (s : St) (h : s.autoBuild = false)
    (k : Option Nat) (r : Ret) (hok : (loadOrd cfg o s k).2 = .ok r) :
    ∃ new, orderStore o s.store = .ok new ∧ (loadOrd cfg o s k).1.pol = new ∧ (loadOrd cfg o s k).1.links = s.links := by
  rw [loadOrd_unfold] at hok ⊢
  split at hok
  · cases hok
  · rename_i hnf
    simp only [hnf, Bool.false_eq_true, ↓reduceIte]
    cases ho : orderStore o s.store with
    | error e => simp [ho] at hok
    | ok new =>
      simp only [ho]
      exact ⟨new, rfl, by simp [loadCoreFrom, h, logged], by simp [loadCoreFrom, h, logged]⟩

/-! ## what the ordering step does to the delivered rules -/

theorem insertByLe_perm (le : Rule → Rule → Bool) (r : Rule) (l : List Rule) : (insertByLe le r l).Perm (r :: l) := by
  induction l with
  | nil => simp [insertByLe]
  | cons x xs ih =>
    unfold insertByLe
    split
    · exact (List.Perm.cons x ih).trans (List.Perm.swap r x xs)
    · exact List.Perm.refl _

theorem sortByLe_perm (le : Rule → Rule → Bool) (l : List Rule) : (sortByLe le l).Perm l := by
  unfold sortByLe
  suffices h : ∀ acc : List Rule, (l.foldl (fun acc r => insertByLe le r acc) acc).Perm (acc ++ l) by
    simpa using h []
  induction l with
  | nil => intro acc; simp
  | cons r rs ih =>
    intro acc
    exact (ih (insertByLe le r acc)).trans
      ((List.Perm.append_right rs (insertByLe_perm le r acc)).trans List.perm_middle.symm)

theorem sortByPriorityE_perm (pi : Nat) (l l' : List Rule) (h : sortByPriorityE pi l = .ok l') : l'.Perm l := by
  unfold sortByPriorityE at h
  split at h
  · cases h
  · split at h
    · cases h; exact sortByLe_perm _ _
    · split at h
      · cases h; exact sortByLe_perm _ _
      · cases h

theorem sortBySubjectE_perm (d : Option Nat) (g p l' : List Rule) (h : sortBySubjectE d g p = .ok l') : l'.Perm p := by
  unfold sortBySubjectE at h
  split at h
  · cases h
  · split at h
    · cases h
    · split at h
      · cases h; exact (C07b.sortByKey_spec _ _).2
      · cases h

/-- the ordering step never raises for lack of fuel (the fuel of the hierarchy loop is an artefact of the model) -/
theorem sortBySubjectE_no_fuel (d : Option Nat) (g p : List Rule) : sortBySubjectE d g p ≠ .error .fuel := by
  unfold sortBySubjectE
  split
  · rename_i e he
    intro h; cases h
    have : ∀ (g : List Rule) (e : OErr), subjEdges g = .error e → e = .gShort := by
      intro g
      induction g with
      | nil => intro e h; simp [subjEdges] at h
      | cons r rs ih =>
        intro e h
        unfold subjEdges at h
        cases hr : edgeOf r with
        | none => simp only [hr] at h; cases h; rfl
        | some x =>
          simp only [hr] at h
          cases hs : subjEdges rs with
          | error err => simp only [hs] at h; cases h; exact ih _ hs
          | ok es => simp only [hs] at h; cases h
    exact absurd (this g _ he) (by decide)
  · rename_i edges _
    split
    · rename_i e he
      cases e with
      | cycle => intro h; cases h
      | fuel => exact absurd he (C07b.hierarchyMap_total edges)
    · split <;> intro h <;> cases h

/-- **What a successful ordering step returns**: the delivered rules, each exactly once (a permutation of the
    permission rules; grouping rules untouched) -/
theorem orderStore_perm (o : OrdCfg) (st new : Pol) (h : orderStore o st = .ok new) :
    new.p.Perm st.p ∧ new.g = st.g ∧ new.g2 = st.g2 := by
  unfold orderStore at h
  split at h
  · cases h
  · rename_i p1 h1
    split at h
    · cases h
    · rename_i p2 h2
      cases h
      refine ⟨?_, rfl, rfl⟩
      have hp1 : p1.Perm st.p := by
        unfold subjStage at h1
        split at h1
        · exact sortBySubjectE_perm _ _ _ _ h1
        · cases h1; exact List.Perm.refl _
      have hp2 : p2.Perm p1 := by
        unfold prioStage at h2
        split at h2
        · cases h2; exact List.Perm.refl _
        · exact sortByPriorityE_perm _ _ _ h2
      exact hp2.trans hp1

/-! ## the priority sort: total on well-formed values, raising otherwise -/

theorem pkeyOf_cases (pi : Nat) (r : Rule) :
    (r.length ≤ pi ∧ pkeyOf pi r = .error .indexError) ∨
    (pi < r.length ∧ ∃ k, pkeyOf pi r = .ok k ∧ k.isInt = (prioOf pi r).isSome ∧ k.isStr = (prioOf pi r).isNone) := by
  unfold pkeyOf prioOf
  cases h : r[pi]? with
  | none => exact Or.inl ⟨List.getElem?_eq_none_iff.mp h, rfl⟩
  | some s =>
    right
    refine ⟨?_, ?_⟩
    · rcases Nat.lt_or_ge pi r.length with hl | hl
      · exact hl
      · rw [List.getElem?_eq_none_iff.mpr hl] at h; cases h
    · cases hp : prioOfString s with
      | none => exact ⟨.str s, by simp [hp], by simp [PKey.isInt, hp], by simp [PKey.isStr, hp]⟩
      | some n => exact ⟨.int n, by simp [hp], by simp [PKey.isInt, hp], by simp [PKey.isStr, hp]⟩

theorem keysOf_spec (pi : Nat) (l : List Rule) :
    ((∃ r ∈ l, r.length ≤ pi) ∧ keysOf pi l = .error .indexError) ∨
    ((∀ r ∈ l, pi < r.length) ∧ ∃ ks, keysOf pi l = .ok ks ∧
      ks.all PKey.isInt = l.all (fun r => (prioOf pi r).isSome) ∧
      ks.all PKey.isStr = l.all (fun r => (prioOf pi r).isNone)) := by
  induction l with
  | nil => exact Or.inr ⟨by simp, [], rfl, rfl, rfl⟩
  | cons r rs ih =>
    unfold keysOf
    rcases pkeyOf_cases pi r with ⟨hl, hk⟩ | ⟨hl, k, hk, hi, hs⟩
    · exact Or.inl ⟨⟨r, by simp, hl⟩, by rw [hk]⟩
    · rw [hk]
      rcases ih with ⟨⟨x, hx, hxl⟩, he⟩ | ⟨hall, ks, hks, h1, h2⟩
      · exact Or.inl ⟨⟨x, by simp [hx], hxl⟩, by simp only [he]⟩
      · refine Or.inr ⟨?_, k :: ks, by simp only [hks], ?_, ?_⟩
        · intro y hy
          rcases List.mem_cons.mp hy with rfl | hy'
          · exact hl
          · exact hall y hy'
        · simp only [List.all_cons, hi, h1]
        · simp only [List.all_cons, hs, h2]

/-- **The priority sort is total on well-formed values and raises otherwise** — the four cases of
    `sort_policies_by_priority`, each with the condition under which it is taken:
    a rule without priority field → `IndexError`; all priorities numeric → stable numeric sort; none numeric →
    stable sort by the strings; both kinds → `TypeError`. -/
theorem sortByPriorityE_spec (pi : Nat) (l : List Rule) :
    ((∃ r ∈ l, r.length ≤ pi) ∧ sortByPriorityE pi l = .error .indexError) ∨
    ((∀ r ∈ l, pi < r.length) ∧ (∀ r ∈ l, (prioOf pi r).isSome) ∧
      sortByPriorityE pi l = .ok (sortByLe (natLe pi) l)) ∨
    ((∀ r ∈ l, pi < r.length) ∧ (∃ r ∈ l, prioOf pi r = none) ∧ (∀ r ∈ l, prioOf pi r = none) ∧
      sortByPriorityE pi l = .ok (sortByLe (strLe pi) l)) ∨
    ((∀ r ∈ l, pi < r.length) ∧ (∃ r ∈ l, prioOf pi r = none) ∧ (∃ r ∈ l, (prioOf pi r).isSome) ∧
      sortByPriorityE pi l = .error .typeError) := by
  unfold sortByPriorityE
  rcases keysOf_spec pi l with ⟨hx, he⟩ | ⟨hall, ks, hks, h1, h2⟩
  · exact Or.inl ⟨hx, by rw [he]⟩
  · right
    rw [hks]
    simp only [h1, h2]
    by_cases hi : l.all (fun r => (prioOf pi r).isSome) = true
    · exact Or.inl ⟨hall, by simpa using hi, by simp only [hi, ↓reduceIte]⟩
    · right
      have hex : ∃ r ∈ l, prioOf pi r = none := by
        have hi' : l.all (fun r => (prioOf pi r).isSome) = false := by simpa using hi
        obtain ⟨r, hr, hn⟩ := List.all_eq_false.mp hi'
        exact ⟨r, hr, by cases h : prioOf pi r <;> simp_all⟩
      by_cases hs : l.all (fun r => (prioOf pi r).isNone) = true
      · refine Or.inl ⟨hall, hex, ?_, by simp only [hi, hs, ↓reduceIte, Bool.false_eq_true]⟩
        intro r hr
        have := List.all_eq_true.mp hs r hr
        simpa using this
      · refine Or.inr ⟨hall, hex, ?_, by simp only [hi, hs, ↓reduceIte, Bool.false_eq_true]⟩
        have hs' : l.all (fun r => (prioOf pi r).isNone) = false := by simpa using hs
        obtain ⟨r, hr, hn⟩ := List.all_eq_false.mp hs'
        exact ⟨r, hr, by cases h : prioOf pi r <;> simp_all⟩

/-- `IndexError` exactly when a delivered rule has no priority field -/
theorem sortByPriorityE_indexError_iff (pi : Nat) (l : List Rule) :
    sortByPriorityE pi l = .error .indexError ↔ ∃ r ∈ l, r.length ≤ pi := by
  rcases sortByPriorityE_spec pi l with ⟨hx, he⟩ | ⟨hall, _, he⟩ | ⟨hall, _, _, he⟩ | ⟨hall, _, _, he⟩
  · exact ⟨fun _ => hx, fun _ => he⟩
  all_goals
    rw [he]
    refine ⟨(by intro h; cases h), fun ⟨r, hr, hl⟩ => ?_⟩
    have := hall r hr
    omega

/-- `TypeError` exactly when every rule has a priority field and numeric and non-numeric priorities are mixed -/
theorem sortByPriorityE_typeError_iff (pi : Nat) (l : List Rule) :
    sortByPriorityE pi l = .error .typeError ↔
      (∀ r ∈ l, pi < r.length) ∧ (∃ r ∈ l, prioOf pi r = none) ∧ (∃ r ∈ l, (prioOf pi r).isSome) := by
  rcases sortByPriorityE_spec pi l with ⟨⟨x, hx, hxl⟩, he⟩ | ⟨hall, hsome, he⟩ | ⟨hall, _, hnone, he⟩ | ⟨hall, h1, h2, he⟩
  · rw [he]
    refine ⟨(by intro h; cases h), fun ⟨h, _⟩ => ?_⟩
    have := h x hx
    omega
  · rw [he]
    refine ⟨(by intro h; cases h), fun ⟨_, ⟨r, hr, hn⟩, _⟩ => ?_⟩
    have := hsome r hr
    rw [hn] at this; cases this
  · rw [he]
    refine ⟨(by intro h; cases h), fun ⟨_, _, ⟨r, hr, hs⟩⟩ => ?_⟩
    rw [hnone r hr] at hs; cases hs
  · exact ⟨fun _ => ⟨hall, h1, h2⟩, fun _ => he⟩

/-! ### on numeric priorities the total sort IS C07's load sort (ascending, stable) -/

theorem insertByLe_natLe_eq (pi : Nat) (r : Rule) (p : Int) (hp : prioOf pi r = some p) (acc : List Rule)
    (hn : C07.AllNumeric pi acc) : insertByLe (natLe pi) r acc = insertSorted pi r acc := by
  induction acc with
  | nil => simp [insertByLe, insertSorted]
  | cons x xs ih =>
    obtain ⟨px, hpx⟩ := hn x (by simp)
    have hn' : C07.AllNumeric pi xs := fun y hy => hn y (by simp [hy])
    unfold insertByLe insertSorted
    rw [hp, hpx, ih hn']
    simp only [natLe, natKey, hp, hpx, Option.getD_some]
    by_cases hc : px ≤ p <;> simp [hc]

theorem sortByLe_natLe_eq (pi : Nat) (l : List Rule) (hn : C07.AllNumeric pi l) :
    sortByLe (natLe pi) l = sortByPriority pi l := by
  unfold sortByLe sortByPriority
  suffices h : ∀ acc : List Rule, C07.AllNumeric pi acc →
      l.foldl (fun acc r => insertByLe (natLe pi) r acc) acc = l.foldl (fun acc r => insertSorted pi r acc) acc by
    exact h [] (fun _ h => by simp at h)
  induction l with
  | nil => intro acc _; rfl
  | cons r rs ih =>
    intro acc hna
    obtain ⟨p, hp⟩ := hn r (by simp)
    have hn' : C07.AllNumeric pi rs := fun y hy => hn y (by simp [hy])
    simp only [List.foldl_cons]
    rw [insertByLe_natLe_eq pi r p hp acc hna]
    apply ih hn'
    intro y hy
    rcases List.mem_cons.mp ((C07.insertSorted_perm pi r acc).mem_iff.mp hy) with rfl | h
    · exact ⟨p, hp⟩
    · exact hna y h

/-- **Numeric priorities: the reload's order is ascending and stable** (C07's `load_sorted` / `load_stable` apply to
    the total sort): the ordering step succeeds, its result is sorted by the numeric priority, a permutation of the
    delivered rules, and rules of equal priority keep their delivery order. -/
theorem sortByPriorityE_numeric (pi : Nat) (l : List Rule) (hn : C07.AllNumeric pi l) :
    ∃ l', sortByPriorityE pi l = .ok l' ∧ C07.Sorted pi l' ∧ l'.Perm l ∧
      ∀ q, l'.filter (fun x => C07.key pi x == q) = l.filter (fun x => C07.key pi x == q) := by
  refine ⟨sortByPriority pi l, ?_, (C07.load_sorted pi l hn).1, (C07.load_sorted pi l hn).2, C07.load_stable pi l hn⟩
  rcases sortByPriorityE_spec pi l with ⟨⟨x, hx, hxl⟩, _⟩ | ⟨_, _, he⟩ | ⟨_, ⟨r, hr, hnone⟩, _⟩ | ⟨_, ⟨r, hr, hnone⟩, _⟩
  · obtain ⟨p, hp⟩ := hn x hx
    unfold prioOf at hp
    rw [List.getElem?_eq_none_iff.mpr hxl] at hp
    cases hp
  · rw [he, sortByLe_natLe_eq pi l hn]
  · obtain ⟨p, hp⟩ := hn r hr; rw [hnone] at hp; cases hp
  · obtain ⟨p, hp⟩ := hn r hr; rw [hnone] at hp; cases hp

/-! ## the subject-hierarchy sort -/

theorem edgeOf_none_iff (r : Rule) : edgeOf r = none ↔ r.length < 2 := by
  match r with
  | [] => simp [edgeOf]
  | [_] => simp [edgeOf]
  | [_, _] => simp [edgeOf]
  | _ :: _ :: _ :: _ => simp [edgeOf]

theorem subjEdges_spec (g : List Rule) :
    ((∃ r ∈ g, r.length < 2) ∧ subjEdges g = .error .gShort) ∨
    ((∀ r ∈ g, 2 ≤ r.length) ∧ ∃ es, subjEdges g = .ok es) := by
  induction g with
  | nil => exact Or.inr ⟨by simp, [], rfl⟩
  | cons r rs ih =>
    unfold subjEdges
    cases hr : edgeOf r with
    | none => exact Or.inl ⟨⟨r, by simp, (edgeOf_none_iff r).mp hr⟩, rfl⟩
    | some e =>
      have hlen : 2 ≤ r.length := by
        rcases Nat.lt_or_ge r.length 2 with h | h
        · rw [(edgeOf_none_iff r).mpr h] at hr; cases hr
        · exact h
      rcases ih with ⟨⟨x, hx, hxl⟩, he⟩ | ⟨hall, es, hes⟩
      · exact Or.inl ⟨⟨x, by simp [hx], hxl⟩, by simp only [he]⟩
      · refine Or.inr ⟨?_, e :: es, by simp only [hes]⟩
        intro y hy
        rcases List.mem_cons.mp hy with rfl | hy'
        · exact hlen
        · exact hall y hy'

/-- "policy g expect 2 more params" exactly when a delivered grouping rule has fewer than two fields -/
theorem sortBySubjectE_gShort_iff (d : Option Nat) (g p : List Rule) :
    sortBySubjectE d g p = .error .gShort ↔ ∃ r ∈ g, r.length < 2 := by
  unfold sortBySubjectE
  rcases subjEdges_spec g with ⟨hx, he⟩ | ⟨hall, es, hes⟩
  · rw [he]; exact ⟨fun _ => hx, fun _ => rfl⟩
  · rw [hes]
    constructor
    · intro h
      simp only [] at h
      split at h
      · rename_i e _; cases e <;> cases h
      · split at h <;> cases h
    · rintro ⟨r, hr, hl⟩
      have := hall r hr
      omega

/-- **The subject-hierarchy sort is total on well-formed values**: when it returns, the grouping rules all had two
    fields, the hierarchy was acyclic (`hierarchyMap` answered the level map `m` - Props/C07b `hierarchy_levels`
    says what the levels are), every permission rule had the fields the key reads, and the result is the delivered
    rules in ascending level, a permutation (C07b `sortByKey_spec`; `lower_level_first`). -/
theorem sortBySubjectE_ok (d : Option Nat) (g p l' : List Rule) (h : sortBySubjectE d g p = .ok l') :
    (∀ r ∈ g, 2 ≤ r.length) ∧ ∃ es m, subjEdges g = .ok es ∧ hierarchyMap es = .ok m ∧
      (∀ r ∈ p, ∃ k, subjKeyOf d m r = .ok k) ∧ l' = sortByKey (subjKey d m) p ∧
      l'.Pairwise (fun a b => subjKey d m a ≤ subjKey d m b) ∧ l'.Perm p := by
  unfold sortBySubjectE at h
  rcases subjEdges_spec g with ⟨_, he⟩ | ⟨hall, es, hes⟩
  · rw [he] at h; cases h
  · rw [hes] at h
    simp only [] at h
    cases hm : hierarchyMap es with
    | error e => rw [hm] at h; cases h
    | ok m =>
      rw [hm] at h
      simp only [] at h
      split at h
      · rename_i hk
        cases h
        refine ⟨hall, es, m, hes, hm, ?_, rfl, (C07b.sortByKey_spec _ _).1, (C07b.sortByKey_spec _ _).2⟩
        intro r hr
        have := List.all_eq_true.mp hk r hr
        cases hkr : subjKeyOf d m r with
        | ok k => exact ⟨k, rfl⟩
        | error e => simp [hkr] at this
      · cases h

/-- a cyclic hierarchy raises (and nothing else does, once the grouping rules are long enough) -/
theorem sortBySubjectE_cycle_iff (d : Option Nat) (g p : List Rule) :
    sortBySubjectE d g p = .error .cycle ↔ ∃ es, subjEdges g = .ok es ∧ hierarchyMap es = .error .cycle := by
  unfold sortBySubjectE
  rcases subjEdges_spec g with ⟨_, he⟩ | ⟨_, es, hes⟩
  · rw [he]; exact ⟨(by intro h; cases h), fun ⟨es, h, _⟩ => by cases h⟩
  · rw [hes]
    simp only []
    cases hm : hierarchyMap es with
    | error e =>
      cases e with
      | cycle => exact ⟨fun _ => ⟨es, rfl, hm⟩, fun _ => rfl⟩
      | fuel => exact absurd hm (C07b.hierarchyMap_total es)
    | ok m =>
      simp only []
      constructor
      · intro h; split at h <;> cases h
      · rintro ⟨es', h1, h2⟩; cases h1; rw [hm] at h2; cases h2

/-- the ordering step as a whole never reports `fuel` -/
theorem orderStore_no_fuel (o : OrdCfg) (st : Pol) : orderStore o st ≠ .error .fuel := by
  unfold orderStore
  cases h1 : subjStage o st with
  | error e =>
    simp only []
    intro h; cases h
    unfold subjStage at h1
    split at h1
    · exact sortBySubjectE_no_fuel _ _ _ h1
    · cases h1
  | ok p1 =>
    simp only []
    cases h2 : prioStage o p1 with
    | ok p2 => simp
    | error e =>
      simp only []
      intro h; cases h
      unfold prioStage at h2
      split at h2
      · cases h2
      · rename_i pi _
        rcases sortByPriorityE_spec pi p1 with ⟨_, he⟩ | ⟨_, _, he⟩ | ⟨_, _, _, he⟩ | ⟨_, _, _, he⟩ <;>
          rw [he] at h2 <;> cases h2

/-! ## the ordering step is a STABLE sort, whatever the kind of key (numeric, string, hierarchy level)

`le` is a total preorder on rules ("key not greater").  Sorted + permutation + stable is the specification of Python's
`sorted(list, key=…)`; together with `sortByPriorityE_spec` / `sortBySubjectE_ok` it says which list a successful reload
installs (the driver additionally compares the model's result with core `List.mergeSort` on every store of the tie). -/

/-- `le` is total and transitive -/
structure TotalPre (le : Rule → Rule → Bool) : Prop where
  total : ∀ a b, le a b = false → le b a = true
  trans : ∀ a b c, le a b = true → le b c = true → le a c = true

def SortedLe (le : Rule → Rule → Bool) (l : List Rule) : Prop := l.Pairwise (fun a b => le a b = true)

/-- same key: not greater in both directions -/
def eqv (le : Rule → Rule → Bool) (c x : Rule) : Bool := le x c && le c x

theorem insertByLe_sorted (le : Rule → Rule → Bool) (hle : TotalPre le) (r : Rule) (l : List Rule)
    (hs : SortedLe le l) : SortedLe le (insertByLe le r l) := by
  induction l with
  | nil => simp [insertByLe, SortedLe]
  | cons x xs ih =>
    have hx := List.pairwise_cons.mp hs
    unfold insertByLe
    split
    · rename_i hxr
      refine List.pairwise_cons.mpr ⟨?_, ih hx.2⟩
      intro y hy
      rcases List.mem_cons.mp ((insertByLe_perm le r xs).mem_iff.mp hy) with rfl | h
      · exact hxr
      · exact hx.1 y h
    · rename_i hxr
      have hrx : le r x = true := hle.total x r (by simpa using hxr)
      refine List.pairwise_cons.mpr ⟨?_, hs⟩
      intro y hy
      rcases List.mem_cons.mp hy with rfl | h
      · exact hrx
      · exact hle.trans r x y hrx (hx.1 y h)

/-- inserting into a sorted list keeps every same-key class in order, the new rule last in its class -/
theorem insertByLe_stable (le : Rule → Rule → Bool) (hle : TotalPre le) (c r : Rule) (l : List Rule)
    (hs : SortedLe le l) :
    (insertByLe le r l).filter (eqv le c) = l.filter (eqv le c) ++ (if eqv le c r then [r] else []) := by
  induction l with
  | nil => cases h : eqv le c r <;> simp [insertByLe, List.filter, h]
  | cons x xs ih =>
    have hx := List.pairwise_cons.mp hs
    unfold insertByLe
    split
    · simp only [List.filter_cons, ih hx.2]
      split <;> simp
    · rename_i hxr
      have hxr' : le x r = false := by simpa using hxr
      by_cases hrc : eqv le c r = true
      · -- every element of `x :: xs` is strictly behind `r`, so none shares `c`'s key
        have hnone : ∀ y ∈ x :: xs, eqv le c y = false := by
          intro y hy
          have hyr : le y r = false := by
            rcases List.mem_cons.mp hy with rfl | h
            · exact hxr'
            · cases hyr : le y r with
              | false => rfl
              | true => rw [hle.trans x y r (hx.1 y h) hyr] at hxr'; cases hxr'
          cases hyc : eqv le c y with
          | false => rfl
          | true =>
            simp only [eqv, Bool.and_eq_true] at hyc hrc
            rw [hle.trans y c r hyc.1 hrc.2] at hyr; cases hyr
        have hf : (x :: xs).filter (eqv le c) = [] := List.filter_eq_nil_iff.mpr fun y hy => by simp [hnone y hy]
        rw [List.filter_cons, hf]
        simp [hrc]
      · have hrc' : eqv le c r = false := by simpa using hrc
        rw [List.filter_cons]
        simp [hrc']

/-- **The ordering sort: sorted, a permutation, and stable** — for every total preorder on keys -/
theorem sortByLe_spec (le : Rule → Rule → Bool) (hle : TotalPre le) (l : List Rule) :
    SortedLe le (sortByLe le l) ∧ (sortByLe le l).Perm l ∧
    ∀ c, (sortByLe le l).filter (eqv le c) = l.filter (eqv le c) := by
  refine ⟨?_, sortByLe_perm le l, ?_⟩
  · unfold sortByLe
    suffices h : ∀ acc : List Rule, SortedLe le acc → SortedLe le (l.foldl (fun acc r => insertByLe le r acc) acc) from
      h [] List.Pairwise.nil
    induction l with
    | nil => intro acc hs; exact hs
    | cons r rs ih => intro acc hs; exact ih _ (insertByLe_sorted le hle r acc hs)
  · intro c
    unfold sortByLe
    suffices h : ∀ acc : List Rule, SortedLe le acc →
        (l.foldl (fun acc r => insertByLe le r acc) acc).filter (eqv le c) = acc.filter (eqv le c) ++ l.filter (eqv le c) by
      simpa using h [] List.Pairwise.nil
    induction l with
    | nil => intro acc _; simp
    | cons r rs ih =>
      intro acc hs
      simp only [List.foldl_cons]
      rw [ih _ (insertByLe_sorted le hle r acc hs), insertByLe_stable le hle c r acc hs, List.filter_cons]
      split <;> simp

theorem natLe_totalPre (pi : Nat) : TotalPre (natLe pi) where
  total a b h := by simp only [natLe, decide_eq_false_iff_not, decide_eq_true_eq] at h ⊢; omega
  trans a b c h1 h2 := by simp only [natLe, decide_eq_true_eq] at h1 h2 ⊢; omega

theorem strLe_totalPre (pi : Nat) : TotalPre (strLe pi) where
  total a b h := by
    simp only [strLe, Bool.not_eq_false', Bool.not_eq_true', decide_eq_true_eq, decide_eq_false_iff_not] at h ⊢
    exact String.lt_asymm h
  trans a b c h1 h2 := by
    simp only [strLe, Bool.not_eq_true', decide_eq_false_iff_not] at h1 h2 ⊢
    exact String.not_lt.mpr (String.le_trans (String.not_lt.mp h1) (String.not_lt.mp h2))

/-- the key-based sort of Model/Policy.lean (`sort_policies_by_subject_hierarchy`) is the same insertion sort -/
theorem sortByKey_eq_sortByLe (key : Rule → Nat) (l : List Rule) :
    sortByKey key l = sortByLe (fun a b => decide (key a ≤ key b)) l := by
  unfold sortByKey sortByLe
  congr 1
  funext acc r
  induction acc with
  | nil => rfl
  | cons x xs ih => simp only [insertByKey, insertByLe, decide_eq_true_eq, ih]

theorem keyLe_totalPre (key : Rule → Nat) : TotalPre (fun a b => decide (key a ≤ key b)) where
  total a b h := by simp only [decide_eq_false_iff_not, decide_eq_true_eq] at h ⊢; omega
  trans a b c h1 h2 := by simp only [decide_eq_true_eq] at h1 h2 ⊢; omega

/-- **Whatever a successful priority sort returns is the stable sort of the delivered rules** (numeric keys or string
    keys): ascending, a permutation, same-priority rules in delivery order. -/
theorem sortByPriorityE_stable_sort (pi : Nat) (l l' : List Rule) (h : sortByPriorityE pi l = .ok l') :
    ∃ le, TotalPre le ∧ (le = natLe pi ∨ le = strLe pi) ∧ SortedLe le l' ∧ l'.Perm l ∧
      ∀ c, l'.filter (eqv le c) = l.filter (eqv le c) := by
  rcases sortByPriorityE_spec pi l with ⟨_, he⟩ | ⟨_, _, he⟩ | ⟨_, _, _, he⟩ | ⟨_, _, _, he⟩
  · rw [he] at h; cases h
  · rw [he] at h; cases h
    obtain ⟨h1, h2, h3⟩ := sortByLe_spec (natLe pi) (natLe_totalPre pi) l
    exact ⟨_, natLe_totalPre pi, Or.inl rfl, h1, h2, h3⟩
  · rw [he] at h; cases h
    obtain ⟨h1, h2, h3⟩ := sortByLe_spec (strLe pi) (strLe_totalPre pi) l
    exact ⟨_, strLe_totalPre pi, Or.inr rfl, h1, h2, h3⟩
  · rw [he] at h; cases h

/-- … and so is what a successful subject-hierarchy sort returns: rules of subjects on the same level keep their
    delivery order -/
theorem sortBySubjectE_stable_sort (d : Option Nat) (g p l' : List Rule) (h : sortBySubjectE d g p = .ok l') :
    ∃ m, ∀ c, l'.filter (eqv (fun a b => decide (subjKey d m a ≤ subjKey d m b)) c) =
              p.filter (eqv (fun a b => decide (subjKey d m a ≤ subjKey d m b)) c) := by
  obtain ⟨_, es, m, _, _, _, hl, _, _⟩ := sortBySubjectE_ok d g p l' h
  refine ⟨m, fun c => ?_⟩
  rw [hl, sortByKey_eq_sortByLe]
  exact (sortByLe_spec _ (keyLe_totalPre _) p).2.2 c

/-! ## the invariant survives ordering reloads: arbitrary further use -/

theorem incLinks_ok_sized (count : Nat) (add : Bool) (pol : List Rule) (rs store res : List Rule)
    (h : incLinks count add pol store rs = .ok res) : Sized count rs := by
  induction rs generalizing store with
  | nil => intro r hr; simp at hr
  | cons r rs ih =>
    unfold incLinks at h
    split at h
    · cases h
    · rename_i hlen
      intro x hx
      rcases List.mem_cons.mp hx with rfl | hx'
      · omega
      · exact ih _ h x hx'

/-- links can only be built from grouping rules that are long enough for their role definition -/
theorem rebuildAll_ok_sized (cfg : Cfg) (pol l : Pol) (h : rebuildAll cfg pol = .ok l) :
    Sized cfg.gCount pol.g ∧ Sized cfg.g2Count pol.g2 := by
  unfold rebuildAll at h
  cases hg : buildLinks cfg.gCount pol.g with
  | error e => rw [hg] at h; cases h
  | ok lg =>
    rw [hg] at h
    simp only [] at h
    cases hg2 : buildLinks cfg.g2Count pol.g2 with
    | error e => rw [hg2] at h; cases h
    | ok lg2 => exact ⟨incLinks_ok_sized _ _ _ _ _ _ hg, incLinks_ok_sized _ _ _ _ _ _ hg2⟩

/-- what an ordering reload needs of the adapter's store for the invariant: no section delivers a rule twice.  NOTHING
    is asked about sizes, priorities or the hierarchy: stores with short grouping rules, unorderable priorities,
    cyclic hierarchies are admissible - the reload fails on them, and a failed reload keeps the invariant. -/
structure StoreNodup (st : Pol) : Prop where
  p : st.p.Nodup
  g : st.g.Nodup
  g2 : st.g2.Nodup

/-- admissible calls of an ordering enforcer: as in C04 for the management calls; ordering reloads from any
    duplicate-free store -/
def OpOKO (cfg : Cfg) (s : St) : OpO → Prop
  | .base op => OpOK cfg s op
  | .loadOrd _ => StoreNodup s.store

theorem coherent_loadOrd (cfg : Cfg) (o : OrdCfg) (s : St) (h : Coherent cfg s) (k : Option Nat)
    (hok : StoreNodup s.store) : Coherent cfg (loadOrd cfg o s k).1 := by
  cases hr : (loadOrd cfg o s k).2 with
  | error e => exact (failed_loadOrd_coherent cfg o s h k e hr).2.1
  | ok r =>
    obtain ⟨new, ho, hpol, hlinks, _⟩ := successful_loadOrd_installs_ordered cfg o s h.auto k r hr
    obtain ⟨hperm, hg, hg2⟩ := orderStore_perm o s.store new ho
    obtain ⟨hsg, hsg2⟩ := rebuildAll_ok_sized cfg new _ hlinks
    have hnew : PolOK cfg new := ⟨hperm.nodup_iff.mpr hok.p, hg ▸ hok.g, hg2 ▸ hok.g2, hsg, hsg2⟩
    obtain ⟨l, h1, h2, h3, h4, h5⟩ := rebuildAll_spec cfg new hnew.sg hnew.sg2
    rw [h1] at hlinks; cases hlinks
    have hab : (loadOrd cfg o s k).1.autoBuild = true := by
      rw [loadOrd_unfold] at hr ⊢
      split
      · rename_i hf; simp [hf] at hr
      · simp only [ho]
        simp [loadCoreFrom, logged, h.auto, h1]
    exact ⟨by rw [hpol]; exact ⟨hnew.sg, h2, hnew.g, h4⟩, by rw [hpol]; exact ⟨hnew.sg2, h3, hnew.g2, h5⟩,
           by rw [hpol]; exact hnew.p, hab⟩

theorem coherent_stepO (cfg : Cfg) (o : OrdCfg) (s : St) (op : OpO) (h : Coherent cfg s) (hop : OpOKO cfg s op) :
    Coherent cfg (stepO cfg o s op).1 := by
  cases op with
  | base op => exact coherent_step cfg s op h hop
  | loadOrd k => exact coherent_loadOrd cfg o s h k hop

def RunOKO (cfg : Cfg) (o : OrdCfg) : St → List OpO → Prop
  | _, [] => True
  | s, op :: ops => OpOKO cfg s op ∧ RunOKO cfg o (stepO cfg o s op).1 ops

/-- **Invariant.** Coherence — the hypothesis of the frame theorem — holds after every admissible history of
    management calls and ordering reloads, successful or failed: a failed reload can be followed by arbitrary further
    use, and by further failed reloads, and each of them is again a frame. -/
theorem coherent_runO (cfg : Cfg) (o : OrdCfg) (ops : List OpO) (s : St) (h : Coherent cfg s)
    (hok : RunOKO cfg o s ops) : Coherent cfg (runO cfg o s ops) := by
  induction ops generalizing s with
  | nil => exact h
  | cons op ops ih =>
    simp only [runO, List.foldl_cons]
    exact ih _ (coherent_stepO cfg o s op h hok.1) hok.2

/-- a failed ordering reload at ANY point of an admissible history is a frame -/
theorem failed_loadOrd_frame_anywhere (cfg : Cfg) (o : OrdCfg) (ops : List OpO) (s : St) (h : Coherent cfg s)
    (hok : RunOKO cfg o s ops) (k : Option Nat) (e : LErr)
    (hfail : (loadOrd cfg o (runO cfg o s ops) k).2 = .error e) :
    (loadOrd cfg o (runO cfg o s ops) k).1.pol = (runO cfg o s ops).pol ∧
    (∀ x, x ∈ (loadOrd cfg o (runO cfg o s ops) k).1.links.g ↔ x ∈ (runO cfg o s ops).links.g) ∧
    (∀ sh req, enforceQO sh (loadOrd cfg o (runO cfg o s ops) k).1 req = enforceQO sh (runO cfg o s ops) req) := by
  have hf := failed_loadOrd_frame cfg o _ (coherent_runO cfg o ops s h hok) k e hfail
  exact ⟨hf.1, hf.2.2.2.2.1, hf.2.2.2.2.2.2.2.2.2.2.2⟩


/-! ## Non-vacuity -/

section Examples

/-- the explicit-priority RBAC model of `examples/priority_model_explicit.conf`, a coherent state -/
def exCfg : Cfg := { gCount := 2, hasAdapter := true }
def exPrio : OrdCfg := { prioIdx := some 0 }
def exSubj : OrdCfg := { subjPrio := true }
def exPol : Pol :=
  { p := [["1", "alice", "data1", "read", "allow"], ["10", "admin", "data1", "read", "deny"]], g := [["alice", "admin"]] }
def exS (store : Pol) : St := { pol := exPol, links := { g := [["alice", "admin"]] }, store := store }

/-- a store that really fails to order: numeric and non-numeric priorities (`TypeError`) - `ordering_failure_iff`,
    `ordering_failure_changes_nothing`, `ordering_failure_frame`, `sortByPriorityE_typeError_iff` are not vacuous -/
example :
    let st : Pol := { p := [["2", "bob", "data2", "read", "allow"], ["urgent", "alice", "data1", "read", "deny"]], g := [["bob", "admin"]] }
    (loadOrd exCfg exPrio (exS st) none).2 = .error (.ord .typeError) ∧
    (loadOrd exCfg exPrio (exS st) none).1 = logged (exS st) := by
  decide

/-- … a rule without priority field (`IndexError`); the offending rule may sit anywhere -/
example :
    (loadOrd exCfg exPrio (exS { p := [["2", "bob", "data2", "read", "allow"], []] }) none).2 = .error (.ord .indexError) ∧
    (loadOrd exCfg exPrio (exS { p := [[], ["2", "bob", "data2", "read", "allow"]] }) none).2 = .error (.ord .indexError) := by
  decide

/-- … a cyclic subject hierarchy, and a grouping rule the hierarchy cannot use -/
example :
    (loadOrd exCfg exSubj (exS { p := [["alice", "data1", "read", "allow"]], g := [["alice", "admin"], ["admin", "alice"]] }) none).2
      = .error (.ord .cycle) ∧
    (loadOrd exCfg exSubj (exS { p := [["alice", "data1", "read", "allow"]], g := [["alice", "admin"], ["bob"]] }) none).2
      = .error (.ord .gShort) := by
  decide

/-- a store that orders: the reload installs the rules in ascending priority, ties in delivery order, together with
    the links of the delivered grouping rules (`successful_loadOrd_installs_ordered`, `sortByPriorityE_numeric`) -/
example :
    let st : Pol := { p := [["10", "root", "data2", "read", "allow"], ["2", "bob", "data2", "read", "deny"],
                            ["10", "admin", "data1", "read", "deny"], ["1", "alice", "data1", "read", "allow"]],
                      g := [["bob", "admin"]] }
    (loadOrd exCfg exPrio (exS st) none).2 = .ok .unit ∧
    (loadOrd exCfg exPrio (exS st) none).1.pol.p =
      [["1", "alice", "data1", "read", "allow"], ["2", "bob", "data2", "read", "deny"],
       ["10", "root", "data2", "read", "allow"], ["10", "admin", "data1", "read", "deny"]] ∧
    (loadOrd exCfg exPrio (exS st) none).1.links.g = [["bob", "admin"]] := by
  decide

/-- all priorities non-numeric: the rules are ordered as strings, nothing raises -/
example :
    sortByPriorityE 0 [["low", "a"], ["high", "b"], ["mid", "c"], ["high", "d"]] =
      .ok [["high", "b"], ["high", "d"], ["low", "a"], ["mid", "c"]] := by
  decide

/-- subject priority: the rules of a subject come before those of the roles it inherits from -/
example :
    (loadOrd exCfg exSubj (exS { p := [["root", "data1", "read", "deny"], ["admin", "data1", "read", "deny"], ["alice", "data1", "read", "allow"]],
                                 g := [["alice", "admin"], ["admin", "root"]] }) none).1.pol.p =
      [["alice", "data1", "read", "allow"], ["admin", "data1", "read", "deny"], ["root", "data1", "read", "deny"]] := by
  decide

/-- ordering succeeds, linking fails: the rollback relink restores the links (`failed_loadOrd_frame` with a
    `.enf` error; the state is coherent: `exS_coherent`) -/
example :
    let st : Pol := { p := [["2", "bob", "data2", "read", "allow"], ["1", "bob", "data1", "read", "allow"]], g := [["bob"]] }
    (loadOrd exCfg exPrio (exS st) none).2 = .error (.enf .shortGroupingRule) ∧
    (loadOrd exCfg exPrio (exS st) none).1.links.g = [["alice", "admin"]] ∧
    (loadOrd exCfg exPrio (exS st) none).1.pol = (exS st).pol := by
  decide

/-- the example state satisfies the hypothesis of the frame theorems -/
theorem exS_coherent (store : Pol) : Coherent exCfg (exS store) := by
  have hok : PolOK exCfg exPol :=
    ⟨by decide, by decide, by decide, by intro r hr; simp [exPol] at hr; subst hr; decide, by intro r hr; simp [exPol] at hr⟩
  obtain ⟨l, h1, h2⟩ := coherent_init exCfg exPol hok
  have hl : l = { g := [["alice", "admin"]] } := by
    have : rebuildAll exCfg exPol = .ok { g := [["alice", "admin"]] } := by decide
    rw [this] at h1; cases h1; rfl
  exact coherent_congr exCfg _ _ h2 rfl hl.symm rfl

/-- the order is observable: under the priority effect the same rules in another order decide differently -/
example :
    enforceQO .prio { pol := { p := [["1", "alice", "data1", "read", "allow"], ["2", "alice", "data1", "read", "deny"]] } } ["alice", "data1", "read"] = .ok true ∧
    enforceQO .prio { pol := { p := [["2", "alice", "data1", "read", "deny"], ["1", "alice", "data1", "read", "allow"]] } } ["alice", "data1", "read"] = .ok false := by
  decide

/-- an admissible history with a failed ordering reload in the middle (`coherent_runO`, `failed_loadOrd_frame_anywhere`) -/
example :
    let ops : List OpO := [.base (.add .g ["bob", "admin"]), .loadOrd none, .base (.remove .g ["alice", "admin"])]
    let st : Pol := { p := [["x", "bob", "data2", "read", "allow"], ["1", "bob", "data1", "read", "allow"]] }
    (stepO exCfg exPrio (stepO exCfg exPrio (exS st) ops[0]).1 ops[1]).2 = .error (.ord .typeError) ∧
    (runO exCfg exPrio (exS st) ops).pol.g = [["bob", "admin"]] ∧ (runO exCfg exPrio (exS st) ops).links.g = [["bob", "admin"]] := by
  decide

/-- domains (`examples/subject_priority_model_with_domain.conf`): the reverse assignment in the SAME domain is a
    cycle, in another domain it is not; a rule without domain field raises `IndexError`; the ordered rules put the
    subject before the role it inherits from in that domain -/
example :
    let o := OShape.subjDom.ordCfg
    let p := [["admin", "data1", "d1", "read", "deny"], ["alice", "data1", "d1", "read", "allow"]]
    orderStore o { p := p, g := [["alice", "admin", "d1"], ["admin", "alice", "d1"]] } = .error .cycle ∧
    (orderStore o { p := p, g := [["alice", "admin", "d1"], ["admin", "alice", "d2"]] }).toOption.map (·.p) =
      some [["alice", "data1", "d1", "read", "allow"], ["admin", "data1", "d1", "read", "deny"]] ∧
    orderStore o { p := p ++ [["alice", "data1"]], g := [["alice", "admin", "d1"]] } = .error .indexError := by
  decide

/-- the stable-sort theorems are not vacuous: string keys, with a tie -/
example : ∃ l', sortByPriorityE 0 [["b", "x"], ["a", "y"], ["b", "z"]] = .ok l' ∧ l' = [["a", "y"], ["b", "x"], ["b", "z"]] :=
  ⟨_, by decide, rfl⟩

/-- `RunOKO` accepts ill-formed stores: a history whose two reloads both fail (short grouping rule, then an unorderable
    priority) - `coherent_runO` applies to it -/
example :
    let st1 : Pol := { p := [["1", "bob", "data1", "read", "allow"]], g := [["bob"]] }
    RunOKO exCfg exPrio (exS st1) [.loadOrd none, .base .savePolicy, .loadOrd none] ∧
    (stepO exCfg exPrio (exS st1) (.loadOrd none)).2 = .error (.enf .shortGroupingRule) := by
  refine ⟨⟨⟨by decide, by decide, by decide⟩, trivial, ⟨by decide, by decide, by decide⟩, trivial⟩, by decide⟩

end Examples

end Casbin.Enf.C11o
