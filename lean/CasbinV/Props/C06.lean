import CasbinV.Model.Policy
/-!
# C06 — policy management behaves as operations on a duplicate-free ordered rule set

Subject: `Casbin.Policy.*` (Model/Policy.lean = `casbin/model/policy.py` after the `fix:` commits, tied by the
correspondence run of `tools/harness/props/c06.py` at unit and at `Enforcer` API level).
-/
namespace Casbin.Policy.C06
open Casbin.Policy

theorem has_iff (l : List Rule) (r : Rule) : has l r = true ↔ r ∈ l := by
  simp [has]

/-! ## add -/

theorem add_refines (l : List Rule) (r : Rule) : add none l r = Spec.add l r := by
  unfold add Spec.add
  by_cases h : r ∈ l <;> simp [has, h]

theorem bubbleRev_perm (pi : Nat) (p : Int) (r : Rule) (rev : List Rule) :
    (bubbleRev pi p r rev).Perm (r :: rev) := by
  induction rev with
  | nil => simp [bubbleRev]
  | cons x xs ih =>
    unfold bubbleRev
    split
    · split
      · exact (List.Perm.cons x ih).trans (List.Perm.swap r x xs)
      · exact List.Perm.refl _
    · exact List.Perm.refl _

theorem insertByPriority_perm (pi : Nat) (l : List Rule) (r : Rule) :
    (insertByPriority pi l r).Perm (r :: l) := by
  unfold insertByPriority
  split
  · exact List.perm_append_singleton r l
  · exact (List.reverse_perm _).trans ((bubbleRev_perm _ _ _ _).trans (List.Perm.cons r (List.reverse_perm l)))

/-- an add succeeds exactly when the rule was absent -/
theorem add_result (pi : Option Nat) (l : List Rule) (r : Rule) : (add pi l r).2 = !decide (r ∈ l) := by
  unfold add
  by_cases h : r ∈ l <;> cases pi <;> simp [has, h]

/-- a rejected add changes nothing -/
theorem add_rejected (pi : Option Nat) (l : List Rule) (r : Rule) (h : (add pi l r).2 = false) :
    (add pi l r).1 = l := by
  unfold add at *
  cases pi <;> split <;> simp_all

theorem add_perm (pi : Option Nat) (l : List Rule) (r : Rule) (h : r ∉ l) :
    (add pi l r).1.Perm (r :: l) := by
  unfold add
  cases pi with
  | none => simp [has, h]
  | some i => simp [has, h]; exact insertByPriority_perm i l r

/-- afterwards the rule is present, everything else is as before -/
theorem add_mem (pi : Option Nat) (l : List Rule) (r x : Rule) :
    x ∈ (add pi l r).1 ↔ x ∈ l ∨ x = r := by
  by_cases h : r ∈ l
  · have : (add pi l r).1 = l := by unfold add; simp [has, h]
    rw [this]; constructor
    · exact Or.inl
    · rintro (h' | rfl) <;> assumption
  · rw [(add_perm pi l r h).mem_iff]; simp [or_comm]

/-- … and it is present once: the set stays duplicate-free -/
theorem add_nodup (pi : Option Nat) (l : List Rule) (r : Rule) (hd : l.Nodup) : (add pi l r).1.Nodup := by
  by_cases h : r ∈ l
  · have : (add pi l r).1 = l := by unfold add; simp [has, h]
    rw [this]; exact hd
  · exact (add_perm pi l r h).nodup_iff.mpr (List.nodup_cons.mpr ⟨h, hd⟩)

/-- without a priority column insertion order is kept: the old list is a prefix of the new one -/
theorem add_prefix (l : List Rule) (r : Rule) : l <+: (add none l r).1 := by
  rw [add_refines]; unfold Spec.add; split <;> simp

/-! ## batch add -/

theorem foldl_add_mem (pi : Option Nat) (rs : List Rule) (l : List Rule) (x : Rule) :
    x ∈ rs.foldl (fun acc r => (add pi acc r).1) l ↔ x ∈ l ∨ x ∈ rs := by
  induction rs generalizing l with
  | nil => simp
  | cons r rs ih => simp only [List.foldl_cons, ih, add_mem, List.mem_cons]; grind

theorem foldl_add_nodup (pi : Option Nat) (rs : List Rule) (l : List Rule) (hd : l.Nodup) :
    (rs.foldl (fun acc r => (add pi acc r).1) l).Nodup := by
  induction rs generalizing l with
  | nil => simpa
  | cons r rs ih => exact ih _ (add_nodup pi l r hd)

theorem foldl_add_prefix (rs : List Rule) (l : List Rule) :
    l <+: rs.foldl (fun acc r => (add none acc r).1) l := by
  induction rs generalizing l with
  | nil => simp
  | cons r rs ih => exact (add_prefix l r).trans (ih _)

/-- a batch add succeeds exactly when none of its rules is present … -/
theorem addMany_result (pi : Option Nat) (l rs : List Rule) :
    (addMany pi l rs).2 = !rs.any (· ∈ l) := by
  unfold addMany
  have : rs.any (has l) = rs.any (fun x => decide (x ∈ l)) := by
    congr 1; funext x; simp [has]
  split <;> simp_all

/-- … otherwise it changes nothing (all or nothing) … -/
theorem addMany_all_or_nothing (pi : Option Nat) (l rs : List Rule) (h : (addMany pi l rs).2 = false) :
    (addMany pi l rs).1 = l := by
  unfold addMany at *; split <;> simp_all

/-- … and on success exactly the batch's rules have been added, each once (also when the batch repeats a rule) -/
theorem addMany_success (pi : Option Nat) (l rs : List Rule) (hd : l.Nodup) (h : (addMany pi l rs).2 = true) :
    (∀ x, x ∈ (addMany pi l rs).1 ↔ x ∈ l ∨ x ∈ rs) ∧ (addMany pi l rs).1.Nodup := by
  unfold addMany at *
  split at h
  · simp at h
  · rename_i hn
    simp only [hn, Bool.false_eq_true, ↓reduceIte]
    exact ⟨fun x => foldl_add_mem pi rs l x, foldl_add_nodup pi rs l hd⟩

theorem addMany_nodup (pi : Option Nat) (l rs : List Rule) (hd : l.Nodup) : (addMany pi l rs).1.Nodup := by
  cases h : (addMany pi l rs).2
  · rw [addMany_all_or_nothing pi l rs h]; exact hd
  · exact (addMany_success pi l rs hd h).2

/-- insertion order is kept by a batch add (no priority column) -/
theorem addMany_prefix (l rs : List Rule) : l <+: (addMany none l rs).1 := by
  unfold addMany; split
  · simp
  · exact foldl_add_prefix rs l

/-! ## remove -/

theorem remove_refines (l : List Rule) (r : Rule) (hd : l.Nodup) : remove l r = Spec.remove l r := by
  unfold remove Spec.remove
  by_cases h : r ∈ l
  · have he : l.erase r = l.filter (· != r) := List.Nodup.erase_eq_filter hd r
    simp [has, h, he]
  · simp [has, h]

theorem remove_result (l : List Rule) (r : Rule) (hd : l.Nodup) : (remove l r).2 = decide (r ∈ l) := by
  rw [remove_refines l r hd]; unfold Spec.remove; split <;> simp_all

theorem remove_mem (l : List Rule) (r x : Rule) (hd : l.Nodup) :
    x ∈ (remove l r).1 ↔ x ∈ l ∧ x ≠ r := by
  rw [remove_refines l r hd]; unfold Spec.remove
  split
  · simp
  · rename_i h; constructor
    · intro hx; exact ⟨hx, fun e => h (e ▸ hx)⟩
    · exact fun hx => hx.1

theorem remove_sublist (l : List Rule) (r : Rule) : ((remove l r).1).Sublist l := by
  unfold remove; split
  · exact List.Sublist.refl _
  · exact List.erase_sublist

theorem remove_nodup (l : List Rule) (r : Rule) (hd : l.Nodup) : (remove l r).1.Nodup :=
  (remove_sublist l r).nodup hd

/-! ## batch remove -/

def eraseIfPresent (acc : List Rule) (r : Rule) : List Rule := if acc.contains r then acc.erase r else acc

theorem eraseIfPresent_eq (acc : List Rule) (r : Rule) : eraseIfPresent acc r = acc.erase r := by
  unfold eraseIfPresent
  split
  · rfl
  · rename_i h; simp at h; exact (List.erase_of_not_mem h).symm

theorem foldl_erase_mem (rs : List Rule) (l : List Rule) (hd : l.Nodup) (x : Rule) :
    x ∈ rs.foldl (fun acc r => if acc.contains r then acc.erase r else acc) l ↔ x ∈ l ∧ x ∉ rs := by
  induction rs generalizing l with
  | nil => simp
  | cons r rs ih =>
    simp only [List.foldl_cons]
    have := eraseIfPresent_eq l r
    unfold eraseIfPresent at this
    rw [this, ih _ (hd.erase r), hd.mem_erase_iff]
    simp only [List.mem_cons, not_or]
    constructor
    · rintro ⟨⟨h1, h2⟩, h3⟩; exact ⟨h2, h1, h3⟩
    · rintro ⟨h2, h1, h3⟩; exact ⟨⟨h1, h2⟩, h3⟩

theorem foldl_erase_sublist (rs : List Rule) (l : List Rule) :
    (rs.foldl (fun acc r => if acc.contains r then acc.erase r else acc) l).Sublist l := by
  induction rs generalizing l with
  | nil => simp
  | cons r rs ih =>
    simp only [List.foldl_cons]
    refine (ih _).trans ?_
    split
    · exact List.erase_sublist
    · exact List.Sublist.refl _

/-- a batch removal succeeds exactly when every one of its rules is present … -/
theorem removeMany_result (l rs : List Rule) : (removeMany l rs).2 = rs.all (· ∈ l) := by
  unfold removeMany
  have : rs.all (has l) = rs.all (fun x => decide (x ∈ l)) := by
    congr 1; funext x; simp [has]
  split <;> simp_all

/-- … otherwise it changes nothing … -/
theorem removeMany_all_or_nothing (l rs : List Rule) (h : (removeMany l rs).2 = false) :
    (removeMany l rs).1 = l := by
  unfold removeMany at *; split <;> simp_all

/-- … and on success exactly its rules are gone, the rest keeps its order -/
theorem removeMany_success (l rs : List Rule) (hd : l.Nodup) (h : (removeMany l rs).2 = true) :
    (∀ x, x ∈ (removeMany l rs).1 ↔ x ∈ l ∧ x ∉ rs) ∧ ((removeMany l rs).1).Sublist l := by
  unfold removeMany at *
  split at h
  · rename_i hall
    simp only [hall, ↓reduceIte]
    exact ⟨fun x => foldl_erase_mem rs l hd x, foldl_erase_sublist rs l⟩
  · simp at h

theorem removeMany_sublist (l rs : List Rule) : ((removeMany l rs).1).Sublist l := by
  unfold removeMany; split
  · exact foldl_erase_sublist rs l
  · exact List.Sublist.refl _

theorem removeMany_nodup (l rs : List Rule) (hd : l.Nodup) : (removeMany l rs).1.Nodup :=
  (removeMany_sublist l rs).nodup hd

/-! ## filtered reads and removals -/

/-- every rule is long enough for the filter (otherwise Python raises `IndexError` when it reaches a
    non-empty value; that branch is `matchesFrom_short`) -/
def InRange (idx : Nat) (vals : List String) (l : List Rule) : Prop := ∀ r ∈ l, idx + vals.length ≤ r.length

theorem matchesFrom_spec (r : Rule) (idx : Nat) (vals : List String) (h : idx + vals.length ≤ r.length) :
    matchesFrom r idx vals = .ok (Spec.matchesFilter idx vals r) := by
  induction vals generalizing idx with
  | nil => simp [matchesFrom, Spec.matchesFilter]
  | cons v vs ih =>
    have hlt : idx < r.length := by simp at h; omega
    have ih' := ih (idx + 1) (by simp at h ⊢; omega)
    have hz : Spec.matchesFilter idx (v :: vs) r =
        ((v == "" || r[idx]? == some v) && Spec.matchesFilter (idx + 1) vs r) := by
      simp only [Spec.matchesFilter, List.zipIdx_cons, List.all_cons, Nat.add_zero]
      congr 1
      rw [show (1 : Nat) = 0 + 1 from rfl, List.zipIdx_succ]
      simp [List.all_map, Function.comp_def, Nat.add_assoc, Nat.add_comm 1]
    rw [hz]
    unfold matchesFrom
    by_cases hv : v = ""
    · simp [hv, ih']
    · simp only [beq_iff_eq, hv, ↓reduceIte, List.getElem?_eq_getElem hlt]
      by_cases hx : r[idx] = v
      · simp [hx, ih']
      · simp [hx, hv]

theorem matchesFrom_short (r : Rule) (idx : Nat) (v : String) (vs : List String) (hv : v ≠ "")
    (h : r.length ≤ idx) : matchesFrom r idx (v :: vs) = .error .indexError := by
  unfold matchesFrom
  simp [hv, List.getElem?_eq_none h]

theorem partitionFiltered_spec (idx : Nat) (vals : List String) (l : List Rule) (h : InRange idx vals l) :
    partitionFiltered idx vals l =
      .ok (l.filter (Spec.matchesFilter idx vals), l.filter (fun r => !Spec.matchesFilter idx vals r)) := by
  induction l with
  | nil => simp [partitionFiltered]
  | cons r rs ih =>
    have hr := matchesFrom_spec r idx vals (h r (by simp))
    have ih' := ih (fun x hx => h x (by simp [hx]))
    unfold partitionFiltered
    rw [hr, ih']
    cases hm : Spec.matchesFilter idx vals r <;> simp [hm]

/-- filtered reads select exactly the rules whose fields equal every non-empty filter value, in order -/
theorem getFiltered_exact (l : List Rule) (idx : Nat) (vals : List String) (h : InRange idx vals l) :
    getFiltered l idx vals = .ok (Spec.getFiltered l idx vals) := by
  unfold getFiltered Spec.getFiltered
  rw [partitionFiltered_spec idx vals l h]; rfl

/-- filtered removals remove exactly those rules and report whether there was one -/
theorem removeFiltered_exact (l : List Rule) (idx : Nat) (vals : List String) (h : InRange idx vals l) :
    removeFiltered l idx vals = .ok (Spec.removeFiltered l idx vals) := by
  unfold removeFiltered Spec.removeFiltered
  rw [partitionFiltered_spec idx vals l h]
  simp only [Except.map]
  congr 2
  induction l with
  | nil => rfl
  | cons r rs ih =>
    cases hm : Spec.matchesFilter idx vals r <;> simp [List.filter, hm]
    have := ih (fun x hx => h x (by simp [hx]))
    simpa using this

theorem removeFilteredReturnsEffects_exact (l : List Rule) (idx : Nat) (vals : List String)
    (h : InRange idx vals l) :
    removeFilteredReturnsEffects l idx vals =
      .ok ((Spec.removeFiltered l idx vals).1, Spec.getFiltered l idx vals) := by
  unfold removeFilteredReturnsEffects
  rw [partitionFiltered_spec idx vals l h]; rfl

theorem partitionFiltered_noValues (idx : Nat) (l : List Rule) : partitionFiltered idx [] l = .ok (l, []) := by
  induction l with
  | nil => rfl
  | cons r rs ih => simp [partitionFiltered, matchesFrom, ih]

/-- a filter without values selects every rule, whatever the field index - for the read, the removal of permission rules
    and the removal of role assignments alike -/
theorem emptyFilter_selects_all (l : List Rule) (idx : Nat) :
    getFiltered l idx [] = .ok l ∧ removeFiltered l idx [] = .ok ([], !l.isEmpty) ∧
      removeFilteredReturnsEffects l idx [] = .ok ([], l) := by
  simp [getFiltered, removeFiltered, removeFilteredReturnsEffects, partitionFiltered_noValues, Except.map]

example : removeFilteredReturnsEffects [["alice", "admin"], ["bob", "admin"]] 0 [] = .ok ([], [["alice", "admin"], ["bob", "admin"]]) := by decide

theorem removeFiltered_nodup (l : List Rule) (idx : Nat) (vals : List String) (hd : l.Nodup) :
    (Spec.removeFiltered l idx vals).1.Nodup := hd.filter _

/-! ## update -/

theorem set_idxOf_eq_map (l : List Rule) (old new : Rule) (hd : l.Nodup) (h : old ∈ l) :
    l.set (l.idxOf old) new = l.map (fun x => if x = old then new else x) := by
  induction l with
  | nil => simp at h
  | cons a as ih =>
    by_cases ha : a = old
    · subst ha
      have hn : a ∉ as := (List.nodup_cons.mp hd).1
      simp only [List.idxOf_cons_self, List.set_cons_zero, List.map_cons, ↓reduceIte, List.cons.injEq, true_and]
      symm
      calc as.map (fun x => if x = a then new else x) = as.map id := by
            apply List.map_congr_left; intro x hx
            have : x ≠ a := fun e => hn (e ▸ hx)
            simp [this]
        _ = as := List.map_id _
    · have h' : old ∈ as := by
        cases h with
        | head => exact absurd rfl ha
        | tail _ h' => exact h'
      have hne : (a == old) = false := by simpa using ha
      simp [List.idxOf_cons, hne, ha, ih (List.nodup_cons.mp hd).2 h']

/-- an update of a present rule to an absent one (or to itself) replaces it in place; every other update is
    rejected and changes nothing -/
theorem update_refines (l : List Rule) (old new : Rule) (hd : l.Nodup) :
    update none l old new = .ok (Spec.update l old new) := by
  unfold update Spec.update
  by_cases ho : old ∈ l
  · by_cases hn : new = old
    · subst hn; simp [ho, set_idxOf_eq_map l new new hd ho]
    · by_cases hp : new ∈ l
      · simp [ho, hn, hp]
      · simp [ho, hn, hp, set_idxOf_eq_map l old new hd ho]
  · simp [ho]

theorem spec_update_nodup (l : List Rule) (old new : Rule) (hd : l.Nodup) : (Spec.update l old new).1.Nodup := by
  unfold Spec.update
  split
  · rename_i h
    obtain ⟨ho, hn⟩ := h
    rcases hn with rfl | hn
    · have : l.map (fun x => if x = new then new else x) = l.map id := by
        apply List.map_congr_left; intro x _; by_cases hx : x = new <;> simp [hx]
      rw [this, List.map_id]; exact hd
    · -- injective on l: the only element sent to `new` is `old`, and `new ∉ l`
      show List.Pairwise (· ≠ ·) _
      rw [List.pairwise_map]
      refine List.Pairwise.imp_of_mem ?_ hd
      intro x y hx hy hxy
      by_cases h1 : x = old <;> by_cases h2 : y = old <;> simp_all <;> grind
  · exact hd

theorem update_mem (l : List Rule) (old new x : Rule) (h : (Spec.update l old new).2 = true) :
    x ∈ (Spec.update l old new).1 ↔ (x ∈ l ∧ x ≠ old) ∨ x = new := by
  unfold Spec.update at *
  split at h
  · rename_i hc
    simp only [hc, and_self, ↓reduceIte, List.mem_map]
    constructor
    · rintro ⟨y, hy, rfl⟩
      by_cases hyo : y = old
      · simp [hyo]
      · simp [hyo, hy]
    · rintro (⟨hx, hne⟩ | rfl)
      · exact ⟨x, hx, by simp [hne]⟩
      · exact ⟨old, hc.1, by simp⟩
  · simp at h

/-- the priority guard of `update_policy` is checked before anything changes -/
theorem update_priority_guard (pt : Nat) (l : List Rule) (old new : Rule) (res : List Rule × Bool)
    (h : update (some pt) l old new = .ok res) :
    res = (l, false) ∨ (old[pt]? = new[pt]? ∧ update none l old new = .ok res) := by
  unfold update at *
  by_cases h1 : l.contains old = true
  · by_cases h2 : (new != old && l.contains new) = true
    · simp only [h1, h2, Bool.not_true, Bool.false_eq_true, ↓reduceIte] at h; cases h; exact Or.inl rfl
    · simp only [h1, h2, Bool.not_true, Bool.false_eq_true, ↓reduceIte] at h ⊢
      cases ha : old[pt]? <;> cases hb : new[pt]? <;> simp only [ha, hb] at h <;> try cases h
      split at h
      · rename_i hab; simp at hab; subst hab; cases h; exact Or.inr ⟨rfl, rfl⟩
      · cases h
  · simp only [h1, Bool.not_false, ↓reduceIte] at h; cases h; exact Or.inl rfl

/-! ## every history keeps the set duplicate-free -/

inductive Op
  | add (pi : Option Nat) (r : Rule)
  | addMany (pi : Option Nat) (rs : List Rule)
  | remove (r : Rule)
  | removeMany (rs : List Rule)
  | removeFiltered (idx : Nat) (vals : List String)
  | update (old new : Rule)

/-- one management call on the in-memory policy (an exception leaves it unchanged) -/
def step (l : List Rule) : Op → List Rule
  | .add pi r => (add pi l r).1
  | .addMany pi rs => (addMany pi l rs).1
  | .remove r => (remove l r).1
  | .removeMany rs => (removeMany l rs).1
  | .removeFiltered idx vals => match removeFiltered l idx vals with | .ok (l', _) => l' | .error _ => l
  | .update old new => match update none l old new with | .ok (l', _) => l' | .error _ => l

theorem partitionFiltered_sublist (idx : Nat) (vals : List String) (l yes no : List Rule)
    (h : partitionFiltered idx vals l = .ok (yes, no)) : no.Sublist l ∧ yes.Sublist l := by
  induction l generalizing yes no with
  | nil => simp [partitionFiltered] at h; obtain ⟨rfl, rfl⟩ := h; simp
  | cons r rs ih =>
    unfold partitionFiltered at h
    split at h
    · cases h
    · split at h
      · cases h
      · rename_i b _ y n hp
        obtain ⟨h1, h2⟩ := ih y n hp
        split at h <;> cases h
        · exact ⟨h1.cons _, h2.cons_cons _⟩
        · exact ⟨h1.cons_cons _, h2.cons _⟩

theorem step_nodup (l : List Rule) (op : Op) (hd : l.Nodup) : (step l op).Nodup := by
  cases op with
  | add pi r => exact add_nodup pi l r hd
  | addMany pi rs => exact addMany_nodup pi l rs hd
  | remove r => exact remove_nodup l r hd
  | removeMany rs => exact removeMany_nodup l rs hd
  | removeFiltered idx vals =>
    simp only [step]
    split
    · rename_i l' b h
      unfold removeFiltered at h
      cases hp : partitionFiltered idx vals l with
      | error e => simp [hp, Except.map] at h
      | ok p =>
        obtain ⟨yes, no⟩ := p
        simp [hp, Except.map] at h
        obtain ⟨rfl, _⟩ := h
        exact (partitionFiltered_sublist idx vals l yes no hp).1.nodup hd
    · exact hd
  | update old new =>
    simp only [step]
    rw [update_refines l old new hd]
    exact spec_update_nodup l old new hd

/-- **Invariant.** After any finite sequence of management calls (repeated, overlapping, absent, partly present
    arguments included) on an initially duplicate-free policy, no rule is stored twice. -/
theorem nodup_invariant (ops : List Op) (l : List Rule) (hd : l.Nodup) : (ops.foldl step l).Nodup := by
  induction ops generalizing l with
  | nil => simpa
  | cons op ops ih => exact ih _ (step_nodup l op hd)

/-! ## Non-vacuity -/

example : (addMany none [["a"]] [["b"], ["b"], ["c"]]) = ([["a"], ["b"], ["c"]], true) := by decide
example : (addMany none [["a"]] [["b"], ["a"]]) = ([["a"]], false) := by decide
example : (removeMany [["a"], ["b"], ["c"]] [["c"], ["x"]]) = ([["a"], ["b"], ["c"]], false) := by decide
example : (removeMany [["a"], ["b"], ["c"]] [["c"], ["a"]]) = ([["b"]], true) := by decide
example : InRange 1 ["", "x"] [["a", "b", "x"], ["c", "d", "y"]] := by
  intro r hr; simp at hr; rcases hr with rfl | rfl <;> simp
example : update none [["a"], ["b"]] ["a"] ["b"] = .ok ([["a"], ["b"]], false) := by decide

end Casbin.Policy.C06
