import CasbinV.Props.C01
/-!
# C08 — `enforce_ex` explains a decision with the rule that decided it

The explanation is the rule at `explain_index`; the model returns the index (`none` = `[]`).
-/
namespace Casbin.C08
open Casbin Casbin.C01

theorem specExplain_cons (k : EffectKind) (o : Outcome) (os : List Outcome) :
    specExplain k (o :: os) =
      if decisiveFor k o then some 0 else (specExplain k os).map (· + 1) := by
  unfold specExplain
  simp only [List.findIdx_cons, List.length_cons]
  cases h : decisiveFor k o <;> simp

/-- while the loop runs the collected set is still undecided, and a rule stops the loop exactly when it
    is decisive for the effector -/
theorem intermediate_add (k : EffectKind) (s : EffSet) (o : Outcome) (hinv : intermediate k s = .indet) :
    (intermediate k (s.add o.eft) != .indet) = decisiveFor k o := by
  cases k <;> cases o <;>
    simp_all [intermediate, EffSet.add, Outcome.eft, decisiveFor, decisive, Outcome.isAllow, Outcome.isDeny] <;>
    grind

/-- one uniform unfolding of the loop, valid while the collected set is undecided -/
theorem loopO_cons (k : EffectKind) (o : Outcome) (os : List Outcome) (s : EffSet) (idx : Nat)
    (hinv : intermediate k s = .indet) :
    loopO k (o :: os) s idx =
      if decisiveFor k o then (s.add o.eft, some idx) else loopO k os (s.add o.eft) (idx + 1) := by
  have hstep := intermediate_add k s o hinv
  cases o with
  | noMatch =>
    have hd : decisiveFor k .noMatch = false := by
      cases k <;> simp [decisiveFor, decisive, Outcome.isAllow, Outcome.isDeny]
    simp [loopO, hd, Outcome.eft]
  | mAllow | mDeny | mOther => simp only [loopO, hstep]

theorem loopO_explain (k : EffectKind) (os : List Outcome) (s : EffSet) (idx : Nat)
    (hinv : intermediate k s = .indet) :
    (loopO k os s idx).2 = (specExplain k os).map (· + idx) := by
  induction os generalizing s idx with
  | nil => simp [loopO, specExplain]
  | cons o os ih =>
    rw [specExplain_cons, loopO_cons k o os s idx hinv]
    have hstep := intermediate_add k s o hinv
    cases hd : decisiveFor k o with
    | true => simp
    | false =>
      have hinv' : intermediate k (s.add o.eft) = .indet := by
        rw [hd] at hstep; simpa using hstep
      simp only [Bool.false_eq_true, ↓reduceIte]
      rw [ih _ _ hinv']
      cases specExplain k os <;> simp <;> omega

/-- **Main theorem.** `enforce_ex` returns the effect expression's value together with the index of the
    earliest rule that is decisive for the effector (or no explanation when there is none). -/
theorem enforceEx_eq_spec {ρ : Type} (cfg : Cfg) (m : List ρ → List String → MVal)
    (policy : List (List String)) (req : List ρ) (os : List Outcome)
    (hen : cfg.enabled = true) (har : cfg.rArity = req.length) (hne : policy ≠ [])
    (hos : allOutcomes cfg m req policy = .ok os) :
    enforceEx cfg m policy req = .ok (spec cfg.kind os, specExplain cfg.kind os) := by
  have h1 := enforce_eq_spec cfg m policy req os hen har hne hos
  have hl := loop_eq_loopO cfg m req policy os {} 0 hos
  have hx := loopO_explain cfg.kind os {} 0 (by cases cfg.kind <;> simp [intermediate])
  have hemp : policy.isEmpty = false := by cases policy <;> simp_all
  unfold enforce at h1
  unfold enforceEx at h1 ⊢
  simp only [hen, har, hemp, hl, effectToBool_final] at h1 ⊢
  simp at h1 ⊢
  refine ⟨h1, ?_⟩
  rw [hx]; cases specExplain cfg.kind os <;> simp

/-- the decision of `enforce_ex` is that of `enforce` (for every input, errors included) -/
theorem enforceEx_fst_eq_enforce {ρ : Type} (cfg : Cfg) (m : List ρ → List String → MVal)
    (policy : List (List String)) (req : List ρ) :
    enforce cfg m policy req = (enforceEx cfg m policy req).map (·.1) := by
  unfold enforce; cases enforceEx cfg m policy req <;> rfl

/-- `allOutcomes` keeps positions: the i-th outcome is that of the i-th rule, so an index into the
    outcomes is an index into the policy -/
theorem allOutcomes_length {ρ : Type} (cfg : Cfg) (m : List ρ → List String → MVal) (req : List ρ)
    (policy : List (List String)) (os : List Outcome) (h : allOutcomes cfg m req policy = .ok os) :
    os.length = policy.length := by
  induction policy generalizing os with
  | nil => simp [allOutcomes] at h; subst h; rfl
  | cons p ps ih =>
    simp only [allOutcomes] at h
    split at h
    · cases h
    · split at h
      · cases h
      · rename_i os' hos; cases h; simp [ih os' hos]

theorem allOutcomes_get {ρ : Type} (cfg : Cfg) (m : List ρ → List String → MVal) (req : List ρ)
    (policy : List (List String)) (os : List Outcome) (h : allOutcomes cfg m req policy = .ok os)
    (i : Nat) (p : List String) (hp : policy[i]? = some p) :
    ∃ o, os[i]? = some o ∧ ruleOutcome cfg m req p = .ok o := by
  induction policy generalizing os i with
  | nil => simp at hp
  | cons q qs ih =>
    simp only [allOutcomes] at h
    split at h
    · cases h
    · rename_i o ho
      split at h
      · cases h
      · rename_i os' hos
        cases h
        cases i with
        | zero => simp at hp; subst hp; exact ⟨o, by simp, ho⟩
        | succ j => simp at hp; simpa using ih os' hos j hp

/-! ## What an explanation means (statements about `specExplain` / `spec`) -/

/-- the explanation index is inside the policy (`explain_index < policy_len`) -/
theorem explain_in_range (k : EffectKind) (os : List Outcome) (i : Nat)
    (h : specExplain k os = some i) : i < os.length := by
  unfold specExplain at h
  simp only [] at h
  split at h
  · cases h; assumption
  · cases h

/-- the explaining rule matches and is decisive, and no earlier rule is decisive -/
theorem explain_is_earliest_decisive (k : EffectKind) (os : List Outcome) (i : Nat)
    (h : specExplain k os = some i) :
    (∃ o, os[i]? = some o ∧ decisiveFor k o = true) ∧
    (∀ j o, j < i → os[j]? = some o → decisiveFor k o = false) := by
  induction os generalizing i with
  | nil => simp [specExplain] at h
  | cons o os ih =>
    rw [specExplain_cons] at h
    split at h
    · rename_i hd
      cases h
      exact ⟨⟨o, by simp, hd⟩, by intro j o' hj; omega⟩
    · rename_i hd
      cases hx : specExplain k os with
      | none => simp [hx] at h
      | some j =>
        simp [hx] at h
        subst h
        obtain ⟨⟨o', ho', hd'⟩, hearlier⟩ := ih j hx
        refine ⟨⟨o', by simpa using ho', hd'⟩, ?_⟩
        intro j' o'' hj' hjo
        cases j' with
        | zero => simp at hjo; subst hjo; simpa using hd
        | succ j'' => simp at hjo; exact hearlier j'' o'' (by omega) hjo

/-- a decisive rule for the effector matches with a definite effect -/
theorem decisiveFor_matches (k : EffectKind) (o : Outcome) (h : decisiveFor k o = true) :
    o = .mAllow ∨ o = .mDeny := by
  cases k <;> cases o <;> simp_all [decisiveFor, decisive, Outcome.isAllow, Outcome.isDeny]

theorem priority_find (os : List Outcome) (i : Nat) (o : Outcome)
    (h : specExplain .priority os = some i) (ho : os[i]? = some o) : os.find? decisive = some o := by
  induction os generalizing i with
  | nil => simp [specExplain] at h
  | cons a os ih =>
    rw [specExplain_cons] at h
    split at h
    · rename_i hd
      cases h
      simp at ho; subst ho
      simp only [decisiveFor] at hd
      simp [List.find?, hd]
    · rename_i hd
      cases hx : specExplain .priority os with
      | none => simp [hx] at h
      | some j =>
        simp [hx] at h
        subst h
        simp at ho
        simp only [decisiveFor, Bool.not_eq_true] at hd
        simp [List.find?, hd, ih j hx ho]

/-- the explaining rule's effect equals the decision -/
theorem explain_effect_eq_decision (k : EffectKind) (os : List Outcome) (i : Nat)
    (h : specExplain k os = some i) :
    (os[i]? = some .mAllow ↔ spec k os = true) ∧ (os[i]? = some .mDeny ↔ spec k os = false) := by
  obtain ⟨⟨o, ho, hd⟩, _⟩ := explain_is_earliest_decisive k os i h
  have hmem : o ∈ os := List.mem_of_getElem? ho
  rw [ho]
  cases k with
  | allowOverride =>
    have : os.any (·.isAllow) = true := List.any_eq_true.mpr ⟨o, hmem, hd⟩
    cases o <;> simp_all [decisiveFor, Outcome.isAllow, spec]
  | denyOverride =>
    have : os.any (·.isDeny) = true := List.any_eq_true.mpr ⟨o, hmem, hd⟩
    cases o <;> simp_all [decisiveFor, Outcome.isDeny, spec]
  | allowAndDeny =>
    have : os.any (·.isDeny) = true := List.any_eq_true.mpr ⟨o, hmem, hd⟩
    cases o <;> simp_all [decisiveFor, Outcome.isDeny, spec]
  | priority =>
    have hf := priority_find os i o h ho
    cases o <;> simp_all [decisiveFor, decisive, Outcome.isAllow, Outcome.isDeny, spec]

/-- an explanation is present exactly when some rule is decisive for the effector -/
theorem explain_present_iff (k : EffectKind) (os : List Outcome) :
    (specExplain k os).isSome = os.any (decisiveFor k) := by
  induction os with
  | nil => simp [specExplain]
  | cons o os ih =>
    rw [specExplain_cons]
    cases h : decisiveFor k o <;> simp [h, ← ih]

/-- an allow under allow-override or priority always carries an explanation -/
theorem allow_is_explained (k : EffectKind) (hk : k = .allowOverride ∨ k = .priority)
    (os : List Outcome) (h : spec k os = true) : (specExplain k os).isSome = true := by
  rw [explain_present_iff]
  induction os with
  | nil => rcases hk with rfl | rfl <;> simp [spec] at h
  | cons o os ih =>
    rcases hk with rfl | rfl <;> cases o <;>
      simp_all [spec, decisiveFor, decisive, Outcome.isAllow, Outcome.isDeny, List.find?]

/-- a deny caused by an explicit deny rule always carries an explanation: under deny-override and
    allow-and-deny whenever a deny rule matches, under priority whenever the first definite match denies -/
theorem explicit_deny_is_explained (k : EffectKind) (os : List Outcome) :
    ((k = .denyOverride ∨ k = .allowAndDeny) → os.any (·.isDeny) = true → (specExplain k os).isSome = true) ∧
    (k = .priority → os.find? decisive = some .mDeny → (specExplain k os).isSome = true) := by
  rw [explain_present_iff]
  constructor
  · rintro (rfl | rfl) h <;> simpa [decisiveFor] using h
  · rintro rfl h
    have := List.find?_some h
    have hm := List.mem_of_find?_eq_some h
    simp only [decisiveFor, List.any_eq_true]
    exact ⟨_, hm, this⟩

/-- a decision reached by default carries an empty explanation -/
theorem default_is_unexplained (k : EffectKind) (os : List Outcome) :
    (k = .allowOverride → spec k os = false → specExplain k os = none) ∧
    (k = .denyOverride → spec k os = true → specExplain k os = none) ∧
    (k = .allowAndDeny → os.any (·.isDeny) = false → specExplain k os = none) ∧
    (k = .priority → os.find? decisive = none → specExplain k os = none) := by
  have key : ∀ k, os.any (decisiveFor k) = false → specExplain k os = none := by
    intro k h
    have := explain_present_iff k os
    rw [h] at this
    cases hx : specExplain k os <;> simp_all
  refine ⟨?_, ?_, ?_, ?_⟩
  · rintro rfl h; apply key; simpa [spec, decisiveFor] using h
  · rintro rfl h; apply key; simpa [spec, decisiveFor] using h
  · rintro rfl h; apply key; simpa [decisiveFor] using h
  · rintro rfl h; apply key
    rw [List.find?_eq_none] at h
    rw [List.any_eq_false]
    intro x hx; simpa [decisiveFor] using h x hx

/-! ## Non-vacuity -/

example : specExplain .priority [.noMatch, .mOther, .mDeny, .mAllow] = some 2 ∧
    spec .priority [.noMatch, .mOther, .mDeny, .mAllow] = false := by decide

example : specExplain .allowAndDeny [.mAllow, .mOther] = none ∧
    spec .allowAndDeny [.mAllow, .mOther] = true := by decide

end Casbin.C08
