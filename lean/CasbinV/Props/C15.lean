import CasbinV.Model.Enforcer
import CasbinV.Props.C01
/-!
# C15 — the RBAC query API agrees with enforcement

Subject: `implicitRoles`, `implicitPermissions`, `implicitUsersForPermission`, `getRoles`, `getUsers`, `enforceQ .rbac`
(Model/Enforcer.lean = `enforcer.py` RBAC API + `core_enforcer.enforce`).
-/
namespace Casbin.Enf.C15
open Casbin Casbin.Enf Casbin.Policy

/-- reachable along at least one role assignment -/
def PathPlus (g : Graph) (u r : Name) : Prop := ∃ n, Path g u r (n + 1)

theorem path_snoc {g : Graph} {u v w : Name} {n : Nat} (p : Path g u v n) (e : (v, w) ∈ g) : Path g u w (n + 1) := by
  induction p with
  | refl u => exact Path.step e (Path.refl _)
  | step he _ ih => exact Path.step he (ih e)

theorem pathPlus_snoc {g : Graph} {u v w : Name} (h : u = v ∨ PathPlus g u v) (e : (v, w) ∈ g) : PathPlus g u w := by
  rcases h with rfl | ⟨n, p⟩
  · exact ⟨0, Path.step e (Path.refl _)⟩
  · exact ⟨n + 1, path_snoc p e⟩

/-! ## the inner loop -/

theorem visitRoles_spec (rs queue res : List String) :
    (∀ x, x ∈ (visitRoles rs queue res).2 ↔ x ∈ res ∨ x ∈ rs) ∧
    (∀ x, x ∈ (visitRoles rs queue res).1 → x ∈ queue ∨ x ∈ (visitRoles rs queue res).2) ∧
    (∀ x, x ∈ queue → x ∈ (visitRoles rs queue res).1) ∧
    (∀ x, x ∈ (visitRoles rs queue res).2 → x ∈ res ∨ x ∈ (visitRoles rs queue res).1) ∧
    (res.Nodup → (visitRoles rs queue res).2.Nodup) := by
  induction rs generalizing queue res with
  | nil => simp only [visitRoles]; exact ⟨by simp, fun x hx => Or.inl hx, fun x hx => hx, fun x hx => Or.inl hx, fun h => h⟩
  | cons r rs ih =>
    unfold visitRoles
    split
    · rename_i hc
      have hr : r ∈ res := by simpa using hc
      obtain ⟨h1, h2, h3, h4, h5⟩ := ih queue res
      refine ⟨fun x => ?_, h2, h3, h4, h5⟩
      rw [h1]; simp only [List.mem_cons]
      constructor
      · rintro (h | h)
        · exact Or.inl h
        · exact Or.inr (Or.inr h)
      · rintro (h | rfl | h)
        · exact Or.inl h
        · exact Or.inl hr
        · exact Or.inr h
    · rename_i hc
      have hr : r ∉ res := by simpa using hc
      obtain ⟨h1, h2, h3, h4, h5⟩ := ih (queue ++ [r]) (res ++ [r])
      refine ⟨fun x => ?_, fun x hx => ?_, fun x hx => h3 x (by simp [hx]), fun x hx => ?_, fun hd => ?_⟩
      · rw [h1]; simp only [List.mem_append, List.mem_cons, List.mem_singleton, List.not_mem_nil, or_false]
        constructor
        · rintro ((h | h) | h)
          · exact Or.inl h
          · exact Or.inr (Or.inl h)
          · exact Or.inr (Or.inr h)
        · rintro (h | h | h)
          · exact Or.inl (Or.inl h)
          · exact Or.inl (Or.inr h)
          · exact Or.inr h
      · rcases h2 x hx with h | h
        · simp only [List.mem_append, List.mem_singleton] at h
          rcases h with h | rfl
          · exact Or.inl h
          · exact Or.inr ((h1 x).mpr (Or.inl (by simp)))
        · exact Or.inr h
      · rcases h4 x hx with h | h
        · simp only [List.mem_append, List.mem_singleton] at h
          rcases h with h | rfl
          · exact Or.inl h
          · exact Or.inr (h3 x (by simp))
        · exact Or.inr h
      · apply h5
        exact List.nodup_append.mpr ⟨hd, by simp, by intro a ha b hb; simp at hb; subst hb; exact fun e => hr (e ▸ ha)⟩

/-! ## the worklist loop -/

/-- invariant of `while queue:` -/
structure LoopInv (g : Graph) (u : Name) (queue res : List String) : Prop where
  sound : ∀ r ∈ res, PathPlus g u r
  queued : ∀ q ∈ queue, q = u ∨ q ∈ res
  closed : ∀ x, (x = u ∨ x ∈ res) → x ∈ queue ∨ ∀ y, (x, y) ∈ g → y ∈ res
  nodup : res.Nodup

theorem loop_step (g : Graph) (u n : Name) (queue res : List String) (h : LoopInv g u (n :: queue) res) :
    LoopInv g u (visitRoles (succs g n) queue res).1 (visitRoles (succs g n) queue res).2 := by
  obtain ⟨h1, h2, h3, h4, h5⟩ := visitRoles_spec (succs g n) queue res
  have hn : n = u ∨ n ∈ res := h.queued n (by simp)
  have hnr : u = n ∨ PathPlus g u n := by
    rcases hn with rfl | hn
    · exact Or.inl rfl
    · exact Or.inr (h.sound n hn)
  refine ⟨fun r hr => ?_, fun q hq => ?_, fun x hx => ?_, h5 h.nodup⟩
  · rcases (h1 r).mp hr with hr | hr
    · exact h.sound r hr
    · exact pathPlus_snoc hnr (succs_mem.mp hr)
  · rcases h2 q hq with hq | hq
    · rcases h.queued q (by simp [hq]) with h | h
      · exact Or.inl h
      · exact Or.inr ((h1 q).mpr (Or.inl h))
    · exact Or.inr hq
  · -- x is the popped node, an old known node, or a newly discovered one
    have hx' : (x = u ∨ x ∈ res) ∨ x ∈ succs g n := by
      rcases hx with h | h
      · exact Or.inl (Or.inl h)
      · rcases (h1 x).mp h with h | h
        · exact Or.inl (Or.inr h)
        · exact Or.inr h
    by_cases hxn : x = n
    · subst hxn
      exact Or.inr (fun y hy => (h1 y).mpr (Or.inr (succs_mem.mpr hy)))
    · rcases hx' with hold | hnew
      · rcases h.closed x hold with hq | hc
        · rcases List.mem_cons.mp hq with rfl | hq'
          · exact absurd rfl hxn
          · exact Or.inl (h3 x hq')
        · exact Or.inr (fun y hy => (h1 y).mpr (Or.inl (hc y hy)))
      · -- newly discovered (or already known): it is in the new result list
        have hxr : x ∈ (visitRoles (succs g n) queue res).2 := (h1 x).mpr (Or.inr hnew)
        rcases h4 x hxr with hres | hq
        · rcases h.closed x (Or.inr hres) with hq | hc
          · rcases List.mem_cons.mp hq with rfl | hq'
            · exact absurd rfl hxn
            · exact Or.inl (h3 x hq')
          · exact Or.inr (fun y hy => (h1 y).mpr (Or.inl (hc y hy)))
        · exact Or.inl hq

theorem loop_inv (g : Graph) (u : Name) (fuel : Nat) (queue res out : List String) (h : LoopInv g u queue res)
    (hout : implicitLoop g fuel queue res = some out) : LoopInv g u [] out := by
  induction fuel generalizing queue res with
  | zero =>
    cases queue with
    | nil => simp [implicitLoop] at hout; subst hout; exact h
    | cons n q => simp [implicitLoop] at hout
  | succ f ih =>
    cases queue with
    | nil => simp [implicitLoop] at hout; subst hout; exact h
    | cons n q =>
      simp only [implicitLoop] at hout
      exact ih _ _ (loop_step g u n q res h) hout

theorem closed_complete (g : Graph) (u : Name) (res : List String) (h : LoopInv g u [] res) :
    ∀ n x r, (x = u ∨ x ∈ res) → Path g x r (n + 1) → r ∈ res := by
  have hc : ∀ x, (x = u ∨ x ∈ res) → ∀ y, (x, y) ∈ g → y ∈ res := by
    intro x hx
    rcases h.closed x hx with hq | hc
    · simp at hq
    · exact hc
  intro n
  induction n with
  | zero =>
    intro x r hx p
    cases p with
    | step he p' => cases p'; exact hc x hx _ he
  | succ k ih =>
    intro x r hx p
    cases p with
    | step he p' => exact ih _ r (Or.inr (hc x hx _ he)) p'

/-- **Implicit roles = all roles reachable from the user** (each once), whenever the loop terminates within its
    fuel — for every role graph (cycles, self-assignments, diamonds) and every depth. -/
theorem implicit_roles_iff (store : List Rule) (u : String) (dom : Option String) (out : List String)
    (h : implicitRoles store u dom = some out) :
    (∀ r, r ∈ out ↔ PathPlus (edgesOf store dom) u r) ∧ out.Nodup := by
  unfold implicitRoles at h
  have hinv := loop_inv (edgesOf store dom) u _ [u] [] out
    ⟨by simp, by simp, by intro x hx; simp at hx; simp [hx], List.nodup_nil⟩ h
  refine ⟨fun r => ⟨hinv.sound r, ?_⟩, hinv.nodup⟩
  rintro ⟨n, p⟩
  exact closed_complete _ u out hinv n u r (Or.inl rfl) p

/-! ## inverse views -/

/-- `get_users_for_role` and `get_roles_for_user` are inverse views of the same assignments -/
theorem users_roles_inverse (store : List Rule) (dom : Option String) (u r : String) :
    u ∈ getUsers store r dom ↔ r ∈ getRoles store u dom := by
  unfold getUsers getRoles
  simp only [List.mem_map, List.mem_filter, beq_iff_eq]
  constructor
  · rintro ⟨⟨a, b⟩, ⟨he, hb⟩, ha⟩
    simp at hb ha; subst hb; subst ha
    exact ⟨(a, b), ⟨he, rfl⟩, rfl⟩
  · rintro ⟨⟨a, b⟩, ⟨he, ha⟩, hb⟩
    simp at hb ha; subst hb; subst ha
    exact ⟨(a, b), ⟨he, rfl⟩, rfl⟩

/-- direct roles are exactly the recorded assignments -/
theorem getRoles_direct (store : List Rule) (dom : Option String) (u r : String) :
    r ∈ getRoles store u dom ↔ (u, r) ∈ edgesOf store dom := by
  unfold getRoles
  simp only [List.mem_map, List.mem_filter, beq_iff_eq]
  constructor
  · rintro ⟨⟨a, b⟩, ⟨he, ha⟩, hb⟩
    simp at ha hb; subst ha; subst hb; exact he
  · intro he; exact ⟨(u, r), ⟨he, rfl⟩, rfl⟩

/-! ## enforcement against the implicit permissions -/

/-- all permission rules have the three fields of the RBAC model -/
def PSized (l : List Rule) : Prop := ∀ r ∈ l, r.length = 3

def matchR (links : Pol) (rs ro ra : String) (pv : Rule) : Bool :=
  match pv with
  | ps :: po :: pa :: _ => hasLinkQ links.g rs ps none && ro == po && ra == pa
  | _ => false

theorem matcher_rbac (links : Pol) (rs ro ra : String) (pv : Rule) (h : pv.length = 3) :
    matcher .rbac links [rs, ro, ra] pv = .bool (matchR links rs ro ra pv) := by
  match pv, h with
  | [ps, po, pa], _ => rfl

theorem allOutcomes_rbac (links : Pol) (rs ro ra : String) (l : List Rule) (h : PSized l) :
    C01.allOutcomes { kind := .allowOverride, rArity := 3, pArity := 3 } (matcher .rbac links) [rs, ro, ra] l =
      .ok (l.map fun pv => if matchR links rs ro ra pv then Outcome.mAllow else Outcome.noMatch) := by
  induction l with
  | nil => rfl
  | cons pv ps ih =>
    have hl : pv.length = 3 := h pv (by simp)
    have ih' := ih (fun x hx => h x (by simp [hx]))
    simp only [C01.allOutcomes, ruleOutcome, hl, matcher_rbac links rs ro ra pv hl, ih', List.map_cons]
    cases matchR links rs ro ra pv <;> simp [ruleEft]

theorem any_congr' {α : Type} (l : List α) (f g : α → Bool) (h : ∀ x ∈ l, f x = g x) : l.any f = l.any g := by
  induction l with
  | nil => rfl
  | cons a as ih => simp only [List.any_cons, h a (by simp), ih (fun x hx => h x (by simp [hx]))]

/-- on a non-empty well-sized policy a request is allowed exactly when some rule matches -/
theorem enforce_rbac (s : St) (rs ro ra : String) (h : PSized s.pol.p) (hne : s.pol.p ≠ []) :
    enforceQ .rbac s [rs, ro, ra] = .ok (s.pol.p.any (matchR s.links rs ro ra)) := by
  unfold enforceQ
  have := C01.enforce_eq_spec { kind := .allowOverride, rArity := 3, pArity := 3 } (matcher .rbac s.links)
    s.pol.p [rs, ro, ra] _ rfl rfl hne (allOutcomes_rbac s.links rs ro ra s.pol.p h)
  show enforce { kind := .allowOverride, rArity := 3, pArity := 3 } _ _ _ = _
  rw [this]
  simp only [spec, List.any_map]
  congr 1
  apply any_congr'
  intro x _
  simp only [Function.comp]
  cases matchR s.links rs ro ra x <;> simp [Outcome.isAllow]

/-- the role hierarchy above `u` stays within the configured depth: everything reachable is reachable in fewer
    than `max_hierarchy_level` steps -/
def DepthOK (g : Graph) (u : Name) : Prop := ∀ r, PathPlus g u r → ∃ n, n < maxLevel ∧ Path g u r n

theorem mem_permissionsFor (p : List Rule) (user : String) (r : Rule) :
    r ∈ permissionsFor p user ↔ r ∈ p ∧ r[0]? = some user := by
  simp [permissionsFor]

/-- **enforce ⇔ implicit permission.** In the RBAC model (allow-override, matcher = role membership on the subject
    plus equality on object and action), within the depth bound, a request is allowed exactly when its object and
    action appear among `get_implicit_permissions_for_user` of the subject. -/
theorem enforce_iff_implicit_permission (s : St) (rs ro ra : String) (perms : List Rule)
    (hs : PSized s.pol.p) (hne : s.pol.p ≠ []) (hp : implicitPermissions s rs = some perms)
    (hdepth : DepthOK (edgesOf s.links.g none) rs) :
    enforceQ .rbac s [rs, ro, ra] = .ok true ↔ ∃ ps, [ps, ro, ra] ∈ perms := by
  rw [enforce_rbac s rs ro ra hs hne]
  unfold implicitPermissions at hp
  cases hroles : implicitRoles s.links.g rs none with
  | none => simp [hroles] at hp
  | some roles =>
    simp [hroles] at hp
    subst hp
    obtain ⟨hr, _⟩ := implicit_roles_iff s.links.g rs none roles hroles
    simp only [Except.ok.injEq, List.any_eq_true]
    constructor
    · rintro ⟨pv, hpv, hm⟩
      have hl := hs pv hpv
      match pv, hl with
      | [ps, po, pa], _ =>
        simp only [matchR, Bool.and_eq_true, beq_iff_eq] at hm
        obtain ⟨⟨hlink, rfl⟩, rfl⟩ := hm
        refine ⟨ps, ?_⟩
        have hin : ps ∈ rs :: roles := by
          unfold hasLinkQ at hlink
          rcases (hasLink_iff _ _ _ _).mp hlink with rfl | ⟨n, hn, p⟩
          · simp
          · cases n with
            | zero => cases p; simp
            | succ k => exact List.mem_cons_of_mem _ ((hr ps).mpr ⟨k, p⟩)
        rcases List.mem_cons.mp hin with rfl | hin'
        · exact List.mem_append_left _ ((mem_permissionsFor _ _ _).mpr ⟨hpv, rfl⟩)
        · exact List.mem_append_right _ (List.mem_flatMap.mpr ⟨ps, hin', (mem_permissionsFor _ _ _).mpr ⟨hpv, rfl⟩⟩)
    · rintro ⟨ps, hmem⟩
      have hmem' : ∃ role ∈ rs :: roles, [ps, ro, ra] ∈ permissionsFor s.pol.p role := by
        rcases List.mem_append.mp hmem with h | h
        · exact ⟨rs, by simp, h⟩
        · obtain ⟨role, hrole, hin⟩ := List.mem_flatMap.mp h
          exact ⟨role, List.mem_cons_of_mem _ hrole, hin⟩
      obtain ⟨role, hrole, hin⟩ := hmem'
      obtain ⟨hpv, hfirst⟩ := (mem_permissionsFor _ _ _).mp hin
      simp at hfirst; subst hfirst
      refine ⟨[ps, ro, ra], hpv, ?_⟩
      simp only [matchR, Bool.and_eq_true, beq_iff_eq, and_true]
      unfold hasLinkQ
      rw [hasLink_iff]
      rcases List.mem_cons.mp hrole with rfl | hrole'
      · exact Or.inl rfl
      · exact Or.inr (hdepth ps ((hr ps).mp hrole'))

/-! ## implicit users of a permission -/

theorem dedupS_mem (l : List String) (x : String) : x ∈ dedupS l ↔ x ∈ l := by
  induction l with
  | nil => simp [dedupS]
  | cons a as ih =>
    simp only [dedupS, List.mem_cons, List.mem_filter, ih]
    constructor
    · rintro (h | ⟨h, _⟩)
      · exact Or.inl h
      · exact Or.inr h
    · rintro (h | h)
      · exact Or.inl h
      · by_cases hx : x = a
        · exact Or.inl hx
        · exact Or.inr ⟨h, by simpa using hx⟩

theorem dedupS_nodup (l : List String) : (dedupS l).Nodup := by
  induction l with
  | nil => simp [dedupS]
  | cons a as ih =>
    simp only [dedupS]
    refine List.nodup_cons.mpr ⟨?_, ih.filter _⟩
    intro h
    have := (List.mem_filter.mp h).2
    simp at this

/-- **Implicit users of a permission**: returned once each, exactly the subjects of the policy that are not a role
    and for which `enforce` allows the permission. -/
theorem implicit_users_exact (s : St) (perm : List String) :
    (∀ x, x ∈ implicitUsersForPermission s perm ↔
      (x ∈ fieldValues s.pol.g 0 ∨ x ∈ fieldValues s.pol.p 0) ∧ x ∉ fieldValues s.pol.g 1 ∧
      enforceQ .rbac s (x :: perm) = .ok true) ∧
    (implicitUsersForPermission s perm).Nodup := by
  unfold implicitUsersForPermission
  refine ⟨fun x => ?_, ((dedupS_nodup _).filter _).filter _⟩
  simp only [List.mem_filter, dedupS_mem, List.mem_append, Bool.not_eq_true', List.contains_eq_mem,
    decide_eq_false_iff_not]
  constructor
  · rintro ⟨⟨h1, h2⟩, h3⟩
    refine ⟨h1, h2, ?_⟩
    split at h3
    · rename_i h; exact h
    · cases h3
  · rintro ⟨h1, h2, h3⟩
    exact ⟨⟨h1, h2⟩, by rw [h3]⟩

/-! ## Non-vacuity -/

example :
    let s : St := { pol := { p := [["admin", "data1", "read"]], g := [["alice", "admin"]] },
                    links := { g := [["alice", "admin"]] } }
    implicitRoles s.links.g "alice" none = some ["admin"] ∧
    implicitPermissions s "alice" = some [["admin", "data1", "read"]] ∧
    enforceQ .rbac s ["alice", "data1", "read"] = .ok true ∧
    implicitUsersForPermission s ["data1", "read"] = ["alice"] := by
  decide

end Casbin.Enf.C15
