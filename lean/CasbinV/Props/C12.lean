import CasbinV.Props.C10
/-!
# C12 — filtered loading loads exactly the filtered subset, never overwrites the store
-/
namespace Casbin.C12
open Casbin.Py Casbin.Persist Casbin.Persist.Spec Casbin.C10

/-! ## the line filter -/

theorem blank_eq (v : Str) : blank v = (strip v).isEmpty := by
  cases v with
  | nil => rfl
  | cons c v => simp [blank]

/-- all-blank filters keep every rule, however short -/
theorem matchesFilter_all_blank (flt : List Str) (r : Rule) (h : flt.all (fun x => (strip x).isEmpty) = true) :
    matchesFilter flt r = true := by
  induction flt generalizing r with
  | nil => simp [matchesFilter]
  | cons v vs ih =>
    simp only [List.all_cons, Bool.and_eq_true] at h
    cases r with
    | nil => simp [matchesFilter, blank_eq, h.1, ih [] h.2]
    | cons w ws => simp [matchesFilter, blank_eq, h.1, ih ws h.2]

/-! ### `strip` is idempotent (the repaired filter strips fields the tokenizer already stripped) -/

theorem lstrip_lstrip (s : Str) : lstrip (lstrip s) = lstrip s := by
  induction s with
  | nil => rfl
  | cons c s ih =>
    by_cases hc : isSpace c = true
    · rw [lstrip_cons_space hc, ih]
    · have hc' : isSpace c = false := by simpa using hc
      rw [lstrip_cons_nonspace hc', lstrip_cons_nonspace hc']

theorem rstrip_rstrip (s : Str) : rstrip (rstrip s) = rstrip s := by
  induction s with
  | nil => rfl
  | cons c s ih =>
    by_cases hr : rstrip s = []
    · by_cases hc : isSpace c = true
      · simp [rstrip, hr, hc]
      · have hc' : isSpace c = false := by simpa using hc
        have h1 : rstrip (c :: s) = [c] := by rw [rstrip]; simp [hr, hc']
        rw [h1, rstrip_cons_nonspace hc']; rfl
    · rw [rstrip_cons_of_ne_nil hr, rstrip_cons_of_ne_nil (by rw [ih]; exact hr), ih]

theorem lstrip_rstrip_of_lstrip_eq (t : Str) (h : lstrip t = t) : lstrip (rstrip t) = rstrip t := by
  cases t with
  | nil => rfl
  | cons c s =>
    have hc : isSpace c = false := by
      cases hcs : isSpace c with
      | false => rfl
      | true =>
        rw [lstrip_cons_space hcs] at h
        have := lstrip_length_le s
        rw [h] at this; simp at this; omega
    rw [rstrip_cons_nonspace hc, lstrip_cons_nonspace hc]

theorem strip_strip (s : Str) : strip (strip s) = strip s := by
  unfold strip
  rw [lstrip_rstrip_of_lstrip_eq _ (lstrip_lstrip s), rstrip_rstrip]

/-! ### the repaired filter = the property's predicate, on every line -/

/-- `filter_words` (repaired: no length guard): skip ⇔ some non-blank filter value has no equal field at its position -/
theorem filterWordsAux_eq (flt : List Str) (ws : List Str) :
    filterWordsAux flt ws = !matchesFilter flt (ws.map strip) := by
  induction flt generalizing ws with
  | nil => simp [filterWordsAux, matchesFilter]
  | cons v vs ih =>
    cases ws with
    | nil =>
      have := ih []
      simp only [List.map_nil] at this
      simp only [filterWordsAux, List.map_nil, matchesFilter, this]
      cases blank v <;> simp
    | cons w ws =>
      simp only [filterWordsAux, List.map_cons, matchesFilter, ih ws]
      cases blank v <;> cases h : (strip v == strip w) <;> simp [h, bne]

/-- the loader is the tokenizer `split_line` followed by the two `IndexError` checks -/
theorem parseLine_eq_splitLine (l : Str) (h : (l.isEmpty || l.take 1 == ['#']) = false) :
    parseLine l =
      match splitLine l with
      | .error e => .error e
      | .ok [] => .error .indexError
      | .ok ([] :: _) => .error .indexError
      | .ok (key :: rule) => .ok (some (key, rule)) := by
  simp only [Bool.or_eq_false_iff] at h
  unfold parseLine splitLine
  simp only [h.1, h.2, Bool.false_eq_true, ↓reduceIte]
  cases tokLoop l 0 [] with
  | error e => rfl
  | ok toks =>
    simp only
    cases toks.map strip with
    | nil => rfl
    | cons k r => cases k <;> rfl

/-- a non-empty line never tokenizes to nothing -/
theorem splitLine_ne_nil (c : Char) (s : Str) : splitLine (c :: s) ≠ .ok [] := by
  unfold splitLine
  rw [tokLoop_eq_scan]
  by_cases hb : (isOpen c || isClose c) = true
  · simp [hb]
  · simp only [hb, Bool.false_eq_true, ↓reduceIte]
    cases scan 0 s with
    | error e => simp [toToks]
    | ok r => obtain ⟨t, ts⟩ := r; simp [toToks]

theorem splitLine_stripped (l : Str) (p : List Str) (h : splitLine l = .ok p) : p.map strip = p := by
  unfold splitLine at h
  cases ht : tokLoop l 0 [] with
  | error e => rw [ht] at h; simp at h
  | ok toks =>
    rw [ht] at h
    simp only [Except.ok.injEq] at h
    subst h
    rw [List.map_map]
    apply List.map_congr_left
    intro t _
    exact strip_strip t

/-- **`filterLine_eq`: the repaired `filter_line` is the property's predicate** — on every line the loader turns into
    a rule it answers "skip" exactly when some non-blank value of the type's filter is not equal to the rule's field at
    that position (`p` by `P`, `g` by `G`, other types never) -/
theorem filterLine_eq (l : Str) (f : Filter) (k : Str) (r : Rule) (h : parseLine l = .ok (some (k, r))) :
    filterLine l f = .ok (!keeps f k r) := by
  have hne : (l.isEmpty || l.take 1 == ['#']) = false := by
    cases hb : (l.isEmpty || l.take 1 == ['#']) with
    | false => rfl
    | true =>
      exfalso
      unfold parseLine at h
      rcases Bool.or_eq_true _ _ |>.mp hb with h1 | h1
      · simp [h1] at h
      · by_cases h0 : l.isEmpty = true
        · simp [h0] at h
        · simp [h0, h1] at h
  rw [parseLine_eq_splitLine l hne] at h
  unfold filterLine
  simp only [hne, Bool.false_eq_true, ↓reduceIte]
  cases hs : splitLine l with
  | error e => rw [hs] at h; simp at h
  | ok p =>
    rw [hs] at h
    have hstr := splitLine_stripped l p hs
    cases p with
    | nil => simp at h
    | cons p0 ps =>
      cases p0 with
      | nil => simp at h
      | cons c p0' =>
        simp only [Except.ok.injEq, Option.some.injEq, Prod.mk.injEq] at h
        obtain ⟨hk, hr⟩ := h
        subst hk; subst hr
        simp only [List.map_cons, List.cons.injEq] at hstr
        obtain ⟨hs0, hsr⟩ := hstr
        simp only [hs0]
        have hfw : ∀ flt, filterWords ((c :: p0') :: ps) flt = !matchesFilter flt ps := by
          intro flt
          unfold filterWords
          simp only [List.drop_succ_cons, List.drop_zero]
          rw [filterWordsAux_eq, hsr]
        generalize hkk : (c :: p0') = k at *
        unfold keeps
        by_cases hg : (k == ['g']) = true
        · have hp : (k == ['p']) = false := by
            simp only [beq_iff_eq] at hg; subst hg; decide
          simp only [hg, hp, Bool.false_eq_true, ↓reduceIte]
          by_cases he : (f.G.isEmpty || f.G.all fun x => (strip x).isEmpty) = true
          · simp only [he, ↓reduceIte]
            have : f.G.all (fun x => (strip x).isEmpty) = true := by
              rcases Bool.or_eq_true _ _ |>.mp he with h | h
              · have : f.G = [] := by simpa using h
                simp [this]
              · exact h
            simp [matchesFilter_all_blank _ _ this]
          · simp only [he, Bool.false_eq_true, ↓reduceIte, hfw]
        · simp only [hg, Bool.false_eq_true, ↓reduceIte]
          by_cases hp : (k == ['p']) = true
          · simp only [hp, ↓reduceIte, hfw]
          · simp only [hp, Bool.false_eq_true, ↓reduceIte, hfw]
            simp [matchesFilter]

/-! ### what the repair changed: the unrepaired `filter_line` / `filter_words` (finding F20, fixed) -/

/-- `filter_words` before the repair: a line shorter than the filter is skipped whatever the extra positions hold -/
def filterWordsOld (line : List Str) (flt : List Str) : Bool :=
  if line.length < flt.length + 1 then true
  else (flt.zip (line.drop 1)).any fun (v, w) => !blank v && strip v != strip w

/-- `filter_line` before the repair: the line is cut at every comma -/
def filterLineOld (line : Str) (f : Filter) : Bool :=
  let p := splitOn ',' line
  match p with
  | [] => true
  | p0 :: _ =>
    if strip p0 == ['g'] then
      if f.G.isEmpty || f.G.all (fun x => (strip x).isEmpty) then false
      else filterWordsOld p f.G
    else if strip p0 == ['p'] then filterWordsOld p f.P
    else filterWordsOld p []

/-- Boolean form of `filterLine l f = .ok b` -/
def filtersTo (l : Str) (f : Filter) (b : Bool) : Bool :=
  match filterLine l f with
  | .ok x => x == b
  | .error _ => false

/-- F20, first witness: a bracketed comma before a filtered position — the rule's second field is `c`, the filter asks
    for `c`; the unrepaired function skipped the line, the repaired one keeps it -/
theorem filterLine_naive_split_witness :
    parsesTo "p, f(a, b), c".toList (['p'], ["f(a, b)".toList, ['c']]) = true ∧
    keeps { P := [[], ['c']], G := [] } ['p'] ["f(a, b)".toList, ['c']] = true ∧
    filterLineOld "p, f(a, b), c".toList { P := [[], ['c']], G := [] } = true ∧
    filtersTo "p, f(a, b), c".toList { P := [[], ['c']], G := [] } false = true := by
  decide

/-- F20, second witness: a filter longer than the rule whose extra position is blank — every non-blank value matches;
    the unrepaired function skipped the line, the repaired one keeps it -/
theorem filterLine_long_filter_witness :
    parsesTo "p, a, b".toList (['p'], [['a'], ['b']]) = true ∧
    keeps { P := [['a'], [], []], G := [['x']] } ['p'] [['a'], ['b']] = true ∧
    filterLineOld "p, a, b".toList { P := [['a'], [], []], G := [['x']] } = true ∧
    filtersTo "p, a, b".toList { P := [['a'], [], []], G := [['x']] } false = true := by
  decide

/-- F20, third witness: a leading comma (dropped by the loader) — the unrepaired function did not recognise the `p`
    rule and loaded it whatever the filter said; the repaired one skips it -/
theorem filterLine_leading_comma_witness :
    parsesTo ", p, a".toList (['p'], [['a']]) = true ∧
    keeps { P := [['b']], G := [] } ['p'] [['a']] = false ∧
    filterLineOld ", p, a".toList { P := [['b']], G := [] } = false ∧
    filtersTo ", p, a".toList { P := [['b']], G := [] } true = true := by
  decide

/-! ## filtered loading of a whole file -/

theorem parsedPairs_eq (ls : List Str) : parsedPairs ls = ls.filterMap parsed := rfl

/-- one line under a keep-predicate: the common shape of the full loader (`keep = true`) and the filtered loader -/
def lineStep (keep : Str → Rule → Bool) (l : Str) (m : Store) : Except Err Store :=
  match parseLine l with
  | .error e => .error e
  | .ok none => .ok m
  | .ok (some (k, r)) => if keep k r then .ok (m.append k r) else .ok m

/-- the lines before the first one on which `load_policy_line` raises -/
def goodPrefix : List Str → List Str
  | [] => []
  | l :: ls => match parseLine l with
    | .error _ => []
    | .ok _ => l :: goodPrefix ls

/-- the exception of the first raising line -/
def firstError : List Str → Option Err
  | [] => none
  | l :: ls => match parseLine l with
    | .error e => some e
    | .ok _ => firstError ls

theorem goodPrefix_of_no_error (ls : List Str) (h : firstError ls = none) : goodPrefix ls = ls := by
  induction ls with
  | nil => rfl
  | cons l ls ih =>
    unfold firstError at h
    unfold goodPrefix
    cases hp : parseLine l with
    | error e => simp [hp] at h
    | ok o => simp only [hp] at h ⊢; rw [ih h]

theorem firstError_none_iff (ls : List Str) : firstError ls = none ↔ ∀ l ∈ ls, ∀ e, parseLine l ≠ .error e := by
  induction ls with
  | nil => simp [firstError]
  | cons l ls ih =>
    unfold firstError
    cases hp : parseLine l with
    | error e =>
      simp only [reduceCtorEq, false_iff]
      intro h; exact h l (by simp) e hp
    | ok o =>
      simp only [ih]
      constructor
      · intro h x hx e
        rcases List.mem_cons.mp hx with rfl | hx
        · rw [hp]; simp
        · exact h x hx e
      · intro h x hx e; exact h x (by simp [hx]) e

theorem extend_nil (m : Store) : extend m [] = m := by
  unfold extend
  conv => rhs; rw [← List.map_id m]
  apply List.map_congr_left
  intro e _; simp [rulesOf]

theorem extend_append (m : Store) (k : Str) (r : Rule) (kr : List (Str × Rule)) :
    extend (m.append k r) kr = extend m ((k, r) :: kr) := by
  rw [← appendAll_eq_extend, ← appendAll_eq_extend]; rfl

/-- **loading lines under a keep-predicate, for every list of lines**: every policy type is extended by the kept
    rules of the lines before the first raising one, in order; the exception is that line's -/
theorem loadLines_lineStep (keep : Str → Rule → Bool) (ls : List Str) (m : Store) :
    loadLines (lineStep keep) ls m =
      (extend m ((parsedPairs (goodPrefix ls)).filter fun p => keep p.1 p.2), firstError ls) := by
  induction ls generalizing m with
  | nil => simp [loadLines, goodPrefix, firstError, parsedPairs, extend_nil]
  | cons l ls ih =>
    conv => lhs; unfold loadLines
    unfold goodPrefix firstError
    cases hp : parseLine l with
    | error e =>
      have hstep : lineStep keep l m = .error e := by unfold lineStep; rw [hp]
      simp [hstep, parsedPairs, extend_nil]
    | ok o =>
      cases o with
      | none =>
        have hstep : lineStep keep l m = .ok m := by unfold lineStep; rw [hp]
        simp only [hstep]
        rw [ih]
        simp [parsedPairs, parsed, hp]
      | some kr =>
        obtain ⟨k, r⟩ := kr
        have hpp : parsedPairs (l :: goodPrefix ls) = (k, r) :: parsedPairs (goodPrefix ls) := by
          simp [parsedPairs, parsed, hp]
        by_cases hk : keep k r = true
        · have hstep : lineStep keep l m = .ok (m.append k r) := by unfold lineStep; rw [hp]; simp [hk]
          simp only [hstep]
          rw [ih, extend_append, hpp]
          simp [hk]
        · have hstep : lineStep keep l m = .ok m := by unfold lineStep; rw [hp]; simp [hk]
          simp only [hstep]
          rw [ih, hpp]
          simp [hk]

theorem loadLines_map (h : Str → Store → Except Err Store) (pre : Str → Str) (ls : List Str) (m : Store) :
    loadLines (fun l st => h (pre l) st) ls m = loadLines h (ls.map pre) m := by
  induction ls generalizing m with
  | nil => rfl
  | cons l ls ih =>
    simp only [List.map_cons]
    unfold loadLines
    cases h (pre l) m with
    | error e => rfl
    | ok m' => exact ih m'

theorem loadPolicyLine_eq_lineStep (l : Str) (m : Store) : loadPolicyLine l m = lineStep (fun _ _ => true) l m := by
  unfold lineStep
  cases hp : parseLine l with
  | error e => exact loadPolicyLine_error l m e hp
  | ok o =>
    cases o with
    | none => exact loadPolicyLine_none l m hp
    | some kr => obtain ⟨k, r⟩ := kr; simpa using loadPolicyLine_some l m k r hp

/-- one step of the repaired `load_filtered_policy_file`, for EVERY line: skipped lines, comments, rules the filter
    keeps or drops, and lines on which the loader raises (the filter raises the same exception there, or lets the
    loader raise it) -/
theorem filtered_step (f : Filter) (l : Str) (m : Store) :
    (if l.isEmpty then Except.ok m
      else match filterLine l f with
        | .error e => .error e
        | .ok true => .ok m
        | .ok false => loadPolicyLine l m) = lineStep (keeps f) l m := by
  by_cases hb : (l.isEmpty || l.take 1 == ['#']) = true
  · -- empty line or comment: both sides leave the model alone
    have hp : parseLine l = .ok none := by
      unfold parseLine
      rcases Bool.or_eq_true _ _ |>.mp hb with h1 | h1
      · simp [h1]
      · by_cases h0 : l.isEmpty = true
        · simp [h0]
        · simp [h0, h1]
    have hfl : filterLine l f = .ok false := by unfold filterLine; simp [hb]
    simp only [lineStep, hp, hfl, loadPolicyLine_none l m hp]
    split <;> rfl
  · have hb' : (l.isEmpty || l.take 1 == ['#']) = false := by simpa using hb
    have hne : l.isEmpty = false := by
      simp only [Bool.or_eq_false_iff] at hb'; exact hb'.1
    simp only [hne, Bool.false_eq_true, ↓reduceIte]
    cases hp : parseLine l with
    | ok o =>
      cases o with
      | none =>
        exfalso
        rw [parseLine_eq_splitLine l hb'] at hp
        split at hp <;> simp at hp
      | some kr =>
        obtain ⟨k, r⟩ := kr
        rw [filterLine_eq l f k r hp]
        simp only [lineStep, hp, loadPolicyLine_some l m k r hp]
        cases keeps f k r <;> rfl
    | error e =>
      simp only [lineStep, hp]
      have hp' := hp
      rw [parseLine_eq_splitLine l hb'] at hp'
      unfold filterLine
      simp only [hb', Bool.false_eq_true, ↓reduceIte]
      cases hs : splitLine l with
      | error e' =>
        rw [hs] at hp'
        simp only [Except.error.injEq] at hp'
        simp [hp']
      | ok p =>
        rw [hs] at hp'
        cases p with
        | nil =>
          cases l with
          | nil => simp at hne
          | cons c s => exact absurd hs (splitLine_ne_nil c s)
        | cons p0 ps =>
          cases p0 with
          | cons c p0' => simp at hp'
          | nil =>
            -- blank type name: not `p`, not `g`, so the line is kept and the loader raises
            have h1 : (strip ([] : Str) == ['g']) = false := by decide
            have h2 : (strip ([] : Str) == ['p']) = false := by decide
            simp only [h1, h2, Bool.false_eq_true, ↓reduceIte, filterWords, filterWordsAux]
            exact loadPolicyLine_error l m e hp

theorem rulesOf_filter (f : Filter) (kr : List (Str × Rule)) (key : Str) :
    rulesOf (kr.filter fun p => keeps f p.1 p.2) key = (rulesOf kr key).filter (keeps f key) := by
  induction kr with
  | nil => rfl
  | cons p kr ih =>
    obtain ⟨k, r⟩ := p
    by_cases hk : (k == key) = true
    · have hkk : k = key := by simpa using hk
      subst hkk
      by_cases hkeep : keeps f k r = true
      · simp only [List.filter_cons, hkeep, ↓reduceIte, rulesOf_cons, hk, ih]
      · simp only [List.filter_cons, hkeep, Bool.false_eq_true, ↓reduceIte, rulesOf_cons, hk, ih]
    · by_cases hkeep : keeps f k r = true
      · simp only [List.filter_cons, hkeep, ↓reduceIte, rulesOf_cons, hk, Bool.false_eq_true, ih]
      · simp only [List.filter_cons, hkeep, Bool.false_eq_true, ↓reduceIte, rulesOf_cons, hk, ih]

/-- **`filtered_exact`** — for EVERY file, filter and memory (after repair F20 no hypothesis is left).
    `load_filtered_policy_file` appends to every policy type exactly those rules of the file, in file order, that the
    filter keeps: `p` rules whose leading fields equal every non-blank value of `P`, `g` rules likewise with `G`, all
    rules of other types.  When a line makes the loader raise, this holds for the lines before it and the exception
    is that line's — exactly as for the full load. -/
theorem filtered_exact (text : Str) (f : Filter) (m : Store) :
    loadFilteredFile text f m =
      (extend m ((parsedPairs (goodPrefix (textLines true text))).filter fun p => keeps f p.1 p.2),
       firstError (textLines true text)) := by
  have hlines : textLines true text = (splitOn '\n' text).map strip := by simp [textLines]
  have hfun : loadFilteredFile text f m =
      loadLines (fun l st => lineStep (keeps f) (strip l) st) (splitOn '\n' text) m := by
    unfold loadFilteredFile
    congr 1
    funext l st
    exact filtered_step f (strip l) st
  rw [hfun, loadLines_map (lineStep (keeps f)) strip, ← hlines, loadLines_lineStep]

/-- **full load** (`_load_policy_file`), for every file: every policy type is extended by the rules of the lines before
    the first raising one -/
theorem load_full_general (text : Str) (m : Store) :
    loadFile text m =
      (extend m (parsedPairs (goodPrefix (textLines true text))), firstError (textLines true text)) := by
  have hlines : textLines true text = (splitOn '\n' text).map strip := by simp [textLines]
  unfold loadFile
  have hfun : (fun (l : Str) (st : Store) => loadPolicyLine (strip l) st) =
      fun l st => lineStep (fun _ _ => true) (strip l) st := by
    funext l st; exact loadPolicyLine_eq_lineStep (strip l) st
  rw [hfun, loadLines_map (lineStep fun _ _ => true) strip, ← hlines, loadLines_lineStep]
  have : ∀ l : List (Str × Rule), l.filter (fun _ => true) = l := by
    intro l; induction l <;> simp_all
  rw [this]

/-- full load when no line raises -/
theorem load_full (text : Str) (m : Store)
    (hok : ∀ l ∈ textLines true text, ∀ e, parseLine l ≠ .error e) :
    loadFile text m = (extend m (parsedPairs (textLines true text)), none) := by
  have h := (firstError_none_iff _).mpr hok
  rw [load_full_general, goodPrefix_of_no_error _ h, h]

/-- **the filtered load is the full load, filtered** — unconditionally: loading filtered into an empty policy gives the
    full load with every policy type filtered by `keeps`, and fails exactly when, and as, the full load fails -/
theorem filtered_eq_filter_of_full (text : Str) (f : Filter) (m : Store) (hempty : ∀ e ∈ m, e.rules = []) :
    loadFilteredFile text f m = (filterStore f (loadFile text m).1, (loadFile text m).2) := by
  rw [filtered_exact, load_full_general]
  congr 1
  unfold filterStore extend
  rw [List.map_map]
  apply List.map_congr_left
  intro e he
  simp [hempty e he, rulesOf_filter]

/-! ## the enforcer: flag machine, save guard, incremental loading, links -/

/-- a filter that actually filters (`None` and the empty / all-blank filter do not) -/
def isProper : Option Filter → Bool
  | none => false
  | some f => !isEmptyFilter f

/-- `is_empty_filter` is "every value of P and G is blank" -/
theorem isEmptyFilter_iff (f : Filter) : isEmptyFilter f = (f.P ++ f.G).all blank := by
  have hb : blank = fun x => (strip x).isEmpty := funext blank_eq
  unfold isEmptyFilter
  rw [hb]
  simp only [List.all_append]
  cases hP : f.P <;> cases hG : f.G <;> simp

/-- what the flag must be after an operation that did not fail in a load -/
def flagAfter (b : Bool) : Op → Bool
  | .load => false
  | .loadFiltered f => isProper f
  | .loadIncrement f => isProper f
  | .save => b
  | .adapterSave => b

/-- the repaired adapter resets the flag exactly when it has read the whole file -/
theorem adapterLoad_flag (s : EState) (m : Store) :
    (adapterLoad s m).1.filtered = if (adapterLoad s m).2.2.isNone then false else s.filtered := by
  unfold adapterLoad; rfl

theorem adapterLoad_flag_ok (s : EState) (m : Store) (h : (adapterLoad s m).2.2 = none) :
    (adapterLoad s m).1.filtered = false := by
  rw [adapterLoad_flag, h]; rfl

/-- **F26a repaired**: a full load that fails while the adapter reads the file changes nothing in the adapter -/
theorem adapterLoad_failed_noop (s : EState) (m : Store) (e : Err) (h : (adapterLoad s m).2.2 = some e) :
    (adapterLoad s m).1 = s := by
  unfold adapterLoad at h ⊢
  simp only at h ⊢
  rw [h]; rfl

theorem adapterLoadFiltered_flag (s : EState) (m : Store) (f : Option Filter)
    (h : (adapterLoadFiltered s m f).2.2 = none) : (adapterLoadFiltered s m f).1.filtered = isProper f := by
  cases f with
  | none =>
    simp only [adapterLoadFiltered] at h ⊢
    rw [adapterLoad_flag_ok s m h]; rfl
  | some f =>
    unfold adapterLoadFiltered at h ⊢
    by_cases he : isEmptyFilter f = true
    · simp only [he, ↓reduceIte] at h ⊢
      have h' : (adapterLoad s m).2.2 = none := by
        cases hx : (adapterLoad s m).2.2 with
        | none => rfl
        | some e => rw [hx] at h; simp at h
      rw [adapterLoad_flag_ok s m h']; simp [isProper, he]
    · simp only [he, Bool.false_eq_true, ↓reduceIte] at h ⊢
      have he' : isEmptyFilter f = false := by simpa using he
      split at h
      · simp at h
      · simp [isProper, he']

/-- a successful full load ends the filtered state -/
theorem loadPolicy_flag (s : EState) (hok : (loadPolicy s).2 = none) : (loadPolicy s).1.filtered = false := by
  unfold loadPolicy at hok ⊢
  have hf := adapterLoad_flag s (clearPG s.mem)
  cases hA : adapterLoad s (clearPG s.mem) with
  | mk s1 rest =>
    cases rest with
    | mk m' e =>
      rw [hA] at hok hf
      cases e with
      | some e => simp at hok
      | none =>
        simp only at hok hf ⊢
        cases hB : buildLinks m' with
        | mk ls e2 =>
          rw [hB] at hok
          cases e2 with
          | some e2 => simp at hok
          | none => simpa using hf

/-- a failed full load never changes what memory holds (the enforcer loads into a copy) -/
theorem loadPolicy_failed_keeps_memory (s : EState) (h : (loadPolicy s).2 ≠ none) : (loadPolicy s).1.mem = s.mem := by
  unfold loadPolicy at h ⊢
  cases hA : adapterLoad s (clearPG s.mem) with
  | mk s1 rest =>
    cases rest with
    | mk m' e =>
      have hmem : s1.mem = s.mem := by
        have : (adapterLoad s (clearPG s.mem)).1.mem = s.mem := by unfold adapterLoad; rfl
        rw [hA] at this; exact this
      rw [hA] at h
      cases e with
      | some e => exact hmem
      | none =>
        simp only at h ⊢
        cases hB : buildLinks m' with
        | mk ls e2 =>
          rw [hB] at h
          cases e2 with
          | some e2 => exact hmem
          | none => simp at h

/-- **F26a repaired, enforcer level**: when the adapter fails to read the file, `load_policy` changes nothing at all -
    in particular `is_filtered()` stays set and a following `save_policy` is still refused -/
theorem loadPolicy_adapter_failure_noop (s : EState) (e : Err)
    (h : (adapterLoad s (clearPG s.mem)).2.2 = some e) : loadPolicy s = (s, some e) := by
  have hs := adapterLoad_failed_noop s (clearPG s.mem) e h
  unfold loadPolicy
  cases hA : adapterLoad s (clearPG s.mem) with
  | mk s1 rest =>
    cases rest with
    | mk m' e' =>
      rw [hA] at h hs
      simp only at h hs
      subst h; subst hs
      rfl

theorem save_still_refused_after_failed_read (s : EState) (e : Err) (hf : s.filtered = true)
    (h : (adapterLoad s (clearPG s.mem)).2.2 = some e) (op : Op) (hop : op = .save ∨ op = .adapterSave) :
    (step (step s .load).1 op).2 = some .cannotSaveFiltered := by
  have : (step s .load).1 = s := by simp [step, loadPolicy_adapter_failure_noop s e h]
  rw [this]
  rcases hop with rfl | rfl <;> simp [step, savePolicy, hf]

theorem loadFilteredGen_flag (clear : Bool) (s : EState) (f : Option Filter)
    (h : (loadFilteredGen clear s f).2 = none) : (loadFilteredGen clear s f).1.filtered = isProper f := by
  unfold loadFilteredGen at h ⊢
  simp only at h ⊢
  have hflag := adapterLoadFiltered_flag s (if clear then clearPG s.mem else s.mem) f
  cases hA : adapterLoadFiltered s (if clear then clearPG s.mem else s.mem) f with
  | mk s1 rest =>
    cases rest with
    | mk m1 e =>
      rw [hA] at h hflag
      cases e with
      | some e => simp at h
      | none => simpa using hflag rfl

/-- **`flag_machine`, one step**: after a successful operation `is_filtered()` is true exactly if the operation was
    a filtered (or incremental filtered) load with a proper filter, false after a full load or a load with `None` /
    an empty filter; saving (allowed or refused) does not change it -/
theorem flag_machine_step (s : EState) (op : Op) (hok : (step s op).2 = none ∨ op = .save ∨ op = .adapterSave) :
    (step s op).1.filtered = flagAfter s.filtered op := by
  cases op with
  | load =>
    have hok : (step s .load).2 = none := by simpa using hok
    exact loadPolicy_flag s hok
  | loadFiltered f =>
    have hok : (step s (.loadFiltered f)).2 = none := by simpa using hok
    exact loadFilteredGen_flag true s f hok
  | loadIncrement f =>
    have hok : (step s (.loadIncrement f)).2 = none := by simpa using hok
    exact loadFilteredGen_flag false s f hok
  | save => simp only [step, savePolicy, flagAfter]; split <;> simp_all
  | adapterSave => simp only [step, savePolicy, flagAfter]; split <;> simp_all

/-- every load of the history succeeds (saves may be refused) -/
def LoadsOk : EState → List Op → Prop
  | _, [] => True
  | s, op :: ops => ((step s op).2 = none ∨ op = .save ∨ op = .adapterSave) ∧ LoadsOk (step s op).1 ops

/-- **`flag_machine`**: over any history whose loads succeed the flag is the fold of `flagAfter` — i.e. it is
    determined by the last load (and is `true` on a fresh enforcer, which holds the empty subset) -/
theorem flag_machine (s : EState) (ops : List Op) (h : LoadsOk s ops) :
    (run s ops).filtered = ops.foldl flagAfter s.filtered := by
  induction ops generalizing s with
  | nil => rfl
  | cons op ops ih =>
    obtain ⟨h1, h2⟩ := h
    rw [run, ih _ h2, flag_machine_step s op h1, List.foldl_cons]

/-- the flag after a history in "last load" form -/
def lastLoadFlag : List Op → Option Bool
  | [] => none
  | op :: ops =>
    match lastLoadFlag ops with
    | some b => some b
    | none => match op with
      | .load => some false
      | .loadFiltered f => some (isProper f)
      | .loadIncrement f => some (isProper f)
      | .save => none
      | .adapterSave => none

theorem foldl_flagAfter (b : Bool) (ops : List Op) :
    ops.foldl flagAfter b = (lastLoadFlag ops).getD b := by
  induction ops generalizing b with
  | nil => rfl
  | cons op ops ih =>
    rw [List.foldl_cons, ih]
    conv => rhs; unfold lastLoadFlag
    cases lastLoadFlag ops with
    | some x => rfl
    | none => cases op <;> rfl

/-- **`save_refused_when_filtered`**: while the flag is set, `save_policy` (enforcer) and `adapter.save_policy`
    raise and nothing changes — in particular not the policy file -/
theorem save_refused_when_filtered (s : EState) (op : Op) (hop : op = .save ∨ op = .adapterSave)
    (h : s.filtered = true) : step s op = (s, some .cannotSaveFiltered) := by
  rcases hop with rfl | rfl <;> simp [step, savePolicy, h]

/-- when the flag is clear the file becomes the rendering of memory, nothing else changes -/
theorem save_writes_memory (s : EState) (op : Op) (hop : op = .save ∨ op = .adapterSave)
    (h : s.filtered = false) : step s op = ({ s with file := saveFile s.mem }, none) := by
  rcases hop with rfl | rfl <;> simp [step, savePolicy, h]

/-- **a filtered subset is never written**: over any history whose loads succeed, a save that is allowed happens
    only when the last load was a full one (or had an empty filter) -/
theorem save_only_after_full_load (s : EState) (ops : List Op) (h : LoadsOk s ops) (op : Op)
    (hop : op = .save ∨ op = .adapterSave) (hsaved : (step (run s ops) op).2 = none) :
    (lastLoadFlag ops).getD s.filtered = false := by
  rw [← foldl_flagAfter, ← flag_machine s ops h]
  cases hf : (run s ops).filtered with
  | false => rfl
  | true => rw [save_refused_when_filtered _ op hop hf] at hsaved; simp at hsaved

/-- what the adapter loads for a filter: everything for `None` / an empty filter, else what the filter keeps -/
def selected (f : Option Filter) (kr : List (Str × Rule)) : List (Str × Rule) :=
  match f with
  | none => kr
  | some f => if isEmptyFilter f then kr else kr.filter fun p => keeps f p.1 p.2

/-- what the adapter leaves in the model object, for every file and every filter -/
theorem adapterLoadFiltered_exact (s : EState) (m : Store) (f : Option Filter) :
    (adapterLoadFiltered s m f).2.1 =
      extend m (selected f (parsedPairs (goodPrefix (textLines true s.file)))) := by
  cases f with
  | none => simp [adapterLoadFiltered, adapterLoad, load_full_general, selected]
  | some f =>
    unfold adapterLoadFiltered
    by_cases he : isEmptyFilter f = true
    · simp [he, adapterLoad, load_full_general, selected]
    · simp only [he, Bool.false_eq_true, ↓reduceIte, filtered_exact s.file f m, selected]
      cases firstError (textLines true s.file) <;> rfl

/-- the adapter raises only where a line of the file makes the loader raise -/
theorem adapterLoadFiltered_ok (s : EState) (m : Store) (f : Option Filter)
    (hne : firstError (textLines true s.file) = none) : (adapterLoadFiltered s m f).2.2 = none := by
  cases f with
  | none => simp [adapterLoadFiltered, adapterLoad, load_full_general, hne]
  | some f =>
    unfold adapterLoadFiltered
    by_cases he : isEmptyFilter f = true
    · simp [he, adapterLoad, load_full_general, hne]
    · simp only [he, Bool.false_eq_true, ↓reduceIte, filtered_exact s.file f m, hne]

/-- **`incremental_appends`** (and `filtered_exact` at enforcer level), for every file and every filter:
    `load_increment_filtered_policy` leaves every policy type with what it held plus the selected rules of the file, in
    file order (nothing is dropped, nothing is deduplicated) - also when a line makes the loader raise (`goodPrefix` =
    the lines before it); `load_filtered_policy` does the same starting from the cleared policy when the adapter does
    not raise (when it does, the repaired enforcer keeps memory as it was: `loadFiltered_failed_noop`, F26c). -/
theorem incremental_appends (clear : Bool) (s : EState) (f : Option Filter)
    (h : clear = true → (adapterLoadFiltered s (clearPG s.mem) f).2.2 = none) :
    (loadFilteredGen clear s f).1.mem =
      extend (if clear then clearPG s.mem else s.mem)
        (selected f (parsedPairs (goodPrefix (textLines true s.file)))) := by
  unfold loadFilteredGen
  have := adapterLoadFiltered_exact s (if clear then clearPG s.mem else s.mem) f
  simp only
  split
  · rename_i s1 m1 e heq
    rw [heq] at this
    cases clear with
    | true =>
      have h' := h rfl
      simp only [↓reduceIte] at heq
      rw [heq] at h'; simp at h'
    | false => simpa using this
  · rename_i heq; rw [heq] at this; simpa using this

/-- the same when no line of the file raises: the whole file is read -/
theorem incremental_appends_ok (clear : Bool) (s : EState) (f : Option Filter)
    (hok : ∀ l ∈ textLines true s.file, ∀ e, parseLine l ≠ .error e) :
    (loadFilteredGen clear s f).1.mem =
      extend (if clear then clearPG s.mem else s.mem) (selected f (parsedPairs (textLines true s.file))) := by
  have hne := (firstError_none_iff _).mpr hok
  rw [incremental_appends clear s f (fun _ => adapterLoadFiltered_ok s _ f hne), goodPrefix_of_no_error _ hne]

/-- **F26c repaired**: a `load_filtered_policy` whose adapter raises (a malformed line, an invalid filter object, the
    file missing) changes nothing at all - memory, links and `is_filtered()` are what they were, so a following
    `save_policy` is refused or allowed exactly as before the call -/
theorem loadFiltered_failed_noop (s : EState) (f : Option Filter) (e : Err)
    (h : (adapterLoadFiltered s (clearPG s.mem) f).2.2 = some e) : loadFiltered s f = (s, some e) := by
  have hs : (adapterLoadFiltered s (clearPG s.mem) f).1 = s := by
    cases f with
    | none => exact adapterLoad_failed_noop s _ e (by simpa [adapterLoadFiltered] using h)
    | some f =>
      unfold adapterLoadFiltered at h ⊢
      by_cases he : isEmptyFilter f = true
      · simp only [he, ↓reduceIte] at h ⊢
        cases hx : (adapterLoad s (clearPG s.mem)).2.2 with
        | none => rw [hx] at h; simp at h
        | some e' => exact adapterLoad_failed_noop s _ e' hx
      · simp only [he, Bool.false_eq_true, ↓reduceIte] at h ⊢
        split
        · rfl
        · rename_i heq; rw [heq] at h; simp at h
  unfold loadFiltered loadFilteredGen
  simp only [↓reduceIte]
  cases hA : adapterLoadFiltered s (clearPG s.mem) f with
  | mk s1 rest =>
    cases rest with
    | mk m1 e1 =>
      rw [hA] at h hs
      simp only at h hs
      subst h; subst hs
      rfl

/-- the links a policy defines: for every `g` type, every rule cut to the role definition's arity -/
def edges (m : Store) : List Link :=
  m.flatMap fun e => if e.sec == some 'g' then e.rules.map fun r => (e.key, r.take e.arity) else []

theorem linkArgs_ok (key : Str) (n : Nat) (rs : List Rule) (h : (linkArgs key n rs).2 = none) :
    (linkArgs key n rs).1 = rs.map fun r => (key, r.take n) := by
  induction rs with
  | nil => rfl
  | cons r rs ih =>
    unfold linkArgs at h ⊢
    split
    · rename_i hlt; simp [hlt] at h
    · rename_i hlt; simp only [hlt, ↓reduceIte] at h; simp [ih h]

theorem buildLinks_ok (m : Store) (h : (buildLinks m).2 = none) : (buildLinks m).1 = edges m := by
  induction m with
  | nil => rfl
  | cons e es ih =>
    unfold buildLinks at h ⊢
    unfold edges
    rw [List.flatMap_cons]
    by_cases hg : (e.sec == some 'g') = true
    · simp only [hg, ↓reduceIte] at h ⊢
      cases hl : linkArgs e.key e.arity e.rules with
      | mk ls err =>
        cases err with
        | some x => simp [hl] at h
        | none =>
          simp only [hl] at h ⊢
          have h1 := linkArgs_ok e.key e.arity e.rules (by rw [hl])
          rw [hl] at h1
          simp only at h1
          rw [h1, ih h]; rfl
    · simp only [hg, Bool.false_eq_true, ↓reduceIte] at h ⊢
      rw [ih h]; rfl

/-- **`links_from_subset`**: after a successful filtered / incremental load the role managers hold exactly the links
    of the policy now in memory (every `g` rule of the loaded subset, cut to the definition's arity, in order) -/
theorem links_from_subset (clear : Bool) (s : EState) (f : Option Filter)
    (hok : (loadFilteredGen clear s f).2 = none) :
    (loadFilteredGen clear s f).1.links = edges (loadFilteredGen clear s f).1.mem := by
  unfold loadFilteredGen at hok ⊢
  simp only at hok ⊢
  split at hok
  · simp at hok
  · rename_i s1 m1 heq
    exact buildLinks_ok m1 hok

/-! ## loading never drops anything — for every file, every filter, failing loads included -/

/-- `b` holds, type by type, everything `a` holds, in the same order, possibly followed by more -/
def Ext : Store → Store → Prop
  | [], [] => True
  | x :: xs, y :: ys => (x.key = y.key ∧ x.arity = y.arity ∧ x.rules <+: y.rules) ∧ Ext xs ys
  | _, _ => False

theorem Ext.refl (a : Store) : Ext a a := by
  induction a with
  | nil => trivial
  | cons e es ih => exact ⟨⟨rfl, rfl, List.prefix_refl _⟩, ih⟩

theorem Ext.trans {a b c : Store} (h1 : Ext a b) (h2 : Ext b c) : Ext a c := by
  induction a generalizing b c with
  | nil =>
    cases b with
    | nil => cases c with
      | nil => trivial
      | cons z zs => exact h2.elim
    | cons y ys => exact h1.elim
  | cons x xs ih =>
    cases b with
    | nil => exact h1.elim
    | cons y ys =>
      cases c with
      | nil => exact h2.elim
      | cons z zs =>
        obtain ⟨hxy, h1'⟩ := h1
        obtain ⟨hyz, h2'⟩ := h2
        exact ⟨⟨hxy.1.trans hyz.1, hxy.2.1.trans hyz.2.1, hxy.2.2.trans hyz.2.2⟩, ih h1' h2'⟩

theorem Ext.append (m : Store) (k : Str) (r : Rule) : Ext m (m.append k r) := by
  induction m with
  | nil => trivial
  | cons e es ih =>
    unfold Store.append at ih ⊢
    rw [List.map_cons]
    refine ⟨?_, ih⟩
    by_cases h : (e.key == k) = true
    · simp [h]
    · simp [h]

theorem loadPolicyLine_ext (l : Str) (m m' : Store) (h : loadPolicyLine l m = .ok m') : Ext m m' := by
  cases hp : parseLine l with
  | error e => rw [loadPolicyLine_error l m e hp] at h; simp at h
  | ok o =>
    cases o with
    | none =>
      rw [loadPolicyLine_none l m hp] at h
      simp only [Except.ok.injEq] at h; subst h; exact Ext.refl m
    | some kr =>
      obtain ⟨k, r⟩ := kr
      rw [loadPolicyLine_some l m k r hp] at h
      simp only [Except.ok.injEq] at h; subst h; exact Ext.append m k r

theorem loadLines_ext (h : Str → Store → Except Err Store) (hstep : ∀ l m m', h l m = .ok m' → Ext m m')
    (ls : List Str) (m : Store) : Ext m (loadLines h ls m).1 := by
  induction ls generalizing m with
  | nil => exact Ext.refl m
  | cons l ls ih =>
    unfold loadLines
    cases hl : h l m with
    | error e => exact Ext.refl m
    | ok m' => exact (hstep l m m' hl).trans (ih m')

theorem loadFile_ext (text : Str) (m : Store) : Ext m (loadFile text m).1 :=
  loadLines_ext _ (fun l m m' h => loadPolicyLine_ext (strip l) m m' h) _ m

theorem loadFilteredFile_ext (text : Str) (f : Filter) (m : Store) : Ext m (loadFilteredFile text f m).1 := by
  refine loadLines_ext _ (fun l m m' h => ?_) _ m
  simp only at h
  split at h
  · simp only [Except.ok.injEq] at h; subst h; exact Ext.refl m
  · split at h
    · simp at h
    · simp only [Except.ok.injEq] at h; subst h; exact Ext.refl m
    · exact loadPolicyLine_ext _ m m' h

theorem adapterLoadFiltered_ext (s : EState) (m : Store) (f : Option Filter) :
    Ext m (adapterLoadFiltered s m f).2.1 := by
  cases f with
  | none => exact loadFile_ext s.file m
  | some f =>
    unfold adapterLoadFiltered
    by_cases he : isEmptyFilter f = true
    · simp only [he, ↓reduceIte, adapterLoad]; exact loadFile_ext s.file m
    · simp only [he, Bool.false_eq_true, ↓reduceIte]
      have := loadFilteredFile_ext s.file f m
      cases hl : loadFilteredFile s.file f m with
      | mk m' e =>
        rw [hl] at this
        cases e <;> exact this

/-- **`incremental_never_drops`** — unconditional: whatever the file contains, whatever the filter, and even when
    the load raises half-way, after `load_increment_filtered_policy` every policy type still holds everything it held,
    in the same order, followed by what was added -/
theorem incremental_never_drops (s : EState) (f : Option Filter) : Ext s.mem (loadIncrement s f).1.mem := by
  unfold loadIncrement loadFilteredGen
  have := adapterLoadFiltered_ext s s.mem f
  simp only [Bool.false_eq_true, ↓reduceIte]
  cases hA : adapterLoadFiltered s s.mem f with
  | mk s1 rest =>
    cases rest with
    | mk m1 e =>
      rw [hA] at this
      cases e with
      | some e => exact this
      | none => exact this

/-! ## non-vacuity: concrete instances meeting the hypotheses -/

def exFile : Str := "p, alice, d1, read\np, bob, d2, write\n# note\n\ng, alice, admin\np2, x, y".toList
def exFilter : Filter := { P := ["alice".toList, []], G := [[], "admin".toList] }
def exStore : Store :=
  [{ key := ['p'], arity := 3, rules := [] }, { key := "p2".toList, arity := 2, rules := [] },
   { key := ['g'], arity := 2, rules := [] }]
def exState : EState := { mem := exStore, file := exFile }

/-- a file with a bracketed comma before the filtered position, a rule shorter than the filter, a leading comma and a
    raising last line: `filtered_exact` speaks about all of it -/
def exHardFile : Str := "p, f(a, b), alice\np, alice\n, p, bob, x\ng, alice, admin\np, oops)".toList
def exHardFilter : Filter := { P := [[], "alice".toList, []], G := [[], "admin".toList] }

example : (loadFilteredFile exHardFile exHardFilter exStore).1.map (·.rules) =
      [[["f(a, b)".toList, "alice".toList]], [], [["alice".toList, "admin".toList]]] ∧
    (loadFilteredFile exHardFile exHardFilter exStore).2 = some .indexError ∧
    (loadFile exHardFile exStore).2 = some .indexError := by decide

/-- … and the filter really selects: alice's `p` rule, the `g` rule and the unfiltered `p2` rule are loaded, bob's is not -/
example : (loadFilteredFile exFile exFilter exStore).1.map (·.rules.length) = [1, 1, 1] ∧
    (loadFile exFile exStore).1.map (·.rules.length) = [2, 1, 1] := by decide

example : filtersTo "p, bob, d2, write".toList exFilter true = true ∧ keeps exFilter ['p'] ["bob".toList] = false := by
  decide

/-- a history whose loads succeed, with a refused and an allowed save -/
def exOps : List Op := [.loadFiltered (some exFilter), .save, .loadIncrement none, .adapterSave]

example : LoadsOk exState exOps := by
  simp only [exOps, LoadsOk]
  decide

example : (step (run exState [.loadFiltered (some exFilter)]) .save).2 = some .cannotSaveFiltered ∧
    (step (run exState [.loadFiltered (some exFilter), .loadIncrement none]) .save).2 = none := by decide

example : (loadFilteredGen true exState (some exFilter)).2 = none ∧
    (loadFilteredGen true exState (some exFilter)).1.links = [(['g'], ["alice".toList, "admin".toList])] := by
  decide

example : isProper (some exFilter) = true ∧ isProper none = false ∧
    isProper (some { P := [[], [' ']], G := [] }) = false := by decide

/-! ## failed full loads and a policy file that goes missing -/

/-- **F26b (open finding), witness**: when the adapter has read the file but the enforcer then rejects it (a grouping
    rule shorter than its role definition) the enforcer rolls memory back to the filtered subset, yet the adapter has
    already ended the filtered state - the following `save_policy` is allowed and writes the partial view -/
def f26bState : EState :=
  { mem := [{ key := ['p'], arity := 3, rules := [["a".toList, "b".toList, "c".toList]] }, { key := ['g'], arity := 2, rules := [] }],
    filtered := true, file := "p, a, b, c\np, x, y, z\ng, a".toList }

theorem enforcer_rollback_ends_filtered_state_witness :
    f26bState.filtered = true ∧ (loadPolicy f26bState).2 = some .roleDefinition ∧
    (loadPolicy f26bState).1.mem = f26bState.mem ∧ (loadPolicy f26bState).1.filtered = false ∧
    (step (loadPolicy f26bState).1 .save).2 = none ∧
    (step (loadPolicy f26bState).1 .save).1.file = "p, a, b, c".toList := by decide

/-- with the policy file missing no load changes `is_filtered()` -/
theorem missing_file_keeps_flag (s : FState) (o : Op) (h : s.present = false) :
    (stepF s (.op o)).1.e.filtered = s.e.filtered := by
  cases o <;> simp only [stepF, h, Bool.false_eq_true, ↓reduceIte, savePolicy]
  all_goals split <;> rfl

/-- … a full load fails and leaves everything as it was … -/
theorem missing_file_load_noop (s : FState) (h : s.present = false) :
    stepF s (.op .load) = (s, some .invalidPath) := by
  simp [stepF, h]

/-- … so a partial view is still not written over the store once the file is back -/
theorem save_refused_after_missing_file (s : FState) (hf : s.e.filtered = true) (op : Op)
    (hop : op = .save ∨ op = .adapterSave) :
    stepF (stepF (stepF (stepF s .unlink).1 (.op .load)).1 .restore).1 (.op op) =
      ({ s with present := true }, some .cannotSaveFiltered) := by
  have h1 : stepF (stepF s .unlink).1 (.op .load) = ({ s with present := false }, some .invalidPath) := by
    simp [stepF]
  rw [h1]
  rcases hop with rfl | rfl <;> simp [stepF, step, savePolicy, hf]

example : (stepF (runF { e := exState } [.op (.loadFiltered (some exFilter)), .unlink, .op .load, .restore]) (.op .save)).2
    = some .cannotSaveFiltered := by decide

end Casbin.C12
