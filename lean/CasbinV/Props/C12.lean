import CasbinV.Props.C10
/-!
# C12 — filtered loading loads exactly the filtered subset, never overwrites the store
-/
namespace Casbin.C12
open Casbin.Py Casbin.Persist Casbin.Persist.Spec Casbin.C10

/-! ## the line filter -/

theorem blank_eq (v : Str) : blank v = (strip v).isEmpty := by
  cases v with
  | nil => rfl
  | cons c v => simp [blank]

/-- all-blank filters keep every rule, however short -/
theorem matchesFilter_all_blank (flt : List Str) (r : Rule) (h : flt.all (fun x => (strip x).isEmpty) = true) :
    matchesFilter flt r = true := by
  induction flt generalizing r with
  | nil => simp [matchesFilter]
  | cons v vs ih =>
    simp only [List.all_cons, Bool.and_eq_true] at h
    cases r with
    | nil => simp [matchesFilter, blank_eq, h.1, ih [] h.2]
    | cons w ws => simp [matchesFilter, blank_eq, h.1, ih ws h.2]

/-- `filter_words` on a line at least as long as the filter: skip ⇔ some non-blank filter value differs from its field -/
theorem filterWords_eq (p0 : Str) (ps : List Str) (flt : List Str) (hlen : flt.length ≤ ps.length) :
    filterWords (p0 :: ps) flt = !matchesFilter flt (ps.map strip) := by
  unfold filterWords
  have : ¬ ((p0 :: ps).length < flt.length + 1) := by simp; omega
  simp only [this, ↓reduceIte, List.drop_succ_cons, List.drop_zero]
  induction flt generalizing ps with
  | nil => simp [matchesFilter]
  | cons v vs ih =>
    cases ps with
    | nil => simp at hlen
    | cons w ws =>
      simp only [List.length_cons, Nat.add_le_add_iff_right] at hlen
      simp only [List.zip_cons_cons, List.any_cons, List.map_cons, matchesFilter]
      rw [ih ws hlen (by simp; omega)]
      cases blank v <;> cases h : (strip v == strip w) <;> simp [h, bne]

/-- **the filter predicate of the code = the filter predicate of the property**, on a line whose naive comma split
    is what the loader stores and whose rule is not shorter than the filter -/
theorem filterLine_eq (l : Str) (f : Filter) (k : Str) (r : Rule)
    (hsplit : (splitOn ',' l).map strip = k :: r)
    (hlen : if k == ['p'] then f.P.length ≤ r.length else if k == ['g'] then f.G.length ≤ r.length else True) :
    filterLine l f = !keeps f k r := by
  unfold filterLine
  cases hs : splitOn ',' l with
  | nil => rw [hs] at hsplit; simp at hsplit
  | cons p0 ps =>
    rw [hs] at hsplit
    simp only [List.map_cons, List.cons.injEq] at hsplit
    obtain ⟨hk, hr⟩ := hsplit
    simp only [hk]
    unfold keeps
    by_cases hg : (k == ['g']) = true
    · have hp : (k == ['p']) = false := by
        simp only [beq_iff_eq] at hg; subst hg; decide
      simp only [hg, hp, Bool.false_eq_true, ↓reduceIte] at hlen ⊢
      by_cases he : (f.G.isEmpty || f.G.all fun x => (strip x).isEmpty) = true
      · simp only [he, ↓reduceIte]
        have : f.G.all (fun x => (strip x).isEmpty) = true := by
          rcases Bool.or_eq_true _ _ |>.mp he with h | h
          · have : f.G = [] := by simpa using h
            simp [this]
          · exact h
        simp [matchesFilter_all_blank _ _ this]
      · simp only [he, Bool.false_eq_true, ↓reduceIte]
        rw [filterWords_eq p0 ps f.G (by rw [← hr] at hlen; simpa using hlen), hr]
    · simp only [hg, Bool.false_eq_true, ↓reduceIte] at hlen ⊢
      by_cases hp : (k == ['p']) = true
      · simp only [hp, ↓reduceIte] at hlen ⊢
        rw [filterWords_eq p0 ps f.P (by rw [← hr] at hlen; simpa using hlen), hr]
      · simp only [hp, Bool.false_eq_true, ↓reduceIte]
        simp [filterWords]

/-- F20 (open): a bracketed comma before a filtered position — the rule's second field is `c`, the filter asks for
    `c`, the code skips the line -/
theorem filterLine_naive_split_witness :
    parsesTo "p, f(a, b), c".toList (['p'], ["f(a, b)".toList, ['c']]) = true ∧
    keeps { P := [[], ['c']], G := [] } ['p'] ["f(a, b)".toList, ['c']] = true ∧
    filterLine "p, f(a, b), c".toList { P := [[], ['c']], G := [] } = true := by
  decide

/-- F20 (open): a filter longer than the rule whose extra position is blank — every non-blank value matches, the
    code skips the line -/
theorem filterLine_long_filter_witness :
    parsesTo "p, a, b".toList (['p'], [['a'], ['b']]) = true ∧
    keeps { P := [['a'], [], []], G := [['x']] } ['p'] [['a'], ['b']] = true ∧
    filterLine "p, a, b".toList { P := [['a'], [], []], G := [['x']] } = true := by
  decide

/-! ## filtered loading of a whole file -/

theorem parsedPairs_eq (ls : List Str) : parsedPairs ls = ls.filterMap parsed := rfl

/-- one step of `load_filtered_policy_file` on a line inside the domain -/
theorem filtered_step (f : Filter) (l : Str) (hdom : naiveOK f l = true) (m : Store) :
    (if l.isEmpty then Except.ok m else if filterLine l f then .ok m else loadPolicyLine l m) =
      .ok (applyOpt m ((parsed l).filter fun p => keeps f p.1 p.2)) := by
  unfold naiveOK at hdom
  unfold parsed
  cases hp : parseLine l with
  | error e => simp [hp] at hdom
  | ok o =>
    cases o with
    | none =>
      simp only [Option.filter_none, applyOpt]
      rw [loadPolicyLine_none l m hp]
      split <;> try rfl
      split <;> rfl
    | some kr =>
      obtain ⟨k, r⟩ := kr
      simp only [hp, Bool.and_eq_true, beq_iff_eq] at hdom
      obtain ⟨hsplit, hlen⟩ := hdom
      have hlen' : if k == ['p'] then f.P.length ≤ r.length else if k == ['g'] then f.G.length ≤ r.length else True := by
        by_cases h1 : k = ['p']
        · subst h1; simpa using hlen
        · by_cases h2 : k = ['g']
          · subst h2; simpa using hlen
          · simp [h1, h2]
      have hfl := filterLine_eq l f k r hsplit hlen'
      have hne : l.isEmpty = false := by
        cases l with
        | nil => simp [parseLine] at hp
        | cons c l => rfl
      simp only [hne, Bool.false_eq_true, ↓reduceIte, hfl]
      rw [loadPolicyLine_some l m k r hp]
      cases hk : keeps f k r <;> simp [Option.filter, hk, applyOpt]

theorem rulesOf_filter (f : Filter) (kr : List (Str × Rule)) (key : Str) :
    rulesOf (kr.filter fun p => keeps f p.1 p.2) key = (rulesOf kr key).filter (keeps f key) := by
  induction kr with
  | nil => rfl
  | cons p kr ih =>
    obtain ⟨k, r⟩ := p
    by_cases hk : (k == key) = true
    · have hkk : k = key := by simpa using hk
      subst hkk
      by_cases hkeep : keeps f k r = true
      · simp only [List.filter_cons, hkeep, ↓reduceIte, rulesOf_cons, hk, ih]
      · simp only [List.filter_cons, hkeep, Bool.false_eq_true, ↓reduceIte, rulesOf_cons, hk, ih]
    · by_cases hkeep : keeps f k r = true
      · simp only [List.filter_cons, hkeep, ↓reduceIte, rulesOf_cons, hk, Bool.false_eq_true, ih]
      · simp only [List.filter_cons, hkeep, Bool.false_eq_true, ↓reduceIte, rulesOf_cons, hk, ih]

/-- **`filtered_exact`** (partial: on the domain `naiveOK`, see F20).  `load_filtered_policy_file` appends to every
    policy type exactly those rules of the file, in file order, that the filter keeps: `p` rules whose leading fields
    equal every non-blank value of `P`, `g` rules likewise with `G`, all rules of other types. -/
theorem filtered_exact_partial (text : Str) (f : Filter) (m : Store)
    (hdom : ∀ l ∈ textLines true text, naiveOK f l = true) :
    loadFilteredFile text f m =
      (extend m ((parsedPairs (textLines true text)).filter fun p => keeps f p.1 p.2), none) := by
  unfold loadFilteredFile
  rw [loadLines_described _ (fun l => (parsed (strip l)).filter fun p => keeps f p.1 p.2) _ ?_ m,
    appendAll_eq_extend]
  · congr 2
    rw [parsedPairs_eq, List.filter_filterMap]
    simp [textLines, List.filterMap_map, Function.comp_def]
  · intro l hl m
    exact filtered_step f (strip l) (hdom _ (by simp only [textLines, ↓reduceIte]; exact List.mem_map_of_mem hl)) m

/-- **full load** (`_load_policy_file`): when no line raises, every policy type is extended by the rules the file
    holds for it, in file order -/
theorem load_full (text : Str) (m : Store)
    (hok : ∀ l ∈ textLines true text, ∀ e, parseLine l ≠ .error e) :
    loadFile text m = (extend m (parsedPairs (textLines true text)), none) := by
  unfold loadFile
  rw [loadLines_described _ (fun l => parsed (strip l)) _ ?_ m, appendAll_eq_extend]
  · congr 2
    simp [parsedPairs_eq, textLines, List.filterMap_map, Function.comp_def]
  · intro l hl m
    have hne := hok (strip l) (by simp only [textLines, ↓reduceIte]; exact List.mem_map_of_mem hl)
    unfold parsed
    cases hp : parseLine (strip l) with
    | error e => exact absurd hp (hne e)
    | ok o =>
      cases o with
      | none => simp [applyOpt, loadPolicyLine_none _ m hp]
      | some kr => obtain ⟨k, r⟩ := kr; simp [applyOpt, loadPolicyLine_some _ m k r hp]

theorem naiveOK_no_error (f : Filter) (l : Str) (h : naiveOK f l = true) : ∀ e, parseLine l ≠ .error e := by
  intro e he; simp [naiveOK, he] at h

/-- the statement in "subset of the full load" form: loading filtered into an empty policy gives the full load with
    every policy type filtered by `keeps` -/
theorem filtered_eq_filter_of_full (text : Str) (f : Filter) (m : Store)
    (hempty : ∀ e ∈ m, e.rules = [])
    (hdom : ∀ l ∈ textLines true text, naiveOK f l = true) :
    loadFilteredFile text f m = (filterStore f (loadFile text m).1, none) := by
  rw [filtered_exact_partial text f m hdom, load_full text m (fun l hl => naiveOK_no_error f l (hdom l hl))]
  congr 1
  unfold filterStore extend
  rw [List.map_map]
  apply List.map_congr_left
  intro e he
  simp [hempty e he, rulesOf_filter]

/-! ## the enforcer: flag machine, save guard, incremental loading, links -/

/-- a filter that actually filters (`None` and the empty / all-blank filter do not) -/
def isProper : Option Filter → Bool
  | none => false
  | some f => !isEmptyFilter f

/-- `is_empty_filter` is "every value of P and G is blank" -/
theorem isEmptyFilter_iff (f : Filter) : isEmptyFilter f = (f.P ++ f.G).all blank := by
  have hb : blank = fun x => (strip x).isEmpty := funext blank_eq
  unfold isEmptyFilter
  rw [hb]
  simp only [List.all_append]
  cases hP : f.P <;> cases hG : f.G <;> simp

/-- what the flag must be after an operation that did not fail in a load -/
def flagAfter (b : Bool) : Op → Bool
  | .load => false
  | .loadFiltered f => isProper f
  | .loadIncrement f => isProper f
  | .save => b
  | .adapterSave => b

/-- the repaired adapter resets the flag exactly when it has read the whole file -/
theorem adapterLoad_flag (s : EState) (m : Store) :
    (adapterLoad s m).1.filtered = if (adapterLoad s m).2.2.isNone then false else s.filtered := by
  unfold adapterLoad; rfl

theorem adapterLoad_flag_ok (s : EState) (m : Store) (h : (adapterLoad s m).2.2 = none) :
    (adapterLoad s m).1.filtered = false := by
  rw [adapterLoad_flag, h]; rfl

/-- **F26a repaired**: a full load that fails while the adapter reads the file changes nothing in the adapter -/
theorem adapterLoad_failed_noop (s : EState) (m : Store) (e : Err) (h : (adapterLoad s m).2.2 = some e) :
    (adapterLoad s m).1 = s := by
  unfold adapterLoad at h ⊢
  simp only at h ⊢
  rw [h]; rfl

theorem adapterLoadFiltered_flag (s : EState) (m : Store) (f : Option Filter)
    (h : (adapterLoadFiltered s m f).2.2 = none) : (adapterLoadFiltered s m f).1.filtered = isProper f := by
  cases f with
  | none =>
    simp only [adapterLoadFiltered] at h ⊢
    rw [adapterLoad_flag_ok s m h]; rfl
  | some f =>
    unfold adapterLoadFiltered at h ⊢
    by_cases he : isEmptyFilter f = true
    · simp only [he, ↓reduceIte] at h ⊢
      have h' : (adapterLoad s m).2.2 = none := by
        cases hx : (adapterLoad s m).2.2 with
        | none => rfl
        | some e => rw [hx] at h; simp at h
      rw [adapterLoad_flag_ok s m h']; simp [isProper, he]
    · simp only [he, Bool.false_eq_true, ↓reduceIte] at h ⊢
      have he' : isEmptyFilter f = false := by simpa using he
      split at h
      · simp at h
      · simp [isProper, he']

/-- a successful full load ends the filtered state -/
theorem loadPolicy_flag (s : EState) (hok : (loadPolicy s).2 = none) : (loadPolicy s).1.filtered = false := by
  unfold loadPolicy at hok ⊢
  have hf := adapterLoad_flag s (clearPG s.mem)
  cases hA : adapterLoad s (clearPG s.mem) with
  | mk s1 rest =>
    cases rest with
    | mk m' e =>
      rw [hA] at hok hf
      cases e with
      | some e => simp at hok
      | none =>
        simp only at hok hf ⊢
        cases hB : buildLinks m' with
        | mk ls e2 =>
          rw [hB] at hok
          cases e2 with
          | some e2 => simp at hok
          | none => simpa using hf

/-- a failed full load never changes what memory holds (the enforcer loads into a copy) -/
theorem loadPolicy_failed_keeps_memory (s : EState) (h : (loadPolicy s).2 ≠ none) : (loadPolicy s).1.mem = s.mem := by
  unfold loadPolicy at h ⊢
  cases hA : adapterLoad s (clearPG s.mem) with
  | mk s1 rest =>
    cases rest with
    | mk m' e =>
      have hmem : s1.mem = s.mem := by
        have : (adapterLoad s (clearPG s.mem)).1.mem = s.mem := by unfold adapterLoad; rfl
        rw [hA] at this; exact this
      rw [hA] at h
      cases e with
      | some e => exact hmem
      | none =>
        simp only at h ⊢
        cases hB : buildLinks m' with
        | mk ls e2 =>
          rw [hB] at h
          cases e2 with
          | some e2 => exact hmem
          | none => simp at h

/-- **F26a repaired, enforcer level**: when the adapter fails to read the file, `load_policy` changes nothing at all -
    in particular `is_filtered()` stays set and a following `save_policy` is still refused -/
theorem loadPolicy_adapter_failure_noop (s : EState) (e : Err)
    (h : (adapterLoad s (clearPG s.mem)).2.2 = some e) : loadPolicy s = (s, some e) := by
  have hs := adapterLoad_failed_noop s (clearPG s.mem) e h
  unfold loadPolicy
  cases hA : adapterLoad s (clearPG s.mem) with
  | mk s1 rest =>
    cases rest with
    | mk m' e' =>
      rw [hA] at h hs
      simp only at h hs
      subst h; subst hs
      rfl

theorem save_still_refused_after_failed_read (s : EState) (e : Err) (hf : s.filtered = true)
    (h : (adapterLoad s (clearPG s.mem)).2.2 = some e) (op : Op) (hop : op = .save ∨ op = .adapterSave) :
    (step (step s .load).1 op).2 = some .cannotSaveFiltered := by
  have : (step s .load).1 = s := by simp [step, loadPolicy_adapter_failure_noop s e h]
  rw [this]
  rcases hop with rfl | rfl <;> simp [step, savePolicy, hf]

theorem loadFilteredGen_flag (clear : Bool) (s : EState) (f : Option Filter)
    (h : (loadFilteredGen clear s f).2 = none) : (loadFilteredGen clear s f).1.filtered = isProper f := by
  unfold loadFilteredGen at h ⊢
  simp only at h ⊢
  have hflag := adapterLoadFiltered_flag s (if clear then clearPG s.mem else s.mem) f
  cases hA : adapterLoadFiltered s (if clear then clearPG s.mem else s.mem) f with
  | mk s1 rest =>
    cases rest with
    | mk m1 e =>
      rw [hA] at h hflag
      cases e with
      | some e => simp at h
      | none => simpa using hflag rfl

/-- **`flag_machine`, one step**: after a successful operation `is_filtered()` is true exactly if the operation was
    a filtered (or incremental filtered) load with a proper filter, false after a full load or a load with `None` /
    an empty filter; saving (allowed or refused) does not change it -/
theorem flag_machine_step (s : EState) (op : Op) (hok : (step s op).2 = none ∨ op = .save ∨ op = .adapterSave) :
    (step s op).1.filtered = flagAfter s.filtered op := by
  cases op with
  | load =>
    have hok : (step s .load).2 = none := by simpa using hok
    exact loadPolicy_flag s hok
  | loadFiltered f =>
    have hok : (step s (.loadFiltered f)).2 = none := by simpa using hok
    exact loadFilteredGen_flag true s f hok
  | loadIncrement f =>
    have hok : (step s (.loadIncrement f)).2 = none := by simpa using hok
    exact loadFilteredGen_flag false s f hok
  | save => simp only [step, savePolicy, flagAfter]; split <;> simp_all
  | adapterSave => simp only [step, savePolicy, flagAfter]; split <;> simp_all

/-- every load of the history succeeds (saves may be refused) -/
def LoadsOk : EState → List Op → Prop
  | _, [] => True
  | s, op :: ops => ((step s op).2 = none ∨ op = .save ∨ op = .adapterSave) ∧ LoadsOk (step s op).1 ops

/-- **`flag_machine`**: over any history whose loads succeed the flag is the fold of `flagAfter` — i.e. it is
    determined by the last load (and is `true` on a fresh enforcer, which holds the empty subset) -/
theorem flag_machine (s : EState) (ops : List Op) (h : LoadsOk s ops) :
    (run s ops).filtered = ops.foldl flagAfter s.filtered := by
  induction ops generalizing s with
  | nil => rfl
  | cons op ops ih =>
    obtain ⟨h1, h2⟩ := h
    rw [run, ih _ h2, flag_machine_step s op h1, List.foldl_cons]

/-- the flag after a history in "last load" form -/
def lastLoadFlag : List Op → Option Bool
  | [] => none
  | op :: ops =>
    match lastLoadFlag ops with
    | some b => some b
    | none => match op with
      | .load => some false
      | .loadFiltered f => some (isProper f)
      | .loadIncrement f => some (isProper f)
      | .save => none
      | .adapterSave => none

theorem foldl_flagAfter (b : Bool) (ops : List Op) :
    ops.foldl flagAfter b = (lastLoadFlag ops).getD b := by
  induction ops generalizing b with
  | nil => rfl
  | cons op ops ih =>
    rw [List.foldl_cons, ih]
    conv => rhs; unfold lastLoadFlag
    cases lastLoadFlag ops with
    | some x => rfl
    | none => cases op <;> rfl

/-- **`save_refused_when_filtered`**: while the flag is set, `save_policy` (enforcer) and `adapter.save_policy`
    raise and nothing changes — in particular not the policy file -/
theorem save_refused_when_filtered (s : EState) (op : Op) (hop : op = .save ∨ op = .adapterSave)
    (h : s.filtered = true) : step s op = (s, some .cannotSaveFiltered) := by
  rcases hop with rfl | rfl <;> simp [step, savePolicy, h]

/-- when the flag is clear the file becomes the rendering of memory, nothing else changes -/
theorem save_writes_memory (s : EState) (op : Op) (hop : op = .save ∨ op = .adapterSave)
    (h : s.filtered = false) : step s op = ({ s with file := saveFile s.mem }, none) := by
  rcases hop with rfl | rfl <;> simp [step, savePolicy, h]

/-- **a filtered subset is never written**: over any history whose loads succeed, a save that is allowed happens
    only when the last load was a full one (or had an empty filter) -/
theorem save_only_after_full_load (s : EState) (ops : List Op) (h : LoadsOk s ops) (op : Op)
    (hop : op = .save ∨ op = .adapterSave) (hsaved : (step (run s ops) op).2 = none) :
    (lastLoadFlag ops).getD s.filtered = false := by
  rw [← foldl_flagAfter, ← flag_machine s ops h]
  cases hf : (run s ops).filtered with
  | false => rfl
  | true => rw [save_refused_when_filtered _ op hop hf] at hsaved; simp at hsaved

/-- what the adapter loads for a filter: everything for `None` / an empty filter, else what the filter keeps -/
def selected (f : Option Filter) (kr : List (Str × Rule)) : List (Str × Rule) :=
  match f with
  | none => kr
  | some f => if isEmptyFilter f then kr else kr.filter fun p => keeps f p.1 p.2

def inDomain (text : Str) : Option Filter → Prop
  | none => ∀ l ∈ textLines true text, ∀ e, parseLine l ≠ .error e
  | some f => if isEmptyFilter f then ∀ l ∈ textLines true text, ∀ e, parseLine l ≠ .error e
              else ∀ l ∈ textLines true text, naiveOK f l = true

theorem adapterLoadFiltered_exact (s : EState) (m : Store) (f : Option Filter) (hdom : inDomain s.file f) :
    (adapterLoadFiltered s m f).2 = (extend m (selected f (parsedPairs (textLines true s.file))), none) := by
  cases f with
  | none =>
    simp only [inDomain] at hdom
    simp [adapterLoadFiltered, adapterLoad, load_full s.file m hdom, selected]
  | some f =>
    unfold adapterLoadFiltered
    by_cases he : isEmptyFilter f = true
    · simp only [inDomain, he, ↓reduceIte] at hdom
      simp [he, adapterLoad, load_full s.file m hdom, selected]
    · simp only [inDomain, he, Bool.false_eq_true, ↓reduceIte] at hdom
      simp only [he, Bool.false_eq_true, ↓reduceIte, filtered_exact_partial s.file f m hdom, selected]

/-- **`incremental_appends`** (and `filtered_exact` at enforcer level): `load_increment_filtered_policy` leaves every
    policy type with what it held plus the selected rules of the file, in file order (nothing is dropped, nothing is
    deduplicated); `load_filtered_policy` does the same starting from the cleared policy -/
theorem incremental_appends (clear : Bool) (s : EState) (f : Option Filter) (hdom : inDomain s.file f) :
    (loadFilteredGen clear s f).1.mem =
      extend (if clear then clearPG s.mem else s.mem) (selected f (parsedPairs (textLines true s.file))) := by
  unfold loadFilteredGen
  have := adapterLoadFiltered_exact s (if clear then clearPG s.mem else s.mem) f hdom
  simp only
  split
  · rename_i heq; rw [heq] at this; simp at this
  · rename_i heq; rw [heq] at this; simp only [Prod.mk.injEq, and_true] at this; simp [this]

/-- the links a policy defines: for every `g` type, every rule cut to the role definition's arity -/
def edges (m : Store) : List Link :=
  m.flatMap fun e => if e.sec == some 'g' then e.rules.map fun r => (e.key, r.take e.arity) else []

theorem linkArgs_ok (key : Str) (n : Nat) (rs : List Rule) (h : (linkArgs key n rs).2 = none) :
    (linkArgs key n rs).1 = rs.map fun r => (key, r.take n) := by
  induction rs with
  | nil => rfl
  | cons r rs ih =>
    unfold linkArgs at h ⊢
    split
    · rename_i hlt; simp [hlt] at h
    · rename_i hlt; simp only [hlt, ↓reduceIte] at h; simp [ih h]

theorem buildLinks_ok (m : Store) (h : (buildLinks m).2 = none) : (buildLinks m).1 = edges m := by
  induction m with
  | nil => rfl
  | cons e es ih =>
    unfold buildLinks at h ⊢
    unfold edges
    rw [List.flatMap_cons]
    by_cases hg : (e.sec == some 'g') = true
    · simp only [hg, ↓reduceIte] at h ⊢
      cases hl : linkArgs e.key e.arity e.rules with
      | mk ls err =>
        cases err with
        | some x => simp [hl] at h
        | none =>
          simp only [hl] at h ⊢
          have h1 := linkArgs_ok e.key e.arity e.rules (by rw [hl])
          rw [hl] at h1
          simp only at h1
          rw [h1, ih h]; rfl
    · simp only [hg, Bool.false_eq_true, ↓reduceIte] at h ⊢
      rw [ih h]; rfl

/-- **`links_from_subset`**: after a successful filtered / incremental load the role managers hold exactly the links
    of the policy now in memory (every `g` rule of the loaded subset, cut to the definition's arity, in order) -/
theorem links_from_subset (clear : Bool) (s : EState) (f : Option Filter)
    (hok : (loadFilteredGen clear s f).2 = none) :
    (loadFilteredGen clear s f).1.links = edges (loadFilteredGen clear s f).1.mem := by
  unfold loadFilteredGen at hok ⊢
  simp only at hok ⊢
  split at hok
  · simp at hok
  · rename_i s1 m1 heq
    exact buildLinks_ok m1 hok

/-! ## the domain of `filtered_exact_partial` contains every bracket-free file -/

theorem splitTop_bracket_free (l : Str) (hb : ∀ c ∈ l, isOpen c = false ∧ isClose c = false) :
    splitTop (annotate 0 l) = splitOn ',' l := by
  induction l with
  | nil => rfl
  | cons c s ih =>
    have hc := hb c (by simp)
    have ih' := ih (fun x hx => hb x (by simp [hx]))
    unfold annotate splitTop splitOn
    simp only [hc.1, hc.2, Bool.false_eq_true, ↓reduceIte, beq_self_eq_true, Bool.and_true]
    rw [ih']
    by_cases hk : c = ','
    · simp [hk]
    · have : (c == ',') = false := by simpa using hk
      simp only [this, Bool.false_eq_true, ↓reduceIte, hk]
      cases splitOn ',' s <;> rfl

/-- on a line without brackets that is inside the line grammar, the adapter's naive split sees exactly the loader's
    fields; so with a filter no longer than the rule the line is inside the domain of `filtered_exact_partial`.  Every
    policy file without brackets (all example files of the repository except the two ABAC ones) is covered. -/
theorem naiveOK_of_bracket_free (f : Filter) (l : Str)
    (hb : ∀ c ∈ l, isOpen c = false ∧ isClose c = false) (hwf : lineWF l = true)
    (hlen : ∀ k r, specLine l = some (k, r) →
      (k = ['p'] → f.P.length ≤ r.length) ∧ (k = ['g'] → f.G.length ≤ r.length)) :
    naiveOK f l = true := by
  unfold naiveOK
  rw [parseLine_eq_spec l hwf]
  cases hs : specLine l with
  | none => rfl
  | some kr =>
    obtain ⟨k, r⟩ := kr
    have hl := hlen k r hs
    have hfields : specFields l = k :: r := by
      unfold specLine at hs
      split at hs
      · simp at hs
      · split at hs
        · simp at hs
        · rename_i k' r' heq; simp only [Option.some.injEq, Prod.mk.injEq] at hs; rw [heq, hs.1, hs.2]
    unfold specFields at hfields
    rw [splitTop_bracket_free l hb] at hfields
    simp only [hfields, beq_self_eq_true, Bool.true_and]
    by_cases hp : k = ['p']
    · subst hp; simpa using hl.1 rfl
    · by_cases hg : k = ['g']
      · subst hg; simpa using hl.2 rfl
      · simp [hp, hg]

/-! ## loading never drops anything — for every file, every filter, failing loads included -/

/-- `b` holds, type by type, everything `a` holds, in the same order, possibly followed by more -/
def Ext : Store → Store → Prop
  | [], [] => True
  | x :: xs, y :: ys => (x.key = y.key ∧ x.arity = y.arity ∧ x.rules <+: y.rules) ∧ Ext xs ys
  | _, _ => False

theorem Ext.refl (a : Store) : Ext a a := by
  induction a with
  | nil => trivial
  | cons e es ih => exact ⟨⟨rfl, rfl, List.prefix_refl _⟩, ih⟩

theorem Ext.trans {a b c : Store} (h1 : Ext a b) (h2 : Ext b c) : Ext a c := by
  induction a generalizing b c with
  | nil =>
    cases b with
    | nil => cases c with
      | nil => trivial
      | cons z zs => exact h2.elim
    | cons y ys => exact h1.elim
  | cons x xs ih =>
    cases b with
    | nil => exact h1.elim
    | cons y ys =>
      cases c with
      | nil => exact h2.elim
      | cons z zs =>
        obtain ⟨hxy, h1'⟩ := h1
        obtain ⟨hyz, h2'⟩ := h2
        exact ⟨⟨hxy.1.trans hyz.1, hxy.2.1.trans hyz.2.1, hxy.2.2.trans hyz.2.2⟩, ih h1' h2'⟩

theorem Ext.append (m : Store) (k : Str) (r : Rule) : Ext m (m.append k r) := by
  induction m with
  | nil => trivial
  | cons e es ih =>
    unfold Store.append at ih ⊢
    rw [List.map_cons]
    refine ⟨?_, ih⟩
    by_cases h : (e.key == k) = true
    · simp [h]
    · simp [h]

theorem loadPolicyLine_ext (l : Str) (m m' : Store) (h : loadPolicyLine l m = .ok m') : Ext m m' := by
  cases hp : parseLine l with
  | error e => rw [loadPolicyLine_error l m e hp] at h; simp at h
  | ok o =>
    cases o with
    | none =>
      rw [loadPolicyLine_none l m hp] at h
      simp only [Except.ok.injEq] at h; subst h; exact Ext.refl m
    | some kr =>
      obtain ⟨k, r⟩ := kr
      rw [loadPolicyLine_some l m k r hp] at h
      simp only [Except.ok.injEq] at h; subst h; exact Ext.append m k r

theorem loadLines_ext (h : Str → Store → Except Err Store) (hstep : ∀ l m m', h l m = .ok m' → Ext m m')
    (ls : List Str) (m : Store) : Ext m (loadLines h ls m).1 := by
  induction ls generalizing m with
  | nil => exact Ext.refl m
  | cons l ls ih =>
    unfold loadLines
    cases hl : h l m with
    | error e => exact Ext.refl m
    | ok m' => exact (hstep l m m' hl).trans (ih m')

theorem loadFile_ext (text : Str) (m : Store) : Ext m (loadFile text m).1 :=
  loadLines_ext _ (fun l m m' h => loadPolicyLine_ext (strip l) m m' h) _ m

theorem loadFilteredFile_ext (text : Str) (f : Filter) (m : Store) : Ext m (loadFilteredFile text f m).1 := by
  refine loadLines_ext _ (fun l m m' h => ?_) _ m
  simp only at h
  split at h
  · simp only [Except.ok.injEq] at h; subst h; exact Ext.refl m
  · split at h
    · simp only [Except.ok.injEq] at h; subst h; exact Ext.refl m
    · exact loadPolicyLine_ext _ m m' h

theorem adapterLoadFiltered_ext (s : EState) (m : Store) (f : Option Filter) :
    Ext m (adapterLoadFiltered s m f).2.1 := by
  cases f with
  | none => exact loadFile_ext s.file m
  | some f =>
    unfold adapterLoadFiltered
    by_cases he : isEmptyFilter f = true
    · simp only [he, ↓reduceIte, adapterLoad]; exact loadFile_ext s.file m
    · simp only [he, Bool.false_eq_true, ↓reduceIte]
      have := loadFilteredFile_ext s.file f m
      cases hl : loadFilteredFile s.file f m with
      | mk m' e =>
        rw [hl] at this
        cases e <;> exact this

/-- **`incremental_never_drops`** — unconditional: whatever the file contains, whatever the filter, and even when
    the load raises half-way, after `load_increment_filtered_policy` every policy type still holds everything it held,
    in the same order, followed by what was added -/
theorem incremental_never_drops (s : EState) (f : Option Filter) : Ext s.mem (loadIncrement s f).1.mem := by
  unfold loadIncrement loadFilteredGen
  have := adapterLoadFiltered_ext s s.mem f
  simp only [Bool.false_eq_true, ↓reduceIte]
  cases hA : adapterLoadFiltered s s.mem f with
  | mk s1 rest =>
    cases rest with
    | mk m1 e =>
      rw [hA] at this
      cases e with
      | some e => exact this
      | none => exact this

/-! ## non-vacuity: concrete instances meeting the hypotheses -/

def exFile : Str := "p, alice, d1, read\np, bob, d2, write\n# note\n\ng, alice, admin\np2, x, y".toList
def exFilter : Filter := { P := ["alice".toList, []], G := [[], "admin".toList] }
def exStore : Store :=
  [{ key := ['p'], arity := 3, rules := [] }, { key := "p2".toList, arity := 2, rules := [] },
   { key := ['g'], arity := 2, rules := [] }]
def exState : EState := { mem := exStore, file := exFile }

/-- the example file is inside the domain of `filtered_exact_partial` for the example filter -/
example : (textLines true exFile).all (naiveOK exFilter) = true := by decide

/-- … and the filter really selects: alice's `p` rule, the `g` rule and the unfiltered `p2` rule are loaded, bob's is not -/
example : (loadFilteredFile exFile exFilter exStore).1.map (·.rules.length) = [1, 1, 1] ∧
    (loadFile exFile exStore).1.map (·.rules.length) = [2, 1, 1] := by decide

example : filterLine "p, bob, d2, write".toList exFilter = true ∧ keeps exFilter ['p'] ["bob".toList] = false := by
  decide

/-- a history whose loads succeed, with a refused and an allowed save -/
def exOps : List Op := [.loadFiltered (some exFilter), .save, .loadIncrement none, .adapterSave]

example : LoadsOk exState exOps := by
  simp only [exOps, LoadsOk]
  decide

example : (step (run exState [.loadFiltered (some exFilter)]) .save).2 = some .cannotSaveFiltered ∧
    (step (run exState [.loadFiltered (some exFilter), .loadIncrement none]) .save).2 = none := by decide

example : (loadFilteredGen true exState (some exFilter)).2 = none ∧
    (loadFilteredGen true exState (some exFilter)).1.links = [(['g'], ["alice".toList, "admin".toList])] := by
  decide

example : isProper (some exFilter) = true ∧ isProper none = false ∧
    isProper (some { P := [[], [' ']], G := [] }) = false := by decide

/-! ## failed full loads and a policy file that goes missing -/

/-- **F26b (open finding), witness**: when the adapter has read the file but the enforcer then rejects it (a grouping
    rule shorter than its role definition) the enforcer rolls memory back to the filtered subset, yet the adapter has
    already ended the filtered state - the following `save_policy` is allowed and writes the partial view -/
def f26bState : EState :=
  { mem := [{ key := ['p'], arity := 3, rules := [["a".toList, "b".toList, "c".toList]] }, { key := ['g'], arity := 2, rules := [] }],
    filtered := true, file := "p, a, b, c\np, x, y, z\ng, a".toList }

theorem enforcer_rollback_ends_filtered_state_witness :
    f26bState.filtered = true ∧ (loadPolicy f26bState).2 = some .roleDefinition ∧
    (loadPolicy f26bState).1.mem = f26bState.mem ∧ (loadPolicy f26bState).1.filtered = false ∧
    (step (loadPolicy f26bState).1 .save).2 = none ∧
    (step (loadPolicy f26bState).1 .save).1.file = "p, a, b, c".toList := by decide

/-- with the policy file missing no load changes `is_filtered()` -/
theorem missing_file_keeps_flag (s : FState) (o : Op) (h : s.present = false) :
    (stepF s (.op o)).1.e.filtered = s.e.filtered := by
  cases o <;> simp only [stepF, h, Bool.false_eq_true, ↓reduceIte, savePolicy]
  all_goals split <;> rfl

/-- … a full load fails and leaves everything as it was … -/
theorem missing_file_load_noop (s : FState) (h : s.present = false) :
    stepF s (.op .load) = (s, some .invalidPath) := by
  simp [stepF, h]

/-- … so a partial view is still not written over the store once the file is back -/
theorem save_refused_after_missing_file (s : FState) (hf : s.e.filtered = true) (op : Op)
    (hop : op = .save ∨ op = .adapterSave) :
    stepF (stepF (stepF (stepF s .unlink).1 (.op .load)).1 .restore).1 (.op op) =
      ({ s with present := true }, some .cannotSaveFiltered) := by
  have h1 : stepF (stepF s .unlink).1 (.op .load) = ({ s with present := false }, some .invalidPath) := by
    simp [stepF]
  rw [h1]
  rcases hop with rfl | rfl <;> simp [stepF, step, savePolicy, hf]

example : (stepF (runF { e := exState } [.op (.loadFiltered (some exFilter)), .unlink, .op .load, .restore]) (.op .save)).2
    = some .cannotSaveFiltered := by decide

end Casbin.C12
