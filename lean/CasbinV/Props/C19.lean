import CasbinV.Model.Fast
import CasbinV.Proofs.FastIndex
import CasbinV.Props.C01
/-!
# C19 — FastEnforcer decides exactly like Enforcer

Subject: `Model/Fast.lean` (tied to casbin/model/policy_fast.py, model_fast.py, fast_enforcer.py and the
generic code of policy.py by the three-way correspondence run of tools/harness/props/c19.py).
Helper lemmas: `Proofs/FastIndex.lean`.
-/
namespace Casbin.C19
open Casbin Casbin.Fast

variable {order : List Nat}

/-! ## 1. The container is a set (all append/remove histories) -/

inductive COp
  | append (r : Rule)
  | remove (r : Rule)
  deriving Repr

/-- the container protocol as the generic policy code drives it: `append` only after `rule in policy`
    was false, `remove` only after it was true; an `append` that raises (the rule is too short for a
    key position) leaves the container as it was -/
def stepC (p : FastPolicy order) : COp → FastPolicy order
  | .append r => if p.contains r then p else match p.append r with | .ok p' => p' | .error _ => p
  | .remove r => if p.contains r then match p.remove r with | .ok p' => p' | .error _ => p else p

def runC (p : FastPolicy order) (ops : List COp) : FastPolicy order := ops.foldl stepC p

/-- the same history on a mathematical set of rules (as a duplicate-free list) -/
def stepS (order : List Nat) (s : List Rule) : COp → List Rule
  | .append r => if s.contains r || order.any (fun i => i ≥ r.length) then s else s ++ [r]
  | .remove r => s.filter (fun x => x != r)

def runS (order : List Nat) (s : List Rule) (ops : List COp) : List Rule := ops.foldl (stepS order) s

theorem stepC_sim (hne : order ≠ []) (p : FastPolicy order) (s : List Rule) (op : COp)
    (hinv : Inv p) (hs : ∀ x, x ∈ p.iter ↔ x ∈ s) :
    Inv (stepC p op) ∧ ∀ x, x ∈ (stepC p op).iter ↔ x ∈ stepS order s op := by
  cases op with
  | append r =>
    simp only [stepC, stepS]
    by_cases hc : p.contains r = true
    · have : r ∈ s := (hs r).mp ((contains_iff p hinv r).mp hc)
      simp [hc, this, hinv, hs]
    · have hrs : r ∉ s := fun h => hc ((contains_iff p hinv r).mpr ((hs r).mpr h))
      simp only [hc, Bool.false_eq_true, ↓reduceIte]
      by_cases hany : order.any (fun i => i ≥ r.length) = true
      · have : ¬ ∃ p', p.append r = .ok p' := by
          rw [append_ok_iff]; simp [hany]
        cases ha : p.append r with
        | ok p' => exact absurd ⟨p', ha⟩ this
        | error e => simp [hany, hinv, hs]
      · have : ∃ p', p.append r = .ok p' := by
          rw [append_ok_iff]; exact ⟨hne, by simpa using hany⟩
        obtain ⟨p', ha⟩ := this
        obtain ⟨hi', hm⟩ := append_spec p p' r hinv ha
        simp only [ha]
        refine ⟨hi', ?_⟩
        intro x
        have hrs' : s.contains r = false := by simpa using hrs
        simp only [hrs', hany, Bool.false_or, Bool.false_eq_true, ↓reduceIte, List.mem_append, List.mem_singleton]
        rw [hm, hs]; exact or_comm
  | remove r =>
    simp only [stepC, stepS]
    by_cases hc : p.contains r = true
    · obtain ⟨p', hr, hi', hm⟩ := remove_spec p r hne hinv ((contains_iff p hinv r).mp hc)
      simp only [hc, ↓reduceIte, hr]
      refine ⟨hi', ?_⟩
      intro x; rw [hm, hs]; simp [and_comm]
    · have hrs : r ∉ s := fun h => hc ((contains_iff p hinv r).mpr ((hs r).mpr h))
      simp only [hc, Bool.false_eq_true, ↓reduceIte]
      refine ⟨hinv, ?_⟩
      intro x; rw [hs]; simp
      intro hx e; subst e; exact hrs hx

theorem runC_sim (hne : order ≠ []) (p : FastPolicy order) (s : List Rule) (ops : List COp)
    (hinv : Inv p) (hs : ∀ x, x ∈ p.iter ↔ x ∈ s) :
    Inv (runC p ops) ∧ ∀ x, x ∈ (runC p ops).iter ↔ x ∈ runS order s ops := by
  induction ops generalizing p s with
  | nil => exact ⟨hinv, hs⟩
  | cons op ops ih =>
    obtain ⟨h1, h2⟩ := stepC_sim hne p s op hinv hs
    exact ih _ _ h1 h2

/-- **container_is_set.** After any history of appends and removes (driven like the generic policy
    code drives them) the indexed container answers `in`, iterates and selects buckets exactly like
    the set on which the same history was performed. -/
theorem container_is_set (hne : order ≠ []) (ops : List COp) :
    let p := runC (FastPolicy.new order) ops
    Inv p ∧ (∀ x, p.contains x = true ↔ x ∈ runS order [] ops) ∧ (∀ x, x ∈ p.iter ↔ x ∈ runS order [] ops) := by
  intro p
  obtain ⟨h1, h2⟩ := runC_sim hne (FastPolicy.new order) [] ops (inv_new order)
    (by intro x; simp [FastPolicy.iter, FastPolicy.new, flatten_empty])
  exact ⟨h1, fun x => by rw [contains_iff _ h1, h2], h2⟩

/-- **bucket_exact** over all histories: the bucket a key tuple selects is the set of current rules
    whose fields at the key positions are that tuple -/
theorem bucket_exact_history (hne : order ≠ []) (ops : List COp) (keys : List String)
    (hk : keys.length = order.length) (x : Rule) :
    x ∈ (runC (FastPolicy.new order) ops).bucket keys ↔
      x ∈ runS order [] ops ∧ keysOf order x = some keys := by
  obtain ⟨h1, _, h3⟩ := container_is_set hne ops
  rw [bucket_exact _ h1 keys hk, h3]

/-- **index_never_hides.** a rule that is in the policy is in the bucket of its own key fields — the
    one `FastEnforcer.enforce` selects for every request that agrees with the rule on those fields -/
theorem index_never_hides (hne : order ≠ []) (ops : List COp) (x : Rule) (keys : List String)
    (hx : x ∈ runS order [] ops) (hk : keysOf order x = some keys) :
    x ∈ (runC (FastPolicy.new order) ops).bucket keys :=
  (bucket_exact_history hne ops keys (keysOf_length _ _ _ hk) x).mpr ⟨hx, hk⟩

/-- **index_never_resurrects.** a rule that is not (or no longer) in the policy is in no bucket and is
    not iterated -/
theorem index_never_resurrects (hne : order ≠ []) (ops : List COp) (x : Rule)
    (hx : x ∉ runS order [] ops) :
    (∀ keys, x ∉ (runC (FastPolicy.new order) ops).bucket keys) ∧
      x ∉ (runC (FastPolicy.new order) ops).iter ∧ (runC (FastPolicy.new order) ops).contains x = false := by
  obtain ⟨h1, h2, h3⟩ := container_is_set hne ops
  refine ⟨?_, fun h => hx ((h3 x).mp h), ?_⟩
  · intro keys hb
    have := bucket_sub_flatten' _ _ _ _ hb
    rw [← iter_eq _ h1] at this
    exact hx ((h3 x).mp this)
  · cases hc : (runC (FastPolicy.new order) ops).contains x with
    | false => rfl
    | true => exact absurd ((h2 x).mp hc) hx

/-- the set semantics themselves: the abstract history is a duplicate-free list in which a removed
    rule is absent until it is appended again -/
theorem runS_nodup (order : List Nat) (s : List Rule) (ops : List COp) (h : s.Nodup) :
    (runS order s ops).Nodup := by
  induction ops generalizing s with
  | nil => exact h
  | cons op ops ih =>
    apply ih
    cases op with
    | append r =>
      simp only [stepS]
      split
      · exact h
      · rename_i hc
        simp at hc
        exact List.nodup_append.mpr ⟨h, by simp, by intro a ha b hb; simp at hb; subst hb; intro e; subst e; exact hc.1 ha⟩
    | remove r => exact h.filter _

/-! ## 2. The decision -/

theorem enforceExView_eq {ρ : Type} (cfg : Cfg) (m : List ρ → List String → MVal)
    (policy : List Rule) (req : List ρ) :
    enforceExView cfg m policy.length policy req = enforceEx cfg m policy req := by
  unfold enforceExView enforceEx
  cases policy with
  | nil => rfl
  | cons p ps => simp; rfl

theorem enforceView_eq {ρ : Type} (cfg : Cfg) (m : List ρ → List String → MVal)
    (policy : List Rule) (req : List ρ) :
    enforceView cfg m policy.length policy req = enforce cfg m policy req := by
  unfold enforceView enforce; rw [enforceExView_eq]; rfl

/-- with a non-zero `len` the decision over the iterated rules is the effect expression over their
    outcomes — also when *no* rule is iterated (empty bucket of a non-empty policy) -/
theorem enforceView_eq_spec {ρ : Type} (cfg : Cfg) (m : List ρ → List String → MVal) (total : Nat)
    (view : List Rule) (req : List ρ) (os : List Outcome)
    (hen : cfg.enabled = true) (har : cfg.rArity = req.length) (ht : total ≠ 0)
    (hos : C01.allOutcomes cfg m req view = .ok os) :
    enforceView cfg m total view req = .ok (spec cfg.kind os) := by
  have hl := C01.loop_eq_loopO cfg m req view os {} 0 hos
  have hs := C01.loopO_spec cfg.kind os {} 0 (by cases cfg.kind <;> simp [intermediate])
  have ht' : (total == 0) = false := by simp [ht]
  unfold enforceView enforceExView
  simp only [hen, har, ht', hl, C01.effectToBool_final]
  simp
  generalize (C01.loopO cfg.kind os {} 0) = r at hs ⊢
  cases hk : cfg.kind <;> simp [hk, spec] at hs ⊢ <;> grind

/-- every rule of the list can be classified (right arity, matcher result bool/float) -/
def Classifiable {ρ : Type} (cfg : Cfg) (m : List ρ → List String → MVal) (req : List ρ) (l : List Rule) : Prop :=
  ∀ p ∈ l, ∃ o, ruleOutcome cfg m req p = .ok o

/-- the outcome of a classifiable rule -/
def outcomeD {ρ : Type} (cfg : Cfg) (m : List ρ → List String → MVal) (req : List ρ) (p : Rule) : Outcome :=
  match ruleOutcome cfg m req p with
  | .ok o => o
  | .error _ => .noMatch

theorem allOutcomes_of_classifiable {ρ : Type} (cfg : Cfg) (m : List ρ → List String → MVal) (req : List ρ)
    (l : List Rule) (h : Classifiable cfg m req l) :
    C01.allOutcomes cfg m req l = .ok (l.map (outcomeD cfg m req)) := by
  induction l with
  | nil => rfl
  | cons p ps ih =>
    obtain ⟨o, ho⟩ := h p (by simp)
    have := ih (fun q hq => h q (by simp [hq]))
    simp [C01.allOutcomes, ho, this, outcomeD]

/-- under the order-insensitive effect expressions the decision depends only on the *set* of
    matching rules (via `nonmatching_irrelevant`) -/
theorem spec_matching_set (k : EffectKind) (hk : k ≠ .priority) (f : Rule → Outcome) (l1 l2 : List Rule)
    (h : ∀ p, (p ∈ l1 ∧ (f p).isNoMatch = false) ↔ (p ∈ l2 ∧ (f p).isNoMatch = false)) :
    spec k (l1.map f) = spec k (l2.map f) := by
  rw [C01.nonmatching_irrelevant k (l1.map f), C01.nonmatching_irrelevant k (l2.map f)]
  have hany : ∀ g : Outcome → Bool,
      ((l1.map f).filter (!·.isNoMatch)).any g = ((l2.map f).filter (!·.isNoMatch)).any g := by
    intro g
    rw [Bool.eq_iff_iff]
    simp only [List.any_eq_true, List.mem_filter, List.mem_map]
    constructor
    · rintro ⟨o, ⟨⟨p, hp, rfl⟩, hn⟩, hg⟩
      have := (h p).mp ⟨hp, by simpa using hn⟩
      exact ⟨f p, ⟨⟨p, this.1, rfl⟩, hn⟩, hg⟩
    · rintro ⟨o, ⟨⟨p, hp, rfl⟩, hn⟩, hg⟩
      have := (h p).mpr ⟨hp, by simpa using hn⟩
      exact ⟨f p, ⟨⟨p, this.1, rfl⟩, hn⟩, hg⟩
  cases k <;> simp_all [spec]

/-- "the matcher implies equality on the key fields": a rule of the policy that the matcher does not
    reject for this request carries the request's values at the cache-key positions -/
def KeysImplied {ρ : Type} (cfg : Cfg) (m : List ρ → List String → MVal) (order : List Nat)
    (req : List ρ) (keys : List String) (l : List Rule) : Prop :=
  ∀ p ∈ l, (outcomeD cfg m req p).isNoMatch = false → keysOf order p = some keys

theorem enforceView_zero {ρ : Type} (cfg : Cfg) (m : List ρ → List String → MVal)
    (view : List Rule) (req : List ρ) :
    enforceView cfg m 0 view req = enforce cfg m [] req := by
  rw [← enforceView_eq]
  unfold enforceView enforceExView
  simp

/-- the ordinary decision procedure run on a *view* of the policy (what the container iterates)
    with the policy's true size: equal to the decision on the whole policy as soon as the view is a
    part of the policy that contains every matching rule -/
theorem view_eq_plain {ρ : Type} (cfg : Cfg) (m : List ρ → List String → MVal) (total : Nat)
    (view plain : List Rule) (req : List ρ)
    (htot : total = 0 ↔ plain = [])
    (hkind : cfg.kind ≠ .priority)
    (hcls : Classifiable cfg m req plain)
    (hsub : ∀ x ∈ view, x ∈ plain)
    (hmatch : cfg.rArity = req.length → ∀ x ∈ plain, (outcomeD cfg m req x).isNoMatch = false → x ∈ view) :
    enforceView cfg m total view req = enforce cfg m plain req := by
  by_cases hen : cfg.enabled = true
  · by_cases har : cfg.rArity = req.length
    · by_cases hp : plain = []
      · subst hp
        rw [htot.mpr rfl]; exact enforceView_zero cfg m view req
      · have ht : total ≠ 0 := fun h => hp (htot.mp h)
        have hclsv : Classifiable cfg m req view := fun x hx => hcls x (hsub x hx)
        rw [enforceView_eq_spec cfg m total view req _ hen har ht (allOutcomes_of_classifiable cfg m req view hclsv),
          C01.enforce_eq_spec cfg m plain req _ hen har hp (allOutcomes_of_classifiable cfg m req plain hcls)]
        congr 1
        apply spec_matching_set _ hkind
        intro x
        constructor
        · rintro ⟨hx, hn⟩; exact ⟨hsub x hx, hn⟩
        · rintro ⟨hx, hn⟩; exact ⟨hmatch har x hx hn, hn⟩
    · unfold enforceView enforceExView enforce enforceEx
      simp [hen, har]
  · unfold enforceView enforceExView enforce enforceEx
    simp [hen]

theorem clearFilter_applyFilter (p : FastPolicy order) (h : p.filter = none) (keys : List String) :
    (p.applyFilter keys).clearFilter = p := by
  cases p; simp_all [FastPolicy.applyFilter, FastPolicy.clearFilter]

/-- **fast_eq_plain.** For every effect expression that does not depend on the rule order, every
    matcher, every request and every policy that the indexed container and a plain list hold in
    common: if every rule can be classified and the matcher implies equality on the key fields,
    `FastEnforcer.enforce` returns what `Enforcer.enforce` returns — decision or exception — and
    leaves the container as it was (filter cleared).  No side condition about empty buckets: since
    F14e `len` is the size of the policy, not of the selected bucket. -/
theorem fast_eq_plain (cfg : Cfg) (m : List String → List String → MVal) (p : FastPolicy order)
    (plain : List Rule) (req : List String)
    (hinv : Inv p) (hsame : ∀ x, x ∈ p.iter ↔ x ∈ plain)
    (hkind : cfg.kind ≠ .priority)
    (hcls : Classifiable cfg m req plain)
    (hkeys : cfg.rArity = req.length → ∀ keys, keysOf order req = some keys → KeysImplied cfg m order req keys plain) :
    fastEnforce cfg m p req = (p, enforce cfg m plain req) := by
  have htot : p.len = 0 ↔ plain = [] := by
    simp only [FastPolicy.len, hinv.size_eq, ← iter_eq p hinv, List.length_eq_zero_iff]
    constructor
    · intro h; apply List.eq_nil_iff_forall_not_mem.mpr; intro x hx; rw [← hsame, h] at hx; simp at hx
    · intro h; apply List.eq_nil_iff_forall_not_mem.mpr; intro x hx; rw [hsame, h] at hx; simp at hx
  have hun : enforceView cfg m p.len p.iter req = enforce cfg m plain req :=
    view_eq_plain cfg m p.len p.iter plain req htot hkind hcls (fun x hx => (hsame x).mp hx)
      (fun _ x hx _ => (hsame x).mpr hx)
  unfold fastEnforce
  split
  · rw [hun]
  · split
    · rw [hun]
    · rename_i keys hk
      simp only [clearFilter_applyFilter p hinv.nofilter]
      congr 1
      have hl := keysOf_length _ _ _ hk
      have hview : (p.applyFilter keys).iter = p.bucket keys := by simp [FastPolicy.applyFilter, FastPolicy.iter]
      have hlen : (p.applyFilter keys).len = p.len := rfl
      rw [hview, hlen]
      apply view_eq_plain cfg m p.len (p.bucket keys) plain req htot hkind hcls
      · intro x hx; exact (hsame x).mp ((bucket_exact p hinv keys hl x).mp hx).1
      · intro har x hx hn
        exact (bucket_exact p hinv keys hl x).mpr ⟨(hsame x).mpr hx, hkeys har keys hk x hx hn⟩

/-- the index never hides a rule that could match: every rule of the policy that the matcher does not
    reject for a request lies in the bucket `FastEnforcer.enforce` selects for that request -/
theorem matching_rule_in_selected_bucket {ρ : Type} (cfg : Cfg) (m : List ρ → List String → MVal)
    (p : FastPolicy order) (plain : List Rule) (req : List ρ) (keys : List String) (x : Rule)
    (hinv : Inv p) (hsame : ∀ x, x ∈ p.iter ↔ x ∈ plain) (hl : keys.length = order.length)
    (hkeys : KeysImplied cfg m order req keys plain) (hx : x ∈ plain)
    (hm : (outcomeD cfg m req x).isNoMatch = false) : x ∈ p.bucket keys :=
  (bucket_exact p hinv keys hl x).mpr ⟨(hsame x).mpr hx, hkeys x hx hm⟩

/-- … and never resurrects one: whatever bucket is selected holds current rules only -/
theorem selected_bucket_sub_policy (p : FastPolicy order) (plain : List Rule) (keys : List String) (x : Rule)
    (hinv : Inv p) (hsame : ∀ x, x ∈ p.iter ↔ x ∈ plain) (hx : x ∈ p.bucket keys) : x ∈ plain := by
  have := bucket_sub_flatten' _ _ _ _ hx
  rw [← iter_eq p hinv] at this
  exact (hsame x).mp this


/-! ## 3. The matchers of the three model shapes imply equality on their admissible key positions -/

theorem keysOf_eq_of_fields (order : List Nat) (a b : List String)
    (h : ∀ i ∈ order, i < a.length ∧ i < b.length ∧ a[i]? = b[i]?) : keysOf order a = keysOf order b := by
  induction order with
  | nil => rfl
  | cons x xs ih =>
    have hx := h x (by simp)
    simp only [keysOf, hx.2.2, ih (fun i hi => h i (by simp [hi]))]

/-- admissible key positions: ACL compares all three fields by equality, the RBAC shapes compare the
    object and the action (the subject goes through `g`) -/
def admissible : Shape → List Nat → Prop
  | .acl, order => order ≠ [] ∧ ∀ i ∈ order, i < 3
  | _, order => order ≠ [] ∧ ∀ i ∈ order, i = 1 ∨ i = 2

theorem ruleOutcome_noMatch_of_false {ρ : Type} (cfg : Cfg) (m : List ρ → List String → MVal) (req : List ρ)
    (p : Rule) (h : m req p = .bool false) : (outcomeD cfg m req p).isNoMatch = true := by
  unfold outcomeD ruleOutcome
  split <;> simp_all [Outcome.isNoMatch]
  rename_i o ho
  split at ho <;> simp_all
  cases ho; rfl

theorem keysImplied_shape (sh : Shape) (g : List Rule) (order : List Nat) (req keys : List String)
    (plain : List Rule) (hadm : admissible sh order) (hreq : req.length = 3)
    (hsized : ∀ p ∈ plain, p.length = sh.cfg.pArity) (hk : keysOf order req = some keys) :
    KeysImplied sh.cfg (sh.matcher g) order req keys plain := by
  intro p hp hn
  rw [← hk]
  apply keysOf_eq_of_fields
  have hlen : 3 ≤ p.length := by have := hsized p hp; cases sh <;> simp [Shape.cfg] at this <;> omega
  have hm : sh.matcher g req p ≠ .bool false := by
    intro hf
    have := ruleOutcome_noMatch_of_false sh.cfg (sh.matcher g) req p hf
    rw [this] at hn; cases hn
  intro i hi
  match req, hreq with
  | [r0, r1, r2], _ =>
    match p, hlen with
    | p0 :: p1 :: p2 :: rest, _ =>
      cases sh with
      | acl =>
        have hi3 := hadm.2 i hi
        simp only [Shape.matcher, List.getElem?_cons_zero, List.getElem?_cons_succ, Option.getD_some] at hm
        have : (r0 == p0 && r1 == p1 && r2 == p2) = true := by
          cases h : (r0 == p0 && r1 == p1 && r2 == p2) <;> simp_all
        simp only [Bool.and_eq_true, beq_iff_eq] at this
        obtain ⟨⟨e0, e1⟩, e2⟩ := this
        subst e0 e1 e2
        match i, hi3 with
        | 0, _ => simp
        | 1, _ => simp
        | 2, _ => simp
      | rbac =>
        have hi3 := hadm.2 i hi
        simp only [Shape.matcher, List.getElem?_cons_zero, List.getElem?_cons_succ, Option.getD_some] at hm
        have : (hasLink (graphOf g) 10 r0 p0 && r1 == p1 && r2 == p2) = true := by
          cases h : (hasLink (graphOf g) 10 r0 p0 && r1 == p1 && r2 == p2) <;> simp_all
        simp only [Bool.and_eq_true, beq_iff_eq] at this
        obtain ⟨⟨_, e1⟩, e2⟩ := this
        subst e1 e2
        rcases hi3 with e | e <;> subst e <;> simp
      | rbacDeny =>
        have hi3 := hadm.2 i hi
        simp only [Shape.matcher, List.getElem?_cons_zero, List.getElem?_cons_succ, Option.getD_some] at hm
        have : (hasLink (graphOf g) 10 r0 p0 && r1 == p1 && r2 == p2) = true := by
          cases h : (hasLink (graphOf g) 10 r0 p0 && r1 == p1 && r2 == p2) <;> simp_all
        simp only [Bool.and_eq_true, beq_iff_eq] at this
        obtain ⟨⟨_, e1⟩, e2⟩ := this
        subst e1 e2
        rcases hi3 with e | e <;> subst e <;> simp

theorem classifiable_shape (sh : Shape) (g : List Rule) (req : List String) (plain : List Rule)
    (hsized : ∀ p ∈ plain, p.length = sh.cfg.pArity) :
    Classifiable sh.cfg (sh.matcher g) req plain := by
  intro p hp
  have := hsized p hp
  unfold ruleOutcome
  simp only [this, bne_self_eq_false, Bool.false_eq_true, ↓reduceIte]
  cases sh <;> simp only [Shape.matcher] <;> split <;> simp_all

theorem shape_kind_ne_priority (sh : Shape) : sh.cfg.kind ≠ .priority := by
  cases sh <;> simp [Shape.cfg]

/-- **fast_eq_plain for the three model shapes**: every admissible key order, every role graph, every
    well-sized policy held in common, *every* request (any arity): same decision or same exception -/
theorem fast_eq_plain_shape (sh : Shape) (g : List Rule) (p : FastPolicy order) (plain : List Rule)
    (req : List String) (hadm : admissible sh order) (hinv : Inv p) (hsame : ∀ x, x ∈ p.iter ↔ x ∈ plain)
    (hsized : ∀ r ∈ plain, r.length = sh.cfg.pArity) :
    fastEnforce sh.cfg (sh.matcher g) p req = (p, enforce sh.cfg (sh.matcher g) plain req) := by
  apply fast_eq_plain _ _ _ _ _ hinv hsame (shape_kind_ne_priority sh) (classifiable_shape sh g req plain hsized)
  intro har keys hk
  exact keysImplied_shape sh g order req keys plain hadm (by rw [← har]; cases sh <;> rfl) hsized hk

/-! ## 4. What the unrepaired code violates (negative witnesses), and what still held -/

def onList (order : List Nat) (rules : List Rule) {α : Type} (f : FastPolicy order → α) (dflt : α) : α :=
  match FastPolicy.ofList order rules with
  | .ok p => f p
  | .error _ => dflt

/-- F14e: non-empty policy, empty bucket, all-empty request — the unrepaired `FastEnforcer` allows,
    `Enforcer` denies -/
theorem empty_bucket_witness :
    onList [2, 1] [["alice", "data1", "read"]]
      (fun p => fastEnforceUnrepaired Shape.acl.cfg (Shape.acl.matcher []) p ["", "", ""]) (.error .keyError) = .ok true ∧
    enforce Shape.acl.cfg (Shape.acl.matcher []) [["alice", "data1", "read"]] ["", "", ""] = .ok false := by
  decide


theorem enforceView_zero_nil_of_not_truthy {ρ : Type} (cfg : Cfg) (m : List ρ → List String → MVal) (n : Nat)
    (req : List ρ) (hev : cfg.hasEval = false) (ht : (m req (List.replicate cfg.pArity "")).truthy = false) :
    enforceView cfg m 0 [] req = enforceView cfg m n [] req := by
  unfold enforceView enforceExView
  by_cases hen : cfg.enabled = true
  · by_cases har : cfg.rArity = req.length
    · cases n with
      | zero => rfl
      | succ n =>
        simp [hen, har, hev, ht, loop, C01.effectToBool_final]
        cases cfg.kind <;> simp [final, EffSet.add]
    · simp [hen, har]
  · simp [hen]

/-- **fast_eq_plain_partial** — the decision path *before* F14e (`len` = size of the selected
    bucket) agrees with `Enforcer` exactly under the side condition: the bucket is non-empty, or the
    policy is empty, or the matcher is not truthy on the all-empty rule (and has no `eval`) -/
theorem fast_eq_plain_partial (cfg : Cfg) (m : List String → List String → MVal) (p : FastPolicy order)
    (plain : List Rule) (req keys : List String)
    (hinv : Inv p) (hsame : ∀ x, x ∈ p.iter ↔ x ∈ plain)
    (hkind : cfg.kind ≠ .priority)
    (hcls : Classifiable cfg m req plain)
    (hk : keysOf order req = some keys)
    (hkeys : cfg.rArity = req.length → KeysImplied cfg m order req keys plain)
    (hside : p.bucket keys ≠ [] ∨ plain = [] ∨
      (cfg.hasEval = false ∧ (m req (List.replicate cfg.pArity "")).truthy = false)) :
    fastEnforceUnrepaired cfg m p req =
      (match enforce cfg m plain req with | .ok b => .ok b | .error e => .error (.enf e)) := by
  have hl := keysOf_length _ _ _ hk
  have hsub : ∀ x ∈ p.bucket keys, x ∈ plain :=
    fun x hx => (hsame x).mp ((bucket_exact p hinv keys hl x).mp hx).1
  have hmatch : cfg.rArity = req.length → ∀ x ∈ plain, (outcomeD cfg m req x).isNoMatch = false → x ∈ p.bucket keys :=
    fun har x hx hn => (bucket_exact p hinv keys hl x).mpr ⟨(hsame x).mpr hx, hkeys har x hx hn⟩
  have hview : (p.applyFilter keys).iter = p.bucket keys := by simp [FastPolicy.applyFilter, FastPolicy.iter]
  have key : enforceView cfg m (p.bucket keys).length (p.bucket keys) req = enforce cfg m plain req := by
    by_cases hb : p.bucket keys = []
    · by_cases hp : plain = []
      · exact view_eq_plain cfg m _ _ plain req (by simp [hb, hp]) hkind hcls hsub hmatch
      · rcases hside with h | h | ⟨hev, ht⟩
        · exact absurd hb h
        · exact absurd h hp
        · rw [hb]
          have h1 : enforceView cfg m (plain.length) [] req = enforce cfg m plain req :=
            view_eq_plain cfg m plain.length [] plain req (by simp [List.length_eq_zero_iff]) hkind hcls (by simp)
              (by rw [← hb]; exact hmatch)
          rw [← h1]
          exact enforceView_zero_nil_of_not_truthy cfg m _ req hev ht
    · have hp : plain ≠ [] := by
        intro hp
        cases hbk : p.bucket keys with
        | nil => exact hb hbk
        | cons x xs => have := hsub x (by rw [hbk]; simp); rw [hp] at this; simp at this
      exact view_eq_plain cfg m _ _ plain req (by simp [hb, hp]) hkind hcls hsub hmatch
  unfold fastEnforceUnrepaired
  simp only [hk, FastPolicy.lenUnrepaired, hview, key]
  cases enforce cfg m plain req <;> rfl

/-- F14d: with as many keys as fields the unrepaired membership test denies a stored rule -/
theorem contains_unrepaired_witness :
    onList [0, 1, 2] [["alice", "data1", "read"]]
      (fun p => (p.containsUnrepaired ["alice", "data1", "read"], p.contains ["alice", "data1", "read"]))
      (.error .keyError, false) = (.ok false, true) := by
  decide

/-- F14c: the unrepaired unfiltered iteration with one key raises, with three keys it yields the
    characters of the last key instead of the rule -/
theorem iteration_unrepaired_witness :
    onList [1] [["alice", "data1", "read"]] (fun p => flattenUnrepaired _ p.cache) (.ok []) = .error .attributeError ∧
    onList [0, 1, 2] [["alice", "data1", "read"]] (fun p => flattenUnrepaired _ p.cache) (.ok []) = .ok [["r", "e", "a", "d"]] ∧
    onList [0, 1, 2] [["alice", "data1", "read"]] (fun p => p.iter) [] = [["alice", "data1", "read"]] := by
  decide

/-- F14g: an ill-sized request raised `IndexError` instead of "invalid request size" -/
theorem ill_sized_request_witness :
    fastEnforceUnrepaired Shape.acl.cfg (Shape.acl.matcher []) (FastPolicy.new [2, 1]) ["alice", "data1"] = .error .indexError ∧
    (fastEnforce Shape.acl.cfg (Shape.acl.matcher []) (FastPolicy.new [2, 1]) ["alice", "data1"]).2 = .error .invalidRequestSize ∧
    enforce Shape.acl.cfg (Shape.acl.matcher []) [] ["alice", "data1"] = .error .invalidRequestSize := by
  decide

/-- the hypothesis "keys on fields the matcher compares by equality" is needed: keyed on the subject,
    the RBAC model misses the rule granted through a role (also after all repairs) -/
theorem inadmissible_order_witness :
    onList [0, 1] [["admin", "data1", "read"]]
      (fun p => (fastEnforce Shape.rbac.cfg (Shape.rbac.matcher [["alice", "admin"]]) p ["alice", "data1", "read"]).2)
      (.error .effectToBool) = .ok false ∧
    enforce Shape.rbac.cfg (Shape.rbac.matcher [["alice", "admin"]]) [["admin", "data1", "read"]] ["alice", "data1", "read"] = .ok true := by
  decide

/-- the `policy` attribute of the assertion in the unrepaired code: the indexed container or — after
    any filtered removal, which rebinds it (`self[sec][ptype].policy = tmp`) — a plain list -/
inductive PolicyObj (order : List Nat)
  | fast (p : FastPolicy order)
  | list (l : List Rule)

def PolicyObj.rules : PolicyObj order → List Rule
  | .fast p => p.iter
  | .list l => l

/-- unrepaired `remove_filtered_policy` on a `FastModel` (the generic code) -/
def removeFilteredUnrepaired (o : PolicyObj order) (i : Nat) (vs : List String) : Except PErr (PolicyObj order × Bool) :=
  match Plain.removeFiltered o.rules i vs with
  | .error e => .error e
  | .ok (keep, res) => .ok (.list keep, res)

/-- unrepaired `FastEnforcer.enforce`: `fast_policy_filter(policy, …)` calls `policy.apply_filter` /
    `policy.clear_filter`, which a list does not have -/
def enforceObjUnrepaired (cfg : Cfg) (m : List String → List String → MVal) : PolicyObj order → List String → Except PErr Bool
  | .fast p, req => fastEnforceUnrepaired cfg m p req
  | .list _, _ => .error .attributeError

/-- unrepaired `update_policy` on a `FastModel`: `ast.policy.index(old_rule)` does not exist -/
def updateUnrepaired (o : PolicyObj order) (old new : Rule) : Except PErr (PolicyObj order × Bool) :=
  match o with
  | .fast p => if p.contains old then .error .attributeError else .ok (.fast p, false)
  | .list l => let (l', b) := Plain.updatePolicy l old new; .ok (.list l', b)

/-- F14a: after *any* filtered removal that returns, *every* `enforce` raised `AttributeError` -/
theorem filtered_removal_breaks_enforce_unrepaired (cfg : Cfg) (m : List String → List String → MVal)
    (o o' : PolicyObj order) (i : Nat) (vs : List String) (b : Bool) (req : List String)
    (h : removeFilteredUnrepaired o i vs = .ok (o', b)) :
    enforceObjUnrepaired cfg m o' req = .error .attributeError := by
  unfold removeFilteredUnrepaired at h
  split at h
  · cases h
  · cases h; rfl

/-- F14b: updating *any* stored rule raised `AttributeError` -/
theorem update_raises_unrepaired (p : FastPolicy order) (old new : Rule) (h : p.contains old = true) :
    updateUnrepaired (.fast p) old new = .error .attributeError := by
  simp [updateUnrepaired, h]


/-! ## 6. The two enforcers over whole management histories -/

/-- the simulation relation between `FastEnforcer` and `Enforcer` states -/
structure Sim (sh : Shape) (fs : FastState order) (ps : PlainState) : Prop where
  inv : Inv fs.p
  same : ∀ x, x ∈ fs.p.iter ↔ x ∈ ps.p
  nodup : ps.p.Nodup
  sized : ∀ r ∈ ps.p, r.length = sh.cfg.pArity
  g : fs.g = ps.g

/-- results are compared like the harness compares them: rule lists as sets -/
def Res.equiv : Res → Res → Prop
  | .bool a, .bool b => a = b
  | .rules a, .rules b => ∀ x, x ∈ a ↔ x ∈ b
  | .err a, .err b => a = b
  | .unit, .unit => True
  | _, _ => False

theorem admissible_lt (sh : Shape) (hadm : admissible sh order) : order ≠ [] ∧ ∀ i ∈ order, i < sh.cfg.pArity := by
  cases sh
  · exact hadm
  · exact ⟨hadm.1, fun i hi => by rcases hadm.2 i hi with e | e <;> subst e <;> simp [Shape.cfg]⟩
  · exact ⟨hadm.1, fun i hi => by rcases hadm.2 i hi with e | e <;> subst e <;> simp [Shape.cfg]⟩

theorem any_ge_false (n : Nat) (r : Rule) (hord : ∀ i ∈ order, i < n) (hr : r.length = n) :
    order.any (fun i => i ≥ r.length) = false := by
  rw [List.any_eq_false]; intro i hi; have := hord i hi; simp; omega

/-- `add_policy` on both sides -/
theorem add_sim (n : Nat) (p : FastPolicy order) (l : List Rule) (r : Rule)
    (hne : order ≠ []) (hord : ∀ i ∈ order, i < n) (hr : r.length = n)
    (hinv : Inv p) (hsame : ∀ x, x ∈ p.iter ↔ x ∈ l) (hnd : l.Nodup) :
    ∃ p', addPolicy p r = .ok (p', (Plain.addPolicy l r).2) ∧ Inv p' ∧
      (∀ x, x ∈ p'.iter ↔ x ∈ (Plain.addPolicy l r).1) ∧ (Plain.addPolicy l r).1.Nodup ∧
      (∀ x, x ∈ (Plain.addPolicy l r).1 ↔ x = r ∨ x ∈ l) := by
  unfold addPolicy Plain.addPolicy hasPolicy Plain.hasPolicy
  by_cases hc : p.contains r = true
  · have hm : r ∈ l := (hsame r).mp ((contains_iff p hinv r).mp hc)
    have hm' : l.contains r = true := by simpa using hm
    simp only [hc, hm', ↓reduceIte]
    exact ⟨p, rfl, hinv, hsame, hnd, fun x => ⟨Or.inr, fun h => h.elim (fun e => e ▸ hm) id⟩⟩
  · have hm : r ∉ l := fun h => hc ((contains_iff p hinv r).mpr ((hsame r).mpr h))
    have hm' : l.contains r = false := by simpa using hm
    have : ∃ p', p.append r = .ok p' := by
      rw [append_ok_iff]; exact ⟨hne, any_ge_false n r hord hr⟩
    obtain ⟨p', ha⟩ := this
    obtain ⟨hi', hmem⟩ := append_spec p p' r hinv ha
    simp only [hc, hm', Bool.false_eq_true, ↓reduceIte, ha]
    refine ⟨p', rfl, hi', ?_, ?_, ?_⟩
    · intro x; rw [hmem, hsame]; simp [or_comm]
    · exact List.nodup_append.mpr ⟨hnd, by simp, by intro a hal b hb; simp at hb; subst hb; intro e; subst e; exact hm hal⟩
    · intro x; simp [or_comm]

/-- `remove_policy` on both sides -/
theorem remove_sim (p : FastPolicy order) (l : List Rule) (r : Rule)
    (hne : order ≠ []) (hinv : Inv p) (hsame : ∀ x, x ∈ p.iter ↔ x ∈ l) (hnd : l.Nodup) :
    ∃ p', removePolicy p r = .ok (p', (Plain.removePolicy l r).2) ∧ Inv p' ∧
      (∀ x, x ∈ p'.iter ↔ x ∈ (Plain.removePolicy l r).1) ∧ (Plain.removePolicy l r).1.Nodup ∧
      (∀ x, x ∈ (Plain.removePolicy l r).1 ↔ x ≠ r ∧ x ∈ l) := by
  unfold removePolicy Plain.removePolicy hasPolicy Plain.hasPolicy
  by_cases hc : p.contains r = true
  · have hm : r ∈ l := (hsame r).mp ((contains_iff p hinv r).mp hc)
    have hm' : l.contains r = true := by simpa using hm
    obtain ⟨p', hr, hi', hmem⟩ := remove_spec p r hne hinv ((contains_iff p hinv r).mp hc)
    have hnot : p'.contains r = false := by
      cases h : p'.contains r with
      | false => rfl
      | true => have := (hmem r).mp ((contains_iff p' hi' r).mp h); exact absurd rfl this.1
    have hnot' : (l.erase r).contains r = false := by
      simp; rw [hnd.mem_erase_iff]; simp
    simp only [hc, hm', Bool.not_true, Bool.false_eq_true, ↓reduceIte, hr, hnot, hnot', Bool.not_false]
    refine ⟨p', rfl, hi', ?_, hnd.erase _, ?_⟩
    · intro x; rw [hmem, hsame, hnd.mem_erase_iff]
    · intro x; rw [hnd.mem_erase_iff]
  · have hm : r ∉ l := fun h => hc ((contains_iff p hinv r).mpr ((hsame r).mpr h))
    have hm' : l.contains r = false := by simpa using hm
    simp only [hc, hm', Bool.not_false, ↓reduceIte]
    refine ⟨p, rfl, hinv, hsame, hnd, ?_⟩
    intro x; constructor
    · intro hx; exact ⟨fun e => hm (e ▸ hx), hx⟩
    · exact fun h => h.2

/-- re-indexing a list (`FastModel._on_list`, `load_policy`) -/
theorem appendAll_spec (n : Nat) (p : FastPolicy order) (l : List Rule)
    (hne : order ≠ []) (hord : ∀ i ∈ order, i < n) (hl : ∀ r ∈ l, r.length = n) (hinv : Inv p) :
    ∃ p', p.appendAll l = .ok p' ∧ Inv p' ∧ ∀ x, x ∈ p'.iter ↔ x ∈ p.iter ∨ x ∈ l := by
  induction l generalizing p with
  | nil => exact ⟨p, rfl, hinv, by simp⟩
  | cons r rs ih =>
    have : ∃ p1, p.append r = .ok p1 := by
      rw [append_ok_iff]; exact ⟨hne, any_ge_false n r hord (hl r (by simp))⟩
    obtain ⟨p1, ha⟩ := this
    obtain ⟨hi1, hm1⟩ := append_spec p p1 r hinv ha
    obtain ⟨p', hp', hi', hm'⟩ := ih p1 (fun x hx => hl x (by simp [hx])) hi1
    refine ⟨p', by simp only [FastPolicy.appendAll, ha, hp'], hi', ?_⟩
    intro x; rw [hm', hm1]; simp only [List.mem_cons]; constructor
    · rintro ((h | h) | h)
      · exact Or.inr (Or.inl h)
      · exact Or.inl h
      · exact Or.inr (Or.inr h)
    · rintro (h | h | h)
      · exact Or.inl (Or.inr h)
      · exact Or.inl (Or.inl h)
      · exact Or.inr h

theorem ofList_spec (n : Nat) (l : List Rule)
    (hne : order ≠ []) (hord : ∀ i ∈ order, i < n) (hl : ∀ r ∈ l, r.length = n) :
    ∃ p', FastPolicy.ofList order l = .ok p' ∧ Inv p' ∧ ∀ x, x ∈ p'.iter ↔ x ∈ l := by
  obtain ⟨p', h1, h2, h3⟩ := appendAll_spec n (FastPolicy.new order) l hne hord hl (inv_new order)
  refine ⟨p', h1, h2, ?_⟩
  intro x; rw [h3]; simp [FastPolicy.iter, FastPolicy.new, flatten_empty]


theorem has_eq (p : FastPolicy order) (l : List Rule) (r : Rule) (hinv : Inv p)
    (hsame : ∀ x, x ∈ p.iter ↔ x ∈ l) : p.contains r = l.contains r := by
  rw [Bool.eq_iff_iff, contains_iff p hinv, hsame]; simp

/-- the second loop of `add_policies` -/
theorem addEach_sim (n : Nat) (rules : List Rule) (p : FastPolicy order) (l : List Rule)
    (hne : order ≠ []) (hord : ∀ i ∈ order, i < n) (hrs : ∀ r ∈ rules, r.length = n)
    (hinv : Inv p) (hsame : ∀ x, x ∈ p.iter ↔ x ∈ l) (hnd : l.Nodup) :
    ∃ p', addEach p rules = (p', none) ∧ Inv p' ∧
      (∀ x, x ∈ p'.iter ↔ x ∈ rules.foldl (fun q r => (Plain.addPolicy q r).1) l) ∧
      (rules.foldl (fun q r => (Plain.addPolicy q r).1) l).Nodup ∧
      (∀ x, x ∈ rules.foldl (fun q r => (Plain.addPolicy q r).1) l ↔ x ∈ l ∨ x ∈ rules) := by
  induction rules generalizing p l with
  | nil => exact ⟨p, rfl, hinv, hsame, hnd, by simp⟩
  | cons r rs ih =>
    obtain ⟨p1, h1, hi1, hs1, hn1, hm1⟩ := add_sim n p l r hne hord (hrs r (by simp)) hinv hsame hnd
    obtain ⟨p', h2, hi2, hs2, hn2, hm2⟩ := ih p1 _ (fun x hx => hrs x (by simp [hx])) hi1 hs1 hn1
    refine ⟨p', by simp only [addEach, h1, h2], hi2, hs2, hn2, ?_⟩
    intro x
    simp only [List.foldl_cons]
    rw [hm2, hm1]; simp only [List.mem_cons]
    constructor
    · rintro ((h | h) | h)
      · exact Or.inr (Or.inl h)
      · exact Or.inl h
      · exact Or.inr (Or.inr h)
    · rintro (h | h | h)
      · exact Or.inl (Or.inr h)
      · exact Or.inl (Or.inl h)
      · exact Or.inr h

/-- the second loop of `remove_policies` -/
theorem removeEach_sim (rules : List Rule) (p : FastPolicy order) (l : List Rule)
    (hne : order ≠ []) (hinv : Inv p) (hsame : ∀ x, x ∈ p.iter ↔ x ∈ l) (hnd : l.Nodup) :
    ∃ p', removeEach p rules = (p', none) ∧ Inv p' ∧
      (∀ x, x ∈ p'.iter ↔ x ∈ rules.foldl (fun q r => if q.contains r then q.erase r else q) l) ∧
      (rules.foldl (fun q r => if q.contains r then q.erase r else q) l).Nodup ∧
      (∀ x, x ∈ rules.foldl (fun q r => if q.contains r then q.erase r else q) l ↔ x ∈ l ∧ x ∉ rules) := by
  induction rules generalizing p l with
  | nil => exact ⟨p, rfl, hinv, hsame, hnd, by simp⟩
  | cons r rs ih =>
    simp only [List.foldl_cons, removeEach]
    rw [has_eq p l r hinv hsame]
    by_cases hc : l.contains r = true
    · have hm : r ∈ l := by simpa using hc
      obtain ⟨p1, hr, hi1, hmem⟩ := remove_spec p r hne hinv ((hsame r).mpr hm)
      have hs1 : ∀ x, x ∈ p1.iter ↔ x ∈ l.erase r := by
        intro x; rw [hmem, hsame, hnd.mem_erase_iff]
      obtain ⟨p', h2, hi2, hs2, hn2, hm2⟩ := ih p1 _ hi1 hs1 (hnd.erase _)
      simp only [hc, ↓reduceIte, hr]
      refine ⟨p', h2, hi2, hs2, hn2, ?_⟩
      intro x; rw [hm2, hnd.mem_erase_iff]; simp only [List.mem_cons, not_or]
      constructor
      · rintro ⟨⟨h1, h2⟩, h3⟩; exact ⟨h2, h1, h3⟩
      · rintro ⟨h1, h2, h3⟩; exact ⟨⟨h2, h1⟩, h3⟩
    · have hm : r ∉ l := by simpa using hc
      obtain ⟨p', h2, hi2, hs2, hn2, hm2⟩ := ih p l hinv hsame hnd
      simp only [hc, Bool.false_eq_true, ↓reduceIte]
      refine ⟨p', h2, hi2, hs2, hn2, ?_⟩
      intro x; rw [hm2]; simp only [List.mem_cons, not_or]
      constructor
      · rintro ⟨h1, h2⟩; exact ⟨h1, fun e => hm (e ▸ h1), h2⟩
      · rintro ⟨h1, _, h3⟩; exact ⟨h1, h3⟩

/-! filters -/

/-- the filter test without its `IndexError` branch -/
def fm (r : Rule) : Nat → List String → Bool
  | _, [] => true
  | i, v :: vs => if v == "" then fm r (i + 1) vs else (r[i]? == some v) && fm r (i + 1) vs

theorem filterMatch_ok (r : Rule) (i : Nat) (vs : List String) (h : i + vs.length ≤ r.length) :
    Plain.filterMatch r i vs = .ok (fm r i vs) := by
  induction vs generalizing i with
  | nil => rfl
  | cons v vs ih =>
    simp only [List.length_cons] at h
    simp only [Plain.filterMatch, fm]
    by_cases hv : (v == "") = true
    · simp only [hv, ↓reduceIte]; exact ih (i + 1) (by omega)
    · have hi : i < r.length := by omega
      simp only [hv, Bool.false_eq_true, ↓reduceIte, List.getElem?_eq_getElem hi]
      by_cases hx : r[i] = v
      · simp [hx, ih (i + 1) (by omega)]
      · simp [hx]

theorem splitFiltered_ok (i : Nat) (vs : List String) (l : List Rule) (h : ∀ r ∈ l, i + vs.length ≤ r.length) :
    Plain.splitFiltered i vs l = .ok (l.filter (fun r => !fm r i vs), l.filter (fun r => fm r i vs)) := by
  induction l with
  | nil => rfl
  | cons r rs ih =>
    simp only [Plain.splitFiltered, filterMatch_ok r i vs (h r (by simp)), ih (fun x hx => h x (by simp [hx]))]
    cases hf : fm r i vs <;> simp [hf]


/-! update -/

theorem mem_set_idxOf (l : List Rule) (o n x : Rule) (hnd : l.Nodup) (ho : o ∈ l) :
    x ∈ l.set (l.idxOf o) n ↔ x = n ∨ (x ∈ l ∧ x ≠ o) := by
  induction l with
  | nil => simp at ho
  | cons a t ih =>
    simp only [List.nodup_cons] at hnd
    rw [List.idxOf_cons]
    by_cases ha : a = o
    · subst ha
      simp only [beq_self_eq_true, cond_true, List.set_cons_zero, List.mem_cons]
      constructor
      · rintro (h | h)
        · exact Or.inl h
        · exact Or.inr ⟨Or.inr h, fun e => hnd.1 (e ▸ h)⟩
      · rintro (h | ⟨h | h, hne⟩)
        · exact Or.inl h
        · exact absurd h hne
        · exact Or.inr h
    · have hot : o ∈ t := by
        rcases List.mem_cons.mp ho with e | h
        · exact absurd e.symm ha
        · exact h
      have hb : (a == o) = false := by simpa using ha
      simp only [hb, cond_false, List.set_cons_succ, List.mem_cons, ih hnd.2 hot]
      constructor
      · rintro (h | h | ⟨h, hne⟩)
        · exact Or.inr ⟨Or.inl h, fun e => ha (h ▸ e)⟩
        · exact Or.inl h
        · exact Or.inr ⟨Or.inr h, hne⟩
      · rintro (h | ⟨h | h, hne⟩)
        · exact Or.inr (Or.inl h)
        · exact Or.inl h
        · exact Or.inr (Or.inr ⟨h, hne⟩)

theorem nodup_set_idxOf (l : List Rule) (o n : Rule) (hnd : l.Nodup) (ho : o ∈ l) (hn : n = o ∨ n ∉ l) :
    (l.set (l.idxOf o) n).Nodup := by
  induction l with
  | nil => simp at ho
  | cons a t ih =>
    simp only [List.nodup_cons] at hnd
    rw [List.idxOf_cons]
    by_cases ha : a = o
    · subst ha
      simp only [beq_self_eq_true, cond_true, List.set_cons_zero, List.nodup_cons]
      refine ⟨?_, hnd.2⟩
      rcases hn with e | h
      · subst e; exact hnd.1
      · exact fun hx => h (List.mem_cons_of_mem _ hx)
    · have hot : o ∈ t := by
        rcases List.mem_cons.mp ho with e | h
        · exact absurd e.symm ha
        · exact h
      have hb : (a == o) = false := by simpa using ha
      simp only [hb, cond_false, List.set_cons_succ, List.nodup_cons]
      refine ⟨?_, ih hnd.2 hot ?_⟩
      · rw [mem_set_idxOf t o n a hnd.2 hot]
        rintro (e | ⟨h, _⟩)
        · rcases hn with e2 | h2
          · exact ha (e.trans e2)
          · exact h2 (e ▸ List.mem_cons_self)
        · exact hnd.1 h
      · rcases hn with e | h
        · exact Or.inl e
        · exact Or.inr fun hx => h (List.mem_cons_of_mem _ hx)

/-- `update_policy` as an operation on a duplicate-free list = on a set -/
theorem updatePolicy_spec (l : List Rule) (old new : Rule) (hnd : l.Nodup) :
    (Plain.updatePolicy l old new).2 = (l.contains old && (new == old || !l.contains new)) ∧
    (Plain.updatePolicy l old new).1.Nodup ∧
    (∀ x, x ∈ (Plain.updatePolicy l old new).1 ↔
      if (Plain.updatePolicy l old new).2 then x = new ∨ (x ∈ l ∧ x ≠ old) else x ∈ l) := by
  unfold Plain.updatePolicy
  by_cases ho : l.contains old = true
  · have hom : old ∈ l := by simpa using ho
    by_cases hn : (new != old && l.contains new) = true
    · simp only [ho, Bool.not_true, Bool.false_eq_true, ↓reduceIte, hn]
      refine ⟨?_, hnd, by simp⟩
      simp only [Bool.and_eq_true, bne_iff_ne, ne_eq] at hn
      have : (new == old) = false := by simpa using hn.1
      have h2 : new ∈ l := by simpa using hn.2
      simp [this, h2]
    · simp only [ho, Bool.not_true, Bool.false_eq_true, ↓reduceIte, hn]
      have hn' : new = old ∨ new ∉ l := by
        simp only [Bool.and_eq_true, bne_iff_ne, ne_eq, not_and, List.contains_eq_mem, decide_eq_true_eq] at hn
        by_cases e : new = old
        · exact Or.inl e
        · exact Or.inr (hn e)
      refine ⟨?_, nodup_set_idxOf l old new hnd hom hn', ?_⟩
      · rcases hn' with e | h
        · simp [e]
        · simp [h]
      · intro x; exact mem_set_idxOf l old new x hnd hom
  · simp only [ho, Bool.not_false, ↓reduceIte, Bool.false_and]
    exact ⟨trivial, hnd, by simp⟩


/-! update_policies -/

/-- the substitution a batch of (old, new) pairs performs, later pairs winning -/
def substOf : List (Rule × Rule) → (Rule → Rule) → Rule → Rule
  | [], f => f
  | (o, n) :: rest, f => substOf rest (fun x => if x = o then n else f x)

theorem map_set_idxOf (l : List Rule) (f : Rule → Rule) (o n : Rule) (hnd : l.Nodup) (ho : o ∈ l) :
    (l.map f).set (l.idxOf o) n = l.map (fun x => if x = o then n else f x) := by
  induction l with
  | nil => simp at ho
  | cons a t ih =>
    simp only [List.nodup_cons] at hnd
    rw [List.idxOf_cons]
    by_cases ha : a = o
    · subst ha
      simp only [beq_self_eq_true, cond_true, List.map_cons, List.set_cons_zero, ↓reduceIte, List.cons.injEq, true_and]
      apply List.map_congr_left
      intro x hx
      have : x ≠ a := fun e => hnd.1 (e ▸ hx)
      simp [this]
    · have hot : o ∈ t := by
        rcases List.mem_cons.mp ho with e | h
        · exact absurd e.symm ha
        · exact h
      have hb : (a == o) = false := by simpa using ha
      simp only [hb, cond_false, List.map_cons, List.set_cons_succ, ha, ↓reduceIte, ih hnd.2 hot]

theorem foldl_set_eq_map (l : List Rule) (pairs : List (Rule × Rule)) (f : Rule → Rule) (hnd : l.Nodup)
    (ho : ∀ pr ∈ pairs, pr.1 ∈ l) :
    (pairs.map (Prod.map l.idxOf id)).foldl (fun p (ix : Nat × Rule) => p.set ix.1 ix.2) (l.map f) =
      l.map (substOf pairs f) := by
  induction pairs generalizing f with
  | nil => rfl
  | cons pr rest ih =>
    obtain ⟨o, n⟩ := pr
    simp only [List.map_cons, List.foldl_cons, Prod.map_fst, Prod.map_snd, id_eq, substOf]
    rw [map_set_idxOf l f o n hnd (ho (o, n) (by simp))]
    exact ih _ (fun pr hpr => ho pr (by simp [hpr]))

/-- a substituted rule is one of the new rules, or it was not touched -/
theorem substOf_cases (pairs : List (Rule × Rule)) (f : Rule → Rule) (x : Rule) :
    substOf pairs f x ∈ pairs.map (·.2) ∨ substOf pairs f x = f x := by
  induction pairs generalizing f with
  | nil => exact Or.inr rfl
  | cons pr rest ih =>
    obtain ⟨o, n⟩ := pr
    simp only [substOf, List.map_cons, List.mem_cons]
    rcases ih (fun x => if x = o then n else f x) with h | h
    · exact Or.inl (Or.inr h)
    · rw [h]
      by_cases e : x = o
      · simp [e]
      · simp [e]

/-- the candidate policy of `update_policies` as a map over the old one -/
theorem updatePolicies_candidate (l : List Rule) (olds news : List Rule) (hnd : l.Nodup)
    (ho : ∀ o ∈ olds, o ∈ l) :
    ((olds.map l.idxOf).zip news).foldl (fun p (ix : Nat × Rule) => p.set ix.1 ix.2) l =
      l.map (substOf (olds.zip news) id) := by
  rw [List.zip_map_left]
  have := foldl_set_eq_map l (olds.zip news) id hnd (fun pr hpr => ho pr.1 (List.of_mem_zip hpr).1)
  simpa using this

/-- `update_policies` on two duplicate-free lists holding the same rules: same answer, and the
    results again hold the same rules and are duplicate-free -/
theorem updatePolicies_perm (l1 l2 : List Rule) (olds news : List Rule) (h1 : l1.Nodup) (h2 : l2.Nodup)
    (hsame : ∀ x, x ∈ l1 ↔ x ∈ l2) :
    (Plain.updatePolicies l1 olds news).2 = (Plain.updatePolicies l2 olds news).2 ∧
    (∀ x, x ∈ (Plain.updatePolicies l1 olds news).1 ↔ x ∈ (Plain.updatePolicies l2 olds news).1) ∧
    (Plain.updatePolicies l2 olds news).1.Nodup ∧
    (∀ x ∈ (Plain.updatePolicies l2 olds news).1, x ∈ l2 ∨ x ∈ news) := by
  have hperm : l1.Perm l2 := (List.perm_ext_iff_of_nodup h1 h2).mpr hsame
  have hc : ∀ r, l1.contains r = l2.contains r := fun r => by rw [Bool.eq_iff_iff]; simp [hsame]
  unfold Plain.updatePolicies
  by_cases hlen : (olds.length != news.length) = true
  · simp only [hlen, ↓reduceIte]; exact ⟨trivial, hsame, h2, fun x hx => Or.inl hx⟩
  · have hany : olds.any (fun o => !l1.contains o) = olds.any (fun o => !l2.contains o) := by
      have : (fun o => !l1.contains o) = (fun o => !l2.contains o) := funext fun o => by rw [hc]
      rw [this]
    simp only [hlen, Bool.false_eq_true, ↓reduceIte, hany]
    by_cases hdup : (olds.any fun o => decide (olds.count o > 1)) = true
    · simp only [hdup, ↓reduceIte]; exact ⟨trivial, hsame, h2, fun x hx => Or.inl hx⟩
    simp only [hdup, Bool.false_eq_true, ↓reduceIte]
    by_cases hab : olds.any (fun o => !l2.contains o) = true
    · simp only [hab, ↓reduceIte]; exact ⟨trivial, hsame, h2, fun x hx => Or.inl hx⟩
    · simp only [hab, Bool.false_eq_true, ↓reduceIte]
      have ho2 : ∀ o ∈ olds, o ∈ l2 := by
        intro o ho
        simp only [Bool.not_eq_true, List.any_eq_false, Bool.not_eq_true', List.contains_eq_mem, decide_eq_false_iff_not,
          Decidable.not_not] at hab
        simpa using hab o ho
      have ho1 : ∀ o ∈ olds, o ∈ l1 := fun o ho => (hsame o).mpr (ho2 o ho)
      rw [updatePolicies_candidate l1 olds news h1 ho1, updatePolicies_candidate l2 olds news h2 ho2]
      have hp' : (l1.map (substOf (olds.zip news) id)).Perm (l2.map (substOf (olds.zip news) id)) := hperm.map _
      have hcnt : ∀ r, (l1.map (substOf (olds.zip news) id)).count r = (l2.map (substOf (olds.zip news) id)).count r :=
        fun r => hp'.count_eq r
      simp only [hcnt]
      by_cases hdup : news.any (fun r => decide ((l2.map (substOf (olds.zip news) id)).count r > 1)) = true
      · simp only [hdup, ↓reduceIte]; exact ⟨trivial, hsame, h2, fun x hx => Or.inl hx⟩
      · simp only [hdup, Bool.false_eq_true, ↓reduceIte]
        have hsub : ∀ x ∈ l2.map (substOf (olds.zip news) id), x ∈ l2 ∨ x ∈ news := by
          intro x hx
          obtain ⟨y, hy, rfl⟩ := List.mem_map.mp hx
          rcases substOf_cases (olds.zip news) id y with h | h
          · right
            obtain ⟨pr, hpr, e⟩ := List.mem_map.mp h
            rw [← e]; exact (List.of_mem_zip hpr).2
          · left; rw [h]; exact hy
        refine ⟨trivial, fun x => hp'.mem_iff, ?_, hsub⟩
        rw [List.nodup_iff_count]
        intro a
        by_cases han : a ∈ news
        · simp only [Bool.not_eq_true, List.any_eq_false, decide_eq_false_iff_not, Nat.not_lt] at hdup
          simpa using hdup a han
        · rw [List.count_eq_countP, List.countP_map]
          calc List.countP ((fun x => x == a) ∘ substOf (olds.zip news) id) l2
              ≤ List.countP (fun x => x == a) l2 := by
                apply List.countP_mono_left
                intro y _ hy
                simp only [Function.comp_apply, beq_iff_eq] at hy
                rcases substOf_cases (olds.zip news) id y with h | h
                · exfalso; apply han
                  obtain ⟨pr, hpr, e⟩ := List.mem_map.mp h
                  rw [← hy, ← e]; exact (List.of_mem_zip hpr).2
                · rw [h] at hy; simpa using hy
            _ = List.count a l2 := (List.count_eq_countP).symm
            _ ≤ 1 := List.nodup_iff_count.mp h2 a


/-! the step theorem -/

/-- the calls of the main stream: rules of the policy's arity, filters inside the rule, loads without
    duplicate lines -/
def opAdmissible (sh : Shape) : Op → Prop
  | .add r => r.length = sh.cfg.pArity
  | .addMany rs => ∀ r ∈ rs, r.length = sh.cfg.pArity
  | .removeFiltered i vs => i + vs.length ≤ sh.cfg.pArity
  | .getFiltered i vs => i + vs.length ≤ sh.cfg.pArity
  | .removeFilteredEffects i vs => i + vs.length ≤ sh.cfg.pArity
  | .values i => i < sh.cfg.pArity
  | .update _ n => n.length = sh.cfg.pArity
  | .updateMany _ ns => ∀ r ∈ ns, r.length = sh.cfg.pArity
  | .load ps _ => ps.Nodup ∧ ∀ r ∈ ps, r.length = sh.cfg.pArity
  | _ => True

theorem any_has_eq (p : FastPolicy order) (l : List Rule) (rs : List Rule) (hinv : Inv p)
    (hsame : ∀ x, x ∈ p.iter ↔ x ∈ l) :
    rs.any (hasPolicy p) = rs.any (Plain.hasPolicy l) ∧
    rs.any (fun r => !hasPolicy p r) = rs.any (fun r => !Plain.hasPolicy l r) := by
  have : hasPolicy p = Plain.hasPolicy l := funext fun r => has_eq p l r hinv hsame
  simp [this]

theorem filter_isEmpty_eq (a b : List Rule) (f : Rule → Bool) (h : ∀ x, x ∈ a ↔ x ∈ b) :
    (a.filter f).isEmpty = (b.filter f).isEmpty := by
  rw [Bool.eq_iff_iff]
  simp only [List.isEmpty_iff, List.filter_eq_nil_iff]
  constructor
  · intro hh x hx; exact hh x ((h x).mpr hx)
  · intro hh x hx; exact hh x ((h x).mp hx)

theorem valuesLoop_spec (i : Nat) (l : List Rule) (acc : List String) (h : ∀ r ∈ l, i < r.length) :
    ∃ vs, Plain.valuesLoop i l acc = .ok vs ∧ ∀ x, x ∈ vs ↔ x ∈ acc ∨ ∃ r ∈ l, r[i]? = some x := by
  induction l generalizing acc with
  | nil => exact ⟨acc, rfl, by simp⟩
  | cons r rs ih =>
    have hi : i < r.length := h r (by simp)
    obtain ⟨vs, h1, h2⟩ := ih (if acc.contains r[i] then acc else acc ++ [r[i]]) (fun x hx => h x (by simp [hx]))
    refine ⟨vs, by simp only [Plain.valuesLoop, List.getElem?_eq_getElem hi, h1], ?_⟩
    intro x
    rw [h2]
    simp only [List.mem_cons, exists_eq_or_imp, List.getElem?_eq_getElem hi, Option.some.injEq]
    by_cases hc : acc.contains r[i] = true
    · simp only [hc, ↓reduceIte]
      constructor
      · rintro (h | h)
        · exact Or.inl h
        · exact Or.inr (Or.inr h)
      · rintro (h | h | h)
        · exact Or.inl h
        · subst h; exact Or.inl (by simpa using hc)
        · exact Or.inr h
    · simp only [hc, Bool.false_eq_true, ↓reduceIte, List.mem_append, List.mem_singleton]
      constructor
      · rintro ((h | h) | h)
        · exact Or.inl h
        · exact Or.inr (Or.inl h.symm)
        · exact Or.inr (Or.inr h)
      · rintro (h | h | h)
        · exact Or.inl (Or.inl h)
        · exact Or.inl (Or.inr h.symm)
        · exact Or.inr h

theorem step_sim (sh : Shape) (fs : FastState order) (ps : PlainState) (op : Op)
    (hadm : admissible sh order) (hsim : Sim sh fs ps) (hop : opAdmissible sh op) :
    Sim sh (stepFast sh fs op).1 (stepPlain sh ps op).1 ∧
      Res.equiv (stepFast sh fs op).2 (stepPlain sh ps op).2 := by
  obtain ⟨hne, hord⟩ := admissible_lt sh hadm
  obtain ⟨hinv, hsame, hnd, hsized, hg⟩ := hsim
  cases op with
  | add r =>
    obtain ⟨p', h1, hi, hs, hn, hm⟩ := add_sim _ fs.p ps.p r hne hord hop hinv hsame hnd
    simp only [stepFast, stepPlain, h1]
    refine ⟨⟨hi, hs, hn, ?_, hg⟩, rfl⟩
    intro x hx
    rcases (hm x).mp hx with e | h
    · subst e; exact hop
    · exact hsized x h
  | remove r =>
    obtain ⟨p', h1, hi, hs, hn, hm⟩ := remove_sim fs.p ps.p r hne hinv hsame hnd
    simp only [stepFast, stepPlain, h1]
    exact ⟨⟨hi, hs, hn, fun x hx => hsized x ((hm x).mp hx).2, hg⟩, rfl⟩
  | addMany rs =>
    simp only [stepFast, stepPlain, addPolicies, Plain.addPolicies, (any_has_eq fs.p ps.p rs hinv hsame).1]
    by_cases hany : rs.any (Plain.hasPolicy ps.p) = true
    · simp only [hany, ↓reduceIte]
      exact ⟨⟨hinv, hsame, hnd, hsized, hg⟩, rfl⟩
    · obtain ⟨p', h1, hi, hs, hn, hm⟩ := addEach_sim _ rs fs.p ps.p hne hord hop hinv hsame hnd
      simp only [hany, Bool.false_eq_true, ↓reduceIte, h1]
      refine ⟨⟨hi, hs, hn, ?_, hg⟩, rfl⟩
      intro x hx
      rcases (hm x).mp hx with h | h
      · exact hsized x h
      · exact hop x h
  | removeMany rs =>
    simp only [stepFast, stepPlain, removePolicies, Plain.removePolicies, (any_has_eq fs.p ps.p rs hinv hsame).2]
    by_cases hany : rs.any (fun r => !Plain.hasPolicy ps.p r) = true
    · simp only [hany, ↓reduceIte]
      exact ⟨⟨hinv, hsame, hnd, hsized, hg⟩, rfl⟩
    · obtain ⟨p', h1, hi, hs, hn, hm⟩ := removeEach_sim rs fs.p ps.p hne hinv hsame hnd
      simp only [hany, Bool.false_eq_true, ↓reduceIte, h1]
      exact ⟨⟨hi, hs, hn, fun x hx => hsized x ((hm x).mp hx).1, hg⟩, rfl⟩
  | removeFiltered i vs =>
    have hiter : ∀ r ∈ fs.p.iter, i + vs.length ≤ r.length := fun r hr => by
      rw [hsized r ((hsame r).mp hr)]; exact hop
    have hpl : ∀ r ∈ ps.p, i + vs.length ≤ r.length := fun r hr => by rw [hsized r hr]; exact hop
    obtain ⟨p', h1, hi, hs⟩ := ofList_spec (order := order) sh.cfg.pArity (fs.p.iter.filter (fun r => !fm r i vs)) hne hord
      (fun r hr => hsized r ((hsame r).mp (List.mem_filter.mp hr).1))
    simp only [stepFast, stepPlain, removeFiltered, Plain.removeFiltered, splitFiltered_ok i vs _ hiter,
      splitFiltered_ok i vs _ hpl, h1]
    refine ⟨⟨hi, ?_, hnd.filter _, fun x hx => hsized x (List.mem_filter.mp hx).1, hg⟩, ?_⟩
    · intro x; rw [hs]; simp only [List.mem_filter, hsame]
    · simp only [resOfBool, Res.equiv, filter_isEmpty_eq _ _ _ hsame]
  | removeFilteredEffects i vs =>
    have hiter : ∀ r ∈ fs.p.iter, i + vs.length ≤ r.length := fun r hr => by
      rw [hsized r ((hsame r).mp hr)]; exact hop
    have hpl : ∀ r ∈ ps.p, i + vs.length ≤ r.length := fun r hr => by rw [hsized r hr]; exact hop
    simp only [stepFast, stepPlain, removeFilteredEffects, Plain.removeFilteredEffects]
    · obtain ⟨p', h1, hi, hs⟩ := ofList_spec (order := order) sh.cfg.pArity (fs.p.iter.filter (fun r => !fm r i vs)) hne hord
        (fun r hr => hsized r ((hsame r).mp (List.mem_filter.mp hr).1))
      simp only [splitFiltered_ok i vs _ hiter, splitFiltered_ok i vs _ hpl, h1]
      refine ⟨⟨hi, ?_, hnd.filter _, fun x hx => hsized x (List.mem_filter.mp hx).1, hg⟩, ?_⟩
      · intro x; rw [hs]; simp only [List.mem_filter, hsame]
      · intro x; simp only [List.mem_filter, hsame]
  | values i =>
    obtain ⟨v1, h1, m1⟩ := valuesLoop_spec i fs.p.iter [] (fun r hr => by rw [hsized r ((hsame r).mp hr)]; exact hop)
    obtain ⟨v2, h2, m2⟩ := valuesLoop_spec i ps.p [] (fun r hr => by rw [hsized r hr]; exact hop)
    simp only [stepFast, stepPlain, valuesForField, Plain.valuesForField, h1, h2]
    refine ⟨⟨hinv, hsame, hnd, hsized, hg⟩, ?_⟩
    intro x
    simp only [List.mem_map, m1, m2, List.not_mem_nil, false_or, hsame]
  | getFiltered i vs =>
    have hiter : ∀ r ∈ fs.p.iter, i + vs.length ≤ r.length := fun r hr => by
      rw [hsized r ((hsame r).mp hr)]; exact hop
    have hpl : ∀ r ∈ ps.p, i + vs.length ≤ r.length := fun r hr => by rw [hsized r hr]; exact hop
    simp only [stepFast, stepPlain, getFiltered, Plain.getFiltered, splitFiltered_ok i vs _ hiter,
      splitFiltered_ok i vs _ hpl]
    refine ⟨⟨hinv, hsame, hnd, hsized, hg⟩, ?_⟩
    intro x; simp only [List.mem_filter, hsame]
  | update o n =>
    have hnd' := iter_nodup fs.p hinv
    obtain ⟨hb1, hn1, hm1⟩ := updatePolicy_spec fs.p.iter o n hnd'
    obtain ⟨hb2, hn2, hm2⟩ := updatePolicy_spec ps.p o n hnd
    have hc : ∀ r, fs.p.iter.contains r = ps.p.contains r := fun r => by
      rw [Bool.eq_iff_iff]; simp [hsame]
    have hbeq : (Plain.updatePolicy fs.p.iter o n).2 = (Plain.updatePolicy ps.p o n).2 := by
      rw [hb1, hb2, hc, hc]
    have hmem : ∀ x, x ∈ (Plain.updatePolicy fs.p.iter o n).1 ↔ x ∈ (Plain.updatePolicy ps.p o n).1 := by
      intro x; rw [hm1, hm2, hbeq]; simp only [hsame]
    have hsz : ∀ x ∈ (Plain.updatePolicy ps.p o n).1, x.length = sh.cfg.pArity := by
      intro x hx
      rw [hm2] at hx
      split at hx
      · rcases hx with e | h
        · subst e; exact hop
        · exact hsized x h.1
      · exact hsized x hx
    obtain ⟨p', h1, hi, hs⟩ := ofList_spec (order := order) sh.cfg.pArity (Plain.updatePolicy fs.p.iter o n).1 hne hord
      (fun r hr => hsz r ((hmem r).mp hr))
    simp only [stepFast, stepPlain, updatePolicy, h1]
    refine ⟨⟨hi, fun x => by rw [hs, hmem], hn2, hsz, hg⟩, ?_⟩
    simp only [resOfBool, Res.equiv, hbeq]
  | updateMany os ns =>
    have hnd' := iter_nodup fs.p hinv
    obtain ⟨hb, hmem, hn2, hsub⟩ := updatePolicies_perm fs.p.iter ps.p os ns hnd' hnd hsame
    have hsz : ∀ x ∈ (Plain.updatePolicies ps.p os ns).1, x.length = sh.cfg.pArity :=
      fun x hx => (hsub x hx).elim (hsized x) (hop x)
    obtain ⟨p', h1, hi, hs⟩ := ofList_spec (order := order) sh.cfg.pArity (Plain.updatePolicies fs.p.iter os ns).1 hne hord
      (fun r hr => hsz r ((hmem r).mp hr))
    simp only [stepFast, stepPlain, updatePolicies, h1]
    refine ⟨⟨hi, fun x => by rw [hs, hmem], hn2, hsz, hg⟩, ?_⟩
    simp only [resOfBool, Res.equiv, hb]
  | clear =>
    simp only [stepFast, stepPlain]
    exact ⟨⟨inv_new order, by intro x; simp [FastPolicy.iter, FastPolicy.new, flatten_empty], by simp, by simp, rfl⟩, trivial⟩
  | load rs gs =>
    obtain ⟨p', h1, hi, hs⟩ := ofList_spec (order := order) sh.cfg.pArity rs hne hord hop.2
    simp only [stepFast, stepPlain, h1]
    exact ⟨⟨hi, hs, hop.1, hop.2, rfl⟩, trivial⟩
  | has r =>
    simp only [stepFast, stepPlain, hasPolicy, Plain.hasPolicy, has_eq fs.p ps.p r hinv hsame]
    exact ⟨⟨hinv, hsame, hnd, hsized, hg⟩, rfl⟩
  | get =>
    simp only [stepFast, stepPlain]
    exact ⟨⟨hinv, hsame, hnd, hsized, hg⟩, hsame⟩
  | enforce req =>
    have := fast_eq_plain_shape sh fs.g fs.p ps.p req hadm hinv hsame hsized
    rw [hg] at this
    simp only [stepFast, stepPlain, hg, this]
    refine ⟨⟨hinv, hsame, hnd, hsized, rfl⟩, ?_⟩
    cases enforce sh.cfg (sh.matcher ps.g) ps.p req <;> simp [resOfEnf, Res.equiv]
  | addG r =>
    simp only [stepFast, stepPlain, hg]
    split
    · exact ⟨⟨hinv, hsame, hnd, hsized, hg⟩, rfl⟩
    · exact ⟨⟨hinv, hsame, hnd, hsized, rfl⟩, rfl⟩
  | removeG r =>
    simp only [stepFast, stepPlain, hg]
    split
    · exact ⟨⟨hinv, hsame, hnd, hsized, hg⟩, rfl⟩
    · exact ⟨⟨hinv, hsame, hnd, hsized, rfl⟩, rfl⟩


/-- a whole history: final state and the result of every call -/
def runFast (sh : Shape) : FastState order → List Op → FastState order × List Res
  | s, [] => (s, [])
  | s, op :: ops => ((runFast sh (stepFast sh s op).1 ops).1, (stepFast sh s op).2 :: (runFast sh (stepFast sh s op).1 ops).2)

def runPlain (sh : Shape) : PlainState → List Op → PlainState × List Res
  | s, [] => (s, [])
  | s, op :: ops => ((runPlain sh (stepPlain sh s op).1 ops).1, (stepPlain sh s op).2 :: (runPlain sh (stepPlain sh s op).1 ops).2)

/-- call-by-call comparison of two result sequences -/
def resultsEquiv : List Res → List Res → Prop
  | [], [] => True
  | a :: as, b :: bs => Res.equiv a b ∧ resultsEquiv as bs
  | _, _ => False

theorem sim_init (sh : Shape) (order : List Nat) : Sim sh ({} : FastState order) ({} : PlainState) :=
  ⟨inv_new order, by intro x; simp [FastPolicy.iter, flatten_empty], by simp, by simp, rfl⟩

theorem run_sim (sh : Shape) (fs : FastState order) (ps : PlainState) (ops : List Op)
    (hadm : admissible sh order) (hsim : Sim sh fs ps) (hops : ∀ op ∈ ops, opAdmissible sh op) :
    Sim sh (runFast sh fs ops).1 (runPlain sh ps ops).1 ∧
      resultsEquiv (runFast sh fs ops).2 (runPlain sh ps ops).2 := by
  induction ops generalizing fs ps with
  | nil => exact ⟨hsim, trivial⟩
  | cons op ops ih =>
    obtain ⟨h1, h2⟩ := step_sim sh fs ps op hadm hsim (hops op (by simp))
    obtain ⟨h3, h4⟩ := ih _ _ h1 (fun o ho => hops o (by simp [ho]))
    exact ⟨h3, h2, h4⟩

/-- **The property over whole histories.** For the ACL, RBAC and RBAC-with-deny models, every
    admissible cache-key order and every management history of admissible calls (single and batch
    add/remove, filtered removal, update, clear, load, queries, grouping changes, enforce — of any
    length, in any interleaving), started from the empty policy: every call returns the same result on
    `FastEnforcer` as on `Enforcer` (rule lists as sets, decisions and exceptions equal), and both end
    with the same set of rules. -/
theorem history_sim (sh : Shape) (order : List Nat) (ops : List Op)
    (hadm : admissible sh order) (hops : ∀ op ∈ ops, opAdmissible sh op) :
    Sim sh (runFast sh ({} : FastState order) ops).1 (runPlain sh {} ops).1 ∧
      resultsEquiv (runFast sh ({} : FastState order) ops).2 (runPlain sh {} ops).2 :=
  run_sim sh _ _ ops hadm (sim_init sh order) hops

/-- after any admissible history, every request (any arity, any values) gets the same answer -/
theorem decision_after_history (sh : Shape) (order : List Nat) (ops : List Op) (req : List String)
    (hadm : admissible sh order) (hops : ∀ op ∈ ops, opAdmissible sh op) :
    (stepFast sh (runFast sh ({} : FastState order) ops).1 (.enforce req)).2 =
      (stepPlain sh (runPlain sh {} ops).1 (.enforce req)).2 := by
  obtain ⟨⟨hinv, hsame, _, hsized, hg⟩, _⟩ := history_sim sh order ops hadm hops
  have := fast_eq_plain_shape sh (runPlain sh {} ops).1.g _ _ req hadm hinv hsame hsized
  simp only [stepFast, stepPlain, hg, this]


/-! ## 5. Non-vacuity -/

section Examples

def exOps : List COp :=
  [.append ["alice", "data1", "read"], .append ["bob", "data2", "write"], .append ["bob"],
   .remove ["alice", "data1", "read"], .append ["alice", "data2", "write"]]

/-- `container_is_set`, `bucket_exact_history`, `index_never_hides`, `index_never_resurrects`: a history
    with a rejected (too short) rule, a removal and two rules sharing a bucket -/
example :
    ([2, 1] : List Nat) ≠ [] ∧
    runS [2, 1] [] exOps = [["bob", "data2", "write"], ["alice", "data2", "write"]] ∧
    keysOf [2, 1] ["alice", "data2", "write"] = some ["write", "data2"] ∧
    (runC (FastPolicy.new [2, 1]) exOps).bucket ["write", "data2"] = [["bob", "data2", "write"], ["alice", "data2", "write"]] ∧
    (runC (FastPolicy.new [2, 1]) exOps).bucket ["read", "data1"] = [] ∧
    (runC (FastPolicy.new [2, 1]) exOps).contains ["alice", "data1", "read"] = false := by
  decide

/-- `fast_eq_plain` / `fast_eq_plain_shape`: the hypotheses are met by the state after a history, for
    the RBAC shape keyed on (act, obj), and the decision is a non-trivial `true` through a role -/
example :
    let ops : List COp := [.append ["admin", "data1", "read"], .append ["bob", "data2", "write"]]
    let p := runC (FastPolicy.new [2, 1]) ops
    let plain := runS [2, 1] [] ops
    Inv p ∧ (∀ x, x ∈ p.iter ↔ x ∈ plain) ∧ admissible .rbac [2, 1] ∧
      (∀ r ∈ plain, r.length = Shape.rbac.cfg.pArity) ∧
      (fastEnforce Shape.rbac.cfg (Shape.rbac.matcher [["alice", "admin"]]) p ["alice", "data1", "read"]).2 = .ok true ∧
      (fastEnforce Shape.rbac.cfg (Shape.rbac.matcher [["alice", "admin"]]) p ["alice", "data2", "write"]).2 = .ok false := by
  intro ops p plain
  have h := container_is_set (order := [2, 1]) (by decide) ops
  exact ⟨h.1, h.2.2, by simp [admissible], by decide, by decide, by decide⟩

/-- `fast_eq_plain_partial`: each disjunct of the side condition is satisfiable (non-empty bucket;
    empty policy; matcher false on the empty rule) -/
example :
    onList [2, 1] [["alice", "data1", "read"]] (fun p => p.bucket ["read", "data1"]) [] ≠ [] ∧
    ((Shape.acl.matcher []) ["alice", "data1", "read"] (List.replicate 3 "")).truthy = false := by
  decide

/-- `view_eq_plain` with an *empty* view of a non-empty policy (the case F14e repairs) -/
example :
    enforceView Shape.acl.cfg (Shape.acl.matcher []) 1 [] ["", "", ""] = .ok false ∧
    enforce Shape.acl.cfg (Shape.acl.matcher []) [["alice", "data1", "read"]] ["", "", ""] = .ok false := by
  decide

/-- `filtered_removal_breaks_enforce_unrepaired`: the hypothesis is satisfiable -/
example : ∃ o' b, removeFilteredUnrepaired (.fast (FastPolicy.new [2, 1])) 0 ["alice"] = .ok (o', b) :=
  ⟨_, _, rfl⟩

def exHistory : List Op :=
  [.add ["alice", "data1", "read"], .addMany [["bob", "data2", "write"], ["alice", "data2", "read"]],
   .removeFiltered 1 ["data2", "read"], .update ["alice", "data1", "read"] ["alice", "data1", "write"],
   .enforce ["alice", "data1", "write"], .enforce ["", "", ""], .removeMany [["bob", "data2", "write"]],
   .updateMany [["alice", "data1", "write"]] [["carol", "data3", "read"]], .get]

/-- `step_sim` / `history_sim` / `decision_after_history`: an admissible history with non-trivial results -/
example :
    admissible .acl [0, 1, 2] ∧ (∀ op ∈ exHistory, opAdmissible .acl op) ∧
    (runPlain .acl {} exHistory).2 =
      [.bool true, .bool true, .bool true, .bool true, .bool true, .bool false, .bool true, .bool true,
       .rules [["carol", "data3", "read"]]] := by
  refine ⟨by simp [admissible], ?_, by decide⟩
  intro op h
  simp only [exHistory, List.mem_cons, List.not_mem_nil, or_false] at h
  rcases h with rfl | rfl | rfl | rfl | rfl | rfl | rfl | rfl | rfl <;> simp [opAdmissible, Shape.cfg]

end Examples

end Casbin.C19
