/-!
# Line protocol helpers for the driver (core Lean only)

Fields are TAB-separated. Arbitrary strings travel as dot-separated decimal code points (`-` = empty
string); lists as `;`-separated items; rules as `|`-separated fields; booleans `T`/`F`.
-/
namespace Proto

def encStr (s : String) : String :=
  if s.isEmpty then "-" else ".".intercalate (s.toList.map fun c => toString c.toNat)

def decStr (s : String) : Option String :=
  if s == "-" then some ""
  else
    let parts := s.splitOn "."
    parts.foldl (init := some "") fun acc p =>
      match acc, p.toNat? with
      | some a, some n => if n.isValidChar then some (a.push (Char.ofNat n)) else none
      | _, _ => none

def encBool (b : Bool) : String := if b then "T" else "F"
def decBool (s : String) : Option Bool := if s == "T" then some true else if s == "F" then some false else none

/-- `;`-separated list; the empty list is the empty field or `~` -/
def decList (s : String) (sep : String := ";") : List String :=
  if s.isEmpty || s == "~" then [] else s.splitOn sep

def encList (l : List String) (sep : String := ";") : String :=
  if l.isEmpty then "~" else sep.intercalate l

def decStrList (s : String) (sep : String := ";") : Option (List String) :=
  (decList s sep).mapM decStr

def encStrList (l : List String) (sep : String := ";") : String :=
  encList (l.map encStr) sep

/-- a rule: `|`-separated encoded fields; `~` = the empty rule -/
def decRule (s : String) : Option (List String) := decStrList s "|"
def encRule (r : List String) : String := encStrList r "|"

def decRules (s : String) : Option (List (List String)) := (decList s ";").mapM decRule
def encRules (rs : List (List String)) : String := encList (rs.map encRule) ";"

def fields (line : String) : List String :=
  let l := if line.endsWith "\n" then (line.dropEnd 1).toString else line
  l.splitOn "\t"

end Proto
